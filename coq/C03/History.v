(* C03 -- calls on an object with a history: once is_running() found the process gone or its pid recycled, the
   calls guarded by _raise_if_pid_reused() raise NoSuchProcess -- for EVERY pid, the cached lowest pid included. *)
From PV Require Import Base.Prelude C03.Model C03.Spec.
Local Open Scope list_scope.

Lemma flag_on_set_other : forall s n m b, n <> m -> flag_on (set_flag s m b) n = flag_on s n.
Proof.
  intros s n m b Hne. unfold flag_on, set_flag. simpl. destruct b; simpl.
  - destruct (Nat.eqb n m) eqn:E; [apply Nat.eqb_eq in E; contradiction | reflexivity].
  - induction (s_flags s) as [|x r IH]; simpl; auto.
    destruct (Nat.eqb m x) eqn:E1; simpl.
    + apply Nat.eqb_eq in E1. subst x.
      destruct (Nat.eqb n m) eqn:E2; [apply Nat.eqb_eq in E2; contradiction | exact IH].
    + rewrite IH. reflexivity.
Qed.

Definition knows_gone (s : st) : Prop := flag_on s F_GONE = true \/ flag_on s F_REUSED = true.

(* _raise_if_pid_reused() on an object that knows: raises, before anything else, without touching the OS *)
Lemma check_raises : forall w cx s, knows_gone s -> exec w h_check cx s = (SRaise (XNSP Self), s).
Proof.
  intros w cx s H. unfold h_check. cbn [exec eval_test].
  destruct (flag_on s F_GONE) eqn:G; destruct (flag_on s F_REUSED) eqn:R; cbn [exec eval_test];
    try rewrite G; try rewrite R; try reflexivity.
  destruct H; congruence.
Qed.

Lemma run_raise : forall w p s x s', exec w p XPy s = (SRaise x, s') -> fst (run w p s) = RExc x.
Proof. intros. unfold run. rewrite H. reflexivity. Qed.

Theorem parent_knows : forall w s, knows_gone s -> fst (run w h_parent s) = RExc (XNSP Self).
Proof.
  intros w s H. eapply run_raise. unfold h_parent, parent_with.
  cbn [exec seqs]. rewrite (check_raises w XPy s H). reflexivity.
Qed.
Theorem children_knows : forall w s, knows_gone s -> fst (run w h_children s) = RExc (XNSP Self).
Proof.
  intros w s H. eapply run_raise. unfold h_children, children_with.
  cbn [exec seqs]. rewrite (check_raises w XPy s H). reflexivity.
Qed.
Theorem children_rec_knows : forall w s, knows_gone s -> fst (run w h_children_rec s) = RExc (XNSP Self).
Proof.
  intros w s H. eapply run_raise. unfold h_children_rec, children_rec_with.
  cbn [exec seqs]. rewrite (check_raises w XPy s H). reflexivity.
Qed.
Theorem ppid_knows : forall w s, knows_gone s -> s_cache s = false -> fst (run w h_ppid s) = RExc (XNSP Self).
Proof.
  intros w s H Hc. eapply run_raise. unfold h_ppid.
  cbn [exec]. rewrite Hc. cbn [exec]. rewrite (check_raises w XPy s H). reflexivity.
Qed.
Theorem parents_knows : forall w s, knows_gone s -> fst (run w h_parents s) = RExc (XNSP Self).
Proof.
  intros w s H. eapply run_raise. unfold h_parents, parents_with.
  cbn [exec seqs].
  assert (K : knows_gone (set_flag s F_HASPARENT false)).
  { destruct H as [H | H]; [left | right]; rewrite flag_on_set_other; auto; discriminate. }
  unfold h_parent, parent_with. cbn [exec seqs].
  rewrite (check_raises w XPy _ K). reflexivity.
Qed.

(* ---- is_running() on a process that is gone (directory removed or half-removed) marks the object *)
Section Gone.
Variable w : world.

Lemma answer_gone : forall s i k f cur, gone w s = true -> (s_idx s <= i)%nat ->
  is_piddir {| l_kind := k; l_who := Self; l_file := f |} = false ->
  answer w i {| l_kind := k; l_who := Self; l_file := f |} cur = Err (vanish_errno k).
Proof.
  intros s i k f cur Hg Hi Hd. unfold answer, rwho, vanished. simpl l_who. cbv iota.
  assert (G : gone_at w i = true).
  { unfold gone in Hg. unfold gone_at. destruct (w_vanish w); [|discriminate].
    apply Nat.ltb_lt in Hg. apply Nat.leb_le. lia. }
  rewrite G, Hd. rewrite andb_false_r. simpl. reflexivity.
Qed.

Theorem is_running_marks_gone : forall s, gone w s = true ->
  let rs := run w h_is_running s in
  fst rs = RVal /\ knows_gone (snd rs).
Proof.
  intros s Hg. unfold run.
  destruct (flag_on s F_GONE) eqn:G.
  { unfold h_is_running. cbn [exec eval_test]. rewrite G. simpl. split; auto. left; exact G. }
  destruct (flag_on s F_REUSED) eqn:R.
  { unfold h_is_running. cbn [exec eval_test]. rewrite G, R. simpl. split; auto. right; exact R. }
  unfold h_is_running, new_process, wrapped_at, raise_if_zombie, bcat, acc.
  cbn [exec eval_test seqs handlers hmatch]. rewrite G, R.
  cbn [exec eval_test seqs handlers hmatch set_flag s_idx s_cur tick l_kind l_file l_who].
  repeat (rewrite (answer_gone s) by (auto; simpl; lia);
          cbn [exec eval_test seqs handlers hmatch set_flag s_idx s_cur tick set_data l_kind l_file l_who
               xc_of vanish_errno]).
  simpl. split; auto. left. unfold flag_on. simpl. reflexivity.
Qed.
End Gone.

Definition guarded_calls : list prog := [ h_parent; h_parents; h_children; h_children_rec; h_ppid ].

Theorem knows_then_nsp : forall w p, In p guarded_calls ->
  forall s, knows_gone s -> s_cache s = false -> fst (run w p s) = RExc (XNSP Self).
Proof.
  intros w p Hp s H Hc. simpl in Hp.
  destruct Hp as [<- | [<- | [<- | [<- | [<- | []]]]]].
  - apply parent_knows; auto.
  - apply parents_knows; auto.
  - apply children_knows; auto.
  - apply children_rec_knows; auto.
  - apply ppid_knows; auto.
Qed.

(* the history (vanish ; is_running() -> False ; guarded call): for every world -- whatever the cached lowest pid,
   the boot time or any other world fact -- and both vanish modes *)
Theorem gone_is_running_then_nsp : forall w p, In p guarded_calls -> forall s, gone w s = true ->
  map fst (run_hist w [h_is_running; p] s) = [RVal; RExc (XNSP Self)].
Proof.
  intros w p Hp s Hg. cbn [run_hist map].
  destruct (is_running_marks_gone w s Hg) as [Hv Hk].
  rewrite Hv. f_equal. f_equal.
  apply knows_then_nsp; auto.
Qed.
