(* C03 round 2 -- a Python-shaped statement language for the exception-translation layer of
   psutil/_pslinux.py, and its meaning in the access-script language of Model.v.

   props/_c03_gen.py translates, from the CURRENT source on every run and failing closed,
     wrap_exceptions.wrapper, Process._is_zombie, Process._raise_if_zombie, Process._raise_if_not_alive
   into terms of [pblock] (coq/Gen/C03_Tables.v).  [compile] gives a block its meaning as a Model.prog
   (so that Model.exec runs it): which except-clause catches which OSError subclass, in which order,
   which follow-up probes (zombie check = read of the stat file, os.path.exists of the stat file) are
   made and which psutil error carrying whose pid is raised.  ProofsGen.v proves the translated blocks
   equal to the hand-written wrapped_at / raise_if_zombie / raise_if_not_alive of Model.v.
   No proofs here. *)
From PV Require Import Base.Prelude C03.Model.
Local Open Scope string_scope.
Local Open Scope list_scope.

(* a boolean result expression of a helper *)
Inductive pbool :=
| BConst (b : bool)
| BStatusIsZ.        (* rpar = data.rfind(b')'); status = data[rpar + 2 : rpar + 3]; status == b"Z"  (data = the file just read) *)

Inductive pcond :=
| CNotPathExists (file : string)      (* not os.path.exists(f"{self._procfs_path}/{pid}/<file>") *)
| CSelfCall (m : string)              (* self.<m>() *)
| CFallbackGiven.                     (* fallback is not UNSET *)

Inductive pstmt :=
| PReturnFun                          (* return fun(self, *args, **kwargs)   -- the decorated method *)
| PRaisePs (cls : string)             (* raise <cls>(<this object's pid>, <its name>[, its ppid]) [from err] *)
| PReraise                            (* raise *)
| PSelfCall (m : string)              (* self.<m>() as a statement *)
| PIf (c : pcond) (b : pblock)        (* if c: b        (no else) *)
| PTry (b : pblock) (hs : phandlers) (e : pblock)
| PAssignBcat (file : string)         (* data = bcat(f"{self._procfs_path}/{self.pid}/<file>") *)
| POsStat (file : string)             (* os.stat(f"{self._procfs_path}/{self.pid}<file>")     ("" = the directory) *)
| PReturnB (e : pbool)
| PReturnReadlink                     (* return readlink(path)          (path = the function's parameter) *)
| POsLstat (file : string)            (* os.lstat(f"{self._procfs_path}/{self.pid}/<file>") *)
| PReturnFallback                     (* return fallback *)
| PReturnSelfReadlink (file : string) (fb : bool)
                                      (* return self._readlink(f"{self._procfs_path}/{self.pid}/<file>"[, fallback=<constant>]) *)
with pblock := BNil | BCons (s : pstmt) (r : pblock)
with phandlers := HNil | HCons (classes : list string) (b : pblock) (r : phandlers).

(* ------------------------------------------------------------------ meaning *)
(* except (<classes>): the pattern of Model.hmatch with exactly that extent, if there is one *)
Definition has (c : string) (l : list string) := existsb (String.eqb c) l.
Definition hpat_of (cls : list string) : option hpat :=
  let f := has "FileNotFoundError" cls in let e := has "ProcessLookupError" cls in
  let p := has "PermissionError" cls in let o := has "OSError" cls in
  let known := forallb (fun c => has c ["FileNotFoundError"; "ProcessLookupError"; "PermissionError"; "OSError"]) cls in
  if negb known then None
  else if o then Some HOSError
  else match f, e, p with
       | true, false, false => Some HFnf
       | false, true, false => Some HEsrch
       | true, true, false => Some HFnfEsrch
       | false, false, true => Some HPerm
       | _, _, _ => None
       end.
Definition xc_of_cls (x : who) (cls : string) : option xc :=
  if String.eqb cls "AccessDenied" then Some (XAD x)
  else if String.eqb cls "NoSuchProcess" then Some (XNSP x)
  else if String.eqb cls "ZombieProcess" then Some (XZombie x)
  else None.

(* does control never fall out of the end of the block *)
Fixpoint always_raises (b : pblock) : bool :=
  match b with
  | BNil => false
  | BCons (PRaisePs _) BNil | BCons PReraise BNil => true
  | BCons _ r => always_raises r
  end.

Definition obind {A B} (o : option A) (k : A -> option B) : option B := match o with Some a => k a | None => None end.
Notation "'olet' x <- o ; k" := (obind o (fun x => k)) (at level 200, x name, o at level 100, k at level 200).

Section Compile.
Variable files : string -> option fid.          (* "stat" -> the stat file of the process, "" -> /proc/<pid> *)
Variable x : who.                               (* whose Process object runs the code *)
Variable body : prog.                           (* the decorated method *)
Variable senv : string -> option prog.          (* self.<m>() as a statement: the already compiled helpers *)
Variable benv : string -> option (prog -> prog -> prog).   (* self.<m>() as a condition: given then / else *)
Variable link : option prog.                    (* readlink(path) for the path this call was given *)
Variable fbgiven : bool.                        (* was a fallback passed *)
Variable rdl : string -> bool -> option prog.   (* self._readlink(<file of this process>, fallback given?) *)

(* a block used as a boolean function whose `return`s are all in tail position; [t] / [f] = what the caller does
   on True / False *)
Fixpoint cbool (b : pblock) (t f : prog) {struct b} : option prog :=
  match b with
  | BCons (PReturnB (BConst true)) BNil => Some t
  | BCons (PReturnB (BConst false)) BNil => Some f
  | BCons (PReturnB BStatusIsZ) BNil => Some (If TZombie t f)
  | BCons (PTry (BCons (PAssignBcat file) BNil) hs e) BNil =>
      olet fi <- files file;
      olet hs' <- cbool_h hs t f;
      olet e' <- cbool e t f;
      Some (Try (bcat x fi) (handlers hs') e')
  | _ => None
  end
with cbool_h (hs : phandlers) (t f : prog) {struct hs} : option (list (hpat * prog)) :=
  match hs with
  | HNil => Some []
  | HCons cls b r =>
      olet h <- hpat_of cls; olet b' <- cbool b t f; olet r' <- cbool_h r t f; Some ((h, b') :: r')
  end.

Fixpoint cstmt (s : pstmt) {struct s} : option prog :=
  match s with
  | PReturnFun => Some body
  | PRaisePs cls => olet e <- xc_of_cls x cls; Some (Raise e)
  | PReraise => Some Reraise
  | PSelfCall m => senv m
  | PIf (CSelfCall m) b => olet k <- benv m; olet b' <- cblock b; Some (k b' Skip)
  | PIf (CNotPathExists _) _ => None            (* only as handled in [cblock] *)
  | PIf CFallbackGiven b => if fbgiven then cblock b else Some Skip
  (* try: return readlink(path) / except ...:   ==   try: readlink(path) / except ...: / else: return *)
  | PTry (BCons PReturnReadlink BNil) hs BNil => olet l <- link; olet hs' <- chandlers hs; Some (Try l (handlers hs') Ret)
  | PTry b hs e => olet b' <- cblock b; olet hs' <- chandlers hs; olet e' <- cblock e; Some (Try b' (handlers hs') e')
  | PAssignBcat file => olet fi <- files file; Some (bcat x fi)
  | POsStat file => olet fi <- files file; Some (acc KStat x fi)
  | PReturnB _ => None
  | PReturnReadlink => None                     (* only as handled above *)
  | POsLstat file => olet fi <- files file; Some (acc KLstat x fi)
  | PReturnFallback => Some (Seq (SetFlag F_FALLBACK true) Ret)     (* the model remembers that the fallback was returned *)
  | PReturnSelfReadlink file fb => rdl file fb
  end
with cblock (b : pblock) {struct b} : option prog :=
  match b with
  | BNil => Some Skip
  (* if not os.path.exists(P): <raises> ; rest   -- os.path.exists = os.stat, any OSError means False *)
  | BCons (PIf (CNotPathExists file) th) r =>
      if always_raises th then
        olet fi <- files file; olet th' <- cblock th; olet r' <- cblock r;
        Some (Try (acc KStat x fi) (handlers [(HOSError, th')]) r')
      else None
  | BCons s BNil => cstmt s
  | BCons s r => olet s' <- cstmt s; olet r' <- cblock r; Some (Seq s' r')
  end
with chandlers (hs : phandlers) {struct hs} : option (list (hpat * prog)) :=
  match hs with
  | HNil => Some []
  | HCons cls b r => olet h <- hpat_of cls; olet b' <- cblock b; olet r' <- chandlers r; Some ((h, b') :: r')
  end.
End Compile.

(* the file names of the process [x] whose stat file is [st] *)
Definition pyfiles_of (st : fid) (name : string) : option fid :=
  if String.eqb name "stat" then Some st else if String.eqb name "" then Some FDir else None.

(* a method: is it decorated with @wrap_exceptions (and nothing else), and its body *)
Record pymeth := { m_wrapped : bool; m_body : pblock }.
(* the translated functions, linked: _is_zombie -> _raise_if_zombie -> wrapper, _readlink -> exe / cwd *)
Record pysrc := { py_is_zombie : pblock; py_raise_if_zombie : pblock; py_wrapper : pblock; py_raise_if_not_alive : pblock;
                  py_readlink : pblock; py_exe : pymeth; py_cwd : pymeth }.

Definition no_senv (_ : string) : option prog := None.
Definition no_benv (_ : string) : option (prog -> prog -> prog) := None.
Definition no_rdl (_ : string) (_ : bool) : option prog := None.

Definition c_raise_if_zombie (src : pysrc) (x : who) (st : fid) : option prog :=
  (* the condition self._is_zombie() must be compilable: probe it once, then pass the function *)
  olet _ <- cbool (pyfiles_of st) x (py_is_zombie src) Skip Skip;
  let benv m := if String.eqb m "_is_zombie"
                then Some (fun t f => match cbool (pyfiles_of st) x (py_is_zombie src) t f with Some p => p | None => Raise XPy end)
                else None in
  cblock (pyfiles_of st) x Skip no_senv benv None false no_rdl (py_raise_if_zombie src).

Definition c_wrapper (src : pysrc) (x : who) (st : fid) (body : prog) : option prog :=
  olet rz <- c_raise_if_zombie src x st;
  let senv m := if String.eqb m "_raise_if_zombie" then Some rz else None in
  cblock (pyfiles_of st) x body senv no_benv None false no_rdl (py_wrapper src).

Definition c_raise_if_not_alive (src : pysrc) : option prog :=
  cblock (pyfiles_of FStat) Self Skip no_senv no_benv None false no_rdl (py_raise_if_not_alive src).

(* Process._readlink(path, fallback) of the object under test for the link [f] ([del] = the "(deleted)" target that
   readlink()'s clean-up may stat, see Model.rl); the model's bookkeeping around it: a call boundary and the flag
   F_FALLBACK cleared on entry *)
Definition c_readlink (src : pysrc) (f del : fid) (fb : bool) : option prog :=
  olet rz <- c_raise_if_zombie src Self FStat;
  let senv m := if String.eqb m "_raise_if_zombie" then Some rz else None in
  olet b <- cblock (pyfiles_of FStat) Self Skip senv no_benv (Some (rl f del)) fb no_rdl (py_readlink src);
  Some (Call (Seq (SetFlag F_FALLBACK false) b)).

Definition link_files (name : string) : option (fid * fid) :=
  if String.eqb name "exe" then Some (FExe, FExeDel) else if String.eqb name "cwd" then Some (FCwd, FCwdDel) else None.
(* a decorated method of the platform Process class *)
Definition c_method (src : pysrc) (m : pymeth) : option prog :=
  let rdl name fb := olet fd <- link_files name; c_readlink src (fst fd) (snd fd) fb in
  olet b <- cblock (pyfiles_of FStat) Self Skip no_senv no_benv None false rdl (m_body m);
  if m_wrapped m then olet wb <- c_wrapper src Self FStat b; Some (Call wb) else Some (Call b).

(* running translated code = Model.exec of its meaning (None: not in the language's domain) *)
Definition py_exec (w : world) (p : option prog) (cx : xc) (s : st) : option (sig * st) :=
  option_map (fun q => exec w q cx s) p.
