(* C03 round 2 -- the exception-translation layer TRANSLATED from the current psutil/_pslinux.py
   (coq/Gen/C03_Tables.v, written by props/_c03_gen.py on every run) means exactly what the hand-written
   access scripts of Model.v say, for every process in focus, every decorated method body, every world
   of the fault model and every state. *)
From PV Require Import Base.Prelude C03.Model C03.PyGen Gen.C03_Tables.
Local Open Scope string_scope.
Local Open Scope list_scope.

(* Process._raise_if_zombie (with Process._is_zombie inlined at its call) = Model.raise_if_zombie *)
Lemma gen_raise_if_zombie_eq : forall (x : who) (st : fid),
  c_raise_if_zombie gen_src x st = Some (raise_if_zombie x st).
Proof. intros x st. reflexivity. Qed.

(* wrap_exceptions.wrapper around ANY method body = Model.wrapped_at: clause order PermissionError ->
   AccessDenied; ProcessLookupError -> zombie probe, NoSuchProcess; FileNotFoundError -> zombie probe,
   os.path.exists(stat) probe, NoSuchProcess or re-raise *)
Lemma gen_wrap_exceptions_eq : forall (x : who) (st : fid) (body : prog),
  c_wrapper gen_src x st body = Some (wrapped_at x st body).
Proof. intros x st body. reflexivity. Qed.

Lemma gen_raise_if_not_alive_eq : c_raise_if_not_alive gen_src = Some raise_if_not_alive.
Proof. reflexivity. Qed.

(* ... hence the translated code RUNS as the model's scripts do, in every world, from every state *)
Lemma gen_wrap_exceptions_exec : forall (w : world) (x : who) (st : fid) (body : prog) (cx : xc) (s : Model.st),
  py_exec w (c_wrapper gen_src x st body) cx s = Some (exec w (wrapped_at x st body) cx s).
Proof. intros. unfold py_exec. rewrite gen_wrap_exceptions_eq. reflexivity. Qed.

Lemma gen_raise_if_zombie_exec : forall (w : world) (x : who) (st : fid) (cx : xc) (s : Model.st),
  py_exec w (c_raise_if_zombie gen_src x st) cx s = Some (exec w (raise_if_zombie x st) cx s).
Proof. intros. unfold py_exec. rewrite gen_raise_if_zombie_eq. reflexivity. Qed.

Lemma gen_raise_if_not_alive_exec : forall (w : world) (cx : xc) (s : Model.st),
  py_exec w (c_raise_if_not_alive gen_src) cx s = Some (exec w raise_if_not_alive cx s).
Proof. intros. unfold py_exec. rewrite gen_raise_if_not_alive_eq. reflexivity. Qed.

(* the model's instances that the method scripts are built from *)
Lemma gen_wrapped_self : forall body, c_wrapper gen_src Self FStat body = Some (wrapped body).
Proof. intros. apply gen_wrap_exceptions_eq. Qed.

(* Process._readlink(path, fallback=<given>): ENOENT/ESRCH of the link -> os.lstat probe of the stat file (only
   ENOENT/ESRCH of the probe mean "gone"; a refusal propagates), zombie check, fallback; else re-raise *)
Lemma gen_readlink_eq : forall (f del : fid), c_readlink gen_src f del true = Some (readlink_fb f del).
Proof. intros f del. reflexivity. Qed.
(* Process.exe / Process.cwd: @wrap_exceptions around self._readlink(<link>, fallback="") *)
Lemma gen_exe_eq : c_method gen_src (py_exe gen_src) = Some i_exe.
Proof. reflexivity. Qed.
Lemma gen_cwd_eq : c_method gen_src (py_cwd gen_src) = Some i_cwd.
Proof. reflexivity. Qed.
Lemma gen_exe_exec : forall (w : world) (cx : xc) (s : Model.st),
  py_exec w (c_method gen_src (py_exe gen_src)) cx s = Some (exec w i_exe cx s).
Proof. intros. unfold py_exec. rewrite gen_exe_eq. reflexivity. Qed.
