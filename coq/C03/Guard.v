(* C03 -- the computable guard analysis.  [an opt p cx A] over-approximates, for EVERY world of
   the fault model, what script [p] can do when started in one of the abstract states [A]:
   a = (gone?, oneshot cache active?), result = how p ends (normally / return / raising class x)
   and in which abstract state.  [opt l] says whether access l may fail with ENOENT/ESRCH (and EINVAL)
   even while the process is alive (an optional or racing file); every other per-process access can,
   while the process is alive, only succeed or be refused.  Definitions only; soundness is in Proofs.v. *)
From PV Require Import Base.Prelude C03.Model.
Local Open Scope list_scope.

(* abstract state: is the object's process gone / is the oneshot cache active / is the OTHER process in focus
   (the current entry: a child, the parent, a listed pid) gone *)
Definition astate := (bool * bool * bool)%type.
Definition ag (a : astate) : bool := fst (fst a).
Definition ac (a : astate) : bool := snd (fst a).
Definition ao (a : astate) : bool := snd a.
Inductive asig := ANormal | AReturn | ARaise (x : xc).
Definition ares := list (asig * astate).

Definition who_eq_dec : forall a b : who, {a = b} + {a <> b}. Proof. decide equality. Defined.
Definition xc_eq_dec : forall a b : xc, {a = b} + {a <> b}. Proof. decide equality; apply who_eq_dec. Defined.
Definition asig_eq_dec : forall a b : asig, {a = b} + {a <> b}. Proof. decide equality; apply xc_eq_dec. Defined.
Definition ast_eq_dec : forall a b : astate, {a = b} + {a <> b}.
Proof. decide equality. apply Bool.bool_dec. decide equality; apply Bool.bool_dec. Defined.
Definition ar_eq_dec : forall a b : asig * astate, {a = b} + {a <> b}.
Proof. decide equality. apply ast_eq_dec. apply asig_eq_dec. Defined.
Definition dd (l : ares) : ares := nodup ar_eq_dec l.

Definition vx (k : akind) : xc := xc_of (vanish_errno k).
(* a process that is gone stays gone; one that is there may be gone after the next access *)
Definition gs (g : bool) : list bool := if g then [true] else [false; true].
Definition extras (o : oclass) : list xc :=
  match o with Strict | DirSurvives => [] | MayEnoent => [XFnf] | MayVanish => [XFnf; XEsrch]
  | MayVanishOrInval => [XFnf; XEsrch; XOsOther] end.
Definition live_sigs (o : oclass) : list asig := ANormal :: ARaise XPerm :: map ARaise (extras o).
(* whose disappearance makes the access fail *)
Inductive fail_by := ByG | ByO | ByNone.
Definition failed (fb : fail_by) (g' o' : bool) : bool := match fb with ByG => g' | ByO => o' | ByNone => false end.
Definition acc_gen (fb : fail_by) (sigs : list asig) (k : akind) (a : astate) : ares :=
  flat_map (fun g' => flat_map (fun o' =>
      map (fun sg => (sg, (g', ac a, o'))) (if failed fb g' o' then [ARaise (vx k)] else sigs))
    (gs (ao a))) (gs (ag a)).
Definition acc_who (x : who) (o : oclass) (k : akind) (a : astate) : ares :=
  match x with
  | Self => acc_gen ByG (live_sigs o) k a
            ++ match o with DirSurvives => acc_gen ByNone (live_sigs o) k a | _ => [] end
  | Other => acc_gen ByO (live_sigs o) k a
  | Ext => acc_gen ByNone (live_sigs o) k a
  | Global => acc_gen ByNone [ANormal] k a
  | Any => acc_gen ByO (live_sigs o) k a
           ++ match o with DirSurvives => acc_gen ByNone (live_sigs o) k a | _ => [] end
  end.
(* abstract states a loop iteration can start in: the object's process stays gone once gone; the cache flag and
   the process in focus (it changes with the entry) are not tracked across iterations *)
Definition bools := [false; true].
Definition reach (a : astate) : list astate :=
  flat_map (fun g' => flat_map (fun c' => map (fun o' => (g', c', o')) bools) bools) (gs (ag a)).
Definition nonnormal (r : asig * astate) : bool := match fst r with ANormal => false | _ => true end.
Definition isret (r : asig * astate) : bool := match fst r with AReturn => true | _ => false end.
Definition dds (l : list astate) : list astate := nodup ast_eq_dec l.
Definition reachS (A : list astate) : list astate := dds (flat_map reach A).
(* the states in which a result set continues normally / raises class x *)
Definition normals (r : ares) : list astate :=
  dds (flat_map (fun y => match y with (ANormal, a) => [a] | _ => [] end) r).
Definition raised (x : xc) (r : ares) : list astate :=
  dds (flat_map (fun y => match y with (ARaise x', a) => if xc_eq_dec x x' then [a] else [] | _ => [] end) r).
Definition all_who : list who := [Self; Other; Global; Any; Ext].
Definition all_xc : list xc :=
  [XFnf; XEsrch; XPerm; XOsOther; XTimeout; XPy] ++ map XNSP all_who ++ map XZombie all_who ++ map XAD all_who.
Definition tag (sg : asig) (A : list astate) : ares := map (fun a => (sg, a)) A.

(* the analysis works on SETS of entry states (so that a sequence is analysed once, not once per state) *)
Fixpoint an (opt : label -> oclass) (p : prog) (cx : xc) (A : list astate) {struct p} : ares :=
  match p with
  | Skip | SetFlag _ _ | Collect | LoadKids => tag ANormal A
  | Ret => tag AReturn A
  | Raise x => tag (ARaise x) A
  | Reraise => tag (ARaise cx) A
  | Acc l => dd (flat_map (acc_who (l_who l) (opt l) (l_kind l)) A)
  | Seq p q => let R := an opt p cx A in dd (filter nonnormal R ++ an opt q cx (normals R))
  | If (TCur h) p q => if hmatch h cx then an opt p cx A else an opt q cx A
  | If _ p q => dd (an opt p cx A ++ an opt q cx A)
  | Try b h e =>
      let R := an opt b cx A in
      dd (filter isret R ++ an opt e cx (normals R)
          ++ flat_map (fun x => match raised x R with [] => [] | a0 :: S0 => an opt h x (a0 :: S0) end) all_xc)
  | ForNames b | Walk b =>
      let R := reachS A in dd (tag ANormal R ++ filter nonnormal (an opt b cx R))
  | Call p => map (fun r => match r with (AReturn, a1) => (ANormal, a1) | _ => r end) (an opt p cx A)
  | Memo _ p => tag ANormal (filter ac A) ++ an opt p cx A
  | CacheOn => map (fun a => (ANormal, (ag a, true, ao a))) A
  | CacheOff => map (fun a => (ANormal, (ag a, false, ao a))) A
  | FocusParent => flat_map (fun a => map (fun o' => (ANormal, (ag a, ac a, o'))) bools) A
  end.

(* ---- the guard predicates (what the property allows, read off the abstract results) *)
(* entry states of a call made outside oneshot: the process may be there or gone; so may the one in focus *)
Definition entries : list astate := [(false, false, false); (false, false, true); (true, false, false); (true, false, true)].
Definition gone_entries : list astate := [(true, false, false); (true, false, true)].
Definition all_ends (ok : asig * astate -> bool) (es : list astate) (opt : label -> oclass) (p : prog) : bool :=
  forallb ok (an opt p XPy es).
(* the call may only end with a value or with NoSuchProcess(own pid) -- and then the process is gone --,
   ZombieProcess(own pid), AccessDenied(own pid) *)
Definition ok_end (r : asig * astate) : bool :=
  match r with
  | (ANormal, _) | (AReturn, _) => true
  | (ARaise (XNSP Self), a) => ag a
  | (ARaise (XZombie Self), _) | (ARaise (XAD Self), _) => true
  | _ => false
  end.
Definition well_guarded := all_ends ok_end entries.
(* once gone: the call can only raise NoSuchProcess(own pid) *)
Definition only_nsp (r : asig * astate) : bool :=
  match r with (ARaise (XNSP Self), _) => true | _ => false end.
Definition gone_guarded := all_ends only_nsp gone_entries.
(* once gone: the call answers with a value (is_running, wait) *)
Definition only_val (r : asig * astate) : bool :=
  match r with (ANormal, _) | (AReturn, _) => true | _ => false end.
Definition gone_value := all_ends only_val gone_entries.
(* calls that also query OTHER Process objects (parent, parents, children, process_iter): as [ok_end], and an
   AccessDenied raised by a query on another Process object may carry that process's pid; NoSuchProcess /
   ZombieProcess about another process never escape (a vanished relative is left out), bare errors neither *)
Definition ok_end_tree (r : asig * astate) : bool :=
  match r with
  | (ARaise (XAD Other), _) | (ARaise (XAD Any), _) => true
  | _ => ok_end r
  end.
Definition tree_guarded := all_ends ok_end_tree entries.
(* wait(timeout): TimeoutExpired is the answer for a process that is still there *)
Definition ok_end_wait (r : asig * astate) : bool :=
  match r with (ARaise XTimeout, a) => negb (ag a) | _ => ok_end r end.
Definition wait_guarded := all_ends ok_end_wait entries.
