(* C03 -- the computable guard analysis.  [an opt p cx a] over-approximates, for EVERY world of
   the fault model, what script [p] can do when started in abstract state [a]:
   a = (gone?, oneshot cache active?), result = how p ends (normally / return / raising class x)
   and in which abstract state.  [opt l] says whether access l may fail with ENOENT/ESRCH (and EINVAL)
   even while the process is alive (an optional or racing file); every other per-process access can,
   while the process is alive, only succeed or be refused.  Definitions only; soundness is in Proofs.v. *)
From PV Require Import Base.Prelude C03.Model.
Local Open Scope list_scope.

Definition astate := (bool * bool)%type.
Inductive asig := ANormal | AReturn | ARaise (x : xc).
Definition ares := list (asig * astate).

Definition who_eq_dec : forall a b : who, {a = b} + {a <> b}. Proof. decide equality. Defined.
Definition xc_eq_dec : forall a b : xc, {a = b} + {a <> b}. Proof. decide equality; apply who_eq_dec. Defined.
Definition asig_eq_dec : forall a b : asig, {a = b} + {a <> b}. Proof. decide equality; apply xc_eq_dec. Defined.
Definition ar_eq_dec : forall a b : asig * astate, {a = b} + {a <> b}.
Proof. decide equality. decide equality; apply Bool.bool_dec. apply asig_eq_dec. Defined.
Definition dd (l : ares) : ares := nodup ar_eq_dec l.

Definition vx (k : akind) : xc := xc_of (vanish_errno k).
Definition gs (g : bool) : list bool := if g then [true] else [false; true].

Definition acc_self (o : oclass) (k : akind) (a : astate) : ares :=
  let (g, c) := a in
  if g then [(ARaise (vx k), (true, c))]
  else [(ANormal, (false, c)); (ARaise XPerm, (false, c)); (ARaise (vx k), (true, c))]
       ++ match o with
          | Strict => []
          | MayVanish => [(ARaise XFnf, (false, c)); (ARaise XEsrch, (false, c))]
          | MayVanishOrInval => [(ARaise XFnf, (false, c)); (ARaise XEsrch, (false, c)); (ARaise XOsOther, (false, c))]
          end.
Definition acc_other (o : oclass) (a : astate) : ares :=
  let (g, c) := a in
  flat_map (fun g' => [(ANormal, (g', c)); (ARaise XPerm, (g', c))]
                      ++ match o with
                         | Strict => []
                         | MayVanish => [(ARaise XFnf, (g', c)); (ARaise XEsrch, (g', c))]
                         | MayVanishOrInval => [(ARaise XFnf, (g', c)); (ARaise XEsrch, (g', c)); (ARaise XOsOther, (g', c))]
                         end) (gs g).
Definition acc_global (a : astate) : ares :=
  let (g, c) := a in map (fun g' => (ANormal, (g', c))) (gs g).
(* abstract states a loop iteration can start in *)
Definition reach (a : astate) : list astate :=
  flat_map (fun g' => [(g', false); (g', true)]) (gs (fst a)).
Definition nonnormal (r : asig * astate) : bool := match fst r with ANormal => false | _ => true end.

Fixpoint an (opt : label -> oclass) (p : prog) (cx : xc) (a : astate) {struct p} : ares :=
  match p with
  | Skip | SetFlag _ _ | Collect _ | LoadNames => [(ANormal, a)]
  | Ret => [(AReturn, a)]
  | Raise x => [(ARaise x, a)]
  | Reraise => [(ARaise cx, a)]
  | Acc l =>
      match l_who l with
      | Self => acc_self (opt l) (l_kind l) a
      | Other => acc_other (opt l) a
      | Global => acc_global a
      | Any => acc_self (opt l) (l_kind l) a ++ acc_other (opt l) a
      end
  | Seq p q =>
      dd (flat_map (fun r => match r with (ANormal, a1) => an opt q cx a1 | _ => [r] end) (an opt p cx a))
  | If (TCur h) p q => if hmatch h cx then an opt p cx a else an opt q cx a
  | If _ p q => dd (an opt p cx a ++ an opt q cx a)
  | Try b h e =>
      dd (flat_map (fun r => match r with
                             | (ANormal, a1) => an opt e cx a1
                             | (AReturn, a1) => [r]
                             | (ARaise x, a1) => an opt h x a1
                             end) (an opt b cx a))
  | ForNames b =>
      dd (map (fun a1 => (ANormal, a1)) (reach a)
          ++ flat_map (fun a1 => filter nonnormal (an opt b cx a1)) (reach a))
  | Call p => map (fun r => match r with (AReturn, a1) => (ANormal, a1) | _ => r end) (an opt p cx a)
  | Memo _ p => (if snd a then [(ANormal, a)] else []) ++ an opt p cx a
  | CacheOn => [(ANormal, (fst a, true))]
  | CacheOff => [(ANormal, (fst a, false))]
  end.

(* ---- the guard predicates (what the property allows, read off the abstract results) *)
(* a call made outside oneshot on a process that may be alive or gone: it may only end with a value or
   with NoSuchProcess(own pid) -- and then the process is gone --, ZombieProcess(own pid), AccessDenied(own pid) *)
Definition ok_end (r : asig * astate) : bool :=
  match r with
  | (ANormal, _) | (AReturn, _) => true
  | (ARaise (XNSP Self), (g, _)) => g
  | (ARaise (XZombie Self), _) | (ARaise (XAD Self), _) => true
  | _ => false
  end.
Definition well_guarded (opt : label -> oclass) (p : prog) : bool :=
  forallb ok_end (an opt p XPy (false, false)) && forallb ok_end (an opt p XPy (true, false)).
(* weaker: psutil errors only, NoSuchProcess also tolerated for a process that is still there *)
Definition ok_end_weak (r : asig * astate) : bool :=
  match r with
  | (ANormal, _) | (AReturn, _) => true
  | (ARaise (XNSP Self), _) | (ARaise (XZombie Self), _) | (ARaise (XAD Self), _) => true
  | _ => false
  end.
Definition weakly_guarded (opt : label -> oclass) (p : prog) : bool :=
  forallb ok_end_weak (an opt p XPy (false, false)) && forallb ok_end_weak (an opt p XPy (true, false)).
(* once gone: the call can only raise NoSuchProcess(own pid) *)
Definition only_nsp (r : asig * astate) : bool :=
  match r with (ARaise (XNSP Self), _) => true | _ => false end.
Definition gone_guarded (opt : label -> oclass) (p : prog) : bool :=
  forallb only_nsp (an opt p XPy (true, false)).

(* calls that also query OTHER Process objects (parent, parents, children): as [ok_end] for errors carrying the
   object's own pid; NoSuchProcess / ZombieProcess / AccessDenied carrying the other process's pid are tolerated;
   bare errors are not *)
Definition ok_end_tree (r : asig * astate) : bool :=
  match r with
  | (ARaise (XNSP Other), _) | (ARaise (XZombie Other), _) | (ARaise (XAD Other), _) => true
  | _ => ok_end r
  end.
Definition tree_guarded (opt : label -> oclass) (p : prog) : bool :=
  forallb ok_end_tree (an opt p XPy (false, false)) && forallb ok_end_tree (an opt p XPy (true, false)).
