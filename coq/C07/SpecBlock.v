(* C07 -- what the property demands of Process.cpu_times() / Process.cpu_percent() when calls
   are made inside oneshot() / as_dict() / process_iter(attrs=...) blocks.  Written from the
   property text and the documented meaning of oneshot() (information is fetched once per block):
   inside a block the process counters are those of the block's FIRST read of /proc/<pid>/stat;
   everything else is as outside: cpu_times() is those five counters / CLOCK_TICKS (once),
   cpu_percent() is 100 * delta(utime+stime)/CLOCK_TICKS / delta(wall) since the object's
   previous call, and the sample kept for the next call is the true one. *)
From PV Require Export C07.ModelBlock C07.Spec.

Definition with_rec (t : Q) (c : statrec) : preading :=
  {| r_t := t; r_u := sr_u c; r_s := sr_s c; r_cu := sr_cu c; r_cs := sr_cs c; r_io := sr_io c |}.

Record ghost := { g_prev : option preading;    (* the object's previous (true) sample *)
                  g_depth : nat;
                  g_first : option statrec }.  (* the open block's first read *)
Definition g_init : ghost := {| g_prev := None; g_depth := 0; g_first := None |}.

(* the record a read made now stands for, and the ghost state after it *)
Definition g_read (g : ghost) (file : statrec) : ghost * statrec :=
  match g_depth g with
  | O => (g, file)
  | S _ => match g_first g with
           | Some c => (g, c)
           | None => ({| g_prev := g_prev g; g_depth := g_depth g; g_first := Some file |}, file)
           end
  end.
Definition g_set_prev (g : ghost) (p : preading) : ghost :=
  {| g_prev := Some p; g_depth := g_depth g; g_first := g_first g |}.

Definition spec_pb_step (clk : positive) (g : ghost) (ev : pbev) : ghost * option (outcome pbres) :=
  match ev with
  | BEnter => ({| g_prev := g_prev g; g_depth := S (g_depth g);
                  g_first := match g_depth g with O => None | S _ => g_first g end |}, None)
  | BExit => (match g_depth g with
              | O => g
              | S O => {| g_prev := g_prev g; g_depth := 0; g_first := None |}
              | S (S d) => {| g_prev := g_prev g; g_depth := S d; g_first := g_first g |}
              end, None)
  | BTimes file => let '(g', c) := g_read g file in (g', Some (Val (BRTimes (times_of clk c))))
  | BPercent e =>
    match pe_iv e with
    | INeg => (g, Some (Exc ValueError))
    | IPos =>
      let '(g1, c1) := g_read g (rec_of (pe_r1 e)) in
      let '(g2, c2) := g_read g1 (rec_of (pe_r2 e)) in
      let a := with_rec (r_t (pe_r1 e)) c1 in let b := with_rec (r_t (pe_r2 e)) c2 in
      (g_set_prev g2 b, Some (Val (BRPct (spec_proc_pct clk a b))))
    | INone | IZero =>
      let '(g1, c1) := g_read g (rec_of (pe_r1 e)) in
      let b := with_rec (r_t (pe_r1 e)) c1 in
      (g_set_prev g1 b, Some (Val (BRPct (match g_prev g with Some p => spec_proc_pct clk p b | None => 0%Q end))))
    end
  end.

Fixpoint spec_pb_run (clk : positive) (g : ghost) (l : list pbev) : list (outcome pbres) :=
  match l with
  | [] => []
  | ev :: r => let '(g', o) := spec_pb_step clk g ev in
               match o with Some x => x :: spec_pb_run clk g' r | None => spec_pb_run clk g' r end
  end.

(* equality of results up to == on rationals *)
Definition ptimes_eq (a b : ptimes) : Prop :=
  (pt_user a == pt_user b /\ pt_system a == pt_system b /\ pt_children_user a == pt_children_user b
   /\ pt_children_system a == pt_children_system b /\ pt_iowait a == pt_iowait b)%Q.
Definition pbres_eq (a b : pbres) : Prop :=
  match a, b with
  | BRTimes x, BRTimes y => ptimes_eq x y
  | BRPct x, BRPct y => (x == y)%Q
  | _, _ => False
  end.

(* ---- block transparency: the same calls with the block markers removed *)
Fixpoint erase (l : list pbev) : list pbev :=
  match l with
  | [] => []
  | BEnter :: r | BExit :: r => erase r
  | ev :: r => ev :: erase r
  end.
(* /proc/<pid>/stat does not change while a block is open (every read made inside one block sees
   the same five counters) -- then a block cannot be told from no block *)
Definition sr_eqb (a b : statrec) : bool :=
  (sr_u a =? sr_u b) && (sr_s a =? sr_s b) && (sr_cu a =? sr_cu b) && (sr_cs a =? sr_cs b) && (sr_io a =? sr_io b).
Definition seen_ok (d : nat) (cur : option statrec) (f : statrec) : bool * option statrec :=
  match d with
  | O => (true, cur)
  | S _ => match cur with Some c => (sr_eqb f c, cur) | None => (true, Some f) end
  end.
Fixpoint const_blocks (d : nat) (cur : option statrec) (l : list pbev) : bool :=
  match l with
  | [] => true
  | BEnter :: r => const_blocks (S d) (match d with O => None | S _ => cur end) r
  | BExit :: r => const_blocks (Nat.pred d) (match d with S (S _) => cur | _ => None end) r
  | BTimes f :: r => let '(ok, cur') := seen_ok d cur f in ok && const_blocks d cur' r
  | BPercent e :: r =>
    match pe_iv e with
    | INeg => const_blocks d cur r
    | IPos => let '(ok1, c1) := seen_ok d cur (rec_of (pe_r1 e)) in
              let '(ok2, c2) := seen_ok d c1 (rec_of (pe_r2 e)) in ok1 && ok2 && const_blocks d c2 r
    | _ => let '(ok1, c1) := seen_ok d cur (rec_of (pe_r1 e)) in ok1 && const_blocks d c1 r
    end
  end.
