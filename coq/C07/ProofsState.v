(* C07 -- state: each thread is measured against its own previous sample
   (frame / non-interference of the four per-thread maps), and Process.cpu_percent. *)
From PV Require Import C07.Spec C07.ProofsArith.
From Coq Require Import Lqa Setoid.

(* ---------------------------------------------------------------- assoc maps *)
Lemma lookup_update_same {A} k (v : A) m : lookup k (update k v m) = Some v.
Proof.
  induction m as [|[k' v'] m IH]; cbn.
  - now rewrite Z.eqb_refl.
  - destruct (k =? k') eqn:E; cbn; [now rewrite Z.eqb_refl|now rewrite E].
Qed.
Lemma lookup_update_other {A} k k' (v : A) m : k' <> k -> lookup k' (update k v m) = lookup k' m.
Proof.
  intros H. induction m as [|[k2 v2] m IH]; cbn.
  - apply Z.eqb_neq in H. now rewrite H.
  - destruct (k =? k2) eqn:E; cbn.
    + apply Z.eqb_eq in E. subst k2. apply Z.eqb_neq in H. now rewrite H.
    + destruct (k' =? k2); [reflexivity|exact IH].
Qed.

(* ---------------------------------------------------------------- gen_call *)
Section Gen.
Context {S R : Type} (read : nat -> bytes -> outcome S) (falsy : S -> bool) (calc : S -> S -> R).

(* a call by thread t leaves every other thread's entry alone *)
Lemma gen_call_frame memo m t iv k1 k2 t' :
  t' <> t -> lookup t' (snd (fst (gen_call read falsy calc memo m t iv k1 k2))) = lookup t' m.
Proof.
  intros H. unfold gen_call.
  destruct iv; cbn [fst snd]; try reflexivity;
    repeat match goal with
           | |- context [match ?x with _ => _ end] => destruct x; cbn [fst snd]; try reflexivity
           end;
    now apply lookup_update_other.
Qed.

(* its result and its own new entry depend only on its own entry and the layout in force *)
Lemma gen_call_own memo memo' m m' t iv k1 k2 :
  lookup t m = lookup t m' -> ensure_nf memo k1 = ensure_nf memo' k1 ->
  snd (gen_call read falsy calc memo m t iv k1 k2) = snd (gen_call read falsy calc memo' m' t iv k1 k2)
  /\ lookup t (snd (fst (gen_call read falsy calc memo m t iv k1 k2)))
     = lookup t (snd (fst (gen_call read falsy calc memo' m' t iv k1 k2))).
Proof.
  intros Hm Hn. unfold gen_call. rewrite <- Hm, <- Hn.
  destruct iv; cbn [fst snd]; auto;
    repeat match goal with
           | |- context [match ?x with _ => _ end] => destruct x; cbn [fst snd]; auto
           end;
    rewrite ?lookup_update_same; auto.
Qed.

Lemma gen_call_memo memo m t iv k1 k2 n :
  (memo = None \/ memo = Some n) -> nf_of k1 = n ->
  let memo' := fst (fst (gen_call read falsy calc memo m t iv k1 k2)) in memo' = None \/ memo' = Some n.
Proof.
  intros Hm Hk. unfold gen_call.
  assert (E : ensure_nf memo k1 = n) by (destruct Hm as [-> | ->]; cbn; auto).
  rewrite E.
  destruct iv; cbn [fst snd]; auto;
    repeat match goal with
           | |- context [match ?x with _ => _ end] => destruct x; cbn [fst snd]; auto
           end.
Qed.
End Gen.

(* ---------------------------------------------------------------- the four maps *)
Definition view (t : Z) (st : sys_state) :=
  (lookup t (last1 st), lookup t (lastp1 st), lookup t (last2 st), lookup t (lastp2 st)).
Definition memo_ok (n : nat) (st : sys_state) : Prop := memo st = None \/ memo st = Some n.

Lemma ensure_nf_ok n st k : memo_ok n st -> nf_of k = n -> ensure_nf (memo st) k = n.
Proof. intros [-> | ->] H; cbn; auto. Qed.

(* a call by another thread does not touch thread t's samples *)
Theorem step_other_thread clk st e t :
  e_tid e <> t -> view t (fst (step clk st e)) = view t st.
Proof.
  intros H. unfold step, view.
  destruct (e_fn e), (e_percpu e); [reflexivity | reflexivity | | | | ].
  - pose proof (gen_call_frame (per_cpu_times clk) is_nil (zipw calc_percent) (memo st) (lastp1 st) (e_tid e) (e_iv e) (e_k1 e) (e_k2 e) t) as F.
    destruct (gen_call _ _ _ _ _ _ _ _ _) as [[mm m] r]. cbn in *. rewrite F by congruence. reflexivity.
  - pose proof (gen_call_frame (cpu_times clk) never calc_percent (memo st) (last1 st) (e_tid e) (e_iv e) (e_k1 e) (e_k2 e) t) as F.
    destruct (gen_call _ _ _ _ _ _ _ _ _) as [[mm m] r]. cbn in *. rewrite F by congruence. reflexivity.
  - pose proof (gen_call_frame (per_cpu_times clk) is_nil (zipw calc_times_percent) (memo st) (lastp2 st) (e_tid e) (e_iv e) (e_k1 e) (e_k2 e) t) as F.
    destruct (gen_call _ _ _ _ _ _ _ _ _) as [[mm m] r]. cbn in *. rewrite F by congruence. reflexivity.
  - pose proof (gen_call_frame (cpu_times clk) never calc_times_percent (memo st) (last2 st) (e_tid e) (e_iv e) (e_k1 e) (e_k2 e) t) as F.
    destruct (gen_call _ _ _ _ _ _ _ _ _) as [[mm m] r]. cbn in *. rewrite F by congruence. reflexivity.
Qed.

Theorem step_memo_ok clk n st e :
  memo_ok n st -> nf_of (e_k1 e) = n -> memo_ok n (fst (step clk st e)).
Proof.
  intros Hm Hk. unfold step, memo_ok.
  destruct (e_fn e), (e_percpu e);
    [right; cbn [memo fst]; f_equal; now apply ensure_nf_ok
    |right; cbn [memo fst]; f_equal; now apply ensure_nf_ok | | | | ].
  - pose proof (gen_call_memo (per_cpu_times clk) is_nil (zipw calc_percent) (memo st) (lastp1 st) (e_tid e) (e_iv e) (e_k1 e) (e_k2 e) n Hm Hk) as F.
    destruct (gen_call _ _ _ _ _ _ _ _ _) as [[mm m] r]. exact F.
  - pose proof (gen_call_memo (cpu_times clk) never calc_percent (memo st) (last1 st) (e_tid e) (e_iv e) (e_k1 e) (e_k2 e) n Hm Hk) as F.
    destruct (gen_call _ _ _ _ _ _ _ _ _) as [[mm m] r]. exact F.
  - pose proof (gen_call_memo (per_cpu_times clk) is_nil (zipw calc_times_percent) (memo st) (lastp2 st) (e_tid e) (e_iv e) (e_k1 e) (e_k2 e) n Hm Hk) as F.
    destruct (gen_call _ _ _ _ _ _ _ _ _) as [[mm m] r]. exact F.
  - pose proof (gen_call_memo (cpu_times clk) never calc_times_percent (memo st) (last2 st) (e_tid e) (e_iv e) (e_k1 e) (e_k2 e) n Hm Hk) as F.
    destruct (gen_call _ _ _ _ _ _ _ _ _) as [[mm m] r]. exact F.
Qed.

(* the result of a call, and the caller's samples afterwards, depend only on the
   caller's own samples (and on the counter layout, which the kernel never changes) *)
Theorem step_own_thread clk n st st' e :
  view (e_tid e) st = view (e_tid e) st' -> memo_ok n st -> memo_ok n st' -> nf_of (e_k1 e) = n ->
  snd (step clk st e) = snd (step clk st' e)
  /\ view (e_tid e) (fst (step clk st e)) = view (e_tid e) (fst (step clk st' e)).
Proof.
  intros Hv Hm Hm' Hk. unfold view in Hv. injection Hv as H1 Hp1 H2 Hp2.
  assert (En : ensure_nf (memo st) (e_k1 e) = ensure_nf (memo st') (e_k1 e))
    by (rewrite !(ensure_nf_ok n) by assumption; reflexivity).
  unfold step, view.
  destruct (e_fn e), (e_percpu e);
    [cbn [fst snd last1 lastp1 last2 lastp2]; rewrite En, H1, Hp1, H2, Hp2; auto
    |cbn [fst snd last1 lastp1 last2 lastp2]; rewrite En, H1, Hp1, H2, Hp2; auto | | | | ].
  - destruct (gen_call_own (per_cpu_times clk) is_nil (zipw calc_percent) (memo st) (memo st') (lastp1 st) (lastp1 st') (e_tid e) (e_iv e) (e_k1 e) (e_k2 e) Hp1 En) as [A B].
    destruct (gen_call _ _ _ (memo st) _ _ _ _ _) as [[mm m] r].
    destruct (gen_call _ _ _ (memo st') _ _ _ _ _) as [[mm' m'] r']. cbn in *. subst r'. rewrite B, H1, H2, Hp2. auto.
  - destruct (gen_call_own (cpu_times clk) never calc_percent (memo st) (memo st') (last1 st) (last1 st') (e_tid e) (e_iv e) (e_k1 e) (e_k2 e) H1 En) as [A B].
    destruct (gen_call _ _ _ (memo st) _ _ _ _ _) as [[mm m] r].
    destruct (gen_call _ _ _ (memo st') _ _ _ _ _) as [[mm' m'] r']. cbn in *. subst r'. rewrite B, Hp1, H2, Hp2. auto.
  - destruct (gen_call_own (per_cpu_times clk) is_nil (zipw calc_times_percent) (memo st) (memo st') (lastp2 st) (lastp2 st') (e_tid e) (e_iv e) (e_k1 e) (e_k2 e) Hp2 En) as [A B].
    destruct (gen_call _ _ _ (memo st) _ _ _ _ _) as [[mm m] r].
    destruct (gen_call _ _ _ (memo st') _ _ _ _ _) as [[mm' m'] r']. cbn in *. subst r'. rewrite B, H1, H2, Hp1. auto.
  - destruct (gen_call_own (cpu_times clk) never calc_times_percent (memo st) (memo st') (last2 st) (last2 st') (e_tid e) (e_iv e) (e_k1 e) (e_k2 e) H2 En) as [A B].
    destruct (gen_call _ _ _ (memo st) _ _ _ _ _) as [[mm m] r].
    destruct (gen_call _ _ _ (memo st') _ _ _ _ _) as [[mm' m'] r']. cbn in *. subst r'. rewrite B, H1, Hp1, Hp2. auto.
Qed.


(* any interleaved calls by other threads leave thread t's next result unchanged *)
Theorem per_thread_frame clk n st others e :
  memo_ok n st ->
  (forall o, In o others -> e_tid o <> e_tid e /\ nf_of (e_k1 o) = n) ->
  nf_of (e_k1 e) = n ->
  snd (step clk (run_state clk st others) e) = snd (step clk st e).
Proof.
  intros Hm Ho Hk.
  assert (G : view (e_tid e) (run_state clk st others) = view (e_tid e) st /\ memo_ok n (run_state clk st others)).
  { revert st Hm. induction others as [|o os IH]; intros st Hm; [split; [reflexivity|assumption]|].
    cbn [run_state].
    destruct (Ho o (or_introl eq_refl)) as [Ht Hn].
    destruct (IH (fun x Hx => Ho x (or_intror Hx)) (fst (step clk st o)) (step_memo_ok clk n st o Hm Hn)) as [V M].
    split; [|exact M]. rewrite V. now apply step_other_thread. }
  destruct G as [V M].
  exact (proj1 (step_own_thread clk n _ _ e V M Hm Hk)).
Qed.

(* the hypotheses of per_thread_frame hold for a concrete script: thread 2 calls twice between
   the calls of thread 1, all on 10-counter files *)
Example per_thread_frame_nonvacuous :
  let k := k_stat {| ks_total := [bs "105"; bs "0"; bs "50"; bs "1015"; bs "10"; bs "0"; bs "3"; bs "0"; bs "7"; bs "0"];
                     ks_cpus := []; ks_tail := [] |} in
  let ev t f := {| e_tid := t; e_fn := f; e_percpu := false; e_iv := INone; e_k1 := k; e_k2 := k |} in
  memo_ok 10 sys_init
  /\ (forall o, In o [ev 2%Z FPercent; ev 2%Z FTimesPercent; ev 2%Z FTimes] -> e_tid o <> e_tid (ev 1%Z FPercent) /\ nf_of (e_k1 o) = 10%nat)
  /\ nf_of (e_k1 (ev 1%Z FPercent)) = 10%nat.
Proof.
  cbv zeta. split; [now left|]. split; [|vm_compute; reflexivity].
  intros o [<-|[<-|[<-|[]]]]; split; try (vm_compute; reflexivity); cbn; lia.
Qed.

(* negative interval: ValueError and nothing changes *)
Theorem step_negative clk st e :
  e_fn e <> FTimes -> e_iv e = INeg -> step clk st e = (st, Exc ValueError).
Proof.
  intros Hf H. unfold step, gen_call. rewrite H. destruct st. destruct (e_fn e), (e_percpu e); try congruence; reflexivity.
Qed.

(* ---------------------------------------------------------------- Process.cpu_percent *)
Local Open Scope Q_scope.

Theorem proc_negative clk st e : pe_iv e = INeg -> proc_step clk st e = (st, Exc ValueError).
Proof. intros H. unfold proc_step. now rewrite H. Qed.

Theorem proc_first_call clk e :
  pe_iv e = INone \/ pe_iv e = IZero -> snd (proc_step clk p_init e) = Val 0.
Proof. intros [H|H]; unfold proc_step; rewrite H; reflexivity. Qed.

(* the state a Process object holds after sampling reading p: the wall clock and the whole tuple *)
Definition holds (clk : positive) (st : pstate) (p : preading) : Prop :=
  p_sys st = Some (r_t p) /\ p_proc st = Some (proc_cpu_times clk p).

Lemma qzero_scale a b n : (1 <= n)%Z -> a == b * inject_Z n -> qzero a = qzero b.
Proof.
  intros Hn H. destruct (qzero a) eqn:Ea; destruct (qzero b) eqn:Eb; try reflexivity.
  - apply qzero_iff in Ea. rewrite H in Ea. apply Qmult_integral in Ea as [E|E].
    + apply qzero_iff in E. congruence.
    + exfalso. revert E. apply inject_nz. lia.
  - apply qzero_iff in Eb. rewrite Eb, Qmult_0_l in H. apply qzero_iff in H. congruence.
Qed.

Lemma ncpu_eff_pos n : (1 <= ncpu_eff n)%Z.
Proof. unfold ncpu_eff. destruct (n <? 1)%Z eqn:E; [lia|apply Z.ltb_ge in E; lia]. Qed.

(* whatever children_user, children_system and iowait of the two readings are *)
Lemma proc_finish_spec clk n a b :
  (1 <= n)%Z ->
  match snd (proc_finish (r_t a) (proc_cpu_times clk a) (r_t b) (proc_cpu_times clk b) n) with
  | Val q => q == spec_proc_pct clk a b
  | _ => False
  end.
Proof.
  intros Hn. unfold proc_finish, spec_proc_pct, proc_cpu_times. cbn [snd fst pt_user pt_system].
  rewrite (qzero_scale ((r_t b - r_t a) * inject_Z n) (r_t b - r_t a) n Hn (Qeq_refl _)).
  destruct (qzero (r_t b - r_t a)) eqn:E; [reflexivity|].
  assert (NZ : ~ r_t b - r_t a == 0) by (intros C; apply qzero_iff in C; congruence).
  rewrite !secs_minus, secs_plus.
  field. split; first [exact NZ | apply inject_nz; lia].
Qed.

(* one call on an object holding its previous reading [prev] (if any), whatever cpu_count()
   says now or said before: the demanded value, and the object then holds this call's last reading *)
Theorem proc_step_spec clk st e prev :
  match prev with Some p => holds clk st p | None => st = p_init end ->
  pe_iv e <> INeg ->
  out_eq Qeq (snd (proc_step clk st e))
             (match pe_iv e with
              | IPos => Val (spec_proc_pct clk (pe_r1 e) (pe_r2 e))
              | _ => match prev with Some p => Val (spec_proc_pct clk p (pe_r1 e)) | None => Val 0 end
              end)
  /\ holds clk (fst (proc_step clk st e)) (pe_last e).
Proof.
  intros Hp Hiv.
  pose proof (ncpu_eff_pos (pe_ncpu e)) as Hn.
  unfold proc_step, pe_last.
  destruct (pe_iv e) eqn:Ei; try congruence; cbn [is_pos].
  - destruct prev as [p|].
    + destruct Hp as (Hs & Hpr). rewrite Hs, Hpr.
      pose proof (proc_finish_spec clk _ p (pe_r1 e) Hn) as F.
      split; [exact F|]. unfold proc_finish. cbn [fst]. split; reflexivity.
    + subst st. cbn. split; [reflexivity|]. split; reflexivity.
  - destruct prev as [p|].
    + destruct Hp as (Hs & Hpr). rewrite Hs, Hpr.
      pose proof (proc_finish_spec clk _ p (pe_r1 e) Hn) as F.
      split; [exact F|]. unfold proc_finish. cbn [fst]. split; reflexivity.
    + subst st. cbn. split; [reflexivity|]. split; reflexivity.
  - pose proof (proc_finish_spec clk _ (pe_r1 e) (pe_r2 e) Hn) as F.
    split; [exact F|]. unfold proc_finish. cbn [fst]. split; reflexivity.
Qed.

(* the decoy counters really are free: two readings that differ only in children_user,
   children_system, iowait give the same demanded value *)
Lemma spec_proc_pct_decoys clk a b cu cs io cu' cs' io' :
  spec_proc_pct clk {| r_t := r_t a; r_u := r_u a; r_s := r_s a; r_cu := cu; r_cs := cs; r_io := io |}
                    {| r_t := r_t b; r_u := r_u b; r_s := r_s b; r_cu := cu'; r_cs := cs'; r_io := io' |}
  = spec_proc_pct clk a b.
Proof. reflexivity. Qed.

(* every sequence of calls on any number of Process objects, any cpu_count() answers *)
Definition pinv (clk : positive) (m : amap pstate) (hist : list (Z * pevent)) : Prop :=
  forall o, match spec_proc_prev hist o with
            | Some p => exists st, lookup o m = Some st /\ holds clk st p
            | None => lookup o m = None \/ lookup o m = Some p_init
            end.

Lemma prev_cons_other hist o o' e : o' <> o -> spec_proc_prev ((o, e) :: hist) o' = spec_proc_prev hist o'.
Proof.
  intros H. unfold spec_proc_prev. cbn [find fst snd].
  apply Z.eqb_neq in H. rewrite Z.eqb_sym in H. rewrite Z.eqb_sym, Z.eqb_sym, H. reflexivity.
Qed.
Lemma prev_cons_neg hist o o' e : pe_iv e = INeg -> spec_proc_prev ((o, e) :: hist) o' = spec_proc_prev hist o'.
Proof.
  intros H. unfold spec_proc_prev. cbn [find fst snd]. rewrite H. cbn [is_neg negb]. rewrite andb_false_r. reflexivity.
Qed.
Lemma prev_cons_same hist o e : pe_iv e <> INeg -> spec_proc_prev ((o, e) :: hist) o = Some (pe_last e).
Proof.
  intros H. unfold spec_proc_prev. cbn [find fst snd]. rewrite Z.eqb_refl.
  destruct (pe_iv e); try congruence; reflexivity.
Qed.

Theorem proc_run_spec_gen clk evs : forall m hist,
  pinv clk m hist -> Forall2 (out_eq Qeq) (proc_run clk m evs) (spec_proc_run clk hist evs).
Proof.
  induction evs as [|[o e] evs IH]; intros m hist Inv; [constructor|].
  cbn [proc_run spec_proc_run].
  set (st := match lookup o m with Some s => s | None => p_init end).
  assert (Pre : match spec_proc_prev hist o with Some p => holds clk st p | None => st = p_init end).
  { specialize (Inv o). unfold st. destruct (spec_proc_prev hist o) as [p|].
    - destruct Inv as (s & -> & H). exact H.
    - destruct Inv as [-> | ->]; reflexivity. }
  destruct (proc_step clk st e) as [st' res] eqn:Es.
  destruct (is_neg (pe_iv e)) eqn:Neg.
  - assert (Hn : pe_iv e = INeg) by (destruct (pe_iv e); try discriminate; reflexivity).
    rewrite (proc_negative clk st e Hn) in Es. injection Es as <- <-.
    constructor.
    + unfold spec_proc_result. rewrite Hn. reflexivity.
    + apply IH. intros o'. rewrite prev_cons_neg by assumption.
      destruct (Z.eq_dec o' o) as [->|Hne].
      * rewrite lookup_update_same. destruct (spec_proc_prev hist o) as [p|].
        -- exists st. auto.
        -- right. now rewrite Pre.
      * rewrite lookup_update_other by assumption. apply Inv.
  - assert (Hn : pe_iv e <> INeg) by (intros C; rewrite C in Neg; discriminate).
    destruct (proc_step_spec clk st e (spec_proc_prev hist o) Pre Hn) as [R H]. rewrite Es in R, H. cbn [fst snd] in R, H.
    constructor.
    + unfold spec_proc_result. destruct (pe_iv e); try congruence; exact R.
    + apply IH. intros o'.
      destruct (Z.eq_dec o' o) as [->|Hne].
      * rewrite prev_cons_same by assumption. rewrite lookup_update_same. exists st'. auto.
      * rewrite prev_cons_other by assumption. rewrite lookup_update_other by assumption. apply Inv.
Qed.

Theorem proc_run_spec clk evs :
  Forall2 (out_eq Qeq) (proc_run clk [] evs) (spec_proc_run clk [] evs).
Proof. apply proc_run_spec_gen. intros o. cbn. now left. Qed.
