(* C07 -- re-entrancy within one thread: calls made while a blocking call of the same thread
   sleeps.  The blocking call's answer does not depend on them; an interrupted sleep stores
   nothing; the script theorem with nested calls. *)
From PV Require Import C07.Spec C07.ProofsParse C07.ProofsArith C07.ProofsState C07.ProofsScript.

(* ---------------------------------------------------------------- the layout memo, once set, stays *)
Lemma gen_call_memo_some {S R} (read : nat -> bytes -> outcome S) falsy (calc : S -> S -> R) m t iv k1 k2 n :
  fst (fst (gen_call read falsy calc (Some n) m t iv k1 k2)) = Some n.
Proof.
  unfold gen_call. cbn [ensure_nf].
  destruct iv; cbn [fst]; try reflexivity;
    repeat match goal with |- context [match ?x with _ => _ end] => destruct x; cbn [fst]; try reflexivity end.
Qed.

Lemma step_memo_some clk st e n : memo st = Some n -> memo (fst (step clk st e)) = Some n.
Proof.
  intros H. unfold step. rewrite H.
  destruct (e_fn e), (e_percpu e); cbn [fst memo ensure_nf]; try reflexivity.
  - pose proof (gen_call_memo_some (per_cpu_times clk) is_nil (zipw calc_percent) (lastp1 st) (e_tid e) (e_iv e) (e_k1 e) (e_k2 e) n) as G.
    destruct (gen_call _ _ _ _ _ _ _ _ _) as [[mm m] r]. exact G.
  - pose proof (gen_call_memo_some (cpu_times clk) never calc_percent (last1 st) (e_tid e) (e_iv e) (e_k1 e) (e_k2 e) n) as G.
    destruct (gen_call _ _ _ _ _ _ _ _ _) as [[mm m] r]. exact G.
  - pose proof (gen_call_memo_some (per_cpu_times clk) is_nil (zipw calc_times_percent) (lastp2 st) (e_tid e) (e_iv e) (e_k1 e) (e_k2 e) n) as G.
    destruct (gen_call _ _ _ _ _ _ _ _ _) as [[mm m] r]. exact G.
  - pose proof (gen_call_memo_some (cpu_times clk) never calc_times_percent (last2 st) (e_tid e) (e_iv e) (e_k1 e) (e_k2 e) n) as G.
    destruct (gen_call _ _ _ _ _ _ _ _ _) as [[mm m] r]. exact G.
Qed.

Lemma run_state_memo_some clk l : forall st n, memo st = Some n -> memo (run_state clk st l) = Some n.
Proof.
  induction l as [|e l IH]; intros st n H; [exact H|]. cbn [run_state]. apply IH. now apply step_memo_some.
Qed.

(* ---------------------------------------------------------------- the answer of the blocking call *)
(* what second_half answers depends on the state only through the layout memo *)
Lemma second_half_result clk st st' e t1 : memo st = memo st' ->
  snd (second_half clk st e t1) = snd (second_half clk st' e t1).
Proof.
  intros H. unfold second_half. rewrite H.
  destruct (e_fn e), t1; try reflexivity;
    match goal with |- context [match ?x with _ => _ end] => destruct x; reflexivity end.
Qed.

(* THE BLOCKING CALL'S ANSWER IS INDEPENDENT OF ANY CALLS NESTED IN ITS SLEEP: there is one answer
   r such that, whatever the same thread calls while the blocking call sleeps, the results are
   those of the nested calls followed by r *)
Theorem blocking_answer_independent clk st e :
  is_blocking e = true ->
  exists r, forall nested, exists pre,
      snd (bstep clk st {| be_ev := e; be_nested := nested; be_raise := false |}) = pre ++ [r].
Proof.
  intros B. unfold bstep. cbn [be_ev be_nested be_raise]. rewrite B.
  set (nf := ensure_nf (memo st) (e_k1 e)). set (st1 := set_memo st (Some nf)).
  destruct (first_read clk nf e) as [t1|x|].
  - exists (snd (second_half clk st1 e t1)). intros nested. exists (run clk st1 nested).
    assert (M : memo (run_state clk st1 nested) = memo st1).
    { rewrite (run_state_memo_some clk nested st1 nf eq_refl). reflexivity. }
    rewrite <- (second_half_result clk _ st1 e t1 M).
    destruct (second_half clk (run_state clk st1 nested) e t1). reflexivity.
  - exists (Exc x). intros nested. exists []. reflexivity.
  - exists OutOfModel. intros nested. exists []. reflexivity.
Qed.

(* an exception leaving the sleep: the blocking call stores nothing -- the state is what the nested
   calls left (and the layout memo) *)
Theorem interrupted_sleep_stores_nothing clk st e nested t1 :
  is_blocking e = true -> first_read clk (ensure_nf (memo st) (e_k1 e)) e = Val t1 ->
  bstep clk st {| be_ev := e; be_nested := nested; be_raise := true |}
  = (run_state clk (set_memo st (Some (ensure_nf (memo st) (e_k1 e)))) nested,
     run clk (set_memo st (Some (ensure_nf (memo st) (e_k1 e)))) nested ++ [Exc RuntimeError]).
Proof. intros B F. unfold bstep. cbn [be_ev be_nested be_raise]. now rewrite B, F. Qed.

(* no nested call, no exception: the plain call *)
Lemma omap_val {A B} (f : A -> B) o v : omap f o = Val v -> exists a, o = Val a /\ v = f a.
Proof. destruct o; cbn; intros H; try discriminate. injection H as <-. eauto. Qed.

(* after its sleep the blocking call does what the whole call would do now: the first sample it
   holds is the one a fresh read of k1 gives *)
Lemma second_half_is_step clk st e t1 nf :
  memo st = Some nf -> is_blocking e = true -> first_read clk nf e = Val t1 ->
  second_half clk st e t1 = step clk st e.
Proof.
  intros M B F. unfold is_blocking in B. unfold first_read in F. unfold second_half, step, gen_call.
  rewrite M. cbn [ensure_nf].
  destruct (e_fn e) eqn:Ef; try discriminate; destruct (e_iv e) eqn:Ei; try discriminate;
    destruct (e_percpu e) eqn:Ep; apply omap_val in F as (a & Fa & ->); rewrite Fa;
    match goal with |- context [match ?x with _ => _ end] => destruct x end;
    cbn [omap obind]; unfold set_memo; destruct st; cbn in *; try rewrite M; reflexivity.
Qed.

Lemma run_app clk a : forall st b, run clk st (a ++ b) = run clk st a ++ run clk (run_state clk st a) b.
Proof.
  induction a as [|e a IH]; intros st b; [reflexivity|].
  cbn [app run run_state]. destruct (step clk st e) as [st' o] eqn:E. cbn [fst]. now rewrite IH.
Qed.
Lemma run_state_app clk a : forall st b, run_state clk st (a ++ b) = run_state clk (run_state clk st a) b.
Proof. induction a as [|e a IH]; intros st b; [reflexivity|]. cbn [app run_state]. apply IH. Qed.

(* ---------------------------------------------------------------- the script theorem with nested calls *)
Lemma script_ok_app clk nf ids imp a : forall hist b,
  script_ok clk nf ids imp hist (a ++ b) = script_ok clk nf ids imp hist a && script_ok clk nf ids imp (rev a ++ hist) b.
Proof.
  induction a as [|e a IH]; intros hist b; [reflexivity|].
  cbn [app script_ok rev]. rewrite IH, <- app_assoc. cbn [app]. now rewrite andb_assoc.
Qed.
Lemma spec_run_app clk imp a : forall hist b,
  spec_run clk imp hist (a ++ b) = spec_run clk imp hist a ++ spec_run clk imp (rev a ++ hist) b.
Proof.
  induction a as [|e a IH]; intros hist b; [reflexivity|].
  cbn [app spec_run rev]. rewrite IH, <- app_assoc. reflexivity.
Qed.

Section Nested.
Variables (clk : positive) (nf : nat) (ids : list bytes) (imp : option (Z * kstat)).
Hypothesis IMP : imp_wf nf ids imp = true.

Lemma run_spec_inv evs : forall st hist,
  Inv clk nf ids imp st hist -> script_ok clk nf ids imp hist evs = true ->
  Forall2 (out_eq sres_eq) (run clk st (map to_event evs)) (spec_run clk imp hist evs)
  /\ Inv clk nf ids imp (run_state clk st (map to_event evs)) (rev evs ++ hist).
Proof.
  induction evs as [|e evs IH]; intros st hist I H; [split; [constructor|exact I]|].
  cbn [script_ok] in H. apply andb_true_iff in H as [H H3]. apply andb_true_iff in H as [H1 H2].
  cbn [map run run_state spec_run rev].
  destruct (step_spec clk nf ids imp IMP st hist e I H1 H2) as [R I'].
  destruct (step clk st (to_event e)) as [st' o]. cbn [fst snd] in *.
  destruct (IH st' (e :: hist) I' H3) as [F I2].
  split; [constructor; assumption|]. rewrite <- app_assoc. exact I2.
Qed.

Lemma blocking_to_event b : is_blocking (to_event (kb_ev b)) = kb_blocking b.
Proof. reflexivity. Qed.

Lemma inv_set_memo st hist r : Inv clk nf ids imp st hist -> kstat_ok nf ids r = true ->
  Inv clk nf ids imp (set_memo st (Some (ensure_nf (memo st) (k_stat r)))) hist
  /\ ensure_nf (memo st) (k_stat r) = Nat.min nf 10.
Proof.
  intros (M & HF & HL) K. pose proof (ensure_ok nf ids st r M K) as E. rewrite E.
  split; [|reflexivity]. unfold Inv, set_memo. cbn [memo last1 lastp1 last2 lastp2].
  split; [now right|]. split; [exact HF|exact HL].
Qed.

Lemma first_read_ok e : event_wf nf ids e = true ->
  exists t1, first_read clk (Nat.min nf 10) (to_event e) = Val t1.
Proof.
  intros W. pose proof (k1_ok nf ids e W) as K. unfold first_read. cbn [to_event e_percpu e_k1].
  destruct (ke_percpu e).
  - rewrite (readp clk nf ids _ K). cbn. eauto.
  - rewrite (read1 clk nf ids _ K). cbn. eauto.
Qed.

Lemma Forall2_app' {A B} (R : A -> B -> Prop) a a' b b' :
  Forall2 R a b -> Forall2 R a' b' -> Forall2 R (a ++ a') (b ++ b').
Proof. induction 1; cbn; [auto|]. intros H2. constructor; auto. Qed.

Lemma brun_spec l : forall st hist,
  Inv clk nf ids imp st hist -> bscript_ok clk nf ids imp hist l = true ->
  Forall2 (out_eq sres_eq) (brun clk st (map to_bevent l)) (spec_brun clk imp hist l).
Proof.
  induction l as [|b l IH]; intros st hist I H; [constructor|].
  cbn [map brun spec_brun bscript_ok] in *. unfold bstep. cbn [to_bevent be_ev be_nested be_raise].
  rewrite blocking_to_event. destruct (kb_blocking b) eqn:B.
  - (* blocking call, possibly with nested calls *)
    assert (W : event_wf nf ids (kb_ev b) = true).
    { destruct (kb_raise b).
      - apply andb_true_iff in H as [H _]. now apply andb_true_iff in H as [_ H].
      - apply andb_true_iff in H as [H _]. rewrite script_ok_app in H. apply andb_true_iff in H as [_ H].
        cbn [script_ok] in H. apply andb_true_iff in H as [H _]. now apply andb_true_iff in H as [H _]. }
    destruct (inv_set_memo st hist (ke_k1 (kb_ev b)) I (k1_ok nf ids _ W)) as [I1 En].
    cbn [to_event e_k1]. rewrite En in *. destruct (first_read_ok (kb_ev b) W) as [t1 F]. rewrite F.
    set (st1 := set_memo st (Some (Nat.min nf 10))) in *.
    destruct (kb_raise b) eqn:Rs.
    + apply andb_true_iff in H as [H H3]. apply andb_true_iff in H as [H1 _].
      destruct (run_spec_inv (kb_nested b) st1 hist I1 H1) as [Fn I2].
      rewrite <- app_assoc. apply Forall2_app'; [exact Fn|].
      cbn [app]. constructor; [reflexivity|]. now apply IH.
    + apply andb_true_iff in H as [H1 H3]. pose proof H1 as H1'. rewrite script_ok_app in H1'.
      apply andb_true_iff in H1' as [Hn Ho].
      destruct (run_spec_inv (kb_nested b) st1 hist I1 Hn) as [Fn I2].
      assert (Mm : memo (run_state clk st1 (map to_event (kb_nested b))) = Some (Nat.min nf 10))
        by (apply run_state_memo_some; reflexivity).
      rewrite (second_half_is_step clk _ (to_event (kb_ev b)) t1 _ Mm (eq_trans (blocking_to_event b) B) F).
      cbn [script_ok] in Ho. apply andb_true_iff in Ho as [Ho _]. apply andb_true_iff in Ho as [Ho1 Ho2].
      destruct (step_spec clk nf ids imp IMP _ _ (kb_ev b) I2 Ho1 Ho2) as [Ro I3].
      destruct (step clk (run_state clk st1 (map to_event (kb_nested b))) (to_event (kb_ev b))) as [st3 r]. cbn [fst snd] in *.
      rewrite spec_run_app, <- !app_assoc. apply Forall2_app'; [exact Fn|].
      cbn [spec_run app]. constructor; [exact Ro|]. now apply IH.
  - (* any other call *)
    apply andb_true_iff in H as [H1 H3]. cbn [script_ok] in H1. apply andb_true_iff in H1 as [H1 _].
    apply andb_true_iff in H1 as [Ho1 Ho2].
    destruct (step_spec clk nf ids imp IMP st hist (kb_ev b) I Ho1 Ho2) as [Ro I3].
    destruct (step clk st (to_event (kb_ev b))) as [st' r]. cbn [fst snd app] in *.
    constructor; [exact Ro|]. now apply IH.
Qed.
End Nested.

(* THE SCRIPT THEOREM WITH NESTED CALLS *)
Theorem nested_script clk nf ids imp l :
  imp_wf nf ids imp = true -> bscript_ok clk nf ids imp [] l = true ->
  Forall2 (out_eq sres_eq)
          (brun clk (sys_start clk (option_map (fun x => (fst x, k_stat (snd x))) imp)) (map to_bevent l))
          (spec_brun clk imp [] l).
Proof. intros I H. apply (brun_spec clk nf ids imp I); [now apply inv_start|exact H]. Qed.

(* the hypotheses hold for a concrete script: thread 0 (the importer) makes a blocking per-CPU
   cpu_percent during whose sleep it calls cpu_percent() and cpu_times_percent(); then a blocking
   cpu_times_percent whose sleep is left by an exception after a nested cpu_percent(percpu=True);
   then a plain call *)
Example nested_script_nonvacuous :
  let mk u i := {| ks_total := [u; bs "0"; bs "50"; i; bs "10"; bs "0"; bs "3"; bs "0"; bs "7"; bs "0"];
                   ks_cpus := [(bs "0", [u; bs "0"; bs "50"; i; bs "10"; bs "0"; bs "3"; bs "0"; bs "7"; bs "0"])];
                   ks_tail := [] |} in
  let k0 := mk (bs "100") (bs "1000") in let k1 := mk (bs "200") (bs "1100") in let k2 := mk (bs "300") (bs "1300") in
  let k3 := mk (bs "600") (bs "1400") in let k4 := mk (bs "600") (bs "1800") in
  let ev f p i a b := {| ke_tid := 0; ke_fn := f; ke_percpu := p; ke_iv := i; ke_k1 := a; ke_k2 := b |} in
  let l := [ {| kb_ev := ev FPercent true IPos k1 k3; kb_nested := [ev FPercent false INone k2 k2; ev FTimesPercent false IZero k2 k2]; kb_raise := false |};
             {| kb_ev := ev FTimesPercent false IPos k3 k4; kb_nested := [ev FPercent true INone k4 k4]; kb_raise := true |};
             {| kb_ev := ev FPercent false INone k4 k4; kb_nested := []; kb_raise := false |} ] in
  imp_wf 10 [bs "0"] (Some (0, k0)) = true /\ bscript_ok 100 10 [bs "0"] (Some (0, k0)) [] l = true.
Proof. cbv zeta. split; vm_compute; reflexivity. Qed.
