(* C07 -- model of the CPU-times / CPU-percent code of psutil.
   Transcribed from
     psutil/_pslinux.py : set_scputimes_ntuple (253-275), cpu_times (546-559),
                          per_cpu_times (562-579)   [cpu_stats (653-675) is left to C19]
     psutil/__init__.py : _last_cpu_times* (1698-1710, 1847-1848), _cpu_tot_time,
                          _cpu_busy_time, _cpu_times_deltas (1713-1766),
                          cpu_percent (1769-1842), cpu_times_percent (1851-1907),
                          Process.cpu_percent (1018-1112, as of commit 8e92b46).
   Seconds and percentages are exact rationals (Q); Python floats and round(x, 1)
   are NOT modelled (DESIGN 3.3): every value is the exact real-number value of
   the expression the code evaluates, before round(). CLOCK_TICKS is the
   parameter [clk]. No proofs here. *)
From PV Require Export Base.Dec.
From Coq Require Export QArith Qminmax.
Open Scope Z_scope.

(* ------------------------------------------------------------ float(token) *)
(* float(x) on a token of bytes.split(): every int literal (sign, digits,
   single underscores) is a float literal with the same value; tokens made of
   characters that could form another float literal ("1e5", "1.5", "nan",
   "inf") are outside the model; anything else is a ValueError. *)
Definition floatish (c : Z) : bool :=
  is_digit c || existsb (Z.eqb c) (bs "+-._eEinfatyINFATY").

Definition py_float_int (t : bytes) : outcome Z :=
  match parse_int t with
  | Some v => Val v
  | None => if forallb floatish t then OutOfModel else Exc ValueError
  end.

(* float(x) / CLOCK_TICKS *)
Definition secs (clk : positive) (v : Z) : Q := v # clk.

(* ------------------------------------------------------------ /proc/stat *)
(* f.readline() *)
Definition first_line (content : bytes) : bytes := hd [] (lines_keep content).

(* set_scputimes_ntuple: number of fields of the scputimes tuple, from the number
   of values after the label on the first line (7, +steal, +guest, +guest_nice) *)
Definition nf_of (content : bytes) : nat :=
  let vlen := length (tl (split_ws (first_line content))) in
  (7 + (if Nat.leb 8 vlen then 1 else 0) + (if Nat.leb 9 vlen then 1 else 0)
     + (if Nat.leb 10 vlen then 1 else 0))%nat.

(* values[1 : len(scputimes._fields) + 1]; [float(x) / CLOCK_TICKS for x in fields];
   scputimes( *fields): TypeError unless exactly nf values *)
Definition line_fields (clk : positive) (nf : nat) (line : bytes) : outcome (list Q) :=
  let vals := firstn nf (tl (split_ws line)) in
  do fs <- mapM (fun x => do v <- py_float_int x; Val (secs clk v)) vals;
  if Nat.eqb (length fs) nf then Val fs else Exc TypeError.

Definition cpu_label : bytes := bs "cpu".

(* _pslinux.cpu_times() once the tuple has nf fields *)
Definition cpu_times (clk : positive) (nf : nat) (content : bytes) : outcome (list Q) :=
  line_fields clk nf (first_line content).

(* _pslinux.per_cpu_times(): skip the first line, every later line starting with b"cpu" *)
Definition per_cpu_times (clk : positive) (nf : nat) (content : bytes) : outcome (list (list Q)) :=
  mapM (line_fields clk nf) (filter (prefixb cpu_label) (tl (lines_keep content))).

(* ------------------------------------------------------------ arithmetic *)
Definition qsum (l : list Q) : Q := fold_right Qplus 0%Q l.          (* sum(times) *)
Definition fld (i : nat) (t : list Q) : Q := nth i t 0%Q.            (* getattr(times, name, 0) *)

(* field positions of scputimes *)
Definition iUSER := 0%nat.   Definition iNICE := 1%nat.   Definition iSYSTEM := 2%nat.
Definition iIDLE := 3%nat.   Definition iIOWAIT := 4%nat. Definition iIRQ := 5%nat.
Definition iSOFTIRQ := 6%nat. Definition iSTEAL := 7%nat. Definition iGUEST := 8%nat.
Definition iGUEST_NICE := 9%nat.

Fixpoint zipw {A B C} (f : A -> B -> C) (a : list A) (b : list B) : list C :=
  match a, b with
  | x :: a', y :: b' => f x y :: zipw f a' b'
  | _, _ => []
  end.

(* _cpu_times_deltas: max(0, t2.f - t1.f) for every field (both tuples have the
   memoised scputimes layout, hence the same length) *)
Definition deltas (t1 t2 : list Q) : list Q := zipw (fun a b => Qmax 0 (b - a)) t1 t2.

(* _cpu_tot_time: sum(times) - guest - guest_nice *)
Definition tot_time (t : list Q) : Q := (qsum t - fld iGUEST t - fld iGUEST_NICE t)%Q.
(* _cpu_busy_time: tot - idle - iowait *)
Definition busy_time (t : list Q) : Q := (tot_time t - fld iIDLE t - fld iIOWAIT t)%Q.

Definition qzero (q : Q) : bool := Qnum q =? 0.

(* cpu_percent.calculate (before round(.., 1)); ZeroDivisionError -> 0.0 *)
Definition calc_percent (t1 t2 : list Q) : Q :=
  let d := deltas t1 t2 in
  let all_delta := tot_time d in
  let busy_delta := busy_time d in
  if qzero all_delta then 0%Q else ((busy_delta / all_delta) * 100)%Q.

(* cpu_times_percent.calculate: scale = 100.0 / max(1, all_delta) -- all_delta in
   SECONDS, as written; min(max(0.0, x), 100.0) (round() between the two commutes
   with the clamp) *)
Definition calc_times_percent (t1 t2 : list Q) : list Q :=
  let d := deltas t1 t2 in
  let all_delta := tot_time d in
  let scale := (100 / Qmax 1 all_delta)%Q in
  map (fun fd => Qmin (Qmax 0 (fd * scale)) 100) d.

(* ------------------------------------------------------------ per-thread maps *)
Definition amap (A : Type) := list (Z * A).
Fixpoint lookup {A} (k : Z) (m : amap A) : option A :=
  match m with
  | [] => None
  | (k', v) :: r => if k =? k' then Some v else lookup k r
  end.
Fixpoint update {A} (k : Z) (v : A) (m : amap A) : amap A :=
  match m with
  | [] => [(k, v)]
  | (k', v') :: r => if k =? k' then (k, v) :: r else (k', v') :: update k v r
  end.

(* interval argument: None | 0 / 0.0 | > 0 | < 0 *)
Inductive ival := INone | IZero | IPos | INeg.

(* set_scputimes_ntuple is memoised: the layout is fixed by the first read *)
Definition ensure_nf (memo : option nat) (content : bytes) : nat :=
  match memo with Some n => n | None => nf_of content end.

(* common control flow of cpu_percent / cpu_times_percent for one of the four
   maps.  k1 = /proc/stat while the call runs, k2 = /proc/stat after
   time.sleep(interval) (read by the blocking form only).
     blocking:      t1 = read(); sleep; last[tid] = read(); calc(t1, last[tid])
     non-blocking:  t1 = last.get(tid) or read(); last[tid] = read(); calc(..)
   an exception leaves the map as it was. *)
Definition gen_call {S R} (read : nat -> bytes -> outcome S) (falsy : S -> bool)
           (calc : S -> S -> R) (memo : option nat) (m : amap S)
           (t : Z) (iv : ival) (k1 k2 : bytes) : option nat * amap S * outcome R :=
  match iv with
  | INeg => (memo, m, Exc ValueError)
  | IPos =>
    let nf := ensure_nf memo k1 in
    match read nf k1 with
    | Val t1 =>
      match read nf k2 with
      | Val t2 => (Some nf, update t t2 m, Val (calc t1 t2))
      | Exc e => (Some nf, m, Exc e)
      | OutOfModel => (Some nf, m, OutOfModel)
      end
    | Exc e => (Some nf, m, Exc e)
    | OutOfModel => (Some nf, m, OutOfModel)
    end
  | INone | IZero =>
    let nf := ensure_nf memo k1 in
    let o1 := match lookup t m with
              | Some s => if falsy s then read nf k1 else Val s
              | None => read nf k1
              end in
    match o1 with
    | Val t1 =>
      match read nf k1 with
      | Val t2 => (Some nf, update t t2 m, Val (calc t1 t2))
      | Exc e => (Some nf, m, Exc e)
      | OutOfModel => (Some nf, m, OutOfModel)
      end
    | Exc e => (Some nf, m, Exc e)
    | OutOfModel => (Some nf, m, OutOfModel)
    end
  end.

Inductive fn := FTimes | FPercent | FTimesPercent.   (* cpu_times / cpu_percent / cpu_times_percent *)
Inductive sres :=
| RTimes (l : list Q)             (* cpu_times() *)
| RTimesP (l : list (list Q))     (* cpu_times(percpu=True) *)
| RNum (q : Q)                    (* cpu_percent() *)
| RNums (l : list Q)              (* cpu_percent(percpu=True) *)
| RRow (l : list Q)               (* cpu_times_percent() *)
| RRows (l : list (list Q)).      (* cpu_times_percent(percpu=True) *)

Record sys_state := {
  memo : option nat;
  last1 : amap (list Q);            (* _last.cpu_times       (per calling thread) *)
  lastp1 : amap (list (list Q));    (* _last.per_cpu_times *)
  last2 : amap (list Q);            (* _last.cpu_times_2 *)
  lastp2 : amap (list (list Q)) }.  (* _last.per_cpu_times_2 *)
Definition sys_init : sys_state :=
  {| memo := None; last1 := []; lastp1 := []; last2 := []; lastp2 := [] |}.

(* the state right after "import psutil" executed by thread [mt] while /proc/stat read [c0]:
     _pslinux:  set_scputimes_ntuple("/proc")                         (memoised layout)
     __init__:  _last = _LastCpuTimes()      (storage of the importing thread)
                try: _last.cpu_times = _last.cpu_times_2 = cpu_times()                       except Exception: pass
                try: _last.per_cpu_times = _last.per_cpu_times_2 = cpu_times(percpu=True)   except Exception: pass *)
Definition sys_import (clk : positive) (mt : Z) (c0 : bytes) : sys_state :=
  let nf := nf_of c0 in
  let m1 := match cpu_times clk nf c0 with Val s => [(mt, s)] | _ => [] end in
  let mp := match per_cpu_times clk nf c0 with Val s => [(mt, s)] | _ => [] end in
  {| memo := Some nf; last1 := m1; lastp1 := mp; last2 := m1; lastp2 := mp |}.
(* [None] = maps emptied and layout cache cleared (what the harness does between scripts) *)
Definition sys_start (clk : positive) (imp : option (Z * bytes)) : sys_state :=
  match imp with Some (mt, c0) => sys_import clk mt c0 | None => sys_init end.

Record event := { e_tid : Z; e_fn : fn; e_percpu : bool; e_iv : ival; e_k1 : bytes; e_k2 : bytes }.

Definition never {A} (_ : A) : bool := false.          (* a namedtuple with >= 7 fields is truthy *)
Definition is_nil {A} (l : list A) : bool := match l with [] => true | _ => false end.

Definition step (clk : positive) (st : sys_state) (e : event) : sys_state * outcome sres :=
  let t := e_tid e in let iv := e_iv e in let k1 := e_k1 e in let k2 := e_k2 e in
  match e_fn e, e_percpu e with
  | FTimes, false =>        (* psutil.cpu_times(): no interval, no map; fixes the layout on first use *)
    let nf := ensure_nf (memo st) k1 in
    ({| memo := Some nf; last1 := last1 st; lastp1 := lastp1 st; last2 := last2 st; lastp2 := lastp2 st |},
     omap RTimes (cpu_times clk nf k1))
  | FTimes, true =>
    let nf := ensure_nf (memo st) k1 in
    ({| memo := Some nf; last1 := last1 st; lastp1 := lastp1 st; last2 := last2 st; lastp2 := lastp2 st |},
     omap RTimesP (per_cpu_times clk nf k1))
  | FPercent, false =>
    let '(mm, m, r) := gen_call (cpu_times clk) never calc_percent (memo st) (last1 st) t iv k1 k2 in
    ({| memo := mm; last1 := m; lastp1 := lastp1 st; last2 := last2 st; lastp2 := lastp2 st |}, omap RNum r)
  | FPercent, true =>
    let '(mm, m, r) := gen_call (per_cpu_times clk) is_nil (zipw calc_percent) (memo st) (lastp1 st) t iv k1 k2 in
    ({| memo := mm; last1 := last1 st; lastp1 := m; last2 := last2 st; lastp2 := lastp2 st |}, omap RNums r)
  | FTimesPercent, false =>
    let '(mm, m, r) := gen_call (cpu_times clk) never calc_times_percent (memo st) (last2 st) t iv k1 k2 in
    ({| memo := mm; last1 := last1 st; lastp1 := lastp1 st; last2 := m; lastp2 := lastp2 st |}, omap RRow r)
  | FTimesPercent, true =>
    let '(mm, m, r) := gen_call (per_cpu_times clk) is_nil (zipw calc_times_percent) (memo st) (lastp2 st) t iv k1 k2 in
    ({| memo := mm; last1 := last1 st; lastp1 := lastp1 st; last2 := last2 st; lastp2 := m |}, omap RRows r)
  end.

Fixpoint run (clk : positive) (st : sys_state) (evs : list event) : list (outcome sres) :=
  match evs with
  | [] => []
  | e :: r => let '(st', o) := step clk st e in o :: run clk st' r
  end.

(* the state after a list of calls *)
Fixpoint run_state (clk : positive) (st : sys_state) (evs : list event) : sys_state :=
  match evs with
  | [] => st
  | e :: r => run_state clk (fst (step clk st e)) r
  end.

(* ------------------------------------------------------------ re-entrancy within one thread *)
(* While a blocking cpu_percent(interval > 0) / cpu_times_percent(interval > 0) sleeps, code
   running in the SAME thread (signal handler, gc callback, __del__, trace hook) may call these
   functions again.  In the code the blocking call's first sample t1 is a local variable; the
   nested calls go through the thread's stored samples like any call; after the sleep the
   blocking call reads again, stores that sample and answers calculate(t1, t2).  If the sleep is
   left by an exception the blocking call stores nothing.
   [be_nested]: calls made by the same thread during the sleep (only meaningful when [be_ev] is a
   blocking cpu_percent / cpu_times_percent call); [be_raise]: the sleep raises afterwards. *)
Record bevent := { be_ev : event; be_nested : list event; be_raise : bool }.

Inductive samp := S1 (l : list Q) | SP (l : list (list Q)).
Definition set_memo (st : sys_state) (m : option nat) : sys_state :=
  {| memo := m; last1 := last1 st; lastp1 := lastp1 st; last2 := last2 st; lastp2 := lastp2 st |}.
(* t1 = cpu_times() / cpu_times(percpu=True) *)
Definition first_read (clk : positive) (nf : nat) (e : event) : outcome samp :=
  if e_percpu e then omap SP (per_cpu_times clk nf (e_k1 e)) else omap S1 (cpu_times clk nf (e_k1 e)).
(* after the sleep: last[tid] = read(); return calculate(t1, last[tid]) *)
Definition second_half (clk : positive) (st : sys_state) (e : event) (t1 : samp) : sys_state * outcome sres :=
  let nf := ensure_nf (memo st) (e_k2 e) in
  let t := e_tid e in
  match e_fn e, t1 with
  | FPercent, S1 a =>
    match cpu_times clk nf (e_k2 e) with
    | Val b => ({| memo := Some nf; last1 := update t b (last1 st); lastp1 := lastp1 st; last2 := last2 st; lastp2 := lastp2 st |},
                Val (RNum (calc_percent a b)))
    | Exc x => (set_memo st (Some nf), Exc x) | OutOfModel => (set_memo st (Some nf), OutOfModel)
    end
  | FPercent, SP a =>
    match per_cpu_times clk nf (e_k2 e) with
    | Val b => ({| memo := Some nf; last1 := last1 st; lastp1 := update t b (lastp1 st); last2 := last2 st; lastp2 := lastp2 st |},
                Val (RNums (zipw calc_percent a b)))
    | Exc x => (set_memo st (Some nf), Exc x) | OutOfModel => (set_memo st (Some nf), OutOfModel)
    end
  | FTimesPercent, S1 a =>
    match cpu_times clk nf (e_k2 e) with
    | Val b => ({| memo := Some nf; last1 := last1 st; lastp1 := lastp1 st; last2 := update t b (last2 st); lastp2 := lastp2 st |},
                Val (RRow (calc_times_percent a b)))
    | Exc x => (set_memo st (Some nf), Exc x) | OutOfModel => (set_memo st (Some nf), OutOfModel)
    end
  | FTimesPercent, SP a =>
    match per_cpu_times clk nf (e_k2 e) with
    | Val b => ({| memo := Some nf; last1 := last1 st; lastp1 := lastp1 st; last2 := last2 st; lastp2 := update t b (lastp2 st) |},
                Val (RRows (zipw calc_times_percent a b)))
    | Exc x => (set_memo st (Some nf), Exc x) | OutOfModel => (set_memo st (Some nf), OutOfModel)
    end
  | FTimes, _ => (st, OutOfModel)
  end.

Definition is_blocking (e : event) : bool :=
  match e_fn e, e_iv e with
  | FPercent, IPos | FTimesPercent, IPos => true
  | _, _ => false
  end.

(* results in the order the calls return: the nested ones, then the blocking one *)
Definition bstep (clk : positive) (st : sys_state) (b : bevent) : sys_state * list (outcome sres) :=
  let e := be_ev b in
  if is_blocking e then
    let nf := ensure_nf (memo st) (e_k1 e) in
    let st1 := set_memo st (Some nf) in
    match first_read clk nf e with
    | Val t1 =>
      let st2 := run_state clk st1 (be_nested b) in
      let rs := run clk st1 (be_nested b) in
      if be_raise b then (st2, rs ++ [Exc RuntimeError])            (* the sleep is left by an exception *)
      else let '(st3, r) := second_half clk st2 e t1 in (st3, rs ++ [r])
    | Exc x => (st1, [Exc x])                                       (* fails before the sleep *)
    | OutOfModel => (st1, [OutOfModel])
    end
  else let '(st', r) := step clk st e in (st', [r]).

Fixpoint brun (clk : positive) (st : sys_state) (l : list bevent) : list (outcome sres) :=
  match l with
  | [] => []
  | b :: r => let '(st', rs) := bstep clk st b in rs ++ brun clk st' r
  end.

(* thread lifetime.  As of /repo d2712e2 the previous samples live in thread-local storage
   (class _LastCpuTimes(threading.local): cpu_times, per_cpu_times, cpu_times_2,
   per_cpu_times_2): the key [e_tid] of the four maps below is the calling THREAD itself -- its
   storage is created empty when the thread first calls, primed for the importing thread, and
   goes away with the thread (never observable: a thread identity is never reused).  Before
   d2712e2 the same maps were dicts keyed by thread IDENT, which the OS hands to a new thread;
   that legacy reading is obtained by running [step] with idents as keys.  Either way psutil
   has no hook on a thread starting or exiting, an ident being handed on, or a
   threading.Thread object being garbage-collected: none of these is an event for the code.
   A history is a list of [Some call] / [None = lifetime event]. *)
Fixpoint run_l (clk : positive) (st : sys_state) (l : list (option event)) : list (outcome sres) :=
  match l with
  | [] => []
  | None :: r => run_l clk st r
  | Some e :: r => let '(st', o) := step clk st e in o :: run_l clk st' r
  end.

(* ------------------------------------------------------------ Process.cpu_percent *)
(* (code after /repo commit 8e92b46: the stored timestamp is the plain wall clock and
   the elapsed time is scaled by num_cpus) *)

(* _pslinux.Process.cpu_times(): pcputimes(user, system, children_user, children_system, iowait),
   each = float(stat field) / CLOCK_TICKS (fields 14, 15, 16, 17, 42 of /proc/<pid>/stat) *)
Record ptimes := { pt_user : Q; pt_system : Q; pt_children_user : Q; pt_children_system : Q; pt_iowait : Q }.

(* one reading of the clock and of the process: _timer(), and the five tick counters *)
Record preading := { r_t : Q; r_u : Z; r_s : Z; r_cu : Z; r_cs : Z; r_io : Z }.
Definition proc_cpu_times (clk : positive) (r : preading) : ptimes :=
  {| pt_user := secs clk (r_u r); pt_system := secs clk (r_s r);
     pt_children_user := secs clk (r_cu r); pt_children_system := secs clk (r_cs r);
     pt_iowait := secs clk (r_io r) |}.

Record pstate := { p_sys : option Q;            (* _last_sys_cpu_times : timer() = _timer() *)
                   p_proc : option ptimes }.    (* _last_proc_cpu_times : the whole pcputimes tuple *)
Definition p_init : pstate := {| p_sys := None; p_proc := None |}.

(* one call: cpu_count() answer (None modelled as 0), the reading at entry, and the
   reading after time.sleep (blocking form only) *)
Record pevent := { pe_iv : ival; pe_ncpu : Z; pe_r1 : preading; pe_r2 : preading }.

(* num_cpus = cpu_count() or 1   (cpu_count() is None when the platform says < 1) *)
Definition ncpu_eff (n : Z) : Z := if n <? 1 then 1 else n.

(* delta_proc = (pt2.user - pt1.user) + (pt2.system - pt1.system)
   delta_time = (st2 - st1) * num_cpus ; store st2, pt2 ;
   (delta_proc / delta_time) * 100 * num_cpus, ZeroDivisionError -> 0.0 *)
Definition proc_finish (st1 : Q) (pt1 : ptimes) (st2 : Q) (pt2 : ptimes) (n : Z) : pstate * outcome Q :=
  let delta_proc := ((pt_user pt2 - pt_user pt1) + (pt_system pt2 - pt_system pt1))%Q in
  let delta_time := ((st2 - st1) * inject_Z n)%Q in
  ({| p_sys := Some st2; p_proc := Some pt2 |},
   Val (if qzero delta_time then 0%Q else ((delta_proc / delta_time) * 100 * inject_Z n)%Q)).

Definition proc_step (clk : positive) (st : pstate) (e : pevent) : pstate * outcome Q :=
  match pe_iv e with
  | INeg => (st, Exc ValueError)
  | IPos =>
    let n := ncpu_eff (pe_ncpu e) in
    proc_finish (r_t (pe_r1 e)) (proc_cpu_times clk (pe_r1 e))
                (r_t (pe_r2 e)) (proc_cpu_times clk (pe_r2 e)) n
  | INone | IZero =>
    let n := ncpu_eff (pe_ncpu e) in
    let st2 := r_t (pe_r1 e) in
    let pt2 := proc_cpu_times clk (pe_r1 e) in
    match p_sys st, p_proc st with
    | Some st1, Some pt1 => proc_finish st1 pt1 st2 pt2 n
    | _, _ => ({| p_sys := Some st2; p_proc := Some pt2 |}, Val 0%Q)
    end
  end.

(* several Process objects, each with its own state; events are (object id, call) *)
Fixpoint proc_run (clk : positive) (m : amap pstate) (evs : list (Z * pevent)) : list (outcome Q) :=
  match evs with
  | [] => []
  | (o, e) :: r =>
    let st := match lookup o m with Some s => s | None => p_init end in
    let '(st', res) := proc_step clk st e in
    res :: proc_run clk (update o st' m) r
  end.
