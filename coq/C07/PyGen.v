(* C07 -- a small expression / statement language over exact rationals that covers exactly the
   shape of the arithmetic of psutil/__init__.py:
     _cpu_tot_time, _cpu_busy_time, the loop body of _cpu_times_deltas,
     cpu_percent.calculate, cpu_times_percent.calculate, and the tail of Process.cpu_percent
     (num_cpus, delta_proc, delta_time, try / except ZeroDivisionError / else).
   props/_c07_gen.py translates the CURRENT source of these functions (ast) into programs of
   this language (coq/Gen/C07_Tables.v), failing closed on any shape it does not know;
   C07/ProofsGen.v proves the interpreter on the generated programs equal to the functions of
   C07/Model.v for all inputs.  No proofs here.
   Values are exact rationals: round(x, 1) is the identity here (floats are not modelled,
   DESIGN 3.3), sum() is the model's qsum (exact addition is associative). *)
From PV Require Export C07.Model.
Open Scope Z_scope.

Inductive binop := OAdd | OSub | OMul | ODiv.

Inductive expr :=
| EConst (q : Q)                         (* numeric literal: 0, 1, 100, 0.0, 100.0 *)
| EVar (x : string)                      (* a local number *)
| EAttr (t f : string)                   (* t.f                   AttributeError when absent *)
| EGetattr (t f : string) (d : Q)        (* getattr(t, "f", d)    d a literal *)
| ESum (t : string)                      (* sum(t) *)
| ECall (fn t : string)                  (* fn(t): one of the translated helpers *)
| EBin (o : binop) (a b : expr)          (* a + b, a - b, a * b, a / b (ZeroDivisionError) *)
| EMax (a b : expr)                      (* max(a, b) *)
| EMin (a b : expr)                      (* min(a, b) *)
| EOr (a b : expr)                       (* a or b on numbers: b when a is 0 (None is modelled as 0) *)
| ERound1 (a : expr).                    (* round(a, 1): identity on exact values *)

Inductive stmt :=
| SAssign (x : string) (e : expr)                    (* x = e      (x -= e is x = x - e) *)
| SDeltas (x a b : string)                           (* x = _cpu_times_deltas(a, b) *)
| STryAssign (x : string) (e h : expr)               (* try: x = e / except ZeroDivisionError: return h / else: <the rest> *)
| SMapFor (out it src : string) (body : list (string * expr)) (app : string)
                                                     (* out = []; for it in src: body; out.append(app) *)
| SReturn (e : expr)
| SReturnTuple (x : string).                         (* return _psplatform.scputimes( *x ) *)

(* a named tuple: field names (in order) and as many values as the tuple has fields *)
Record tup := { t_names : list string; t_vals : list Q }.
Record env := { sc : list (string * Q); tu : list (string * tup) }.

Fixpoint sget {A} (k : string) (m : list (string * A)) : option A :=
  match m with
  | [] => None
  | (k', v) :: r => if String.eqb k k' then Some v else sget k r
  end.
Definition set_sc (x : string) (v : Q) (en : env) : env := {| sc := (x, v) :: sc en; tu := tu en |}.
Definition set_tu (x : string) (v : tup) (en : env) : env := {| sc := sc en; tu := (x, v) :: tu en |}.

Fixpoint index_of (f : string) (names : list string) : option nat :=
  match names with
  | [] => None
  | n :: r => if String.eqb f n then Some O else option_map S (index_of f r)
  end.
Definition tfield (t : tup) (f : string) : option Q :=
  match index_of f (t_names t) with Some i => nth_error (t_vals t) i | None => None end.

(* the field names of the two named tuples (psutil/_pslinux.py: scputimes, pcputimes) *)
Definition scputimes_names : list string :=
  ["user"; "nice"; "system"; "idle"; "iowait"; "irq"; "softirq"; "steal"; "guest"; "guest_nice"]%string.
Definition pcputimes_names : list string :=
  ["user"; "system"; "children_user"; "children_system"; "iowait"]%string.
Definition scpu (l : list Q) : tup := {| t_names := scputimes_names; t_vals := l |}.
Definition pcpu (p : ptimes) : tup :=
  {| t_names := pcputimes_names;
     t_vals := [pt_user p; pt_system p; pt_children_user p; pt_children_system p; pt_iowait p] |}.

Section Interp.
Variable call : string -> tup -> outcome Q.

Definition binop_eval (o : binop) (x y : Q) : outcome Q :=
  match o with
  | OAdd => Val (x + y)%Q
  | OSub => Val (x - y)%Q
  | OMul => Val (x * y)%Q
  | ODiv => if qzero y then Exc ZeroDivisionError else Val (x / y)%Q
  end.

Fixpoint eval (en : env) (ex : expr) : outcome Q :=
  match ex with
  | EConst q => Val q
  | EVar x => match sget x (sc en) with Some v => Val v | None => OutOfModel end
  | EAttr t f =>
    match sget t (tu en) with
    | Some tp => match tfield tp f with Some v => Val v | None => Exc AttributeError end
    | None => OutOfModel
    end
  | EGetattr t f d =>
    match sget t (tu en) with
    | Some tp => match tfield tp f with Some v => Val v | None => Val d end
    | None => OutOfModel
    end
  | ESum t => match sget t (tu en) with Some tp => Val (qsum (t_vals tp)) | None => OutOfModel end
  | ECall fn t => match sget t (tu en) with Some tp => call fn tp | None => OutOfModel end
  | EBin o a b => do x <- eval en a; do y <- eval en b; binop_eval o x y
  | EMax a b => do x <- eval en a; do y <- eval en b; Val (Qmax x y)
  | EMin a b => do x <- eval en a; do y <- eval en b; Val (Qmin x y)
  | EOr a b => do x <- eval en a; if qzero x then eval en b else Val x
  | ERound1 a => eval en a
  end.

Fixpoint assigns (body : list (string * expr)) (en : env) : outcome env :=
  match body with
  | [] => Val en
  | (x, e) :: r => do v <- eval en e; assigns r (set_sc x v en)
  end.

(* for it in vals: body; out.append(app) -- the environment is threaded through the iterations *)
Fixpoint mapfor (it : string) (body : list (string * expr)) (app : string) (vals : list Q) (en : env)
  : outcome (env * list Q) :=
  match vals with
  | [] => Val (en, [])
  | v :: r =>
    do en1 <- assigns body (set_sc it v en);
    match sget app (sc en1) with
    | Some a => do er <- mapfor it body app r en1; Val (fst er, a :: snd er)
    | None => OutOfModel
    end
  end.

Inductive value := VNum (q : Q) | VTup (l : list Q).

Fixpoint py_run (p : list stmt) (en : env) : outcome value :=
  match p with
  | [] => OutOfModel                                  (* falling off the end returns None *)
  | SAssign x e :: r => do v <- eval en e; py_run r (set_sc x v en)
  | SDeltas x a b :: r =>
    match sget a (tu en), sget b (tu en) with
    | Some ta, Some tb =>
      py_run r (set_tu x {| t_names := t_names tb; t_vals := deltas (t_vals ta) (t_vals tb) |} en)
    | _, _ => OutOfModel
    end
  | STryAssign x e h :: r =>
    match eval en e with
    | Val v => py_run r (set_sc x v en)
    | Exc ZeroDivisionError => omap VNum (eval en h)
    | Exc x => Exc x
    | OutOfModel => OutOfModel
    end
  | SMapFor out it src body app :: r =>
    match sget src (tu en) with
    | Some ts =>
      do er <- mapfor it body app (t_vals ts) en;
      py_run r (set_tu out {| t_names := t_names ts; t_vals := snd er |} (fst er))
    | None => OutOfModel
    end
  | SReturn e :: _ => omap VNum (eval en e)
  | SReturnTuple x :: _ => match sget x (tu en) with Some t => Val (VTup (t_vals t)) | None => OutOfModel end
  end.

(* a one-argument helper (argument = a named tuple) returning a number *)
Definition run_fn (p : list stmt) (arg : string) (t : tup) : outcome Q :=
  match py_run p {| sc := []; tu := [(arg, t)] |} with
  | Val (VNum q) => Val q
  | Val (VTup _) => OutOfModel
  | Exc e => Exc e
  | OutOfModel => OutOfModel
  end.
End Interp.

Definition no_calls (_ : string) (_ : tup) : outcome Q := OutOfModel.
