(* C07 -- the programs translated from the CURRENT source (Gen/C07_Tables.v, language and
   interpreter in C07/PyGen.v) compute the functions of the hand-written model (C07/Model.v),
   for all inputs.  When the source changes semantically the generated programs change and these
   proofs no longer compile. *)
From PV Require Import C07.PyGen Gen.C07_Tables.
Local Open Scope Q_scope.

Lemma nth_error_fld : forall i (l : list Q),
  match nth_error l i with Some v => v | None => 0 end = fld i l.
Proof. unfold fld. induction i; destruct l; cbn; auto. Qed.

Lemma nth_error_some_fld : forall i (l : list Q), (i < length l)%nat -> nth_error l i = Some (fld i l).
Proof. unfold fld. induction i; destruct l; cbn; intros; try lia; auto. apply IHi. lia. Qed.

Lemma opt_val : forall (o : option Q) (d : Q),
  match o with Some v => Val v | None => Val d end = Val (match o with Some v => v | None => d end).
Proof. destruct o; reflexivity. Qed.

(* ---- _cpu_tot_time(times) = sum(times) - guest - guest_nice (absent fields count 0) *)
Lemma gen_tot_time : forall l,
  run_fn no_calls c07_tot_prog "times" {| t_names := scputimes_names; t_vals := l |} = Val (tot_time l).
Proof.
  intros l. unfold run_fn, c07_tot_prog. cbn -[nth_error qsum].
  rewrite !opt_val. cbn -[nth_error qsum]. rewrite !nth_error_fld. reflexivity.
Qed.

(* ---- _cpu_busy_time(times) = _cpu_tot_time(times) - idle - iowait *)
Lemma gen_busy_time : forall l, (4 <= length l)%nat ->
  run_fn c07_call1 c07_busy_prog "times" {| t_names := scputimes_names; t_vals := l |} = Val (busy_time l).
Proof.
  intros l H. unfold run_fn, c07_busy_prog. cbn -[nth_error qsum run_fn scputimes_names].
  rewrite gen_tot_time. cbn -[nth_error qsum run_fn].
  rewrite (nth_error_some_fld 3 l) by lia. cbn -[nth_error qsum run_fn].
  rewrite opt_val. cbn -[nth_error qsum run_fn]. rewrite nth_error_fld. reflexivity.
Qed.

(* without an idle field: AttributeError, as in Python *)
Lemma gen_busy_time_short : forall l, (length l < 4)%nat ->
  run_fn c07_call1 c07_busy_prog "times" {| t_names := scputimes_names; t_vals := l |} = Exc AttributeError.
Proof.
  intros l H. unfold run_fn, c07_busy_prog. cbn -[nth_error qsum run_fn scputimes_names].
  rewrite gen_tot_time. cbn -[nth_error qsum run_fn].
  destruct (nth_error l 3) eqn:E; [|reflexivity].
  exfalso. assert (nth_error l 3 <> None) as N by congruence. apply nth_error_Some in N. lia.
Qed.

(* ---- the loop body of _cpu_times_deltas: max(0, t2.f - t1.f) *)
Definition env_ab (a b : Q) : env := {| sc := [("t1@field"%string, a); ("t2@field"%string, b)]; tu := [] |}.
Lemma gen_delta_body : forall a b,
  py_run no_calls c07_delta_body_prog (env_ab a b) = Val (VNum (Qmax 0 (b - a))).
Proof. intros. reflexivity. Qed.

(* the model's deltas are that body applied field by field *)
Lemma gen_deltas_fieldwise : forall t1 t2,
  map (fun ab => py_run no_calls c07_delta_body_prog (env_ab (fst ab) (snd ab))) (combine t1 t2)
  = map (fun q => Val (VNum q)) (deltas t1 t2).
Proof.
  induction t1 as [|a t1 IH]; destruct t2 as [|b t2]; try reflexivity.
  cbn [combine map deltas zipw fst snd]. rewrite gen_delta_body. f_equal. apply IH.
Qed.

(* ---- cpu_percent.calculate *)
Definition env_t (t1 t2 : list Q) : env :=
  {| sc := []; tu := [("t1"%string, scpu t1); ("t2"%string, scpu t2)] |}.

Lemma gen_calc_percent : forall t1 t2, (4 <= length (deltas t1 t2))%nat ->
  py_run c07_call2 c07_percent_calc_prog (env_t t1 t2) = Val (VNum (calc_percent t1 t2)).
Proof.
  intros t1 t2 H. unfold c07_percent_calc_prog, env_t, calc_percent.
  cbn -[run_fn scputimes_names deltas qzero Qdiv Qmult].
  rewrite gen_tot_time. cbn -[run_fn scputimes_names deltas qzero Qdiv Qmult].
  rewrite gen_busy_time by exact H. cbn -[run_fn scputimes_names deltas qzero Qdiv Qmult].
  destruct (qzero (tot_time (deltas t1 t2))); reflexivity.
Qed.

(* ---- cpu_times_percent.calculate *)
Definition tp_body : list (string * expr) :=
  [("field_perc"%string, EBin OMul (EVar "field_delta") (EVar "scale"));
   ("field_perc"%string, ERound1 (EVar "field_perc"));
   ("field_perc"%string, EMin (EMax (EConst 0) (EVar "field_perc")) (EConst 100))].

Lemma gen_tp_loop : forall call s vals en, sget "scale"%string (sc en) = Some s ->
  exists en', mapfor call "field_delta" tp_body "field_perc" vals en
              = Val (en', map (fun fd => Qmin (Qmax 0 (fd * s)) 100) vals)
              /\ sget "scale"%string (sc en') = Some s /\ tu en' = tu en.
Proof.
  intros call s vals. induction vals as [|v r IH]; intros en Hs.
  - exists en. cbn. auto.
  - cbn -[Qmin Qmax Qmult]. rewrite Hs. cbn -[Qmin Qmax Qmult mapfor].
    match goal with |- context [mapfor _ _ _ _ r ?E] => destruct (IH E) as [en' [H1 [H2 H3]]] end.
    + cbn. exact Hs.
    + rewrite H1. cbn -[Qmin Qmax Qmult]. exists en'. split; [reflexivity|]. split; [exact H2|]. rewrite H3. reflexivity.
Qed.

Lemma gen_calc_times_percent : forall t1 t2,
  py_run c07_call2 c07_times_percent_calc_prog (env_t t1 t2) = Val (VTup (calc_times_percent t1 t2)).
Proof.
  intros t1 t2. unfold c07_times_percent_calc_prog, env_t, calc_times_percent.
  cbn -[run_fn scputimes_names deltas qzero Qdiv Qmult Qmax Qmin mapfor].
  rewrite gen_tot_time. cbn -[run_fn scputimes_names deltas qzero Qdiv Qmult Qmax Qmin mapfor].
  assert (qzero (Qmax 1 (tot_time (deltas t1 t2))) = false) as Z.
  { unfold qzero. apply Z.eqb_neq. intro E.
    assert (1 <= Qmax 1 (tot_time (deltas t1 t2))) as L by apply Q.le_max_l.
    unfold Qle in L. rewrite E in L. cbn in L. lia. }
  rewrite Z. cbn -[run_fn scputimes_names deltas qzero Qdiv Qmult Qmax Qmin mapfor].
  fold tp_body.
  match goal with |- context [mapfor ?c _ _ _ ?v ?E] =>
    destruct (gen_tp_loop c (100 / Qmax 1 (tot_time (deltas t1 t2))) v E) as [en' [H1 [H2 H3]]] end.
  - reflexivity.
  - rewrite H1. cbn -[run_fn scputimes_names deltas qzero Qdiv Qmult Qmax Qmin mapfor]. reflexivity.
Qed.

(* ---- the arithmetic tail of Process.cpu_percent *)
Definition env_p (n : Z) (st1 : Q) (pt1 : ptimes) (st2 : Q) (pt2 : ptimes) : env :=
  {| sc := [("st1"%string, st1); ("st2"%string, st2); ("cpu_count()"%string, inject_Z n)];
     tu := [("pt1"%string, pcpu pt1); ("pt2"%string, pcpu pt2)] |}.

(* n = the answer of cpu_count(), None modelled as 0 *)
Lemma gen_proc_percent : forall n st1 pt1 st2 pt2, (0 <= n)%Z ->
  py_run no_calls c07_proc_percent_prog (env_p n st1 pt1 st2 pt2)
  = omap VNum (snd (proc_finish st1 pt1 st2 pt2 (ncpu_eff n))).
Proof.
  intros n st1 pt1 st2 pt2 Hn. unfold c07_proc_percent_prog, env_p, proc_finish, ncpu_eff.
  cbn -[qzero Qdiv Qmult Qminus Qplus inject_Z Z.ltb].
  assert (qzero (inject_Z n) = (n <? 1)%Z) as E.
  { unfold qzero, inject_Z. cbn [Qnum]. destruct (Z.eqb_spec n 0); destruct (Z.ltb_spec n 1); try reflexivity; lia. }
  rewrite E. destruct (n <? 1)%Z.
  - cbn -[qzero Qdiv Qmult Qminus Qplus inject_Z].
    change (1 # 1) with (inject_Z 1).
    destruct (qzero ((st2 - st1) * inject_Z 1)); reflexivity.
  - cbn -[qzero Qdiv Qmult Qminus Qplus inject_Z].
    destruct (qzero ((st2 - st1) * inject_Z n)); reflexivity.
Qed.

(* the hypotheses are satisfiable *)
Definition ex_t1 : list Q := [1; 2; 3; 4; 5; 6; 7].
Definition ex_t2 : list Q := [2; 3; 4; 5; 6; 7; 9].
Example gen_calc_percent_ex :
  (4 <= length (deltas ex_t1 ex_t2))%nat /\
  py_run c07_call2 c07_percent_calc_prog (env_t ex_t1 ex_t2) = Val (VNum ((6 / 8) * 100)).
Proof. split; [cbn; lia|]. reflexivity. Qed.
