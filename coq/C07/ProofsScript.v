(* C07 -- the script theorem: for every script of cpu_times / cpu_percent /
   cpu_times_percent calls by any threads (blocking or not, percpu or not), starting
   from the import-time state, the model's results are the demanded ones (spec_run:
   each thread against its own previous sample of the same series). *)
From PV Require Import C07.Spec C07.ProofsParse C07.ProofsArith C07.ProofsState.
From Coq Require Import Lqa Setoid.

Lemma list_beqb_eq a b : list_beqb a b = true -> a = b.
Proof.
  revert b; induction a as [|x a IH]; intros [|y b] H; cbn in H; try discriminate; [reflexivity|].
  apply andb_true_iff in H as [H1 H2]. apply beqb_eq in H1. subst. f_equal. auto.
Qed.

Lemma Forall2_refl {A} (R : A -> A -> Prop) l : (forall x, R x x) -> Forall2 R l l.
Proof. intros H. induction l; constructor; auto. Qed.

Lemma forallb_const_true {A} (l : list A) : forallb (fun _ => true) l = true.
Proof. induction l; cbn; auto. Qed.

(* zipping per-CPU rows: a per-pair relation lifts to the zipped lists *)
Lemma zipw_map_F2 {A B} clk (P : list Z -> bool) (f : list Q -> list Q -> A) (g : list Z -> list Z -> B)
      (Rel : A -> B -> Prop) la lb :
  forallb P (zipw dticks la lb) = true ->
  (forall x y, In x la -> In y lb -> P (dticks x y) = true -> Rel (f (map (secs clk) x) (map (secs clk) y)) (g x y)) ->
  Forall2 Rel (zipw f (map (map (secs clk)) la) (map (map (secs clk)) lb)) (zipw g la lb).
Proof.
  revert lb; induction la as [|x la IH]; intros [|y lb] HP H; cbn; try constructor.
  - cbn in HP. apply andb_true_iff in HP as [H1 _]. apply H; cbn; auto.
  - cbn in HP. apply andb_true_iff in HP as [_ H2]. apply IH; [exact H2|].
    intros x' y' Hx Hy. apply H; cbn; auto.
Qed.

Section Script.
Variables (clk : positive) (nf : nat) (ids : list bytes) (imp : option (Z * kstat)).
Let n := Nat.min nf 10.
Hypothesis IMP : imp_wf nf ids imp = true.

Definition smp1 (r : kstat) : list Q := spec_cpu_times clk r.
Definition smpp (r : kstat) : list (list Q) := spec_per_cpu_times clk r.

Lemma ok_wf r : kstat_ok nf ids r = true -> wf_kstat nf r = true /\ cpu_ids r = ids.
Proof. unfold kstat_ok. intros H. apply andb_true_iff in H as [H1 H2]. split; [exact H1|now apply list_beqb_eq]. Qed.

Lemma nf_ok r : kstat_ok nf ids r = true -> nf_of (k_stat r) = n.
Proof. intros H. apply ok_wf in H as [H _]. unfold n. now apply nf_of_kstat. Qed.
Lemma read1 r : kstat_ok nf ids r = true -> cpu_times clk n (k_stat r) = Val (smp1 r).
Proof. intros H. rewrite <- (nf_ok r H). apply ok_wf in H as [H _]. exact (cpu_times_roundtrip clk nf r H). Qed.
Lemma readp r : kstat_ok nf ids r = true -> per_cpu_times clk n (k_stat r) = Val (smpp r).
Proof. intros H. rewrite <- (nf_ok r H). apply ok_wf in H as [H _]. exact (per_cpu_times_roundtrip clk nf r H). Qed.

Lemma n_range : (7 <= nf)%nat -> (7 <= n <= 10)%nat.
Proof. unfold n. lia. Qed.
Lemma ticks_length fs : length fs = nf -> length (ticks fs) = n.
Proof. intros H. unfold ticks. rewrite map_length, firstn_length, H. unfold n. lia. Qed.

Lemma total_len r : kstat_ok nf ids r = true -> length (ticks (ks_total r)) = n /\ (7 <= n <= 10)%nat.
Proof.
  intros H. apply ok_wf in H as [H _]. destruct (wf_parts nf r H) as (H7 & Hl & _).
  split; [now apply ticks_length|now apply n_range].
Qed.
Lemma row_len r x : kstat_ok nf ids r = true -> In x (cpu_rows r) -> length x = n /\ (7 <= n <= 10)%nat.
Proof.
  intros H Hx. apply ok_wf in H as [H _]. destruct (wf_parts nf r H) as (H7 & _ & _ & Hc & _).
  unfold cpu_rows in Hx. apply in_map_iff in Hx as (c & <- & Hin). destruct (Hc c Hin) as (_ & Hl & _).
  split; [now apply ticks_length|now apply n_range].
Qed.
Lemma smpp_rows r : smpp r = map (map (secs clk)) (cpu_rows r).
Proof. unfold smpp, spec_per_cpu_times, cpu_rows. now rewrite map_map. Qed.

(* ---- the four per-pair facts *)
Lemma pair1_pct a b : kstat_ok nf ids a = true -> kstat_ok nf ids b = true ->
  (calc_percent (smp1 a) (smp1 b) == spec_percent (ticks (ks_total a)) (ticks (ks_total b)))%Q.
Proof.
  intros Ha Hb. destruct (total_len a Ha) as [La R]. destruct (total_len b Hb) as [Lb _].
  apply percent_formula; [congruence|now rewrite La].
Qed.

Lemma pairp_pct a b : kstat_ok nf ids a = true -> kstat_ok nf ids b = true ->
  Forall2 Qeq (zipw calc_percent (smpp a) (smpp b)) (zipw spec_percent (cpu_rows a) (cpu_rows b)).
Proof.
  intros Ha Hb. rewrite !smpp_rows.
  apply (zipw_map_F2 clk (fun _ => true)); [apply forallb_const_true|].
  intros x y Hx Hy _. destruct (row_len a x Ha Hx) as [Lx R]. destruct (row_len b y Hb Hy) as [Ly _].
  apply percent_formula; [congruence|now rewrite Lx].
Qed.

Lemma row_tp x y : length x = n -> length y = n -> (7 <= n <= 10)%nat -> row_ok clk (dticks x y) = true ->
  Forall2 Qeq (calc_times_percent (map (secs clk) x) (map (secs clk) y)) (spec_shares x y).
Proof.
  intros Lx Ly R H. unfold row_ok in H. apply orb_true_iff in H as [H|H].
  - apply Z.leb_le in H. apply times_percent_formula; [congruence|now rewrite Lx|exact H].
  - apply times_percent_zero. rewrite forallb_forall in H. apply Forall_forall.
    intros z Hz. specialize (H z Hz). apply Z.eqb_eq in H. auto.
Qed.

Lemma pair1_tp a b : kstat_ok nf ids a = true -> kstat_ok nf ids b = true ->
  forallb (row_ok clk) (pair_rows false a b) = true ->
  qlist_eq (calc_times_percent (smp1 a) (smp1 b)) (spec_shares (ticks (ks_total a)) (ticks (ks_total b))).
Proof.
  intros Ha Hb H. cbn [pair_rows forallb] in H. rewrite andb_true_r in H.
  destruct (total_len a Ha) as [La R]. destruct (total_len b Hb) as [Lb _].
  now apply row_tp.
Qed.

Lemma pairp_tp a b : kstat_ok nf ids a = true -> kstat_ok nf ids b = true ->
  forallb (row_ok clk) (pair_rows true a b) = true ->
  Forall2 qlist_eq (zipw calc_times_percent (smpp a) (smpp b)) (zipw spec_shares (cpu_rows a) (cpu_rows b)).
Proof.
  intros Ha Hb H. cbn [pair_rows] in H. rewrite !smpp_rows.
  apply (zipw_map_F2 clk (row_ok clk)); [exact H|].
  intros x y Hx Hy Hr. destruct (row_len a x Ha Hx) as [Lx R]. destruct (row_len b y Hb Hy) as [Ly _].
  now apply row_tp.
Qed.

(* ---- one call whose reads succeed *)
Lemma gen_call_good {S R} (read : nat -> bytes -> outcome S) (falsy : S -> bool) (calc : S -> S -> R)
      (smp : kstat -> S) memo m t iv r1 r2 pr :
  ensure_nf memo (k_stat r1) = n ->
  read n (k_stat r1) = Val (smp r1) -> read n (k_stat r2) = Val (smp r2) ->
  lookup t m = option_map smp pr ->
  (forall r, pr = Some r -> falsy (smp r) = true -> smp r = smp r1) ->
  iv <> INeg ->
  gen_call read falsy calc memo m t iv (k_stat r1) (k_stat r2)
  = (Some n, update t (smp (if is_pos iv then r2 else r1)) m,
     Val (if is_pos iv then calc (smp r1) (smp r2)
          else calc (smp (match pr with Some r => r | None => r1 end)) (smp r1))).
Proof.
  intros En R1 R2 L F Hiv. unfold gen_call.
  destruct iv; try congruence; cbv zeta; rewrite En; cbn [is_pos]; [| |rewrite R1].
  - rewrite L. destruct pr as [r|]; cbn [option_map].
    + destruct (falsy (smp r)) eqn:E; [rewrite !R1, (F r eq_refl E)|rewrite R1]; reflexivity.
    + rewrite !R1. reflexivity.
  - rewrite L. destruct pr as [r|]; cbn [option_map].
    + destruct (falsy (smp r)) eqn:E; [rewrite !R1, (F r eq_refl E)|rewrite R1]; reflexivity.
    + rewrite !R1. reflexivity.
  - rewrite R2. reflexivity.
Qed.

(* ---- the invariant tying the four maps to the history *)
Definition Inv (st : sys_state) (hist : list kevent) : Prop :=
  memo_ok n st /\ Forall (fun h => event_wf nf ids h = true) hist /\
  forall t, lookup t (last1 st) = option_map smp1 (prev_sample imp hist t FPercent false)
         /\ lookup t (lastp1 st) = option_map smpp (prev_sample imp hist t FPercent true)
         /\ lookup t (last2 st) = option_map smp1 (prev_sample imp hist t FTimesPercent false)
         /\ lookup t (lastp2 st) = option_map smpp (prev_sample imp hist t FTimesPercent true).

Lemma last_ok e : event_wf nf ids e = true -> kstat_ok nf ids (ke_last e) = true.
Proof.
  unfold event_wf, ke_last. intros H. apply andb_true_iff in H as [H1 H2]. now destruct (is_pos (ke_iv e)).
Qed.
Lemma k1_ok e : event_wf nf ids e = true -> kstat_ok nf ids (ke_k1 e) = true.
Proof. unfold event_wf. intros H. now apply andb_true_iff in H as [H1 H2]. Qed.
Lemma k2_ok e : event_wf nf ids e = true -> kstat_ok nf ids (ke_k2 e) = true.
Proof. unfold event_wf. intros H. now apply andb_true_iff in H as [H1 H2]. Qed.

Lemma prev_ok hist t f p r :
  Forall (fun h => event_wf nf ids h = true) hist -> prev_sample imp hist t f p = Some r -> kstat_ok nf ids r = true.
Proof.
  intros HF H. unfold prev_sample in H. destruct (find (sel t f p) hist) as [h|] eqn:E.
  - injection H as <-. apply find_some in E as [Hin _]. rewrite Forall_forall in HF. apply last_ok. now apply HF.
  - destruct imp as [[mt k0]|]; [|discriminate]. destruct (t =? mt); [|discriminate]. injection H as <-. exact IMP.
Qed.

Lemma prev_cons e hist t f p :
  prev_sample imp (e :: hist) t f p = if sel t f p e then Some (ke_last e) else prev_sample imp hist t f p.
Proof. unfold prev_sample. cbn [find]. now destruct (sel t f p e). Qed.

Lemma spec_prev_ok hist e : Forall (fun h => event_wf nf ids h = true) hist -> event_wf nf ids e = true ->
  kstat_ok nf ids (spec_prev imp hist e) = true.
Proof.
  intros HF He. unfold spec_prev. destruct (prev_sample imp hist (ke_tid e) (ke_fn e) (ke_percpu e)) eqn:E.
  - eapply prev_ok; eassumption.
  - now apply k1_ok.
Qed.

(* percpu "or": an empty stored per-CPU list re-reads, which changes nothing (same CPU set) *)
Lemma nil_same r r1 : kstat_ok nf ids r = true -> kstat_ok nf ids r1 = true -> is_nil (smpp r) = true -> smpp r = smpp r1.
Proof.
  intros H H1 E. apply ok_wf in H as [_ I]. apply ok_wf in H1 as [_ I1].
  unfold smpp, spec_per_cpu_times, cpu_ids in *.
  destruct (ks_cpus r) as [|c cs]; [|discriminate]. cbn in I. subst ids.
  destruct (ks_cpus r1); [reflexivity|discriminate].
Qed.

Lemma ensure_ok st r : memo_ok n st -> kstat_ok nf ids r = true -> ensure_nf (memo st) (k_stat r) = n.
Proof. intros M H. apply ensure_nf_ok; [exact M|now apply nf_ok]. Qed.

Lemma sel_self e : ke_iv e <> INeg -> sel (ke_tid e) (ke_fn e) (ke_percpu e) e = true.
Proof.
  intros H. unfold sel. rewrite Z.eqb_refl, Bool.eqb_reflx.
  destruct (ke_fn e); destruct (ke_iv e); try congruence; reflexivity.
Qed.
Lemma sel_other_tid e t f p : t <> ke_tid e -> sel t f p e = false.
Proof. intros H. unfold sel. assert (E : (ke_tid e =? t) = false) by (apply Z.eqb_neq; congruence). now rewrite E. Qed.
Lemma sel_other_fn e t f p : fn_eqb (ke_fn e) f = false -> sel t f p e = false.
Proof. intros H. unfold sel. rewrite H. now rewrite andb_false_r. Qed.
Lemma sel_other_pc e t f p : Bool.eqb (ke_percpu e) p = false -> sel t f p e = false.
Proof. intros H. unfold sel. rewrite H. now rewrite andb_false_r. Qed.
Lemma sel_neg e t f p : ke_iv e = INeg -> sel t f p e = false.
Proof. intros H. unfold sel. rewrite H. cbn. now rewrite andb_false_r. Qed.

(* the demanded result of a non-negative-interval call of cpu_percent / cpu_times_percent *)
Lemma spec_result_nonneg hist e : ke_fn e <> FTimes -> ke_iv e <> INeg ->
  spec_result clk imp hist e
  = Val (if is_pos (ke_iv e) then spec_between (ke_fn e) (ke_percpu e) (ke_k1 e) (ke_k2 e)
         else spec_between (ke_fn e) (ke_percpu e) (spec_prev imp hist e) (ke_k1 e)).
Proof.
  intros Hf Hi. unfold spec_result. destruct (ke_fn e); try congruence; destruct (ke_iv e); try congruence; reflexivity.
Qed.

(* maps: updating the caller's entry keeps the invariant of that series *)
Lemma series_update {S} (smp : kstat -> S) (m : amap S) hist e f p :
  ke_iv e <> INeg -> ke_fn e = f -> ke_percpu e = p ->
  (forall t, lookup t m = option_map smp (prev_sample imp hist t f p)) ->
  forall t, lookup t (update (ke_tid e) (smp (if is_pos (ke_iv e) then ke_k2 e else ke_k1 e)) m)
            = option_map smp (prev_sample imp (e :: hist) t f p).
Proof.
  intros Hi Hf Hp H t. rewrite prev_cons.
  destruct (Z.eq_dec t (ke_tid e)) as [->|Hne].
  - rewrite lookup_update_same. subst f p. rewrite sel_self by assumption. reflexivity.
  - rewrite lookup_update_other by assumption. rewrite sel_other_tid by assumption. apply H.
Qed.
Lemma series_keep {S} (smp : kstat -> S) (m : amap S) hist e f p :
  (forall t, sel t f p e = false) ->
  (forall t, lookup t m = option_map smp (prev_sample imp hist t f p)) ->
  forall t, lookup t m = option_map smp (prev_sample imp (e :: hist) t f p).
Proof. intros Hs H t. rewrite prev_cons, Hs. apply H. Qed.

Lemma spec_prev_eq hist e f p : ke_fn e = f -> ke_percpu e = p ->
  match prev_sample imp hist (ke_tid e) f p with Some r => r | None => ke_k1 e end = spec_prev imp hist e.
Proof. intros <- <-. reflexivity. Qed.

Lemma pairs_of hist e : ke_fn e = FTimesPercent -> ke_iv e <> INeg -> event_pairs_ok clk imp hist e = true ->
  forallb (row_ok clk) (pair_rows (ke_percpu e) (if is_pos (ke_iv e) then ke_k1 e else spec_prev imp hist e)
                                  (if is_pos (ke_iv e) then ke_k2 e else ke_k1 e)) = true.
Proof.
  intros Hf Hi H. unfold event_pairs_ok, event_rows in H. rewrite Hf in H.
  destruct (ke_iv e); try congruence; exact H.
Qed.

(* one call of cpu_percent / cpu_times_percent seen from the series (f, p) it belongs to *)
Lemma series_step {S R} (read : nat -> bytes -> outcome S) (falsy : S -> bool) (calc : S -> S -> R)
      (smp : kstat -> S) (wrap : R -> sres) (m : amap S) mem hist e f p :
  ke_fn e = f -> ke_percpu e = p -> f <> FTimes ->
  (mem = None \/ mem = Some n) ->
  Forall (fun h => event_wf nf ids h = true) hist -> event_wf nf ids e = true ->
  (forall r, kstat_ok nf ids r = true -> read n (k_stat r) = Val (smp r)) ->
  (forall r r1, kstat_ok nf ids r = true -> kstat_ok nf ids r1 = true -> falsy (smp r) = true -> smp r = smp r1) ->
  (forall t, lookup t m = option_map smp (prev_sample imp hist t f p)) ->
  (forall a b, kstat_ok nf ids a = true -> kstat_ok nf ids b = true ->
               (f = FTimesPercent -> forallb (row_ok clk) (pair_rows p a b) = true) ->
               sres_eq (wrap (calc (smp a) (smp b))) (spec_between f p a b)) ->
  event_pairs_ok clk imp hist e = true ->
  let g := gen_call read falsy calc mem m (ke_tid e) (ke_iv e) (k_stat (ke_k1 e)) (k_stat (ke_k2 e)) in
  out_eq sres_eq (omap wrap (snd g)) (spec_result clk imp hist e)
  /\ (fst (fst g) = None \/ fst (fst g) = Some n)
  /\ (forall t, lookup t (snd (fst g)) = option_map smp (prev_sample imp (e :: hist) t f p)).
Proof.
  intros Hf Hp Hnt M HF We Rd Fa L Pair Pe g. subst g.
  pose proof (k1_ok e We) as K1. pose proof (k2_ok e We) as K2.
  destruct (is_neg (ke_iv e)) eqn:Neg.
  - assert (Hn : ke_iv e = INeg) by (destruct (ke_iv e); try discriminate; reflexivity).
    unfold gen_call. rewrite Hn. cbn [fst snd omap obind].
    split; [|split].
    + unfold spec_result. rewrite Hf, Hn. destruct f; try congruence; reflexivity.
    + exact M.
    + apply series_keep; [|exact L]. intros t. now apply sel_neg.
  - assert (Hi : ke_iv e <> INeg) by (intros C; rewrite C in Neg; discriminate).
    assert (En : ensure_nf mem (k_stat (ke_k1 e)) = n).
    { destruct M as [-> | ->]; cbn; [now apply nf_ok|reflexivity]. }
    rewrite (gen_call_good read falsy calc smp mem m (ke_tid e) (ke_iv e) (ke_k1 e) (ke_k2 e)
                           (prev_sample imp hist (ke_tid e) f p) En (Rd _ K1) (Rd _ K2) (L _)); [| |exact Hi].
    2:{ intros r Hr Hfal. apply Fa; [eapply prev_ok; eassumption|exact K1|exact Hfal]. }
    cbn [fst snd omap obind].
    split; [|split].
    + rewrite spec_result_nonneg by (try rewrite Hf; assumption).
      rewrite (spec_prev_eq hist e f p Hf Hp). rewrite Hf, Hp.
      pose proof (spec_prev_ok hist e HF We) as KP.
      destruct (is_pos (ke_iv e)) eqn:Pos; cbn [out_eq].
      * apply Pair; try assumption. intros Hftp.
        pose proof (pairs_of hist e (eq_trans Hf Hftp) Hi Pe) as Q. rewrite Pos, Hp in Q. exact Q.
      * apply Pair; try assumption. intros Hftp.
        pose proof (pairs_of hist e (eq_trans Hf Hftp) Hi Pe) as Q. rewrite Pos, Hp in Q. exact Q.
    + now right.
    + now apply series_update.
Qed.

Lemma F2_qlist_refl l : Forall2 qlist_eq l l.
Proof. apply Forall2_refl. intros x. apply Forall2_refl. intros q. reflexivity. Qed.

(* one call: the demanded result, and the invariant is kept *)
Lemma step_spec st hist e :
  Inv st hist -> event_wf nf ids e = true -> event_pairs_ok clk imp hist e = true ->
  out_eq sres_eq (snd (step clk st (to_event e))) (spec_result clk imp hist e)
  /\ Inv (fst (step clk st (to_event e))) (e :: hist).
Proof.
  intros (M & HF & HL) We Pe.
  pose proof (k1_ok e We) as K1.
  assert (HF' : Forall (fun h => event_wf nf ids h = true) (e :: hist)) by (constructor; assumption).
  assert (L1 := fun t => proj1 (HL t)).
  assert (Lp1 := fun t => proj1 (proj2 (HL t))).
  assert (L2 := fun t => proj1 (proj2 (proj2 (HL t)))).
  assert (Lp2 := fun t => proj2 (proj2 (proj2 (HL t)))).
  unfold step. cbn [to_event e_tid e_fn e_percpu e_iv e_k1 e_k2].
  destruct (ke_fn e) eqn:Ef; destruct (ke_percpu e) eqn:Ep.
  - (* cpu_times(percpu=True) *)
    rewrite (ensure_ok st _ M K1), (readp _ K1). cbn [fst snd omap obind].
    split.
    + unfold spec_result. rewrite Ef, Ep. cbn [out_eq sres_eq]. apply F2_qlist_refl.
    + split; [now right|]. split; [exact HF'|]. intros t. cbn [last1 lastp1 last2 lastp2].
      repeat split; apply series_keep; auto; intros t'; apply sel_other_fn; rewrite Ef; reflexivity.
  - (* cpu_times() *)
    rewrite (ensure_ok st _ M K1), (read1 _ K1). cbn [fst snd omap obind].
    split.
    + unfold spec_result. rewrite Ef, Ep. cbn [out_eq sres_eq]. apply Forall2_refl. intros q. reflexivity.
    + split; [now right|]. split; [exact HF'|]. intros t. cbn [last1 lastp1 last2 lastp2].
      repeat split; apply series_keep; auto; intros t'; apply sel_other_fn; rewrite Ef; reflexivity.
  - (* cpu_percent(percpu=True) *)
    pose proof (series_step (per_cpu_times clk) is_nil (zipw calc_percent) smpp RNums (lastp1 st) (memo st) hist e
                            FPercent true Ef Ep ltac:(discriminate) M HF We readp nil_same Lp1) as G.
    destruct (gen_call _ _ _ _ _ _ _ _ _) as [[mm m'] r]. cbn [fst snd] in *.
    destruct G as (G1 & G2 & G3); [|exact Pe|].
    { intros a b Ha Hb _. cbn [spec_between sres_eq]. now apply pairp_pct. }
    split; [exact G1|]. split; [exact G2|]. split; [exact HF'|]. intros t. cbn [last1 lastp1 last2 lastp2].
    repeat split; try apply G3; apply series_keep; auto; intros t';
      first [apply sel_other_pc; rewrite Ep; reflexivity | apply sel_other_fn; rewrite Ef; reflexivity].
  - (* cpu_percent() *)
    pose proof (series_step (cpu_times clk) never calc_percent smp1 RNum (last1 st) (memo st) hist e
                            FPercent false Ef Ep ltac:(discriminate) M HF We read1
                            (fun r r1 _ _ (H : never (smp1 r) = true) => False_ind _ (Bool.diff_false_true H)) L1) as G.
    destruct (gen_call _ _ _ _ _ _ _ _ _) as [[mm m'] r]. cbn [fst snd] in *.
    destruct G as (G1 & G2 & G3); [|exact Pe|].
    { intros a b Ha Hb _. cbn [spec_between sres_eq]. now apply pair1_pct. }
    split; [exact G1|]. split; [exact G2|]. split; [exact HF'|]. intros t. cbn [last1 lastp1 last2 lastp2].
    repeat split; try apply G3; apply series_keep; auto; intros t';
      first [apply sel_other_pc; rewrite Ep; reflexivity | apply sel_other_fn; rewrite Ef; reflexivity].
  - (* cpu_times_percent(percpu=True) *)
    pose proof (series_step (per_cpu_times clk) is_nil (zipw calc_times_percent) smpp RRows (lastp2 st) (memo st) hist e
                            FTimesPercent true Ef Ep ltac:(discriminate) M HF We readp nil_same Lp2) as G.
    destruct (gen_call _ _ _ _ _ _ _ _ _) as [[mm m'] r]. cbn [fst snd] in *.
    destruct G as (G1 & G2 & G3); [|exact Pe|].
    { intros a b Ha Hb Hr. cbn [spec_between sres_eq]. apply pairp_tp; auto. }
    split; [exact G1|]. split; [exact G2|]. split; [exact HF'|]. intros t. cbn [last1 lastp1 last2 lastp2].
    repeat split; try apply G3; apply series_keep; auto; intros t';
      first [apply sel_other_pc; rewrite Ep; reflexivity | apply sel_other_fn; rewrite Ef; reflexivity].
  - (* cpu_times_percent() *)
    pose proof (series_step (cpu_times clk) never calc_times_percent smp1 RRow (last2 st) (memo st) hist e
                            FTimesPercent false Ef Ep ltac:(discriminate) M HF We read1
                            (fun r r1 _ _ (H : never (smp1 r) = true) => False_ind _ (Bool.diff_false_true H)) L2) as G.
    destruct (gen_call _ _ _ _ _ _ _ _ _) as [[mm m'] r]. cbn [fst snd] in *.
    destruct G as (G1 & G2 & G3); [|exact Pe|].
    { intros a b Ha Hb Hr. cbn [spec_between sres_eq]. apply pair1_tp; auto. }
    split; [exact G1|]. split; [exact G2|]. split; [exact HF'|]. intros t. cbn [last1 lastp1 last2 lastp2].
    repeat split; try apply G3; apply series_keep; auto; intros t';
      first [apply sel_other_pc; rewrite Ep; reflexivity | apply sel_other_fn; rewrite Ef; reflexivity].
Qed.

Lemma run_spec_gen evs : forall st hist,
  Inv st hist -> script_ok clk nf ids imp hist evs = true ->
  Forall2 (out_eq sres_eq) (run clk st (map to_event evs)) (spec_run clk imp hist evs).
Proof.
  induction evs as [|e evs IH]; intros st hist I H; [constructor|].
  cbn [script_ok] in H. apply andb_true_iff in H as [H H3]. apply andb_true_iff in H as [H1 H2].
  cbn [map run spec_run].
  destruct (step_spec st hist e I H1 H2) as [R I'].
  destruct (step clk st (to_event e)) as [st' o]. cbn [fst snd] in *.
  constructor; [exact R|]. now apply IH.
Qed.

(* the state after import satisfies the invariant with the empty history *)
Lemma inv_start : Inv (sys_start clk (option_map (fun x => (fst x, k_stat (snd x))) imp)) [].
Proof.
  unfold Inv. destruct imp as [[mt k0]|]; cbn [option_map sys_start fst snd].
  - cbn in IMP. unfold sys_import. rewrite (nf_ok k0 IMP), (read1 k0 IMP), (readp k0 IMP).
    split; [now right|]. split; [constructor|]. intros t. unfold prev_sample. cbn [find last1 lastp1 last2 lastp2 lookup].
    destruct (t =? mt); repeat split; reflexivity.
  - split; [now left|]. split; [constructor|]. intros t. repeat split; reflexivity.
Qed.
End Script.

(* THE SCRIPT THEOREM *)
Theorem run_spec clk nf ids imp evs :
  imp_wf nf ids imp = true -> script_ok clk nf ids imp [] evs = true ->
  Forall2 (out_eq sres_eq)
          (run clk (sys_start clk (option_map (fun x => (fst x, k_stat (snd x))) imp)) (map to_event evs))
          (spec_run clk imp [] evs).
Proof.
  intros HI H. apply (run_spec_gen clk nf ids imp HI); [apply inv_start; exact HI|exact H].
Qed.

(* ---- first calls, as documented *)
(* the importing thread's first call in any series is measured against the import-time sample *)
Theorem first_call_importer mt k0 f p : prev_sample (Some (mt, k0)) [] mt f p = Some k0.
Proof. unfold prev_sample. cbn [find]. now rewrite Z.eqb_refl. Qed.
(* any other thread has no sample ... *)
Theorem first_call_other imp t f p :
  match imp with Some (mt, _) => t <> mt | None => True end -> prev_sample imp [] t f p = None.
Proof.
  unfold prev_sample. cbn [find]. destruct imp as [[mt k0]|]; [|reflexivity].
  intros H. apply Z.eqb_neq in H. now rewrite H.
Qed.
(* ... and a non-blocking cpu_percent() call without a previous sample must answer 0.0 *)
Theorem no_sample_zero clk imp hist e :
  ke_fn e = FPercent -> ke_percpu e = false -> ke_iv e = INone \/ ke_iv e = IZero ->
  prev_sample imp hist (ke_tid e) FPercent false = None ->
  spec_result clk imp hist e = Val (RNum 0).
Proof.
  intros Hf Hp Hi Hn. unfold spec_result, spec_prev. rewrite Hf, Hp, Hn.
  destruct Hi as [-> | ->]; cbn [spec_between]; now rewrite spec_percent_self.
Qed.

(* the hypotheses of run_spec hold for a concrete script: import by thread 0 over k0, then
   thread 0 and thread 7 call cpu_times, cpu_percent (blocking and not), cpu_times_percent
   (percpu and not) over kernel states one CPU-second apart *)
Example run_spec_nonvacuous :
  let mk u i := {| ks_total := [u; bs "0"; bs "50"; i; bs "10"; bs "0"; bs "3"; bs "0"; bs "7"; bs "0"];
                   ks_cpus := [(bs "0", [u; bs "0"; bs "50"; i; bs "10"; bs "0"; bs "3"; bs "0"; bs "7"; bs "0"])];
                   ks_tail := [(Tintr, [bs "5"]); (Tctxt, [bs "7"])] |} in
  let k0 := mk (bs "100") (bs "1000") in let k1 := mk (bs "150") (bs "1050") in let k2 := mk (bs "150") (bs "1250") in
  let ev t f p i a b := {| ke_tid := t; ke_fn := f; ke_percpu := p; ke_iv := i; ke_k1 := a; ke_k2 := b |} in
  let imp := Some (0%Z, k0) in
  let evs := [ev 0%Z FTimes true INone k0 k0; ev 0%Z FPercent false INone k1 k1; ev 7%Z FPercent false INone k1 k1;
              ev 7%Z FTimesPercent true IPos k1 k2; ev 0%Z FTimesPercent false IZero k2 k2; ev 7%Z FPercent true INeg k2 k2] in
  imp_wf 10 [bs "0"] imp = true /\ script_ok 100 10 [bs "0"] imp [] evs = true.
Proof. cbv zeta. split; vm_compute; reflexivity. Qed.
