(* Entry points evaluated by the correspondence harness (props/C07.py). *)
From PV Require Export C07.Spec.

Definition jq (q : Q) : jv := let r := Qred q in JL [JZ (Qnum r); JZ (Zpos (Qden r))].
Definition jqs (l : list Q) : jv := JL (map jq l).
Definition jqss (l : list (list Q)) : jv := JL (map jqs l).
Definition jsres (r : sres) : jv :=
  match r with
  | RNum q => JC "Num" [jq q]
  | RNums l => JC "Nums" [jqs l]
  | RRow l => JC "Row" [jqs l]
  | RRows l => JC "Rows" [jqss l]
  end.

(* decimal digits of a non-negative integer, as the kernel prints it (harness
   convenience: cases carry integers, the records hold the printed strings) *)
Fixpoint uint_bytes (u : Decimal.uint) : bytes :=
  match u with
  | Decimal.Nil => []
  | Decimal.D0 r => 48 :: uint_bytes r | Decimal.D1 r => 49 :: uint_bytes r
  | Decimal.D2 r => 50 :: uint_bytes r | Decimal.D3 r => 51 :: uint_bytes r
  | Decimal.D4 r => 52 :: uint_bytes r | Decimal.D5 r => 53 :: uint_bytes r
  | Decimal.D6 r => 54 :: uint_bytes r | Decimal.D7 r => 55 :: uint_bytes r
  | Decimal.D8 r => 56 :: uint_bytes r | Decimal.D9 r => 57 :: uint_bytes r
  end.
Definition dz (z : Z) : bytes := uint_bytes (N.to_uint (Z.to_N z)).
Definition tname_of (z : Z) : tname :=
  if z =? 0 then Tintr else if z =? 1 then Tctxt else if z =? 2 then Tbtime else if z =? 3 then Tprocesses
  else if z =? 4 then Tprocs_running else if z =? 5 then Tprocs_blocked else Tsoftirq.
Definition mk_stat (total : list Z) (cpus : list (Z * list Z)) (tail : list (Z * list Z)) : kstat :=
  {| ks_total := map dz total;
     ks_cpus := map (fun c => (dz (fst c), map dz (snd c))) cpus;
     ks_tail := map (fun t => (tname_of (fst t), map dz (snd t))) tail |}.
Definition mk_ev (t : Z) (f : fn) (p : bool) (i : ival) (a b : kstat) : kevent :=
  {| ke_tid := t; ke_fn := f; ke_percpu := p; ke_iv := i; ke_k1 := a; ke_k2 := b |}.
(* a reading: timer, utime, stime, cutime, cstime, delayacct_blkio_ticks *)
Definition mk_rd (t : Q) (u s cu cs io : Z) : preading :=
  {| r_t := t; r_u := u; r_s := s; r_cu := cu; r_cs := cs; r_io := io |}.
Definition mk_pev (o : Z) (i : ival) (n : Z) (a b : preading) : Z * pevent :=
  (o, {| pe_iv := i; pe_ncpu := n; pe_r1 := a; pe_r2 := b |}).

Definition jstats (x : option Z * option Z * option Z) : jv :=
  let '(c, i, s) := x in JL [jopt JZ c; jopt JZ i; jopt JZ s].

(* the layout psutil fixes from the first read of this content *)
Definition nf_now (content : bytes) : nat := nf_of content.

(* cpu_times() / cpu_times(percpu=True) / cpu_stats() on a kernel-shaped /proc/stat *)
Definition run_times (clk : positive) (nf : nat) (r : kstat) : jv :=
  let c := k_stat r in
  JL [ JB c;
       jv_outcome jqs (cpu_times clk (nf_now c) c);
       jv_outcome jqss (per_cpu_times clk (nf_now c) c);
       jv_outcome jstats (cpu_stats c);
       (if wf_kstat nf r then JL [jqs (spec_cpu_times clk r); jqss (spec_per_cpu_times clk r)] else jnone);
       (if wf_kstat nf r then
          match tail_first Tctxt r, tail_first Tintr r, tail_first Tsoftirq r with
          | Some c', Some i, Some s =>
            (* the kernel prints each of the three lines once, each with a value *)
            if forallb (fun t => negb (is_nil (snd t))) (ks_tail r)
               && forallb (fun n => Nat.eqb (length (filter (fun t => beqb (tname_bytes (fst t)) (tname_bytes n)) (ks_tail r))) 1)
                          [Tctxt; Tintr; Tsoftirq]
            then JL [JZ c'; JZ i; JZ s] else jnone
          | _, _, _ => jnone
          end
        else jnone) ].

(* arbitrary bytes: model only *)
Definition run_times_raw (clk : positive) (content : bytes) : jv :=
  JL [ jv_outcome jqs (cpu_times clk (nf_now content) content);
       jv_outcome jqss (per_cpu_times clk (nf_now content) content);
       jv_outcome jstats (cpu_stats content) ].

(* same CPU set in every kernel state of the script: per-CPU series are meaningful *)
Definition cpu_ids (r : kstat) : list bytes := map fst (ks_cpus r).
Fixpoint list_beqb (a b : list bytes) : bool :=
  match a, b with
  | [], [] => true
  | x :: a', y :: b' => beqb x y && list_beqb a' b'
  | _, _ => false
  end.
Definition script_wf (nf : nat) (evs : list kevent) : bool :=
  match evs with
  | [] => true
  | e0 :: _ =>
    forallb (fun e => wf_kstat nf (ke_k1 e) && wf_kstat nf (ke_k2 e)
                      && list_beqb (cpu_ids (ke_k1 e)) (cpu_ids (ke_k1 e0))
                      && list_beqb (cpu_ids (ke_k2 e)) (cpu_ids (ke_k1 e0))) evs
  end.

(* elapsed ticks (demanded total) of every pair of samples a call compares: input
   classification for the harness (sub-second totals are the known-finding class) *)
Definition pair_totals (percpu : bool) (a b : kstat) : list Z :=
  if percpu then zipw (fun x y => spec_total (dticks x y)) (cpu_rows a) (cpu_rows b)
  else [spec_total (dticks (ticks (ks_total a)) (ticks (ks_total b)))].
Definition event_totals (hist : list kevent) (e : kevent) : list Z :=
  match ke_iv e with
  | INeg => []
  | IPos => pair_totals (ke_percpu e) (ke_k1 e) (ke_k2 e)
  | _ => pair_totals (ke_percpu e) (spec_prev hist e) (ke_k1 e)
  end.
Fixpoint script_totals (hist : list kevent) (evs : list kevent) : list (list Z) :=
  match evs with
  | [] => []
  | e :: r => event_totals hist e :: script_totals (e :: hist) r
  end.

(* kernel consistency (guest time is part of user time): when no time elapsed between two
   samples, no counter moved at all -- the property leaves the guest share open otherwise *)
Definition pair_rows (percpu : bool) (a b : kstat) : list (list Z) :=
  if percpu then zipw dticks (cpu_rows a) (cpu_rows b) else [dticks (ticks (ks_total a)) (ticks (ks_total b))].
Definition rows_consistent (rows : list (list Z)) : bool :=
  forallb (fun d => negb (spec_total d =? 0) || forallb (Z.eqb 0) d) rows.
Definition event_consistent (hist : list kevent) (e : kevent) : bool :=
  match ke_iv e with
  | INeg => true
  | IPos => rows_consistent (pair_rows (ke_percpu e) (ke_k1 e) (ke_k2 e))
  | _ => rows_consistent (pair_rows (ke_percpu e) (spec_prev hist e) (ke_k1 e))
  end.
Fixpoint script_consistent (hist : list kevent) (evs : list kevent) : bool :=
  match evs with
  | [] => true
  | e :: r => event_consistent hist e && script_consistent (e :: hist) r
  end.
Definition script_ok (nf : nat) (evs : list kevent) : bool := script_wf nf evs && script_consistent [] evs.

(* a script of calls by several threads over kernel-shaped snapshots:
   printed contents (k1, and k2 for the blocking form), model results, demanded
   results, elapsed totals *)
Definition run_script (clk : positive) (nf : nat) (evs : list kevent) : jv :=
  JL [ JL (map (fun e => JL [JB (k_stat (ke_k1 e));
                             JB (if is_pos (ke_iv e) then k_stat (ke_k2 e) else [])]) evs);
       JL (map (jv_outcome jsres) (run clk sys_init (map to_event evs)));
       (if script_ok nf evs then JL (map (jv_outcome jsres) (spec_run [] evs)) else jnone);
       JL (map (fun l => JL (map JZ l)) (script_totals [] evs)) ].

(* raw script (arbitrary bytes): model only *)
Definition run_script_raw (clk : positive) (evs : list event) : jv :=
  JL [ JL (map (jv_outcome jsres) (run clk sys_init evs)) ].

(* Process.cpu_percent scripts over several Process objects *)
Definition run_proc (clk : positive) (evs : list (Z * pevent)) : jv :=
  JL [ JL (map (jv_outcome jq) (proc_run clk [] evs));
       JL (map (jv_outcome jq) (spec_proc_run clk [] evs)) ].
