(* Entry points evaluated by the correspondence harness (props/C07.py). *)
From PV Require Export C07.SpecLife C07.SpecBlock.

Definition jq (q : Q) : jv := let r := Qred q in JL [JZ (Qnum r); JZ (Zpos (Qden r))].
Definition jqs (l : list Q) : jv := JL (map jq l).
Definition jqss (l : list (list Q)) : jv := JL (map jqs l).
Definition jsres (r : sres) : jv :=
  match r with
  | RTimes l => JC "Times" [jqs l]
  | RTimesP l => JC "TimesP" [jqss l]
  | RNum q => JC "Num" [jq q]
  | RNums l => JC "Nums" [jqs l]
  | RRow l => JC "Row" [jqs l]
  | RRows l => JC "Rows" [jqss l]
  end.

(* decimal digits of a non-negative integer, as the kernel prints it (harness
   convenience: cases carry integers, the records hold the printed strings) *)
Fixpoint uint_bytes (u : Decimal.uint) : bytes :=
  match u with
  | Decimal.Nil => []
  | Decimal.D0 r => 48 :: uint_bytes r | Decimal.D1 r => 49 :: uint_bytes r
  | Decimal.D2 r => 50 :: uint_bytes r | Decimal.D3 r => 51 :: uint_bytes r
  | Decimal.D4 r => 52 :: uint_bytes r | Decimal.D5 r => 53 :: uint_bytes r
  | Decimal.D6 r => 54 :: uint_bytes r | Decimal.D7 r => 55 :: uint_bytes r
  | Decimal.D8 r => 56 :: uint_bytes r | Decimal.D9 r => 57 :: uint_bytes r
  end.
Definition dz (z : Z) : bytes := uint_bytes (N.to_uint (Z.to_N z)).
Definition tname_of (z : Z) : tname :=
  if z =? 0 then Tintr else if z =? 1 then Tctxt else if z =? 2 then Tbtime else if z =? 3 then Tprocesses
  else if z =? 4 then Tprocs_running else if z =? 5 then Tprocs_blocked else Tsoftirq.
Definition mk_stat (total : list Z) (cpus : list (Z * list Z)) (tail : list (Z * list Z)) : kstat :=
  {| ks_total := map dz total;
     ks_cpus := map (fun c => (dz (fst c), map dz (snd c))) cpus;
     ks_tail := map (fun t => (tname_of (fst t), map dz (snd t))) tail |}.
Definition mk_ev (t : Z) (f : fn) (p : bool) (i : ival) (a b : kstat) : kevent :=
  {| ke_tid := t; ke_fn := f; ke_percpu := p; ke_iv := i; ke_k1 := a; ke_k2 := b |}.
(* a reading: timer, utime, stime, cutime, cstime, delayacct_blkio_ticks *)
Definition mk_rd (t : Q) (u s cu cs io : Z) : preading :=
  {| r_t := t; r_u := u; r_s := s; r_cu := cu; r_cs := cs; r_io := io |}.
Definition mk_pev (o : Z) (i : ival) (n : Z) (a b : preading) : Z * pevent :=
  (o, {| pe_iv := i; pe_ncpu := n; pe_r1 := a; pe_r2 := b |}).

(* the layout psutil fixes from the first read of this content *)
Definition nf_now (content : bytes) : nat := nf_of content.

(* cpu_times() / cpu_times(percpu=True) on a kernel-shaped /proc/stat *)
Definition run_times (clk : positive) (nf : nat) (r : kstat) : jv :=
  let c := k_stat r in
  JL [ JB c;
       jv_outcome jqs (cpu_times clk (nf_now c) c);
       jv_outcome jqss (per_cpu_times clk (nf_now c) c);
       (if wf_kstat nf r then JL [jqs (spec_cpu_times clk r); jqss (spec_per_cpu_times clk r)] else jnone) ].

(* ---- machines larger than any read buffer: the record is GENERATED from a few numbers (CPU i has
   counters base_j + i * step_j), printed by the kernel printer, and only sizes, a checksum of the
   printed bytes and the rows at the sampled indices [idx] are shipped (wave 8) *)
(* position-sensitive checksum without division: (sum of bytes, sum of the running sums) *)
Definition cksum (c : bytes) : Z :=
  let '(a, b) := fold_left (fun ab x => (fst ab + x, snd ab + (fst ab + x))) c (0, 0) in a + 1099511627776 * b.
Definition big_stat (total : list Z) (n : nat) (base step : list Z) : kstat :=
  mk_stat total
          (map (fun i => (Z.of_nat i, zipw (fun b s => b + Z.of_nat i * s) base step)) (seq 0 n))
          [(0, [5; 1]); (1, [7])].
(* [number of CPUs; rows at idx; every row is the generated one; len/all-zero of cpu_percent(percpu=True) and
   cpu_times_percent(percpu=True) measured against a previous sample of the same file] *)
Definition big_answer (rows : list (list Q)) (idx : list nat) (p : list Q) (tp : list (list Q)) : jv :=
  JL [ JZ (Z.of_nat (length rows)); jqss (map (fun i => nth i rows []) idx); jbool true;
       JZ (Z.of_nat (length p)); jbool (forallb qzero p);
       JZ (Z.of_nat (length tp)); jbool (forallb (forallb qzero) tp) ].
Definition run_big (clk : positive) (nf : nat) (total : list Z) (n : nat) (base step : list Z) (idx : list nat) : jv :=
  let r := big_stat total n base step in
  let c := k_stat r in
  JL [ JZ (Z.of_nat (length c)); JZ (cksum c);
       jv_outcome (fun rows => big_answer rows idx (zipw calc_percent rows rows) (zipw calc_times_percent rows rows))
                  (per_cpu_times clk (nf_now c) c);
       (if wf_kstat nf r then
          let cr := cpu_rows r in
          big_answer (spec_per_cpu_times clk r) idx (zipw spec_percent cr cr) (zipw spec_shares cr cr)
        else jnone) ].

(* arbitrary bytes: model only *)
Definition run_times_raw (clk : positive) (content : bytes) : jv :=
  JL [ jv_outcome jqs (cpu_times clk (nf_now content) content);
       jv_outcome jqss (per_cpu_times clk (nf_now content) content) ].

(* well-formed script: every kernel state (the import-time one included) has nf counters per
   line and the CPU set of the first one *)
Definition first_ids (imp : option (Z * kstat)) (evs : list kevent) : list bytes :=
  match imp, evs with
  | Some (_, k0), _ => cpu_ids k0
  | None, e :: _ => cpu_ids (ke_k1 e)
  | None, [] => []
  end.
Definition script_wf (nf : nat) (imp : option (Z * kstat)) (evs : list kevent) : bool :=
  let ids := first_ids imp evs in imp_wf nf ids imp && forallb (event_wf nf ids) evs.

(* kernel consistency (guest time is part of user time): when no time elapsed between two
   samples, no counter moved at all -- the property leaves the guest share open otherwise *)
Definition rows_consistent (rows : list (list Z)) : bool :=
  forallb (fun d => negb (spec_total d =? 0) || forallb (Z.eqb 0) d) rows.
Fixpoint script_consistent (imp : option (Z * kstat)) (hist : list kevent) (evs : list kevent) : bool :=
  match evs with
  | [] => true
  | e :: r => (match ke_fn e with FTimesPercent => rows_consistent (event_rows imp hist e) | _ => true end)
              && script_consistent imp (e :: hist) r
  end.
(* elapsed ticks of every pair a call compares (sub-second totals of cpu_times_percent calls
   are the known-finding class) *)
Fixpoint script_totals (imp : option (Z * kstat)) (hist : list kevent) (evs : list kevent) : list (list Z) :=
  match evs with
  | [] => []
  | e :: r => map spec_total (event_rows imp hist e) :: script_totals imp (e :: hist) r
  end.

(* a script of calls by several threads over kernel-shaped snapshots: printed contents (import
   time, then k1 and -- blocking form -- k2 per event), model results, demanded results (when the
   script is well-formed and consistent), elapsed totals, and whether the hypotheses of the
   script theorem hold (then model = spec is a theorem) *)
Definition run_script (clk : positive) (nf : nat) (imp : option (Z * kstat)) (evs : list kevent) : jv :=
  let imp_b := option_map (fun x => (fst x, k_stat (snd x))) imp in
  JL [ JL (map (fun e => JL [JB (k_stat (ke_k1 e));
                             JB (if is_pos (ke_iv e) then k_stat (ke_k2 e) else [])]) evs);
       JL (map (jv_outcome jsres) (run clk (sys_start clk imp_b) (map to_event evs)));
       (if script_wf nf imp evs && script_consistent imp [] evs
        then JL (map (jv_outcome jsres) (spec_run clk imp [] evs)) else jnone);
       JL (map (fun l => JL (map JZ l)) (script_totals imp [] evs));
       jopt (fun x => JB (k_stat (snd x))) imp;
       jbool (imp_wf nf (first_ids imp evs) imp && script_ok clk nf (first_ids imp evs) imp [] evs) ].

(* a lifetime history: model = the code's run (thread-local storage: calls keyed by the calling
   thread, lifetime events ignored), spec = thread by thread; for information also what the
   ident-keyed code before d2712e2 would have answered and whether the history lies in the class
   where it went wrong *)
Definition mk_limp (i th : Z) (k : kstat) : limp := Some (i, th, k).
Definition run_life (clk : positive) (nf : nat) (m : limp) (al0 : alive_t) (levs : list lev) : jv :=
  let evs_th := map relab (calls levs) in
  let to_b := option_map (fun x : Z * kstat => (fst x, k_stat (snd x))) in
  JL [ JL (map (fun e => JL [JB (k_stat (ke_k1 e));
                             JB (if is_pos (ke_iv e) then k_stat (ke_k2 e) else [])]) evs_th);
       JL (map (jv_outcome jsres) (run_l clk (sys_start clk (to_b (imp_th m))) (map lev_event levs)));
       (if script_wf nf (imp_th m) evs_th && script_consistent (imp_th m) [] evs_th
        then JL (map (jv_outcome jsres) (spec_run clk (imp_th m) [] evs_th)) else jnone);
       JL (map (fun l => JL (map JZ l)) (script_totals (imp_th m) [] evs_th));
       jopt (fun x => JB (k_stat (snd x))) (imp_th m);
       jbool (al_wf al0 && life_wf al0 (map fst al0) levs);
       jbool (fresh_ok m [] levs);
       jbool (imp_wf nf (first_ids (imp_th m) evs_th) (imp_th m)
              && script_ok clk nf (first_ids (imp_th m) evs_th) (imp_th m) [] evs_th);
       JL (map (jv_outcome jsres) (run_l clk (sys_start clk (to_b (imp_id m))) (map lev_event_ident levs))) ].

(* raw script (arbitrary bytes, optional import-time content): model only *)
Definition run_script_raw (clk : positive) (imp : option (Z * bytes)) (evs : list event) : jv :=
  JL [ JL (map (jv_outcome jsres) (run clk (sys_start clk imp) evs)) ].

(* Process.cpu_percent scripts over several Process objects *)
Definition run_proc (clk : positive) (evs : list (Z * pevent)) : jv :=
  JL [ JL (map (jv_outcome jq) (proc_run clk [] evs));
       JL (map (jv_outcome jq) (spec_proc_run clk [] evs)) ].

(* Process-level histories with oneshot()/as_dict()/process_iter(attrs) blocks over several objects *)
Definition jptimes (t : ptimes) : jv :=
  JL [jq (pt_user t); jq (pt_system t); jq (pt_children_user t); jq (pt_children_system t); jq (pt_iowait t)].
Definition jpbres (r : pbres) : jv :=
  match r with BRTimes t => JC "PTimes" [jptimes t] | BRPct q => JC "Pct" [jq q] end.
Definition mk_sr (u s cu cs io : Z) : statrec := {| sr_u := u; sr_s := s; sr_cu := cu; sr_cs := cs; sr_io := io |}.
Definition mk_bp (o : Z) (i : ival) (n : Z) (a b : preading) : Z * pbev :=
  (o, BPercent {| pe_iv := i; pe_ncpu := n; pe_r1 := a; pe_r2 := b |}).
Fixpoint spec_pbm_run (clk : positive) (m : amap ghost) (l : list (Z * pbev)) : list (outcome pbres) :=
  match l with
  | [] => []
  | (o, ev) :: r =>
    let g := match lookup o m with Some s => s | None => g_init end in
    let '(g', x) := spec_pb_step clk g ev in
    match x with Some y => y :: spec_pbm_run clk (update o g' m) r | None => spec_pbm_run clk (update o g' m) r end
  end.
Definition of_obj (o : Z) (l : list (Z * pbev)) : list pbev := map snd (filter (fun x => fst x =? o) l).
Definition run_pb (clk : positive) (objs : list Z) (l : list (Z * pbev)) : jv :=
  JL [ JL (map (jv_outcome jpbres) (pbm_run clk [] l));
       JL (map (jv_outcome jpbres) (spec_pbm_run clk [] l));
       jbool (forallb (fun o => const_blocks 0 None (of_obj o l)) objs);
       (* the same calls with every block marker removed *)
       JL (map (jv_outcome jpbres) (pbm_run clk [] (filter (fun x => match snd x with BEnter | BExit => false | _ => true end) l))) ].

(* scripts with calls nested in the sleep of blocking calls; flat = the calls in the order they return *)
Definition mk_bev (e : kevent) (nested : list kevent) (r : bool) : kbevent := {| kb_ev := e; kb_nested := nested; kb_raise := r |}.
Fixpoint bhist_totals (imp : option (Z * kstat)) (hist : list kevent) (l : list kbevent) : list (list Z) :=
  match l with
  | [] => []
  | b :: r =>
    if kb_blocking b then
      script_totals imp hist (kb_nested b)
      ++ (if kb_raise b then [[]] else script_totals imp (rev (kb_nested b) ++ hist) [kb_ev b])
      ++ bhist_totals imp ((if kb_raise b then [] else [kb_ev b]) ++ rev (kb_nested b) ++ hist) r
    else script_totals imp hist [kb_ev b] ++ bhist_totals imp (kb_ev b :: hist) r
  end.
Fixpoint bconsistent (imp : option (Z * kstat)) (hist : list kevent) (l : list kbevent) : bool :=
  match l with
  | [] => true
  | b :: r =>
    if kb_blocking b then
      script_consistent imp hist (if kb_raise b then kb_nested b else kb_nested b ++ [kb_ev b])
      && bconsistent imp ((if kb_raise b then [] else [kb_ev b]) ++ rev (kb_nested b) ++ hist) r
    else script_consistent imp hist [kb_ev b] && bconsistent imp (kb_ev b :: hist) r
  end.
Definition run_bscript (clk : positive) (nf : nat) (imp : option (Z * kstat)) (l : list kbevent) : jv :=
  let imp_b := option_map (fun x => (fst x, k_stat (snd x))) imp in
  let flat := concat (map flatb l) in
  let ids := first_ids imp flat in
  JL [ JL (map (fun e => JL [JB (k_stat (ke_k1 e));
                             JB (if is_pos (ke_iv e) then k_stat (ke_k2 e) else [])]) flat);
       JL (map (jv_outcome jsres) (brun clk (sys_start clk imp_b) (map to_bevent l)));
       (if script_wf nf imp flat && bconsistent imp [] l
        then JL (map (jv_outcome jsres) (spec_brun clk imp [] l)) else jnone);
       JL (map (fun x => JL (map JZ x)) (bhist_totals imp [] l));
       jopt (fun x => JB (k_stat (snd x))) imp;
       jbool (imp_wf nf ids imp && bscript_ok clk nf ids imp [] l) ].

(* the same history on a user subclass of Process (ovr = it overrides the public cpu_times()); the
   figures compared for cpu_times() are the library's own (ov = identity).  l_model: what the code
   gets to execute (an as_dict() whose block entry fails executes nothing else); l_spec: the full
   history, as demanded *)
Definition run_sub (clk : positive) (ovr : bool) (l_model l_spec : list pbev) : jv :=
  JL [ JL (map (jv_outcome jpbres) (pb_run_sub ovr (fun t => t) clk pb_init l_model));
       JL (map (jv_outcome jpbres) (spec_pb_run clk g_init l_spec)) ].
