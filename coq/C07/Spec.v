(* C07 -- what the kernel shows in /proc/stat and what the property demands of
   cpu_times(), cpu_percent(), cpu_times_percent(), Process.cpu_percent().
   Written from proc(5) / fs/proc/stat.c and the property text, not from psutil:
   counters are tick counts (integers), the demanded percentages are stated on
   ticks; seconds appear only as ticks / CLOCK_TICKS. *)
From PV Require Export C07.Model.

(* ------------------------------------------------------------ /proc/stat as the kernel prints it *)
Inductive tname := Tintr | Tctxt | Tbtime | Tprocesses | Tprocs_running | Tprocs_blocked | Tsoftirq.
Definition tname_bytes (t : tname) : bytes :=
  match t with
  | Tintr => bs "intr" | Tctxt => bs "ctxt" | Tbtime => bs "btime" | Tprocesses => bs "processes"
  | Tprocs_running => bs "procs_running" | Tprocs_blocked => bs "procs_blocked" | Tsoftirq => bs "softirq"
  end.

Record kstat := {
  ks_total : list bytes;                 (* aggregate line: decimal counters, in kernel order *)
  ks_cpus : list (bytes * list bytes);   (* online CPUs in kernel order: (index digits, counters) *)
  ks_tail : list (tname * list bytes) }. (* the remaining lines *)

(* "<label> <v1> <v2> ... <vn>\n" *)
Definition k_line (label : bytes) (fields : list bytes) : bytes :=
  label ++ 32 :: join [32] fields ++ [10].
Definition k_cpu_line (c : bytes * list bytes) : bytes := k_line (cpu_label ++ fst c) (snd c).
Definition k_tail_line (t : tname * list bytes) : bytes := k_line (tname_bytes (fst t)) (snd t).
(* the aggregate line is "cpu  v1 ..." (two spaces) *)
Definition k_stat (r : kstat) : bytes :=
  k_line (bs "cpu ") (ks_total r) ++ concat (map k_cpu_line (ks_cpus r)) ++ concat (map k_tail_line (ks_tail r)).

(* what the kernel guarantees: nf >= 7 counters on every cpu line, all decimal *)
Definition wf_fields (nf : nat) (fs : list bytes) : bool := Nat.eqb (length fs) nf && forallb is_dec fs.
Definition wf_kstat (nf : nat) (r : kstat) : bool :=
  Nat.leb 7 nf && wf_fields nf (ks_total r)
  && forallb (fun c => is_dec (fst c) && wf_fields nf (snd c)) (ks_cpus r)
  && forallb (fun t => forallb is_dec (snd t)) (ks_tail r).

(* ------------------------------------------------------------ cpu_times *)
(* the (at most ten) named counters user nice system idle iowait irq softirq steal guest guest_nice *)
Definition ticks (fs : list bytes) : list Z := map dec_val (firstn 10 fs).
Definition spec_cpu_times (clk : positive) (r : kstat) : list Q := map (secs clk) (ticks (ks_total r)).
Definition spec_per_cpu_times (clk : positive) (r : kstat) : list (list Q) :=
  map (fun c => map (secs clk) (ticks (snd c))) (ks_cpus r).

(* ------------------------------------------------------------ percentages, on ticks *)
(* a counter that went backwards contributes zero *)
Definition clip (a b : Z) : Z := Z.max 0 (b - a).
Definition dticks (s1 s2 : list Z) : list Z := zipw clip s1 s2.
Definition tk (i : nat) (d : list Z) : Z := nth i d 0.
(* busy = user + nice + system + irq + softirq + steal  (guest and guest_nice are already
   inside user and nice; idle and iowait are not busy) *)
Definition spec_busy (d : list Z) : Z :=
  tk iUSER d + tk iNICE d + tk iSYSTEM d + tk iIRQ d + tk iSOFTIRQ d + tk iSTEAL d.
Definition spec_total (d : list Z) : Z := spec_busy d + tk iIDLE d + tk iIOWAIT d.

Definition spec_percent (s1 s2 : list Z) : Q :=
  let d := dticks s1 s2 in
  if spec_total d =? 0 then 0%Q else (inject_Z (100 * spec_busy d) / inject_Z (spec_total d))%Q.

(* share of one field: 100 * delta / total, never above 100 *)
Definition spec_share (total x : Z) : Q :=
  if total =? 0 then 0%Q else Qmin (inject_Z (100 * x) / inject_Z total) 100.
Definition spec_shares (s1 s2 : list Z) : list Q :=
  let d := dticks s1 s2 in map (spec_share (spec_total d)) d.

(* ------------------------------------------------------------ per-thread measurement (ghost history) *)
Record kevent := { ke_tid : Z; ke_fn : fn; ke_percpu : bool; ke_iv : ival; ke_k1 : kstat; ke_k2 : kstat }.
Definition to_event (k : kevent) : event :=
  {| e_tid := ke_tid k; e_fn := ke_fn k; e_percpu := ke_percpu k; e_iv := ke_iv k;
     e_k1 := k_stat (ke_k1 k); e_k2 := k_stat (ke_k2 k) |}.

Definition is_neg (i : ival) : bool := match i with INeg => true | _ => false end.
Definition is_pos (i : ival) : bool := match i with IPos => true | _ => false end.
Definition fn_eqb (a b : fn) : bool :=
  match a, b with FPercent, FPercent | FTimesPercent, FTimesPercent => true | _, _ => false end.
(* same thread, same function, same percpu flag: the four independent series *)
Definition same_slot (a b : kevent) : bool :=
  (ke_tid a =? ke_tid b) && fn_eqb (ke_fn a) (ke_fn b) && Bool.eqb (ke_percpu a) (ke_percpu b).
(* the kernel state a (successful) call sampled last *)
Definition ke_last (k : kevent) : kstat := if is_pos (ke_iv k) then ke_k2 k else ke_k1 k.

(* [hist] = earlier calls, most recent first.  The previous sample of the calling
   thread in this series; a thread without one is measured against "now". *)
Definition spec_prev (hist : list kevent) (e : kevent) : kstat :=
  match find (fun h => same_slot h e && negb (is_neg (ke_iv h))) hist with
  | Some h => ke_last h
  | None => ke_k1 e
  end.

Definition cpu_rows (r : kstat) : list (list Z) := map (fun c => ticks (snd c)) (ks_cpus r).

Definition spec_between (f : fn) (percpu : bool) (a b : kstat) : sres :=
  match f, percpu with
  | FPercent, false => RNum (spec_percent (ticks (ks_total a)) (ticks (ks_total b)))
  | FPercent, true => RNums (zipw spec_percent (cpu_rows a) (cpu_rows b))
  | FTimesPercent, false => RRow (spec_shares (ticks (ks_total a)) (ticks (ks_total b)))
  | FTimesPercent, true => RRows (zipw spec_shares (cpu_rows a) (cpu_rows b))
  end.

Definition spec_result (hist : list kevent) (e : kevent) : outcome sres :=
  match ke_iv e with
  | INeg => Exc ValueError
  | IPos => Val (spec_between (ke_fn e) (ke_percpu e) (ke_k1 e) (ke_k2 e))
  | INone | IZero => Val (spec_between (ke_fn e) (ke_percpu e) (spec_prev hist e) (ke_k1 e))
  end.

Fixpoint spec_run (hist : list kevent) (evs : list kevent) : list (outcome sres) :=
  match evs with
  | [] => []
  | e :: r => spec_result hist e :: spec_run (e :: hist) r
  end.

(* equality of results up to equality of rationals *)
Definition qlist_eq (a b : list Q) : Prop := Forall2 Qeq a b.
Definition sres_eq (a b : sres) : Prop :=
  match a, b with
  | RNum x, RNum y => x == y
  | RNums x, RNums y | RRow x, RRow y => qlist_eq x y
  | RRows x, RRows y => Forall2 qlist_eq x y
  | _, _ => False
  end.
Definition out_eq {A} (R : A -> A -> Prop) (a b : outcome A) : Prop :=
  match a, b with
  | Val x, Val y => R x y
  | Exc e, Exc e' => e = e'
  | OutOfModel, OutOfModel => True
  | _, _ => False
  end.

(* ------------------------------------------------------------ Process.cpu_percent *)
(* 100 * (CPU seconds the process used) / (wall seconds elapsed) between two readings;
   0 when no time elapsed.  "CPU seconds the process used" = utime + stime of the process
   itself: the time of waited-for children (cutime, cstime) and the block-I/O delay
   (delayacct_blkio_ticks, reported as iowait) are in the tuple but DO NOT count. *)
Definition spec_proc_pct (clk : positive) (a b : preading) : Q :=
  if qzero (r_t b - r_t a) then 0%Q
  else (100 * secs clk ((r_u b - r_u a) + (r_s b - r_s a)) / (r_t b - r_t a))%Q.

Definition pe_first (e : pevent) : preading := pe_r1 e.
Definition pe_last (e : pevent) : preading := if is_pos (pe_iv e) then pe_r2 e else pe_r1 e.

Definition spec_proc_prev (hist : list (Z * pevent)) (o : Z) : option preading :=
  match find (fun h => (fst h =? o) && negb (is_neg (pe_iv (snd h)))) hist with
  | Some h => Some (pe_last (snd h))
  | None => None
  end.

Definition spec_proc_result (clk : positive) (hist : list (Z * pevent)) (oe : Z * pevent) : outcome Q :=
  let '(o, e) := oe in
  match pe_iv e with
  | INeg => Exc ValueError
  | IPos => Val (spec_proc_pct clk (pe_r1 e) (pe_r2 e))
  | INone | IZero =>
    match spec_proc_prev hist o with
    | Some p => Val (spec_proc_pct clk p (pe_r1 e))
    | None => Val 0%Q              (* first call of this object *)
    end
  end.

Fixpoint spec_proc_run (clk : positive) (hist : list (Z * pevent)) (evs : list (Z * pevent)) : list (outcome Q) :=
  match evs with
  | [] => []
  | e :: r => spec_proc_result clk hist e :: spec_proc_run clk (e :: hist) r
  end.

(* ------------------------------------------------------------ cpu_stats *)
Definition tail_first (n : tname) (r : kstat) : option Z :=
  match find (fun t => match fst t, n with
                       | Tctxt, Tctxt | Tintr, Tintr | Tsoftirq, Tsoftirq => true | _, _ => false end) (ks_tail r) with
  | Some t => match snd t with v :: _ => Some (dec_val v) | [] => None end
  | None => None
  end.
