(* C07 -- what the kernel shows in /proc/stat and what the property demands of
   cpu_times(), cpu_percent(), cpu_times_percent(), Process.cpu_percent().
   Written from proc(5) / fs/proc/stat.c and the property text, not from psutil:
   counters are tick counts (integers), the demanded percentages are stated on
   ticks; seconds appear only as ticks / CLOCK_TICKS. *)
From PV Require Export C07.Model.

(* ------------------------------------------------------------ /proc/stat as the kernel prints it *)
Inductive tname := Tintr | Tctxt | Tbtime | Tprocesses | Tprocs_running | Tprocs_blocked | Tsoftirq.
Definition tname_bytes (t : tname) : bytes :=
  match t with
  | Tintr => bs "intr" | Tctxt => bs "ctxt" | Tbtime => bs "btime" | Tprocesses => bs "processes"
  | Tprocs_running => bs "procs_running" | Tprocs_blocked => bs "procs_blocked" | Tsoftirq => bs "softirq"
  end.

Record kstat := {
  ks_total : list bytes;                 (* aggregate line: decimal counters, in kernel order *)
  ks_cpus : list (bytes * list bytes);   (* online CPUs in kernel order: (index digits, counters) *)
  ks_tail : list (tname * list bytes) }. (* the remaining lines *)

(* "<label> <v1> <v2> ... <vn>\n" *)
Definition k_line (label : bytes) (fields : list bytes) : bytes :=
  label ++ 32 :: join [32] fields ++ [10].
Definition k_cpu_line (c : bytes * list bytes) : bytes := k_line (cpu_label ++ fst c) (snd c).
Definition k_tail_line (t : tname * list bytes) : bytes := k_line (tname_bytes (fst t)) (snd t).
(* the aggregate line is "cpu  v1 ..." (two spaces) *)
Definition k_stat (r : kstat) : bytes :=
  k_line (bs "cpu ") (ks_total r) ++ concat (map k_cpu_line (ks_cpus r)) ++ concat (map k_tail_line (ks_tail r)).

(* what the kernel guarantees: nf >= 7 counters on every cpu line, all decimal *)
Definition wf_fields (nf : nat) (fs : list bytes) : bool := Nat.eqb (length fs) nf && forallb is_dec fs.
Definition wf_kstat (nf : nat) (r : kstat) : bool :=
  Nat.leb 7 nf && wf_fields nf (ks_total r)
  && forallb (fun c => is_dec (fst c) && wf_fields nf (snd c)) (ks_cpus r)
  && forallb (fun t => forallb is_dec (snd t)) (ks_tail r).

(* ------------------------------------------------------------ cpu_times *)
(* the (at most ten) named counters user nice system idle iowait irq softirq steal guest guest_nice *)
Definition ticks (fs : list bytes) : list Z := map dec_val (firstn 10 fs).
Definition spec_cpu_times (clk : positive) (r : kstat) : list Q := map (secs clk) (ticks (ks_total r)).
Definition spec_per_cpu_times (clk : positive) (r : kstat) : list (list Q) :=
  map (fun c => map (secs clk) (ticks (snd c))) (ks_cpus r).

(* ------------------------------------------------------------ percentages, on ticks *)
(* a counter that went backwards contributes zero *)
Definition clip (a b : Z) : Z := Z.max 0 (b - a).
Definition dticks (s1 s2 : list Z) : list Z := zipw clip s1 s2.
Definition tk (i : nat) (d : list Z) : Z := nth i d 0.
(* busy = user + nice + system + irq + softirq + steal  (guest and guest_nice are already
   inside user and nice; idle and iowait are not busy) *)
Definition spec_busy (d : list Z) : Z :=
  tk iUSER d + tk iNICE d + tk iSYSTEM d + tk iIRQ d + tk iSOFTIRQ d + tk iSTEAL d.
Definition spec_total (d : list Z) : Z := spec_busy d + tk iIDLE d + tk iIOWAIT d.

Definition spec_percent (s1 s2 : list Z) : Q :=
  let d := dticks s1 s2 in
  if spec_total d =? 0 then 0%Q else (inject_Z (100 * spec_busy d) / inject_Z (spec_total d))%Q.

(* share of one field: 100 * delta / total, never above 100 *)
Definition spec_share (total x : Z) : Q :=
  if total =? 0 then 0%Q else Qmin (inject_Z (100 * x) / inject_Z total) 100.
Definition spec_shares (s1 s2 : list Z) : list Q :=
  let d := dticks s1 s2 in map (spec_share (spec_total d)) d.

(* ------------------------------------------------------------ per-thread measurement (ghost history) *)
Record kevent := { ke_tid : Z; ke_fn : fn; ke_percpu : bool; ke_iv : ival; ke_k1 : kstat; ke_k2 : kstat }.
Definition to_event (k : kevent) : event :=
  {| e_tid := ke_tid k; e_fn := ke_fn k; e_percpu := ke_percpu k; e_iv := ke_iv k;
     e_k1 := k_stat (ke_k1 k); e_k2 := k_stat (ke_k2 k) |}.

Definition is_neg (i : ival) : bool := match i with INeg => true | _ => false end.
Definition is_pos (i : ival) : bool := match i with IPos => true | _ => false end.
Definition fn_eqb (a b : fn) : bool :=
  match a, b with FTimes, FTimes | FPercent, FPercent | FTimesPercent, FTimesPercent => true | _, _ => false end.

(* the kernel state a (successful) call sampled last *)
Definition ke_last (k : kevent) : kstat := if is_pos (ke_iv k) then ke_k2 k else ke_k1 k.

(* did call h take a sample for thread t in the series (f, percpu)?  The four series
   cpu_percent / cpu_times_percent x percpu / not are independent of each other. *)
Definition sel (t : Z) (f : fn) (percpu : bool) (h : kevent) : bool :=
  (ke_tid h =? t) && fn_eqb (ke_fn h) f && Bool.eqb (ke_percpu h) percpu && negb (is_neg (ke_iv h)).

(* [imp] = Some (mt, k0): psutil was imported by thread mt while the kernel showed k0 -- that
   is the documented first sample of thread mt in all four series; other threads have none.
   [hist] = earlier calls, most recent first. *)
Definition prev_sample (imp : option (Z * kstat)) (hist : list kevent) (t : Z) (f : fn) (percpu : bool) : option kstat :=
  match find (sel t f percpu) hist with
  | Some h => Some (ke_last h)
  | None => match imp with
            | Some (mt, k0) => if t =? mt then Some k0 else None
            | None => None
            end
  end.
(* a thread without a previous sample is measured against "now" (hence 0.0) *)
Definition spec_prev (imp : option (Z * kstat)) (hist : list kevent) (e : kevent) : kstat :=
  match prev_sample imp hist (ke_tid e) (ke_fn e) (ke_percpu e) with Some r => r | None => ke_k1 e end.

Definition cpu_rows (r : kstat) : list (list Z) := map (fun c => ticks (snd c)) (ks_cpus r).

Definition spec_between (f : fn) (percpu : bool) (a b : kstat) : sres :=
  match f, percpu with
  | FTimes, false => RTimes []                     (* not used: cpu_times compares nothing *)
  | FTimes, true => RTimesP []
  | FPercent, false => RNum (spec_percent (ticks (ks_total a)) (ticks (ks_total b)))
  | FPercent, true => RNums (zipw spec_percent (cpu_rows a) (cpu_rows b))
  | FTimesPercent, false => RRow (spec_shares (ticks (ks_total a)) (ticks (ks_total b)))
  | FTimesPercent, true => RRows (zipw spec_shares (cpu_rows a) (cpu_rows b))
  end.

Definition spec_result (clk : positive) (imp : option (Z * kstat)) (hist : list kevent) (e : kevent) : outcome sres :=
  match ke_fn e with
  | FTimes => Val (if ke_percpu e then RTimesP (spec_per_cpu_times clk (ke_k1 e)) else RTimes (spec_cpu_times clk (ke_k1 e)))
  | f =>
    match ke_iv e with
    | INeg => Exc ValueError
    | IPos => Val (spec_between f (ke_percpu e) (ke_k1 e) (ke_k2 e))
    | INone | IZero => Val (spec_between f (ke_percpu e) (spec_prev imp hist e) (ke_k1 e))
    end
  end.

Fixpoint spec_run (clk : positive) (imp : option (Z * kstat)) (hist : list kevent) (evs : list kevent) : list (outcome sres) :=
  match evs with
  | [] => []
  | e :: r => spec_result clk imp hist e :: spec_run clk imp (e :: hist) r
  end.

(* ---- re-entrancy: a blocking call with the calls the same thread makes during its sleep *)
Record kbevent := { kb_ev : kevent; kb_nested : list kevent; kb_raise : bool }.
Definition to_bevent (b : kbevent) : bevent :=
  {| be_ev := to_event (kb_ev b); be_nested := map to_event (kb_nested b); be_raise := kb_raise b |}.
Definition kb_blocking (b : kbevent) : bool :=
  match ke_fn (kb_ev b), ke_iv (kb_ev b) with
  | FPercent, IPos | FTimesPercent, IPos => true
  | _, _ => false
  end.
(* what is demanded: the nested calls are ordinary calls of the thread, measured against what the
   thread has stored; the blocking call reports between ITS OWN two samples (spec_result of a
   blocking call does not look at the history) and its last sample is stored after theirs; a sleep
   left by an exception: the blocking call fails and stores nothing *)
Fixpoint spec_brun (clk : positive) (imp : option (Z * kstat)) (hist : list kevent) (l : list kbevent) : list (outcome sres) :=
  match l with
  | [] => []
  | b :: r =>
    if kb_blocking b then
      if kb_raise b then
        spec_run clk imp hist (kb_nested b) ++ Exc RuntimeError :: spec_brun clk imp (rev (kb_nested b) ++ hist) r
      else
        spec_run clk imp hist (kb_nested b ++ [kb_ev b]) ++ spec_brun clk imp (kb_ev b :: rev (kb_nested b) ++ hist) r
    else spec_result clk imp hist (kb_ev b) :: spec_brun clk imp (kb_ev b :: hist) r
  end.
(* the calls in the order their samples are stored *)
Definition flatb (b : kbevent) : list kevent :=
  if kb_blocking b then kb_nested b ++ [kb_ev b] else [kb_ev b].

(* ---- hypotheses of the script theorem, all decidable *)
Definition cpu_ids (r : kstat) : list bytes := map fst (ks_cpus r).
Fixpoint list_beqb (a b : list bytes) : bool :=
  match a, b with
  | [], [] => true
  | x :: a', y :: b' => beqb x y && list_beqb a' b'
  | _, _ => false
  end.
(* the kernel keeps its field count nf and the set of online CPUs ids *)
Definition kstat_ok (nf : nat) (ids : list bytes) (r : kstat) : bool := wf_kstat nf r && list_beqb (cpu_ids r) ids.
Definition event_wf (nf : nat) (ids : list bytes) (e : kevent) : bool := kstat_ok nf ids (ke_k1 e) && kstat_ok nf ids (ke_k2 e).
Definition imp_wf (nf : nat) (ids : list bytes) (imp : option (Z * kstat)) : bool :=
  match imp with Some (_, k0) => kstat_ok nf ids k0 | None => true end.

(* the pairs of tick rows a call compares *)
Definition pair_rows (percpu : bool) (a b : kstat) : list (list Z) :=
  if percpu then zipw dticks (cpu_rows a) (cpu_rows b) else [dticks (ticks (ks_total a)) (ticks (ks_total b))].
Definition event_rows (imp : option (Z * kstat)) (hist : list kevent) (e : kevent) : list (list Z) :=
  match ke_iv e with
  | INeg => []
  | IPos => pair_rows (ke_percpu e) (ke_k1 e) (ke_k2 e)
  | _ => pair_rows (ke_percpu e) (spec_prev imp hist e) (ke_k1 e)
  end.
(* cpu_times_percent only: between the two samples at least one CPU-second elapsed, or nothing
   moved at all.  Excluded: 0 < elapsed < 1 s (KNOWN FINDING cpu_times_percent-subsecond) and the
   kernel-inconsistent "no time elapsed but the guest counters moved". *)
Definition row_ok (clk : positive) (d : list Z) : bool := (Zpos clk <=? spec_total d) || forallb (Z.eqb 0) d.
Definition event_pairs_ok (clk : positive) (imp : option (Z * kstat)) (hist : list kevent) (e : kevent) : bool :=
  match ke_fn e with
  | FTimesPercent => forallb (row_ok clk) (event_rows imp hist e)
  | _ => true
  end.
Fixpoint script_ok (clk : positive) (nf : nat) (ids : list bytes) (imp : option (Z * kstat))
         (hist : list kevent) (evs : list kevent) : bool :=
  match evs with
  | [] => true
  | e :: r => event_wf nf ids e && event_pairs_ok clk imp hist e && script_ok clk nf ids imp (e :: hist) r
  end.

(* equality of results up to equality of rationals *)
Definition qlist_eq (a b : list Q) : Prop := Forall2 Qeq a b.
Definition sres_eq (a b : sres) : Prop :=
  match a, b with
  | RNum x, RNum y => x == y
  | RTimes x, RTimes y | RNums x, RNums y | RRow x, RRow y => qlist_eq x y
  | RTimesP x, RTimesP y | RRows x, RRows y => Forall2 qlist_eq x y
  | _, _ => False
  end.
Definition out_eq {A} (R : A -> A -> Prop) (a b : outcome A) : Prop :=
  match a, b with
  | Val x, Val y => R x y
  | Exc e, Exc e' => e = e'
  | OutOfModel, OutOfModel => True
  | _, _ => False
  end.

(* ------------------------------------------------------------ Process.cpu_percent *)
(* 100 * (CPU seconds the process used) / (wall seconds elapsed) between two readings;
   0 when no time elapsed.  "CPU seconds the process used" = utime + stime of the process
   itself: the time of waited-for children (cutime, cstime) and the block-I/O delay
   (delayacct_blkio_ticks, reported as iowait) are in the tuple but DO NOT count. *)
Definition spec_proc_pct (clk : positive) (a b : preading) : Q :=
  if qzero (r_t b - r_t a) then 0%Q
  else (100 * secs clk ((r_u b - r_u a) + (r_s b - r_s a)) / (r_t b - r_t a))%Q.

Definition pe_first (e : pevent) : preading := pe_r1 e.
Definition pe_last (e : pevent) : preading := if is_pos (pe_iv e) then pe_r2 e else pe_r1 e.

Definition spec_proc_prev (hist : list (Z * pevent)) (o : Z) : option preading :=
  match find (fun h => (fst h =? o) && negb (is_neg (pe_iv (snd h)))) hist with
  | Some h => Some (pe_last (snd h))
  | None => None
  end.

Definition spec_proc_result (clk : positive) (hist : list (Z * pevent)) (oe : Z * pevent) : outcome Q :=
  let '(o, e) := oe in
  match pe_iv e with
  | INeg => Exc ValueError
  | IPos => Val (spec_proc_pct clk (pe_r1 e) (pe_r2 e))
  | INone | IZero =>
    match spec_proc_prev hist o with
    | Some p => Val (spec_proc_pct clk p (pe_r1 e))
    | None => Val 0%Q              (* first call of this object *)
    end
  end.

Fixpoint spec_proc_run (clk : positive) (hist : list (Z * pevent)) (evs : list (Z * pevent)) : list (outcome Q) :=
  match evs with
  | [] => []
  | e :: r => spec_proc_result clk hist e :: spec_proc_run clk (e :: hist) r
  end.

(* hypotheses of the script theorem with nested calls, following the order in which samples are stored *)
Fixpoint bscript_ok (clk : positive) (nf : nat) (ids : list bytes) (imp : option (Z * kstat))
         (hist : list kevent) (l : list kbevent) : bool :=
  match l with
  | [] => true
  | b :: r =>
    if kb_blocking b then
      if kb_raise b then
        script_ok clk nf ids imp hist (kb_nested b) && event_wf nf ids (kb_ev b)
        && bscript_ok clk nf ids imp (rev (kb_nested b) ++ hist) r
      else script_ok clk nf ids imp hist (kb_nested b ++ [kb_ev b])
           && bscript_ok clk nf ids imp (kb_ev b :: rev (kb_nested b) ++ hist) r
    else script_ok clk nf ids imp hist [kb_ev b] && bscript_ok clk nf ids imp (kb_ev b :: hist) r
  end.
