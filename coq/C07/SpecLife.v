(* C07 -- thread lifetimes.  The property speaks about THREADS ("each calling thread is
   measured against its own previous sample"); the code sees thread IDENTS, which the OS hands
   to a new thread as soon as the previous owner is gone.  Histories here are made of calls and
   of lifetime events; threads are named by a logical id that is never reused. *)
From PV Require Export C07.Spec.

Inductive lev :=
| LStart (th ident : Z)        (* a new thread th starts and the OS gives it [ident] *)
| LExit (th : Z)               (* thread th exits; its threading.Thread object may live on *)
| LCollect (th : Z)            (* the last reference to th's Thread object is dropped / collected *)
| LCall (th : Z) (e : kevent). (* thread th makes the call e; [ke_tid e] is the ident the code sees *)

Fixpoint calls (l : list lev) : list (Z * kevent) :=
  match l with
  | [] => []
  | LCall th e :: r => (th, e) :: calls r
  | _ :: r => calls r
  end.
(* the same call, named by the thread that made it *)
Definition relab (x : Z * kevent) : kevent :=
  {| ke_tid := fst x; ke_fn := ke_fn (snd x); ke_percpu := ke_percpu (snd x); ke_iv := ke_iv (snd x);
     ke_k1 := ke_k1 (snd x); ke_k2 := ke_k2 (snd x) |}.

(* what the code executes (as of /repo d2712e2, thread-local storage): lifetime events are not
   events for it, and a call is keyed by the calling thread *)
Definition lev_event (x : lev) : option event :=
  match x with LCall th e => Some (to_event (relab (th, e))) | _ => None end.
(* LEGACY reading (the code before d2712e2): dicts keyed by the ident the OS gave the thread *)
Definition lev_event_ident (x : lev) : option event :=
  match x with LCall _ e => Some (to_event e) | _ => None end.

(* ---- what the OS guarantees: threads alive at the same time have different idents, a thread
   keeps its ident, a thread starts once, only live threads call *)
Definition alive_t := list (Z * Z).     (* (thread, ident) *)
Definition mem_z (x : Z) (l : list Z) : bool := existsb (Z.eqb x) l.
Definition has_ident (i : Z) (al : alive_t) : bool := existsb (fun a => snd a =? i) al.
Definition has_thread (th : Z) (al : alive_t) : bool := existsb (fun a => fst a =? th) al.
Definition is_alive (th i : Z) (al : alive_t) : bool := existsb (fun a => (fst a =? th) && (snd a =? i)) al.
Definition remove_th (th : Z) (al : alive_t) : alive_t := filter (fun a => negb (fst a =? th)) al.

Fixpoint al_wf (al : alive_t) : bool :=
  match al with
  | [] => true
  | a :: r => negb (has_thread (fst a) r) && negb (has_ident (snd a) r) && al_wf r
  end.

Fixpoint life_wf (al : alive_t) (started : list Z) (l : list lev) : bool :=
  match l with
  | [] => true
  | LStart th i :: r => negb (mem_z th started) && negb (has_ident i al) && life_wf ((th, i) :: al) (th :: started) r
  | LExit th :: r => life_wf (remove_th th al) started r
  | LCollect _ :: r => life_wf al started r
  | LCall th e :: r => is_alive th (ke_tid e) al && life_wf al started r
  end.

(* the import: executed by thread [th] whose ident was [i], over kernel state k0 *)
Definition limp := option (Z * Z * kstat).
Definition imp_id (m : limp) : option (Z * kstat) := match m with Some (i, _, k) => Some (i, k) | None => None end.
Definition imp_th (m : limp) : option (Z * kstat) := match m with Some (_, th, k) => Some (th, k) | None => None end.

(* the previous sample-taking call of the series (f, p): by ident (what the code can see), by thread *)
Definition find_id (i : Z) (f : fn) (p : bool) (H : list (Z * kevent)) := find (fun x => sel i f p (snd x)) H.
Definition find_th (th : Z) (f : fn) (p : bool) (H : list (Z * kevent)) := find (fun x => sel th f p (relab x)) H.

(* LEGACY ONLY -- the class in which the ident-keyed code went wrong (finding
   thread-ident-reuse-inherits-sample, fixed by d2712e2): a non-blocking cpu_percent /
   cpu_times_percent call by a thread that has no sample of its own in the series, while the
   code finds one under the same ident -- left there by a dead thread (or by the import). *)
Definition is_none {A} (o : option A) : bool := match o with None => true | Some _ => false end.
Definition fresh_call_ok (m : limp) (H : list (Z * kevent)) (th : Z) (e : kevent) : bool :=
  if fn_eqb (ke_fn e) FTimes || is_neg (ke_iv e) || is_pos (ke_iv e) then true
  else match find_th th (ke_fn e) (ke_percpu e) H with
       | Some _ => true
       | None => is_none (find_id (ke_tid e) (ke_fn e) (ke_percpu e) H)
                 && match m with Some (im, tm, _) => Bool.eqb (ke_tid e =? im) (th =? tm) | None => true end
       end.
(* H = earlier calls, most recent first *)
Fixpoint fresh_ok (m : limp) (H : list (Z * kevent)) (l : list lev) : bool :=
  match l with
  | [] => true
  | LCall th e :: r => fresh_call_ok m H th e && fresh_ok m ((th, e) :: H) r
  | _ :: r => fresh_ok m H r
  end.

(* the state of the world after a history *)
Fixpoint life_run (al : alive_t) (started : list Z) (H : list (Z * kevent)) (l : list lev)
  : alive_t * list Z * list (Z * kevent) :=
  match l with
  | [] => (al, started, H)
  | LStart th i :: r => life_run ((th, i) :: al) (th :: started) H r
  | LExit th :: r => life_run (remove_th th al) started H r
  | LCollect _ :: r => life_run al started H r
  | LCall th e :: r => life_run al started ((th, e) :: H) r
  end.
