(* C07 -- user subclasses of psutil.Process: cpu_percent() does not depend on what a subclass's
   public cpu_times() returns; a subclass that does not override cpu_times() behaves like
   Process; the defect of block entry with an overriding subclass. *)
From PV Require Import C07.SpecBlock C07.ProofsBlock.

(* what the override returns never reaches the state *)
Lemma step_sub_state ovr ov1 ov2 clk st ev :
  fst (pb_step_sub ovr ov1 clk st ev) = fst (pb_step_sub ovr ov2 clk st ev).
Proof.
  destruct ev as [| |f|e]; cbn [pb_step_sub]; try reflexivity.
  destruct (pb_step clk st (BTimes f)) as [st' o]. reflexivity.
Qed.

(* cpu_percent()'s answers are the same whatever a subclass's cpu_times() returns *)
Theorem percent_ignores_public_cpu_times ovr ov1 ov2 clk l : forall st,
  pcts (pb_run_sub ovr ov1 clk st l) = pcts (pb_run_sub ovr ov2 clk st l).
Proof.
  induction l as [|ev l IH]; intros st; [reflexivity|].
  cbn [pb_run_sub]. pose proof (step_sub_state ovr ov1 ov2 clk st ev) as S.
  destruct ev as [| |f|e]; cbn [pb_step_sub] in *.
  - destruct (ovr && Nat.eqb (pb_depth st) 0); [cbn [pcts]; first [apply IH | f_equal; apply IH]|].
    destruct (pb_step clk st BEnter) as [st' o]. destruct o as [[[t|q]|x|]|]; cbn [pcts]; first [apply IH | f_equal; apply IH].
  - destruct (pb_step clk st BExit) as [st' o]. destruct o as [[[t|q]|x|]|]; cbn [pcts]; first [apply IH | f_equal; apply IH].
  - destruct (pb_step clk st (BTimes f)) as [st' o]. cbn [fst] in S.
    destruct o as [[[t|q]|x|]|]; cbn [pcts]; first [apply IH | f_equal; apply IH].
  - destruct (pb_step clk st (BPercent e)) as [st' o]. destruct o as [[[t|q]|x|]|]; cbn [pcts]; first [apply IH | f_equal; apply IH].
Qed.

(* a subclass that does not override cpu_times() (whatever else it overrides: name(),
   create_time(), is_running(), __init__ with extra arguments) is Process *)
Theorem sub_without_override_is_process clk l : forall st,
  pb_run_sub false (fun t => t) clk st l = pb_run clk st l.
Proof.
  induction l as [|ev l IH]; intros st; [reflexivity|].
  cbn [pb_run_sub pb_run]. destruct ev as [| |f|e]; cbn [pb_step_sub andb].
  - destruct (pb_step clk st BEnter) as [st' o]. destruct o; now rewrite IH.
  - destruct (pb_step clk st BExit) as [st' o]. destruct o; now rewrite IH.
  - destruct (pb_step clk st (BTimes f)) as [st' o]. destruct o as [[[t|q]|x|]|]; now rewrite IH.
  - destruct (pb_step clk st (BPercent e)) as [st' o]. destruct o; now rewrite IH.
Qed.

(* outside blocks an overriding subclass gets the answers of Process too *)
Fixpoint no_blocks (l : list pbev) : bool :=
  match l with
  | [] => true
  | BEnter :: _ | BExit :: _ => false
  | _ :: r => no_blocks r
  end.
Theorem overriding_sub_outside_blocks ov clk l : forall st,
  no_blocks l = true -> pcts (pb_run_sub true ov clk st l) = pcts (pb_run clk st l).
Proof.
  induction l as [|ev l IH]; intros st H; [reflexivity|].
  cbn [pb_run_sub pb_run]. destruct ev as [| |f|e]; cbn [no_blocks] in H; try discriminate; cbn [pb_step_sub].
  - destruct (pb_step clk st (BTimes f)) as [st' o]. destruct o as [[[t|q]|x|]|]; cbn [pcts]; first [now apply IH | f_equal; now apply IH].
  - destruct (pb_step clk st (BPercent e)) as [st' o]. destruct o as [[[t|q]|x|]|]; cbn [pcts]; first [now apply IH | f_equal; now apply IH].
Qed.

(* OBSERVATION ABOUT SUBCLASSES, NOT PART OF PROPERTY C07: with a subclass overriding the memoised
   public cpu_times(), entering a block fails (memoize_when_activated design: oneshot() activates its
   caches through the public names; see the oneshot row of Gen/C07_Tables.v).  Nothing is demanded of
   overriding subclasses inside blocks; notes/fixes/C07-subclass-oneshot.diff is a proposal only. *)
Lemma observation_override_breaks_block_entry :
  exists clk l ov, pb_run_sub true ov clk pb_init l = [Exc AttributeError] /\ spec_pb_run clk g_init l = [].
Proof. exists 100%positive, [BEnter], (fun t => t). split; reflexivity. Qed.
