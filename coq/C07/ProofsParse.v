(* C07 -- /proc/stat round trip: cpu_times / per_cpu_times of the model applied to
   what the kernel prints return every named counter divided by CLOCK_TICKS. *)
From PV Require Import C07.Spec.

Lemma is_dec_tok_ok fs : forallb is_dec fs = true -> forallb tok_ok fs = true.
Proof.
  induction fs as [|f fs IH]; intros H; [reflexivity|].
  cbn [forallb] in *. apply andb_true_iff in H as [Hf Hfs].
  apply andb_true_iff; split; [|auto].
  apply tok_ok_spec. now apply is_dec_tok.
Qed.

Lemma contains10_dec f : is_dec f = true -> contains 10 f = false.
Proof.
  intros H. apply is_dec_tok in H as [_ H]. now apply no_ws_contains.
Qed.

Lemma contains10_join fs : forallb is_dec fs = true -> contains 10 (join [32] fs) = false.
Proof.
  induction fs as [|f fs IH]; intros H; [reflexivity|].
  cbn [forallb] in H. apply andb_true_iff in H as [Hf Hfs].
  destruct fs as [|g gs]; [now apply contains10_dec|].
  change (join [32] (f :: g :: gs)) with (f ++ [32] ++ join [32] (g :: gs)).
  rewrite !contains_app, contains10_dec, IH by assumption. reflexivity.
Qed.

Lemma k_line_lines label fs rest :
  contains 10 label = false -> forallb is_dec fs = true ->
  lines_keep (k_line label fs ++ rest) = k_line label fs :: lines_keep rest.
Proof.
  intros Hl Hf. unfold k_line.
  replace ((label ++ 32 :: join [32] fs ++ [10]) ++ rest)
    with ((label ++ 32 :: join [32] fs) ++ 10 :: rest)
    by (rewrite <- !app_assoc; cbn [app]; rewrite <- app_assoc; reflexivity).
  rewrite lines_keep_line.
  - rewrite <- app_assoc. reflexivity.
  - rewrite contains_app, Hl, contains_cons, contains10_join by assumption. reflexivity.
Qed.

Lemma lines_keep_klines {A} (lab : A -> bytes) (fl : A -> list bytes) xs rest :
  (forall x, In x xs -> contains 10 (lab x) = false /\ forallb is_dec (fl x) = true) ->
  lines_keep (concat (map (fun x => k_line (lab x) (fl x)) xs) ++ rest)
  = map (fun x => k_line (lab x) (fl x)) xs ++ lines_keep rest.
Proof.
  induction xs as [|x xs IH]; intros H; [reflexivity|].
  cbn [map concat]. rewrite <- app_assoc.
  destruct (H x (or_introl eq_refl)) as [H1 H2].
  rewrite k_line_lines by assumption.
  rewrite IH by (intros y Hy; apply H; now right). reflexivity.
Qed.

Lemma split_ws_k_line label fs :
  label <> [] -> no_ws label = true -> forallb is_dec fs = true ->
  split_ws (k_line label fs) = label :: fs.
Proof.
  intros Hne Hnw Hf. unfold k_line.
  rewrite split_ws_token_sep by (auto; reflexivity).
  now rewrite split_ws_app_nl by (now apply is_dec_tok_ok).
Qed.

Lemma split_ws_total_line fs :
  forallb is_dec fs = true -> split_ws (k_line (bs "cpu ") fs) = cpu_label :: fs.
Proof.
  intros Hf. unfold k_line.
  change (bs "cpu " ++ 32 :: join [32] fs ++ [10]) with (cpu_label ++ 32 :: (32 :: join [32] fs ++ [10])).
  rewrite split_ws_token_sep by (try reflexivity; discriminate).
  rewrite split_ws_leading by reflexivity.
  now rewrite split_ws_app_nl by (now apply is_dec_tok_ok).
Qed.

Lemma mapM_dec clk l :
  forallb is_dec l = true ->
  mapM (fun x => do v <- py_float_int x; Val (secs clk v)) l = Val (map (fun ds => secs clk (dec_val ds)) l).
Proof.
  induction l as [|x l IH]; intros H; [reflexivity|].
  cbn [forallb] in H. apply andb_true_iff in H as [Hx Hl].
  cbn [mapM map]. unfold py_float_int at 1. rewrite (parse_int_dec _ Hx).
  cbn [obind]. rewrite IH by assumption. reflexivity.
Qed.

Lemma forallb_firstn {A} (p : A -> bool) k l : forallb p l = true -> forallb p (firstn k l) = true.
Proof.
  revert k; induction l as [|x l IH]; intros [|k] H; try reflexivity.
  cbn [forallb firstn] in *. apply andb_true_iff in H as [H1 H2]. now rewrite H1, IH.
Qed.

Lemma firstn_min {A} (l : list A) k : firstn (Nat.min (length l) k) l = firstn k l.
Proof.
  destruct (Nat.le_gt_cases k (length l)) as [H|H].
  - now rewrite Nat.min_r.
  - rewrite Nat.min_l by lia. rewrite firstn_all. symmetry. apply firstn_all2. lia.
Qed.

(* a line with n >= k decimal counters after a one-token label *)
Lemma line_fields_ok clk k toks fs :
  tl toks = fs -> forallb is_dec fs = true -> (k <= length fs)%nat ->
  (do fs' <- mapM (fun x => do v <- py_float_int x; Val (secs clk v)) (firstn k (tl toks));
   if Nat.eqb (length fs') k then Val fs' else Exc TypeError)
  = Val (map (fun ds => secs clk (dec_val ds)) (firstn k fs)).
Proof.
  intros -> Hf Hk. rewrite mapM_dec by (now apply forallb_firstn).
  cbn [obind]. rewrite map_length, firstn_length_le by assumption.
  now rewrite Nat.eqb_refl.
Qed.

Lemma nf_count n : (7 <= n)%nat ->
  (7 + (if Nat.leb 8 n then 1 else 0) + (if Nat.leb 9 n then 1 else 0) + (if Nat.leb 10 n then 1 else 0))%nat
  = Nat.min n 10.
Proof.
  intros H.
  destruct (Nat.leb 8 n) eqn:E8; destruct (Nat.leb 9 n) eqn:E9; destruct (Nat.leb 10 n) eqn:E10;
    repeat match goal with
           | H : Nat.leb _ _ = true |- _ => apply Nat.leb_le in H
           | H : Nat.leb _ _ = false |- _ => apply Nat.leb_gt in H
           end; lia.
Qed.

Section Kstat.
Variable clk : positive.
Variable nf : nat.
Variable r : kstat.
Hypothesis WF : wf_kstat nf r = true.

Lemma wf_parts :
  (7 <= nf)%nat /\ length (ks_total r) = nf /\ forallb is_dec (ks_total r) = true
  /\ (forall c, In c (ks_cpus r) -> is_dec (fst c) = true /\ length (snd c) = nf /\ forallb is_dec (snd c) = true)
  /\ (forall t, In t (ks_tail r) -> forallb is_dec (snd t) = true).
Proof.
  pose proof WF as W. unfold wf_kstat, wf_fields in W.
  apply andb_true_iff in W as [W Wtail].
  apply andb_true_iff in W as [W Wcpus].
  apply andb_true_iff in W as [W7 Wtot].
  apply andb_true_iff in Wtot as [Wlen Wdec].
  apply Nat.leb_le in W7. apply Nat.eqb_eq in Wlen.
  rewrite forallb_forall in Wcpus. rewrite forallb_forall in Wtail.
  repeat split; auto.
  - specialize (Wcpus c H). apply andb_true_iff in Wcpus as [Wi _]. exact Wi.
  - specialize (Wcpus c H). apply andb_true_iff in Wcpus as [_ Wf].
    apply andb_true_iff in Wf as [Wl _]. now apply Nat.eqb_eq.
  - specialize (Wcpus c H). apply andb_true_iff in Wcpus as [_ Wf].
    apply andb_true_iff in Wf as [_ Wd]. exact Wd.
Qed.

Lemma first_line_kstat : first_line (k_stat r) = k_line (bs "cpu ") (ks_total r).
Proof.
  destruct wf_parts as (_ & _ & Ht & _).
  unfold first_line, k_stat. rewrite k_line_lines by (auto; reflexivity). reflexivity.
Qed.

Theorem nf_of_kstat : nf_of (k_stat r) = Nat.min nf 10.
Proof.
  destruct wf_parts as (H7 & Hl & Ht & _).
  unfold nf_of. rewrite first_line_kstat, split_ws_total_line by assumption.
  cbn [tl]. rewrite Hl. now apply nf_count.
Qed.

Theorem cpu_times_roundtrip :
  cpu_times clk (nf_of (k_stat r)) (k_stat r) = Val (spec_cpu_times clk r).
Proof.
  destruct wf_parts as (H7 & Hl & Ht & _).
  rewrite nf_of_kstat. unfold cpu_times, line_fields. rewrite first_line_kstat.
  rewrite (line_fields_ok clk _ _ (ks_total r)); try assumption.
  - unfold spec_cpu_times, ticks. rewrite map_map. rewrite <- Hl, firstn_min. reflexivity.
  - now rewrite split_ws_total_line.
  - lia.
Qed.

Lemma cpu_line_fields c :
  In c (ks_cpus r) ->
  line_fields clk (Nat.min nf 10) (k_cpu_line c) = Val (map (secs clk) (ticks (snd c))).
Proof.
  intros Hc. destruct wf_parts as (H7 & _ & _ & Hcs & _).
  destruct (Hcs c Hc) as (Hi & Hl & Hf).
  unfold line_fields, k_cpu_line.
  rewrite (line_fields_ok clk _ _ (snd c)); try assumption.
  - unfold ticks. rewrite map_map. rewrite <- Hl, firstn_min. reflexivity.
  - rewrite split_ws_k_line; [reflexivity| |  |assumption].
    + unfold cpu_label. discriminate.
    + rewrite no_ws_app. apply is_dec_tok in Hi as [_ Hi]. now rewrite Hi.
  - lia.
Qed.

Lemma tail_not_cpu t : prefixb cpu_label (k_tail_line t) = false.
Proof. destruct t as [n vs]. destruct n; reflexivity. Qed.

Lemma cpu_is_cpu c : prefixb cpu_label (k_cpu_line c) = true.
Proof.
  unfold k_cpu_line, k_line. rewrite <- app_assoc. apply prefixb_app.
Qed.

Lemma filter_all {A} (p : A -> bool) l : (forall x, In x l -> p x = true) -> filter p l = l.
Proof.
  induction l as [|x l IH]; intros H; [reflexivity|].
  cbn [filter]. rewrite (H x (or_introl eq_refl)), IH; [reflexivity|]. intros y Hy. apply H. now right.
Qed.
Lemma filter_none {A} (p : A -> bool) l : (forall x, In x l -> p x = false) -> filter p l = [].
Proof.
  induction l as [|x l IH]; intros H; [reflexivity|].
  cbn [filter]. rewrite (H x (or_introl eq_refl)), IH; [reflexivity|]. intros y Hy. apply H. now right.
Qed.

Lemma contains10_tname n : contains 10 (tname_bytes n) = false.
Proof. destruct n; reflexivity. Qed.

Lemma lines_kstat :
  lines_keep (k_stat r) = k_line (bs "cpu ") (ks_total r) :: map k_cpu_line (ks_cpus r) ++ map k_tail_line (ks_tail r).
Proof.
  destruct wf_parts as (H7 & Hl & Ht & Hcs & Hts).
  unfold k_stat. rewrite k_line_lines by (auto; reflexivity). f_equal.
  unfold k_cpu_line at 1.
  rewrite (lines_keep_klines (fun c => cpu_label ++ fst c) (fun c => snd c)).
  2:{ intros c Hc. destruct (Hcs c Hc) as (Hi & _ & Hf). split; [|assumption].
      cbn beta. rewrite contains_app. apply orb_false_iff. split; [reflexivity|exact (contains10_dec _ Hi)]. }
  f_equal.
  rewrite <- (app_nil_r (concat (map k_tail_line (ks_tail r)))).
  unfold k_tail_line at 1.
  rewrite (lines_keep_klines (fun t => tname_bytes (fst t)) (fun t => snd t)).
  2:{ intros t Hin. cbn beta. split; [apply contains10_tname|now apply Hts]. }
  cbn [lines_keep]. now rewrite app_nil_r.
Qed.

Lemma mapM_map_val {A B} (f : A -> outcome B) (g : A -> B) l :
  (forall x, In x l -> f x = Val (g x)) -> mapM f l = Val (map g l).
Proof.
  induction l as [|x l IH]; intros H; [reflexivity|].
  cbn [mapM map]. rewrite (H x (or_introl eq_refl)). cbn [obind].
  rewrite IH by (intros y Hy; apply H; now right). reflexivity.
Qed.

Theorem per_cpu_times_roundtrip :
  per_cpu_times clk (nf_of (k_stat r)) (k_stat r) = Val (spec_per_cpu_times clk r).
Proof.
  rewrite nf_of_kstat. unfold per_cpu_times. rewrite lines_kstat. cbn [tl].
  rewrite filter_app.
  rewrite (filter_all _ (map k_cpu_line (ks_cpus r)))
    by (intros x Hx; apply in_map_iff in Hx as (c & <- & _); apply cpu_is_cpu).
  rewrite (filter_none _ (map k_tail_line (ks_tail r)))
    by (intros x Hx; apply in_map_iff in Hx as (t & <- & _); apply tail_not_cpu).
  rewrite app_nil_r.
  unfold spec_per_cpu_times.
  assert (H : forall l, (forall c, In c l -> In c (ks_cpus r)) ->
              mapM (line_fields clk (Nat.min nf 10)) (map k_cpu_line l)
              = Val (map (fun c => map (secs clk) (ticks (snd c))) l)).
  { induction l as [|c l IH]; intros Hl; [reflexivity|].
    cbn [map mapM]. rewrite cpu_line_fields by (apply Hl; now left). cbn [obind].
    rewrite IH by (intros c' Hc'; apply Hl; now right). reflexivity. }
  apply H. auto.
Qed.
End Kstat.
