(* C07 -- oneshot() blocks: readers never modify the cached stat record; values inside blocks
   are exact and the stored sample is the true one; blocks are transparent. *)
From PV Require Import C07.SpecBlock C07.ProofsArith C07.ProofsState.
From Coq Require Import Lqa Setoid.

(* ---------------------------------------------------------------- the cached record and its readers *)
Lemma plat_stat_cached st f c : pb_stat st = Some c -> pb_depth st <> 0%nat -> plat_stat st f = (st, c).
Proof. intros H D. unfold plat_stat. destruct (pb_depth st); [congruence|]. now rewrite H. Qed.

(* THE INVARIANT: a reader -- cpu_times() through the front end, cpu_percent() through the platform
   method, blocking or not, failing or not -- leaves a cached stat record exactly as it is *)
Lemma plat_stat_fills st f : pb_depth st <> 0%nat -> pb_stat (fst (plat_stat st f)) = Some (snd (plat_stat st f)).
Proof.
  intros D. unfold plat_stat. destruct (pb_depth st); [congruence|].
  destruct (pb_stat st) eqn:H; cbn [fst snd pb_stat]; auto.
Qed.
Lemma plat_stat_keeps st f c : pb_stat st = Some c -> pb_stat (fst (plat_stat st f)) = Some c.
Proof. intros H. unfold plat_stat. destruct (pb_depth st); cbn [fst]; [exact H|]. rewrite H. exact H. Qed.
Lemma plat_cpu_times_keeps clk st f c : pb_stat st = Some c -> pb_stat (fst (plat_cpu_times clk st f)) = Some c.
Proof.
  intros H. unfold plat_cpu_times. pose proof (plat_stat_keeps st f c H) as K.
  destruct (plat_stat st f). exact K.
Qed.

Theorem stat_cache_never_modified clk st ev c :
  pb_stat st = Some c -> (match ev with BTimes _ | BPercent _ => True | _ => False end) ->
  pb_stat (fst (pb_step clk st ev)) = Some c.
Proof.
  intros H R. destruct ev as [| |f|e]; try contradiction; cbn [pb_step].
  - unfold fe_cpu_times. destruct (pb_depth st) eqn:D.
    + pose proof (plat_cpu_times_keeps clk st f c H) as K. destruct (plat_cpu_times clk st f). exact K.
    + destruct (pb_fe st).
      * exact H.
      * pose proof (plat_cpu_times_keeps clk st f c H) as K. destruct (plat_cpu_times clk st f) as [s1 v]. exact K.
  - unfold pb_percent. destruct (pe_iv e); cbn [fst]; try exact H.
    + pose proof (plat_cpu_times_keeps clk st (rec_of (pe_r1 e)) c H) as K.
      destruct (plat_cpu_times clk st (rec_of (pe_r1 e))) as [s1 pt2]. cbn [fst] in K.
      destruct (p_sys (pb_core s1)); [destruct (p_proc (pb_core s1))|]; cbn [fst]; try exact K;
        try (destruct (proc_finish _ _ _ _ _); exact K).
    + pose proof (plat_cpu_times_keeps clk st (rec_of (pe_r1 e)) c H) as K.
      destruct (plat_cpu_times clk st (rec_of (pe_r1 e))) as [s1 pt2]. cbn [fst] in K.
      destruct (p_sys (pb_core s1)); [destruct (p_proc (pb_core s1))|]; cbn [fst]; try exact K;
        try (destruct (proc_finish _ _ _ _ _); exact K).
    + pose proof (plat_cpu_times_keeps clk st (rec_of (pe_r1 e)) c H) as K.
      destruct (plat_cpu_times clk st (rec_of (pe_r1 e))) as [s1 pt1]. cbn [fst] in K.
      pose proof (plat_cpu_times_keeps clk s1 (rec_of (pe_r2 e)) c K) as K2.
      destruct (plat_cpu_times clk s1 (rec_of (pe_r2 e))) as [s2 pt2]. cbn [fst] in K2.
      try exact K2; try (destruct (proc_finish _ _ _ _ _); exact K2).
Qed.

(* a reader computes from the record without storing into it: the result is the pure function
   times_of of the record (ticks / CLOCK_TICKS, once) *)
Theorem plat_cpu_times_pure clk st f :
  snd (plat_cpu_times clk st f) = times_of clk (snd (plat_stat st f)).
Proof. unfold plat_cpu_times. now destruct (plat_stat st f). Qed.

Lemma nat_cases (n : nat) : n = 0%nat \/ exists d, n = S d.
Proof. destruct n; eauto. Qed.
Ltac case_depth st E := let d := fresh "d" in destruct (nat_cases (pb_depth st)) as [E|[d E]]; rewrite ?E.

(* ---------------------------------------------------------------- model vs ghost specification *)
Definition Rel (clk : positive) (st : pbstate) (g : ghost) : Prop :=
  pb_depth st = g_depth g
  /\ match g_prev g with Some p => holds clk (pb_core st) p | None => pb_core st = p_init end
  /\ pb_stat st = g_first g
  /\ (pb_depth st = 0%nat -> pb_stat st = None /\ pb_fe st = None)
  /\ (forall v, pb_fe st = Some v -> exists c, pb_stat st = Some c /\ v = times_of clk c).

Lemma read_rel clk st g f :
  Rel clk st g ->
  snd (plat_stat st f) = snd (g_read g f) /\ Rel clk (fst (plat_stat st f)) (fst (g_read g f))
  /\ pb_core (fst (plat_stat st f)) = pb_core st /\ g_prev (fst (g_read g f)) = g_prev g
  /\ pb_depth (fst (plat_stat st f)) = pb_depth st.
Proof.
  intros R. pose proof R as (D & P & S & Z & F). unfold plat_stat, g_read. rewrite <- D, <- S.
  case_depth st E; cbn [fst snd].
  - split; [reflexivity|]. split; [exact R|]. repeat split; congruence.
  - destruct (pb_stat st) eqn:Es; cbn [fst snd].
    + split; [reflexivity|]. split; [exact R|]. repeat split; congruence.
    + split; [reflexivity|]. split; [|repeat split; cbn; congruence].
      unfold Rel; cbn [pb_depth pb_core pb_stat pb_fe g_depth g_prev g_first].
      split; [congruence|]. split; [exact P|]. split; [reflexivity|]. split.
      * intros H0. congruence.
      * intros v Hv. destruct (F v Hv) as (c & Hc & _). congruence.
Qed.

Lemma times_of_with_rec clk t c : proc_cpu_times clk (with_rec t c) = times_of clk c.
Proof. reflexivity. Qed.

Lemma finish_holds clk a_t a_pt t c n core' res :
  proc_finish a_t a_pt t (times_of clk c) n = (core', res) -> holds clk core' (with_rec t c).
Proof. unfold proc_finish. intros H. injection H as <- _. split; reflexivity. Qed.
Lemma rel_set_core clk s1 g1 core' b : Rel clk s1 g1 -> holds clk core' b -> Rel clk (set_core s1 core') (g_set_prev g1 b).
Proof.
  intros (D & P & S & Z & F) H. unfold Rel, set_core, g_set_prev.
  cbn [pb_depth pb_core pb_stat pb_fe g_depth g_prev g_first].
  split; [exact D|]. split; [exact H|]. split; [exact S|]. split; [exact Z|exact F].
Qed.

Definition opt_rel {A} (R : A -> A -> Prop) (a b : option A) : Prop :=
  match a, b with Some x, Some y => R x y | None, None => True | _, _ => False end.

Lemma ptimes_eq_refl t : ptimes_eq t t.
Proof. unfold ptimes_eq. repeat split; reflexivity. Qed.

Lemma step_rel clk st g ev :
  Rel clk st g ->
  Rel clk (fst (pb_step clk st ev)) (fst (spec_pb_step clk g ev))
  /\ opt_rel (out_eq pbres_eq) (snd (pb_step clk st ev)) (snd (spec_pb_step clk g ev)).
Proof.
  intros R. destruct ev as [| |f|e].
  - (* enter *)
    pose proof R as (D & P & S & Z & F). cbn [pb_step spec_pb_step fst snd]. rewrite <- D.
    split; [|exact I]. case_depth st E; unfold Rel; cbn [pb_depth pb_core pb_stat pb_fe g_depth g_prev g_first].
    + split; [reflexivity|]. split; [exact P|]. split; [reflexivity|]. split; [intros H0; discriminate|intros v Hv; discriminate].
    + split; [reflexivity|]. split; [exact P|]. split; [exact S|]. split; [intros H0; discriminate|exact F].
  - (* exit *)
    pose proof R as (D & P & S & Z & F). cbn [pb_step spec_pb_step fst snd]. rewrite <- D.
    split; [|exact I]. case_depth st E.
    + exact R.
    + destruct d as [|d']; unfold Rel; cbn [pb_depth pb_core pb_stat pb_fe g_depth g_prev g_first].
      * split; [reflexivity|]. split; [exact P|]. split; [reflexivity|]. split; [intros _; split; reflexivity|intros v Hv; discriminate].
      * split; [reflexivity|]. split; [exact P|]. split; [exact S|]. split; [intros H0; discriminate|exact F].
  - (* cpu_times() *)
    cbn [pb_step spec_pb_step].
    destruct (read_rel clk st g f R) as (Ec & R1 & Ecore & Eprev & Edep).
    pose proof R as (D & P & S & Z & F).
    unfold fe_cpu_times, plat_cpu_times.
    destruct (g_read g f) as [g1 c1] eqn:Eg. cbn [fst snd] in *.
    case_depth st E; cbv iota.
    + destruct (plat_stat st f) as [s1 c] eqn:Ep. cbn [fst snd] in *. subst c1.
      split; [exact R1|]. cbn. apply ptimes_eq_refl.
    + destruct (pb_fe st) as [v|] eqn:Ef.
      * destruct (F v eq_refl) as (c & Hc & ->). cbn [fst snd].
        unfold g_read in Eg. rewrite <- D, E, <- S, Hc in Eg. injection Eg as <- <-.
        split; [exact R|]. cbn. apply ptimes_eq_refl.
      * destruct (plat_stat st f) as [s1 c] eqn:Ep. cbn [fst snd] in *. subst c1.
        destruct R1 as (D1 & P1 & S1 & Z1 & F1).
        split.
        -- unfold Rel; cbn [pb_depth pb_core pb_stat pb_fe].
           split; [exact D1|]. split; [exact P1|]. split; [exact S1|]. split.
           ++ intros H0. rewrite Edep, E in H0. discriminate.
           ++ intros v Hv. injection Hv as <-. exists c. split; [|reflexivity].
              assert (Dn : pb_depth st <> 0%nat) by congruence.
              pose proof (plat_stat_fills st f Dn) as Fi. rewrite Ep in Fi. exact Fi.
        -- cbn. apply ptimes_eq_refl.
  - (* cpu_percent() *)
    cbn [pb_step spec_pb_step]. unfold pb_percent.
    pose proof (ncpu_eff_pos (pe_ncpu e)) as Hn.
    destruct (pe_iv e) eqn:Ei.
    + (* None *)
      destruct (read_rel clk st g (rec_of (pe_r1 e)) R) as (Ec & R1 & Ecore & Eprev & Edep).
      unfold plat_cpu_times.
      destruct (plat_stat st (rec_of (pe_r1 e))) as [s1 c] eqn:Ep.
      destruct (g_read g (rec_of (pe_r1 e))) as [g1 c1] eqn:Eg. cbn [fst snd] in *. subst c1.
      pose proof R as (D & P & S & Z & F).
      rewrite Ecore. destruct (g_prev g) as [p|] eqn:Epv.
      * destruct P as (Hs & Hp). rewrite Hs, Hp.
        pose proof (proc_finish_spec clk _ p (with_rec (r_t (pe_r1 e)) c) Hn) as Fin.
        rewrite times_of_with_rec in Fin. cbn [r_t with_rec] in Fin.
        destruct (proc_finish (r_t p) (proc_cpu_times clk p) (r_t (pe_r1 e)) (times_of clk c) (ncpu_eff (pe_ncpu e))) as [core' res] eqn:Ef.
        cbn [fst snd] in *. split.
        -- apply rel_set_core; [exact R1|]. eapply finish_holds. exact Ef.
        -- unfold proc_finish in Ef. injection Ef as _ E2. subst res. cbn in Fin |- *. exact Fin.
      * rewrite P. cbn [p_init p_sys p_proc fst snd]. split.
        -- apply rel_set_core; [exact R1|]. split; reflexivity.
        -- cbn. reflexivity.
    + (* 0 *)
      destruct (read_rel clk st g (rec_of (pe_r1 e)) R) as (Ec & R1 & Ecore & Eprev & Edep).
      unfold plat_cpu_times.
      destruct (plat_stat st (rec_of (pe_r1 e))) as [s1 c] eqn:Ep.
      destruct (g_read g (rec_of (pe_r1 e))) as [g1 c1] eqn:Eg. cbn [fst snd] in *. subst c1.
      pose proof R as (D & P & S & Z & F).
      rewrite Ecore. destruct (g_prev g) as [p|] eqn:Epv.
      * destruct P as (Hs & Hp). rewrite Hs, Hp.
        pose proof (proc_finish_spec clk _ p (with_rec (r_t (pe_r1 e)) c) Hn) as Fin.
        rewrite times_of_with_rec in Fin. cbn [r_t with_rec] in Fin.
        destruct (proc_finish (r_t p) (proc_cpu_times clk p) (r_t (pe_r1 e)) (times_of clk c) (ncpu_eff (pe_ncpu e))) as [core' res] eqn:Ef.
        cbn [fst snd] in *. split.
        -- apply rel_set_core; [exact R1|]. eapply finish_holds. exact Ef.
        -- unfold proc_finish in Ef. injection Ef as _ E2. subst res. cbn in Fin |- *. exact Fin.
      * rewrite P. cbn [p_init p_sys p_proc fst snd]. split.
        -- apply rel_set_core; [exact R1|]. split; reflexivity.
        -- cbn. reflexivity.
    + (* blocking *)
      destruct (read_rel clk st g (rec_of (pe_r1 e)) R) as (Ec & R1 & Ecore & Eprev & Edep).
      unfold plat_cpu_times.
      destruct (plat_stat st (rec_of (pe_r1 e))) as [s1 c] eqn:Ep.
      destruct (g_read g (rec_of (pe_r1 e))) as [g1 c1] eqn:Eg. cbn [fst snd] in *. subst c1.
      destruct (read_rel clk s1 g1 (rec_of (pe_r2 e)) R1) as (Ec2 & R2 & Ecore2 & Eprev2 & Edep2).
      destruct (plat_stat s1 (rec_of (pe_r2 e))) as [s2 c2] eqn:Ep2.
      destruct (g_read g1 (rec_of (pe_r2 e))) as [g2 c2'] eqn:Eg2. cbn [fst snd] in *. subst c2'.
      pose proof (proc_finish_spec clk _ (with_rec (r_t (pe_r1 e)) c) (with_rec (r_t (pe_r2 e)) c2) Hn) as Fin.
      rewrite !times_of_with_rec in Fin. cbn [r_t with_rec] in Fin.
      destruct (proc_finish (r_t (pe_r1 e)) (times_of clk c) (r_t (pe_r2 e)) (times_of clk c2) (ncpu_eff (pe_ncpu e))) as [core' res] eqn:Ef.
      cbn [fst snd] in *. split.
      * apply rel_set_core; [exact R2|]. eapply finish_holds. exact Ef.
      * unfold proc_finish in Ef. injection Ef as _ E2. subst res. cbn in Fin |- *. exact Fin.
    + (* negative interval *)
      cbn [fst snd]. split; [exact R|]. cbn. reflexivity.
Qed.

Lemma run_rel clk l : forall st g, Rel clk st g ->
  Forall2 (out_eq pbres_eq) (pb_run clk st l) (spec_pb_run clk g l).
Proof.
  induction l as [|ev l IH]; intros st g R; [constructor|].
  cbn [pb_run spec_pb_run]. destruct (step_rel clk st g ev R) as [R' O].
  destruct (pb_step clk st ev) as [st' o]. destruct (spec_pb_step clk g ev) as [g' o']. cbn [fst snd] in *.
  destruct o, o'; cbn in O; try contradiction.
  - constructor; [exact O|now apply IH].
  - now apply IH.
Qed.

(* values inside and outside blocks are the demanded ones and the stored sample is the true one *)
Theorem block_values_exact clk l :
  Forall2 (out_eq pbres_eq) (pb_run clk pb_init l) (spec_pb_run clk g_init l).
Proof. apply run_rel. unfold Rel. cbn. repeat split; auto. intros v H. discriminate. Qed.

(* ---------------------------------------------------------------- block transparency *)
Lemma sr_eqb_eq a b : sr_eqb a b = true -> a = b.
Proof.
  destruct a, b. unfold sr_eqb. cbn. intros H.
  repeat (apply andb_true_iff in H as [H ?]).
  repeat match goal with X : (_ =? _) = true |- _ => apply Z.eqb_eq in X end. subst. reflexivity.
Qed.

(* st runs the history with its blocks, st' the same calls without any block *)
Definition Tinv (clk : positive) (st st' : pbstate) (d : nat) (cur : option statrec) : Prop :=
  pb_core st = pb_core st' /\ pb_depth st' = 0%nat /\ pb_depth st = d
  /\ (d = 0%nat -> cur = None)
  /\ (d <> 0%nat -> pb_stat st = cur /\ (pb_fe st = None \/ exists c, cur = Some c /\ pb_fe st = Some (times_of clk c))).

Lemma plain_stat st' f : pb_depth st' = 0%nat -> plat_stat st' f = (st', f).
Proof. intros D. unfold plat_stat. now rewrite D. Qed.

Lemma read_sim clk st st' d cur f cur' :
  Tinv clk st st' d cur -> seen_ok d cur f = (true, cur') ->
  exists s1, plat_stat st f = (s1, f) /\ Tinv clk s1 st' d cur' /\ pb_core s1 = pb_core st
             /\ (pb_fe s1 = pb_fe st).
Proof.
  intros T Hs. pose proof T as (C & D' & Dd & Z0 & N). unfold seen_ok in Hs.
  destruct (nat_cases d) as [E|[k E]]; rewrite E in *; cbv iota in Hs.
  - injection Hs as <-. exists st. unfold plat_stat. rewrite Dd.
    split; [reflexivity|]. split; [exact T|split; reflexivity].
  - assert (Dn : S k <> 0%nat) by discriminate. destruct (N Dn) as [Hst Hfe].
    destruct cur as [c|].
    + injection Hs as He <-. apply sr_eqb_eq in He. subst c.
      exists st. unfold plat_stat. rewrite Dd, Hst.
      split; [reflexivity|]. split; [exact T|split; reflexivity].
    + injection Hs as <-.
      exists {| pb_core := pb_core st; pb_depth := pb_depth st; pb_stat := Some f; pb_fe := pb_fe st |}.
      unfold plat_stat. rewrite Dd, Hst.
      split; [reflexivity|]. split; [|split; reflexivity].
      unfold Tinv. cbn [pb_core pb_depth pb_stat pb_fe].
      split; [exact C|]. split; [exact D'|]. split; [first [exact Dd|reflexivity]|]. split; [intros H0; discriminate|].
      intros _. split; [reflexivity|]. left. destruct Hfe as [H0|(c & Hc & _)]; [exact H0|discriminate].
Qed.

Lemma tinv_set_core clk s1 st' d cur c : Tinv clk s1 st' d cur -> Tinv clk (set_core s1 c) (set_core st' c) d cur.
Proof. intros (C & D' & Dd & Z0 & N). unfold Tinv, set_core. cbn [pb_core pb_depth pb_stat pb_fe]. repeat split; auto; apply N; assumption. Qed.

Lemma transp clk l : forall d cur st st',
  Tinv clk st st' d cur -> const_blocks d cur l = true -> pb_run clk st l = pb_run clk st' (erase l).
Proof.
  induction l as [|ev l IH]; intros d cur st st' T H; [reflexivity|].
  destruct ev as [| |f|e]; cbn [erase const_blocks] in *.
  - (* enter *)
    cbn [pb_run pb_step]. eapply IH; [|exact H].
    destruct T as (C & D' & Dd & Z0 & N). destruct (nat_cases d) as [E|[k E]]; rewrite E in *; rewrite Dd.
    + unfold Tinv. cbn [pb_core pb_depth pb_stat pb_fe].
      split; [exact C|]. split; [exact D'|]. split; [reflexivity|]. split; [intros H0; discriminate|].
      intros _. split; [reflexivity|now left].
    + assert (Dn : S k <> 0%nat) by discriminate. destruct (N Dn) as [Hst Hfe].
      unfold Tinv. cbn [pb_core pb_depth pb_stat pb_fe].
      split; [exact C|]. split; [exact D'|]. split; [reflexivity|]. split; [intros H0; discriminate|].
      intros _. split; [exact Hst|exact Hfe].
  - (* exit *)
    cbn [pb_run pb_step]. eapply IH; [|exact H].
    destruct T as (C & D' & Dd & Z0 & N). destruct (nat_cases d) as [E|[k E]]; rewrite E in *; rewrite Dd.
    + cbn [Nat.pred]. unfold Tinv.
      split; [exact C|]. split; [exact D'|]. split; [exact Dd|]. split; [intros _; reflexivity|].
      intros H0. exfalso. now apply H0.
    + assert (Dn : S k <> 0%nat) by discriminate. destruct (N Dn) as [Hst Hfe].
      destruct k as [|k']; cbn [Nat.pred]; unfold Tinv; cbn [pb_core pb_depth pb_stat pb_fe].
      * split; [exact C|]. split; [exact D'|]. split; [reflexivity|]. split; [intros _; reflexivity|].
        intros H0. exfalso. now apply H0.
      * split; [exact C|]. split; [exact D'|]. split; [reflexivity|]. split; [intros H0; discriminate|].
        intros _. split; [exact Hst|exact Hfe].
  - (* cpu_times() *)
    destruct (seen_ok d cur f) as [ok cur'] eqn:Es. apply andb_true_iff in H as [Hok H]. subst ok.
    destruct (read_sim clk st st' d cur f cur' T Es) as (s1 & Ps & T1 & Cs & Fs).
    pose proof T as (C & D' & Dd & Z0 & N).
    cbn [pb_run pb_step]. unfold fe_cpu_times, plat_cpu_times. rewrite D', (plain_stat st' f D').
    destruct (nat_cases d) as [E|[k E]].
    + rewrite Dd, E. cbv iota. rewrite Ps. f_equal. rewrite E in *. exact (IH _ _ _ _ T1 H).
    + assert (Dn : d <> 0%nat) by (rewrite E; discriminate). destruct (N Dn) as [Hst Hfe].
      rewrite Dd, E. destruct Hfe as [Hf|(c & Hc & Hf)]; rewrite Hf.
      * rewrite Ps. f_equal. apply (IH d cur'); [|exact H].
        destruct T1 as (C1 & D1' & Dd1 & Z1 & N1). destruct (N1 Dn) as [Hst1 _].
        unfold Tinv. cbn [pb_core pb_depth pb_stat pb_fe].
        split; [exact C1|]. split; [exact D1'|]. split; [exact Dd1|]. split; [exact Z1|].
        intros _. split; [exact Hst1|]. right. exists f. split; [|reflexivity].
        unfold plat_stat in Ps. rewrite Dd, E in Ps.
        rewrite <- Hst1. destruct (pb_stat st) eqn:Ec; injection Ps as <-; [congruence|reflexivity].
      * (* front-end cache hit: the cached value is times_of of the block's record = of the file *)
        unfold seen_ok in Es. rewrite E, Hc in Es. injection Es as He <-. apply sr_eqb_eq in He. subst c.
        f_equal. apply (IH d cur); [exact T|]. rewrite Hc. exact H.
  - (* cpu_percent() *)
    cbn [pb_run pb_step]. unfold pb_percent.
    destruct (pe_iv e) eqn:Ei.
    + destruct (seen_ok d cur (rec_of (pe_r1 e))) as [ok c1] eqn:Es. apply andb_true_iff in H as [Hok H]. subst ok.
      destruct (read_sim clk st st' d cur _ c1 T Es) as (s1 & Ps & T1 & Cs & Fs).
      pose proof T as (C & D' & Dd & Z0 & N).
      unfold plat_cpu_times. rewrite Ps, (plain_stat st' _ D'), Cs, C.
      destruct (p_sys (pb_core st')); [destruct (p_proc (pb_core st'))|].
      * destruct (proc_finish _ _ _ _ _) as [core' res]. f_equal. apply (IH d c1); [now apply tinv_set_core|exact H].
      * f_equal. apply (IH d c1); [now apply tinv_set_core|exact H].
      * f_equal. apply (IH d c1); [now apply tinv_set_core|exact H].
    + destruct (seen_ok d cur (rec_of (pe_r1 e))) as [ok c1] eqn:Es. apply andb_true_iff in H as [Hok H]. subst ok.
      destruct (read_sim clk st st' d cur _ c1 T Es) as (s1 & Ps & T1 & Cs & Fs).
      pose proof T as (C & D' & Dd & Z0 & N).
      unfold plat_cpu_times. rewrite Ps, (plain_stat st' _ D'), Cs, C.
      destruct (p_sys (pb_core st')); [destruct (p_proc (pb_core st'))|].
      * destruct (proc_finish _ _ _ _ _) as [core' res]. f_equal. apply (IH d c1); [now apply tinv_set_core|exact H].
      * f_equal. apply (IH d c1); [now apply tinv_set_core|exact H].
      * f_equal. apply (IH d c1); [now apply tinv_set_core|exact H].
    + destruct (seen_ok d cur (rec_of (pe_r1 e))) as [ok1 c1] eqn:Es1.
      destruct (seen_ok d c1 (rec_of (pe_r2 e))) as [ok2 c2] eqn:Es2.
      apply andb_true_iff in H as [Hok H]. apply andb_true_iff in Hok as [H1 H2]. subst ok1 ok2.
      destruct (read_sim clk st st' d cur _ c1 T Es1) as (s1 & Ps1 & T1 & Cs1 & Fs1).
      destruct (read_sim clk s1 st' d c1 _ c2 T1 Es2) as (s2 & Ps2 & T2 & Cs2 & Fs2).
      pose proof T as (C & D' & Dd & Z0 & N).
      unfold plat_cpu_times. rewrite Ps1, Ps2, !(plain_stat st' _ D').
      destruct (proc_finish _ _ _ _ _) as [core' res]. f_equal. apply (IH d c2); [now apply tinv_set_core|exact H].
    + f_equal. exact (IH _ _ _ _ T H).
Qed.

(* BLOCK TRANSPARENCY for cpu_times() and cpu_percent(): when /proc/<pid>/stat does not change
   while a block is open, every value returned -- and, through the later calls, every stored
   sample -- is the one of the same calls made with no oneshot()/as_dict() block at all *)
Theorem block_transparent clk l :
  const_blocks 0 None l = true -> pb_run clk pb_init l = pb_run clk pb_init (erase l).
Proof.
  apply transp. unfold Tinv. cbn. repeat split; auto; try (intros H; exfalso; now apply H).
Qed.

(* non-vacuity: a block with cpu_times(), two cpu_percent(), a nested as_dict-like block, then a
   plain call after the block; the file is constant inside the block and moves outside *)
Example block_transparent_nonvacuous :
  let rd t u s := {| r_t := t; r_u := u; r_s := s; r_cu := 70; r_cs := 30; r_io := 10 |} in
  let pe i a b := {| pe_iv := i; pe_ncpu := 2; pe_r1 := a; pe_r2 := b |} in
  const_blocks 0 None
    [BPercent (pe INone (rd (10 # 1) 100 50) (rd (10 # 1) 100 50));
     BEnter; BTimes (rec_of (rd (11 # 1) 130 60)); BPercent (pe INone (rd (12 # 1) 130 60) (rd (12 # 1) 130 60));
     BEnter; BPercent (pe IPos (rd (13 # 1) 130 60) (rd (14 # 1) 130 60)); BTimes (rec_of (rd (14 # 1) 130 60)); BExit;
     BExit; BPercent (pe IZero (rd (16 # 1) 190 80) (rd (16 # 1) 190 80))] = true.
Proof. vm_compute. reflexivity. Qed.
