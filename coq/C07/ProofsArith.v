(* C07 -- arithmetic of cpu_percent / cpu_times_percent: the model's rational
   results against the tick-level formulas of the specification. *)
From PV Require Import C07.Spec.
From Coq Require Import Lqa Setoid Morphisms.

Local Open Scope Q_scope.

(* ---------------------------------------------------------------- secs *)
Lemma secs_minus clk a b : secs clk b - secs clk a == secs clk (b - a).
Proof. unfold secs, Qminus, Qplus, Qopp, Qeq. cbn. rewrite Pos2Z.inj_mul. ring. Qed.
Lemma secs_plus clk a b : secs clk a + secs clk b == secs clk (a + b).
Proof. unfold secs, Qplus, Qeq. cbn. rewrite Pos2Z.inj_mul. ring. Qed.
Lemma secs_0 clk : secs clk 0 == 0.
Proof. reflexivity. Qed.
Lemma secs_nonneg clk z : (0 <= z)%Z -> 0 <= secs clk z.
Proof. intros H. unfold secs, Qle. cbn. lia. Qed.
Lemma secs_le clk a b : (a <= b)%Z -> secs clk a <= secs clk b.
Proof. intros H. unfold secs, Qle. cbn. nia. Qed.
Lemma secs_div clk z : secs clk z == inject_Z z / inject_Z (Zpos clk).
Proof. apply Qmake_Qdiv. Qed.

Lemma secs_clip clk a b : Qmax 0 (secs clk b - secs clk a) == secs clk (clip a b).
Proof.
  rewrite secs_minus. unfold clip.
  destruct (Z.max_spec 0 (b - a)) as [[H E]|[H E]]; rewrite E.
  - apply Q.max_r. apply secs_nonneg. lia.
  - rewrite Q.max_l.
    + unfold secs, Qeq. cbn. lia.
    + unfold secs, Qle. cbn. lia.
Qed.

(* ---------------------------------------------------------------- lists up to == *)
Definition rel_secs (clk : positive) (q : Q) (z : Z) : Prop := q == secs clk z.

Lemma deltas_secs clk s1 s2 :
  Forall2 (rel_secs clk) (deltas (map (secs clk) s1) (map (secs clk) s2)) (dticks s1 s2).
Proof.
  revert s2; induction s1 as [|a s1 IH]; intros [|b s2]; cbn; try constructor.
  - apply secs_clip.
  - apply IH.
Qed.

Definition zsum (l : list Z) : Z := fold_right Z.add 0%Z l.

Lemma qsum_rel clk D d : Forall2 (rel_secs clk) D d -> qsum D == secs clk (zsum d).
Proof.
  induction 1 as [|q z D d H _ IH]; [reflexivity|].
  change (qsum (q :: D)) with (q + qsum D). change (zsum (z :: d)) with (z + zsum d)%Z.
  unfold rel_secs in H. rewrite IH, H. apply secs_plus.
Qed.

Lemma fld_rel clk D d i : Forall2 (rel_secs clk) D d -> fld i D == secs clk (tk i d).
Proof.
  intros H; revert i; induction H as [|q z D d H _ IH]; intros [|i]; try reflexivity.
  - exact H.
  - apply (IH i).
Qed.

Lemma Forall2_length' {A B} (R : A -> B -> Prop) a b : Forall2 R a b -> length a = length b.
Proof. induction 1; cbn; congruence. Qed.

Lemma dticks_length s1 s2 : length s1 = length s2 -> length (dticks s1 s2) = length s1.
Proof.
  revert s2; induction s1 as [|a s1 IH]; intros [|b s2] H; cbn in *; try congruence.
  f_equal. apply IH. congruence.
Qed.

Lemma dticks_nonneg s1 s2 : Forall (fun x => 0 <= x)%Z (dticks s1 s2).
Proof.
  revert s2; induction s1 as [|a s1 IH]; intros [|b s2]; cbn; constructor.
  - unfold clip. lia.
  - apply IH.
Qed.

(* total and busy of a 7..10 field delta tuple *)
Lemma total_busy_ticks d : (7 <= length d <= 10)%nat ->
  (zsum d - tk iGUEST d - tk iGUEST_NICE d = spec_total d)%Z
  /\ (zsum d - tk iGUEST d - tk iGUEST_NICE d - tk iIDLE d - tk iIOWAIT d = spec_busy d)%Z.
Proof.
  intros H.
  destruct d as [|a0 [|a1 [|a2 [|a3 [|a4 [|a5 [|a6 [|a7 [|a8 [|a9 [|a10 d]]]]]]]]]]]; cbn in H; try lia;
    unfold spec_total, spec_busy, tk, zsum; cbn; lia.
Qed.

Lemma tk_nonneg d i : Forall (fun x => 0 <= x)%Z d -> (0 <= tk i d)%Z.
Proof.
  intros H; revert i; induction H as [|x d Hx _ IH]; intros [|i]; cbn; try lia. apply IH.
Qed.

Lemma busy_total_bounds d : Forall (fun x => 0 <= x)%Z d -> (0 <= spec_busy d <= spec_total d)%Z.
Proof.
  intros H. unfold spec_total, spec_busy.
  pose proof (tk_nonneg d iUSER H). pose proof (tk_nonneg d iNICE H). pose proof (tk_nonneg d iSYSTEM H).
  pose proof (tk_nonneg d iIDLE H). pose proof (tk_nonneg d iIOWAIT H). pose proof (tk_nonneg d iIRQ H).
  pose proof (tk_nonneg d iSOFTIRQ H). pose proof (tk_nonneg d iSTEAL H). lia.
Qed.

Lemma tot_time_rel clk D d : Forall2 (rel_secs clk) D d -> (7 <= length d <= 10)%nat ->
  tot_time D == secs clk (spec_total d).
Proof.
  intros H L. unfold tot_time. rewrite (qsum_rel _ _ _ H), !(fld_rel _ _ _ _ H), !secs_minus.
  destruct (total_busy_ticks d L) as [E _]. rewrite <- E. reflexivity.
Qed.

Lemma busy_time_rel clk D d : Forall2 (rel_secs clk) D d -> (7 <= length d <= 10)%nat ->
  busy_time D == secs clk (spec_busy d).
Proof.
  intros H L. unfold busy_time. rewrite (tot_time_rel _ _ _ H L), !(fld_rel _ _ _ _ H), !secs_minus.
  destruct (total_busy_ticks d L) as [E1 E2]. rewrite <- E2, <- E1. reflexivity.
Qed.

Lemma qzero_iff q : qzero q = true <-> q == 0.
Proof.
  unfold qzero, Qeq. cbn. rewrite Z.eqb_eq. lia.
Qed.
Lemma qzero_proper a b : a == b -> qzero a = qzero b.
Proof.
  intros H. destruct (qzero a) eqn:Ea; destruct (qzero b) eqn:Eb; try reflexivity.
  - apply qzero_iff in Ea. rewrite H in Ea. apply qzero_iff in Ea. congruence.
  - apply qzero_iff in Eb. rewrite <- H in Eb. apply qzero_iff in Eb. congruence.
Qed.
Lemma qzero_secs clk z : qzero (secs clk z) = (z =? 0)%Z.
Proof. reflexivity. Qed.

Lemma inject_pos_nz p : ~ inject_Z (Zpos p) == 0.
Proof. unfold Qeq. cbn. lia. Qed.
Lemma inject_nz z : z <> 0%Z -> ~ inject_Z z == 0.
Proof. unfold Qeq. cbn. lia. Qed.

(* ---------------------------------------------------------------- cpu_percent *)
Theorem percent_formula clk s1 s2 :
  length s1 = length s2 -> (7 <= length s1 <= 10)%nat ->
  calc_percent (map (secs clk) s1) (map (secs clk) s2) == spec_percent s1 s2.
Proof.
  intros Hl Hn. unfold calc_percent, spec_percent.
  pose proof (deltas_secs clk s1 s2) as HD.
  assert (L : (7 <= length (dticks s1 s2) <= 10)%nat) by (rewrite dticks_length; assumption).
  pose proof (tot_time_rel _ _ _ HD L) as HT. pose proof (busy_time_rel _ _ _ HD L) as HB.
  rewrite (qzero_proper _ _ HT), qzero_secs.
  destruct (spec_total (dticks s1 s2) =? 0)%Z eqn:E; [reflexivity|].
  apply Z.eqb_neq in E.
  rewrite HT, HB, !secs_div, inject_Z_mult.
  field. split; first [apply inject_pos_nz | now apply inject_nz].
Qed.

Lemma Qdiv_bounds b t : (0 <= b <= t)%Z -> (0 < t)%Z ->
  0 <= inject_Z (100 * b) / inject_Z t <= 100.
Proof.
  intros [Hb Hbt] Ht.
  assert (Hq : 0 < inject_Z t) by (change 0 with (inject_Z 0); rewrite <- Zlt_Qlt; exact Ht).
  split.
  - apply Qle_shift_div_l; [exact Hq|]. rewrite Qmult_0_l.
    change 0 with (inject_Z 0). rewrite <- Zle_Qle. lia.
  - apply Qle_shift_div_r; [exact Hq|].
    change 100 with (inject_Z 100). rewrite <- inject_Z_mult, <- Zle_Qle. lia.
Qed.

Theorem spec_percent_bounds s1 s2 : 0 <= spec_percent s1 s2 <= 100.
Proof.
  unfold spec_percent.
  destruct (spec_total (dticks s1 s2) =? 0)%Z eqn:E; [split; discriminate|].
  apply Z.eqb_neq in E.
  pose proof (busy_total_bounds _ (dticks_nonneg s1 s2)) as B.
  apply Qdiv_bounds; lia.
Qed.

Theorem percent_bounds clk s1 s2 :
  length s1 = length s2 -> (7 <= length s1 <= 10)%nat ->
  0 <= calc_percent (map (secs clk) s1) (map (secs clk) s2) <= 100.
Proof.
  intros Hl Hn. rewrite (percent_formula clk s1 s2 Hl Hn). apply spec_percent_bounds.
Qed.

(* a counter that did not increase contributes nothing *)
Theorem backwards_counts_zero_model (t1 t2 : list Q) i a b :
  nth_error t1 i = Some a -> nth_error t2 i = Some b -> b <= a ->
  exists x, nth_error (deltas t1 t2) i = Some x /\ x == 0.
Proof.
  revert t2 i; induction t1 as [|u t1 IH]; intros [|v t2] [|i] H1 H2 Hle; cbn in *; try discriminate.
  - injection H1 as ->. injection H2 as ->. eexists; split; [reflexivity|].
    apply Q.max_l. lra.
  - eapply IH; eassumption.
Qed.

Theorem backwards_counts_zero_ticks s1 s2 i a b :
  nth_error s1 i = Some a -> nth_error s2 i = Some b -> (b <= a)%Z ->
  nth_error (dticks s1 s2) i = Some 0%Z.
Proof.
  revert s2 i; induction s1 as [|u s1 IH]; intros [|v s2] [|i] H1 H2 Hle; cbn in *; try discriminate.
  - injection H1 as ->. injection H2 as ->. unfold clip. f_equal. lia.
  - eapply IH; eassumption.
Qed.

(* ---------------------------------------------------------------- cpu_times_percent *)
Lemma Qmax_proper_r a b c : b == c -> Qmax a b == Qmax a c.
Proof.
  intros H. destruct (Q.max_spec a b) as [[L E]|[L E]]; rewrite E.
  - rewrite H in L. symmetry. rewrite H. apply Q.max_r. lra.
  - rewrite H in L. symmetry. apply Q.max_l. exact L.
Qed.
Lemma Qmin_proper_l a b c : a == b -> Qmin a c == Qmin b c.
Proof.
  intros H. destruct (Q.min_spec a c) as [[L E]|[L E]]; rewrite E.
  - rewrite H in L. rewrite H. symmetry. apply Q.min_l. lra.
  - rewrite H in L. symmetry. apply Q.min_r. exact L.
Qed.

(* clamped values are always within [0, 100] *)
Lemma clamp_bounds x : 0 <= Qmin (Qmax 0 x) 100 <= 100.
Proof.
  split.
  - apply Q.min_glb; [apply Q.le_max_l|discriminate].
  - apply Q.le_min_r.
Qed.

Theorem times_percent_bounds (t1 t2 : list Q) :
  Forall (fun x => 0 <= x <= 100) (calc_times_percent t1 t2).
Proof.
  unfold calc_times_percent. apply Forall_forall. intros x Hx.
  apply in_map_iff in Hx as (y & <- & _). apply clamp_bounds.
Qed.

Lemma Forall2_map_lr {A B C D} (R : A -> B -> Prop) (R' : C -> D -> Prop) (f : A -> C) (g : B -> D) a b :
  Forall2 R a b -> (forall x y, R x y -> In y b -> R' (f x) (g y)) -> Forall2 R' (map f a) (map g b).
Proof.
  induction 1 as [|x y a b H _ IH]; intros Hf; cbn; constructor.
  - apply Hf; [exact H|now left].
  - apply IH. intros x' y' Hr Hin. apply Hf; [exact Hr|now right].
Qed.

Lemma share_eq clk q x T :
  q == secs clk x -> (0 <= x)%Z -> (T <> 0)%Z -> (0 < T)%Z ->
  Qmin (Qmax 0 (q * (100 / secs clk T))) 100 == spec_share T x.
Proof.
  intros Hq Hx HT0 HT. unfold spec_share.
  destruct (T =? 0)%Z eqn:E; [apply Z.eqb_eq in E; contradiction|].
  assert (V : q * (100 / secs clk T) == inject_Z (100 * x) / inject_Z T).
  { rewrite Hq, !secs_div, inject_Z_mult. field. split; first [apply inject_pos_nz | now apply inject_nz]. }
  assert (P : 0 <= inject_Z (100 * x) / inject_Z T).
  { apply Qle_shift_div_l; [change 0 with (inject_Z 0); rewrite <- Zlt_Qlt; exact HT|].
    rewrite Qmult_0_l. change 0 with (inject_Z 0). rewrite <- Zle_Qle. lia. }
  apply Qmin_proper_l. rewrite (Qmax_proper_r _ _ _ V). apply Q.max_r. exact P.
Qed.

(* at least one CPU-second elapsed: every share is 100*delta/total (capped at 100) *)
Theorem times_percent_formula clk s1 s2 :
  length s1 = length s2 -> (7 <= length s1 <= 10)%nat ->
  (Zpos clk <= spec_total (dticks s1 s2))%Z ->
  Forall2 Qeq (calc_times_percent (map (secs clk) s1) (map (secs clk) s2)) (spec_shares s1 s2).
Proof.
  intros Hl Hn HT. unfold calc_times_percent, spec_shares.
  pose proof (deltas_secs clk s1 s2) as HD.
  assert (L : (7 <= length (dticks s1 s2) <= 10)%nat) by (rewrite dticks_length; assumption).
  pose proof (tot_time_rel _ _ _ HD L) as HTT.
  set (T := spec_total (dticks s1 s2)) in *.
  assert (M : Qmax 1 (tot_time (deltas (map (secs clk) s1) (map (secs clk) s2))) == secs clk T).
  { rewrite (Qmax_proper_r _ _ _ HTT). apply Q.max_r.
    unfold secs, Qle. cbn. lia. }
  eapply Forall2_map_lr; [exact HD|].
  intros q x Hq Hin. cbn beta. unfold rel_secs in Hq.
  assert (Hx : (0 <= x)%Z).
  { pose proof (dticks_nonneg s1 s2) as F. rewrite Forall_forall in F. now apply F. }
  rewrite <- (share_eq clk q x T Hq Hx); [|lia|lia].
  apply Qmin_proper_l. apply Qmax_proper_r.
  apply Qmult_comp; [reflexivity|]. apply Qdiv_comp; [reflexivity|exact M].
Qed.

(* nothing moved at all: every share is 0 *)
Lemma tk_zero d i : Forall (fun x => x = 0%Z) d -> tk i d = 0%Z.
Proof. intros H; revert i; induction H as [|x d Hx _ IH]; intros [|i]; cbn; auto. apply IH. Qed.

Theorem times_percent_zero clk s1 s2 :
  Forall (fun x => x = 0%Z) (dticks s1 s2) ->
  Forall2 Qeq (calc_times_percent (map (secs clk) s1) (map (secs clk) s2)) (spec_shares s1 s2).
Proof.
  intros HZ. unfold calc_times_percent, spec_shares.
  assert (T0 : spec_total (dticks s1 s2) = 0%Z).
  { unfold spec_total, spec_busy. rewrite !tk_zero by assumption. reflexivity. }
  rewrite T0.
  pose proof (deltas_secs clk s1 s2) as HD.
  eapply Forall2_map_lr; [exact HD|].
  intros q x Hq Hin. cbn beta. unfold rel_secs in Hq. unfold spec_share. cbn [Z.eqb].
  rewrite Forall_forall in HZ. rewrite (HZ x Hin) in Hq.
  assert (Q0 : q * (100 / Qmax 1 (tot_time (deltas (map (secs clk) s1) (map (secs clk) s2)))) == 0).
  { rewrite Hq. unfold secs. unfold Qeq. cbn. ring. }
  rewrite (Qmin_proper_l _ 0 _); [reflexivity|].
  rewrite (Qmax_proper_r _ _ _ Q0). reflexivity.
Qed.

(* the shares the property demands: within [0,100]; the named non-guest ones add up to 100 *)
Lemma spec_share_bounds T x : (0 <= x)%Z -> (0 <= T)%Z -> 0 <= spec_share T x <= 100.
Proof.
  intros Hx HT. unfold spec_share. destruct (T =? 0)%Z eqn:E; [split; discriminate|].
  apply Z.eqb_neq in E. split.
  - apply Q.min_glb; [|discriminate].
    apply Qle_shift_div_l; [change 0 with (inject_Z 0); rewrite <- Zlt_Qlt; lia|].
    rewrite Qmult_0_l. change 0 with (inject_Z 0). rewrite <- Zle_Qle. lia.
  - apply Q.le_min_r.
Qed.

Theorem spec_shares_bounds s1 s2 : Forall (fun x => 0 <= x <= 100) (spec_shares s1 s2).
Proof.
  unfold spec_shares. apply Forall_forall. intros q Hq.
  apply in_map_iff in Hq as (x & <- & Hx).
  pose proof (dticks_nonneg s1 s2) as F.
  apply spec_share_bounds.
  - rewrite Forall_forall in F. now apply F.
  - pose proof (busy_total_bounds _ F). lia.
Qed.

Lemma share_small T x : (0 <= x <= T)%Z -> (0 < T)%Z -> spec_share T x == inject_Z (100 * x) / inject_Z T.
Proof.
  intros Hx HT. unfold spec_share. destruct (T =? 0)%Z eqn:E; [apply Z.eqb_eq in E; lia|].
  apply Q.min_l. apply Qdiv_bounds; lia.
Qed.

Lemma shares_sum_list T l : (0 < T)%Z -> Forall (fun x => 0 <= x <= T)%Z l ->
  qsum (map (spec_share T) l) == inject_Z (100 * zsum l) / inject_Z T.
Proof.
  intros HT. induction 1 as [|x l Hx _ IH].
  - cbn. unfold Qdiv. rewrite Qmult_0_l. reflexivity.
  - change (qsum (map (spec_share T) (x :: l))) with (spec_share T x + qsum (map (spec_share T) l)).
    change (zsum (x :: l)) with (x + zsum l)%Z.
    rewrite IH, (share_small T x Hx HT).
    replace (100 * (x + zsum l))%Z with (100 * x + 100 * zsum l)%Z by ring.
    rewrite inject_Z_plus. field. apply inject_nz. lia.
Qed.

Lemma nonguest_sum d : (7 <= length d <= 10)%nat -> zsum (firstn 8 d) = spec_total d.
Proof.
  intros H.
  destruct d as [|a0 [|a1 [|a2 [|a3 [|a4 [|a5 [|a6 [|a7 [|a8 [|a9 [|a10 d]]]]]]]]]]]; cbn in H; try lia;
    unfold spec_total, spec_busy, tk, zsum; cbn; lia.
Qed.

Lemma zsum_cons x l : zsum (x :: l) = (x + zsum l)%Z.
Proof. reflexivity. Qed.
Lemma zsum_nonneg l : Forall (fun x => 0 <= x)%Z l -> (0 <= zsum l)%Z.
Proof. induction 1 as [|x l Hx _ IH]; [cbn; lia|]. rewrite zsum_cons. lia. Qed.
Lemma le_zsum l : Forall (fun x => 0 <= x)%Z l -> Forall (fun x => 0 <= x <= zsum l)%Z l.
Proof.
  induction 1 as [|x l Hx Hl IH]; constructor; rewrite zsum_cons.
  - pose proof (zsum_nonneg l Hl). lia.
  - eapply Forall_impl; [|exact IH]. cbn beta. intros. lia.
Qed.

Lemma Forall_firstn {A} (P : A -> Prop) k l : Forall P l -> Forall P (firstn k l).
Proof. revert k; induction l; intros [|k] H; cbn; try constructor; inversion H; subst; auto. Qed.

(* whenever any time elapsed, the demanded shares of user..steal add up to 100 *)
Theorem spec_shares_sum s1 s2 :
  length s1 = length s2 -> (7 <= length s1 <= 10)%nat ->
  (0 < spec_total (dticks s1 s2))%Z ->
  qsum (firstn 8 (spec_shares s1 s2)) == 100.
Proof.
  intros Hl Hn HT. unfold spec_shares. rewrite firstn_map.
  assert (L : (7 <= length (dticks s1 s2) <= 10)%nat) by (rewrite dticks_length; assumption).
  pose proof (nonguest_sum _ L) as E.
  rewrite shares_sum_list; [|exact HT|].
  - rewrite E, inject_Z_mult. field. apply inject_nz. lia.
  - rewrite <- E. apply le_zsum. apply Forall_firstn. apply dticks_nonneg.
Qed.

Lemma qsum_proper a b : Forall2 Qeq a b -> qsum a == qsum b.
Proof. induction 1 as [|x y a b H _ IH]; cbn; [reflexivity|]. now rewrite H, IH. Qed.
Lemma Forall2_firstn {A B} (R : A -> B -> Prop) k a b : Forall2 R a b -> Forall2 R (firstn k a) (firstn k b).
Proof. intros H; revert k; induction H; intros [|k]; cbn; constructor; auto. Qed.

(* the model: shares of user..steal add up to exactly 100 once a CPU-second elapsed *)
Theorem times_percent_shares clk s1 s2 :
  length s1 = length s2 -> (7 <= length s1 <= 10)%nat ->
  (Zpos clk <= spec_total (dticks s1 s2))%Z ->
  qsum (firstn 8 (calc_times_percent (map (secs clk) s1) (map (secs clk) s2))) == 100.
Proof.
  intros Hl Hn HT.
  rewrite (qsum_proper _ _ (Forall2_firstn _ 8 _ _ (times_percent_formula clk s1 s2 Hl Hn HT))).
  apply spec_shares_sum; try assumption. lia.
Qed.

(* ... and they do NOT below one second: 20 ticks at 100 ticks/s give 20 *)
Theorem times_percent_refuted :
  exists clk s1 s2, length s1 = length s2 /\ (7 <= length s1 <= 10)%nat
    /\ (0 < spec_total (dticks s1 s2) < Zpos clk)%Z
    /\ qsum (firstn 8 (calc_times_percent (map (secs clk) s1) (map (secs clk) s2))) == 20
    /\ qsum (firstn 8 (spec_shares s1 s2)) == 100.
Proof.
  exists 100%positive, [100; 0; 50; 1000; 10; 0; 3; 0; 7; 0]%Z, [105; 0; 50; 1015; 10; 0; 3; 0; 7; 0]%Z.
  repeat split; try (cbn; lia); vm_compute; reflexivity.
Qed.

(* restatements with the demanded values written out (used by Properties/C07.v) *)
Lemma times_percent_formula_inl clk s1 s2 :
  length s1 = length s2 -> (7 <= length s1 <= 10)%nat ->
  (Zpos clk <= spec_total (dticks s1 s2))%Z ->
  Forall2 Qeq (calc_times_percent (map (secs clk) s1) (map (secs clk) s2))
              (map (fun x => Qmin (inject_Z (100 * x) / inject_Z (spec_total (dticks s1 s2))) 100) (dticks s1 s2)).
Proof.
  intros Hl Hn HT. pose proof (times_percent_formula clk s1 s2 Hl Hn HT) as H.
  unfold spec_shares, spec_share in H.
  destruct (spec_total (dticks s1 s2) =? 0)%Z eqn:E; [apply Z.eqb_eq in E; lia|exact H].
Qed.

Lemma demanded_shares s1 s2 :
  length s1 = length s2 -> (7 <= length s1 <= 10)%nat ->
  Forall (fun x => 0 <= x <= 100) (spec_shares s1 s2)
  /\ ((0 < spec_total (dticks s1 s2))%Z -> qsum (firstn 8 (spec_shares s1 s2)) == 100).
Proof. intros Hl Hn. split; [apply spec_shares_bounds|now apply spec_shares_sum]. Qed.

Lemma times_percent_zero_inl clk s1 s2 :
  Forall (fun x => x = 0%Z) (dticks s1 s2) ->
  Forall2 Qeq (calc_times_percent (map (secs clk) s1) (map (secs clk) s2)) (map (fun _ => 0) (dticks s1 s2)).
Proof.
  intros H. pose proof (times_percent_zero clk s1 s2 H) as G.
  unfold spec_shares in G.
  replace (spec_total (dticks s1 s2)) with 0%Z in G; [exact G|].
  unfold spec_total, spec_busy. now rewrite !tk_zero.
Qed.

(* the hypotheses of the round-trip and share theorems are satisfiable by non-trivial inputs *)
Example c07_hypotheses_nonvacuous :
  wf_kstat 10 {| ks_total := [bs "105"; bs "0"; bs "50"; bs "1015"; bs "10"; bs "0"; bs "3"; bs "0"; bs "7"; bs "0"];
                 ks_cpus := [(bs "0", [bs "105"; bs "0"; bs "50"; bs "1015"; bs "10"; bs "0"; bs "3"; bs "0"; bs "7"; bs "0"])];
                 ks_tail := [(Tintr, [bs "5"; bs "1"]); (Tctxt, [bs "7"])] |} = true
  /\ (Zpos 100 <= spec_total (dticks [100; 0; 50; 1000; 10; 0; 3; 0; 7; 0] [190; 0; 50; 1115; 10; 0; 3; 0; 9; 0]))%Z.
Proof. split; vm_compute; congruence. Qed.

(* comparing a sample with itself: nothing elapsed, 0.0 / all shares 0 *)
Lemma dticks_self s : Forall (fun x => x = 0%Z) (dticks s s).
Proof. induction s as [|a s IH]; cbn; constructor; [unfold clip; lia|exact IH]. Qed.
Lemma spec_total_self s : spec_total (dticks s s) = 0%Z.
Proof. unfold spec_total, spec_busy. now rewrite !(tk_zero _ _ (dticks_self s)). Qed.
Theorem spec_percent_self s : spec_percent s s = 0.
Proof. unfold spec_percent. now rewrite spec_total_self. Qed.
Theorem spec_shares_self s : Forall (fun q => q = 0) (spec_shares s s).
Proof.
  unfold spec_shares. rewrite spec_total_self. apply Forall_forall. intros q Hq.
  apply in_map_iff in Hq as (x & <- & _). reflexivity.
Qed.
