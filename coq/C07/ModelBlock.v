(* C07 -- Process.cpu_times() / Process.cpu_percent() inside and outside oneshot() blocks.
   Transcribed from
     psutil/_common.py   memoize_when_activated (cache dict bound to the object while a block is open)
     psutil/__init__.py  Process.oneshot (nested entry is a no-op; caches dropped when the outermost
                         block is left), Process.cpu_times (@memoize_when_activated front end),
                         Process.cpu_percent (calls self._proc.cpu_times() -- the platform method --
                         directly), Process.as_dict (a oneshot block around the attribute getters)
     psutil/_pslinux.py  Process._parse_stat_file (@memoize_when_activated: the parsed
                         /proc/<pid>/stat record), Process.cpu_times (float(values[..]) / CLOCK_TICKS
                         for utime, stime, children_utime, children_stime, blkio_ticks).
   Only the five fields of the stat record that cpu_times() reads are kept. *)
From PV Require Export C07.Model.

(* the parsed stat record: the five counters as the kernel printed them (ticks) *)
Record statrec := { sr_u : Z; sr_s : Z; sr_cu : Z; sr_cs : Z; sr_io : Z }.
Definition rec_of (r : preading) : statrec :=
  {| sr_u := r_u r; sr_s := r_s r; sr_cu := r_cu r; sr_cs := r_cs r; sr_io := r_io r |}.
(* _pslinux.Process.cpu_times() applied to a record: a pure reader *)
Definition times_of (clk : positive) (c : statrec) : ptimes :=
  {| pt_user := secs clk (sr_u c); pt_system := secs clk (sr_s c);
     pt_children_user := secs clk (sr_cu c); pt_children_system := secs clk (sr_cs c);
     pt_iowait := secs clk (sr_io c) |}.

Record pbstate := {
  pb_core : pstate;              (* _last_sys_cpu_times / _last_proc_cpu_times *)
  pb_depth : nat;                (* open oneshot() blocks; > 0 <-> the object has a _cache *)
  pb_stat : option statrec;      (* _proc._cache[_parse_stat_file] *)
  pb_fe : option ptimes }.       (* self._cache[cpu_times] (front end) *)
Definition pb_init : pbstate := {| pb_core := p_init; pb_depth := 0; pb_stat := None; pb_fe := None |}.
Definition set_core (st : pbstate) (c : pstate) : pbstate :=
  {| pb_core := c; pb_depth := pb_depth st; pb_stat := pb_stat st; pb_fe := pb_fe st |}.

(* _parse_stat_file(): outside a block read the file; inside, the cached record, read and
   cached at the first use.  [file] = what /proc/<pid>/stat shows now. *)
Definition plat_stat (st : pbstate) (file : statrec) : pbstate * statrec :=
  match pb_depth st with
  | O => (st, file)
  | S _ => match pb_stat st with
           | Some c => (st, c)
           | None => ({| pb_core := pb_core st; pb_depth := pb_depth st; pb_stat := Some file; pb_fe := pb_fe st |}, file)
           end
  end.
(* _pslinux.Process.cpu_times(): values = self._parse_stat_file(); five divisions; nothing stored *)
Definition plat_cpu_times (clk : positive) (st : pbstate) (file : statrec) : pbstate * ptimes :=
  let '(st', c) := plat_stat st file in (st', times_of clk c).
(* psutil.Process.cpu_times(): memoised front end *)
Definition fe_cpu_times (clk : positive) (st : pbstate) (file : statrec) : pbstate * ptimes :=
  match pb_depth st with
  | O => plat_cpu_times clk st file
  | S _ => match pb_fe st with
           | Some v => (st, v)
           | None => let '(st', v) := plat_cpu_times clk st file in
                     ({| pb_core := pb_core st'; pb_depth := pb_depth st'; pb_stat := pb_stat st'; pb_fe := Some v |}, v)
           end
  end.

(* Process.cpu_percent() *)
Definition pb_percent (clk : positive) (st : pbstate) (e : pevent) : pbstate * outcome Q :=
  match pe_iv e with
  | INeg => (st, Exc ValueError)
  | IPos =>
    let n := ncpu_eff (pe_ncpu e) in
    let '(s1, pt1) := plat_cpu_times clk st (rec_of (pe_r1 e)) in
    let '(s2, pt2) := plat_cpu_times clk s1 (rec_of (pe_r2 e)) in
    let '(core', res) := proc_finish (r_t (pe_r1 e)) pt1 (r_t (pe_r2 e)) pt2 n in
    (set_core s2 core', res)
  | INone | IZero =>
    let n := ncpu_eff (pe_ncpu e) in
    let st2 := r_t (pe_r1 e) in
    let '(s1, pt2) := plat_cpu_times clk st (rec_of (pe_r1 e)) in
    match p_sys (pb_core s1), p_proc (pb_core s1) with
    | Some st1, Some pt1 => let '(core', res) := proc_finish st1 pt1 st2 pt2 n in (set_core s1 core', res)
    | _, _ => (set_core s1 {| p_sys := Some st2; p_proc := Some pt2 |}, Val 0%Q)
    end
  end.

Inductive pbev :=
| BEnter                       (* with p.oneshot():  (also the entry of as_dict / process_iter(attrs)) *)
| BExit
| BTimes (file : statrec)      (* p.cpu_times() *)
| BPercent (e : pevent).       (* p.cpu_percent(interval) *)
Inductive pbres := BRTimes (t : ptimes) | BRPct (q : Q).

Definition pb_step (clk : positive) (st : pbstate) (ev : pbev) : pbstate * option (outcome pbres) :=
  match ev with
  | BEnter =>
    (match pb_depth st with
     | O => {| pb_core := pb_core st; pb_depth := 1; pb_stat := None; pb_fe := None |}      (* cache_activate: fresh dicts *)
     | S d => {| pb_core := pb_core st; pb_depth := S (S d); pb_stat := pb_stat st; pb_fe := pb_fe st |}   (* nested: no-op *)
     end, None)
  | BExit =>
    (match pb_depth st with
     | O => st
     | S O => {| pb_core := pb_core st; pb_depth := 0; pb_stat := None; pb_fe := None |}    (* cache_deactivate *)
     | S (S d) => {| pb_core := pb_core st; pb_depth := S d; pb_stat := pb_stat st; pb_fe := pb_fe st |}
     end, None)
  | BTimes file => let '(st', v) := fe_cpu_times clk st file in (st', Some (Val (BRTimes v)))
  | BPercent e => let '(st', r) := pb_percent clk st e in (st', Some (omap BRPct r))
  end.

Fixpoint pb_run (clk : positive) (st : pbstate) (l : list pbev) : list (outcome pbres) :=
  match l with
  | [] => []
  | ev :: r => let '(st', o) := pb_step clk st ev in
               match o with Some x => x :: pb_run clk st' r | None => pb_run clk st' r end
  end.

(* several Process objects *)
Fixpoint pbm_run (clk : positive) (m : amap pbstate) (l : list (Z * pbev)) : list (outcome pbres) :=
  match l with
  | [] => []
  | (o, ev) :: r =>
    let st := match lookup o m with Some s => s | None => pb_init end in
    let '(st', x) := pb_step clk st ev in
    match x with Some y => y :: pbm_run clk (update o st' m) r | None => pbm_run clk (update o st' m) r end
  end.

(* ------------------------------------------------------------ user subclasses of psutil.Process *)
(* A subclass may override public methods.  [ovr]: it overrides cpu_times() with a plain method
   (no cache_activate attribute); [ov]: what its cpu_times() makes of the library's figures (adds
   the children's time, returns a dict, ...).  In the code as it is:
     - cpu_percent() samples through self._proc.cpu_times() (platform layer): untouched;
     - oneshot() activates the caches through self.cpu_times.cache_activate(self), i.e. through
       the PUBLIC name: with an overriding subclass this raises AttributeError (and so do as_dict()
       and every block entry), nothing is activated;
     - the public cpu_times() answers ov(what the library's cpu_times() answers). *)
Definition pb_step_sub (ovr : bool) (ov : ptimes -> ptimes) (clk : positive) (st : pbstate) (ev : pbev)
  : pbstate * option (outcome pbres) :=
  match ev with
  | BEnter => if ovr && Nat.eqb (pb_depth st) 0 then (st, Some (Exc AttributeError)) else pb_step clk st ev
  | BTimes _ =>
    let '(st', o) := pb_step clk st ev in
    (st', match o with
          | Some (Val (BRTimes t)) => Some (Val (BRTimes (ov t)))
          | x => x
          end)
  | _ => pb_step clk st ev
  end.
Fixpoint pb_run_sub (ovr : bool) (ov : ptimes -> ptimes) (clk : positive) (st : pbstate) (l : list pbev) : list (outcome pbres) :=
  match l with
  | [] => []
  | ev :: r => let '(st', o) := pb_step_sub ovr ov clk st ev in
               match o with Some x => x :: pb_run_sub ovr ov clk st' r | None => pb_run_sub ovr ov clk st' r end
  end.
(* the cpu_percent() answers of a run *)
Fixpoint pcts (l : list (outcome pbres)) : list (outcome Q) :=
  match l with
  | [] => []
  | Val (BRPct q) :: r => Val q :: pcts r
  | Val (BRTimes _) :: r => pcts r
  | Exc e :: r => Exc e :: pcts r
  | OutOfModel :: r => OutOfModel :: pcts r
  end.
