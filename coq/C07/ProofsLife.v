(* C07 -- thread lifetimes: thread exits, ident reuse and Thread-object collection leave the
   baseline of a running thread untouched; the script theorem with threads named by identity. *)
From PV Require Import C07.SpecLife C07.ProofsParse C07.ProofsArith C07.ProofsState C07.ProofsScript.

(* ---------------------------------------------------------------- booleans vs In *)
Lemma mem_z_in x l : mem_z x l = true <-> In x l.
Proof.
  unfold mem_z. rewrite existsb_exists. split.
  - intros (y & Hy & E). apply Z.eqb_eq in E. now subst.
  - intros H. exists x. split; [exact H|apply Z.eqb_refl].
Qed.
Lemma has_ident_false i al : has_ident i al = false -> forall th i', In (th, i') al -> i' <> i.
Proof.
  intros H th i' Hin E. subst i'. assert (has_ident i al = true); [|congruence].
  unfold has_ident. apply existsb_exists. exists (th, i). split; [exact Hin|apply Z.eqb_refl].
Qed.
Lemma has_thread_false th al : has_thread th al = false -> forall th' i, In (th', i) al -> th' <> th.
Proof.
  intros H th' i Hin E. subst th'. assert (has_thread th al = true); [|congruence].
  unfold has_thread. apply existsb_exists. exists (th, i). split; [exact Hin|apply Z.eqb_refl].
Qed.
Lemma is_alive_in th i al : is_alive th i al = true -> In (th, i) al.
Proof.
  unfold is_alive. rewrite existsb_exists. intros ([a b] & Hin & E). cbn in E.
  apply andb_true_iff in E as [E1 E2]. apply Z.eqb_eq in E1, E2. now subst.
Qed.
Lemma remove_th_in a th al : In a (remove_th th al) -> In a al.
Proof. unfold remove_th. intros H. now apply filter_In in H as [H _]. Qed.

Lemma find_map {A B} (P : B -> bool) (g : A -> B) l : find P (map g l) = option_map g (find (fun x => P (g x)) l).
Proof. induction l as [|x l IH]; cbn; [reflexivity|]. destruct (P (g x)); [reflexivity|exact IH]. Qed.

(* ---------------------------------------------------------------- series membership *)
Definition sers (f : fn) (p : bool) (e : kevent) : bool :=
  fn_eqb (ke_fn e) f && Bool.eqb (ke_percpu e) p && negb (is_neg (ke_iv e)).
Lemma sel_split t f p h : sel t f p h = (ke_tid h =? t) && sers f p h.
Proof. unfold sel, sers. now rewrite !andb_assoc. Qed.
Lemma sers_relab f p x : sers f p (relab x) = sers f p (snd x).
Proof. reflexivity. Qed.
Lemma ke_last_relab x : ke_last (relab x) = ke_last (snd x).
Proof. reflexivity. Qed.

(* ---------------------------------------------------------------- the invariant of a lifetime history *)
Definition own_ident (H : list (Z * kevent)) (th i : Z) : Prop :=
  forall x, In x H -> fst x = th -> ke_tid (snd x) = i.
(* no call of th is older than a call made under the same ident by somebody else *)
Definition no_older_own (H : list (Z * kevent)) (th i : Z) : Prop :=
  forall l1 x l2, H = l1 ++ x :: l2 -> fst x <> th -> ke_tid (snd x) = i -> forall y, In y l2 -> fst y <> th.

Definition Linv (al : alive_t) (started : list Z) (H : list (Z * kevent)) : Prop :=
  (forall th i th' i', In (th, i) al -> In (th', i') al -> (i = i' -> th = th') /\ (th = th' -> i = i'))
  /\ (forall th i, In (th, i) al -> In th started)
  /\ (forall x, In x H -> In (fst x) started)
  /\ (forall th i, In (th, i) al -> own_ident H th i /\ no_older_own H th i).

Lemma al_wf_distinct al : al_wf al = true ->
  forall th i th' i', In (th, i) al -> In (th', i') al -> (i = i' -> th = th') /\ (th = th' -> i = i').
Proof.
  induction al as [|[a b] al IH]; intros W th i th' i' Hi1 Hi2; [contradiction|].
  cbn in W. apply andb_true_iff in W as [W W3]. apply andb_true_iff in W as [W1 W2].
  apply negb_true_iff in W1, W2. cbn in W1, W2.
  destruct Hi1 as [E1|Hi1]; destruct Hi2 as [E2|Hi2].
  - split; congruence.
  - injection E1 as <- <-. split; intros E; exfalso.
    + subst i'. now apply (has_ident_false _ _ W2 _ _ Hi2).
    + subst th'. now apply (has_thread_false _ _ W1 _ _ Hi2).
  - injection E2 as <- <-. split; intros E; exfalso.
    + subst i. now apply (has_ident_false _ _ W2 _ _ Hi1).
    + subst th. now apply (has_thread_false _ _ W1 _ _ Hi1).
  - now apply IH.
Qed.

Lemma linv_init al : al_wf al = true -> Linv al (map fst al) [].
Proof.
  intros W. split; [now apply al_wf_distinct|]. split; [|split].
  - intros th i Hin. apply in_map_iff. now exists (th, i).
  - intros x [].
  - intros th i Hin. split.
    + intros x [].
    + intros l1 x l2 E. destruct l1; discriminate.
Qed.

(* one event keeps the invariant *)
Lemma linv_step al started H x r :
  Linv al started H -> life_wf al started (x :: r) = true ->
  match life_run al started H [x] with (al', st', H') => Linv al' st' H' /\ life_wf al' st' r = true end.
Proof.
  intros (Ia & Ib & Ic & Id) W. destruct x as [th i|th|th|th e]; cbn [life_run life_wf] in *.
  - (* start *)
    apply andb_true_iff in W as [W W3]. apply andb_true_iff in W as [W1 W2].
    apply negb_true_iff in W1, W2.
    assert (Nst : ~ In th started) by (intros C; apply mem_z_in in C; congruence).
    split; [|exact W3]. split; [|split; [|split]].
    + intros t1 i1 t2 i2 H1 H2. destruct H1 as [E1|H1]; destruct H2 as [E2|H2].
      * split; congruence.
      * injection E1 as <- <-. split; intros E; exfalso.
        -- subst i2. now apply (has_ident_false _ _ W2 _ _ H2).
        -- subst t2. apply Nst. eapply Ib; eassumption.
      * injection E2 as <- <-. split; intros E; exfalso.
        -- subst i1. now apply (has_ident_false _ _ W2 _ _ H1).
        -- subst t1. apply Nst. eapply Ib; eassumption.
      * now apply Ia.
    + intros t1 i1 [E|Hin]; [injection E as <- <-; now left|right; eapply Ib; eassumption].
    + intros y Hy. right. now apply Ic.
    + intros t1 i1 [E|Hin]; [|now apply Id].
      injection E as <- <-. split.
      * intros y Hy Ey. exfalso. apply Nst. rewrite <- Ey. now apply Ic.
      * intros l1 y l2 EH _ _ z Hz Ez. apply Nst. rewrite <- Ez. apply Ic.
        rewrite EH. apply in_or_app. right. now right.
  - (* exit *)
    split; [|exact W]. split; [|split; [|split]].
    + intros t1 i1 t2 i2 H1 H2. apply remove_th_in in H1, H2. now apply Ia.
    + intros t1 i1 Hin. apply remove_th_in in Hin. eapply Ib; eassumption.
    + exact Ic.
    + intros t1 i1 Hin. apply remove_th_in in Hin. now apply Id.
  - (* Thread object collected *)
    split; [|exact W]. split; [exact Ia|]. split; [exact Ib|]. split; [exact Ic|exact Id].
  - (* call *)
    apply andb_true_iff in W as [W1 W2]. apply is_alive_in in W1.
    split; [|exact W2]. split; [exact Ia|]. split; [exact Ib|]. split.
    + intros y [<-|Hy]; [cbn; eapply Ib; eassumption|now apply Ic].
    + intros t1 i1 Hin. destruct (Id _ _ Hin) as [Ho Hn]. split.
      * intros y [<-|Hy] Ey; cbn in *.
        -- subst t1. now apply (proj2 (Ia _ _ _ _ W1 Hin)).
        -- now apply Ho.
      * intros l1 y l2 EH Ny Ey z Hz. destruct l1 as [|a l1]; cbn in EH; injection EH as E1 E2.
        -- subst y l2. cbn in Ny, Ey. exfalso. apply Ny. now apply (proj1 (Ia _ _ _ _ W1 Hin)).
        -- subst a. exact (Hn l1 y l2 E2 Ny Ey z Hz).
Qed.

Lemma linv_run pre : forall al started H post,
  Linv al started H -> life_wf al started (pre ++ post) = true ->
  match life_run al started H pre with (al', st', H') => Linv al' st' H' /\ life_wf al' st' post = true end.
Proof.
  induction pre as [|x pre IH]; intros al started H post I W; [cbn; auto|].
  cbn [app] in W. pose proof (linv_step al started H x (pre ++ post) I W) as S.
  destruct x as [th i|th|th|th e]; cbn [life_run] in *; destruct S as [I' W']; now apply IH.
Qed.

(* ---------------------------------------------------------------- THE LOOKUP INVARIANT *)
(* a running thread that has a sample of its own: the lookup by ident finds exactly that sample *)
Lemma find_same H th i f p :
  own_ident H th i -> no_older_own H th i ->
  forall h, find_th th f p H = Some h -> find_id i f p H = Some h.
Proof.
  unfold find_th, find_id. induction H as [|x H IH]; intros Ho Hn h Hf; [discriminate|].
  cbn [find] in *. rewrite sel_split in *. rewrite sers_relab in Hf. cbn [relab ke_tid] in Hf.
  assert (Ho' : own_ident H th i) by (intros y Hy; apply Ho; now right).
  assert (Hn' : no_older_own H th i).
  { intros l1 y l2 E. apply (Hn (x :: l1) y l2). cbn. now rewrite E. }
  destruct (fst x =? th) eqn:Et.
  - apply Z.eqb_eq in Et. rewrite (Ho x (or_introl eq_refl) Et), Z.eqb_refl.
    cbn [andb] in *. destruct (sers f p (snd x)); [exact Hf|now apply IH].
  - cbn [andb] in Hf. apply Z.eqb_neq in Et.
    destruct (ke_tid (snd x) =? i) eqn:Ei.
    + exfalso. apply Z.eqb_eq in Ei. apply find_some in Hf as [Hin Hs].
      rewrite sel_split in Hs. cbn [relab ke_tid] in Hs. apply andb_true_iff in Hs as [Hs _]. apply Z.eqb_eq in Hs.
      exact (Hn [] x H eq_refl Et Ei h Hin Hs).
    + cbn [andb]. now apply IH.
Qed.

(* Whatever happened before -- threads started and exited, idents were handed on, Thread
   objects were collected -- a live thread with a sample of its own in a series is looked up,
   by ident, to exactly that sample. *)
Theorem own_baseline_kept al0 pre th e post f p h :
  al_wf al0 = true -> life_wf al0 (map fst al0) (pre ++ LCall th e :: post) = true ->
  find_th th f p (snd (life_run al0 (map fst al0) [] pre)) = Some h ->
  find_id (ke_tid e) f p (snd (life_run al0 (map fst al0) [] pre)) = Some h.
Proof.
  intros W L. pose proof (linv_run pre al0 (map fst al0) [] (LCall th e :: post) (linv_init al0 W) L) as S.
  destruct (life_run al0 (map fst al0) [] pre) as [[al st] H]. cbn [snd]. destruct S as [(Ia & Ib & Ic & Id) W'].
  cbn [life_wf] in W'. apply andb_true_iff in W' as [A _]. apply is_alive_in in A.
  destruct (Id _ _ A) as [Ho Hn]. now apply find_same.
Qed.

(* ---------------------------------------------------------------- spec by thread = spec by ident *)
Lemma prev_agree m al started H th e :
  Linv al started H -> In (th, ke_tid e) al -> fresh_call_ok m H th e = true ->
  fn_eqb (ke_fn e) FTimes || is_neg (ke_iv e) || is_pos (ke_iv e) = false ->
  prev_sample (imp_id m) (map snd H) (ke_tid e) (ke_fn e) (ke_percpu e)
  = prev_sample (imp_th m) (map relab H) th (ke_fn e) (ke_percpu e).
Proof.
  intros (_ & _ & _ & Id) A F G. unfold fresh_call_ok in F. rewrite G in F.
  unfold prev_sample. rewrite !find_map. fold (find_id (ke_tid e) (ke_fn e) (ke_percpu e) H).
  fold (find_th th (ke_fn e) (ke_percpu e) H).
  destruct (find_th th (ke_fn e) (ke_percpu e) H) as [h|] eqn:Et.
  - destruct (Id _ _ A) as [Ho Hn]. rewrite (find_same H th _ _ _ Ho Hn h Et). reflexivity.
  - apply andb_true_iff in F as [F1 F2].
    destruct (find_id (ke_tid e) (ke_fn e) (ke_percpu e) H); [discriminate|]. cbn [option_map].
    destruct m as [[[im tm] k]|]; cbn [imp_id imp_th]; [|reflexivity].
    apply Bool.eqb_prop in F2. now rewrite F2.
Qed.

Lemma spec_result_relab clk m H th e :
  (fn_eqb (ke_fn e) FTimes || is_neg (ke_iv e) || is_pos (ke_iv e) = false ->
   prev_sample (imp_id m) (map snd H) (ke_tid e) (ke_fn e) (ke_percpu e)
   = prev_sample (imp_th m) (map relab H) th (ke_fn e) (ke_percpu e)) ->
  spec_result clk (imp_id m) (map snd H) e = spec_result clk (imp_th m) (map relab H) (relab (th, e)).
Proof.
  intros P. unfold spec_result, spec_prev. cbn [relab fst snd ke_tid ke_fn ke_percpu ke_iv ke_k1 ke_k2].
  destruct (ke_fn e) eqn:Ef; [reflexivity| |];
    (destruct (ke_iv e) eqn:Ei; try reflexivity; cbn in P; now rewrite (P eq_refl)).
Qed.

Lemma spec_life_eq clk m levs : forall al started H,
  Linv al started H -> life_wf al started levs = true -> fresh_ok m H levs = true ->
  spec_run clk (imp_id m) (map snd H) (map snd (calls levs))
  = spec_run clk (imp_th m) (map relab H) (map relab (calls levs)).
Proof.
  induction levs as [|x levs IH]; intros al started H I W F; [reflexivity|].
  pose proof (linv_step al started H x levs I W) as S.
  destruct x as [th i|th|th|th e]; cbn [life_run calls fresh_ok] in *; destruct S as [I' W'].
  - now apply (IH _ _ _ I' W').
  - now apply (IH _ _ _ I' W').
  - now apply (IH _ _ _ I' W').
  - apply andb_true_iff in F as [F1 F2]. cbn [life_wf] in W. apply andb_true_iff in W as [A _]. apply is_alive_in in A.
    cbn [map spec_run]. f_equal.
    + apply spec_result_relab. intros G. now apply (prev_agree m al started H th e I A F1 G).
    + exact (IH _ _ _ I' W' F2).
Qed.

Lemma run_l_calls clk levs : forall st,
  run_l clk st (map lev_event levs) = run clk st (map to_event (map relab (calls levs))).
Proof.
  induction levs as [|x levs IH]; intros st; [reflexivity|].
  destruct x as [th i|th|th|th e]; cbn [map lev_event run_l calls run]; try apply IH.
  destruct (step clk st (to_event (relab (th, e)))) as [st' o]. now rewrite IH.
Qed.
Lemma run_l_calls_ident clk levs : forall st,
  run_l clk st (map lev_event_ident levs) = run clk st (map to_event (map snd (calls levs))).
Proof.
  induction levs as [|x levs IH]; intros st; [reflexivity|].
  destruct x as [th i|th|th|th e]; cbn [map lev_event_ident run_l calls snd run]; try apply IH.
  destruct (step clk st (to_event e)) as [st' o]. now rewrite IH.
Qed.

(* THE SCRIPT THEOREM WITH THREAD LIFETIMES (code as of d2712e2: samples in thread-local storage).
   No hypothesis on lifetimes or idents at all: whatever threads start, exit, are handed whose
   ident, and whenever their Thread objects are collected. *)
Theorem life_script clk nf ids m levs :
  imp_wf nf ids (imp_th m) = true -> script_ok clk nf ids (imp_th m) [] (map relab (calls levs)) = true ->
  Forall2 (out_eq sres_eq)
          (run_l clk (sys_start clk (option_map (fun x => (fst x, k_stat (snd x))) (imp_th m))) (map lev_event levs))
          (spec_run clk (imp_th m) [] (map relab (calls levs))).
Proof. intros I S. rewrite run_l_calls. exact (run_spec clk nf ids (imp_th m) _ I S). Qed.

(* LEGACY (dicts keyed by ident, before d2712e2): the same conclusion needed the OS rules and the
   exclusion of the inheriting first calls *)
Theorem legacy_life_script clk nf ids m al0 levs :
  al_wf al0 = true -> life_wf al0 (map fst al0) levs = true -> fresh_ok m [] levs = true ->
  imp_wf nf ids (imp_id m) = true -> script_ok clk nf ids (imp_id m) [] (map snd (calls levs)) = true ->
  Forall2 (out_eq sres_eq)
          (run_l clk (sys_start clk (option_map (fun x => (fst x, k_stat (snd x))) (imp_id m))) (map lev_event_ident levs))
          (spec_run clk (imp_th m) [] (map relab (calls levs))).
Proof.
  intros W L F I S. rewrite run_l_calls_ident.
  pose proof (spec_life_eq clk m levs al0 (map fst al0) [] (linv_init al0 W) L F) as E.
  cbn [map] in E. rewrite <- E. exact (run_spec clk nf ids (imp_id m) _ I S).
Qed.

(* lifetime events are nothing to the code: the state after them is the state before *)
Theorem life_events_noop clk st x levs :
  lev_event x = None -> run_l clk st (map lev_event (x :: levs)) = run_l clk st (map lev_event levs).
Proof. intros H. cbn [map run_l]. now rewrite H. Qed.

(* the defect repaired by d2712e2: thread 1 samples and exits, thread 2 is given its ident.
   Keyed by ident (legacy), thread 2's first non-blocking cpu_percent() was measured against
   thread 1's sample (100/3); keyed by thread (as is) it gets the demanded 0. *)
Theorem ident_reuse_refuted :
  exists clk nf ids m al0 levs,
    al_wf al0 = true /\ life_wf al0 (map fst al0) levs = true
    /\ imp_wf nf ids (imp_id m) = true /\ script_ok clk nf ids (imp_id m) [] (map snd (calls levs)) = true
    /\ fresh_ok m [] levs = false
    /\ (exists q, nth_error (run_l clk (sys_start clk (option_map (fun x => (fst x, k_stat (snd x))) (imp_id m))) (map lev_event_ident levs)) 1
                  = Some (Val (RNum q)) /\ ~ (q == 0)%Q)
    /\ nth_error (spec_run clk (imp_th m) [] (map relab (calls levs))) 1 = Some (Val (RNum 0))
    /\ nth_error (run_l clk (sys_start clk (option_map (fun x => (fst x, k_stat (snd x))) (imp_th m))) (map lev_event levs)) 1
       = Some (Val (RNum 0)).
Proof.
  set (mk := fun u i => {| ks_total := [u; bs "0"; bs "50"; i; bs "10"; bs "0"; bs "3"; bs "0"; bs "7"; bs "0"];
                           ks_cpus := [(bs "0", [u; bs "0"; bs "50"; i; bs "10"; bs "0"; bs "3"; bs "0"; bs "7"; bs "0"])];
                           ks_tail := [] |}).
  set (ev := fun t k => {| ke_tid := t; ke_fn := FPercent; ke_percpu := false; ke_iv := INone; ke_k1 := k; ke_k2 := k |}).
  exists 100%positive, 10%nat, [bs "0"], (Some (100, 0, mk (bs "100") (bs "1000"))), [(0, 100)],
    [LStart 1 200; LCall 1 (ev 200 (mk (bs "200") (bs "1100"))); LExit 1;
     LStart 2 200; LCall 2 (ev 200 (mk (bs "300") (bs "1300")))].
  split; [vm_compute; reflexivity|]. split; [vm_compute; reflexivity|]. split; [vm_compute; reflexivity|].
  split; [vm_compute; reflexivity|]. split; [vm_compute; reflexivity|].
  split; [|split; vm_compute; reflexivity].
  eexists. split; [vm_compute; reflexivity|]. unfold Qeq. cbn. lia.
Qed.

(* the hypotheses of life_script hold for the history of the report: thread 1 samples
   (cpu_percent) and exits while its Thread object is kept; thread 2 is given its ident and calls
   cpu_percent -- its first call, in the very series thread 1 used -- and cpu_times_percent;
   thread 1's Thread object is collected between two non-blocking calls of thread 2 *)
Example life_script_nonvacuous :
  let mk u i := {| ks_total := [u; bs "0"; bs "50"; i; bs "10"; bs "0"; bs "3"; bs "0"; bs "7"; bs "0"];
                   ks_cpus := [(bs "0", [u; bs "0"; bs "50"; i; bs "10"; bs "0"; bs "3"; bs "0"; bs "7"; bs "0"])];
                   ks_tail := [] |} in
  let k0 := mk (bs "100") (bs "1000") in let k1 := mk (bs "200") (bs "1100") in let k2 := mk (bs "300") (bs "1300") in
  let k3 := mk (bs "600") (bs "1400") in let k4 := mk (bs "600") (bs "1800") in
  let ev t f i a b := {| ke_tid := t; ke_fn := f; ke_percpu := false; ke_iv := i; ke_k1 := a; ke_k2 := b |} in
  let m := Some (100, 0, k0) in
  let levs := [LStart 1 200; LCall 1 (ev 200 FPercent INone k1 k1); LExit 1;
               LStart 2 200; LCall 2 (ev 200 FPercent INone k2 k2); LCall 2 (ev 200 FTimesPercent INone k2 k2);
               LCollect 1; LCall 2 (ev 200 FPercent INone k3 k3); LCall 2 (ev 200 FTimesPercent IZero k4 k4)] in
  imp_wf 10 [bs "0"] (imp_th m) = true /\ script_ok 100 10 [bs "0"] (imp_th m) [] (map relab (calls levs)) = true.
Proof. cbv zeta. split; vm_compute; reflexivity. Qed.
