(* Entry points evaluated by the correspondence harness (props/C10.py). *)
From PV Require Export C10.Spec.

Definition jv_tuple (t : tuple) : jv := JL (map JZ t).
Definition jv_dict (d : dict) : jv := JL (map (fun kt => JL [JB (fst kt); jv_tuple (snd kt)]) d).
Definition jv_wobs (o : wobs) : jv :=
  match o with ODict d => JC "Dict" [jv_dict d] | ODone => JC "Done" [] end.
Definition jv_pobs (o : pobs) : jv :=
  match o with
  | PDict d => JC "Dict" [jv_dict d]
  | PTotal t => JC "Total" [jv_tuple t]
  | PNone => jnone
  | PDone => JC "Done" []
  end.

(* cache_info(): the three maps cache, reminders, reminder_keys *)
Definition jv_rems (r : rems) : jv :=
  JL (map (fun xv => JL [JB (fst (fst xv)); JZ (Z.of_nat (snd (fst xv))); JZ (snd xv)]) r).
Definition jv_rks (rk : rks) : jv :=
  JL (map (fun kl => JL [JB (fst kl); JL (map (fun i => JZ (Z.of_nat i)) (snd kl))]) rk).
Definition jv_named {A} (j : A -> jv) (m : list (bytes * A)) : jv := JL (map (fun x => JL [JB (fst x); j (snd x)]) m).
Definition jv_state (s : state) : jv :=
  JL [ jv_named jv_dict (fst (fst (cache_info s))); jv_named jv_rems (snd (fst (cache_info s)));
       jv_named jv_rks (snd (cache_info s)) ].

(* direct API: [model trace; total spec trace (sequences with unique keys, any widths); final cache_info] *)
Definition run_wn (ops : list wop) : jv :=
  JL [ JL (map (jv_outcome jv_wobs) (wtrace [] ops));
       (if forallb keys_ok ops
        then JL (map (jv_outcome jv_wobs) (spec_wtrace_total [] ops)) else jnone);
       jv_outcome jv_state (wexec [] ops) ].

(* public functions: [model trace; spec trace] *)
Definition run_pub (legacy : bool) (ops : list pop) : jv :=
  JL [ JL (map (jv_outcome jv_pobs) (ptrace legacy [] ops));
       (if forallb pop_ok ops
        then JL (map (fun o => jv_outcome jv_pobs (Val o)) (spec_ptrace [] ops)) else jnone) ].

(* thread schedule: [model answers; answers of the sequential specification on the linearisation;
   read-time demanded answers; lock_ok]   (the two specifications only for well-formed schedules) *)
Definition jv_tagged (a : nat * pobs) : jv := JL [JZ (Z.of_nat (fst a)); jv_pobs (snd a)].
Definition run_sched (sched : list cstep) : jv :=
  let L := lin idle sched in
  JL [ JL (map (jv_outcome jv_tagged) (ctrace [] idle sched));
       (if sched_ok idle sched
        then JL (map (fun a => jv_outcome jv_tagged (Val a)) (combine (map fst L) (spec_ptrace [] (map snd L)))) else jnone);
       (if sched_ok idle sched
        then JL (map (fun a => jv_outcome jv_tagged (Val a)) (spec_ctrace [] idle sched)) else jnone);
       jbool (lock_ok None sched) ].

(* exception injected inside run(): for every abort point of [call] after [pre]: the state left behind
   (as cache_info shows it) and the model's answers to the follow-up calls from that state;
   then the demanded answers of pre ++ post (call not counted) and of pre ++ [call] ++ post *)
Definition run_abort (pre : list wop) (f : bytes) (d : dict) (post : list wop) : jv :=
  match wexec [] pre with
  | Val s =>
    JL [ JL (map (fun p => JL [jv_state p; JL (map (jv_outcome jv_wobs) (wtrace p post))]) (run_points s f d));
         JL (map (jv_outcome jv_wobs) (spec_wtrace_total [] (pre ++ post)));
         JL (map (jv_outcome jv_wobs) (spec_wtrace_total [] (pre ++ WRun f d :: post))) ]
  | _ => jnone
  end.

(* a history with one fork: [parent model answers; child model answers; parent demanded; child demanded] *)
Definition run_fork (pre child parent : list pop) : jv :=
  let ops := map FCall pre ++ FFork child :: map FCall parent in
  let m := ftrace [] ops in
  let ok := forallb fop_ok ops in
  JL [ JL (map (jv_outcome jv_pobs) (fst m));
       JL (map (jv_outcome jv_pobs) (hd [] (snd m)));
       (if ok then JL (map (fun o => jv_outcome jv_pobs (Val o)) (fst (spec_ftrace [] ops))) else jnone);
       (if ok then JL (map (fun o => jv_outcome jv_pobs (Val o)) (hd [] (snd (spec_ftrace [] ops)))) else jnone) ].
