(* Entry points evaluated by the correspondence harness (props/C10.py). *)
From PV Require Export C10.Spec.

Definition jv_tuple (t : tuple) : jv := JL (map JZ t).
Definition jv_dict (d : dict) : jv := JL (map (fun kt => JL [JB (fst kt); jv_tuple (snd kt)]) d).
Definition jv_wobs (o : wobs) : jv :=
  match o with ODict d => JC "Dict" [jv_dict d] | ODone => JC "Done" [] end.
Definition jv_pobs (o : pobs) : jv :=
  match o with
  | PDict d => JC "Dict" [jv_dict d]
  | PTotal t => JC "Total" [jv_tuple t]
  | PNone => jnone
  | PDone => JC "Done" []
  end.

(* cache_info(): (cache, reminders, reminder_keys) per name *)
Definition jv_wst (fw : bytes * wst) : jv :=
  JL [ JB (fst fw); jv_dict (w_cache (snd fw));
       JL (map (fun xv => JL [JB (fst (fst xv)); JZ (Z.of_nat (snd (fst xv))); JZ (snd xv)]) (w_rem (snd fw)));
       JL (map (fun kl => JL [JB (fst kl); JL (map (fun i => JZ (Z.of_nat i)) (snd kl))]) (w_rk (snd fw))) ].
Definition jv_state (s : state) : jv := JL (map jv_wst s).

Definition widths (ws : list (bytes * nat)) (f : bytes) : nat :=
  match lookup f ws with Some w => w | None => 0%nat end.

(* direct API: [model trace; spec trace (well-formed sequences only); final cache_info] *)
Definition run_wn (ws : list (bytes * nat)) (ops : list wop) : jv :=
  JL [ JL (map (jv_outcome jv_wobs) (wtrace [] ops));
       (if forallb (wop_ok (widths ws)) ops
        then JL (map (fun o => jv_outcome jv_wobs (Val o)) (spec_wtrace [] ops)) else jnone);
       jv_outcome jv_state (wexec [] ops) ].

(* public functions: [model trace; spec trace] *)
Definition run_pub (legacy : bool) (ops : list pop) : jv :=
  JL [ JL (map (jv_outcome jv_pobs) (ptrace legacy [] ops));
       (if forallb pop_ok ops
        then JL (map (fun o => jv_outcome jv_pobs (Val o)) (spec_ptrace [] ops)) else jnone) ].

(* two-thread schedule: [model answers; demanded answers (kernel order) or none; lock_ok] *)
Definition jv_tagged (a : bool * pobs) : jv := JL [jbool (fst a); jv_pobs (snd a)].
Definition run_race (sched : list cstep) : jv :=
  JL [ JL (map (jv_outcome jv_tagged) (ctrace [] (None, None) sched));
       (if sched_ok (None, None) sched
        then JL (map (fun a => jv_outcome jv_tagged (Val a)) (spec_ctrace [] (None, None) sched)) else jnone);
       jbool (lock_ok (None, None) sched) ].
