(* C10 -- tuple widths changing under one name: a total characterisation of the answers of
   every call sequence with unique keys (no width hypothesis): shorter-or-equal tuples are
   answered as demanded, the first longer one raises IndexError. *)
From PV Require Import C10.Spec C10.Proofs.
Require Import Lia.

Lemma fields_exc : forall inp old k i r rk, (length old < length inp)%nat ->
  fields k i inp old r rk = Exc IndexError.
Proof.
  induction inp as [|v inp IH]; intros [|o old] k i r rk H; cbn [length] in H; try lia; cbn [fields]; [reflexivity|].
  rewrite IH by lia. reflexivity.
Qed.

Lemma fields_ok_le : forall inp old k i r rk,
  (length inp <= length old)%nat -> RI r rk ->
  exists r' rk',
    fields k i inp old r rk = Val (out_fields (fun j => rem_get r (k, j)) i inp old, (r', rk')) /\
    RI r' rk' /\
    (forall k' j, rem_get r' (k', j) = rem_get r (k', j) + (if beqb k k' then bump_at j i inp old else 0)).
Proof.
  induction inp as [|v inp IH]; intros old k i r rk HL HRI.
  - exists r, rk. destruct old; (split; [reflexivity|]; split; [exact HRI|]; intros; cbn [bump_at]; destruct (beqb k k'); lia).
  - destruct old as [|o old]; cbn [length] in HL; [lia|]. cbn [fields].
    set (r1 := if v <? o then rem_add r (k, i) o else r).
    set (rk1 := if v <? o then rk_add rk k i else rk).
    set (r2 := rem_touch r1 (k, i)).
    assert (HRI2 : RI r2 rk1).
    { apply RI_touch. unfold r1, rk1. destruct (v <? o); [apply RI_add; exact HRI | exact HRI]. }
    assert (Hg2 : forall y, rem_get r2 y = rem_get r y + (if rkeqb (k, i) y then bump v o else 0)).
    { intros y. unfold r2. rewrite rem_get_touch. unfold r1, bump. destruct (v <? o).
      - rewrite rem_get_add. destruct (rkeqb (k, i) y); lia.
      - destruct (rkeqb (k, i) y); lia. }
    destruct (IH old k (S i) r2 rk1) as [r' [rk' [E [HRI' Hg']]]]; [lia | exact HRI2 |].
    rewrite E. cbn [obind fst snd].
    exists r', rk'. split; [|split; [exact HRI'|]].
    + cbn [out_fields]. rewrite Hg2, rkeqb_refl.
      rewrite (out_fields_ext (fun j => rem_get r2 (k, j)) (fun j => rem_get r (k, j))); [reflexivity|].
      intros j Hj. rewrite Hg2.
      destruct (rkeqb (k, i) (k, j)) eqn:E2; [|lia].
      apply rkeqb_eq in E2. inversion E2. lia.
    + intros k' j. rewrite Hg', Hg2. cbn [bump_at]. unfold rkeqb; cbn [fst snd].
      destruct (beqb k k') eqn:E2; cbn [andb]; [|lia].
      rewrite (Nat.eqb_sym i j). destruct (Nat.eqb_spec j i); [|lia].
      subst j. rewrite bump_at_lt; lia.
Qed.

Lemma mapi_from_ext_in {A B} (f g : nat -> A -> B) : forall l i,
  (forall j x, (i <= j < i + length l)%nat -> f j x = g j x) -> mapi_from i f l = mapi_from i g l.
Proof.
  induction l as [|x l IH]; intros i H; cbn [mapi_from]; [reflexivity|]. cbn [length] in H.
  rewrite (H i x) by lia. f_equal. apply IH. intros j y Hj. apply H. lia.
Qed.

Lemma out_fields_as_mapi_le : forall inp old g i, (length inp <= length old)%nat ->
  out_fields g i inp old = mapi_from i (fun j v => v + (g j + bump v (nth (j - i) old 0))) inp.
Proof.
  induction inp as [|v inp IH]; intros [|o old] g i HL; cbn [length] in HL; try lia; cbn [out_fields mapi_from]; try reflexivity.
  rewrite Nat.sub_diag. cbn [nth]. f_equal. rewrite IH by lia.
  apply mapi_from_ext. intros j x Hj. replace (j - i)%nat with (S (j - S i)) by lia. reflexivity.
Qed.

Lemma bump_at_nth_le : forall inp old j i, (length inp <= length old)%nat -> (i <= j < i + length inp)%nat ->
  bump_at j i inp old = bump (nth (j - i) inp 0) (nth (j - i) old 0).
Proof.
  induction inp as [|v inp IH]; intros [|o old] j i HL Hj; cbn [length] in HL, Hj; try lia; cbn [bump_at].
  destruct (Nat.eqb_spec j i) as [->|Hne].
  - rewrite Nat.sub_diag. reflexivity.
  - rewrite IH by lia. replace (j - i)%nat with (S (j - S i)) by lia. reflexivity.
Qed.

Definition fits (old inp : dict) : Prop :=
  forall kt ot, In kt inp -> lookup (fst kt) old = Some ot -> (length (snd kt) <= length ot)%nat.

Lemma grows_false_fits old inp : grows old inp = false -> fits old inp.
Proof.
  unfold grows, fits. intros H kt ot Hin E.
  destruct (Nat.ltb_spec (length ot) (length (snd kt))) as [Hlt|]; [|assumption].
  exfalso. assert (existsb (fun kt0 => match lookup (fst kt0) old with
    | Some ot0 => (length ot0 <? length (snd kt0))%nat | None => false end) inp = true).
  { apply existsb_exists. exists kt. split; [exact Hin|]. rewrite E. apply Nat.ltb_lt. exact Hlt. }
  congruence.
Qed.

Lemma keys_loop_ok_le : forall inp old r rk,
  nodupb (keys inp) = true -> fits old inp -> RI r rk ->
  exists r' rk',
    keys_loop inp old r rk = Val (map (fun kt => (fst kt, out_key old r kt)) inp, (r', rk')) /\
    RI r' rk' /\
    (forall k j, rem_get r' (k, j) = rem_get r (k, j) + delta old inp k j).
Proof.
  induction inp as [|[k0 t0] rest IH]; intros old r rk ND HF HRI.
  - exists r, rk. split; [reflexivity|]. split; [exact HRI|]. intros. unfold delta. cbn [lookup]. lia.
  - cbn [keys map fst nodupb] in ND. apply andb_true_iff in ND as [ND0 ND]. apply negb_true_iff in ND0.
    fold (keys rest) in ND0, ND.
    assert (Hrest : lookup k0 rest = None) by (apply lookup_none_memk; exact ND0).
    assert (HF' : fits old rest) by (intros kt ot Hin; apply HF; right; exact Hin).
    cbn [keys_loop fst snd]. destruct (lookup k0 old) as [ot|] eqn:Eo.
    + destruct (fields_ok_le t0 ot k0 0%nat r rk) as [r1 [rk1 [E1 [HRI1 Hg1]]]].
      { apply (HF (k0, t0) ot (or_introl eq_refl) Eo). }
      { exact HRI. }
      rewrite E1. cbn [obind fst snd].
      destruct (IH old r1 rk1 ND HF' HRI1) as [r' [rk' [E [HRI' Hg']]]].
      rewrite E. cbn [obind fst snd]. exists r', rk'. split; [|split; [exact HRI'|]].
      * cbn [map fst snd]. erewrite out_key_some by exact Eo. do 3 f_equal.
        apply map_ext_in. intros kt Hin. apply (f_equal (pair (fst kt))). unfold out_key.
        match goal with |- context [match ?x with _ => _ end] => destruct x end; [|reflexivity].
        apply out_fields_ext. intros j _. rewrite Hg1.
        rewrite (memk_false_in k0 (keys rest) (fst kt) ND0 (in_map fst _ _ Hin)). lia.
      * intros k j. rewrite Hg', Hg1. unfold delta. cbn [lookup fst snd]. rewrite (beqb_sym k k0).
        destruct (beqb k0 k) eqn:E2.
        -- apply beqb_eq in E2. subst k. rewrite Hrest, Eo. lia.
        -- lia.
    + destruct (IH old r rk ND HF' HRI) as [r' [rk' [E [HRI' Hg']]]].
      rewrite E. cbn [obind fst snd]. exists r', rk'. split; [|split; [exact HRI'|]].
      * cbn [map fst snd]. erewrite out_key_none by exact Eo. reflexivity.
      * intros k j. rewrite Hg'. unfold delta. cbn [lookup fst snd]. rewrite (beqb_sym k k0).
        destruct (beqb k0 k) eqn:E2; [|reflexivity].
        apply beqb_eq in E2. subst k. rewrite Hrest, Eo. reflexivity.
Qed.

Lemma keys_loop_exc : forall inp old r rk,
  grows old inp = true -> RI r rk -> keys_loop inp old r rk = Exc IndexError.
Proof.
  induction inp as [|[k0 t0] rest IH]; intros old r rk HG HRI; [discriminate|].
  unfold grows in HG. cbn [existsb fst snd] in HG. cbn [keys_loop fst snd].
  destruct (lookup k0 old) as [ot|] eqn:Eo.
  - destruct (Nat.ltb_spec (length ot) (length t0)) as [Hlt|Hge].
    + rewrite fields_exc by exact Hlt. reflexivity.
    + cbn [orb] in HG. destruct (fields_ok_le t0 ot k0 0%nat r rk Hge HRI) as [r1 [rk1 [E1 [HRI1 _]]]].
      rewrite E1. cbn [obind fst snd]. rewrite (IH old r1 rk1 HG HRI1). reflexivity.
  - cbn [orb] in HG. rewrite (IH old r rk HG HRI). reflexivity.
Qed.

(* refinement invariant without any width hypothesis *)
Definition Inv2 (s : state) (g : ghost) : Prop :=
  forall f,
    match lookup f s with
    | None => gget g f = []
    | Some w => exists h', gget g f = w_cache w :: h' /\ RI (w_rem w) (w_rk w) /\
        (forall k t, lookup k (w_cache w) = Some t -> forall j, (j < length t)%nat ->
                     rem_get (w_rem w) (k, j) = acc k j (gget g f)) /\
        (forall k, lookup k (w_cache w) = None -> forall j, rem_get (w_rem w) (k, j) = 0)
    end.

Lemma Inv2_init : Inv2 [] [].
Proof. intros f. reflexivity. Qed.
Lemma Inv2_clear s g f : Inv2 s g -> Inv2 (dremove f s) (dremove f g).
Proof.
  intros H f'. rewrite gget_dremove, lookup_dremove. destruct (beqb f f'); [reflexivity | apply H].
Qed.

Lemma run_refines2 s g f d : Inv2 s g -> nodupb (keys d) = true ->
  if raises g (WRun f d) then run s f d = Exc IndexError
  else exists s', run s f d = Val (s', spec_dict (gget g f) d) /\ Inv2 s' (dset f (d :: gget g f) g).
Proof.
  intros HI Hnd. pose proof (HI f) as Hf. unfold run. cbn [raises].
  destruct (lookup f s) as [w|] eqn:Ef.
  - destruct Hf as [h' [Eh [HRI [Hin Hout]]]]. rewrite Eh.
    unfold remove_dead_reminders.
    destruct (remove_gone_ok (gone_keys (w_cache w) d) (w_rem w) (w_rk w) HRI) as [r1 [rk1 [E1 [HRI1 Hg1]]]].
    rewrite E1. cbn [obind fst snd].
    destruct (grows (w_cache w) d) eqn:EG.
    + rewrite (keys_loop_exc d (w_cache w) r1 rk1 EG HRI1). reflexivity.
    + pose proof (grows_false_fits _ _ EG) as HF.
      destruct (keys_loop_ok_le d (w_cache w) r1 rk1 Hnd HF HRI1) as [r2 [rk2 [E2 [HRI2 Hg2]]]].
      rewrite E2. cbn [obind fst snd]. eexists. split.
      * do 2 f_equal. unfold spec_dict. apply map_ext_in. intros [k t] Hkt. cbn [fst snd]. f_equal.
        unfold spec_tuple, spec_value. cbn [run_values].
        assert (Hkd : memk k (gone_keys (w_cache w) d) = false).
        { rewrite memk_gone. replace (memk k (keys d)) with true; [apply andb_false_r|].
          symmetry. unfold memk. apply existsb_exists. exists k. split; [|apply beqb_refl].
          apply (in_map fst _ _ Hkt). }
        destruct (lookup k (w_cache w)) as [ot|] eqn:Eo.
        -- pose proof (HF (k, t) ot Hkt Eo) as Hle. cbn [snd] in Hle.
           rewrite (out_key_some _ _ _ _ _ Eo). rewrite out_fields_as_mapi_le by exact Hle.
           apply mapi_from_ext_in. intros j v Hj. rewrite Nat.sub_0_r. rewrite Hg1, Hkd.
           rewrite (Hin k ot Eo j) by lia. rewrite Eh.
           unfold acc. cbn [run_values]. rewrite Eo. cbn [offset]. unfold bump. lia.
        -- rewrite (out_key_none _ _ _ _ Eo). symmetry. apply mapi_from_id. intros j v. cbn [offset]. lia.
      * intros f'. rewrite gget_dset, lookup_dset. destruct (beqb f f') eqn:Eff; [|apply HI].
        exists (w_cache w :: h'). cbn [w_cache w_rem w_rk]. split; [reflexivity|]. split; [exact HRI2|]. split.
        -- intros k t Ed j Hj. rewrite Hg2, Hg1, memk_gone, !memk_lookup, Ed. cbn [negb]. rewrite andb_false_r.
           unfold delta. rewrite Ed. unfold acc. cbn [run_values]. rewrite Ed.
           destruct (lookup k (w_cache w)) as [ot|] eqn:Eo.
           ++ pose proof (HF (k, t) ot (lookup_In _ _ _ Ed) Eo) as Hle. cbn [snd] in Hle.
              rewrite bump_at_nth_le by (try exact Hle; lia). rewrite Nat.sub_0_r.
              rewrite (Hin k ot Eo j) by lia. rewrite Eh. unfold acc. cbn [run_values]. rewrite Eo.
              cbn [offset]. unfold bump. lia.
           ++ rewrite (Hout k Eo j). cbn [offset]. lia.
        -- intros k Ed j. rewrite Hg2, Hg1, memk_gone, !memk_lookup, Ed. unfold delta. rewrite Ed. cbn [negb].
           destruct (lookup k (w_cache w)) as [ot|] eqn:Eo; cbn [andb]; [lia|]. rewrite (Hout k Eo j). lia.
  - rewrite Hf. rewrite spec_dict_nil. eexists. split; [reflexivity|].
    intros f'. rewrite gget_dset, lookup_dset. destruct (beqb f f') eqn:Eff; [|apply HI].
    exists []. cbn [w_cache w_rem w_rk]. split; [reflexivity|]. split; [apply RI_nil|]. split.
    + intros k t Ed j Hj. unfold acc. cbn [run_values]. rewrite Ed. reflexivity.
    + intros k Ed j. reflexivity.
Qed.

Lemma wtrace_total_refines : forall ops s g, Inv2 s g -> forallb keys_ok ops = true ->
  wtrace s ops = spec_wtrace_total g ops.
Proof.
  induction ops as [|o ops IH]; intros s g HI Hok; cbn [wtrace spec_wtrace_total]; [reflexivity|].
  cbn [forallb] in Hok. apply andb_true_iff in Hok as [Ho Hok].
  destruct o as [f d|f|].
  - cbn [keys_ok] in Ho. pose proof (run_refines2 s g f d HI Ho) as HR. cbn [wstep].
    destruct (raises g (WRun f d)).
    + rewrite HR. reflexivity.
    + destruct HR as [s' [E HI']]. rewrite E. cbn [obind fst snd spec_wstep]. f_equal. apply IH; assumption.
  - cbn [raises wstep spec_wstep fst snd]. f_equal. apply IH; [apply Inv2_clear; exact HI | exact Hok].
  - cbn [raises wstep spec_wstep fst snd]. f_equal. apply IH; [apply Inv2_init | exact Hok].
Qed.

(* every call sequence with unique keys, whatever the tuple widths *)
Theorem wrap_value_total ops : forallb keys_ok ops = true ->
  wtrace [] ops = spec_wtrace_total [] ops.
Proof. apply wtrace_total_refines. apply Inv2_init. Qed.

(* widths: shrink (answered, surplus old fields ignored), then grow (IndexError) *)
Example width_example :
  let ops := [ WRun (bs "n") [(bs "a", [100; 50; 7])]; WRun (bs "n") [(bs "a", [10; 60])];
               WRun (bs "n") [(bs "a", [5; 60])]; WRun (bs "n") [(bs "a", [6; 61; 8])] ] in
  forallb keys_ok ops = true /\
  wtrace [] ops = [ Val (ODict [(bs "a", [100; 50; 7])]); Val (ODict [(bs "a", [110; 60])]);
                    Val (ODict [(bs "a", [115; 60])]); Exc IndexError ].
Proof. vm_compute. split; reflexivity. Qed.
