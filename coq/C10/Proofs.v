(* C10 -- proofs: the machine of Model.v refines the ghost specification of Spec.v. *)
From PV Require Import C10.Spec.
Require Import Lia.

(* ------------------------------------------------------------ keys *)
Lemma beqb_neq a b : a <> b -> beqb a b = false.
Proof.
  intros H. destruct (beqb a b) eqn:E; auto. apply beqb_eq in E. contradiction.
Qed.
Lemma beqb_false a b : beqb a b = false -> a <> b.
Proof. intros E H. subst. rewrite beqb_refl in E. discriminate. Qed.
Lemma beqb_sym a b : beqb a b = beqb b a.
Proof.
  destruct (beqb a b) eqn:E.
  - apply beqb_eq in E. subst. symmetry. apply beqb_refl.
  - symmetry. apply beqb_neq. intros H. subst. rewrite beqb_refl in E. discriminate.
Qed.

Section Dict.
Context {A : Type}.
Implicit Types d : list (bytes * A).

Lemma lookup_dset d k v k' :
  lookup k' (dset k v d) = if beqb k k' then Some v else lookup k' d.
Proof.
  induction d as [|[k0 v0] d IH]; cbn [dset lookup fst snd].
  - rewrite (beqb_sym k' k). destruct (beqb k k'); reflexivity.
  - destruct (beqb k k0) eqn:E; cbn [lookup fst snd].
    + apply beqb_eq in E. subst k0. rewrite (beqb_sym k' k). destruct (beqb k k'); reflexivity.
    + rewrite IH. destruct (beqb k' k0) eqn:E2; [|reflexivity].
      apply beqb_eq in E2. subst k0. rewrite E. reflexivity.
Qed.

Lemma lookup_dremove d k k' :
  lookup k' (dremove k d) = if beqb k k' then None else lookup k' d.
Proof.
  unfold dremove. induction d as [|[k0 v0] d IH]; cbn [filter lookup fst snd].
  - destruct (beqb k k'); reflexivity.
  - destruct (beqb k k0) eqn:E; cbn [negb lookup fst snd].
    + rewrite IH. apply beqb_eq in E. subst k0. rewrite (beqb_sym k' k). destruct (beqb k k'); reflexivity.
    + rewrite IH. destruct (beqb k' k0) eqn:E2; [|reflexivity].
      apply beqb_eq in E2. subst k0. rewrite E. reflexivity.
Qed.

Lemma lookup_none_memk d k : lookup k d = None <-> memk k (keys d) = false.
Proof.
  unfold memk, keys. induction d as [|[k0 v0] d IH]; cbn [lookup map existsb fst snd].
  - tauto.
  - destruct (beqb k k0); cbn [orb]; [split; discriminate | exact IH].
Qed.
End Dict.

(* ------------------------------------------------------------ reminders *)
Lemma rkeqb_eq a b : rkeqb a b = true <-> a = b.
Proof.
  unfold rkeqb. destruct a as [k i], b as [k' i']; cbn [fst snd]. split.
  - intros H. apply andb_true_iff in H as [H1 H2]. apply beqb_eq in H1. apply Nat.eqb_eq in H2. congruence.
  - intros H. inversion H; subst. rewrite beqb_refl, Nat.eqb_refl. reflexivity.
Qed.
Lemma rkeqb_refl a : rkeqb a a = true.
Proof. apply rkeqb_eq. reflexivity. Qed.
Lemma rkeqb_sym a b : rkeqb a b = rkeqb b a.
Proof.
  destruct (rkeqb a b) eqn:E.
  - apply rkeqb_eq in E. subst. symmetry. apply rkeqb_refl.
  - destruct (rkeqb b a) eqn:E2; auto. apply rkeqb_eq in E2. subst. rewrite rkeqb_refl in E. discriminate.
Qed.

Lemma rem_find_add r x v y :
  rem_find (rem_add r x v) y = if rkeqb x y then Some (rem_get r x + v) else rem_find r y.
Proof.
  unfold rem_get. induction r as [|[z w] r IH]; cbn [rem_add rem_find fst snd].
  - rewrite (rkeqb_sym y x). destruct (rkeqb x y); reflexivity.
  - destruct (rkeqb x z) eqn:E; cbn [rem_find fst snd].
    + apply rkeqb_eq in E. subst z. rewrite (rkeqb_sym y x). destruct (rkeqb x y); reflexivity.
    + rewrite IH. destruct (rkeqb y z) eqn:E2; [|reflexivity].
      apply rkeqb_eq in E2. subst z. rewrite E. reflexivity.
Qed.

Lemma rem_find_snoc r x v y :
  rem_find (r ++ [(x, v)]) y =
  match rem_find r y with Some w => Some w | None => if rkeqb x y then Some v else None end.
Proof.
  induction r as [|[z w] r IH]; cbn [app rem_find fst snd].
  - rewrite (rkeqb_sym y x). destruct (rkeqb x y); reflexivity.
  - destruct (rkeqb y z); [reflexivity | exact IH].
Qed.

Lemma rem_find_filter r x y :
  rem_find (filter (fun yw => negb (rkeqb x (fst yw))) r) y = if rkeqb x y then None else rem_find r y.
Proof.
  induction r as [|[z w] r IH]; cbn [filter rem_find fst snd].
  - destruct (rkeqb x y); reflexivity.
  - destruct (rkeqb x z) eqn:E; cbn [negb rem_find fst snd].
    + rewrite IH. apply rkeqb_eq in E. subst z. rewrite (rkeqb_sym y x). destruct (rkeqb x y); reflexivity.
    + rewrite IH. destruct (rkeqb y z) eqn:E2; [|reflexivity].
      apply rkeqb_eq in E2. subst z. rewrite E. reflexivity.
Qed.

Lemma rem_get_add r x v y : rem_get (rem_add r x v) y = if rkeqb x y then rem_get r y + v else rem_get r y.
Proof.
  unfold rem_get at 1. rewrite rem_find_add. destruct (rkeqb x y) eqn:E; [|reflexivity].
  apply rkeqb_eq in E. subst. reflexivity.
Qed.
Lemma rem_mem_add r x v y : rem_mem (rem_add r x v) y = rkeqb x y || rem_mem r y.
Proof. unfold rem_mem. rewrite rem_find_add. destruct (rkeqb x y); reflexivity. Qed.

Lemma rem_get_touch r x y : rem_get (rem_touch r x) y = rem_get r y.
Proof.
  unfold rem_touch, rem_mem. destruct (rem_find r x) eqn:E; [reflexivity|].
  unfold rem_get. rewrite rem_find_snoc. destruct (rem_find r y) eqn:E2; [reflexivity|].
  destruct (rkeqb x y); reflexivity.
Qed.
Lemma rem_mem_touch r x y : rem_mem (rem_touch r x) y = rkeqb x y || rem_mem r y.
Proof.
  unfold rem_touch. destruct (rem_mem r x) eqn:E.
  - destruct (rkeqb x y) eqn:E2; [|reflexivity]. apply rkeqb_eq in E2. subst. rewrite E. reflexivity.
  - unfold rem_mem in *. rewrite rem_find_snoc. destruct (rem_find r y); [rewrite orb_true_r; reflexivity|].
    destruct (rkeqb x y); reflexivity.
Qed.

(* ------------------------------------------------------------ reminder_keys *)
Lemma nat_mem_In i l : nat_mem i l = true <-> In i l.
Proof.
  unfold nat_mem. rewrite existsb_exists. split.
  - intros [x [H1 H2]]. apply Nat.eqb_eq in H2. subst. exact H1.
  - intros H. exists i. split; [exact H | apply Nat.eqb_refl].
Qed.

Lemma rk_get_add rk k i k' :
  rk_get (rk_add rk k i) k' =
  if beqb k k' then (if nat_mem i (rk_get rk k) then rk_get rk k else rk_get rk k ++ [i]) else rk_get rk k'.
Proof. unfold rk_add, rk_get at 1. rewrite lookup_dset. destruct (beqb k k'); reflexivity. Qed.
Lemma rk_get_remove rk g k' : rk_get (dremove g rk) k' = if beqb g k' then [] else rk_get rk k'.
Proof. unfold rk_get at 1. rewrite lookup_dremove. destruct (beqb g k'); reflexivity. Qed.

(* invariant tying reminders and reminder_keys *)
Definition RI (r : rems) (rk : rks) : Prop :=
  (forall k i, In i (rk_get rk k) -> rem_mem r (k, i) = true) /\
  (forall k i, rem_get r (k, i) <> 0 -> In i (rk_get rk k)) /\
  (forall k, NoDup (rk_get rk k)).

Lemma RI_nil : RI [] [].
Proof.
  split; [|split].
  - intros k i H. cbn in H. contradiction.
  - intros k i H. unfold rem_get in H. cbn in H. congruence.
  - intros k. cbn. constructor.
Qed.

(* ------------------------------------------------------------ _remove_dead_reminders *)
Lemma del_remkeys_ok : forall is r k,
  NoDup is -> (forall i, In i is -> rem_mem r (k, i) = true) ->
  exists r', del_remkeys r k is = Val r' /\
    forall y, rem_find r' y = if beqb k (fst y) && nat_mem (snd y) is then None else rem_find r y.
Proof.
  induction is as [|i is IH]; intros r k ND Hm; cbn [del_remkeys].
  - exists r. split; [reflexivity|]. intros y. cbn. rewrite andb_false_r. reflexivity.
  - unfold rem_del. rewrite (Hm i (or_introl eq_refl)). cbn [obind].
    inversion ND as [|? ? Hni ND']; subst.
    destruct (IH (filter (fun yw => negb (rkeqb (k, i) (fst yw))) r) k ND') as [r' [E Hr']].
    + intros j Hj. unfold rem_mem. rewrite rem_find_filter.
      destruct (rkeqb (k, i) (k, j)) eqn:E.
      * apply rkeqb_eq in E. inversion E; subst. contradiction.
      * apply (Hm j). right. exact Hj.
    + exists r'. split; [exact E|]. intros y. rewrite Hr'. rewrite rem_find_filter.
      destruct y as [ky jy]; cbn [fst snd nat_mem existsb]. unfold rkeqb; cbn [fst snd].
      destruct (beqb k ky); cbn [andb]; [|reflexivity].
      fold (nat_mem jy is). rewrite (Nat.eqb_sym jy i).
      destruct (nat_mem jy is); [rewrite orb_true_r; reflexivity|].
      rewrite orb_false_r. destruct (i =? jy)%nat; reflexivity.
Qed.

Lemma remove_gone_ok : forall gone r rk, RI r rk ->
  exists r' rk', remove_gone gone r rk = Val (r', rk') /\ RI r' rk' /\
    (forall k i, rem_get r' (k, i) = if memk k gone then 0 else rem_get r (k, i)).
Proof.
  induction gone as [|g gone IH]; intros r rk HRI; cbn [remove_gone].
  - exists r, rk. split; [reflexivity|]. split; [exact HRI|]. intros. reflexivity.
  - destruct HRI as [Ha [Hb Hc]].
    destruct (del_remkeys_ok (rk_get rk g) r g (Hc g) (Ha g)) as [r1 [E1 H1]].
    rewrite E1. cbn [obind].
    assert (HRI1 : RI r1 (dremove g rk)).
    { split; [|split].
      - intros k i Hin. rewrite rk_get_remove in Hin. destruct (beqb g k) eqn:E; [contradiction|].
        unfold rem_mem. rewrite H1. cbn [fst snd]. rewrite E. cbn [andb]. apply (Ha k i Hin).
      - intros k i Hne. rewrite rk_get_remove. unfold rem_get in Hne. rewrite H1 in Hne. cbn [fst snd] in Hne.
        destruct (beqb g k) eqn:E; cbn [andb] in Hne.
        + apply beqb_eq in E. subst k. destruct (nat_mem i (rk_get rk g)) eqn:E2; [congruence|].
          exfalso. apply Hb in Hne. apply nat_mem_In in Hne. congruence.
        + apply Hb. exact Hne.
      - intros k. rewrite rk_get_remove. destruct (beqb g k); [constructor | apply Hc]. }
    destruct (IH r1 (dremove g rk) HRI1) as [r' [rk' [E [HRI' Hg]]]].
    exists r', rk'. split; [exact E|]. split; [exact HRI'|].
    intros k i. rewrite Hg. unfold memk; cbn [existsb]. fold (memk k gone).
    destruct (memk k gone); [rewrite orb_true_r; reflexivity|]. rewrite orb_false_r.
    unfold rem_get at 1. rewrite H1. cbn [fst snd]. rewrite (beqb_sym k g).
    destruct (beqb g k) eqn:E2; cbn [andb]; [|reflexivity].
    apply beqb_eq in E2. subst k.
    destruct (nat_mem i (rk_get rk g)) eqn:E3; [reflexivity|].
    destruct (Z.eq_dec (rem_get r (g, i)) 0) as [Hz|Hnz]; [unfold rem_get in Hz; rewrite Hz; reflexivity|].
    apply Hb in Hnz. apply nat_mem_In in Hnz. congruence.
Qed.

(* ------------------------------------------------------------ the inner loop *)
Lemma NoDup_snoc (l : list nat) i : NoDup l -> ~ In i l -> NoDup (l ++ [i]).
Proof.
  induction l as [|x l IH]; intros ND Hn; cbn [app].
  - constructor; [intros []|constructor].
  - inversion ND; subst. constructor.
    + intros Hin. apply in_app_or in Hin as [Hin|[Hin|[]]]; [contradiction|]. subst. apply Hn. left. reflexivity.
    + apply IH; [assumption|]. intros Hin. apply Hn. right. exact Hin.
Qed.

Lemma RI_touch r rk x : RI r rk -> RI (rem_touch r x) rk.
Proof.
  intros [Ha [Hb Hc]]. split; [|split].
  - intros k i Hin. rewrite rem_mem_touch. rewrite (Ha k i Hin). apply orb_true_r.
  - intros k i Hne. rewrite rem_get_touch in Hne. apply Hb. exact Hne.
  - exact Hc.
Qed.

Lemma RI_add r rk k i o : RI r rk -> RI (rem_add r (k, i) o) (rk_add rk k i).
Proof.
  intros [Ha [Hb Hc]]. split; [|split].
  - intros k' i' Hin. rewrite rem_mem_add. rewrite rk_get_add in Hin.
    destruct (beqb k k') eqn:E.
    + apply beqb_eq in E. subst k'. destruct (nat_mem i (rk_get rk k)) eqn:E2.
      * rewrite (Ha k i' Hin). apply orb_true_r.
      * apply in_app_or in Hin as [Hin|[Hin|[]]].
        -- rewrite (Ha k i' Hin). apply orb_true_r.
        -- subst i'. rewrite rkeqb_refl. reflexivity.
    + rewrite (Ha k' i' Hin). apply orb_true_r.
  - intros k' i' Hne. rewrite rem_get_add in Hne. rewrite rk_get_add.
    destruct (rkeqb (k, i) (k', i')) eqn:E.
    + apply rkeqb_eq in E. inversion E; subst k' i'. rewrite beqb_refl.
      destruct (nat_mem i (rk_get rk k)) eqn:E2; [apply nat_mem_In; exact E2|].
      apply in_or_app. right. left. reflexivity.
    + apply Hb in Hne. destruct (beqb k k') eqn:E3; [|exact Hne].
      apply beqb_eq in E3. subst k'. destruct (nat_mem i (rk_get rk k)); [exact Hne|].
      apply in_or_app. left. exact Hne.
  - intros k'. rewrite rk_get_add. destruct (beqb k k'); [|apply Hc].
    destruct (nat_mem i (rk_get rk k)) eqn:E2; [apply Hc|].
    apply NoDup_snoc; [apply Hc|]. intros Hin. apply nat_mem_In in Hin. congruence.
Qed.

Definition bump (v o : Z) : Z := if v <? o then o else 0.

Fixpoint bump_at (j i : nat) (inp old : tuple) : Z :=
  match inp, old with
  | v :: inp', o :: old' => if Nat.eqb j i then bump v o else bump_at j (S i) inp' old'
  | _, _ => 0
  end.
Fixpoint out_fields (g : nat -> Z) (i : nat) (inp old : tuple) : tuple :=
  match inp, old with
  | v :: inp', o :: old' => (v + (g i + bump v o)) :: out_fields g (S i) inp' old'
  | _, _ => []
  end.

Lemma out_fields_ext g g' : forall inp old i,
  (forall j, (i <= j)%nat -> g j = g' j) -> out_fields g i inp old = out_fields g' i inp old.
Proof.
  induction inp as [|v inp IH]; intros [|o old] i H; cbn [out_fields]; try reflexivity.
  rewrite (H i (le_n i)). f_equal. apply IH. intros j Hj. apply H. lia.
Qed.
Lemma bump_at_lt : forall inp old j i, (j < i)%nat -> bump_at j i inp old = 0.
Proof.
  induction inp as [|v inp IH]; intros [|o old] j i H; cbn [bump_at]; try reflexivity.
  destruct (Nat.eqb_spec j i); [lia|]. apply IH. lia.
Qed.

Lemma fields_ok : forall inp old k i r rk,
  length inp = length old -> RI r rk ->
  exists r' rk',
    fields k i inp old r rk = Val (out_fields (fun j => rem_get r (k, j)) i inp old, (r', rk')) /\
    RI r' rk' /\
    (forall k' j, rem_get r' (k', j) = rem_get r (k', j) + (if beqb k k' then bump_at j i inp old else 0)).
Proof.
  induction inp as [|v inp IH]; intros [|o old] k i r rk HL HRI; cbn [length] in HL; try discriminate.
  - exists r, rk. split; [reflexivity|]. split; [exact HRI|]. intros. cbn [bump_at]. destruct (beqb k k'); lia.
  - cbn [fields].
    set (r1 := if v <? o then rem_add r (k, i) o else r).
    set (rk1 := if v <? o then rk_add rk k i else rk).
    set (r2 := rem_touch r1 (k, i)).
    assert (HRI2 : RI r2 rk1).
    { apply RI_touch. unfold r1, rk1. destruct (v <? o); [apply RI_add; exact HRI | exact HRI]. }
    assert (Hg2 : forall y, rem_get r2 y = rem_get r y + (if rkeqb (k, i) y then bump v o else 0)).
    { intros y. unfold r2. rewrite rem_get_touch. unfold r1, bump. destruct (v <? o).
      - rewrite rem_get_add. destruct (rkeqb (k, i) y); lia.
      - destruct (rkeqb (k, i) y); lia. }
    destruct (IH old k (S i) r2 rk1) as [r' [rk' [E [HRI' Hg']]]]; [lia | exact HRI2 |].
    rewrite E. cbn [obind fst snd].
    exists r', rk'. split; [|split; [exact HRI'|]].
    + cbn [out_fields]. rewrite Hg2, rkeqb_refl.
      rewrite (out_fields_ext (fun j => rem_get r2 (k, j)) (fun j => rem_get r (k, j))); [reflexivity|].
      intros j Hj. rewrite Hg2.
      destruct (rkeqb (k, i) (k, j)) eqn:E2; [|lia].
      apply rkeqb_eq in E2. inversion E2. lia.
    + intros k' j. rewrite Hg', Hg2. cbn [bump_at]. unfold rkeqb; cbn [fst snd].
      destruct (beqb k k') eqn:E2; cbn [andb]; [|lia].
      rewrite (Nat.eqb_sym i j). destruct (Nat.eqb_spec j i); [|lia].
      subst j. rewrite bump_at_lt; lia.
Qed.

(* ------------------------------------------------------------ the outer loop *)
Definition out_key (old : dict) (r : rems) (kt : key * tuple) : tuple :=
  match lookup (fst kt) old with
  | None => snd kt
  | Some ot => out_fields (fun j => rem_get r (fst kt, j)) 0 (snd kt) ot
  end.
Definition delta (old inp : dict) (k : key) (j : nat) : Z :=
  match lookup k inp, lookup k old with
  | Some t, Some ot => bump_at j 0 t ot
  | _, _ => 0
  end.

Lemma out_key_some old r k t ot : lookup k old = Some ot ->
  out_key old r (k, t) = out_fields (fun j => rem_get r (k, j)) 0 t ot.
Proof. intros H. unfold out_key. cbn [fst snd]. rewrite H. reflexivity. Qed.
Lemma out_key_none old r k t : lookup k old = None -> out_key old r (k, t) = t.
Proof. intros H. unfold out_key. cbn [fst snd]. rewrite H. reflexivity. Qed.

Lemma memk_false_in k l x : memk k l = false -> In x l -> beqb k x = false.
Proof.
  unfold memk. intros H Hin. destruct (beqb k x) eqn:E; auto.
  assert (existsb (beqb k) l = true) by (apply existsb_exists; exists x; auto). congruence.
Qed.

Lemma keys_loop_ok : forall inp old w r rk,
  nodupb (keys inp) = true ->
  (forall kt, In kt inp -> length (snd kt) = w) ->
  (forall k ot, lookup k old = Some ot -> length ot = w) ->
  RI r rk ->
  exists r' rk',
    keys_loop inp old r rk = Val (map (fun kt => (fst kt, out_key old r kt)) inp, (r', rk')) /\
    RI r' rk' /\
    (forall k j, rem_get r' (k, j) = rem_get r (k, j) + delta old inp k j).
Proof.
  induction inp as [|[k0 t0] rest IH]; intros old w r rk ND HW HWo HRI.
  - exists r, rk. split; [reflexivity|]. split; [exact HRI|]. intros. unfold delta. cbn [lookup]. lia.
  - cbn [keys map fst nodupb] in ND. apply andb_true_iff in ND as [ND0 ND]. apply negb_true_iff in ND0.
    fold (keys rest) in ND0, ND.
    assert (Hrest : lookup k0 rest = None) by (apply lookup_none_memk; exact ND0).
    cbn [keys_loop fst snd]. destruct (lookup k0 old) as [ot|] eqn:Eo.
    + destruct (fields_ok t0 ot k0 0%nat r rk) as [r1 [rk1 [E1 [HRI1 Hg1]]]].
      { rewrite (HWo k0 ot Eo). apply (HW (k0, t0) (or_introl eq_refl)). }
      { exact HRI. }
      rewrite E1. cbn [obind fst snd].
      destruct (IH old w r1 rk1 ND (fun kt H => HW kt (or_intror H)) HWo HRI1) as [r' [rk' [E [HRI' Hg']]]].
      rewrite E. cbn [obind fst snd]. exists r', rk'. split; [|split; [exact HRI'|]].
      * cbn [map fst snd]. erewrite out_key_some by exact Eo. do 3 f_equal.
        apply map_ext_in. intros kt Hin. apply (f_equal (pair (fst kt))). unfold out_key.
        match goal with |- context [match ?x with _ => _ end] => destruct x end; [|reflexivity].
        apply out_fields_ext. intros j _. rewrite Hg1.
        rewrite (memk_false_in k0 (keys rest) (fst kt) ND0 (in_map fst _ _ Hin)). lia.
      * intros k j. rewrite Hg', Hg1. unfold delta. cbn [lookup fst snd]. rewrite (beqb_sym k k0).
        destruct (beqb k0 k) eqn:E2.
        -- apply beqb_eq in E2. subst k. rewrite Hrest, Eo. lia.
        -- lia.
    + destruct (IH old w r rk ND (fun kt H => HW kt (or_intror H)) HWo HRI) as [r' [rk' [E [HRI' Hg']]]].
      rewrite E. cbn [obind fst snd]. exists r', rk'. split; [|split; [exact HRI'|]].
      * cbn [map fst snd]. erewrite out_key_none by exact Eo. reflexivity.
      * intros k j. rewrite Hg'. unfold delta. cbn [lookup fst snd]. rewrite (beqb_sym k k0).
        destruct (beqb k0 k) eqn:E2; [|reflexivity].
        apply beqb_eq in E2. subst k. rewrite Hrest, Eo. reflexivity.
Qed.

(* ------------------------------------------------------------ mapi_from, out_fields as a map *)
Lemma mapi_from_ext {A B} (f g : nat -> A -> B) : forall l i,
  (forall j x, (i <= j)%nat -> f j x = g j x) -> mapi_from i f l = mapi_from i g l.
Proof.
  induction l as [|x l IH]; intros i H; cbn [mapi_from]; [reflexivity|].
  rewrite (H i x (le_n i)). f_equal. apply IH. intros j y Hj. apply H. lia.
Qed.
Lemma mapi_from_id {A} (f : nat -> A -> A) : forall l i,
  (forall j x, f j x = x) -> mapi_from i f l = l.
Proof. induction l as [|x l IH]; intros i H; cbn [mapi_from]; [reflexivity|]. rewrite H, IH; auto. Qed.
Lemma nth_mapi_from (f : nat -> Z -> Z) : forall l i j,
  (j < length l)%nat -> nth j (mapi_from i f l) 0 = f (i + j)%nat (nth j l 0).
Proof.
  induction l as [|x l IH]; intros i j H; cbn [length] in H; [lia|].
  destruct j as [|j]; cbn [mapi_from nth].
  - rewrite Nat.add_0_r. reflexivity.
  - rewrite IH by lia. f_equal. lia.
Qed.

Lemma out_fields_as_mapi : forall inp old g i, length inp = length old ->
  out_fields g i inp old = mapi_from i (fun j v => v + (g j + bump v (nth (j - i) old 0))) inp.
Proof.
  induction inp as [|v inp IH]; intros [|o old] g i HL; cbn [length] in HL; try discriminate; cbn [out_fields mapi_from].
  - reflexivity.
  - rewrite Nat.sub_diag. cbn [nth]. f_equal. rewrite IH by lia.
    apply mapi_from_ext. intros j x Hj. replace (j - i)%nat with (S (j - S i)) by lia. reflexivity.
Qed.

Lemma bump_at_nth : forall inp old j i, length inp = length old ->
  bump_at j i inp old = if (i <=? j)%nat then bump (nth (j - i) inp 0) (nth (j - i) old 0) else 0.
Proof.
  induction inp as [|v inp IH]; intros [|o old] j i HL; cbn [length] in HL; try discriminate; cbn [bump_at].
  - destruct (i <=? j)%nat; [|reflexivity]. destruct (j - i)%nat; reflexivity.
  - destruct (Nat.eqb_spec j i) as [->|Hne].
    + rewrite Nat.leb_refl, Nat.sub_diag. reflexivity.
    + rewrite IH by lia. destruct (Nat.leb_spec i j), (Nat.leb_spec (S i) j); try lia; try reflexivity.
      replace (j - i)%nat with (S (j - S i)) by lia. reflexivity.
Qed.

(* ------------------------------------------------------------ well-formed dicts *)
Lemma dict_ok_parts w d : dict_ok w d = true ->
  nodupb (keys d) = true /\ (forall kt, In kt d -> length (snd kt) = w).
Proof.
  unfold dict_ok. intros H. apply andb_true_iff in H as [H1 H2]. split; [exact H1|].
  intros kt Hin. rewrite forallb_forall in H2. apply Nat.eqb_eq. apply H2. exact Hin.
Qed.
Lemma lookup_In {A} (d : list (bytes * A)) k v : lookup k d = Some v -> In (k, v) d.
Proof.
  induction d as [|[k0 v0] d IH]; cbn [lookup fst snd]; [discriminate|].
  destruct (beqb k k0) eqn:E.
  - intros H. inversion H; subst. apply beqb_eq in E. subst. left. reflexivity.
  - intros H. right. apply IH. exact H.
Qed.
Lemma dict_ok_lookup w d k t : dict_ok w d = true -> lookup k d = Some t -> length t = w.
Proof. intros H E. apply dict_ok_parts in H as [_ H]. apply (H (k, t)). apply lookup_In. exact E. Qed.

Lemma memk_filter p k l : (forall x, beqb k x = true -> p x = p k) ->
  memk k (filter p l) = memk k l && p k.
Proof.
  intros Hp. unfold memk. induction l as [|x l IH]; cbn [filter existsb]; [reflexivity|].
  destruct (p x) eqn:E; cbn [existsb]; rewrite IH.
  - destruct (beqb k x) eqn:E2; cbn [orb]; [|reflexivity]. rewrite <- (Hp x E2), E. reflexivity.
  - destruct (beqb k x) eqn:E2; cbn [orb]; [|reflexivity]. rewrite <- (Hp x E2), E.
    rewrite andb_false_r. reflexivity.
Qed.
Lemma memk_gone old inp k :
  memk k (gone_keys old inp) = memk k (keys old) && negb (memk k (keys inp)).
Proof.
  unfold gone_keys. apply memk_filter. intros x E. apply beqb_eq in E. subst. reflexivity.
Qed.
Lemma memk_lookup {A} (d : list (bytes * A)) k : memk k (keys d) = match lookup k d with Some _ => true | None => false end.
Proof.
  destruct (lookup k d) eqn:E.
  - destruct (memk k (keys d)) eqn:E2; [reflexivity|]. apply lookup_none_memk in E2. congruence.
  - apply lookup_none_memk. exact E.
Qed.

(* ------------------------------------------------------------ refinement invariant *)
Definition acc (k : key) (j : nat) (h : hist) : Z :=
  match run_values k j h with [] => 0 | p :: r => offset p r end.

Definition hist_ok (w : nat) (h : hist) : Prop := forall d, In d h -> dict_ok w d = true.

Definition Inv (W : bytes -> nat) (s : state) (g : ghost) : Prop :=
  forall f,
    hist_ok (W f) (gget g f) /\
    match lookup f s with
    | None => gget g f = []
    | Some w => exists h', gget g f = w_cache w :: h' /\ RI (w_rem w) (w_rk w) /\
                 forall k j, rem_get (w_rem w) (k, j) = acc k j (gget g f)
    end.

Lemma gget_dset g f h f' : gget (dset f h g) f' = if beqb f f' then h else gget g f'.
Proof. unfold gget. rewrite lookup_dset. destruct (beqb f f'); reflexivity. Qed.
Lemma gget_dremove g f f' : gget (dremove f g) f' = if beqb f f' then [] else gget g f'.
Proof. unfold gget. rewrite lookup_dremove. destruct (beqb f f'); reflexivity. Qed.

Lemma spec_dict_nil d : spec_dict [] d = d.
Proof.
  unfold spec_dict. rewrite <- (map_id d) at 2. apply map_ext. intros [k t]. cbn [fst snd]. f_equal.
  unfold spec_tuple. apply mapi_from_id. intros j x. unfold spec_value. cbn [run_values offset]. lia.
Qed.

Lemma Inv_init W : Inv W [] [].
Proof. intros f. split; [intros d []|]. reflexivity. Qed.

Lemma Inv_clear W s g f : Inv W s g -> Inv W (dremove f s) (dremove f g).
Proof.
  intros H f'. rewrite gget_dremove, lookup_dremove. destruct (beqb f f').
  - split; [intros d []|reflexivity].
  - apply H.
Qed.

Lemma run_refines W s g f d : Inv W s g -> dict_ok (W f) d = true ->
  exists s', run s f d = Val (s', spec_dict (gget g f) d) /\ Inv W s' (dset f (d :: gget g f) g)
             /\ (forall f', beqb f f' = false -> lookup f' s' = lookup f' s).
Proof.
  intros HI Hd. destruct (HI f) as [Hh Hf]. unfold run.
  destruct (lookup f s) as [w|] eqn:Ef.
  - destruct Hf as [h' [Eh [HRI Hacc]]].
    assert (Hc : dict_ok (W f) (w_cache w) = true) by (apply Hh; rewrite Eh; left; reflexivity).
    destruct (dict_ok_parts _ _ Hd) as [Hnd Hwd].
    unfold remove_dead_reminders.
    destruct (remove_gone_ok (gone_keys (w_cache w) d) (w_rem w) (w_rk w) HRI) as [r1 [rk1 [E1 [HRI1 Hg1]]]].
    rewrite E1. cbn [obind fst snd].
    destruct (keys_loop_ok d (w_cache w) (W f) r1 rk1 Hnd Hwd (fun k ot => dict_ok_lookup _ _ k ot Hc) HRI1)
      as [r2 [rk2 [E2 [HRI2 Hg2]]]].
    rewrite E2. cbn [obind fst snd]. eexists. split; [|split].
    + do 2 f_equal. rewrite Eh. unfold spec_dict. apply map_ext_in. intros [k t] Hin. cbn [fst snd]. f_equal.
      unfold spec_tuple, spec_value. cbn [run_values].
      assert (Hkd : memk k (gone_keys (w_cache w) d) = false).
      { rewrite memk_gone. replace (memk k (keys d)) with true; [apply andb_false_r|].
        symmetry. unfold memk. apply existsb_exists. exists k. split; [|apply beqb_refl].
        apply (in_map fst _ _ Hin). }
      assert (Hlt : length t = W f) by (apply (Hwd (k, t) Hin)).
      destruct (lookup k (w_cache w)) as [ot|] eqn:Eo.
      * rewrite (out_key_some _ _ _ _ _ Eo).
        rewrite out_fields_as_mapi by (rewrite Hlt; symmetry; apply (dict_ok_lookup _ _ _ _ Hc Eo)).
        apply mapi_from_ext. intros j v _. rewrite Nat.sub_0_r. rewrite Hg1, Hkd, Hacc, Eh.
        unfold acc. cbn [run_values]. rewrite Eo. cbn [offset]. unfold bump. lia.
      * rewrite (out_key_none _ _ _ _ Eo). symmetry. apply mapi_from_id. intros j v. cbn [offset]. lia.
    + intros f'. rewrite gget_dset, lookup_dset. destruct (beqb f f') eqn:Eff; [|apply HI].
      apply beqb_eq in Eff. subst f'. split.
      * intros d' [<-|Hin]; [exact Hd | apply Hh; exact Hin].
      * exists (gget g f). cbn [w_cache w_rem w_rk]. split; [reflexivity|]. split; [exact HRI2|].
        intros k j. rewrite Hg2, Hg1, memk_gone, !memk_lookup, Hacc, Eh. unfold acc, delta. cbn [run_values].
        destruct (lookup k d) as [t|] eqn:Ed.
        -- cbn [negb]. rewrite andb_false_r.
           destruct (lookup k (w_cache w)) as [ot|] eqn:Eo.
           ++ rewrite bump_at_nth by (rewrite (dict_ok_lookup _ _ _ _ Hd Ed); symmetry; apply (dict_ok_lookup _ _ _ _ Hc Eo)).
              cbn [Nat.leb]. rewrite Nat.sub_0_r. cbn [offset]. unfold bump. lia.
           ++ cbn [offset]. lia.
        -- destruct (lookup k (w_cache w)) as [ot|] eqn:Eo; cbn [negb andb]; lia.
    + intros f' Hne. rewrite lookup_dset, Hne. reflexivity.
  - rewrite Hf. rewrite spec_dict_nil. eexists. split; [reflexivity|]. split.
    + intros f'. rewrite gget_dset, lookup_dset. destruct (beqb f f') eqn:Eff; [|apply HI].
      split.
      * intros d' [<-|[]]. apply beqb_eq in Eff. subst f'. exact Hd.
      * exists []. cbn [w_cache w_rem w_rk]. split; [reflexivity|]. split; [apply RI_nil|].
        intros k j. unfold acc. cbn [run_values]. destruct (lookup k d); reflexivity.
    + intros f' Hne. rewrite lookup_dset, Hne. reflexivity.
Qed.

(* ------------------------------------------------------------ whole call sequences *)
Lemma wstep_refines W s g o : Inv W s g -> wop_ok W o = true ->
  exists s', wstep s o = Val (s', snd (spec_wstep g o)) /\ Inv W s' (fst (spec_wstep g o)).
Proof.
  intros HI Hok. destruct o as [f d|f|]; cbn [wstep spec_wstep fst snd wop_ok] in *.
  - destruct (run_refines W s g f d HI Hok) as [s' [E [HI' _]]]. rewrite E. cbn [obind fst snd].
    exists s'. split; [reflexivity | exact HI'].
  - eexists. split; [reflexivity|]. apply Inv_clear. exact HI.
  - eexists. split; [reflexivity|]. apply Inv_init.
Qed.

Lemma wtrace_refines W : forall ops s g, Inv W s g -> forallb (wop_ok W) ops = true ->
  wtrace s ops = map Val (spec_wtrace g ops).
Proof.
  induction ops as [|o ops IH]; intros s g HI Hok; cbn [wtrace spec_wtrace map]; [reflexivity|].
  cbn [forallb] in Hok. apply andb_true_iff in Hok as [Ho Hok].
  destruct (wstep_refines W s g o HI Ho) as [s' [E HI']]. rewrite E. f_equal. apply IH; assumption.
Qed.

Lemma wexec_refines W : forall ops s g, Inv W s g -> forallb (wop_ok W) ops = true ->
  exists s', wexec s ops = Val s' /\ Inv W s' (spec_wexec g ops).
Proof.
  induction ops as [|o ops IH]; intros s g HI Hok; cbn [wexec spec_wexec].
  - exists s. split; [reflexivity | exact HI].
  - cbn [forallb] in Hok. apply andb_true_iff in Hok as [Ho Hok].
    destruct (wstep_refines W s g o HI Ho) as [s' [E HI']]. rewrite E. cbn [obind fst]. apply IH; assumption.
Qed.

Theorem wrap_value W ops : forallb (wop_ok W) ops = true ->
  wtrace [] ops = map Val (spec_wtrace [] ops).
Proof. apply wtrace_refines. apply Inv_init. Qed.

(* ------------------------------------------------------------ facts about the demanded answers *)
Lemma lookup_spec_dict h d k :
  lookup k (spec_dict h d) = match lookup k d with Some t => Some (spec_tuple h k t) | None => None end.
Proof.
  unfold spec_dict. induction d as [|[k0 t0] d IH]; cbn [map lookup fst snd]; [reflexivity|].
  destruct (beqb k k0) eqn:E; [|exact IH]. apply beqb_eq in E. subst. reflexivity.
Qed.
Lemma nth_spec_tuple h k t i : (i < length t)%nat ->
  nth i (spec_tuple h k t) 0 = spec_value h k i (nth i t 0).
Proof. intros H. unfold spec_tuple. rewrite nth_mapi_from by exact H. reflexivity. Qed.

Lemma spec_value_mono h d1 k t1 i v2 : lookup k d1 = Some t1 -> 0 <= v2 ->
  spec_value h k i (nth i t1 0) <= spec_value (d1 :: h) k i v2.
Proof.
  intros E Hv. unfold spec_value. cbn [run_values]. rewrite E. cbn [offset].
  destruct (Z.ltb_spec v2 (nth i t1 0)); lia.
Qed.

Lemma spec_tuple_fresh h k t : (forall i, run_values k i h = []) -> spec_tuple h k t = t.
Proof.
  intros H. unfold spec_tuple. apply mapi_from_id. intros j x. unfold spec_value. rewrite H. cbn [offset]. lia.
Qed.


Lemma spec_wexec_untouched f : forall mid g, untouched f mid = true -> gget (spec_wexec g mid) f = gget g f.
Proof.
  unfold untouched. induction mid as [|o mid IH]; intros g H; cbn [spec_wexec]; [reflexivity|].
  cbn [forallb] in H. apply andb_true_iff in H as [Ho H]. rewrite IH by exact H.
  apply negb_true_iff in Ho. destruct o as [f' d|f'|]; cbn [touches spec_wstep fst] in *.
  - rewrite gget_dset, Ho. reflexivity.
  - rewrite gget_dremove, Ho. reflexivity.
  - discriminate.
Qed.
Lemma spec_wexec_app : forall a b g, spec_wexec g (a ++ b) = spec_wexec (spec_wexec g a) b.
Proof. induction a as [|o a IH]; intros b g; cbn [app spec_wexec]; [reflexivity | apply IH]. Qed.
Lemma forallb_app_ {A} (p : A -> bool) a b : forallb p (a ++ b) = forallb p a && forallb p b.
Proof. induction a as [|x a IH]; cbn [app forallb]; [reflexivity|]. rewrite IH. apply andb_assoc. Qed.

(* one answer, in terms of the ghost history *)
Lemma answer_after W ops s f d s' o : forallb (wop_ok W) ops = true -> dict_ok (W f) d = true ->
  wexec [] ops = Val s -> run s f d = Val (s', o) ->
  o = spec_dict (gget (spec_wexec [] ops) f) d.
Proof.
  intros Hok Hd E R. destruct (wexec_refines W ops [] [] (Inv_init W) Hok) as [s0 [E0 HI]].
  rewrite E in E0. inversion E0; subst s0.
  destruct (run_refines W s _ f d HI Hd) as [s1 [R1 _]]. rewrite R in R1. inversion R1. reflexivity.
Qed.

Theorem monotone W pre f d1 mid d2 s0 s1 o1 s1' s2 o2 k u1 u2 i :
  forallb (wop_ok W) pre = true -> dict_ok (W f) d1 = true ->
  forallb (wop_ok W) mid = true -> dict_ok (W f) d2 = true -> untouched f mid = true ->
  wexec [] pre = Val s0 -> run s0 f d1 = Val (s1, o1) ->
  wexec s1 mid = Val s1' -> run s1' f d2 = Val (s2, o2) ->
  nonneg_dict d2 = true -> (i < W f)%nat ->
  lookup k o1 = Some u1 -> lookup k o2 = Some u2 ->
  nth i u1 0 <= nth i u2 0.
Proof.
  intros Hpre Hd1 Hmid Hd2 Hun E0 R1 Em R2 Hnn Hi L1 L2.
  pose proof (answer_after W pre s0 f d1 s1 o1 Hpre Hd1 E0 R1) as A1.
  assert (E2 : wexec [] (pre ++ WRun f d1 :: mid) = Val s1').
  { clear - E0 R1 Em. revert E0. generalize (@nil (bytes * wst)). induction pre as [|o pre IH]; intros s E0; cbn [app wexec] in *.
    - inversion E0; subst. cbn [wstep]. rewrite R1. cbn [obind fst]. exact Em.
    - destruct (wstep s o) as [[s' a]| |]; cbn [obind fst] in *; try discriminate. apply IH. exact E0. }
  assert (Hok2 : forallb (wop_ok W) (pre ++ WRun f d1 :: mid) = true).
  { rewrite forallb_app_. cbn [forallb wop_ok]. rewrite Hpre, Hd1, Hmid. reflexivity. }
  pose proof (answer_after W _ s1' f d2 s2 o2 Hok2 Hd2 E2 R2) as A2.
  rewrite spec_wexec_app in A2. cbn [spec_wexec spec_wstep fst] in A2.
  rewrite spec_wexec_untouched in A2 by exact Hun. rewrite gget_dset, beqb_refl in A2.
  subst o1 o2. rewrite lookup_spec_dict in L1, L2.
  destruct (lookup k d1) as [t1|] eqn:Ed1; [|discriminate].
  destruct (lookup k d2) as [t2|] eqn:Ed2; [|discriminate].
  inversion L1; inversion L2; subst u1 u2.
  rewrite !nth_spec_tuple by (rewrite ?(dict_ok_lookup _ _ _ _ Hd1 Ed1), ?(dict_ok_lookup _ _ _ _ Hd2 Ed2); exact Hi).
  apply spec_value_mono; [exact Ed1|].
  unfold nonneg_dict in Hnn. rewrite forallb_forall in Hnn. pose proof (Hnn _ (lookup_In _ _ _ Ed2)) as Ht.
  cbn [snd] in Ht. rewrite forallb_forall in Ht. apply Z.leb_le. apply Ht. apply nth_In.
  rewrite (dict_ok_lookup _ _ _ _ Hd2 Ed2). exact Hi.
Qed.

(* a device that was absent from the previous snapshot of this name starts afresh *)
Theorem reappear_fresh W ops s f d s' o dprev h k t :
  forallb (wop_ok W) ops = true -> dict_ok (W f) d = true ->
  wexec [] ops = Val s -> run s f d = Val (s', o) ->
  gget (spec_wexec [] ops) f = dprev :: h -> lookup k dprev = None ->
  lookup k d = Some t -> lookup k o = Some t.
Proof.
  intros Hok Hd E R Hg Hp Ed. rewrite (answer_after W ops s f d s' o Hok Hd E R), Hg.
  rewrite lookup_spec_dict, Ed. f_equal. apply spec_tuple_fresh. intros i. cbn [run_values]. rewrite Hp. reflexivity.
Qed.

(* no snapshot under this name since the last clear (or ever): the answer is the raw dict *)
Lemma fresh_history_raw W ops s f d s' o :
  forallb (wop_ok W) ops = true -> dict_ok (W f) d = true ->
  wexec [] ops = Val s -> run s f d = Val (s', o) ->
  gget (spec_wexec [] ops) f = [] -> o = d.
Proof.
  intros Hok Hd E R Hg. rewrite (answer_after W ops s f d s' o Hok Hd E R), Hg. apply spec_dict_nil.
Qed.

Theorem clear_forgets W ops c mid s f d s' o :
  c = WClear f \/ c = WClearAll ->
  forallb (wop_ok W) ops = true -> forallb (wop_ok W) mid = true -> untouched f mid = true ->
  dict_ok (W f) d = true ->
  wexec [] (ops ++ c :: mid) = Val s -> run s f d = Val (s', o) -> o = d.
Proof.
  intros Hc Hok Hmid Hun Hd E R. apply (fresh_history_raw W (ops ++ c :: mid) s f d s' o); try assumption.
  - rewrite forallb_app_. cbn [forallb]. rewrite Hok, Hmid. destruct Hc; subst c; reflexivity.
  - rewrite spec_wexec_app. cbn [spec_wexec]. rewrite spec_wexec_untouched by exact Hun.
    destruct Hc; subst c; cbn [spec_wstep fst].
    + rewrite gget_dremove, beqb_refl. reflexivity.
    + reflexivity.
Qed.

Theorem first_call_raw W ops s f d s' o :
  forallb (wop_ok W) ops = true -> untouched f ops = true -> dict_ok (W f) d = true ->
  wexec [] ops = Val s -> run s f d = Val (s', o) -> o = d.
Proof.
  intros Hok Hun Hd E R. apply (fresh_history_raw W ops s f d s' o); try assumption.
  rewrite spec_wexec_untouched by exact Hun. reflexivity.
Qed.

(* ------------------------------------------------------------ names are independent *)
Theorem frame_state s o f s' a : touches f o = false -> wstep s o = Val (s', a) -> lookup f s' = lookup f s.
Proof.
  intros Ht E. destruct o as [f' d|f'|]; cbn [touches wstep] in *.
  - unfold run in E. destruct (lookup f' s) as [w|].
    + destruct (remove_dead_reminders d w) as [rr| |]; cbn [obind] in E; try discriminate.
      destruct (keys_loop d (w_cache w) (fst rr) (snd rr)) as [res| |]; cbn [obind fst snd] in E; try discriminate.
      inversion E; subst. rewrite lookup_dset, Ht. reflexivity.
    + cbn [obind fst snd] in E. inversion E; subst. rewrite lookup_dset, Ht. reflexivity.
  - inversion E; subst. rewrite lookup_dremove, Ht. reflexivity.
  - discriminate.
Qed.


Lemma spec_project f : forall ops g g', gget g f = gget g' f ->
  answers_for f ops (spec_wtrace g ops) = spec_wtrace g' (filter (touches f) ops).
Proof.
  unfold answers_for. induction ops as [|o ops IH]; intros g g' Hg; cbn [spec_wtrace combine filter map]; [reflexivity|].
  cbn [fst]. destruct (touches f o) eqn:Et.
  - cbn [map snd spec_wtrace]. destruct o as [f' d|f'|]; cbn [touches] in Et; cbn [spec_wstep fst snd].
    + apply beqb_eq in Et. subst f'. rewrite Hg. f_equal. apply IH. rewrite !gget_dset, beqb_refl. reflexivity.
    + apply beqb_eq in Et. subst f'. f_equal. apply IH. rewrite !gget_dremove, beqb_refl. reflexivity.
    + f_equal. apply IH. reflexivity.
  - apply IH. rewrite <- Hg. destruct o as [f' d|f'|]; cbn [touches] in Et; cbn [spec_wstep fst].
    + rewrite gget_dset, Et. reflexivity.
    + rewrite gget_dremove, Et. reflexivity.
    + discriminate.
Qed.

Lemma answers_for_map {A B} (h : A -> B) f ops tr : answers_for f ops (map h tr) = map h (answers_for f ops tr).
Proof.
  unfold answers_for. revert tr. induction ops as [|o ops IH]; intros [|x tr]; cbn [map combine filter]; try reflexivity.
  cbn [fst]. destruct (touches f o); cbn [map snd]; rewrite IH; reflexivity.
Qed.

Lemma forallb_filter_ {A} (p q : A -> bool) l : forallb p l = true -> forallb p (filter q l) = true.
Proof.
  induction l as [|x l IH]; cbn [forallb filter]; [reflexivity|]. intros H. apply andb_true_iff in H as [H1 H2].
  destruct (q x); cbn [forallb]; [rewrite H1|]; auto.
Qed.

Theorem names_independent W ops f : forallb (wop_ok W) ops = true ->
  answers_for f ops (wtrace [] ops) = wtrace [] (filter (touches f) ops).
Proof.
  intros Hok. rewrite (wrap_value W ops Hok). rewrite (wrap_value W (filter (touches f) ops)) by (apply forallb_filter_; exact Hok).
  rewrite answers_for_map. f_equal. apply spec_project. reflexivity.
Qed.

(* ------------------------------------------------------------ the public functions *)
Definition Wpub (f : bytes) : nat := if beqb f (fname Net) then 8%nat else 9%nat.
Lemma Wpub_fname f : Wpub (fname f) = width f.
Proof. destruct f; vm_compute; reflexivity. Qed.

Lemma dict_ok_raw_ok f raw : dict_ok (width f) raw = true -> raw_ok f raw = true.
Proof. unfold dict_ok, raw_ok. intros H. apply andb_true_iff in H as [_ H]. exact H. Qed.

Lemma pstep_refines legacy s g o : Inv Wpub s g -> pop_ok o = true ->
  (legacy = false \/ empty_nowrap o = false) ->
  exists s', pstep legacy s o = Val (s', snd (spec_pstep g o)) /\ Inv Wpub s' (fst (spec_pstep g o)).
Proof.
  intros HI Hok Hcls. destruct o as [f per nowrap raw|f]; cbn [pstep spec_pstep pop_ok empty_nowrap] in *.
  - rewrite (dict_ok_raw_ok f raw Hok). cbn [negb].
    assert (Hrun : nowrap = true -> exists s',
      (do r <- run s (fname f) raw; Val (fst r, present f per (snd r))) =
        Val (s', present f per (spec_dict (gget g (fname f)) raw)) /\
      Inv Wpub s' (dset (fname f) (raw :: gget g (fname f)) g)).
    { intros _. destruct (run_refines Wpub s g (fname f) raw HI) as [s' [E [HI' _]]].
      - rewrite Wpub_fname. exact Hok.
      - rewrite E. cbn [obind fst snd]. exists s'. split; [reflexivity | exact HI']. }
    destruct (legacy && is_empty raw) eqn:Ee.
    + apply andb_true_iff in Ee as [Ef Er]. subst legacy.
      destruct Hcls as [Hc|Hc]; [discriminate|]. rewrite Er, andb_true_r in Hc. subst nowrap.
      cbn [fst snd]. exists s. split; [reflexivity | exact HI].
    + destruct nowrap; cbn [fst snd].
      * apply Hrun. reflexivity.
      * exists s. split; [reflexivity | exact HI].
  - eexists. split; [reflexivity|]. cbn [fst]. apply Inv_clear. exact HI.
Qed.

Lemma ptrace_refines legacy : forall ops s g, Inv Wpub s g -> forallb pop_ok ops = true ->
  (legacy = false \/ no_empty_nowrap ops = true) ->
  ptrace legacy s ops = map Val (spec_ptrace g ops).
Proof.
  induction ops as [|o ops IH]; intros s g HI Hok Hcls; cbn [ptrace spec_ptrace map]; [reflexivity|].
  cbn [forallb] in Hok. apply andb_true_iff in Hok as [Ho Hok].
  assert (Hc1 : legacy = false \/ empty_nowrap o = false).
  { destruct Hcls as [Hc|Hc]; [left; exact Hc|]. right. unfold no_empty_nowrap in Hc. cbn [forallb] in Hc.
    apply andb_true_iff in Hc as [Hc _]. apply negb_true_iff in Hc. exact Hc. }
  assert (Hc2 : legacy = false \/ no_empty_nowrap ops = true).
  { destruct Hcls as [Hc|Hc]; [left; exact Hc|]. right. unfold no_empty_nowrap in *. cbn [forallb] in Hc.
    apply andb_true_iff in Hc as [_ Hc]. exact Hc. }
  destruct (pstep_refines legacy s g o HI Ho Hc1) as [s' [E HI']]. rewrite E. f_equal. apply IH; assumption.
Qed.

Lemma pexec_refines : forall ops s g, Inv Wpub s g -> forallb pop_ok ops = true ->
  exists s', pexec false s ops = Val s' /\ Inv Wpub s' (spec_pexec g ops).
Proof.
  induction ops as [|o ops IH]; intros s g HI Hok; cbn [pexec spec_pexec].
  - exists s. split; [reflexivity | exact HI].
  - cbn [forallb] in Hok. apply andb_true_iff in Hok as [Ho Hok].
    destruct (pstep_refines false s g o HI Ho (or_introl eq_refl)) as [s' [E HI']]. rewrite E. cbn [obind fst].
    apply IH; assumption.
Qed.

(* the code as it is now (after e278b23): every sequence *)
Theorem public_exact ops : forallb pop_ok ops = true ->
  ptrace false [] ops = map Val (spec_ptrace [] ops).
Proof. intros Hok. apply ptrace_refines; [apply Inv_init | exact Hok | left; reflexivity]. Qed.

(* the code before e278b23: only the sequences in which no nowrap=True call finds the listing empty *)
Theorem public_before_repair_partial ops : forallb pop_ok ops = true -> no_empty_nowrap ops = true ->
  ptrace true [] ops = map Val (spec_ptrace [] ops).
Proof. intros Hok Hc. apply ptrace_refines; [apply Inv_init | exact Hok | right; exact Hc]. Qed.

Definition refute_ops : list pop :=
  [ PCall Net true true [(bs "eth0", [0; 100; 0; 0; 0; 0; 0; 0])];
    PCall Net true true [];
    PCall Net true true [(bs "eth0", [0; 5; 0; 0; 0; 0; 0; 0])] ].

Theorem public_before_repair_refuted :
  exists ops, forallb pop_ok ops = true /\
    nth 2 (ptrace true [] ops) OutOfModel = Val (PDict [(bs "eth0", [0; 105; 0; 0; 0; 0; 0; 0])]) /\
    nth 2 (spec_ptrace [] ops) PNone = PDict [(bs "eth0", [0; 5; 0; 0; 0; 0; 0; 0])] /\
    nth 2 (ptrace false [] ops) OutOfModel = Val (PDict [(bs "eth0", [0; 5; 0; 0; 0; 0; 0; 0])]).
Proof. exists refute_ops. vm_compute. repeat split; reflexivity. Qed.

(* one public answer in terms of the ghost history *)
Lemma public_answer_after ops s f per raw s' a :
  forallb pop_ok ops = true -> dict_ok (width f) raw = true ->
  pexec false [] ops = Val s -> pstep false s (PCall f per true raw) = Val (s', a) ->
  a = present f per (spec_dict (gget (spec_pexec [] ops) (fname f)) raw).
Proof.
  intros Hok Hd E R. destruct (pexec_refines ops [] [] (Inv_init Wpub) Hok) as [s0 [E0 HI]].
  rewrite E in E0. inversion E0; subst s0.
  destruct (pstep_refines false s _ (PCall f per true raw) HI Hd (or_introl eq_refl)) as [s1 [R1 _]].
  rewrite R in R1. inversion R1. reflexivity.
Qed.

(* a device absent from the previous nowrap=True listing of this function -- in
   particular when that listing was empty (every device gone) -- starts afresh *)
Theorem public_reappear_fresh ops s f per raw s' a dprev h k t :
  forallb pop_ok ops = true -> dict_ok (width f) raw = true ->
  pexec false [] ops = Val s -> pstep false s (PCall f per true raw) = Val (s', a) ->
  gget (spec_pexec [] ops) (fname f) = dprev :: h -> lookup k dprev = None ->
  lookup k raw = Some t ->
  exists o, a = present f per o /\ lookup k o = Some t.
Proof.
  intros Hok Hd E R Hg Hp Ed. exists (spec_dict (dprev :: h) raw). split.
  - rewrite <- Hg. apply (public_answer_after ops s f per raw s' a Hok Hd E R).
  - rewrite lookup_spec_dict, Ed. f_equal. apply spec_tuple_fresh. intros i. cbn [run_values]. rewrite Hp. reflexivity.
Qed.

Theorem public_all_gone_fresh ops s f per raw s' a h :
  forallb pop_ok ops = true -> dict_ok (width f) raw = true ->
  pexec false [] ops = Val s -> pstep false s (PCall f per true raw) = Val (s', a) ->
  gget (spec_pexec [] ops) (fname f) = [] :: h ->
  a = present f per raw.
Proof.
  intros Hok Hd E R Hg. rewrite (public_answer_after ops s f per raw s' a Hok Hd E R), Hg. f_equal.
  unfold spec_dict. rewrite <- (map_id raw) at 2. apply map_ext. intros [k t]. cbn [fst snd]. f_equal.
  apply spec_tuple_fresh. intros i. reflexivity.
Qed.

Theorem nowrap_false_raw legacy s f per raw : raw_ok f raw = true ->
  pstep legacy s (PCall f per false raw) = Val (s, present f per raw).
Proof. intros H. cbn [pstep]. rewrite H. cbn [negb]. destruct (legacy && is_empty raw); reflexivity. Qed.

(* the hypotheses are satisfiable by non-trivial inputs *)
Definition example_ops : list wop :=
  [ WRun (bs "n1") [(bs "a", [5; 7]); (bs "b", [100; 100])];
    WRun (bs "n2") [(bs "a", [9])];
    WRun (bs "n1") [(bs "a", [6; 7]); (bs "b", [10; 100])];
    WRun (bs "n1") [(bs "a", [6; 8])];
    WClear (bs "n2");
    WRun (bs "n1") [(bs "b", [3; 3]); (bs "a", [2; 8])];
    WRun (bs "n2") [(bs "a", [1])] ].
Definition example_W (f : bytes) : nat := if beqb f (bs "n1") then 2%nat else 1%nat.
Example example_ops_ok : forallb (wop_ok example_W) example_ops = true.
Proof. vm_compute. reflexivity. Qed.
Example example_pub_ok : forallb pop_ok refute_ops = true /\ no_empty_nowrap (firstn 1 refute_ops ++ skipn 2 refute_ops) = true.
Proof. vm_compute. split; reflexivity. Qed.
(* the hypotheses of public_all_gone_fresh / public_reappear_fresh hold for the old failing sequence *)
Example example_all_gone : exists s,
  pexec false [] (firstn 2 refute_ops) = Val s /\
  gget (spec_pexec [] (firstn 2 refute_ops)) (fname Net) = [] :: [[(bs "eth0", [0; 100; 0; 0; 0; 0; 0; 0])]].
Proof. eexists. vm_compute. split; reflexivity. Qed.

(* ------------------------------------------------------------ public functions: clear forgets *)
Lemma spec_pexec_app : forall a b g, spec_pexec g (a ++ b) = spec_pexec (spec_pexec g a) b.
Proof. induction a as [|o a IH]; intros b g; cbn [app spec_pexec]; [reflexivity | apply IH]. Qed.

Lemma fname_inj f f' : beqb (fname f') (fname f) = fn_eqb f' f.
Proof. destruct f, f'; vm_compute; reflexivity. Qed.

Lemma no_feed_keeps_empty f : forall mid g, gget g (fname f) = [] -> no_feed f mid = true ->
  gget (spec_pexec g mid) (fname f) = [].
Proof.
  unfold no_feed. induction mid as [|o mid IH]; intros g Hg H; cbn [spec_pexec]; [exact Hg|].
  cbn [forallb] in H. apply andb_true_iff in H as [Ho H]. apply IH; [|exact H].
  apply negb_true_iff in Ho. destruct o as [f' per nowrap raw|f']; cbn [feeds spec_pstep] in *.
  - destruct nowrap; cbn [fst andb] in *; [|exact Hg]. rewrite gget_dset, fname_inj, Ho. exact Hg.
  - cbn [fst]. rewrite gget_dremove. destruct (beqb (fname f') (fname f)); [reflexivity | exact Hg].
Qed.

(* after f.cache_clear(), with any calls in between that do not feed f's history (nowrap=False
   calls, the other function, further clears), the next nowrap=True answer is the raw listing *)
Theorem public_clear_forgets ops mid f per raw s s' a :
  forallb pop_ok (ops ++ PClear f :: mid) = true -> no_feed f mid = true ->
  dict_ok (width f) raw = true ->
  pexec false [] (ops ++ PClear f :: mid) = Val s -> pstep false s (PCall f per true raw) = Val (s', a) ->
  a = present f per raw.
Proof.
  intros Hok Hnf Hd E R.
  rewrite (public_answer_after _ s f per raw s' a Hok Hd E R). f_equal.
  rewrite spec_pexec_app. cbn [spec_pexec spec_pstep fst].
  rewrite no_feed_keeps_empty; [apply spec_dict_nil | | exact Hnf].
  rewrite gget_dremove, beqb_refl. reflexivity.
Qed.

(* ------------------------------------------------------------ cache_info() shows the ghost state *)
Lemma lookup_map_snd {A B} (F : A -> B) f (s : list (bytes * A)) :
  lookup f (map (fun fw => (fst fw, F (snd fw))) s) = match lookup f s with Some w => Some (F w) | None => None end.
Proof.
  induction s as [|[f0 w0] s IH]; cbn [map lookup fst snd]; [reflexivity|].
  destruct (beqb f f0); [reflexivity | exact IH].
Qed.

Theorem cache_info_shows_ghost W ops s f :
  forallb (wop_ok W) ops = true -> wexec [] ops = Val s ->
  let c := fst (fst (cache_info s)) in let r := snd (fst (cache_info s)) in let rk := snd (cache_info s) in
  let h := gget (spec_wexec [] ops) f in
  match h with
  | [] => lookup f c = None /\ lookup f r = None /\ lookup f rk = None
  | d :: _ => exists rm rkm,
      lookup f c = Some d /\ lookup f r = Some rm /\ lookup f rk = Some rkm /\
      (forall k i, rem_get rm (k, i) = spec_offset k i h) /\
      (forall k i, rem_get rm (k, i) <> 0 -> In i (rk_get rkm k)) /\
      (forall k i, In i (rk_get rkm k) -> rem_mem rm (k, i) = true)
  end.
Proof.
  intros Hok E. destruct (wexec_refines W ops [] [] (Inv_init W) Hok) as [s0 [E0 HI]].
  rewrite E in E0. inversion E0; subst s0. clear E0.
  cbn zeta. unfold cache_info. cbn [fst snd]. rewrite !lookup_map_snd.
  destruct (HI f) as [_ Hf]. destruct (lookup f s) as [w|].
  - destruct Hf as [h' [Eh [[Ha [Hb Hc]] Hacc]]]. rewrite Eh. exists (w_rem w), (w_rk w).
    repeat split; auto. intros k i. rewrite Hacc, Eh. reflexivity.
  - rewrite Hf. repeat split; reflexivity.
Qed.
