(* C10 -- exception-atomicity of _WrapNumbers.run(): run() as a sequence of state updates with a
   possible abort after each.  The first abort point is the untouched state, the last one the
   completed call; the points in between are in general neither (witness), so the code relies on
   the statements between its first update and the cache store never raising -- which is
   checked on the source by the generated table (Gen/C10_Tables.v). *)
From PV Require Import C10.Spec C10.Proofs.
Require Import Lia.

Lemma last_cons_ {A} (x : A) l d : last (x :: l) d = last l x.
Proof.
  revert x d. induction l as [|y l IH]; intros x d; [reflexivity|].
  change (last (x :: y :: l) d) with (last (y :: l) d). rewrite (IH y d), (IH y x). reflexivity.
Qed.
Lemma last_app_ {A} (a b : list A) d : last (a ++ b) d = last b (last a d).
Proof.
  revert d. induction a as [|x a IH]; intros d; [reflexivity|].
  change ((x :: a) ++ b) with (x :: (a ++ b)). rewrite !last_cons_. apply IH.
Qed.

Lemma del_tr_last : forall is r rk k r', del_remkeys r k is = Val r' ->
  last_or (del_tr r rk k is) (r, rk) = (r', rk).
Proof.
  unfold last_or. induction is as [|i is IH]; intros r rk k r' H; cbn [del_remkeys del_tr] in *.
  - inversion H. reflexivity.
  - destruct (rem_del r (k, i)) as [r1| |]; cbn [obind] in H; try discriminate.
    rewrite last_cons_. apply IH. exact H.
Qed.

Lemma remove_tr_last : forall gone r rk r' rk', remove_gone gone r rk = Val (r', rk') ->
  last_or (remove_tr gone r rk) (r, rk) = (r', rk').
Proof.
  induction gone as [|g gone IH]; intros r rk r' rk' H; cbn [remove_gone remove_tr] in *.
  - inversion H. reflexivity.
  - destruct (del_remkeys r g (rk_get rk g)) as [r1| |] eqn:E; cbn [obind] in H; try discriminate.
    rewrite (del_tr_last _ r rk g r1 E). cbn [fst].
    unfold last_or. rewrite last_app_, last_cons_. apply (IH r1 (dremove g rk) r' rk' H).
Qed.

Lemma fields_tr_last : forall inp old k i r rk bits r' rk',
  fields k i inp old r rk = Val (bits, (r', rk')) ->
  last_or (fields_tr k i inp old r rk) (r, rk) = (r', rk').
Proof.
  unfold last_or. induction inp as [|v inp IH]; intros old k i r rk bits r' rk' H.
  - cbn [fields] in H. inversion H. reflexivity.
  - destruct old as [|o old]; cbn [fields] in H; [discriminate|]. cbn [fields_tr].
    set (r1 := if v <? o then rem_add r (k, i) o else r) in *.
    set (rk1 := if v <? o then rk_add rk k i else rk) in *.
    set (r2 := rem_touch r1 (k, i)) in *.
    destruct (fields k (S i) inp old r2 rk1) as [[b2 [r3 rk3]]| |] eqn:E; cbn [obind fst snd] in H; try discriminate.
    inversion H; subst. rewrite last_app_, last_cons_. apply (IH old k (S i) r2 rk1 b2 r' rk' E).
Qed.

Lemma keys_tr_last : forall inp old r rk nd r' rk',
  keys_loop inp old r rk = Val (nd, (r', rk')) ->
  last_or (keys_tr inp old r rk) (r, rk) = (r', rk').
Proof.
  induction inp as [|[k0 t0] rest IH]; intros old r rk nd r' rk' H.
  - cbn [keys_loop] in H. inversion H. reflexivity.
  - cbn [keys_loop keys_tr fst snd] in *. destruct (lookup k0 old) as [ot|].
    + destruct (fields k0 0 t0 ot r rk) as [[b [r1 rk1]]| |] eqn:E; cbn [obind fst snd] in H; try discriminate.
      destruct (keys_loop rest old r1 rk1) as [[nd2 [r2 rk2]]| |] eqn:E2; cbn [obind fst snd] in H; try discriminate.
      inversion H; subst.
      pose proof (fields_tr_last _ _ _ _ _ _ _ _ _ E) as HL. rewrite HL. cbn [fst snd].
      unfold last_or in *. rewrite last_app_, HL. apply (IH old r1 rk1 nd2 r' rk' E2).
    + destruct (keys_loop rest old r rk) as [[nd2 [r2 rk2]]| |] eqn:E2; cbn [obind fst snd] in H; try discriminate.
      inversion H; subst. apply (IH old r rk nd2 r' rk' E2).
Qed.

Lemma dset_lookup_same {A} (d : list (bytes * A)) k v : lookup k d = Some v -> dset k v d = d.
Proof.
  induction d as [|[k0 v0] d IH]; cbn [lookup dset fst snd]; [discriminate|].
  destruct (beqb k k0) eqn:E.
  - intros H. inversion H; subst. apply beqb_eq in E. subst. reflexivity.
  - intros H. rewrite IH by exact H. reflexivity.
Qed.

(* an exception before the first update leaves the state untouched *)
Theorem abort_first_untouched s f inp : hd s (run_points s f inp) = s.
Proof.
  unfold run_points. destruct (lookup f s) as [w|] eqn:E; [|reflexivity].
  cbn [map hd app]. destruct w as [c r rk]. cbn [w_cache w_rem w_rk fst snd]. apply dset_lookup_same. exact E.
Qed.

(* the last point is the completed call *)
Theorem abort_last_is_run s f inp s' o : run s f inp = Val (s', o) -> last (run_points s f inp) s = s'.
Proof.
  unfold run, run_points. destruct (lookup f s) as [w|] eqn:E.
  - unfold remove_dead_reminders.
    destruct (remove_gone (gone_keys (w_cache w) inp) (w_rem w) (w_rk w)) as [[r1 rk1]| |] eqn:E1; cbn [obind fst snd]; try discriminate.
    destruct (keys_loop inp (w_cache w) r1 rk1) as [[nd [r2 rk2]]| |] eqn:E2; cbn [obind fst snd]; try discriminate.
    intros H. inversion H; subst. rewrite last_app_. cbn [last].
    rewrite (remove_tr_last _ _ _ _ _ E1). cbn [fst snd]. rewrite (keys_tr_last _ _ _ _ _ _ _ E2). reflexivity.
  - cbn [obind fst snd]. intros H. inversion H; subst. reflexivity.
Qed.

(* ... but an exception between the offset update and the cache store does neither: the wrap
   100 -> 10 is counted again by the next call (210 answered; 110 demanded whether or not the
   failed call is taken to have happened) *)
Definition abort_pre : list wop := [WRun (bs "n") [(bs "a", [100])]].
Definition abort_call : dict := [(bs "a", [10])].
Theorem abort_in_commit_section_refuted :
  exists s p, wexec [] abort_pre = Val s /\ nth_error (run_points s (bs "n") abort_call) 1 = Some p /\
    wtrace p [WRun (bs "n") abort_call] = [Val (ODict [(bs "a", [210])])] /\
    spec_wtrace_total [] (abort_pre ++ [WRun (bs "n") abort_call]) =
      [Val (ODict [(bs "a", [100])]); Val (ODict [(bs "a", [110])])] /\
    spec_wtrace_total [] (abort_pre ++ [WRun (bs "n") abort_call; WRun (bs "n") abort_call]) =
      [Val (ODict [(bs "a", [100])]); Val (ODict [(bs "a", [110])]); Val (ODict [(bs "a", [110])])].
Proof. eexists. eexists. vm_compute. repeat split; reflexivity. Qed.

(* the source under test: every call / raise / assert of run, _remove_dead_reminders, _add_dict is one
   of the non-raising operations (and the table really is that of run(): it lists the call of _remove_dead_reminders) *)
From PV Require Import Gen.C10_Tables.
Theorem commit_section_cannot_raise :
  forallb op_safe gen_wrap_ops = true /\
  existsb (fun fo => beqb (fst fo) (bs "run") && beqb (snd fo) (bs "._remove_dead_reminders")) gen_wrap_ops = true.
Proof. vm_compute. split; reflexivity. Qed.
