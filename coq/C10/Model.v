(* C10 -- model of psutil/_common.py:_WrapNumbers (run, _remove_dead_reminders,
   _add_dict, cache_clear, cache_info), wrap_numbers, and of the two callers
   psutil/__init__.py:disk_io_counters / net_io_counters (front end around the
   platform function's raw dict).  Transcribed from the code; no proofs here.

   Data: a Python dict is an association list in insertion order (keys unique in
   Python; [lookup] takes the first binding).  Device names and function names
   are byte strings.  Counters are unbounded Z.
   The three dicts cache / reminders / reminder_keys of _WrapNumbers are always
   keyed by the same set of function names (_add_dict inserts into all three,
   cache_clear pops from all three), so the state is ONE map name -> (cache,
   reminders, reminder_keys); cache_info presents it as the three maps.
   run() executes under wrap_numbers' lock and cache_clear under the same lock,
   so each is one atomic step of the machine. *)
From PV Require Export Base.Bytes.

Notation key := bytes (only parsing).
Notation tuple := (list Z) (only parsing).
Notation dict := (list (bytes * list Z)) (only parsing).

Fixpoint lookup {A} (k : bytes) (d : list (bytes * A)) : option A :=
  match d with
  | [] => None
  | kv :: r => if beqb k (fst kv) then Some (snd kv) else lookup k r
  end.
Definition keys {A} (d : list (bytes * A)) : list bytes := map fst d.
Definition memk (k : bytes) (l : list bytes) : bool := existsb (beqb k) l.
(* d[k] = v : in place when present, appended otherwise *)
Fixpoint dset {A} (k : bytes) (v : A) (d : list (bytes * A)) : list (bytes * A) :=
  match d with
  | [] => [(k, v)]
  | kv :: r => if beqb k (fst kv) then (k, v) :: r else kv :: dset k v r
  end.
(* d.pop(k, None) *)
Definition dremove {A} (k : bytes) (d : list (bytes * A)) : list (bytes * A) :=
  filter (fun kv => negb (beqb k (fst kv))) d.

(* ---------------------------------------------------------------- reminders
   self.reminders[name] : defaultdict(int) keyed by remkey = (key, i) *)
Definition remkey := (key * nat)%type.
Definition rkeqb (a b : remkey) : bool := beqb (fst a) (fst b) && Nat.eqb (snd a) (snd b).
Definition rems := list (remkey * Z).

Fixpoint rem_find (r : rems) (x : remkey) : option Z :=
  match r with
  | [] => None
  | yw :: t => if rkeqb x (fst yw) then Some (snd yw) else rem_find t x
  end.
Definition rem_mem (r : rems) (x : remkey) : bool :=
  match rem_find r x with Some _ => true | None => false end.
(* value read (missing = the default 0) *)
Definition rem_get (r : rems) (x : remkey) : Z :=
  match rem_find r x with Some v => v | None => 0 end.
(* reading reminders[x] through the defaultdict inserts x -> 0 when missing *)
Definition rem_touch (r : rems) (x : remkey) : rems :=
  if rem_mem r x then r else r ++ [(x, 0)].
(* reminders[x] += v *)
Fixpoint rem_add (r : rems) (x : remkey) (v : Z) : rems :=
  match r with
  | [] => [(x, 0 + v)]
  | yw :: t => if rkeqb x (fst yw) then (fst yw, snd yw + v) :: t else yw :: rem_add t x v
  end.
(* del reminders[x] : KeyError when missing *)
Definition rem_del (r : rems) (x : remkey) : outcome rems :=
  if rem_mem r x then Val (filter (fun yw => negb (rkeqb x (fst yw))) r) else Exc KeyError.

(* ---------------------------------------------------------------- reminder_keys
   self.reminder_keys[name] : defaultdict(set) : key -> set of remkeys (key, i);
   the set is kept as the list of the indices i, without repetition *)
Definition rks := list (key * list nat).
Definition rk_get (rk : rks) (k : key) : list nat :=
  match lookup k rk with Some l => l | None => [] end.
Definition nat_mem (i : nat) (l : list nat) : bool := existsb (Nat.eqb i) l.
(* reminder_keys[key].add((key, i)) *)
Definition rk_add (rk : rks) (k : key) (i : nat) : rks :=
  let l := rk_get rk k in
  dset k (if nat_mem i l then l else l ++ [i]) rk.

(* ---------------------------------------------------------------- per-name state *)
Record wst := { w_cache : dict; w_rem : rems; w_rk : rks }.
Definition state := list (bytes * wst).

(* _remove_dead_reminders:
     gone_keys = set(old_dict.keys()) - set(input_dict.keys())
     for gone_key in gone_keys:
         for remkey in self.reminder_keys[name][gone_key]: del self.reminders[name][remkey]
         del self.reminder_keys[name][gone_key] *)
Fixpoint del_remkeys (r : rems) (k : key) (is : list nat) : outcome rems :=
  match is with
  | [] => Val r
  | i :: t => do r1 <- rem_del r (k, i); del_remkeys r1 k t
  end.
Fixpoint remove_gone (gone : list key) (r : rems) (rk : rks) : outcome (rems * rks) :=
  match gone with
  | [] => Val (r, rk)
  | g :: t => do r1 <- del_remkeys r g (rk_get rk g); remove_gone t r1 (dremove g rk)
  end.
Definition gone_keys (old inp : dict) : list key :=
  filter (fun k => negb (memk k (keys inp))) (keys old).
Definition remove_dead_reminders (inp : dict) (w : wst) : outcome (rems * rks) :=
  remove_gone (gone_keys (w_cache w) inp) (w_rem w) (w_rk w).

(* the inner loop of run():
     for i in range(len(input_tuple)):
         input_value = input_tuple[i]; old_value = old_tuple[i]      # IndexError when old is shorter
         remkey = (key, i)
         if input_value < old_value:
             self.reminders[name][remkey] += old_value
             self.reminder_keys[name][key].add(remkey)
         bits.append(input_value + self.reminders[name][remkey]) *)
Fixpoint fields (k : key) (i : nat) (inp old : tuple) (r : rems) (rk : rks)
  : outcome (tuple * (rems * rks)) :=
  match inp with
  | [] => Val ([], (r, rk))
  | v :: inp' =>
    match old with
    | [] => Exc IndexError
    | o :: old' =>
      let r1 := if v <? o then rem_add r (k, i) o else r in
      let rk1 := if v <? o then rk_add rk k i else rk in
      let r2 := rem_touch r1 (k, i) in
      do res <- fields k (S i) inp' old' r2 rk1;
      Val ((v + rem_get r2 (k, i)) :: fst res, snd res)
    end
  end.

(* the outer loop of run(): for key in input_dict *)
Fixpoint keys_loop (inp old : dict) (r : rems) (rk : rks) : outcome (dict * (rems * rks)) :=
  match inp with
  | [] => Val ([], (r, rk))
  | kt :: rest =>
    match lookup (fst kt) old with
    | None =>                                  (* new key: passed through *)
      do res <- keys_loop rest old r rk;
      Val (kt :: fst res, snd res)
    | Some ot =>
      do b <- fields (fst kt) 0 (snd kt) ot r rk;
      do res <- keys_loop rest old (fst (snd b)) (snd (snd b));
      Val ((fst kt, fst b) :: fst res, snd res)
    end
  end.

(* _WrapNumbers.run(input_dict, name) : new state and returned dict *)
Definition run (s : state) (f : bytes) (inp : dict) : outcome (state * dict) :=
  match lookup f s with
  | None => Val (dset f {| w_cache := inp; w_rem := []; w_rk := [] |} s, inp)   (* first call: _add_dict *)
  | Some w =>
    do rr <- remove_dead_reminders inp w;
    do res <- keys_loop inp (w_cache w) (fst rr) (snd rr);
    Val (dset f {| w_cache := inp; w_rem := fst (snd res); w_rk := snd (snd res) |} s, fst res)
  end.

(* ---------------------------------------------------------------- direct API:
   wrap_numbers(d, name), wrap_numbers.cache_clear(name), wrap_numbers.cache_clear() *)
Inductive wop := WRun (f : bytes) (d : dict) | WClear (f : bytes) | WClearAll.
Inductive wobs := ODict (d : dict) | ODone.

Definition wstep (s : state) (o : wop) : outcome (state * wobs) :=
  match o with
  | WRun f d => do r <- run s f d; Val (fst r, ODict (snd r))
  | WClear f => Val (dremove f s, ODone)
  | WClearAll => Val ([], ODone)
  end.

(* answers of a call sequence; the sequence ends at the first exception *)
Fixpoint wtrace (s : state) (ops : list wop) : list (outcome wobs) :=
  match ops with
  | [] => []
  | o :: rest =>
    match wstep s o with
    | Val (s', a) => Val a :: wtrace s' rest
    | Exc e => [Exc e]
    | OutOfModel => [OutOfModel]
    end
  end.
Fixpoint wexec (s : state) (ops : list wop) : outcome state :=
  match ops with
  | [] => Val s
  | o :: rest => do r <- wstep s o; wexec (fst r) rest
  end.

(* ---------------------------------------------------------------- the public callers
   def net_io_counters(pernic=False, nowrap=True):
       if nowrap:
           with _nowrap_lock:                      (commit 3202409; see the two-thread part below)
               rawdict = _psplatform.net_io_counters()
               rawdict = _wrap_numbers(rawdict, 'psutil.net_io_counters')
       else:
           rawdict = _psplatform.net_io_counters()
       if not rawdict: return {} if pernic else None
       if pernic: ... return rawdict      (values re-wrapped as namedtuples)
       else: return snetio( *[sum(x) for x in zip( *rawdict.values())])
   disk_io_counters is the same with 'psutil.disk_io_counters' / perdisk.
   [raw] of PCall is the dict the platform function returned for this call.
   [legacy = true] is the code before commit e278b23, where the empty test came
   first, so that an empty listing never reached the wrap step (kept for the
   refuted theorem and the revert self-test). *)
Inductive fn := Net | Disk.
Definition fname (f : fn) : bytes :=
  match f with Net => bs "psutil.net_io_counters" | Disk => bs "psutil.disk_io_counters" end.
Definition width (f : fn) : nat := match f with Net => 8%nat | Disk => 9%nat end.

Fixpoint zip_add (a b : tuple) : tuple :=
  match a, b with
  | x :: a', y :: b' => (x + y) :: zip_add a' b'
  | _, _ => []
  end.
(* [sum(x) for x in zip( *values)] for tuples of one width w *)
Definition totals (w : nat) (d : dict) : tuple :=
  fold_left zip_add (map snd d) (repeat 0 w).

Inductive pop := PCall (f : fn) (per nowrap : bool) (raw : dict) | PClear (f : fn).
Inductive pobs := PDict (d : dict) | PTotal (t : tuple) | PNone | PDone.

Definition raw_ok (f : fn) (raw : dict) : bool :=
  forallb (fun kt => Nat.eqb (length (snd kt)) (width f)) raw.
Definition is_empty {A} (l : list A) : bool := match l with [] => true | _ => false end.
Definition present (f : fn) (per : bool) (d : dict) : pobs :=
  if is_empty d then (if per then PDict [] else PNone)
  else if per then PDict d else PTotal (totals (width f) d).

Definition pstep (legacy : bool) (s : state) (o : pop) : outcome (state * pobs) :=
  match o with
  | PClear f => Val (dremove (fname f) s, PDone)
  | PCall f per nowrap raw =>
    if negb (raw_ok f raw) then OutOfModel        (* the platform layer always returns 8 / 9 fields *)
    else if legacy && is_empty raw then Val (s, present f per raw)
    else if nowrap then do r <- run s (fname f) raw; Val (fst r, present f per (snd r))
    else Val (s, present f per raw)
  end.

Fixpoint ptrace (legacy : bool) (s : state) (ops : list pop) : list (outcome pobs) :=
  match ops with
  | [] => []
  | o :: rest =>
    match pstep legacy s o with
    | Val (s', a) => Val a :: ptrace legacy s' rest
    | Exc e => [Exc e]
    | OutOfModel => [OutOfModel]
    end
  end.
Fixpoint pexec (legacy : bool) (s : state) (ops : list pop) : outcome state :=
  match ops with
  | [] => Val s
  | o :: rest => do r <- pstep legacy s o; pexec legacy (fst r) rest
  end.

(* ---------------------------------------------------------------- threads
   Any number of threads (tid : nat), each with at most one call in flight.
   A public call is split at the point where its thread can be pre-empted:
     CRead  = the platform read  rawdict = _psplatform.xxx_io_counters()
     CWrap  = the rest of the call (wrap step under _wn.lock, presentation, return)
   [raw] of CRead is what the kernel shows at the instant of the read.
   CClear = xxx_io_counters.cache_clear() (takes _wn.lock only, so it may fall
   between the read and the wrap step of a call in flight). *)
Inductive cstep :=
| CRead (tid : nat) (f : fn) (per nowrap : bool) (raw : dict)
| CWrap (tid : nat)
| CClear (tid : nat) (f : fn).

Definition slots (A : Type) := nat -> option A.           (* per thread: the call in flight *)
Definition pget {A} (p : slots A) (tid : nat) : option A := p tid.
Definition pset {A} (p : slots A) (tid : nat) (v : option A) : slots A :=
  fun t => if Nat.eqb tid t then v else p t.
Definition idle {A} : slots A := fun _ => None.

(* one step; the answer (if the step returns one to a caller) is tagged with the thread *)
Definition cstep_run (s : state) (p : slots pop) (c : cstep)
  : outcome ((state * slots pop) * option (nat * pobs)) :=
  match c with
  | CRead tid f per nowrap raw =>
    match pget p tid with
    | Some _ => OutOfModel                       (* the thread is inside a call *)
    | None => Val ((s, pset p tid (Some (PCall f per nowrap raw))), None)
    end
  | CWrap tid =>
    match pget p tid with
    | None => OutOfModel
    | Some call => do r <- pstep false s call; Val ((fst r, pset p tid None), Some (tid, snd r))
    end
  | CClear tid f =>
    match pget p tid with
    | Some _ => OutOfModel
    | None => do r <- pstep false s (PClear f); Val ((fst r, p), Some (tid, snd r))
    end
  end.

Fixpoint ctrace (s : state) (p : slots pop) (sched : list cstep) : list (outcome (nat * pobs)) :=
  match sched with
  | [] => []
  | c :: rest =>
    match cstep_run s p c with
    | Val (sp, Some a) => Val a :: ctrace (fst sp) (snd sp) rest
    | Val (sp, None) => ctrace (fst sp) (snd sp) rest
    | Exc e => [Exc e]
    | OutOfModel => [OutOfModel]
    end
  end.

(* Lock discipline (commit 3202409): a nowrap=True call holds _nowrap_lock from its
   platform read to the end of its wrap step; [holder] = the thread holding it.
   [lock_ok] = the schedule is possible under that lock (a nowrap=True read needs the
   lock free).  nowrap=False calls and cache_clear do not take it.  Without the lock
   every well-formed schedule is possible. *)
Definition release (holder : option nat) (tid : nat) : option nat :=
  match holder with Some h => if Nat.eqb h tid then None else holder | None => None end.
Fixpoint lock_ok (holder : option nat) (sched : list cstep) : bool :=
  match sched with
  | [] => true
  | CRead tid _ _ nowrap _ :: rest =>
    if nowrap then (match holder with None => lock_ok (Some tid) rest | Some _ => false end)
    else lock_ok holder rest
  | CWrap tid :: rest => lock_ok (release holder tid) rest
  | CClear _ _ :: rest => lock_ok holder rest
  end.

(* ---------------------------------------------------------------- cache_info()
     with self.lock: return (self.cache, self.reminders, self.reminder_keys)
   The three LIVE dicts are returned (no copy is made: a later run() changes what the
   caller holds).  The observation modelled is what they show at the call. *)
Definition cache_info (s : state) : (list (bytes * dict) * list (bytes * rems)) * list (bytes * rks) :=
  ((map (fun fw => (fst fw, w_cache (snd fw))) s, map (fun fw => (fst fw, w_rem (snd fw))) s),
   map (fun fw => (fst fw, w_rk (snd fw))) s).

(* ---------------------------------------------------------------- run() as a sequence of state updates
   An exception raised inside run() leaves the state as it is after the updates executed so
   far.  [run_points s f inp] lists the state before the first update and after each update of
   run(), in program order:
     _remove_dead_reminders: each  del self.reminders[name][remkey], then  del self.reminder_keys[name][gone_key]
     per key and field: [reminders[remkey] += old_value ; reminder_keys[key].add(remkey)] when wrapped,
                        then the defaultdict read reminders[remkey] (inserts a 0 entry when missing)
     last: self.cache[name] = input_dict
   (first call: _add_dict's three stores are taken as one update -- the merged map cannot
   represent a name present in only some of the three dicts). *)
Definition last_or {A} (l : list A) (d : A) : A := last l d.

Fixpoint del_tr (r : rems) (rk : rks) (k : key) (is : list nat) : list (rems * rks) :=
  match is with
  | [] => []
  | i :: t => match rem_del r (k, i) with
              | Val r1 => (r1, rk) :: del_tr r1 rk k t
              | _ => []
              end
  end.
Fixpoint remove_tr (gone : list key) (r : rems) (rk : rks) : list (rems * rks) :=
  match gone with
  | [] => []
  | g :: t =>
    let ds := del_tr r rk g (rk_get rk g) in
    let r1 := fst (last_or ds (r, rk)) in
    let rk1 := dremove g rk in
    ds ++ (r1, rk1) :: remove_tr t r1 rk1
  end.
Fixpoint fields_tr (k : key) (i : nat) (inp old : tuple) (r : rems) (rk : rks) : list (rems * rks) :=
  match inp, old with
  | v :: inp', o :: old' =>
    let r1 := if v <? o then rem_add r (k, i) o else r in
    let rk1 := if v <? o then rk_add rk k i else rk in
    let r2 := rem_touch r1 (k, i) in
    (if v <? o then [(r1, rk); (r1, rk1)] else []) ++ (r2, rk1) :: fields_tr k (S i) inp' old' r2 rk1
  | _, _ => []
  end.
Fixpoint keys_tr (inp old : dict) (r : rems) (rk : rks) : list (rems * rks) :=
  match inp with
  | [] => []
  | kt :: rest =>
    match lookup (fst kt) old with
    | None => keys_tr rest old r rk
    | Some ot =>
      let tr := fields_tr (fst kt) 0 (snd kt) ot r rk in
      tr ++ keys_tr rest old (fst (last_or tr (r, rk))) (snd (last_or tr (r, rk)))
    end
  end.

Definition run_points (s : state) (f : bytes) (inp : dict) : list state :=
  match lookup f s with
  | None => [s; dset f {| w_cache := inp; w_rem := []; w_rk := [] |} s]
  | Some w =>
    let tr1 := remove_tr (gone_keys (w_cache w) inp) (w_rem w) (w_rk w) in
    let m := last_or tr1 (w_rem w, w_rk w) in
    let tr2 := keys_tr inp (w_cache w) (fst m) (snd m) in
    let e := last_or tr2 m in
    map (fun p => dset f {| w_cache := w_cache w; w_rem := fst p; w_rk := snd p |} s)
        ((w_rem w, w_rk w) :: tr1 ++ tr2)
    ++ [dset f {| w_cache := inp; w_rem := fst e; w_rk := snd e |} s]
  end.

(* ---------------------------------------------------------------- os.fork()
   The child process starts with a copy of the parent's memory: the three dicts of _wn as they
   are at the fork.  psutil registers no at-fork handler that touches them (checked on the source
   by the generated table gen_fork_handlers), so fork is the identity on the wrap state, and the
   two processes go on independently.  [FFork child]: the process forks and the child makes the
   calls [child]; the parent continues with the rest of the list. *)
Inductive fop := FCall (o : pop) | FFork (child : list pop).

(* answers of the process itself, and the answers of each of its children (in fork order) *)
Fixpoint ftrace (s : state) (ops : list fop) : list (outcome pobs) * list (list (outcome pobs)) :=
  match ops with
  | [] => ([], [])
  | FCall o :: rest =>
    match pstep false s o with
    | Val (s', a) => let r := ftrace s' rest in (Val a :: fst r, snd r)
    | Exc e => ([Exc e], [])
    | OutOfModel => ([OutOfModel], [])
    end
  | FFork child :: rest =>
    let r := ftrace s rest in (fst r, ptrace false s child :: snd r)
  end.
