(* C10 -- os.fork(): the child continues the parent's history. *)
From PV Require Import C10.Spec C10.Proofs C10.ProofsConc.
Require Import Lia.

Lemma ftrace_refines : forall ops s g, Inv Wpub s g -> forallb fop_ok ops = true ->
  ftrace s ops = (map Val (fst (spec_ftrace g ops)), map (map Val) (snd (spec_ftrace g ops))).
Proof.
  induction ops as [|o ops IH]; intros s g HI Hok; [reflexivity|].
  cbn [forallb] in Hok. apply andb_true_iff in Hok as [Ho Hok]. destruct o as [c|child]; cbn [fop_ok] in Ho.
  - cbn [ftrace spec_ftrace]. destruct (pstep_refines false s g c HI Ho (or_introl eq_refl)) as [s' [E HI']].
    rewrite E. rewrite (IH s' _ HI' Hok). reflexivity.
  - cbn [ftrace spec_ftrace fst snd map]. rewrite (IH s g HI Hok). cbn [fst snd].
    rewrite (ptrace_refines false child s g HI Ho (or_introl eq_refl)). reflexivity.
Qed.

(* every history of calls and forks (any number of forks, forks of the parent only) *)
Theorem fork_exact ops : forallb fop_ok ops = true ->
  ftrace [] ops = (map Val (fst (spec_ftrace [] ops)), map (map Val) (snd (spec_ftrace [] ops))).
Proof. apply ftrace_refines. apply Inv_init. Qed.

Lemma spec_ftrace_calls : forall pre g rest,
  spec_ftrace g (map FCall pre ++ rest) =
  (spec_ptrace g pre ++ fst (spec_ftrace (spec_pexec g pre) rest), snd (spec_ftrace (spec_pexec g pre) rest)).
Proof.
  induction pre as [|o pre IH]; intros g rest; cbn [map app spec_ftrace spec_ptrace spec_pexec].
  - destruct (spec_ftrace g rest); reflexivity.
  - rewrite IH. reflexivity.
Qed.

(* the child's answers are those of the unforked continuation: what the same process would
   have answered had it made the child's calls itself *)
Theorem fork_child_continues pre child :
  snd (spec_ftrace [] (map FCall pre ++ [FFork child])) = [skipn (length pre) (spec_ptrace [] (pre ++ child))].
Proof.
  rewrite spec_ftrace_calls. cbn [spec_ftrace snd]. rewrite spec_ptrace_app.
  rewrite skipn_app, spec_ptrace_length, Nat.sub_diag. cbn [skipn].
  rewrite skipn_all2 by (rewrite spec_ptrace_length; lia). reflexivity.
Qed.

(* the parent's answers do not depend on the forks *)
Fixpoint calls_of (ops : list fop) : list pop :=
  match ops with [] => [] | FCall o :: r => o :: calls_of r | FFork _ :: r => calls_of r end.
Theorem fork_parent_unaffected : forall ops g, fst (spec_ftrace g ops) = spec_ptrace g (calls_of ops).
Proof.
  induction ops as [|o ops IH]; intros g; [reflexivity|]. destruct o as [c|child]; cbn [spec_ftrace calls_of spec_ptrace fst].
  - rewrite IH. reflexivity.
  - apply IH.
Qed.

Example fork_example :
  let ops := [ FCall (PCall Net true true (eth 100)); FCall (PCall Net true true (eth 10));
               FFork [PCall Net true true (eth 20); PCall Net true true (eth 5)];
               FCall (PCall Net true true (eth 30)) ] in
  forallb fop_ok ops = true /\
  ftrace [] ops = ([Val (PDict (eth 100)); Val (PDict (eth 110)); Val (PDict (eth 130))],
                   [[Val (PDict (eth 120)); Val (PDict (eth 125))]]).
Proof. vm_compute. split; reflexivity. Qed.

(* the source under test: no at-fork handler registered by psutil/_common.py or psutil/__init__.py
   touches the wrap state (cache / reminders / reminder_keys, a new _WrapNumbers, cache_clear) *)
From PV Require Import Gen.C10_Tables.
Theorem fork_handlers_keep_history : forallb handler_safe gen_fork_handlers = true.
Proof. vm_compute. reflexivity. Qed.
