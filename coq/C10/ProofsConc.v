(* C10 -- two threads: a public call split into platform read and wrap step.
   With _nowrap_lock (schedules satisfying [lock_ok]) every answer is the one
   demanded by the raw kernel readings in read order; without the lock a
   schedule exists in which a monotone kernel counter is answered too high. *)
From PV Require Import C10.Spec C10.Proofs.
Require Import Lia.

Lemma pget_pset {A} (p : slots A) t v t' : pget (pset p t v) t' = if Bool.eqb t t' then v else pget p t'.
Proof. destruct p as [a b], t, t'; reflexivity. Qed.

Definition slot_ok (g0 g : ghost) (call : option pop) (ans : option pobs) : Prop :=
  match call with
  | None => ans = None
  | Some (PCall f per false raw) => dict_ok (width f) raw = true /\ ans = Some (present f per raw)
  | Some (PCall f per true raw) =>
      dict_ok (width f) raw = true /\
      ans = Some (snd (spec_pstep g0 (PCall f per true raw))) /\
      g = fst (spec_pstep g0 (PCall f per true raw))
  | Some (PClear _) => False
  end.

Lemma slot_ok_indep g0 g g0' g' call ans :
  is_nowrap call = false -> slot_ok g0 g call ans -> slot_ok g0' g' call ans.
Proof.
  destruct call as [[f per [|] raw|f]|]; cbn [is_nowrap slot_ok]; try discriminate; auto.
Qed.

Definition R (s : state) (p : slots pop) (g : ghost) (sp : slots pobs) : Prop :=
  exists g0, Inv Wpub s g0 /\
    (forall t, slot_ok g0 g (pget p t) (pget sp t)) /\
    (lock_free p = true -> g = g0) /\
    is_nowrap (pget p false) && is_nowrap (pget p true) = false.

Lemma lock_free_pget p : lock_free p = negb (is_nowrap (pget p false)) && negb (is_nowrap (pget p true)).
Proof. destruct p; reflexivity. Qed.

Lemma lock_free_slot p t : lock_free p = true -> is_nowrap (pget p t) = false.
Proof.
  rewrite lock_free_pget. intros H. apply andb_true_iff in H as [H1 H2].
  apply negb_true_iff in H1. apply negb_true_iff in H2. destruct t; assumption.
Qed.

Lemma other_not_nowrap p t t' :
  is_nowrap (pget p false) && is_nowrap (pget p true) = false ->
  is_nowrap (pget p t) = true -> t' <> t -> is_nowrap (pget p t') = false.
Proof.
  intros H Ht Hne. destruct t, t'; try congruence.
  - rewrite Ht, andb_true_r in H. exact H.
  - rewrite Ht in H. exact H.
Qed.

Lemma lock_free_pset_non p tid call :
  is_nowrap (pget p tid) = false -> is_nowrap call = false -> lock_free (pset p tid call) = lock_free p.
Proof.
  destruct p as [a b], tid; unfold lock_free, pset, pget; cbn [fst snd]; intros H1 H2; rewrite H1, H2; reflexivity.
Qed.

Lemma eqb_false_neq t t' : Bool.eqb t t' = false -> t' <> t.
Proof. destruct t, t'; cbn; congruence. Qed.

Lemma locked_refines : forall sched s p g sp, R s p g sp ->
  sched_ok p sched = true -> lock_ok p sched = true -> clear_ok p sched = true ->
  ctrace s p sched = map Val (spec_ctrace g sp sched).
Proof.
  induction sched as [|c sched IH]; intros s p g sp HR Hs Hl Hc; [reflexivity|].
  destruct HR as [g0 [HI [Hslots [Hfree Hone]]]].
  destruct c as [tid f per nowrap raw|tid|tid f]; cbn [sched_ok lock_ok clear_ok] in Hs, Hl, Hc.
  - (* platform read *)
    apply andb_true_iff in Hs as [Hs Hs']. apply andb_true_iff in Hs as [Hidle Hd].
    apply andb_true_iff in Hl as [Hlk Hl'].
    destruct (pget p tid) eqn:Ep; [discriminate|].
    cbn [ctrace cstep_run spec_ctrace spec_cstep fst snd]. rewrite Ep. cbn [fst snd].
    apply IH; try assumption.
    destruct nowrap.
    + (* takes the lock *)
      cbn [negb orb] in Hlk. pose proof (Hfree Hlk) as Eg. subst g0.
      exists g. split; [exact HI|]. split; [|split].
      * intros t. rewrite !pget_pset. destruct (Bool.eqb tid t) eqn:Et.
        -- cbn [slot_ok]. split; [exact Hd|]. split; reflexivity.
        -- apply (slot_ok_indep g g); [apply lock_free_slot; exact Hlk | apply Hslots].
      * intros Hf. exfalso. pose proof (lock_free_slot _ tid Hf) as Hx. rewrite pget_pset in Hx.
        replace (Bool.eqb tid tid) with true in Hx by (destruct tid; reflexivity). discriminate.
      * rewrite !pget_pset. pose proof (lock_free_slot p false Hlk). pose proof (lock_free_slot p true Hlk).
        destruct tid; cbn [Bool.eqb]; [rewrite H; reflexivity | rewrite H0; apply andb_false_r].
    + (* lock-free read *)
      cbn [spec_pstep fst snd]. exists g0. split; [exact HI|]. split; [|split].
      * intros t. rewrite !pget_pset. destruct (Bool.eqb tid t) eqn:Et.
        -- cbn [slot_ok]. split; [exact Hd | reflexivity].
        -- apply Hslots.
      * intros Hf. apply Hfree. rewrite lock_free_pset_non in Hf; [exact Hf | rewrite Ep; reflexivity | reflexivity].
      * rewrite !pget_pset. destruct tid; cbn [Bool.eqb is_nowrap andb]; [apply andb_false_r | reflexivity].
  - (* wrap step and return *)
    apply andb_true_iff in Hs as [Hfl Hs'].
    destruct (pget p tid) as [call|] eqn:Ep; [|discriminate].
    pose proof (Hslots tid) as Hslot. rewrite Ep in Hslot.
    destruct call as [f per nowrap raw|f]; [|contradiction].
    cbn [ctrace cstep_run spec_ctrace spec_cstep fst snd]. rewrite Ep.
    destruct nowrap; cbn [slot_ok] in Hslot.
    + destruct Hslot as [Hd [Ea Eg]].
      destruct (pstep_refines false s g0 (PCall f per true raw) HI Hd (or_introl eq_refl)) as [s' [E HI']].
      rewrite E. cbn [obind fst snd]. rewrite Ea. cbn [map]. f_equal.
      apply IH; try assumption.
      exists g. split; [rewrite Eg; exact HI'|]. split; [|split].
      * intros t. rewrite !pget_pset. destruct (Bool.eqb tid t) eqn:Et; [reflexivity|].
        apply (slot_ok_indep g0 g); [|apply Hslots].
        apply (other_not_nowrap p tid t Hone); [rewrite Ep; reflexivity | apply eqb_false_neq; exact Et].
      * reflexivity.
      * rewrite !pget_pset. destruct tid; cbn [Bool.eqb is_nowrap andb]; [apply andb_false_r | reflexivity].
    + destruct Hslot as [Hd Ea].
      rewrite (nowrap_false_raw false s f per raw (dict_ok_raw_ok f raw Hd)). cbn [obind fst snd]. rewrite Ea. cbn [map]. f_equal.
      apply IH; try assumption.
      exists g0. split; [exact HI|]. split; [|split].
      * intros t. rewrite !pget_pset. destruct (Bool.eqb tid t) eqn:Et; [reflexivity | apply Hslots].
      * intros Hf. apply Hfree. rewrite lock_free_pset_non in Hf; [exact Hf | rewrite Ep; reflexivity | reflexivity].
      * rewrite !pget_pset. destruct tid; cbn [Bool.eqb is_nowrap andb]; [apply andb_false_r | reflexivity].
  - (* cache_clear *)
    apply andb_true_iff in Hs as [Hidle Hs']. apply andb_true_iff in Hc as [Hlf Hc'].
    destruct (pget p tid) eqn:Ep; [discriminate|].
    cbn [ctrace cstep_run spec_ctrace spec_cstep pstep obind fst snd]. rewrite Ep. cbn [obind fst snd map]. f_equal.
    pose proof (Hfree Hlf) as Eg. subst g0.
    apply IH; try assumption.
    exists (dremove (fname f) g). split; [apply Inv_clear; exact HI|]. split; [|split].
    + intros t. apply (slot_ok_indep g g); [apply lock_free_slot; exact Hlf | apply Hslots].
    + reflexivity.
    + exact Hone.
Qed.

(* the code with _nowrap_lock: every possible schedule of two threads *)
Theorem locked_exact sched :
  sched_ok (None, None) sched = true -> lock_ok (None, None) sched = true -> clear_ok (None, None) sched = true ->
  ctrace [] (None, None) sched = map Val (spec_ctrace [] (None, None) sched).
Proof.
  apply locked_refines. exists []. split; [apply Inv_init|]. split; [|split].
  - intros t. destruct t; reflexivity.
  - reflexivity.
  - reflexivity.
Qed.

(* the code without the lock: thread A is pre-empted between its read (150) and its wrap step *)
Definition eth (v : Z) : dict := [(bs "eth0", [0; v; 0; 0; 0; 0; 0; 0])].
Definition race_sched : list cstep :=
  [ CRead false Net true true (eth 100); CWrap false;
    CRead false Net true true (eth 150);
    CRead true Net true true (eth 200); CWrap true;
    CWrap false;
    CRead true Net true true (eth 210); CWrap true ].

Theorem unlocked_refuted :
  exists sched, sched_ok (None, None) sched = true /\ clear_ok (None, None) sched = true /\
    lock_ok (None, None) sched = false /\
    (* the readings, in read order, never go backwards: the demanded answers are the raw readings *)
    spec_ctrace [] (None, None) sched =
      [(false, PDict (eth 100)); (true, PDict (eth 200)); (false, PDict (eth 150)); (true, PDict (eth 210))] /\
    ctrace [] (None, None) sched =
      [Val (false, PDict (eth 100)); Val (true, PDict (eth 200)); Val (false, PDict (eth 350)); Val (true, PDict (eth 410))].
Proof. exists race_sched. vm_compute. repeat split; reflexivity. Qed.

(* the hypotheses of locked_exact are satisfiable by a schedule with overlapping calls *)
Example locked_example :
  let sched := [ CRead false Net true true (eth 100); CRead true Net true false (eth 120); CWrap false; CWrap true;
                 CRead true Disk true true []; CRead false Net false false (eth 90); CWrap true; CClear true Net; CWrap false;
                 CRead false Net true true (eth 50); CWrap false ] in
  sched_ok (None, None) sched = true /\ lock_ok (None, None) sched = true /\ clear_ok (None, None) sched = true.
Proof. vm_compute. repeat split; reflexivity. Qed.
