(* C10 -- threads: a public call split into platform read and wrap step, any number
   of threads, cache_clear anywhere.
   1. every well-formed schedule is linearised by [lin] (calls at their wrap step):
      the answers are those of the sequential specification on that history;
   2. under _nowrap_lock ([lock_ok]) the nowrap=True listings appear in that history
      in the order they were read;
   3. read-time reading: under the lock, without a clear overlapping a nowrap call,
      every answer is the one fixed at the call's read; without the lock a schedule
      exists in which a monotone kernel counter is answered too high. *)
From PV Require Import C10.Spec C10.Proofs.
Require Import Lia.

Lemma pget_pset {A} (p : slots A) t v t' : pget (pset p t v) t' = if Nat.eqb t t' then v else pget p t'.
Proof. reflexivity. Qed.

(* ------------------------------------------------------------ 1. linearisation *)
Fixpoint tag (tids : list nat) (tr : list (outcome pobs)) : list (outcome (nat * pobs)) :=
  match tids, tr with
  | t :: ts, Val a :: r => Val (t, a) :: tag ts r
  | _ :: _, Exc e :: _ => [Exc e]
  | _ :: _, OutOfModel :: _ => [OutOfModel]
  | _, _ => []
  end.

Lemma ctrace_lin : forall sched s p, sched_ok p sched = true ->
  ctrace s p sched = tag (map fst (lin p sched)) (ptrace false s (map snd (lin p sched))).
Proof.
  induction sched as [|c sched IH]; intros s p Hs; [reflexivity|].
  destruct c as [tid f per nowrap raw|tid|tid f]; cbn [sched_ok] in Hs.
  - apply andb_true_iff in Hs as [Hs Hs']. apply andb_true_iff in Hs as [Hidle _].
    cbn [ctrace cstep_run lin]. destruct (pget p tid); [discriminate|]. cbn [fst snd]. apply IH. exact Hs'.
  - apply andb_true_iff in Hs as [Hfl Hs'].
    cbn [ctrace cstep_run lin]. destruct (pget p tid) as [call|]; [|discriminate].
    cbn [map fst snd ptrace]. destruct (pstep false s call) as [[s' a]| |]; cbn [obind fst snd tag]; try reflexivity.
    f_equal. apply IH. exact Hs'.
  - apply andb_true_iff in Hs as [Hidle Hs'].
    cbn [ctrace cstep_run lin]. destruct (pget p tid); [discriminate|].
    cbn [map fst snd ptrace pstep obind tag]. f_equal. apply IH. exact Hs'.
Qed.

Lemma tag_map_Val : forall tids l, length tids = length l -> tag tids (map Val l) = map Val (combine tids l).
Proof.
  induction tids as [|t tids IH]; intros [|a l] H; cbn [length] in H; try discriminate; cbn [map tag combine]; [reflexivity|].
  f_equal. apply IH. lia.
Qed.
Lemma spec_ptrace_length : forall ops g, length (spec_ptrace g ops) = length ops.
Proof. induction ops as [|o ops IH]; intros g; cbn [spec_ptrace length]; [reflexivity|]. rewrite IH. reflexivity. Qed.

Lemma lin_pop_ok : forall sched p, (forall t c, pget p t = Some c -> pop_ok c = true) ->
  sched_ok p sched = true -> forallb pop_ok (map snd (lin p sched)) = true.
Proof.
  induction sched as [|c sched IH]; intros p Hp Hs; [reflexivity|].
  destruct c as [tid f per nowrap raw|tid|tid f]; cbn [sched_ok] in Hs; cbn [lin].
  - apply andb_true_iff in Hs as [Hs Hs']. apply andb_true_iff in Hs as [_ Hd].
    apply IH; [|exact Hs']. intros t c. rewrite pget_pset. destruct (Nat.eqb tid t); [|apply Hp].
    intros E. inversion E; subst. exact Hd.
  - apply andb_true_iff in Hs as [Hfl Hs']. destruct (pget p tid) as [call|] eqn:Ep; [|discriminate].
    cbn [map snd forallb]. rewrite (Hp tid call Ep). cbn [andb].
    apply IH; [|exact Hs']. intros t c. rewrite pget_pset. destruct (Nat.eqb tid t); [discriminate | apply Hp].
  - apply andb_true_iff in Hs as [_ Hs']. cbn [map snd forallb pop_ok andb]. apply IH; assumption.
Qed.

Theorem threads_linearised sched : sched_ok idle sched = true ->
  ctrace [] idle sched =
  map Val (combine (map fst (lin idle sched)) (spec_ptrace [] (map snd (lin idle sched)))).
Proof.
  intros Hs. rewrite (ctrace_lin sched [] idle Hs).
  rewrite public_exact by (apply lin_pop_ok; [intros t c E; discriminate | exact Hs]).
  apply tag_map_Val. rewrite spec_ptrace_length, !map_length. reflexivity.
Qed.

(* ------------------------------------------------------------ 2. kernel order under the lock *)
Definition is_nwo (o : option pop) : bool := match o with Some c => is_nw c | None => false end.
Definition held (holder : option nat) (p : slots pop) : list pop :=
  match holder with
  | Some h => match pget p h with Some c => [c] | None => [] end
  | None => []
  end.
(* the lock holder is the one thread with a nowrap=True call in flight *)
Definition HI (holder : option nat) (p : slots pop) : Prop :=
  (holder = None -> forall t, is_nwo (pget p t) = false) /\
  (forall h, holder = Some h -> is_nwo (pget p h) = true /\ forall t, t <> h -> is_nwo (pget p t) = false).

Lemma HI_idle : HI None (@idle pop).
Proof. split; [intros _ t; reflexivity | intros h E; discriminate]. Qed.

Lemma HI_step holder p c : HI holder p -> sched_ok p [c] = true -> lock_ok holder [c] = true ->
  match c with
  | CRead tid f per nowrap raw => HI (if nowrap then Some tid else holder) (pset p tid (Some (PCall f per nowrap raw)))
  | CWrap tid => HI (release holder tid) (pset p tid None)
  | CClear _ _ => HI holder p
  end.
Proof.
  intros [H0 H1] Hs Hl. destruct c as [tid f per nowrap raw|tid|tid f]; cbn [sched_ok lock_ok] in Hs, Hl.
  - apply andb_true_iff in Hs as [Hs _]. apply andb_true_iff in Hs as [Hidle _].
    destruct (pget p tid) eqn:Ep; [discriminate|]. destruct nowrap.
    + destruct holder as [h|]; [discriminate|]. split; [discriminate|].
      intros h E. inversion E; subst h. split.
      * rewrite pget_pset, Nat.eqb_refl. reflexivity.
      * intros t Hne. rewrite pget_pset. destruct (Nat.eqb_spec tid t); [congruence|]. apply H0. reflexivity.
    + split.
      * intros E t. rewrite pget_pset. destruct (Nat.eqb tid t); [reflexivity | apply H0; exact E].
      * intros h E. destruct (H1 h E) as [Ha Hb]. split.
        -- rewrite pget_pset. destruct (Nat.eqb_spec tid h); [|exact Ha]. subst. rewrite Ep in Ha. discriminate.
        -- intros t Hne. rewrite pget_pset. destruct (Nat.eqb tid t); [reflexivity | apply Hb; exact Hne].
  - unfold release. destruct holder as [h|].
    + destruct (H1 h eq_refl) as [Ha Hb]. destruct (Nat.eqb_spec h tid).
      * subst. split; [|discriminate]. intros _ t. rewrite pget_pset. destruct (Nat.eqb_spec tid t); [reflexivity|].
        apply Hb. congruence.
      * split; [discriminate|]. intros h' E. inversion E; subst h'. split.
        -- rewrite pget_pset. destruct (Nat.eqb_spec tid h); [congruence | exact Ha].
        -- intros t Hne. rewrite pget_pset. destruct (Nat.eqb tid t); [reflexivity | apply Hb; exact Hne].
    + split; [|discriminate]. intros _ t. rewrite pget_pset. destruct (Nat.eqb tid t); [reflexivity | apply H0; reflexivity].
  - split; assumption.
Qed.

Lemma held_length holder p : (length (held holder p) <= 1)%nat.
Proof. unfold held. destruct holder as [h|]; [destruct (pget p h)|]; cbn; lia. Qed.

(* the calls that have returned are, in the history, in the order of their reads; [tail] = the
   nowrap=True call still in flight when the schedule ends (at most one) *)
Lemma locked_order : forall sched holder p, HI holder p ->
  sched_ok p sched = true -> lock_ok holder sched = true ->
  exists tail, held holder p ++ reads_nowrap sched = nowrap_calls (map snd (lin p sched)) ++ tail
               /\ (length tail <= 1)%nat.
Proof.
  induction sched as [|c sched IH]; intros holder p HH Hs Hl.
  - exists (held holder p). cbn [lin map nowrap_calls filter reads_nowrap app]. rewrite app_nil_r.
    split; [reflexivity | apply held_length].
  - assert (Hs1 : sched_ok p [c] = true).
    { destruct c; cbn [sched_ok] in *; apply andb_true_iff in Hs as [Hs _]; rewrite Hs; reflexivity. }
    assert (Hl1 : lock_ok holder [c] = true).
    { destruct c as [tid f per nowrap raw|tid|tid f]; cbn [lock_ok] in *; auto.
      destruct nowrap; auto. destruct holder; auto. }
    pose proof (HI_step holder p c HH Hs1 Hl1) as HH'. clear Hs1 Hl1.
    destruct HH as [H0 H1].
    destruct c as [tid f per nowrap raw|tid|tid f]; cbn [sched_ok lock_ok] in Hs, Hl.
    + apply andb_true_iff in Hs as [Hs Hs']. apply andb_true_iff in Hs as [Hidle _].
      destruct (pget p tid) eqn:Ep; [discriminate|]. cbn [lin]. destruct nowrap.
      * destruct holder as [h|]; [discriminate|].
        destruct (IH (Some tid) _ HH' Hs' Hl) as [tail [E Ht]]. exists tail. split; [|exact Ht].
        rewrite <- E. cbn [reads_nowrap held app]. rewrite pget_pset, Nat.eqb_refl. reflexivity.
      * destruct (IH holder _ HH' Hs' Hl) as [tail [E Ht]]. exists tail. split; [|exact Ht].
        rewrite <- E. cbn [reads_nowrap]. f_equal. unfold held. destruct holder as [h|]; [|reflexivity].
        rewrite pget_pset. destruct (Nat.eqb_spec tid h); [|reflexivity].
        subst. destruct (H1 h eq_refl) as [Ha _]. rewrite Ep in Ha. discriminate.
    + apply andb_true_iff in Hs as [Hfl Hs'].
      destruct (pget p tid) as [call|] eqn:Ep; [|discriminate]. cbn [lin]. rewrite Ep.
      destruct (IH (release holder tid) _ HH' Hs' Hl) as [tail [E Ht]]. exists tail. split; [|exact Ht].
      cbn [map snd nowrap_calls filter reads_nowrap]. fold (nowrap_calls (map snd (lin (pset p tid None) sched))).
      unfold release in E. destruct holder as [h|].
      * destruct (H1 h eq_refl) as [Ha Hb]. destruct (Nat.eqb_spec h tid).
        -- subst h. unfold is_nwo in Ha. rewrite Ep in Ha. rewrite Ha. cbn [held] in *. rewrite Ep.
           cbn [app] in *. rewrite E. reflexivity.
        -- assert (Hc : is_nw call = false).
           { pose proof (Hb tid (not_eq_sym n)) as Hx. unfold is_nwo in Hx. rewrite Ep in Hx. exact Hx. }
           rewrite Hc. rewrite <- E. f_equal. unfold held. rewrite pget_pset.
           destruct (Nat.eqb_spec tid h); [congruence | reflexivity].
      * assert (Hc : is_nw call = false).
        { pose proof (H0 eq_refl tid) as Hx. unfold is_nwo in Hx. rewrite Ep in Hx. exact Hx. }
        rewrite Hc. exact E.
    + apply andb_true_iff in Hs as [_ Hs']. cbn [lin map snd nowrap_calls filter is_nw reads_nowrap].
      apply (IH holder p HH' Hs' Hl).
Qed.

Theorem threads_locked_kernel_order sched :
  sched_ok idle sched = true -> lock_ok None sched = true ->
  exists tail, reads_nowrap sched = nowrap_calls (map snd (lin idle sched)) ++ tail /\ (length tail <= 1)%nat.
Proof. intros Hs Hl. apply (locked_order sched None idle HI_idle Hs Hl). Qed.

(* ------------------------------------------------------------ 3. read-time reading *)
Definition is_nowrap (o : option pop) : bool := is_nwo o.

Definition slot_ok (g0 g : ghost) (call : option pop) (ans : option pobs) : Prop :=
  match call with
  | None => ans = None
  | Some (PCall f per false raw) => dict_ok (width f) raw = true /\ ans = Some (present f per raw)
  | Some (PCall f per true raw) =>
      dict_ok (width f) raw = true /\
      ans = Some (snd (spec_pstep g0 (PCall f per true raw))) /\
      g = fst (spec_pstep g0 (PCall f per true raw))
  | Some (PClear _) => False
  end.

Lemma slot_ok_indep g0 g g0' g' call ans :
  is_nowrap call = false -> slot_ok g0 g call ans -> slot_ok g0' g' call ans.
Proof.
  destruct call as [[f per [|] raw|f]|]; cbn [is_nowrap is_nwo is_nw slot_ok]; try discriminate; auto.
Qed.

(* the state refines the ghost as it was before the in-flight nowrap=True call was read *)
Definition R (holder : option nat) (s : state) (p : slots pop) (g : ghost) (sp : slots pobs) : Prop :=
  exists g0, Inv Wpub s g0 /\
    (forall t, slot_ok g0 g (pget p t) (pget sp t)) /\
    (holder = None -> g = g0) /\ HI holder p.

Lemma locked_refines : forall sched holder s p g sp, R holder s p g sp ->
  sched_ok p sched = true -> lock_ok holder sched = true -> clear_ok holder sched = true ->
  ctrace s p sched = map Val (spec_ctrace g sp sched).
Proof.
  induction sched as [|c sched IH]; intros holder s p g sp HR Hs Hl Hc; [reflexivity|].
  destruct HR as [g0 [HI0 [Hslots [Hfree HH]]]].
  assert (Hs1 : sched_ok p [c] = true).
  { destruct c; cbn [sched_ok] in *; apply andb_true_iff in Hs as [Hs _]; rewrite Hs; reflexivity. }
  assert (Hl1 : lock_ok holder [c] = true).
  { destruct c as [tid f per nowrap raw|tid|tid f]; cbn [lock_ok] in *; auto.
    destruct nowrap; auto. destruct holder; auto. }
  pose proof (HI_step holder p c HH Hs1 Hl1) as HH'. clear Hs1 Hl1.
  destruct HH as [H0 H1].
  destruct c as [tid f per nowrap raw|tid|tid f]; cbn [sched_ok lock_ok clear_ok] in Hs, Hl, Hc.
  - (* platform read *)
    apply andb_true_iff in Hs as [Hs Hs']. apply andb_true_iff in Hs as [Hidle Hd].
    destruct (pget p tid) eqn:Ep; [discriminate|].
    cbn [ctrace cstep_run spec_ctrace spec_cstep fst snd]. rewrite Ep. cbn [fst snd].
    destruct nowrap.
    + (* takes the lock *)
      destruct holder as [h|]; [discriminate|]. pose proof (Hfree eq_refl) as Eg. subst g0.
      apply (IH (Some tid)); try assumption.
      exists g. split; [exact HI0|]. split; [|split; [discriminate | exact HH']].
      intros t. rewrite !pget_pset. destruct (Nat.eqb tid t) eqn:Et.
      * cbn [slot_ok]. split; [exact Hd|]. split; reflexivity.
      * apply (slot_ok_indep g g); [apply (H0 eq_refl t) | apply Hslots].
    + (* lock-free read *)
      cbn [spec_pstep fst snd]. apply (IH holder); try assumption.
      exists g0. split; [exact HI0|]. split; [|split; [exact Hfree | exact HH']].
      intros t. rewrite !pget_pset. destruct (Nat.eqb tid t) eqn:Et.
      * cbn [slot_ok]. split; [exact Hd | reflexivity].
      * apply Hslots.
  - (* wrap step and return *)
    apply andb_true_iff in Hs as [Hfl Hs'].
    destruct (pget p tid) as [call|] eqn:Ep; [|discriminate].
    pose proof (Hslots tid) as Hslot. rewrite Ep in Hslot.
    destruct call as [f per nowrap raw|f]; [|contradiction].
    cbn [ctrace cstep_run spec_ctrace spec_cstep fst snd]. rewrite Ep.
    destruct nowrap; cbn [slot_ok] in Hslot.
    + destruct Hslot as [Hd [Ea Eg]].
      (* the thread wrapping a nowrap=True call is the lock holder *)
      assert (Eh : holder = Some tid).
      { destruct holder as [h|].
        - destruct (Nat.eq_dec tid h) as [->|Hne]; [reflexivity|]. destruct (H1 h eq_refl) as [_ Hb].
          pose proof (Hb tid Hne) as Hx. rewrite Ep in Hx. discriminate.
        - pose proof (H0 eq_refl tid) as Hx. rewrite Ep in Hx. discriminate. }
      subst holder. unfold release in *. rewrite Nat.eqb_refl in *.
      destruct (pstep_refines false s g0 (PCall f per true raw) HI0 Hd (or_introl eq_refl)) as [s' [E HI']].
      rewrite E. cbn [obind fst snd]. rewrite Ea. cbn [map]. f_equal.
      apply (IH None); try assumption.
      exists g. split; [rewrite Eg; exact HI'|]. split; [|split; [reflexivity | exact HH']].
      intros t. rewrite !pget_pset. destruct (Nat.eqb_spec tid t); [reflexivity|].
      apply (slot_ok_indep g0 g); [|apply Hslots].
      destruct (H1 tid eq_refl) as [_ Hb]. apply Hb. congruence.
    + destruct Hslot as [Hd Ea].
      rewrite (nowrap_false_raw false s f per raw (dict_ok_raw_ok f raw Hd)). cbn [obind fst snd]. rewrite Ea. cbn [map]. f_equal.
      (* a lock-free call returning leaves the holder in place *)
      assert (Er : release holder tid = holder).
      { unfold release. destruct holder as [h|]; [|reflexivity]. destruct (Nat.eqb_spec h tid); [|reflexivity].
        subst h. destruct (H1 tid eq_refl) as [Ha _]. rewrite Ep in Ha. discriminate. }
      rewrite Er in *.
      apply (IH holder); try assumption.
      exists g0. split; [exact HI0|]. split; [|split; [exact Hfree | exact HH']].
      intros t. rewrite !pget_pset. destruct (Nat.eqb tid t) eqn:Et; [reflexivity | apply Hslots].
  - (* cache_clear, no nowrap=True call in flight *)
    apply andb_true_iff in Hs as [Hidle Hs']. apply andb_true_iff in Hc as [Hlf Hc'].
    destruct holder as [h|]; [discriminate|].
    destruct (pget p tid) eqn:Ep; [discriminate|].
    cbn [ctrace cstep_run spec_ctrace spec_cstep pstep obind fst snd]. rewrite Ep. cbn [obind fst snd map]. f_equal.
    pose proof (Hfree eq_refl) as Eg. subst g0.
    apply (IH None); try assumption.
    exists (dremove (fname f) g). split; [apply Inv_clear; exact HI0|]. split; [|split; [reflexivity | exact HH']].
    intros t. apply (slot_ok_indep g g); [apply (H0 eq_refl t) | apply Hslots].
Qed.

Theorem locked_exact sched :
  sched_ok idle sched = true -> lock_ok None sched = true -> clear_ok None sched = true ->
  ctrace [] idle sched = map Val (spec_ctrace [] idle sched).
Proof.
  apply (locked_refines sched None). exists []. split; [apply Inv_init|]. split; [|split].
  - intros t. reflexivity.
  - reflexivity.
  - apply HI_idle.
Qed.

(* the code without the lock: thread 0 is pre-empted between its read (150) and its wrap step *)
Definition eth (v : Z) : dict := [(bs "eth0", [0; v; 0; 0; 0; 0; 0; 0])].
Definition race_sched : list cstep :=
  [ CRead 0 Net true true (eth 100); CWrap 0;
    CRead 0 Net true true (eth 150);
    CRead 1 Net true true (eth 200); CWrap 1;
    CWrap 0;
    CRead 1 Net true true (eth 210); CWrap 1 ].

Theorem unlocked_refuted :
  exists sched, sched_ok idle sched = true /\ clear_ok None sched = true /\ lock_ok None sched = false /\
    (* the listings in read order never go backwards ... *)
    reads_nowrap sched = [PCall Net true true (eth 100); PCall Net true true (eth 150);
                          PCall Net true true (eth 200); PCall Net true true (eth 210)] /\
    (* ... but reach the history out of order ... *)
    nowrap_calls (map snd (lin idle sched)) = [PCall Net true true (eth 100); PCall Net true true (eth 200);
                                                PCall Net true true (eth 150); PCall Net true true (eth 210)] /\
    (* ... demanded: the raw readings; answered: 350 for 150 and 410 for 210 *)
    spec_ctrace [] idle sched =
      [(0%nat, PDict (eth 100)); (1%nat, PDict (eth 200)); (0%nat, PDict (eth 150)); (1%nat, PDict (eth 210))] /\
    ctrace [] idle sched =
      [Val (0%nat, PDict (eth 100)); Val (1%nat, PDict (eth 200)); Val (0%nat, PDict (eth 350)); Val (1%nat, PDict (eth 410))].
Proof. exists race_sched. vm_compute. repeat split; reflexivity. Qed.

(* the hypotheses are satisfiable: three threads, both functions, overlapping calls, a clear
   while a lock-free call is in flight (locked_exact), and a clear while a nowrap=True call is in
   flight (threads_linearised / threads_locked_kernel_order) *)
Example locked_example :
  let sched := [ CRead 0 Net true true (eth 100); CRead 1 Net true false (eth 120); CRead 2 Disk false false [];
                 CWrap 0; CWrap 2; CWrap 1;
                 CRead 1 Disk true true []; CRead 0 Net false false (eth 90); CWrap 1; CClear 2 Net; CWrap 0;
                 CRead 0 Net true true (eth 50); CWrap 0 ] in
  sched_ok idle sched = true /\ lock_ok None sched = true /\ clear_ok None sched = true.
Proof. vm_compute. repeat split; reflexivity. Qed.
Example overlapping_clear_example :
  let sched := [ CRead 0 Net true true (eth 100); CWrap 0;
                 CRead 0 Net true true (eth 40); CClear 1 Net; CWrap 0;      (* clear between read and wrap *)
                 CRead 2 Net true true (eth 30); CWrap 2 ] in
  sched_ok idle sched = true /\ lock_ok None sched = true /\ clear_ok None sched = false /\
  ctrace [] idle sched = [Val (0%nat, PDict (eth 100)); Val (1%nat, PDone); Val (0%nat, PDict (eth 40)); Val (2%nat, PDict (eth 70))].
Proof. vm_compute. repeat split; reflexivity. Qed.

(* ------------------------------------------------------------ cache_clear forgets, every interleaving *)
Lemma spec_ptrace_app : forall a b g,
  spec_ptrace g (a ++ b) = spec_ptrace g a ++ spec_ptrace (spec_pexec g a) b.
Proof. induction a as [|o a IH]; intros b g; cbn [app spec_ptrace spec_pexec]; [reflexivity|]. rewrite IH. reflexivity. Qed.

Lemma combine_app {A B} : forall (a a' : list A) (b b' : list B), length a = length b ->
  combine (a ++ a') (b ++ b') = combine a b ++ combine a' b'.
Proof.
  induction a as [|x a IH]; intros a' [|y b] b' H; cbn [length] in H; try discriminate; cbn [app combine]; [reflexivity|].
  f_equal. apply IH. lia.
Qed.

(* In EVERY well-formed schedule (any number of threads, locked or not, clears anywhere): if in the
   history a cache_clear of f is followed -- after steps that do not feed f's history -- by a
   nowrap=True call of f, that call is answered with its raw listing. *)
Theorem threads_clear_forgets sched L1 t L2 t' f per raw L3 :
  sched_ok idle sched = true ->
  lin idle sched = L1 ++ (t, PClear f) :: L2 ++ (t', PCall f per true raw) :: L3 ->
  no_feed f (map snd L2) = true ->
  exists before after, ctrace [] idle sched = before ++ Val (t', present f per raw) :: after /\
                       length before = (length L1 + 1 + length L2)%nat.
Proof.
  intros Hs EL Hnf. rewrite (threads_linearised sched Hs), EL.
  set (A := L1 ++ (t, PClear f) :: L2).
  replace (L1 ++ (t, PClear f) :: L2 ++ (t', PCall f per true raw) :: L3)
    with (A ++ (t', PCall f per true raw) :: L3) by (unfold A; rewrite <- app_assoc; reflexivity).
  rewrite !map_app. cbn [map fst snd]. rewrite spec_ptrace_app. cbn [spec_ptrace].
  rewrite combine_app by (rewrite spec_ptrace_length; rewrite !map_length; reflexivity).
  cbn [combine]. rewrite map_app. cbn [map].
  eexists. eexists. split.
  - f_equal. f_equal. f_equal. cbn [spec_pstep snd].
    unfold A. rewrite map_app. cbn [map snd]. rewrite spec_pexec_app. cbn [spec_pexec spec_pstep fst].
    rewrite no_feed_keeps_empty; [rewrite spec_dict_nil; reflexivity | | exact Hnf].
    rewrite gget_dremove, beqb_refl. reflexivity.
  - rewrite map_length, combine_length, spec_ptrace_length, !map_length, Nat.min_id.
    unfold A. rewrite app_length. cbn [length]. lia.
Qed.
