(* C10 -- specification, written from the property text (not from the code).

   Ghost state: for every function name, the list of raw snapshots that were
   observed with nowrap=True under that name since the last cache_clear, most
   recent first.

   For a device k and a counter position i the *presence run* is the maximal
   recent stretch of those snapshots in which k is present.  The demanded answer
   for a new raw value v is

        v  +  sum of the values the raw counter had just before each time it
              went backwards inside the presence run (including the step to v).

   A device that was absent from the previous snapshot has an empty presence
   run (starts afresh); after cache_clear the history is empty; nowrap=False
   answers the raw values and observes nothing; every name has its own history. *)
From PV Require Export C10.Model.

Definition hist := list dict.      (* most recent first *)

(* raw values of counter (k, i) along the presence run, most recent first *)
Fixpoint run_values (k : key) (i : nat) (h : hist) : list Z :=
  match h with
  | [] => []
  | d :: r =>
    match lookup k d with
    | Some t => nth i t 0 :: run_values k i r
    | None => []
    end
  end.

(* [offset v past]: the counter now reads v, before that it read [past] (most
   recent first): sum of every earlier reading that is followed by a smaller one *)
Fixpoint offset (v : Z) (past : list Z) : Z :=
  match past with
  | [] => 0
  | p :: r => (if v <? p then p else 0) + offset p r
  end.

Fixpoint mapi_from {A B} (i : nat) (f : nat -> A -> B) (l : list A) : list B :=
  match l with
  | [] => []
  | x :: r => f i x :: mapi_from (S i) f r
  end.

(* offset accumulated so far by counter (k, i): what cache_info() shows as reminders[name][(k, i)] *)
Definition spec_offset (k : key) (i : nat) (h : hist) : Z :=
  match run_values k i h with [] => 0 | p :: r => offset p r end.

Definition spec_value (h : hist) (k : key) (i : nat) (v : Z) : Z := v + offset v (run_values k i h).
Definition spec_tuple (h : hist) (k : key) (t : tuple) : tuple := mapi_from 0 (spec_value h k) t.
Definition spec_dict (h : hist) (d : dict) : dict :=
  map (fun kt => (fst kt, spec_tuple h (fst kt) (snd kt))) d.

(* ------------------------------------------------ ghost machine, direct API *)
Definition ghost := list (bytes * hist).
Definition gget (g : ghost) (f : bytes) : hist :=
  match lookup f g with Some h => h | None => [] end.

Definition spec_wstep (g : ghost) (o : wop) : ghost * wobs :=
  match o with
  | WRun f d => (dset f (d :: gget g f) g, ODict (spec_dict (gget g f) d))
  | WClear f => (dremove f g, ODone)
  | WClearAll => ([], ODone)
  end.
Fixpoint spec_wtrace (g : ghost) (ops : list wop) : list wobs :=
  match ops with
  | [] => []
  | o :: rest => snd (spec_wstep g o) :: spec_wtrace (fst (spec_wstep g o)) rest
  end.
Fixpoint spec_wexec (g : ghost) (ops : list wop) : ghost :=
  match ops with
  | [] => g
  | o :: rest => spec_wexec (fst (spec_wstep g o)) rest
  end.

(* ------------------------------------------------ ghost machine, public functions
   every nowrap=True call observes its snapshot -- also when no device at all
   is listed (then every presence run ends) *)
Definition spec_pstep (g : ghost) (o : pop) : ghost * pobs :=
  match o with
  | PClear f => (dremove (fname f) g, PDone)
  | PCall f per nowrap raw =>
    if nowrap
    then (dset (fname f) (raw :: gget g (fname f)) g, present f per (spec_dict (gget g (fname f)) raw))
    else (g, present f per raw)
  end.
Fixpoint spec_ptrace (g : ghost) (ops : list pop) : list pobs :=
  match ops with
  | [] => []
  | o :: rest => snd (spec_pstep g o) :: spec_ptrace (fst (spec_pstep g o)) rest
  end.

Fixpoint spec_pexec (g : ghost) (ops : list pop) : ghost :=
  match ops with
  | [] => g
  | o :: rest => spec_pexec (fst (spec_pstep g o)) rest
  end.

(* ------------------------------------------------ well-formed inputs
   dict keys are unique (Python dicts), and all tuples handed in under one
   name have the width of that name (8 for net, 9 for disks; any fixed width
   for the direct API) *)
Fixpoint nodupb (l : list bytes) : bool :=
  match l with
  | [] => true
  | x :: r => negb (memk x r) && nodupb r
  end.
Definition dict_ok (w : nat) (d : dict) : bool :=
  nodupb (keys d) && forallb (fun kt => Nat.eqb (length (snd kt)) w) d.
Definition wop_ok (W : bytes -> nat) (o : wop) : bool :=
  match o with WRun f d => dict_ok (W f) d | _ => true end.
Definition pop_ok (o : pop) : bool :=
  match o with PCall f _ _ raw => dict_ok (width f) raw | _ => true end.

(* the class on which the code before commit e278b23 departed from the property:
   a nowrap=True call that finds no device at all *)
Definition empty_nowrap (o : pop) : bool :=
  match o with PCall _ _ nowrap raw => nowrap && is_empty raw | _ => false end.
Definition no_empty_nowrap (ops : list pop) : bool := forallb (fun o => negb (empty_nowrap o)) ops.

Definition nonneg_dict (d : dict) : bool := forallb (fun kt => forallb (fun v => 0 <=? v) (snd kt)) d.

(* ------------------------------------------------ vocabulary of the independence statements *)
(* does the call concern function name f (cache_clear() without a name concerns every name) *)
Definition touches (f : bytes) (o : wop) : bool :=
  match o with WRun f' _ => beqb f' f | WClear f' => beqb f' f | WClearAll => true end.
Definition untouched (f : bytes) (ops : list wop) : bool := forallb (fun o => negb (touches f o)) ops.
(* answers given to the calls that concern name f *)
Definition answers_for {A} (f : bytes) (ops : list wop) (tr : list A) : list A :=
  map snd (filter (fun p => touches f (fst p)) (combine ops tr)).

(* ------------------------------------------------ threads: what is demanded
   (a) Linearisation.  Overlapping calls may take effect in either order; a call
   takes effect somewhere between its platform read and its return.  [lin] places
   every call at its wrap step and every cache_clear at its own step: a sequential
   history of the execution.  Demanded: the answers are those of the sequential
   specification on that history, AND the nowrap=True listings appear in it in the
   order in which they were read (the raw kernel counters are what the reads show,
   in read order) -- [reads_nowrap] vs [nowrap_calls]. *)
Fixpoint lin (p : slots pop) (sched : list cstep) : list (nat * pop) :=
  match sched with
  | [] => []
  | CRead tid f per nowrap raw :: rest => lin (pset p tid (Some (PCall f per nowrap raw))) rest
  | CWrap tid :: rest =>
    match pget p tid with
    | Some call => (tid, call) :: lin (pset p tid None) rest
    | None => lin p rest
    end
  | CClear tid f :: rest => (tid, PClear f) :: lin p rest
  end.
Definition is_nw (o : pop) : bool := match o with PCall _ _ true _ => true | _ => false end.
Definition nowrap_calls (l : list pop) : list pop := filter is_nw l.
Fixpoint reads_nowrap (sched : list cstep) : list pop :=
  match sched with
  | [] => []
  | CRead _ f per true raw :: rest => PCall f per true raw :: reads_nowrap rest
  | _ :: rest => reads_nowrap rest
  end.

(* (b) Read-time reading, used for the refutation of the code without the lock and
   by the harness: the answer demanded for a call is fixed at its read -- the
   sequential answer against the listings READ so far -- and handed out when the
   call returns.  (Coincides with (a) when no cache_clear overlaps a nowrap=True
   call in flight; an overlapping clear may be ordered either way, (a) covers it.) *)
Definition spec_cstep (g : ghost) (sp : slots pobs) (c : cstep)
  : (ghost * slots pobs) * option (nat * pobs) :=
  match c with
  | CRead tid f per nowrap raw =>
    let r := spec_pstep g (PCall f per nowrap raw) in ((fst r, pset sp tid (Some (snd r))), None)
  | CWrap tid =>
    ((g, pset sp tid None), match pget sp tid with Some a => Some (tid, a) | None => None end)
  | CClear tid f => ((dremove (fname f) g, sp), Some (tid, PDone))
  end.
Fixpoint spec_ctrace (g : ghost) (sp : slots pobs) (sched : list cstep) : list (nat * pobs) :=
  match sched with
  | [] => []
  | c :: rest =>
    match snd (spec_cstep g sp c) with
    | Some a => a :: spec_ctrace (fst (fst (spec_cstep g sp c))) (snd (fst (spec_cstep g sp c))) rest
    | None => spec_ctrace (fst (fst (spec_cstep g sp c))) (snd (fst (spec_cstep g sp c))) rest
    end
  end.

(* well-formed schedule: a thread reads only when idle, wraps only a call in flight,
   clears only when idle; listings well-formed *)
Definition is_some {A} (o : option A) : bool := match o with Some _ => true | None => false end.
Fixpoint sched_ok (p : slots pop) (sched : list cstep) : bool :=
  match sched with
  | [] => true
  | CRead tid f per nowrap raw :: rest =>
    negb (is_some (pget p tid)) && dict_ok (width f) raw && sched_ok (pset p tid (Some (PCall f per nowrap raw))) rest
  | CWrap tid :: rest => is_some (pget p tid) && sched_ok (pset p tid None) rest
  | CClear tid _ :: rest => negb (is_some (pget p tid)) && sched_ok p rest
  end.
(* no cache_clear while a nowrap=True call is in flight (i.e. while _nowrap_lock is held) *)
Fixpoint clear_ok (holder : option nat) (sched : list cstep) : bool :=
  match sched with
  | [] => true
  | CRead tid _ _ nowrap _ :: rest => clear_ok (if nowrap then Some tid else holder) rest
  | CWrap tid :: rest => clear_ok (release holder tid) rest
  | CClear _ _ :: rest => (match holder with None => true | Some _ => false end) && clear_ok holder rest
  end.

(* ------------------------------------------------ vocabulary: public calls that feed f's history *)
Definition fn_eqb (a b : fn) : bool := match a, b with Net, Net | Disk, Disk => true | _, _ => false end.
Definition feeds (f : fn) (o : pop) : bool :=
  match o with PCall f' _ nowrap _ => nowrap && fn_eqb f' f | PClear _ => false end.
Definition no_feed (f : fn) (ops : list pop) : bool := forallb (fun o => negb (feeds f o)) ops.

(* ------------------------------------------------ tuple widths that change under one name
   What the code does: the inner loop runs over the NEW tuple and indexes the OLD one, so a
   tuple that is not longer than the previous tuple of its key is handled (the surplus old
   fields are ignored), a longer one raises IndexError.  [grows prev d] = some key of d present
   in the previous snapshot comes with a longer tuple.  The total answer sequence (ending at
   the first exception, after which the model says nothing): *)
Definition grows (prev d : dict) : bool :=
  existsb (fun kt => match lookup (fst kt) prev with
                     | Some ot => Nat.ltb (length ot) (length (snd kt))
                     | None => false end) d.
Definition keys_ok (o : wop) : bool := match o with WRun _ d => nodupb (keys d) | _ => true end.
Definition raises (g : ghost) (o : wop) : bool :=
  match o with
  | WRun f d => match gget g f with prev :: _ => grows prev d | [] => false end
  | _ => false
  end.
Fixpoint spec_wtrace_total (g : ghost) (ops : list wop) : list (outcome wobs) :=
  match ops with
  | [] => []
  | o :: rest =>
    if raises g o then [Exc IndexError]
    else Val (snd (spec_wstep g o)) :: spec_wtrace_total (fst (spec_wstep g o)) rest
  end.

(* ------------------------------------------------ exception-atomicity of run()
   Demanded: a call that raises leaves the wrap state either untouched or fully updated, so that
   the following answers are the demanded ones whether or not the failed call is taken to have
   happened.  The code achieves this by containing, between its first state update and the cache
   store, only operations that cannot raise on the objects they are applied to (fresh locals,
   the input dict, the two defaultdicts).  [safe_ops] = those operations, by the name under which
   the source translator (props/_c10_tables.py) lists them. *)
Definition safe_ops : list bytes :=
  [ bs "len"; bs "range"; bs "tuple"; bs "set"; bs ".keys"; bs ".add"; bs ".append"; bs ".defaultdict";
    bs "._add_dict"; bs "._remove_dead_reminders" ].
Definition op_safe (fo : bytes * bytes) : bool := memk (snd fo) safe_ops.

(* ------------------------------------------------ os.fork(): what is demanded
   No cache_clear() happened and no device vanished at a fork: the child's answers continue the
   history of the parent as of the fork (raw + the offsets accumulated before it), and the
   parent's answers are not affected by what the child does. *)
Fixpoint spec_ftrace (g : ghost) (ops : list fop) : list pobs * list (list pobs) :=
  match ops with
  | [] => ([], [])
  | FCall o :: rest =>
    let r := spec_ftrace (fst (spec_pstep g o)) rest in (snd (spec_pstep g o) :: fst r, snd r)
  | FFork child :: rest =>
    let r := spec_ftrace g rest in (fst r, spec_ptrace g child :: snd r)
  end.
Definition fop_ok (o : fop) : bool :=
  match o with FCall c => pop_ok c | FFork child => forallb pop_ok child end.

(* at-fork handlers found in the source (props/_c10_tables.py): what a handler may not touch *)
Definition fork_forbidden : list bytes :=
  [ bs "attr:cache"; bs "attr:reminders"; bs "attr:reminder_keys"; bs "attr:cache_clear"; bs "attr:__init__"; bs "attr:__dict__";
    bs "store:_wn"; bs "name:_WrapNumbers"; bs "name:wrap_numbers"; bs "name:_wrap_numbers"; bs "unresolved" ].
Definition handler_safe (h : bytes * list bytes) : bool := forallb (fun tok => negb (memk tok fork_forbidden)) (snd h).
