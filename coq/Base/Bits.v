(* Bit-twiddling facts used by flag/word decoders. *)
From PV Require Export Base.Prelude.

Lemma land_pow2 a n : 0 <= n -> Z.land a (2 ^ n) = if Z.testbit a n then 2 ^ n else 0.
Proof.
  intros Hn. apply Z.bits_inj'. intros m Hm.
  rewrite Z.land_spec, Z.pow2_bits_eqb by lia.
  destruct (Z.eqb_spec n m) as [->|Hne].
  - destruct (Z.testbit a m) eqn:E; simpl.
    + now rewrite Z.pow2_bits_eqb, Z.eqb_refl by lia.
    + now rewrite Z.bits_0.
  - rewrite andb_false_r. destruct (Z.testbit a n).
    + rewrite Z.pow2_bits_eqb by lia. symmetry. now apply Z.eqb_neq.
    + now rewrite Z.bits_0.
Qed.

Lemma land_pow2_eqb0 a n : 0 <= n -> (Z.land a (2 ^ n) =? 0) = negb (Z.testbit a n).
Proof.
  intros Hn. rewrite land_pow2 by assumption. destruct (Z.testbit a n); simpl.
  - apply Z.eqb_neq. assert (0 < 2 ^ n) by (apply Z.pow_pos_nonneg; lia). lia.
  - reflexivity.
Qed.

Lemma testbit_odd_div a n : 0 <= n -> Z.testbit a n = Z.odd (a / 2 ^ n).
Proof. intros Hn. rewrite Z.testbit_odd, Z.shiftr_div_pow2 by assumption. reflexivity. Qed.

Lemma land_ones_mod a n : 0 <= n -> Z.land a (2 ^ n - 1) = a mod 2 ^ n.
Proof. intros Hn. rewrite <- Z.land_ones by assumption. f_equal. rewrite Z.ones_equiv. lia. Qed.
