(* Decimal / octal / hex text and Python's int() on ASCII input. *)
From PV Require Export Base.Bytes.

Definition is_digit (c : Z) : bool := (48 <=? c) && (c <=? 57).
Definition all_digits (l : bytes) : bool := forallb is_digit l.
(* a kernel-printed unsigned number: non-empty digit string *)
Definition is_dec (l : bytes) : bool := match l with [] => false | _ => all_digits l end.

Definition dec_step (a c : Z) : Z := a * 10 + (c - 48).
Definition dec_val (l : bytes) : Z := fold_left dec_step l 0.

Definition digit_val (base c : Z) : option Z :=
  let v :=
    if (48 <=? c) && (c <=? 57) then c - 48
    else if (97 <=? c) && (c <=? 122) then c - 87
    else if (65 <=? c) && (c <=? 90) then c - 55
    else 99 in
  if v <? base then Some v else None.

(* digits with PEP-515 single underscores between digits *)
Fixpoint digits_us (base : Z) (l : bytes) (prev_digit : bool) (acc : Z) : option Z :=
  match l with
  | [] => if prev_digit then Some acc else None
  | c :: r =>
    match digit_val base c with
    | Some v => digits_us base r true (acc * base + v)
    | None =>
      if (c =? 95) && prev_digit then digits_us base r false acc else None
    end
  end.

Definition parse_signed (body : bytes -> option Z) (l : bytes) : option Z :=
  match strip l with
  | c :: r =>
    if c =? 45 then option_map Z.opp (body r)
    else if c =? 43 then body r
    else body (c :: r)
  | [] => body []
  end.

(* int(x) / int(x, 10) on ASCII bytes or str.  More than 4300 digits raise
   ValueError in CPython >= 3.11; callers treat such inputs as OutOfModel. *)
Definition parse_int (l : bytes) : option Z :=
  parse_signed (fun r => digits_us 10 r false 0) l.

Definition with_prefix (base x1 x2 : Z) (r : bytes) : option Z :=
  match r with
  | z :: x :: (_ :: _) as r' =>
    if (z =? 48) && ((x =? x1) || (x =? x2)) then digits_us base r' true 0
    else digits_us base r false 0
  | _ => digits_us base r false 0
  end.

(* int(x, 8): optional 0o / 0O prefix *)
Definition parse_oct (l : bytes) : option Z := parse_signed (with_prefix 8 111 79) l.
(* int(x, 16): optional 0x / 0X prefix *)
Definition parse_hex (l : bytes) : option Z := parse_signed (with_prefix 16 120 88) l.

Definition py_int (l : bytes) : outcome Z := of_option ValueError (parse_int l).

(* ---------------------------------------------------------------- lemmas *)

Lemma digit_not_ws c : is_digit c = true -> is_ws c = false.
Proof. unfold is_digit, is_ws. lia. Qed.

Lemma all_digits_no_ws l : all_digits l = true -> no_ws l = true.
Proof.
  induction l as [|c l IH]; simpl; auto. intros H.
  apply andb_true_iff in H as [Hc Hl]. rewrite (digit_not_ws _ Hc). simpl. auto.
Qed.

Lemma no_ws_rev l : no_ws (rev l) = no_ws l.
Proof.
  induction l as [|c l IH]; simpl; auto. rewrite no_ws_app, IH. simpl.
  rewrite andb_true_r. apply andb_comm.
Qed.

Lemma lstrip_no_ws l : no_ws l = true -> lstrip l = l.
Proof.
  destruct l as [|c l]; simpl; auto. intros H. apply andb_true_iff in H as [Hc _].
  apply negb_true_iff in Hc. now rewrite Hc.
Qed.

Lemma strip_no_ws l : no_ws l = true -> strip l = l.
Proof.
  intros H. unfold strip, rstrip. rewrite (lstrip_no_ws l H).
  rewrite lstrip_no_ws by (now rewrite no_ws_rev). apply rev_involutive.
Qed.

Lemma digit_val_10 c : is_digit c = true -> digit_val 10 c = Some (c - 48).
Proof.
  unfold is_digit, digit_val. intros H. rewrite H.
  assert (c - 48 <? 10 = true) as -> by lia. reflexivity.
Qed.

Lemma digits_us_digits l : forall pd acc,
  all_digits l = true -> (l <> [] \/ pd = true) ->
  digits_us 10 l pd acc = Some (fold_left dec_step l acc).
Proof.
  induction l as [|c l IH]; intros pd acc H Hne.
  - destruct Hne as [Hne| ->]; [congruence|reflexivity].
  - simpl in H. apply andb_true_iff in H as [Hc Hl].
    cbn [digits_us fold_left]. rewrite (digit_val_10 _ Hc).
    rewrite IH; auto.
Qed.

Theorem parse_int_dec l : is_dec l = true -> parse_int l = Some (dec_val l).
Proof.
  intros H. destruct l as [|c l]; [discriminate|]. unfold is_dec in H.
  unfold parse_int, parse_signed. rewrite strip_no_ws by (now apply all_digits_no_ws).
  assert (Hc : is_digit c = true) by (simpl in H; now apply andb_true_iff in H as [Hc _]).
  assert (c =? 45 = false) as -> by (unfold is_digit in Hc; lia).
  assert (c =? 43 = false) as -> by (unfold is_digit in Hc; lia).
  unfold dec_val. apply digits_us_digits; [exact H|left; congruence].
Qed.

Lemma dec_val_nonneg l : all_digits l = true -> 0 <= dec_val l.
Proof.
  unfold dec_val. assert (G : forall a, 0 <= a -> all_digits l = true -> 0 <= fold_left dec_step l a).
  { induction l as [|c l IH]; intros a Ha H; simpl; auto.
    simpl in H. apply andb_true_iff in H as [Hc Hl]. apply IH; auto.
    unfold dec_step, is_digit in *. lia. }
  apply G. lia.
Qed.

(* octal *)
Definition is_oct (c : Z) : bool := (48 <=? c) && (c <=? 55).
Definition all_oct (l : bytes) : bool := forallb is_oct l.
Definition oct_step (a c : Z) : Z := a * 8 + (c - 48).
Definition oct_val (l : bytes) : Z := fold_left oct_step l 0.

Lemma oct_not_ws c : is_oct c = true -> is_ws c = false.
Proof. unfold is_oct, is_ws. lia. Qed.
Lemma all_oct_no_ws l : all_oct l = true -> no_ws l = true.
Proof.
  induction l as [|c l IH]; simpl; auto. intros H.
  apply andb_true_iff in H as [Hc Hl]. rewrite (oct_not_ws _ Hc). simpl. auto.
Qed.
Lemma digit_val_8 c : is_oct c = true -> digit_val 8 c = Some (c - 48).
Proof.
  unfold is_oct, digit_val. intros H.
  assert ((48 <=? c) && (c <=? 57) = true) as -> by lia.
  assert (c - 48 <? 8 = true) as -> by lia. reflexivity.
Qed.
Lemma digits_us_oct l : forall pd acc,
  all_oct l = true -> (l <> [] \/ pd = true) ->
  digits_us 8 l pd acc = Some (fold_left oct_step l acc).
Proof.
  induction l as [|c l IH]; intros pd acc H Hne.
  - destruct Hne as [Hne| ->]; [congruence|reflexivity].
  - simpl in H. apply andb_true_iff in H as [Hc Hl].
    cbn [digits_us fold_left]. rewrite (digit_val_8 _ Hc).
    rewrite IH; auto.
Qed.

(* the kernel's "0%o" *)
Theorem parse_oct_0 l : all_oct l = true -> parse_oct (48 :: l) = Some (oct_val l).
Proof.
  intros H. unfold parse_oct, parse_signed.
  rewrite strip_no_ws by (simpl; now rewrite all_oct_no_ws).
  change (48 =? 45) with false. change (48 =? 43) with false. cbv iota.
  assert (G : digits_us 8 (48 :: l) false 0 = Some (oct_val l)).
  { cbn [digits_us]. change (digit_val 8 48) with (Some 0). cbv iota beta.
    rewrite digits_us_oct; [reflexivity|exact H|right; reflexivity]. }
  unfold with_prefix. destruct l as [|x [|y l']]; try exact G.
  assert (Hx : is_oct x = true) by (simpl in H; now apply andb_true_iff in H as [Hx _]).
  assert ((48 =? 48) && ((x =? 111) || (x =? 79)) = false) as ->
    by (unfold is_oct in Hx; lia).
  exact G.
Qed.

Lemma is_dec_tok l : is_dec l = true -> l <> [] /\ no_ws l = true.
Proof.
  destruct l; [discriminate|]. intros H. split; [congruence|]. now apply all_digits_no_ws.
Qed.

