(* Common vocabulary of the psutil models: bytes, outcomes, the printable
   value type [jv] through which the correspondence harness reads results. *)
From Coq Require Export String Ascii.
From Coq Require Export ZArith List Bool Lia.
Export ListNotations.
Open Scope Z_scope.

Definition bytes := list Z.

(* Result values as the harness sees them (Python side mirrors this type). *)
Inductive jv :=
| JZ (z : Z)
| JB (b : bytes)
| JL (l : list jv)
| JC (tag : string) (args : list jv).

(* Exception classes that can reach a caller of psutil. *)
Inductive exn :=
| NoSuchProcess | ZombieProcess | AccessDenied | TimeoutExpired
| ValueError | TypeError | KeyError | IndexError | OverflowError
| OSError | RuntimeError | NotImplementedError | AttributeError
| ZeroDivisionError | UnicodeError.

Inductive outcome (A : Type) :=
| Val (a : A)
| Exc (e : exn)
| OutOfModel.
Arguments Val {A} a.
Arguments Exc {A} e.
Arguments OutOfModel {A}.

Definition obind {A B} (o : outcome A) (f : A -> outcome B) : outcome B :=
  match o with Val a => f a | Exc e => Exc e | OutOfModel => OutOfModel end.
Definition omap {A B} (f : A -> B) (o : outcome A) : outcome B :=
  obind o (fun a => Val (f a)).
Notation "'do' x <- o ; k" := (obind o (fun x => k))
  (at level 200, x pattern, o at level 100, k at level 200, right associativity).

Definition of_option {A} (e : exn) (o : option A) : outcome A :=
  match o with Some a => Val a | None => Exc e end.

Definition exn_name (e : exn) : string :=
  match e with
  | NoSuchProcess => "NoSuchProcess" | ZombieProcess => "ZombieProcess"
  | AccessDenied => "AccessDenied" | TimeoutExpired => "TimeoutExpired"
  | ValueError => "ValueError" | TypeError => "TypeError"
  | KeyError => "KeyError" | IndexError => "IndexError"
  | OverflowError => "OverflowError" | OSError => "OSError"
  | RuntimeError => "RuntimeError" | NotImplementedError => "NotImplementedError"
  | AttributeError => "AttributeError" | ZeroDivisionError => "ZeroDivisionError"
  | UnicodeError => "UnicodeError"
  end%string.

Definition jv_outcome {A} (f : A -> jv) (o : outcome A) : jv :=
  match o with
  | Val a => JC "Val" [f a]
  | Exc e => JC "Exc" [JC (exn_name e) []]
  | OutOfModel => JC "OutOfModel" []
  end.

Definition jbool (b : bool) : jv := JC (if b then "True" else "False") [].
Definition jnone : jv := JC "None" [].
Definition jopt {A} (f : A -> jv) (o : option A) : jv :=
  match o with Some a => f a | None => jnone end.

Fixpoint mapM {A B} (f : A -> outcome B) (l : list A) : outcome (list B) :=
  match l with
  | [] => Val []
  | x :: r => do y <- f x; do ys <- mapM f r; Val (y :: ys)
  end.
