(* Byte strings and the Python bytes/str primitives psutil's parsers use. *)
From PV Require Export Base.Prelude.

Definition byte_of_ascii (a : ascii) : Z := Z.of_N (N_of_ascii a).
Fixpoint bs (s : string) : bytes :=
  match s with
  | EmptyString => []
  | String a r => byte_of_ascii a :: bs r
  end.

Definition wf_byte (b : Z) : bool := (0 <=? b) && (b <? 256).
Definition wf_bytes (l : bytes) : bool := forallb wf_byte l.

Fixpoint beqb (a b : bytes) : bool :=
  match a, b with
  | [], [] => true
  | x :: a', y :: b' => (x =? y) && beqb a' b'
  | _, _ => false
  end.

Lemma beqb_eq a b : beqb a b = true <-> a = b.
Proof.
  revert b; induction a as [|x a IH]; intros [|y b]; simpl; split; try congruence; auto.
  - intros H. apply andb_true_iff in H as [H1 H2]. apply Z.eqb_eq in H1.
    apply IH in H2. congruence.
  - intros H. inversion H; subst. rewrite Z.eqb_refl. simpl. apply IH. reflexivity.
Qed.
Lemma beqb_refl a : beqb a a = true.
Proof. apply beqb_eq. reflexivity. Qed.

(* Python bytes whitespace: space \t \n \v \f \r *)
Definition is_ws (c : Z) : bool :=
  (c =? 32) || ((9 <=? c) && (c <=? 13)).
Definition no_ws (l : bytes) : bool := forallb (fun c => negb (is_ws c)) l.

Fixpoint prefixb (p l : bytes) : bool :=
  match p, l with
  | [], _ => true
  | x :: p', y :: l' => (x =? y) && prefixb p' l'
  | _ :: _, [] => false
  end.

Lemma prefixb_app p l : prefixb p (p ++ l) = true.
Proof. induction p as [|x p IH]; simpl; auto. rewrite Z.eqb_refl. exact IH. Qed.

Lemma prefixb_spec p l : prefixb p l = true <-> exists r, l = p ++ r.
Proof.
  revert l; induction p as [|x p IH]; intros l; simpl.
  - split; eauto.
  - destruct l as [|y l]; split; try congruence.
    + intros [r Hr]. discriminate.
    + intros H. apply andb_true_iff in H as [H1 H2]. apply Z.eqb_eq in H1. subst.
      apply IH in H2 as [r ->]. eauto.
    + intros [r Hr]. inversion Hr; subst. rewrite Z.eqb_refl. simpl. apply IH. eauto.
Qed.

Definition suffixb (s l : bytes) : bool := prefixb (rev s) (rev l).

(* bytes.split()  -- whitespace runs, no empty tokens *)
Fixpoint split_ws (l : bytes) : list bytes :=
  match l with
  | [] => []
  | c :: r =>
    if is_ws c then split_ws r
    else match r with
         | [] => [[c]]
         | d :: _ =>
           if is_ws d then [c] :: split_ws r
           else match split_ws r with
                | t :: ts => (c :: t) :: ts
                | [] => [[c]]
                end
         end
  end.

(* bytes.split(sep) for a one-byte separator: empties kept, never [] *)
Fixpoint split_on (sep : Z) (l : bytes) : list bytes :=
  match l with
  | [] => [[]]
  | c :: r =>
    if c =? sep then [] :: split_on sep r
    else match split_on sep r with
         | t :: ts => (c :: t) :: ts
         | [] => [[c]]
         end
  end.

(* bytes.split(sep) for a multi-byte separator (non-empty) *)
Fixpoint split_seq_aux (sep : bytes) (skip : nat) (l : bytes) : list bytes :=
  match l with
  | [] => [[]]
  | c :: r =>
    match skip with
    | S k => split_seq_aux sep k r
    | O =>
      if prefixb sep l then [] :: split_seq_aux sep (length sep - 1) r
      else match split_seq_aux sep 0 r with
           | t :: ts => (c :: t) :: ts
           | [] => [[c]]
           end
    end
  end.
Definition split_seq (sep l : bytes) : list bytes := split_seq_aux sep 0 l.

Fixpoint join (sep : bytes) (ts : list bytes) : bytes :=
  match ts with
  | [] => []
  | [t] => t
  | t :: r => t ++ sep ++ join sep r
  end.

Fixpoint lstrip (l : bytes) : bytes :=
  match l with
  | c :: r => if is_ws c then lstrip r else l
  | [] => []
  end.
Definition rstrip (l : bytes) : bytes := rev (lstrip (rev l)).
Definition strip (l : bytes) : bytes := rstrip (lstrip l).

(* index of first / last occurrence of a byte *)
Fixpoint find_byte (b : Z) (l : bytes) : option nat :=
  match l with
  | [] => None
  | c :: r => if c =? b then Some O
              else match find_byte b r with Some n => Some (S n) | None => None end
  end.
Fixpoint rfind_byte (b : Z) (l : bytes) : option nat :=
  match l with
  | [] => None
  | c :: r => match rfind_byte b r with
              | Some n => Some (S n)
              | None => if c =? b then Some O else None
              end
  end.

Definition contains (b : Z) (l : bytes) : bool := existsb (Z.eqb b) l.

(* lines of a binary file as Python iterates them: each line keeps its '\n' *)
Fixpoint lines_keep (l : bytes) : list bytes :=
  match l with
  | [] => []
  | c :: r =>
    if c =? 10 then [c] :: lines_keep r
    else match lines_keep r with
         | t :: ts =>
           (* does the next line belong to us?  yes: we have not seen '\n' yet *)
           (c :: t) :: ts
         | [] => [[c]]
         end
  end.

(* ---------------------------------------------------------------- lemmas *)

Lemma no_ws_app a b : no_ws (a ++ b) = no_ws a && no_ws b.
Proof. unfold no_ws. apply forallb_app. Qed.

Lemma split_ws_token t :
  t <> [] -> no_ws t = true -> split_ws t = [t].
Proof.
  induction t as [|c t IH]; intros Hne Hnw; [congruence|].
  simpl in Hnw. apply andb_true_iff in Hnw as [Hc Ht].
  apply negb_true_iff in Hc.
  cbn [split_ws]. rewrite Hc.
  destruct t as [|d t']; [reflexivity|].
  assert (Hd : is_ws d = false).
  { simpl in Ht. apply andb_true_iff in Ht as [Hd _]. now apply negb_true_iff in Hd. }
  rewrite Hd. rewrite IH; [reflexivity|congruence|exact Ht].
Qed.

Lemma split_ws_token_sep t s rest :
  t <> [] -> no_ws t = true -> is_ws s = true ->
  split_ws (t ++ s :: rest) = t :: split_ws rest.
Proof.
  induction t as [|c t IH]; intros Hne Hnw Hs; [congruence|].
  simpl in Hnw. apply andb_true_iff in Hnw as [Hc Ht].
  apply negb_true_iff in Hc.
  destruct t as [|d t'].
  - cbn [app split_ws]. rewrite Hc, Hs. reflexivity.
  - assert (Hd : is_ws d = false).
    { simpl in Ht. apply andb_true_iff in Ht as [Hd _]. now apply negb_true_iff in Hd. }
    assert (IH' : split_ws (d :: t' ++ s :: rest) = (d :: t') :: split_ws rest).
    { apply IH; [congruence|exact Ht|exact Hs]. }
    change ((c :: d :: t') ++ s :: rest) with (c :: d :: (t' ++ s :: rest)).
    remember (d :: t' ++ s :: rest) as w eqn:Hw.
    cbn [split_ws]. rewrite Hc. rewrite Hw at 1. rewrite Hd, IH'. reflexivity.
Qed.

Lemma split_ws_leading s rest : is_ws s = true -> split_ws (s :: rest) = split_ws rest.
Proof. intros H. cbn [split_ws]. now rewrite H. Qed.

Definition tok_ok (t : bytes) : bool :=
  match t with [] => false | _ => no_ws t end.

Lemma tok_ok_spec t : tok_ok t = true <-> t <> [] /\ no_ws t = true.
Proof. destruct t; simpl; split; intros; try tauto; try congruence; split; auto; congruence. Qed.

(* tokens joined by single separators (space, tab...) split back *)
Theorem split_ws_join sep ts :
  is_ws sep = true -> forallb tok_ok ts = true ->
  split_ws (join [sep] ts) = ts.
Proof.
  intros Hs. induction ts as [|t ts IH]; intros H; [reflexivity|].
  simpl in H. apply andb_true_iff in H as [Ht Hts].
  apply tok_ok_spec in Ht as [Hne Hnw].
  destruct ts as [|u us].
  - simpl. now apply split_ws_token.
  - change (join [sep] (t :: u :: us)) with (t ++ [sep] ++ join [sep] (u :: us)).
    cbn [app]. rewrite split_ws_token_sep by assumption.
    now rewrite IH.
Qed.

Lemma split_ws_app_nl ts :
  forallb tok_ok ts = true ->
  split_ws (join [32] ts ++ [10]) = ts.
Proof.
  induction ts as [|t ts IH]; intros H; [reflexivity|].
  simpl in H. apply andb_true_iff in H as [Ht Hts].
  apply tok_ok_spec in Ht as [Hne Hnw].
  destruct ts as [|u us].
  - simpl join. rewrite split_ws_token_sep by (auto). reflexivity.
  - change (join [32] (t :: u :: us)) with (t ++ [32] ++ join [32] (u :: us)).
    rewrite <- !app_assoc. cbn [app].
    rewrite split_ws_token_sep by auto. now rewrite IH.
Qed.

Lemma split_on_nosep sep t :
  contains sep t = false -> split_on sep t = [t].
Proof.
  induction t as [|c t IH]; intros H; [reflexivity|].
  simpl in H. apply orb_false_iff in H as [Hc Ht].
  cbn [split_on]. rewrite Z.eqb_sym, Hc. now rewrite IH.
Qed.

Lemma split_on_app sep t rest :
  contains sep t = false ->
  split_on sep (t ++ sep :: rest) = t :: split_on sep rest.
Proof.
  induction t as [|c t IH]; intros H.
  - simpl. now rewrite Z.eqb_refl.
  - simpl in H. apply orb_false_iff in H as [Hc Ht].
    change ((c :: t) ++ sep :: rest) with (c :: (t ++ sep :: rest)).
    cbn [split_on]. rewrite Z.eqb_sym, Hc. now rewrite IH.
Qed.

Theorem split_on_join sep ts :
  ts <> [] -> forallb (fun t => negb (contains sep t)) ts = true ->
  split_on sep (join [sep] ts) = ts.
Proof.
  induction ts as [|t ts IH]; intros Hne H; [congruence|].
  simpl in H. apply andb_true_iff in H as [Ht Hts]. apply negb_true_iff in Ht.
  destruct ts as [|u us].
  - simpl. now apply split_on_nosep.
  - change (join [sep] (t :: u :: us)) with (t ++ [sep] ++ join [sep] (u :: us)).
    cbn [app]. rewrite split_on_app by assumption. rewrite IH; [reflexivity|congruence|assumption].
Qed.

Lemma lstrip_nows c r : is_ws c = false -> lstrip (c :: r) = c :: r.
Proof. intros H. simpl. now rewrite H. Qed.

Lemma find_byte_app b t rest :
  contains b t = false -> find_byte b (t ++ b :: rest) = Some (length t).
Proof.
  induction t as [|c t IH]; intros H; simpl.
  - now rewrite Z.eqb_refl.
  - simpl in H. apply orb_false_iff in H as [Hc Ht]. rewrite Z.eqb_sym, Hc.
    now rewrite IH.
Qed.

Lemma rfind_byte_app b pre t :
  contains b t = false -> rfind_byte b (pre ++ b :: t) = Some (length pre).
Proof.
  intros Ht. induction pre as [|c pre IH]; simpl.
  - assert (rfind_byte b t = None) as ->.
    { clear -Ht. induction t as [|c t IH]; [reflexivity|]. simpl in *.
      apply orb_false_iff in Ht as [Hc Ht]. rewrite IH by assumption.
      now rewrite Z.eqb_sym, Hc. }
    now rewrite Z.eqb_refl.
  - now rewrite IH.
Qed.

Lemma contains_cons b c t : contains b (c :: t) = (b =? c) || contains b t.
Proof. reflexivity. Qed.

Lemma lines_keep_line t rest :
  contains 10 t = false -> lines_keep (t ++ 10 :: rest) = (t ++ [10]) :: lines_keep rest.
Proof.
  induction t as [|c t IH]; intros H.
  - reflexivity.
  - rewrite contains_cons in H. apply orb_false_iff in H as [Hc Ht].
    change ((c :: t) ++ 10 :: rest) with (c :: (t ++ 10 :: rest)).
    cbn [lines_keep]. rewrite Z.eqb_sym, Hc. now rewrite IH.
Qed.

Lemma no_ws_contains b t : is_ws b = true -> no_ws t = true -> contains b t = false.
Proof.
  intros Hb. induction t as [|c t IH]; simpl; auto. intros H.
  apply andb_true_iff in H as [Hc Ht]. rewrite IH by assumption.
  destruct (Z.eqb_spec b c); subst; auto. rewrite Hb in Hc. discriminate.
Qed.

Lemma contains_app b x y : contains b (x ++ y) = contains b x || contains b y.
Proof. unfold contains. apply existsb_app. Qed.

Lemma rstrip_snoc x c :
  rstrip (x ++ [c]) = if is_ws c then rstrip x else x ++ [c].
Proof.
  unfold rstrip. rewrite rev_app_distr. cbn [rev app lstrip].
  destruct (is_ws c); [reflexivity|].
  change (c :: rev x) with ([c] ++ rev x). rewrite rev_app_distr, rev_involutive. reflexivity.
Qed.

Lemma rstrip_nil : rstrip [] = [].
Proof. reflexivity. Qed.

Lemma contains_rev b l : contains b (rev l) = contains b l.
Proof.
  induction l as [|c l IH]; [reflexivity|]. cbn [rev]. rewrite contains_app, IH, contains_cons.
  cbn [contains existsb]. rewrite orb_false_r. apply orb_comm.
Qed.

Lemma contains_lstrip b l : contains b (lstrip l) = true -> contains b l = true.
Proof.
  induction l as [|c l IH]; cbn [lstrip]; auto.
  destruct (is_ws c); auto. intros H. rewrite contains_cons. rewrite (IH H). apply orb_true_r.
Qed.

Lemma contains_strip b l : contains b (strip l) = true -> contains b l = true.
Proof.
  unfold strip, rstrip. rewrite contains_rev. intros H.
  apply contains_lstrip in H. rewrite contains_rev in H. now apply contains_lstrip.
Qed.

Lemma contains_strip_false b l : contains b l = false -> contains b (strip l) = false.
Proof.
  intros H. destruct (contains b (strip l)) eqn:E; auto.
  apply contains_strip in E. congruence.
Qed.

(* split on a two-byte separator whose first byte does not occur in the left part
   and does not occur at all in the right part *)
Lemma split_seq_nosep a s1 s2 :
  contains s1 a = false -> split_seq [s1; s2] a = [a].
Proof.
  unfold split_seq. induction a as [|c a IH]; intros H; [reflexivity|].
  rewrite contains_cons in H. apply orb_false_iff in H as [Hc Ha].
  cbn [split_seq_aux prefixb]. rewrite Hc. cbn [andb]. now rewrite IH.
Qed.

Lemma split_seq_two a b s1 s2 :
  contains s1 a = false -> contains s1 b = false ->
  split_seq [s1; s2] (a ++ s1 :: s2 :: b) = [a; b].
Proof.
  unfold split_seq. intros Ha Hb. induction a as [|c a IH].
  - cbn [app split_seq_aux prefixb length Nat.sub]. rewrite !Z.eqb_refl. cbn [andb].
    f_equal. apply (split_seq_nosep b s1 s2 Hb).
  - rewrite contains_cons in Ha. apply orb_false_iff in Ha as [Hc Ha].
    change ((c :: a) ++ s1 :: s2 :: b) with (c :: (a ++ s1 :: s2 :: b)).
    cbn [split_seq_aux prefixb]. rewrite Hc. cbn [andb]. now rewrite IH.
Qed.

Lemma rstrip_no_ws_tail x v :
  v <> [] -> no_ws v = true -> rstrip (x ++ v) = x ++ v.
Proof.
  intros Hne Hnw. destruct (exists_last Hne) as [v' [c ->]].
  rewrite no_ws_app in Hnw. apply andb_true_iff in Hnw as [_ Hc].
  cbn [no_ws forallb] in Hc. rewrite andb_true_r in Hc. apply negb_true_iff in Hc.
  rewrite app_assoc, rstrip_snoc, Hc. reflexivity.
Qed.

Lemma mapM_ext {A B} (f g : A -> outcome B) l :
  (forall x, f x = g x) -> mapM f l = mapM g l.
Proof. intros H. induction l as [|x l IH]; [reflexivity|]. cbn [mapM]. now rewrite H, IH. Qed.
