(* Entry points evaluated by the correspondence harness (props/C09.py). *)
From PV Require Export C09.Spec.

Definition jv_text (t : text) : jv := JL (map JZ t).       (* a str: its code points *)
Definition jv_nt (t : ntuple) : jv := JL (map (fun kv => JL [JB (fst kv); JZ (snd kv)]) t).
Definition jv_front (r : front_res) : jv :=
  match r with
  | RNone => jnone
  | RDict d => JC "Dict" [JL (map (fun kv => JL [jv_text (fst kv); jv_nt (snd kv)]) d)]
  | RTuple t => JC "Tuple" [jv_nt t]
  end.
Definition jv_spec (ok : bool) (r : front_res) : jv := if ok then JC "Val" [jv_front r] else jnone.
Definition jv_xout {A} (f : A -> jv) (x : xout A) : jv :=
  match x with
  | XV o => jv_outcome f o
  | XAssert => JC "Exc" [JC "AssertionError" []]
  end.

(* a table the kernel can print: names non-empty, distinct, without NUL / line breaks; digit strings.
   The demanded answer (spec_net) is defined for all of these; the theorems cover [wf_nics] *)
Definition printable_nics (l : list knic) : bool :=
  forallb (fun i => match n_name i with [] => false | _ => true end
                    && forallb (fun b => (1 <=? b) && (b <=? 255) && negb (b =? 10) && negb (b =? 13)) (n_name i)
                    && forallb is_dec (nic_counters i)) l
  && nodupb (map n_name l).
(* kernel-shaped /proc/net/dev *)
Definition run_net (legacy sp : bool) (l : list knic) : jv :=
  let c := k_netdev sp l in
  JL [ JB c;
       jv_xout jv_front (net_io_counters legacy true c);
       jv_xout jv_front (net_io_counters legacy false c);
       jv_spec (printable_nics l) (spec_net true l);
       jv_spec (printable_nics l) (spec_net false l);
       jbool (wf_nics l);
       jbool (forallb (fun i => dev_valid_name (n_name i)) l) ].
Definition run_net_raw (legacy : bool) (c : bytes) : jv :=
  JL [ jv_xout jv_front (net_io_counters legacy true c); jv_xout jv_front (net_io_counters legacy false c) ].

(* /sys/block as a list of directory entry names (bytes); the oracle answers for a str *)
Definition in_listing (names : list bytes) (n : text) : bool := existsb (beqb n) (map dec names).

(* kernel-shaped /proc/diskstats; /sys/block holds the whole disks plus [others] *)
Definition run_disk (l : list kdisk) (others : list bytes) : jv :=
  let c := k_diskstats l in
  let listing := map (fun d => sysfs_name (d_name d)) (filter d_whole l) ++ others in
  let sb := in_listing listing in
  let ok := wf_disks l in
  JL [ JB c; JL (map JB listing);
       jv_outcome jv_front (disk_io_counters true sb (ProcDiskstats c));
       jv_outcome jv_front (disk_io_counters false sb (ProcDiskstats c));
       jv_spec ok (spec_disks sb true l);
       jv_spec ok (spec_disks sb false l);
       jbool (no_l24 l); jbool (sysblock_agrees sb l) ].
Definition run_disk_raw (c : bytes) (listing : list bytes) : jv :=
  let sb := in_listing listing in
  JL [ jv_outcome jv_front (disk_io_counters true sb (ProcDiskstats c));
       jv_outcome jv_front (disk_io_counters false sb (ProcDiskstats c)) ].

(* no /proc/diskstats: the /sys/block walk.  [l] in walk order *)
Definition run_sys (l : list ksys) : jv :=
  let ents := map (fun e => (y_name e, k_sys_stat e)) l in
  let listing := map y_name (filter y_whole l) in
  let sb := in_listing listing in
  let ok := wf_syss l && sys_agrees sb l in
  JL [ JL (map (fun e => JB (snd e)) ents);
       jv_outcome jv_front (disk_io_counters true sb (SysBlock ents));
       jv_outcome jv_front (disk_io_counters false sb (SysBlock ents));
       jv_spec ok (spec_sys true l);
       jv_spec ok (spec_sys false l) ].
Definition run_sys_raw (ents : list (bytes * bytes)) (listing : list bytes) : jv :=
  let sb := in_listing listing in
  JL [ jv_outcome jv_front (disk_io_counters true sb (SysBlock ents));
       jv_outcome jv_front (disk_io_counters false sb (SysBlock ents)) ].
Definition run_nosource : jv :=
  JL [ jv_outcome jv_front (disk_io_counters true (fun _ => false) NoSource);
       jv_outcome jv_front (disk_io_counters false (fun _ => false) NoSource) ].

(* successive polls through the public functions with their default arguments (nowrap=True), cache
   cleared before the first one *)
Definition run_net_hist (legacy sp : bool) (hist : list (bool * list knic)) : jv :=
  let cs := map (fun pl => (fst pl, k_netdev sp (snd pl))) hist in
  let rows := map (fun pl => map nic_row (snd pl)) hist in
  let ok := forallb (fun pl => printable_nics (snd pl)) hist in
  JL [ JL (map (fun c => JB (snd c)) cs);
       JL (map (jv_xout jv_front) (net_polls legacy wc_init cs));
       (* the demand: each poll's kernel counters plus the offsets of restarts seen while the device stayed listed *)
       (if ok then JL (map (fun pr => JC "Val" [jv_front (answer_of_rows nic_names (fst (fst pr)) (snd pr))])
                           (combine hist (spec_wrap_hist [] [] rows)))
        else jnone);
       jbool (forallb (fun pl => wf_nics (snd pl)) hist && steady_consec [] rows) ].

Definition run_disk_hist (hist : list (bool * (list kdisk * list bytes))) : jv :=
  let polls : list (bool * list bytes * list kdisk) := map (fun p : bool * (list kdisk * list bytes) =>
                      let l := fst (snd p) in
                      let listing := map (fun d => sysfs_name (d_name d)) (filter d_whole l) ++ snd (snd p) in
                      (fst p, listing, l)) hist in
  let rows := map (fun q : bool * list bytes * list kdisk => match q with (per, listing, l) =>
                     map disk_row (if per then l else filter (listed (in_listing listing)) l) end) polls in
  let ok := forallb (fun q : bool * list bytes * list kdisk => match q with (_, _, l) => wf_disks l && no_l24 l end) polls in
  JL [ JL (map (fun q : bool * list bytes * list kdisk => match q with (_, _, l) => JB (k_diskstats l) end) polls);
       JL (map (fun q : bool * list bytes * list kdisk => match q with (_, listing, _) => JL (map JB listing) end) polls);
       JL (map (jv_outcome jv_front)
               (disk_polls wc_init (map (fun q : bool * list bytes * list kdisk => match q with (per, listing, l) =>
                                                   (per, in_listing listing, ProcDiskstats (k_diskstats l)) end) polls)));
       (if ok then JL (map (fun pr => JC "Val" [jv_front (answer_of_rows disk_names (fst (fst (fst pr))) (snd pr))])
                           (combine polls (spec_wrap_hist [] [] rows)))
        else jnone);
       jbool (ok && steady_consec [] rows) ].

(* disk_usage: _asdict() items with the field names found in the code *)
Definition jv_usage (u : usage) : jv :=
  JL (map (fun kv => JL [JB (fst kv); snd kv])
          (combine gen_sdiskusage_fields
                   [JZ (u_total u); JZ (u_used u); JZ (u_free u);
                    jopt (fun p => JL [JZ (fst p); JZ (snd p)]) (u_percent u)])).
Definition spec_usage_names : list bytes := [bs "total"; bs "used"; bs "free"; bs "percent"].
Definition jv_usage_spec (u : usage) : jv :=
  JL (map (fun kv => JL [JB (fst kv); snd kv])
          (combine spec_usage_names
                   [JZ (u_total u); JZ (u_used u); JZ (u_free u);
                    jopt (fun p => JL [JZ (fst p); JZ (snd p)]) (u_percent u)])).
Definition run_usage (bsize frsize blocks bfree bavail : Z) : jv :=
  let st := Build_statvfs bsize frsize blocks bfree bavail in
  JL [ jv_usage (disk_usage st); jv_usage_spec (spec_usage st) ].

(* the text layer against CPython: bytes.decode("utf-8", "surrogateescape"), str.isspace(),
   str.split(), str.strip() *)
Definition run_dec (b : bytes) : jv :=
  let t := dec b in
  JL [ jv_text t; jv_text (univ_nl t); JL (map jv_text (usplit t)); jv_text (ustrip t) ].
Definition run_uws_table : jv :=
  jv_text (rev (snd (Pos.iter (fun st : Z * list Z =>
                                 let (c, acc) := st in (c + 1, if is_uws c then c :: acc else acc))
                              (0, []) 1114112%positive))).

(* decimal printer used by the case generator only (keeps generated terms small) *)
Fixpoint dz_aux (fuel : nat) (n : Z) (acc : bytes) : bytes :=
  match fuel with
  | O => acc
  | S f => let acc' := (48 + n mod 10) :: acc in
           if n <? 10 then acc' else dz_aux f (n / 10) acc'
  end.
Definition dz (n : Z) : bytes := dz_aux 100 n [].
Definition mk_nic (name : bytes) (c : list Z) : knic :=
  let g k := dz (nth k c 0) in
  Build_knic name (g 0%nat) (g 1%nat) (g 2%nat) (g 3%nat) (g 4%nat) (g 5%nat) (g 6%nat) (g 7%nat)
             (g 8%nat) (g 9%nat) (g 10%nat) (g 11%nat) (g 12%nat) (g 13%nat) (g 14%nat) (g 15%nat).
Definition mk_io (c : list Z) : iostat :=
  let g k := dz (nth k c 0) in
  Build_iostat (g 0%nat) (g 1%nat) (g 2%nat) (g 3%nat) (g 4%nat) (g 5%nat) (g 6%nat) (g 7%nat)
               (g 8%nat) (g 9%nat) (g 10%nat).
Definition mk_full (maj mi : Z) (name : bytes) (whole : bool) (c extra : list Z) : kdisk :=
  Build_kdisk (dz maj) (dz mi) name whole (LFull (mk_io c) (map dz extra)).
Definition mk_l24 (maj mi : Z) (name : bytes) (whole : bool) (blocks : Z) (c : list Z) : kdisk :=
  Build_kdisk (dz maj) (dz mi) name whole (L24 (dz blocks) (mk_io c)).
Definition mk_part (maj mi : Z) (name : bytes) (whole : bool) (a b c d : Z) : kdisk :=
  Build_kdisk (dz maj) (dz mi) name whole (LPart (dz a) (dz b) (dz c) (dz d)).
Definition mk_sys (name : bytes) (whole : bool) (c extra : list Z) : ksys :=
  Build_ksys name (mk_io c) (map dz extra) whole.

(* ------------------------------------------------ large tables, generated from a compact seed *)
(* Printing tens of thousands of list elements is what costs time in coqc, so these entry points return
   the printed file only as (length, checksum) -- the harness rebuilds the bytes with its own printer
   and must hit both -- and the spec only as "Same" when it equals the model's answer. *)
Definition cksum (l : bytes) : Z :=
  fold_left (fun a b => (a * 131 + b + 1) mod 2305843009213693951) l 7.
Definition jv_file (c : bytes) : jv := JL [JZ (Z.of_nat (length c)); JZ (cksum c)].

(* results without the field names (those are compared on the ordinary cases) *)
Definition jv_front_c (r : front_res) : jv :=
  match r with
  | RNone => jnone
  | RDict d => JC "Dict" [JL (map (fun kv => JL [jv_text (fst kv); JL (map (fun x => JZ (snd x)) (snd kv))]) d)]
  | RTuple t => JC "Tuple" [JL (map (fun x => JZ (snd x)) t)]
  end.
Definition nt_eqb (a b : ntuple) : bool := all2 (fun x y => beqb (fst x) (fst y) && (snd x =? snd y)) a b.
Definition front_eqb (a b : front_res) : bool :=
  match a, b with
  | RNone, RNone => true
  | RDict x, RDict y => all2 (fun p q => beqb (fst p) (fst q) && nt_eqb (snd p) (snd q)) x y
  | RTuple x, RTuple y => nt_eqb x y
  | _, _ => false
  end.
(* the spec's answer: None = no demand; "Same" = equal to the model's answer; else written out *)
Definition jv_spec_vs (ok : bool) (spec : front_res) (model : outcome front_res) : jv :=
  if ok then
    match model with
    | Val m => if front_eqb m spec then JC "Same" [] else JC "Val" [jv_front_c spec]
    | _ => JC "Val" [jv_front_c spec]
    end
  else jnone.
Definition xout_outcome {A} (x : xout A) : outcome A := match x with XV o => o | XAssert => OutOfModel end.

Fixpoint pad_of (pads : list (Z * nat)) (k : Z) : nat :=
  match pads with
  | [] => O
  | (k', p) :: r => if k =? k' then p else pad_of r k
  end.
(* "<c><k>" followed by [pad] times 'x' *)
Definition big_name (c : Z) (k : Z) (pad : nat) : bytes := c :: dz k ++ repeat 120 pad.
Definition idx11 : list Z := [0; 1; 2; 3; 4; 5; 6; 7; 8; 9; 10].
Definition idx16 : list Z := idx11 ++ [11; 12; 13; 14; 15].
Definition big_val (wide : bool) (k j : Z) : Z :=
  if wide then 18446744073709551615 - (k * 32 + j) else 1000 * k + j.

(* device k: "d<k>", minor k, a whole disk when k mod 4 = 0, 20 fields *)
Fixpoint big_disks_aux (fuel : nat) (k : Z) (wide : bool) (pads : list (Z * nat)) : list kdisk :=
  match fuel with
  | O => []
  | S f =>
    mk_full 8 k (big_name 100 k (pad_of pads k)) (k mod 4 =? 0) (map (big_val wide k) idx11)
            (if wide then map (big_val wide k) [11; 12; 13; 14; 15; 16] else [0; 0; 0; 0; 0; 0])
    :: big_disks_aux f (k + 1) wide pads
  end.
Definition big_disks (n : nat) (wide : bool) (pads : list (Z * nat)) : list kdisk := big_disks_aux n 0 wide pads.

Definition run_disk_big (n : nat) (wide : bool) (pads : list (Z * nat)) : jv :=
  let l := big_disks n wide pads in
  let c := k_diskstats l in
  let listing := map (fun d => sysfs_name (d_name d)) (filter d_whole l) in
  let sb := in_listing listing in
  let ok := wf_disks l in
  let mt := disk_io_counters true sb (ProcDiskstats c) in
  let mf := disk_io_counters false sb (ProcDiskstats c) in
  JL [ jv_file c; JL (map JB listing);
       jv_outcome jv_front_c mt; jv_outcome jv_front_c mf;
       jv_spec_vs ok (spec_disks sb true l) mt; jv_spec_vs ok (spec_disks sb false l) mf ].

Fixpoint big_nics_aux (fuel : nat) (k : Z) (wide : bool) (pads : list (Z * nat)) : list knic :=
  match fuel with
  | O => []
  | S f => mk_nic (big_name 110 k (pad_of pads k)) (map (big_val wide k) idx16) :: big_nics_aux f (k + 1) wide pads
  end.
Definition big_nics (n : nat) (wide : bool) (pads : list (Z * nat)) : list knic := big_nics_aux n 0 wide pads.

Definition run_net_big (legacy sp : bool) (n : nat) (wide : bool) (pads : list (Z * nat)) : jv :=
  let l := big_nics n wide pads in
  let c := k_netdev sp l in
  let mt := net_io_counters legacy true c in
  let mf := net_io_counters legacy false c in
  JL [ jv_file c;
       jv_xout jv_front_c mt; jv_xout jv_front_c mf;
       jv_spec_vs (printable_nics l) (spec_net true l) (xout_outcome mt);
       jv_spec_vs (printable_nics l) (spec_net false l) (xout_outcome mf) ].

(* a /sys/block with n whole disks "d<k>" (no /proc/diskstats) *)
Fixpoint big_sys_aux (fuel : nat) (k : Z) : list ksys :=
  match fuel with
  | O => []
  | S f => mk_sys (big_name 100 k O) true (map (big_val false k) idx11) [] :: big_sys_aux f (k + 1)
  end.
Definition run_sys_big (n : nat) : jv :=
  let l := big_sys_aux n 0 in
  let ents := map (fun e => (y_name e, k_sys_stat e)) l in
  let sb := in_listing (map y_name l) in
  let ok := wf_syss l && sys_agrees sb l in
  let mt := disk_io_counters true sb (SysBlock ents) in
  let mf := disk_io_counters false sb (SysBlock ents) in
  JL [ jv_file (concat (map (fun e => fst e ++ 0 :: snd e) ents));
       jv_outcome jv_front_c mt; jv_outcome jv_front_c mf;
       jv_spec_vs ok (spec_sys true l) mt; jv_spec_vs ok (spec_sys false l) mf ].
