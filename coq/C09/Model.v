(* C09 -- model of
     psutil/_pslinux.py  : net_io_counters (996-1040), disk_io_counters (1079-1181),
                           is_storage_device (233-249), DISK_SECTOR_SIZE (99)
     psutil/__init__.py  : disk_io_counters (2096-2108), net_io_counters (2148-2158)
     psutil/_psposix.py  : disk_usage (158-191);  psutil/_common.py : usage_percent, snetio
   transcribed from the code.  No proofs here.

   Text mode: the files are read with open_text() -- UTF-8 with surrogateescape, universal
   newlines -- and then handled as str.  The model decodes the file bytes (Text.dec, Text.univ_nl)
   and works on code points with str.split()/strip() blanks (Text.is_uws); names in the results are
   str values, i.e. lists of code points.  Still outside the model: int() on a token that
   contains a non-ASCII character (Text.py_int_str answers OutOfModel).
   AssertionError is not an exception class of Base.Prelude: [xout] adds it locally.
   Named-tuple field names and DISK_SECTOR_SIZE come from coq/Gen/C09_Tables.v, which is dumped
   from the code on every run. *)
From PV Require Export C09.Text.
From PV Require Export Gen.C09_Tables.

(* outcome + AssertionError *)
Inductive xout (A : Type) :=
| XV (o : outcome A)
| XAssert.
Arguments XV {A} o.
Arguments XAssert {A}.
Definition xbind {A B} (x : xout A) (f : A -> xout B) : xout B :=
  match x with
  | XV (Val a) => f a
  | XV (Exc e) => XV (Exc e)
  | XV OutOfModel => XV OutOfModel
  | XAssert => XAssert
  end.

(* ------------------------------------------------ Python dict (insertion ordered), str keys *)
Section Dict.
  Context {V : Type}.
  Fixpoint dset (k : text) (v : V) (d : list (text * V)) : list (text * V) :=
    match d with
    | [] => [(k, v)]
    | (k', v') :: r => if beqb k k' then (k', v) :: r else (k', v') :: dset k v r
    end.
End Dict.

(* ------------------------------------------------ named tuples and the front end *)
Definition ntuple := list (bytes * Z).        (* _asdict() items, in field order *)

(* _common.snetio._fields, as found in the code *)
Definition snetio_fields : list bytes := gen_snetio_fields.
(* _pslinux.sdiskio._fields (getattr(_psplatform, "sdiskio", _common.sdiskio)), as found in the code *)
Definition sdiskio_fields : list bytes := gen_sdiskio_fields.

(* nt( *values ): TypeError unless exactly one value per field *)
Definition mk_nt (fields : list bytes) (vals : list Z) : outcome ntuple :=
  if Nat.eqb (length fields) (length vals) then Val (combine fields vals) else Exc TypeError.

(* [sum(x) for x in zip( *rows )] : column sums, truncated to the shortest row *)
Fixpoint zip_add (a b : list Z) : list Z :=
  match a, b with
  | x :: a', y :: b' => (x + y) :: zip_add a' b'
  | _, _ => []
  end.
Fixpoint col_sums (rows : list (list Z)) : list Z :=
  match rows with
  | [] => []
  | [r] => r
  | r :: rs => zip_add r (col_sums rs)
  end.

Inductive front_res :=
| RNone                                  (* None *)
| RDict (d : list (text * ntuple))       (* {name: namedtuple} in dict order *)
| RTuple (t : ntuple).

(* psutil/__init__.py  net_io_counters / disk_io_counters with nowrap=False, from the raw dict on:
     if not rawdict: return {} if per else None
     if per: rawdict[k] = nt( *fields ) for each item; return rawdict
     else:   return nt( *(sum(x) for x in zip( *rawdict.values() )) )
   (nowrap=True on a cleared cache is the identity; wrap handling is property C10) *)
Definition front (fields : list bytes) (per : bool) (raw : list (text * list Z)) : outcome front_res :=
  match raw with
  | [] => Val (if per then RDict [] else RNone)
  | _ =>
    if per then
      do d <- mapM (fun kv => do t <- mk_nt fields (snd kv); Val (fst kv, t)) raw;
      Val (RDict d)
    else
      do t <- mk_nt fields (col_sums (map snd raw));
      Val (RTuple t)
  end.

(* ------------------------------------------------ /proc/net/dev *)
Definition unpack16 (v : list Z) : outcome (list Z) :=
  match v with
  | [bytes_recv; packets_recv; errin; dropin; _fifoin; _framein; _compressedin; _multicastin;
     bytes_sent; packets_sent; errout; dropout; _fifoout; _collisionsout; _carrierout; _compressedout] =>
    Val [bytes_sent; bytes_recv; packets_sent; packets_recv; errin; errout; dropin; dropout]
  | _ => Exc ValueError
  end.

(* [legacy] = true is the code before fix e02f4b0: name = line[:colon].strip(); the code now
   strips the padding spaces only: name = line[:colon].strip(" ") *)
Definition net_line (legacy : bool) (line : text) : xout (text * list Z) :=
  match rfind_byte 58 line with
  | None => XAssert                   (* rfind = -1; assert colon > 0 *)
  | Some colon =>
    if Nat.eqb colon 0 then XAssert   (* assert colon > 0 *)
    else
      let name := (if legacy then ustrip else sstrip) (firstn colon line) in
      let fields := usplit (ustrip (skipn (S colon) line)) in
      XV (do vals <- mapM py_int_str fields;
          do t <- unpack16 vals;
          Val (name, t))
  end.

Fixpoint net_fold (legacy : bool) (d : list (text * list Z)) (ls : list text) : xout (list (text * list Z)) :=
  match ls with
  | [] => XV (Val d)
  | l :: r => xbind (net_line legacy l) (fun kv => net_fold legacy (dset (fst kv) (snd kv) d) r)
  end.

(* _pslinux.net_io_counters *)
Definition net_raw (legacy : bool) (content : bytes) : xout (list (text * list Z)) :=
  net_fold legacy [] (skipn 2 (lines_keep (text_of content))).

(* psutil.net_io_counters(pernic, nowrap=False) *)
Definition net_io_counters (legacy pernic : bool) (content : bytes) : xout front_res :=
  xbind (net_raw legacy content) (fun raw => XV (front snetio_fields pernic raw)).

(* ------------------------------------------------ /proc/diskstats, /sys/block *)
Definition DISK_SECTOR_SIZE : Z := gen_disk_sector_size.

Record dentry := {
  e_name : text; e_reads : Z; e_writes : Z; e_rbytes : Z; e_wbytes : Z; e_rtime : Z; e_wtime : Z;
  e_rmerged : Z; e_wmerged : Z; e_busy : Z }.

Definition idx (fields : list text) (n : nat) : outcome text :=
  of_option IndexError (nth_error fields n).
Definition slice {A} (a b : nat) (l : list A) : list A := firstn (b - a) (skipn a l).

Definition disk_line (line : text) : outcome dentry :=
  let fields := usplit line in
  let flen := length fields in
  if Nat.eqb flen 15 then
    (* Linux 2.4 *)
    do name <- idx fields 3;
    do f2 <- idx fields 2;
    do reads <- py_int_str f2;
    do vs <- mapM py_int_str (slice 4 14 fields);
    match vs with
    | [reads_merged; rbytes; rtime; writes; writes_merged; wbytes; wtime; _; busy_time; _] =>
      Val {| e_name := name; e_reads := reads; e_writes := writes; e_rbytes := rbytes; e_wbytes := wbytes;
             e_rtime := rtime; e_wtime := wtime; e_rmerged := reads_merged; e_wmerged := writes_merged;
             e_busy := busy_time |}
    | _ => Exc ValueError
    end
  else if Nat.eqb flen 14 || Nat.leb 18 flen then
    (* Linux 2.6+, line referring to a disk *)
    do name <- idx fields 2;
    do vs <- mapM py_int_str (slice 3 14 fields);
    match vs with
    | [reads; reads_merged; rbytes; rtime; writes; writes_merged; wbytes; wtime; _; busy_time; _] =>
      Val {| e_name := name; e_reads := reads; e_writes := writes; e_rbytes := rbytes; e_wbytes := wbytes;
             e_rtime := rtime; e_wtime := wtime; e_rmerged := reads_merged; e_wmerged := writes_merged;
             e_busy := busy_time |}
    | _ => Exc ValueError
    end
  else if Nat.eqb flen 7 then
    (* Linux 2.6+, line referring to a partition *)
    do name <- idx fields 2;
    do vs <- mapM py_int_str (skipn 3 fields);
    match vs with
    | [reads; rbytes; writes; wbytes] =>
      Val {| e_name := name; e_reads := reads; e_writes := writes; e_rbytes := rbytes; e_wbytes := wbytes;
             e_rtime := 0; e_wtime := 0; e_rmerged := 0; e_wmerged := 0; e_busy := 0 |}
    | _ => Exc ValueError
    end
  else Exc ValueError.

(* read_sysfs: one (basename(root) as bytes, content of root/stat) per directory holding a 'stat'
   file; os.listdir/os.walk hand the name over as a str (os.fsdecode) *)
Definition sysfs_entry (e : bytes * bytes) : outcome dentry :=
  let '(name, content) := e in
  let fields := usplit (ustrip (text_of content)) in
  do vs <- mapM py_int_str (firstn 10 fields);
  match vs with
  | [reads; reads_merged; rbytes; rtime; writes; writes_merged; wbytes; wtime; _; busy_time] =>
    Val {| e_name := dec name; e_reads := reads; e_writes := writes; e_rbytes := rbytes; e_wbytes := wbytes;
           e_rtime := rtime; e_wtime := wtime; e_rmerged := reads_merged; e_wmerged := writes_merged;
           e_busy := busy_time |}
  | _ => Exc ValueError
  end.

Inductive disk_src :=
| ProcDiskstats (content : bytes)                  (* {procfs}/diskstats exists *)
| SysBlock (entries : list (bytes * bytes))        (* it does not, /sys/block does *)
| NoSource.

(* name.replace('/', '!') : every occurrence *)
Definition py_replace_slash (name : text) : text := map (fun c => if c =? 47 then 33 else c) name.
(* is_storage_device(name): os.access("/sys/block/<name>", F_OK) with including_virtual = True, i.e.
   nothing but the presence of that directory entry decides (loop*, ram*, dm-*, md* included);
   [sysblock] answers for a directory entry name given as str *)
Definition is_storage_device (sysblock : text -> bool) (name : text) : bool :=
  sysblock (py_replace_slash name).

Definition disk_store (perdisk : bool) (sysblock : text -> bool)
           (d : list (text * list Z)) (e : dentry) : list (text * list Z) :=
  if negb perdisk && negb (is_storage_device sysblock (e_name e)) then d
  else dset (e_name e)
         [e_reads e; e_writes e; e_rbytes e * DISK_SECTOR_SIZE; e_wbytes e * DISK_SECTOR_SIZE;
          e_rtime e; e_wtime e; e_rmerged e; e_wmerged e; e_busy e] d.

(* _pslinux.disk_io_counters(perdisk) *)
Definition disk_raw (perdisk : bool) (sysblock : text -> bool) (src : disk_src)
  : outcome (list (text * list Z)) :=
  do ents <- match src with
             | ProcDiskstats content => mapM disk_line (lines_keep (text_of content))
             | SysBlock entries => mapM sysfs_entry entries
             | NoSource => Exc NotImplementedError
             end;
  Val (fold_left (disk_store perdisk sysblock) ents []).

(* psutil.disk_io_counters(perdisk, nowrap=False) *)
Definition disk_io_counters (perdisk : bool) (sysblock : text -> bool) (src : disk_src) : outcome front_res :=
  do raw <- disk_raw perdisk sysblock src; front sdiskio_fields perdisk raw.

(* ------------------------------------------------ nowrap=True: _common._WrapNumbers (one cache name) *)
(* self.cache[name] (None = no entry), self.reminders[name] restricted to its non-zero entries
   (reminder_keys[name] only serves to delete exactly those when a key goes away) *)
Record wcache := { wc_prev : option (list (text * list Z)); wc_rem : list ((text * nat) * Z) }.
Definition wc_init : wcache := {| wc_prev := None; wc_rem := [] |}.     (* after cache_clear() *)

Fixpoint dget {V} (k : text) (d : list (text * V)) : option V :=
  match d with
  | [] => None
  | (k', v) :: r => if beqb k k' then Some v else dget k r
  end.
Definition has_key {V} (k : text) (d : list (text * V)) : bool :=
  match dget k d with Some _ => true | None => false end.
Definition remkey_eqb (a b : text * nat) : bool := beqb (fst a) (fst b) && Nat.eqb (snd a) (snd b).
Fixpoint rem_get (k : text * nat) (rem : list ((text * nat) * Z)) : Z :=
  match rem with
  | [] => 0
  | (k', v) :: r => if remkey_eqb k k' then v else rem_get k r
  end.
Fixpoint rem_add (k : text * nat) (v : Z) (rem : list ((text * nat) * Z)) : list ((text * nat) * Z) :=
  match rem with
  | [] => [(k, v)]
  | (k', v') :: r => if remkey_eqb k k' then (k', v' + v) :: r else (k', v') :: rem_add k v r
  end.

(* for i in range(len(input_tuple)): if input_value < old_value: reminders[remkey] += old_value
   bits.append(input_value + reminders[remkey])          (old_tuple[i]: IndexError if shorter) *)
Fixpoint wrap_tuple (key : text) (i : nat) (inp old : list Z) (rem : list ((text * nat) * Z))
  : outcome (list Z * list ((text * nat) * Z)) :=
  match inp with
  | [] => Val ([], rem)
  | x :: inp' =>
    match old with
    | [] => Exc IndexError
    | o :: old' =>
      let rem1 := if x <? o then rem_add (key, i) o rem else rem in
      do r <- wrap_tuple key (S i) inp' old' rem1;
      Val (x + rem_get (key, i) rem1 :: fst r, snd r)
    end
  end.

(* _remove_dead_reminders: keys of the cached dict that the new dict lacks *)
Definition remove_dead (old input : list (text * list Z)) (rem : list ((text * nat) * Z)) :=
  filter (fun e => negb (has_key (fst (fst e)) old && negb (has_key (fst (fst e)) input))) rem.

Fixpoint wrap_loop (old input : list (text * list Z)) (rem : list ((text * nat) * Z))
  : outcome (list (text * list Z) * list ((text * nat) * Z)) :=
  match input with
  | [] => Val ([], rem)
  | (key, t) :: r =>
    match dget key old with
    | None => do x <- wrap_loop old r rem; Val ((key, t) :: fst x, snd x)     (* a new key *)
    | Some ot =>
      do y <- wrap_tuple key 0 t ot rem;
      do x <- wrap_loop old r (snd y);
      Val ((key, fst y) :: fst x, snd x)
    end
  end.

(* _WrapNumbers.run: returns the adjusted dict; the cache entry is REBOUND to the input dict, so a
   key that is not in this call's input is forgotten *)
Definition wrap_run (st : wcache) (input : list (text * list Z)) : outcome (list (text * list Z) * wcache) :=
  match wc_prev st with
  | None => Val (input, {| wc_prev := Some input; wc_rem := [] |})
  | Some old =>
    do x <- wrap_loop old input (remove_dead old input (wc_rem st));
    Val (fst x, {| wc_prev := Some input; wc_rem := snd x |})
  end.

(* the front ends with the default nowrap=True (psutil/__init__.py as of the C10 repair):
     with _nowrap_lock:
         rawdict = _psplatform...()
         rawdict = _wrap_numbers(rawdict, name)      <- also when nothing is listed
     if not rawdict: return {} if per else None ; ... as [front] *)
Definition front_wrap (fields : list bytes) (per : bool) (st : wcache) (raw : list (text * list Z))
  : outcome (front_res * wcache) :=
  do x <- wrap_run st raw; do f <- front fields per (fst x); Val (f, snd x).

(* successive psutil.net_io_counters(pernic=per) calls, default nowrap, starting from cache state [st];
   a call that raises leaves the cache as it was (the platform call fails before _wrap_numbers;
   IndexError inside run() cannot happen with the fixed-width tuples) *)
Fixpoint net_polls (legacy : bool) (st : wcache) (polls : list (bool * bytes)) : list (xout front_res) :=
  match polls with
  | [] => []
  | (per, c) :: r =>
    match net_raw legacy c with
    | XV (Val raw) =>
      match front_wrap snetio_fields per st raw with
      | Val (f, st') => XV (Val f) :: net_polls legacy st' r
      | Exc e => XV (Exc e) :: net_polls legacy st r
      | OutOfModel => XV OutOfModel :: net_polls legacy st r
      end
    | XV (Exc e) => XV (Exc e) :: net_polls legacy st r
    | XV OutOfModel => XV OutOfModel :: net_polls legacy st r
    | XAssert => XAssert :: net_polls legacy st r
    end
  end.

(* successive psutil.disk_io_counters(perdisk=per) calls, default nowrap; both values of perdisk share
   the one cache name 'psutil.disk_io_counters'; /sys/block may change between calls *)
Fixpoint disk_polls (st : wcache) (polls : list (bool * (text -> bool) * disk_src)) : list (outcome front_res) :=
  match polls with
  | [] => []
  | (per, sb, src) :: r =>
    match disk_raw per sb src with
    | Val raw =>
      match front_wrap sdiskio_fields per st raw with
      | Val (f, st') => Val f :: disk_polls st' r
      | Exc e => Exc e :: disk_polls st r
      | OutOfModel => OutOfModel :: disk_polls st r
      end
    | Exc e => Exc e :: disk_polls st r
    | OutOfModel => OutOfModel :: disk_polls st r
    end
  end.

(* ------------------------------------------------ disk_usage *)
(* os.statvfs result: f_bsize (preferred I/O block size) and f_frsize (fragment size, the unit of
   f_blocks / f_bfree / f_bavail) are independent fields; the code uses f_frsize only *)
Record statvfs := { f_bsize : Z; f_frsize : Z; f_blocks : Z; f_bfree : Z; f_bavail : Z }.
(* percent is kept exact: None = the ZeroDivisionError branch (0.0), Some (n, d) = n/d before round(_, 1) *)
Record usage := { u_total : Z; u_used : Z; u_free : Z; u_percent : option (Z * Z) }.

Definition usage_percent (used total : Z) : option (Z * Z) :=
  if total =? 0 then None else Some (used * 100, total).

Definition disk_usage (st : statvfs) : usage :=
  let total := f_blocks st * f_frsize st in
  let avail_to_root := f_bfree st * f_frsize st in
  let avail_to_user := f_bavail st * f_frsize st in
  let used := total - avail_to_root in
  let total_user := used + avail_to_user in
  {| u_total := total; u_used := used; u_free := avail_to_user;
     u_percent := usage_percent used total_user |}.
