(* C09 -- auxiliary lemmas: tokenising padded columns, insertion-ordered dicts, column sums *)
From PV Require Import C09.Spec.

(* ------------------------------------------------ split_ws and strip *)
Lemma split_ws_cons2 a d r :
  is_ws a = false ->
  split_ws (a :: d :: r) =
  if is_ws d then [a] :: split_ws (d :: r)
  else match split_ws (d :: r) with t :: ts => (a :: t) :: ts | [] => [[a]] end.
Proof. intros H. remember (d :: r) as w eqn:Hw. cbn [split_ws]. rewrite H. subst w. reflexivity. Qed.

Lemma split_ws_snoc_ws x c : is_ws c = true -> split_ws (x ++ [c]) = split_ws x.
Proof.
  intros Hc. induction x as [|a x IH].
  - cbn [app split_ws]. now rewrite Hc.
  - change ((a :: x) ++ [c]) with (a :: (x ++ [c])).
    destruct (is_ws a) eqn:Ha.
    + rewrite !split_ws_leading by exact Ha. exact IH.
    + destruct x as [|d x'].
      * cbn [app]. rewrite split_ws_cons2 by exact Ha. rewrite Hc.
        rewrite split_ws_leading by exact Hc. cbn [split_ws]. now rewrite Ha.
      * change ((d :: x') ++ [c]) with (d :: (x' ++ [c])).
        rewrite !split_ws_cons2 by exact Ha.
        change (d :: (x' ++ [c])) with ((d :: x') ++ [c]). now rewrite IH.
Qed.

Lemma split_ws_lstrip l : split_ws (lstrip l) = split_ws l.
Proof.
  induction l as [|a l IH]; [reflexivity|]. cbn [lstrip].
  destruct (is_ws a) eqn:Ha; [|reflexivity]. now rewrite split_ws_leading.
Qed.

Lemma split_ws_rstrip l : split_ws (rstrip l) = split_ws l.
Proof.
  induction l as [|c x IH] using rev_ind; [reflexivity|].
  rewrite rstrip_snoc. destruct (is_ws c) eqn:Hc; [|reflexivity].
  now rewrite IH, split_ws_snoc_ws.
Qed.

Lemma split_ws_strip l : split_ws (strip l) = split_ws l.
Proof. unfold strip. now rewrite split_ws_rstrip, split_ws_lstrip. Qed.

Definition starts_ws (l : bytes) : bool := match l with s :: _ => is_ws s | [] => false end.

Lemma split_ws_tok_app t l :
  tok_ok t = true -> starts_ws l = true -> split_ws (t ++ l) = t :: split_ws l.
Proof.
  intros Ht Hl. destruct l as [|s rest]; [discriminate|]. cbn [starts_ws] in Hl.
  apply tok_ok_spec in Ht as [Hne Hnw].
  rewrite split_ws_token_sep by assumption. now rewrite split_ws_leading.
Qed.

Lemma split_ws_repeat n l : split_ws (repeat 32 n ++ l) = split_ws l.
Proof. induction n as [|n IH]; [reflexivity|]. cbn [repeat app]. now rewrite split_ws_leading. Qed.

Lemma sp_items_cons p r : sp_items (p :: r) = repeat 32 (S (fst p)) ++ snd p ++ sp_items r.
Proof. unfold sp_items. cbn [map concat]. unfold sp_item at 1. now rewrite <- app_assoc. Qed.

Lemma sp_items_app a b : sp_items (a ++ b) = sp_items a ++ sp_items b.
Proof. unfold sp_items. now rewrite map_app, concat_app. Qed.

Lemma starts_ws_sp_items items tail :
  starts_ws tail = true -> starts_ws (sp_items items ++ tail) = true.
Proof. intros H. destruct items as [|p r]; [exact H|]. rewrite sp_items_cons. reflexivity. Qed.

Lemma split_ws_sp_items items tail :
  forallb tok_ok (map snd items) = true -> starts_ws tail = true ->
  split_ws (sp_items items ++ tail) = map snd items ++ split_ws tail.
Proof.
  intros H Ht. induction items as [|p r IH]; [reflexivity|].
  cbn [map forallb] in H. apply andb_true_iff in H as [Hp Hr].
  rewrite sp_items_cons, <- !app_assoc, split_ws_repeat.
  rewrite split_ws_tok_app by (auto using starts_ws_sp_items).
  cbn [map app]. now rewrite IH.
Qed.

Lemma map_snd_cols l : map snd (cols l) = map snd l.
Proof. unfold cols. rewrite map_map. reflexivity. Qed.
Lemma map_snd_zero_w l : map snd (zero_w l) = l.
Proof. unfold zero_w. rewrite map_map. cbn [snd]. apply map_id. Qed.

Lemma lstrip_repeat n t : lstrip (repeat 32 n ++ t) = lstrip t.
Proof. induction n as [|n IH]; [reflexivity|]. cbn [repeat app lstrip]. exact IH. Qed.

Lemma strip_pad n t : tok_ok t = true -> strip (repeat 32 n ++ t) = t.
Proof.
  intros H. apply tok_ok_spec in H as [Hne Hnw]. unfold strip.
  rewrite lstrip_repeat, (lstrip_no_ws t Hnw).
  exact (rstrip_no_ws_tail [] t Hne Hnw).
Qed.

(* ------------------------------------------------ character classes *)
Lemma forallb_imp {A} (P Q : A -> bool) l :
  (forall x, P x = true -> Q x = true) -> forallb P l = true -> forallb Q l = true.
Proof.
  intros H. induction l as [|x l IH]; [reflexivity|]. cbn [forallb]. intros G.
  apply andb_true_iff in G as [G1 G2]. now rewrite (H _ G1), IH.
Qed.

Lemma forallb_repeat {A} (P : A -> bool) x n : P x = true -> forallb P (repeat x n) = true.
Proof. intros H. induction n as [|n IH]; [reflexivity|]. cbn [repeat forallb]. now rewrite H, IH. Qed.

Lemma forallb_sp_items P items :
  P 32 = true -> forallb (forallb P) (map snd items) = true -> forallb P (sp_items items) = true.
Proof.
  intros H32. induction items as [|p r IH]; [reflexivity|]. cbn [map forallb]. intros H.
  apply andb_true_iff in H as [Hp Hr]. rewrite sp_items_cons, !forallb_app.
  rewrite forallb_repeat by exact H32. cbn [andb].
  apply andb_true_iff. split; [exact Hp|exact (IH Hr)].
Qed.

Lemma forallb_pad P w t : P 32 = true -> forallb P t = true -> forallb P (pad w t) = true.
Proof. intros H32 Ht. unfold pad. rewrite forallb_app, forallb_repeat by exact H32. now rewrite Ht. Qed.

Lemma contains_false_forallb b l : forallb (fun c => negb (b =? c)) l = true -> contains b l = false.
Proof.
  induction l as [|c l IH]; [reflexivity|]. cbn [forallb]. intros H.
  apply andb_true_iff in H as [H1 H2]. rewrite contains_cons, (IH H2).
  apply negb_true_iff in H1. now rewrite H1.
Qed.

Lemma is_dec_inv t : is_dec t = true -> t <> [] /\ forallb is_digit t = true.
Proof. destruct t; [discriminate|]. intros H. split; [congruence|exact H]. Qed.
Lemma name_ok_inv t : name_ok t = true -> t <> [] /\ forallb is_graph t = true.
Proof. destruct t; [discriminate|]. intros H. split; [congruence|exact H]. Qed.

Lemma digit_graph c : is_digit c = true -> is_graph c = true.
Proof. unfold is_digit, is_graph. lia. Qed.
Lemma graph_not_ws c : is_graph c = true -> negb (is_ws c) = true.
Proof. unfold is_graph, is_ws. lia. Qed.

Lemma is_dec_tok_ok t : is_dec t = true -> tok_ok t = true.
Proof. intros H. apply tok_ok_spec. now apply is_dec_tok. Qed.
Lemma name_tok_ok t : name_ok t = true -> tok_ok t = true.
Proof.
  intros H. apply name_ok_inv in H as [Hne Hg]. apply tok_ok_spec. split; [exact Hne|].
  unfold no_ws. exact (forallb_imp _ _ _ graph_not_ws Hg).
Qed.
Lemma dec_all P t : (forall c, is_digit c = true -> P c = true) -> is_dec t = true -> forallb P t = true.
Proof. intros HP H. apply is_dec_inv in H as [_ H]. exact (forallb_imp _ _ _ HP H). Qed.
Lemma decs_all P l :
  (forall c, is_digit c = true -> P c = true) -> forallb is_dec l = true -> forallb (forallb P) l = true.
Proof. intros HP. apply forallb_imp. intros t. now apply dec_all. Qed.
Lemma decs_tok_ok l : forallb is_dec l = true -> forallb tok_ok l = true.
Proof. apply forallb_imp. exact is_dec_tok_ok. Qed.

Lemma mapM_py_int_dec l : forallb is_dec l = true -> mapM py_int l = Val (map dec_val l).
Proof.
  induction l as [|t l IH]; [reflexivity|]. cbn [forallb]. intros H.
  apply andb_true_iff in H as [Ht Hl]. cbn [mapM map]. unfold py_int at 1.
  rewrite (parse_int_dec _ Ht). cbn [of_option obind]. now rewrite (IH Hl).
Qed.

(* ------------------------------------------------ slicing around a separator *)
Lemma firstn_app_len {A} (pre rest : list A) : firstn (length pre) (pre ++ rest) = pre.
Proof. induction pre as [|a pre IH]; [reflexivity|]. cbn [length app firstn]. now rewrite IH. Qed.
Lemma skipn_app_len {A} (pre : list A) x rest : skipn (S (length pre)) (pre ++ x :: rest) = rest.
Proof. induction pre as [|a pre IH]; [reflexivity|]. cbn [length app]. exact IH. Qed.

(* ------------------------------------------------ lines *)
Lemma lines_keep_concat (ls : list bytes) :
  (forall l, In l ls -> exists body, l = body ++ [10] /\ contains 10 body = false) ->
  lines_keep (concat ls) = ls.
Proof.
  induction ls as [|l ls IH]; intros H; [reflexivity|].
  destruct (H l (or_introl eq_refl)) as [body [-> Hb]].
  cbn [concat]. rewrite <- app_assoc. cbn [app]. rewrite lines_keep_line by exact Hb.
  rewrite IH; [reflexivity|]. intros l' Hl'. apply H. now right.
Qed.

(* ------------------------------------------------ dicts *)
Lemma nodupb_NoDup l : nodupb l = true -> NoDup l.
Proof.
  induction l as [|x l IH]; intros H; [constructor|].
  cbn [nodupb] in H. apply andb_true_iff in H as [H1 H2]. apply negb_true_iff in H1.
  constructor; [|now apply IH]. intros Hin.
  assert (existsb (beqb x) l = true) as E by (apply existsb_exists; exists x; split; [exact Hin|apply beqb_refl]).
  congruence.
Qed.

Lemma NoDup_map_filter {A B} (f : A -> B) (p : A -> bool) l :
  NoDup (map f l) -> NoDup (map f (filter p l)).
Proof.
  induction l as [|a l IH]; intros H; [constructor|].
  cbn [map] in H. inversion H as [|x xs Hnin Hnd]; subst.
  cbn [filter]. destruct (p a); [|now apply IH].
  cbn [map]. constructor; [|now apply IH].
  intros Hin. apply Hnin. apply in_map_iff in Hin as [y [Hy Hin]].
  apply filter_In in Hin as [Hin _]. apply in_map_iff. eauto.
Qed.

Lemma dset_fresh {V} k (v : V) d : ~ In k (map fst d) -> dset k v d = d ++ [(k, v)].
Proof.
  induction d as [|[k' v'] d IH]; intros H; [reflexivity|].
  cbn [dset]. destruct (beqb k k') eqn:E.
  - apply beqb_eq in E. subst k'. exfalso. apply H. now left.
  - cbn [app]. rewrite IH; [reflexivity|]. intros Hin. apply H. now right.
Qed.

Lemma fold_dset_nodup {V} (kvs : list (bytes * V)) : forall acc,
  NoDup (map fst kvs) -> (forall k, In k (map fst kvs) -> ~ In k (map fst acc)) ->
  fold_left (fun d kv => dset (fst kv) (snd kv) d) kvs acc = acc ++ kvs.
Proof.
  induction kvs as [|[k v] kvs IH]; intros acc Hnd Hfresh; [now rewrite app_nil_r|].
  cbn [map fst] in Hnd. inversion Hnd as [|x xs Hnin Hnd']; subst.
  cbn [fold_left fst snd]. rewrite dset_fresh by (apply Hfresh; now left).
  rewrite IH; [now rewrite <- app_assoc|exact Hnd'|].
  intros k' Hk'. rewrite map_app, in_app_iff. cbn [map fst In]. intros [Hin|[Heq|[]]].
  - exact (Hfresh k' (or_intror Hk') Hin).
  - subst k'. exact (Hnin Hk').
Qed.

Lemma fold_left_skip {A B} (skip : B -> bool) (g : A -> B -> A) l : forall acc,
  fold_left (fun d e => if skip e then d else g d e) l acc
  = fold_left g (filter (fun e => negb (skip e)) l) acc.
Proof.
  induction l as [|e l IH]; intros acc; [reflexivity|].
  cbn [fold_left filter]. destruct (skip e); cbn [negb]; [apply IH|]. cbn [fold_left]. apply IH.
Qed.

Lemma filter_true {A} (p : A -> bool) l : (forall x, In x l -> p x = true) -> filter p l = l.
Proof.
  induction l as [|a l IH]; intros H; [reflexivity|]. cbn [filter].
  rewrite (H a (or_introl eq_refl)). f_equal. apply IH. intros x Hx. apply H. now right.
Qed.

(* ------------------------------------------------ the front end over well-shaped tuples *)
Lemma front_per {A} (fields : list bytes) (nm : A -> bytes) (tup : A -> list Z) (nt : A -> ntuple) l :
  (forall a, mk_nt fields (tup a) = Val (nt a)) ->
  front fields true (map (fun a => (nm a, tup a)) l) = Val (RDict (map (fun a => (nm a, nt a)) l)).
Proof.
  intros H.
  assert (G : mapM (fun kv : bytes * list Z => do t <- mk_nt fields (snd kv); Val (fst kv, t))
                   (map (fun a => (nm a, tup a)) l) = Val (map (fun a => (nm a, nt a)) l)).
  { induction l as [|a l IH]; [reflexivity|]. cbn [map mapM fst snd]. rewrite H. cbn [obind].
    now rewrite IH. }
  unfold front. destruct l as [|a l]; [reflexivity|].
  remember (map (fun a0 => (nm a0, tup a0)) (a :: l)) as raw eqn:Hr.
  destruct raw as [|r0 raw']; [discriminate|]. rewrite G. reflexivity.
Qed.

Lemma front_total {A} (fields : list bytes) (nm : A -> bytes) (tup : A -> list Z) (res : ntuple) l :
  l <> [] -> mk_nt fields (col_sums (map tup l)) = Val res ->
  front fields false (map (fun a => (nm a, tup a)) l) = Val (RTuple res).
Proof.
  intros Hne H. unfold front. destruct l as [|a l]; [congruence|].
  set (raw := map (fun a0 => (nm a0, tup a0)) (a :: l)).
  assert (E : map snd raw = map tup (a :: l)).
  { unfold raw. rewrite map_map. apply map_ext. reflexivity. }
  rewrite E, H. reflexivity.
Qed.
