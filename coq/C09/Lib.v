(* C09 -- auxiliary lemmas: tokenising padded columns (str semantics), decoding printed lines,
   insertion-ordered dicts, column sums *)
From PV Require Import C09.Spec C09.TextLemmas.

(* ------------------------------------------------ str.split / str.strip on padded columns *)
Definition ustarts (l : text) : bool := gstarts is_uws l.

Lemma uws_32 : is_uws 32 = true. Proof. reflexivity. Qed.
Lemma uws_10 : is_uws 10 = true. Proof. reflexivity. Qed.

Lemma usplit_strip l : usplit (ustrip l) = usplit l.
Proof. exact (gsplit_strip is_uws l). Qed.
Lemma usplit_leading s rest : is_uws s = true -> usplit (s :: rest) = usplit rest.
Proof. exact (gsplit_leading is_uws s rest). Qed.
Lemma usplit_tok_app t l : utok_ok t = true -> ustarts l = true -> usplit (t ++ l) = t :: usplit l.
Proof. exact (gsplit_tok_app is_uws t l). Qed.
Lemma usplit_repeat n l : usplit (repeat 32 n ++ l) = usplit l.
Proof. exact (gsplit_repeat is_uws 32 n l uws_32). Qed.
Lemma ustrip_pad n t : uends_ok t = true -> ustrip (repeat 32 n ++ t) = t.
Proof. exact (gstrip_pad is_uws 32 n t uws_32). Qed.
Lemma utok_ends t : utok_ok t = true -> uends_ok t = true.
Proof. exact (gtok_ends is_uws t). Qed.
Lemma utok_ok_spec t : utok_ok t = true <-> t <> [] /\ gno_ws is_uws t = true.
Proof. exact (gtok_ok_spec is_uws t). Qed.

Lemma sp_items_cons p r : sp_items (p :: r) = repeat 32 (S (fst p)) ++ snd p ++ sp_items r.
Proof. unfold sp_items. cbn [map concat]. unfold sp_item at 1. now rewrite <- app_assoc. Qed.

Lemma ustarts_sp_items items tail :
  ustarts tail = true -> ustarts (sp_items items ++ tail) = true.
Proof. intros H. destruct items as [|p r]; [exact H|]. rewrite sp_items_cons. reflexivity. Qed.

Lemma usplit_sp_items items tail :
  forallb utok_ok (map snd items) = true -> ustarts tail = true ->
  usplit (sp_items items ++ tail) = map snd items ++ usplit tail.
Proof.
  intros H Ht. induction items as [|p r IH]; [reflexivity|].
  cbn [map forallb] in H. apply andb_true_iff in H as [Hp Hr].
  rewrite sp_items_cons, <- !app_assoc, usplit_repeat.
  rewrite usplit_tok_app by (auto using ustarts_sp_items).
  cbn [map app]. now rewrite IH.
Qed.

Lemma map_snd_cols l : map snd (cols l) = map snd l.
Proof. unfold cols. rewrite map_map. reflexivity. Qed.
Lemma map_snd_zero_w l : map snd (zero_w l) = l.
Proof. unfold zero_w. rewrite map_map. cbn [snd]. apply map_id. Qed.

(* ------------------------------------------------ character classes *)
Lemma forallb_imp {A} (P Q : A -> bool) l :
  (forall x, P x = true -> Q x = true) -> forallb P l = true -> forallb Q l = true.
Proof.
  intros H. induction l as [|x l IH]; [reflexivity|]. cbn [forallb]. intros G.
  apply andb_true_iff in G as [G1 G2]. now rewrite (H _ G1), IH.
Qed.

Lemma forallb_repeat {A} (P : A -> bool) x n : P x = true -> forallb P (repeat x n) = true.
Proof. intros H. induction n as [|n IH]; [reflexivity|]. cbn [repeat forallb]. now rewrite H, IH. Qed.

Lemma forallb_sp_items P items :
  P 32 = true -> forallb (forallb P) (map snd items) = true -> forallb P (sp_items items) = true.
Proof.
  intros H32. induction items as [|p r IH]; [reflexivity|]. cbn [map forallb]. intros H.
  apply andb_true_iff in H as [Hp Hr]. rewrite sp_items_cons, !forallb_app.
  rewrite forallb_repeat by exact H32. cbn [andb].
  apply andb_true_iff. split; [exact Hp|exact (IH Hr)].
Qed.

Lemma forallb_concat {A} (P : A -> bool) ls :
  (forall l, In l ls -> forallb P l = true) -> forallb P (concat ls) = true.
Proof.
  induction ls as [|l ls IH]; intros H; [reflexivity|]. cbn [concat]. rewrite forallb_app.
  rewrite (H l (or_introl eq_refl)). apply IH. intros x Hx. apply H. now right.
Qed.

Lemma contains_false_forallb b l : forallb (fun c => negb (b =? c)) l = true -> contains b l = false.
Proof.
  induction l as [|c l IH]; [reflexivity|]. cbn [forallb]. intros H.
  apply andb_true_iff in H as [H1 H2]. rewrite contains_cons, (IH H2).
  apply negb_true_iff in H1. now rewrite H1.
Qed.
Lemma contains_repeat b x n : (b =? x) = false -> contains b (repeat x n) = false.
Proof. intros H. induction n as [|n IH]; [reflexivity|]. cbn [repeat]. now rewrite contains_cons, H, IH. Qed.
Lemma contains_concat b ls : (forall l, In l ls -> contains b l = false) -> contains b (concat ls) = false.
Proof.
  induction ls as [|l ls IH]; intros H; [reflexivity|]. cbn [concat]. rewrite contains_app.
  rewrite (H l (or_introl eq_refl)). apply IH. intros x Hx. apply H. now right.
Qed.

Lemma is_dec_inv t : is_dec t = true -> t <> [] /\ forallb is_digit t = true.
Proof. destruct t; [discriminate|]. intros H. split; [congruence|exact H]. Qed.

Lemma digit_not_uws c : is_digit c = true -> negb (is_uws c) = true.
Proof. unfold is_digit, is_uws. lia. Qed.

Lemma is_dec_utok t : is_dec t = true -> utok_ok t = true.
Proof.
  intros H. apply is_dec_inv in H as [Hne Hd]. apply utok_ok_spec. split; [exact Hne|].
  unfold gno_ws. exact (forallb_imp _ _ _ digit_not_uws Hd).
Qed.
Lemma dec_all P t : (forall c, is_digit c = true -> P c = true) -> is_dec t = true -> forallb P t = true.
Proof. intros HP H. apply is_dec_inv in H as [_ H]. exact (forallb_imp _ _ _ HP H). Qed.
Lemma decs_all P l :
  (forall c, is_digit c = true -> P c = true) -> forallb is_dec l = true -> forallb (forallb P) l = true.
Proof. intros HP. apply forallb_imp. intros t. now apply dec_all. Qed.
Lemma decs_utok l : forallb is_dec l = true -> forallb utok_ok l = true.
Proof. apply forallb_imp. exact is_dec_utok. Qed.

(* a token has no blank, hence no line break *)
Lemma utok_contains b t : is_uws b = true -> utok_ok t = true -> contains b t = false.
Proof.
  intros Hb H. apply utok_ok_spec in H as [_ H]. unfold gno_ws in H.
  apply contains_false_forallb. refine (forallb_imp _ _ _ _ H). intros c Hc.
  destruct (Z.eqb_spec b c) as [->|]; [|reflexivity]. now rewrite Hb in Hc.
Qed.

(* ------------------------------------------------ slicing around a separator *)
Lemma firstn_app_len {A} (pre rest : list A) : firstn (length pre) (pre ++ rest) = pre.
Proof. induction pre as [|a pre IH]; [reflexivity|]. cbn [length app firstn]. now rewrite IH. Qed.
Lemma skipn_app_len {A} (pre : list A) x rest : skipn (S (length pre)) (pre ++ x :: rest) = rest.
Proof. induction pre as [|a pre IH]; [reflexivity|]. cbn [length app]. exact IH. Qed.

(* ------------------------------------------------ lines *)
Lemma lines_keep_concat (ls : list text) :
  (forall l, In l ls -> exists body, l = body ++ [10] /\ contains 10 body = false) ->
  lines_keep (concat ls) = ls.
Proof.
  induction ls as [|l ls IH]; intros H; [reflexivity|].
  destruct (H l (or_introl eq_refl)) as [body [-> Hb]].
  cbn [concat]. rewrite <- app_assoc. cbn [app]. rewrite lines_keep_line by exact Hb.
  rewrite IH; [reflexivity|]. intros l' Hl'. apply H. now right.
Qed.

(* a file made of '\n'-terminated lines is decoded line by line *)
Lemma dec_concat_lines (ls : list bytes) :
  (forall l, In l ls -> exists body, l = body ++ [10]) -> dec (concat ls) = concat (map dec ls).
Proof.
  induction ls as [|l ls IH]; intros H; [reflexivity|].
  destruct (H l (or_introl eq_refl)) as [body ->].
  cbn [concat map]. rewrite <- app_assoc. cbn [app].
  rewrite dec_app_ascii by lia. rewrite IH by (intros x Hx; apply H; now right).
  rewrite dec_app_ascii by lia. cbn [dec]. rewrite <- app_assoc. reflexivity.
Qed.

(* what a text-mode reader gets from such a file whose lines hold no '\n' / '\r' inside *)
Lemma text_lines (ls : list bytes) (tls : list text) :
  (forall l, In l ls -> exists body, l = body ++ [10]) ->
  map dec ls = tls ->
  (forall t, In t tls -> exists body, t = body ++ [10] /\ contains 10 body = false /\ contains 13 body = false) ->
  lines_keep (text_of (concat ls)) = tls.
Proof.
  intros H1 H2 H3. unfold text_of. rewrite (dec_concat_lines ls H1), H2.
  rewrite univ_nl_id.
  - apply lines_keep_concat. intros t Ht. destruct (H3 t Ht) as [body [E [C _]]]. eauto.
  - apply contains_concat. intros t Ht. destruct (H3 t Ht) as [body [-> [_ C]]].
    rewrite contains_app, C. reflexivity.
Qed.

(* ------------------------------------------------ dicts *)
Lemma nodupb_NoDup l : nodupb l = true -> NoDup l.
Proof.
  induction l as [|x l IH]; intros H; [constructor|].
  cbn [nodupb] in H. apply andb_true_iff in H as [H1 H2]. apply negb_true_iff in H1.
  constructor; [|now apply IH]. intros Hin.
  assert (existsb (beqb x) l = true) as E by (apply existsb_exists; exists x; split; [exact Hin|apply beqb_refl]).
  congruence.
Qed.

Lemma NoDup_map_filter {A B} (f : A -> B) (p : A -> bool) l :
  NoDup (map f l) -> NoDup (map f (filter p l)).
Proof.
  induction l as [|a l IH]; intros H; [constructor|].
  cbn [map] in H. inversion H as [|x xs Hnin Hnd]; subst.
  cbn [filter]. destruct (p a); [|now apply IH].
  cbn [map]. constructor; [|now apply IH].
  intros Hin. apply Hnin. apply in_map_iff in Hin as [y [Hy Hin]].
  apply filter_In in Hin as [Hin _]. apply in_map_iff. eauto.
Qed.

Lemma dset_fresh {V} k (v : V) d : ~ In k (map fst d) -> dset k v d = d ++ [(k, v)].
Proof.
  induction d as [|[k' v'] d IH]; intros H; [reflexivity|].
  cbn [dset]. destruct (beqb k k') eqn:E.
  - apply beqb_eq in E. subst k'. exfalso. apply H. now left.
  - cbn [app]. rewrite IH; [reflexivity|]. intros Hin. apply H. now right.
Qed.

Lemma fold_dset_nodup {V} (kvs : list (text * V)) : forall acc,
  NoDup (map fst kvs) -> (forall k, In k (map fst kvs) -> ~ In k (map fst acc)) ->
  fold_left (fun d kv => dset (fst kv) (snd kv) d) kvs acc = acc ++ kvs.
Proof.
  induction kvs as [|[k v] kvs IH]; intros acc Hnd Hfresh; [now rewrite app_nil_r|].
  cbn [map fst] in Hnd. inversion Hnd as [|x xs Hnin Hnd']; subst.
  cbn [fold_left fst snd]. rewrite dset_fresh by (apply Hfresh; now left).
  rewrite IH; [now rewrite <- app_assoc|exact Hnd'|].
  intros k' Hk'. rewrite map_app, in_app_iff. cbn [map fst In]. intros [Hin|[Heq|[]]].
  - exact (Hfresh k' (or_intror Hk') Hin).
  - subst k'. exact (Hnin Hk').
Qed.

Lemma filter_true {A} (p : A -> bool) l : (forall x, In x l -> p x = true) -> filter p l = l.
Proof.
  induction l as [|a l IH]; intros H; [reflexivity|]. cbn [filter].
  rewrite (H a (or_introl eq_refl)). f_equal. apply IH. intros x Hx. apply H. now right.
Qed.

Lemma filter_ext_in' {A} (f g : A -> bool) l : (forall a, In a l -> f a = g a) -> filter f l = filter g l.
Proof.
  induction l as [|a l IH]; intros H; [reflexivity|]. cbn [filter].
  rewrite (H a (or_introl eq_refl)), IH; [reflexivity|]. intros x Hx. apply H. now right.
Qed.

Lemma forallb_firstn {A} (P : A -> bool) n l : forallb P l = true -> forallb P (firstn n l) = true.
Proof.
  revert l. induction n as [|n IH]; intros l H; [reflexivity|]. destruct l as [|x l]; [reflexivity|].
  cbn [forallb] in H. apply andb_true_iff in H as [H1 H2]. cbn [firstn forallb]. now rewrite H1, IH.
Qed.

(* ------------------------------------------------ the front end over well-shaped tuples *)
Lemma front_per {A} (fields : list bytes) (nm : A -> text) (tup : A -> list Z) (nt : A -> ntuple) l :
  (forall a, mk_nt fields (tup a) = Val (nt a)) ->
  front fields true (map (fun a => (nm a, tup a)) l) = Val (RDict (map (fun a => (nm a, nt a)) l)).
Proof.
  intros H.
  assert (G : mapM (fun kv : text * list Z => do t <- mk_nt fields (snd kv); Val (fst kv, t))
                   (map (fun a => (nm a, tup a)) l) = Val (map (fun a => (nm a, nt a)) l)).
  { induction l as [|a l IH]; [reflexivity|]. cbn [map mapM fst snd]. rewrite H. cbn [obind].
    now rewrite IH. }
  unfold front. destruct l as [|a l]; [reflexivity|].
  remember (map (fun a0 => (nm a0, tup a0)) (a :: l)) as raw eqn:Hr.
  destruct raw as [|r0 raw']; [discriminate|]. rewrite G. reflexivity.
Qed.

Lemma front_total {A} (fields : list bytes) (nm : A -> text) (tup : A -> list Z) (res : ntuple) l :
  l <> [] -> mk_nt fields (col_sums (map tup l)) = Val res ->
  front fields false (map (fun a => (nm a, tup a)) l) = Val (RTuple res).
Proof.
  intros Hne H. unfold front. destruct l as [|a l]; [congruence|].
  set (raw := map (fun a0 => (nm a0, tup a0)) (a :: l)).
  assert (E : map snd raw = map tup (a :: l)).
  { unfold raw. rewrite map_map. apply map_ext. reflexivity. }
  rewrite E, H. reflexivity.
Qed.

(* ------------------------------------------------ decoding around a name *)
Lemma dec_app_ascii_tail x t :
  t <> [] -> forallb is_ascii t = true -> dec (x ++ t) = dec x ++ t.
Proof.
  intros Hne H. destruct t as [|c y]; [congruence|]. cbn [forallb] in H.
  apply andb_true_iff in H as [Hc Hy]. rewrite dec_app_ascii by (unfold is_ascii in Hc; lia).
  now rewrite (dec_ascii _ Hy).
Qed.

Lemma contains_sp_items b items :
  (b =? 32) = false -> (forall t, In t (map snd items) -> contains b t = false) ->
  contains b (sp_items items) = false.
Proof.
  intros Hb. induction items as [|p r IH]; intros H; [reflexivity|].
  rewrite sp_items_cons, !contains_app. rewrite contains_repeat by exact Hb.
  rewrite (H (snd p)) by (now left). cbn [orb]. apply IH. intros t Ht. apply H. now right.
Qed.

Lemma sp_items_app a b : sp_items (a ++ b) = sp_items a ++ sp_items b.
Proof. unfold sp_items. now rewrite map_app, concat_app. Qed.

Lemma forallb_pad P w t : P 32 = true -> forallb P t = true -> forallb P (pad w t) = true.
Proof. intros H32 Ht. unfold pad. rewrite forallb_app, forallb_repeat by exact H32. now rewrite Ht. Qed.

(* ------------------------------------------------ sums *)
Lemma zsum_app a b : zsum (a ++ b) = zsum a + zsum b.
Proof. induction a as [|x a IH]; [reflexivity|]. cbn [app zsum fold_right] in *. fold (zsum (a ++ b)). fold (zsum a). lia. Qed.
