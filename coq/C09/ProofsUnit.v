(* C09 -- unit conversion: bytes = 512 x sectors, with no other input *)
From PV Require Import C09.Spec C09.Lib C09.ProofsDisk C09.ProofsSys.

(* The model's only view of sysfs is the oracle [sb] (presence of /sys/block/<name>); nothing else of
   /sys -- queue/hw_sector_size, logical_block_size, ... -- can reach a result.  Per device the
   answer does not even depend on [sb]: *)
Theorem disk_perdisk_ignores_sysfs sb1 sb2 l :
  wf_disks l = true ->
  disk_io_counters true sb1 (ProcDiskstats (k_diskstats l))
  = disk_io_counters true sb2 (ProcDiskstats (k_diskstats l)).
Proof. intros H. now rewrite (disk_model_exact sb1 l true H), (disk_model_exact sb2 l true H). Qed.

(* ... it is a function of the device's own line: name and the documented fields, the byte counts being
   512 x the line's sector counts *)
Theorem disk_entry_from_line_alone sb l d :
  wf_disks l = true -> In d l ->
  exists r, disk_io_counters true sb (ProcDiskstats (k_diskstats l)) = Val (RDict r)
            /\ In (dec (d_name d), nt_disk (model_view d)) r
            /\ match d_lay d with
               | LFull s _ => read_bytes (model_view d) = 512 * dec_val (rd_sectors s)
                              /\ write_bytes (model_view d) = 512 * dec_val (wr_sectors s)
               | LPart _ rsect _ wsect => read_bytes (model_view d) = 512 * dec_val rsect
                                          /\ write_bytes (model_view d) = 512 * dec_val wsect
               | L24 _ _ => True
               end.
Proof.
  intros H Hd. rewrite (disk_model_exact sb l true H). unfold disks_answer. eexists. split; [reflexivity|]. split.
  - apply in_map_iff. exists d. auto.
  - unfold model_view, spec_disk, of_iostat. destruct (d_lay d); cbn [read_bytes write_bytes]; try exact I; lia.
Qed.

(* the system-wide form depends on sysfs only through WHICH names are /sys/block entries *)
Theorem disk_total_listing_only sb1 sb2 l :
  wf_disks l = true -> (forall d, In d l -> listed sb1 d = listed sb2 d) ->
  disk_io_counters false sb1 (ProcDiskstats (k_diskstats l))
  = disk_io_counters false sb2 (ProcDiskstats (k_diskstats l)).
Proof.
  intros H E. rewrite (disk_model_exact sb1 l false H), (disk_model_exact sb2 l false H).
  unfold disks_answer. now rewrite (filter_ext_in' _ _ l E).
Qed.

(* the sysfs-only path: per device a function of that device's stat file alone *)
Theorem sys_perdisk_ignores_listing sb1 sb2 l :
  wf_syss l = true ->
  disk_io_counters true sb1 (SysBlock (map (fun e => (y_name e, k_sys_stat e)) l))
  = disk_io_counters true sb2 (SysBlock (map (fun e => (y_name e, k_sys_stat e)) l)).
Proof.
  intros H. now rewrite (sys_exact sb1 l true H (or_introl eq_refl)), (sys_exact sb2 l true H (or_introl eq_refl)).
Qed.
