(* C09 -- successive polls with the default nowrap=True: while no counter decreases against the
   cached snapshot, every poll reports that poll's kernel counters *)
From PV Require Import C09.Spec C09.TextLemmas C09.Lib C09.ProofsNet C09.ProofsDisk.

Definition prev_rows (st : wcache) : list (text * list Z) :=
  match wc_prev st with None => [] | Some o => o end.

Lemma dget_row_get k d : dget k d = row_get k d.
Proof. induction d as [|[k' v] d IH]; [reflexivity|]. cbn [dget row_get]. now rewrite IH. Qed.

Lemma wrap_tuple_steady key inp : forall i old,
  all2 Z.leb old inp = true -> wrap_tuple key i inp old [] = Val (inp, []).
Proof.
  induction inp as [|x inp IH]; intros i old H.
  - destruct old; [reflexivity|discriminate].
  - destruct old as [|o old]; [discriminate|]. cbn [all2] in H. apply andb_true_iff in H as [Hx Hr].
    cbn [wrap_tuple]. assert (x <? o = false) as -> by lia. rewrite (IH (S i) old Hr). cbn [obind fst snd rem_get].
    now rewrite Z.add_0_r.
Qed.

Lemma wrap_loop_steady old input :
  no_decrease old input = true -> wrap_loop old input [] = Val (input, []).
Proof.
  induction input as [|[key t] r IH]; intros H; [reflexivity|].
  unfold no_decrease in H. cbn [forallb fst snd] in H. apply andb_true_iff in H as [Hk Hr].
  cbn [wrap_loop]. rewrite dget_row_get. destruct (row_get key old) as [ot|].
  - rewrite (wrap_tuple_steady key t 0 ot Hk). cbn [obind fst snd]. rewrite (IH Hr). reflexivity.
  - rewrite (IH Hr). reflexivity.
Qed.

Lemma wrap_run_steady st input :
  wc_rem st = [] -> no_decrease (prev_rows st) input = true ->
  wrap_run st input = Val (input, {| wc_prev := Some input; wc_rem := [] |}).
Proof.
  intros Hrem H. unfold wrap_run, prev_rows in *. destruct (wc_prev st) as [old|]; [|reflexivity].
  rewrite Hrem. cbn [remove_dead filter]. rewrite (wrap_loop_steady old input H). reflexivity.
Qed.

Lemma front_wrap_steady fields per st raw :
  wc_rem st = [] -> no_decrease (prev_rows st) raw = true ->
  front_wrap fields per st raw
  = do f <- front fields per raw; Val (f, {| wc_prev := Some raw; wc_rem := [] |}).
Proof. intros Hrem H. unfold front_wrap. rewrite (wrap_run_steady st _ Hrem H). reflexivity. Qed.

(* ------------------------------------------------ /proc/net/dev *)
Lemma nic_kv_row i : nic_kv i = nic_row i.
Proof. reflexivity. Qed.

Lemma front_net per l : front snetio_fields per (map nic_row l) = Val (spec_net per l).
Proof.
  unfold nic_row, spec_net. destruct per.
  - apply (front_per snetio_fields (fun i => dec (n_name i)) (fun i => map snd (nt_nic (spec_nic i)))
                     (fun i => nt_nic (spec_nic i))).
    reflexivity.
  - destruct l as [|i l]; [reflexivity|].
    apply (front_total snetio_fields (fun i => dec (n_name i)) (fun i => map snd (nt_nic (spec_nic i)))); [discriminate|].
    change (fun i0 : knic => map snd (nt_nic (spec_nic i0))) with (fun i0 : knic => tup_nic (spec_nic i0)).
    rewrite <- (map_map spec_nic tup_nic). rewrite col_sums_nic by discriminate. reflexivity.
Qed.

Definition net_hist_rows (hist : list (bool * list knic)) : list (list (text * list Z)) :=
  map (fun pl => map nic_row (snd pl)) hist.

Lemma net_polls_steady sp hist : forall st,
  wc_rem st = [] ->
  forallb (fun pl => wf_nics (snd pl)) hist = true ->
  steady_consec (prev_rows st) (net_hist_rows hist) = true ->
  net_polls false st (map (fun pl => (fst pl, k_netdev sp (snd pl))) hist)
  = map (fun pl => XV (Val (spec_net (fst pl) (snd pl)))) hist.
Proof.
  induction hist as [|[per l] hist IH]; intros st Hrem Hwf Hst; [reflexivity|].
  cbn [forallb snd] in Hwf. apply andb_true_iff in Hwf as [Hl Hwf].
  cbn [net_hist_rows map snd steady_consec] in Hst. apply andb_true_iff in Hst as [Hnd Hst].
  cbn [map fst snd net_polls]. rewrite (net_raw_printed sp l Hl).
  assert (E : map nic_kv l = map nic_row l) by (apply map_ext; exact nic_kv_row). rewrite E.
  rewrite front_wrap_steady; [|exact Hrem|exact Hnd].
  rewrite front_net. cbn [obind]. f_equal. apply IH; [reflexivity|exact Hwf|exact Hst].
Qed.

Theorem net_polls_exact sp hist :
  forallb (fun pl => wf_nics (snd pl)) hist = true ->
  steady_consec [] (net_hist_rows hist) = true ->
  net_polls false wc_init (map (fun pl => (fst pl, k_netdev sp (snd pl))) hist)
  = map (fun pl => XV (Val (spec_net (fst pl) (snd pl)))) hist.
Proof. intros H1 H2. exact (net_polls_steady sp hist wc_init eq_refl H1 H2). Qed.

(* ------------------------------------------------ /proc/diskstats *)
Definition disk_poll_devs (per : bool) (sb : text -> bool) (l : list kdisk) : list kdisk :=
  if per then l else filter (listed sb) l.
Definition disk_hist_rows (hist : list (bool * (text -> bool) * list kdisk)) : list (list (text * list Z)) :=
  map (fun p => map disk_row (disk_poll_devs (fst (fst p)) (snd (fst p)) (snd p))) hist.

Lemma disk_raw_printed per sb l :
  wf_disks l = true -> no_l24 l = true ->
  disk_raw per sb (ProcDiskstats (k_diskstats l)) = Val (map disk_row (disk_poll_devs per sb l)).
Proof.
  unfold wf_disks. intros H H24. apply andb_true_iff in H as [Hwf Hnd].
  unfold disk_raw. rewrite (lines_diskstats l Hwf), (mapM_disk_lines l Hwf). cbn [obind]. f_equal.
  rewrite disk_fold.
  rewrite fold_dset_nodup; [|rewrite map_map; cbn [disk_kv fst]; apply NoDup_map_filter; now apply nodupb_NoDup
                            |intros k _ []].
  cbn [app].
  assert (E : filter (keep per sb) l = disk_poll_devs per sb l).
  { unfold disk_poll_devs. destruct per; [apply filter_true; reflexivity|apply filter_ext_in'; reflexivity]. }
  rewrite E. apply map_ext_in. intros d Hd.
  assert (In d l) as Hin by (unfold disk_poll_devs in Hd; destruct per; [exact Hd|now apply filter_In in Hd as [Hd _]]).
  unfold no_l24 in H24. rewrite forallb_forall in H24. specialize (H24 d Hin).
  unfold disk_kv, disk_row, model_view, is_l24 in *. destruct (d_lay d); [reflexivity|discriminate|reflexivity].
Qed.

Lemma front_disk per sb l :
  front sdiskio_fields per (map disk_row (disk_poll_devs per sb l)) = Val (spec_disks sb per l).
Proof.
  unfold spec_disks.
  exact (front_disk_answer spec_disk (listed sb) per l (disk_poll_devs per sb l) eq_refl).
Qed.

Lemma disk_polls_steady hist : forall st,
  wc_rem st = [] ->
  forallb (fun p => wf_disks (snd p) && no_l24 (snd p)) hist = true ->
  steady_consec (prev_rows st) (disk_hist_rows hist) = true ->
  disk_polls st (map (fun p => (fst (fst p), snd (fst p), ProcDiskstats (k_diskstats (snd p)))) hist)
  = map (fun p => Val (spec_disks (snd (fst p)) (fst (fst p)) (snd p))) hist.
Proof.
  induction hist as [|[[per sb] l] hist IH]; intros st Hrem Hwf Hst; [reflexivity|].
  cbn [forallb snd] in Hwf. apply andb_true_iff in Hwf as [Hl Hwf]. apply andb_true_iff in Hl as [Hl H24].
  cbn [disk_hist_rows map fst snd steady_consec] in Hst. apply andb_true_iff in Hst as [Hnd Hst].
  cbn [map fst snd disk_polls]. rewrite (disk_raw_printed per sb l Hl H24).
  rewrite front_wrap_steady; [|exact Hrem|exact Hnd].
  rewrite front_disk. cbn [obind]. f_equal. apply IH; [reflexivity|exact Hwf|exact Hst].
Qed.

Theorem disk_polls_exact hist :
  forallb (fun p => wf_disks (snd p) && no_l24 (snd p)) hist = true ->
  steady_consec [] (disk_hist_rows hist) = true ->
  disk_polls wc_init (map (fun p => (fst (fst p), snd (fst p), ProcDiskstats (k_diskstats (snd p)))) hist)
  = map (fun p => Val (spec_disks (snd (fst p)) (fst (fst p)) (snd p))) hist.
Proof. intros H1 H2. exact (disk_polls_steady hist wc_init eq_refl H1 H2). Qed.

Definition mk16 (n : string) (v : string) : knic :=
  Build_knic (bs n) (bs v) (bs v) (bs v) (bs v) (bs v) (bs v) (bs v) (bs v)
             (bs v) (bs v) (bs v) (bs v) (bs v) (bs v) (bs v) (bs v).

(* the hypothesis is satisfiable and the histories are not trivial: eth1 vanishes and comes back lower,
   a poll lists nothing at all and eth0 comes back lower after it, pernic alternates *)
Example net_polls_example :
  let hist := [(true, [mk16 "eth0" "100"; mk16 "eth1" "1000"]);
               (false, [mk16 "eth0" "120"]);
               (true, [mk16 "eth0" "120"; mk16 "eth1" "3"]);
               (true, []);
               (false, [mk16 "eth0" "5"; mk16 "eth1" "4"])] in
  forallb (fun pl => wf_nics (snd pl)) hist = true /\
  steady_consec [] (net_hist_rows hist) = true /\
  nth 4 (net_polls false wc_init (map (fun pl => (fst pl, k_netdev true (snd pl))) hist)) XAssert
  = XV (Val (RTuple (nt_nic (Build_nicstat 9 9 9 9 9 9 9 9)))).
Proof. vm_compute. auto. Qed.
