(* C09 -- the wrap bookkeeping of _WrapNumbers: offsets live only with listed names *)
From PV Require Import C09.Spec C09.Lib C09.ProofsNet C09.ProofsDisk C09.ProofsHist C09.Run.

(* every recorded offset belongs to a name of the dict [d] *)
Definition rem_keys_in (rem : list ((text * nat) * Z)) (d : list (text * list Z)) : Prop :=
  forall e, In e rem -> has_key (fst (fst e)) d = true.
(* the invariant of the cache: offsets only for names of the cached snapshot *)
Definition wrap_inv (st : wcache) : Prop := rem_keys_in (wc_rem st) (prev_rows st).

Lemma wrap_inv_init : wrap_inv wc_init.
Proof. intros e []. Qed.

Lemma has_key_in {V} k (v : V) d : In (k, v) d -> has_key k d = true.
Proof.
  unfold has_key. induction d as [|[k' v'] d IH]; intros H; [destruct H|].
  cbn [dget]. destruct (beqb k k') eqn:E; [reflexivity|].
  destruct H as [H|H]; [|now apply IH]. inversion H; subst. now rewrite beqb_refl in E.
Qed.

Lemma rem_get_absent rem d k i : rem_keys_in rem d -> has_key k d = false -> rem_get (k, i) rem = 0.
Proof.
  induction rem as [|[[k' i'] v] rem IH]; intros H Hk; [reflexivity|].
  cbn [rem_get]. unfold remkey_eqb. cbn [fst snd].
  destruct (beqb k k') eqn:E.
  - apply beqb_eq in E. subst k'. specialize (H _ (or_introl eq_refl)). cbn [fst] in H. congruence.
  - cbn [andb]. apply IH; [|exact Hk]. intros e He. apply H. now right.
Qed.

Lemma rem_add_keys rem k i v d :
  rem_keys_in rem d -> has_key k d = true -> rem_keys_in (rem_add (k, i) v rem) d.
Proof.
  intros H Hk. induction rem as [|[k' v'] rem IH]; cbn [rem_add].
  - intros e [<-|[]]. exact Hk.
  - destruct (remkey_eqb (k, i) k').
    + intros e [<-|He]; [exact (H _ (or_introl eq_refl))|apply H; now right].
    + intros e [<-|He]; [exact (H _ (or_introl eq_refl))|].
      apply IH; [|exact He]. intros e' He'. apply H. now right.
Qed.

Lemma wrap_tuple_keys key d : has_key key d = true ->
  forall inp i old rem out rem', rem_keys_in rem d ->
  wrap_tuple key i inp old rem = Val (out, rem') -> rem_keys_in rem' d.
Proof.
  intros Hk. induction inp as [|x inp IH]; intros i old rem out rem' H E.
  - cbn [wrap_tuple] in E. inversion E; subst. exact H.
  - cbn [wrap_tuple] in E. destruct old as [|o old]; [discriminate|].
    set (rem1 := if x <? o then rem_add (key, i) o rem else rem) in E.
    assert (H1 : rem_keys_in rem1 d) by (unfold rem1; destruct (x <? o); [now apply rem_add_keys|exact H]).
    destruct (wrap_tuple key (S i) inp old rem1) as [[o2 r2]| |] eqn:E2; cbn [obind] in E; try discriminate.
    inversion E; subst. cbn [snd]. exact (IH _ _ _ _ _ H1 E2).
Qed.

Lemma wrap_loop_keys old d : forall input rem out rem',
  rem_keys_in rem d -> (forall kv, In kv input -> has_key (fst kv) d = true) ->
  wrap_loop old input rem = Val (out, rem') -> rem_keys_in rem' d.
Proof.
  induction input as [|[key t] r IH]; intros rem out rem' H Hin E.
  - cbn [wrap_loop] in E. inversion E; subst. exact H.
  - cbn [wrap_loop] in E.
    assert (Hr : forall kv, In kv r -> has_key (fst kv) d = true) by (intros kv Hkv; apply Hin; now right).
    destruct (dget key old) as [ot|].
    + destruct (wrap_tuple key 0 t ot rem) as [[o1 r1]| |] eqn:E1; cbn [obind] in E; try discriminate.
      assert (H1 : rem_keys_in r1 d).
      { refine (wrap_tuple_keys key d _ t 0 ot rem o1 r1 H E1). exact (Hin (key, t) (or_introl eq_refl)). }
      cbn [snd] in E.
      destruct (wrap_loop old r r1) as [[o2 r2]| |] eqn:E2; cbn [obind] in E; try discriminate.
      inversion E; subst. exact (IH _ _ _ H1 Hr E2).
    + destruct (wrap_loop old r rem) as [[o2 r2]| |] eqn:E2; cbn [obind] in E; try discriminate.
      inversion E; subst. exact (IH _ _ _ H Hr E2).
Qed.

(* _remove_dead_reminders: whatever the sizes of the two dicts, what remains belongs to names of the new one *)
Lemma remove_dead_keys old input rem :
  rem_keys_in rem old -> rem_keys_in (remove_dead old input rem) input.
Proof.
  intros H e He. unfold remove_dead in He. apply filter_In in He as [Hin Hp].
  rewrite (H e Hin) in Hp. cbn [andb] in Hp. now rewrite negb_involutive in Hp.
Qed.

(* one call of _WrapNumbers.run: afterwards the cache holds this call's dict and every recorded offset
   belongs to a name of this call's dict -- a name that is absent now has no offset left, however
   many names came or went in the same call *)
Theorem wrap_run_drops st input out st' :
  wrap_inv st -> wrap_run st input = Val (out, st') ->
  wrap_inv st' /\ wc_prev st' = Some input /\
  forall k i, has_key k input = false -> rem_get (k, i) (wc_rem st') = 0.
Proof.
  intros Hinv E. unfold wrap_run in E. unfold wrap_inv, prev_rows in Hinv.
  assert (G : rem_keys_in (wc_rem st') input /\ wc_prev st' = Some input).
  { destruct (wc_prev st) as [old|].
    - destruct (wrap_loop old input (remove_dead old input (wc_rem st))) as [[o r]| |] eqn:E1;
        cbn [obind] in E; try discriminate.
      inversion E; subst. cbn [wc_rem wc_prev fst snd]. split; [|reflexivity].
      refine (wrap_loop_keys old input input _ _ _ (remove_dead_keys old input _ Hinv) _ E1).
      intros [k v] Hkv. exact (has_key_in k v input Hkv).
    - inversion E; subst. cbn [wc_rem wc_prev]. split; [intros e []|reflexivity]. }
  destruct G as [G1 G2]. split; [|split; [exact G2|]].
  - unfold wrap_inv, prev_rows. now rewrite G2.
  - intros k i Hk. exact (rem_get_absent _ input k i G1 Hk).
Qed.

(* a name that is not in the cached snapshot is reported raw, whatever offsets exist for other names *)
Lemma wrap_loop_new_key_raw old : forall input rem out rem' k t,
  wrap_loop old input rem = Val (out, rem') -> In (k, t) input -> NoDup (map fst input) ->
  dget k old = None -> In (k, t) out.
Proof.
  induction input as [|[key v] r IH]; intros rem out rem' k t E Hin Hnd Hk; [destruct Hin|].
  cbn [map fst] in Hnd. inversion Hnd as [|x xs Hnin Hnd']; subst.
  cbn [wrap_loop] in E. destruct Hin as [Hin|Hin].
  - inversion Hin; subst. rewrite Hk in E.
    destruct (wrap_loop old r rem) as [[o2 r2]| |]; cbn [obind] in E; try discriminate.
    inversion E; subst. now left.
  - destruct (dget key old) as [ot|].
    + destruct (wrap_tuple key 0 v ot rem) as [[o1 r1]| |]; cbn [obind] in E; try discriminate.
      cbn [snd fst] in E.
      destruct (wrap_loop old r r1) as [[o2 r2]| |] eqn:E2; cbn [obind] in E; try discriminate.
      inversion E; subst. right. exact (IH _ _ _ _ _ E2 Hin Hnd' Hk).
    + destruct (wrap_loop old r rem) as [[o2 r2]| |] eqn:E2; cbn [obind] in E; try discriminate.
      inversion E; subst. right. exact (IH _ _ _ _ _ E2 Hin Hnd' Hk).
Qed.

(* ================================================================================================
   Refinement: the bookkeeping computes exactly the ghost offsets of Spec.spec_wrap_hist
   ================================================================================================ *)
Lemma remkey_eqb_eq a b : remkey_eqb a b = true <-> a = b.
Proof.
  destruct a as [ka ia], b as [kb ib]. unfold remkey_eqb. cbn [fst snd]. split.
  - intros H. apply andb_true_iff in H as [H1 H2]. apply beqb_eq in H1. apply Nat.eqb_eq in H2. congruence.
  - intros H. inversion H; subst. now rewrite beqb_refl, Nat.eqb_refl.
Qed.
Lemma remkey_eqb_refl a : remkey_eqb a a = true.
Proof. now apply remkey_eqb_eq. Qed.
Lemma remkey_eqb_false a b : a <> b -> remkey_eqb a b = false.
Proof. intros H. destruct (remkey_eqb a b) eqn:E; [|reflexivity]. apply remkey_eqb_eq in E. congruence. Qed.

Lemma rem_get_add_same k v rem : rem_get k (rem_add k v rem) = rem_get k rem + v.
Proof.
  induction rem as [|[k' v'] rem IH]; cbn [rem_add rem_get].
  - now rewrite remkey_eqb_refl.
  - destruct (remkey_eqb k k') eqn:E; cbn [rem_get]; rewrite E; [reflexivity|exact IH].
Qed.
Lemma rem_get_add_other k k' v rem : k <> k' -> rem_get k (rem_add k' v rem) = rem_get k rem.
Proof.
  intros Hne. induction rem as [|[k2 v2] rem IH]; cbn [rem_add rem_get].
  - now rewrite (remkey_eqb_false _ _ Hne).
  - destruct (remkey_eqb k' k2) eqn:E; cbn [rem_get].
    + apply remkey_eqb_eq in E. subst k2. now rewrite (remkey_eqb_false _ _ Hne).
    + destruct (remkey_eqb k k2); [reflexivity|exact IH].
Qed.

(* the offsets the cache holds for fields i, i+1, ..., i+n-1 of a name *)
Fixpoint offs_from (rem : list ((text * nat) * Z)) (key : text) (i n : nat) : list Z :=
  match n with
  | O => []
  | S n' => rem_get (key, i) rem :: offs_from rem key (S i) n'
  end.

Lemma offs_from_ext rem rem' key : forall n i,
  (forall j, (i <= j)%nat -> rem_get (key, j) rem' = rem_get (key, j) rem) ->
  offs_from rem' key i n = offs_from rem key i n.
Proof.
  induction n as [|n IH]; intros i H; [reflexivity|]. cbn [offs_from]. rewrite (H i (le_n _)).
  f_equal. apply IH. intros j Hj. apply H. lia.
Qed.

Lemma wrap_tuple_spec key : forall v i p rem,
  (length v <= length p)%nat ->
  exists rem',
    wrap_tuple key i v p rem = Val (vadd v (restart (offs_from rem key i (length v)) p v), rem')
    /\ offs_from rem' key i (length v) = restart (offs_from rem key i (length v)) p v
    /\ (forall k' j, k' <> key \/ (j < i)%nat \/ (i + length v <= j)%nat ->
                     rem_get (k', j) rem' = rem_get (k', j) rem).
Proof.
  induction v as [|x v IH]; intros i p rem Hl.
  - exists rem. cbn [wrap_tuple length offs_from restart vadd]. split; [reflexivity|split; [reflexivity|intros; reflexivity]].
  - destruct p as [|pj p]; [cbn [length] in Hl; lia|]. cbn [length] in Hl.
    set (rem1 := if x <? pj then rem_add (key, i) pj rem else rem).
    assert (G1 : rem_get (key, i) rem1 = rem_get (key, i) rem + (if x <? pj then pj else 0)).
    { unfold rem1. destruct (x <? pj); [apply rem_get_add_same|lia]. }
    assert (G2 : forall k' j, (k', j) <> (key, i) -> rem_get (k', j) rem1 = rem_get (k', j) rem).
    { intros k' j Hne. unfold rem1. destruct (x <? pj); [now apply rem_get_add_other|reflexivity]. }
    destruct (IH (S i) p rem1 ltac:(lia)) as [rem' [E [O U]]].
    assert (F : offs_from rem1 key (S i) (length v) = offs_from rem key (S i) (length v)).
    { apply offs_from_ext. intros j Hj. apply G2. intros H. inversion H. lia. }
    exists rem'. split; [|split].
    + cbn [wrap_tuple]. fold rem1. rewrite E. cbn [obind fst snd length offs_from restart vadd hd tl].
      rewrite G1, F. reflexivity.
    + cbn [length offs_from restart hd tl]. rewrite O, F.
      rewrite (U key i (or_intror (or_introl (le_n _)))), G1. reflexivity.
    + intros k' j Hc. rewrite U.
      * apply G2. intros H. inversion H; subst. cbn [length] in Hc. destruct Hc as [Hc|[Hc|Hc]]; [congruence|lia|lia].
      * cbn [length] in Hc. destruct Hc as [Hc|[Hc|Hc]]; [now left|right; left; lia|right; right; lia].
Qed.

Definition upd (prev : rows) (rem : list ((text * nat) * Z)) (kv : text * list Z) : list Z :=
  match row_get (fst kv) prev with
  | None => snd kv
  | Some p => vadd (snd kv) (restart (offs_from rem (fst kv) 0 (length (snd kv))) p (snd kv))
  end.

Lemma offs_from_same rem rem' key n :
  (forall j, rem_get (key, j) rem' = rem_get (key, j) rem) -> offs_from rem' key 0 n = offs_from rem key 0 n.
Proof. intros H. apply offs_from_ext. intros j _. apply H. Qed.

Lemma wrap_loop_spec prev : forall cur rem,
  NoDup (map fst cur) ->
  (forall k v p, In (k, v) cur -> row_get k prev = Some p -> (length v <= length p)%nat) ->
  exists rem',
    wrap_loop prev cur rem = Val (map (fun kv => (fst kv, upd prev rem kv)) cur, rem')
    /\ (forall k v, In (k, v) cur ->
          offs_from rem' k 0 (length v)
          = match row_get k prev with
            | None => offs_from rem k 0 (length v)
            | Some p => restart (offs_from rem k 0 (length v)) p v
            end)
    /\ (forall k j, ~ In k (map fst cur) -> rem_get (k, j) rem' = rem_get (k, j) rem).
Proof.
  induction cur as [|[key t] r IH]; intros rem Hnd Hw.
  - exists rem. cbn [wrap_loop map]. split; [reflexivity|split; [intros k v []|reflexivity]].
  - cbn [map fst] in Hnd. inversion Hnd as [|x xs Hnin Hnd']; subst.
    assert (Hw' : forall k v p, In (k, v) r -> row_get k prev = Some p -> (length v <= length p)%nat)
      by (intros k v p Hin; apply Hw; now right).
    cbn [wrap_loop]. rewrite dget_row_get. destruct (row_get key prev) as [ot|] eqn:Eo.
    + destruct (wrap_tuple_spec key t 0 ot rem (Hw key t ot (or_introl eq_refl) Eo)) as [rem1 [E1 [O1 U1]]].
      destruct (IH rem1 Hnd' Hw') as [rem' [E2 [O2 U2]]].
      assert (X : forall k, In k (map fst r) -> forall n, offs_from rem1 k 0 n = offs_from rem k 0 n).
      { intros k Hk n. apply offs_from_same. intros j. apply U1. left. intros ->. exact (Hnin Hk). }
      exists rem'. split; [|split].
      * rewrite E1. cbn [obind fst snd]. rewrite E2. cbn [obind fst snd map].
        assert (Hh : upd prev rem (key, t) = vadd t (restart (offs_from rem key 0 (length t)) ot t))
          by (unfold upd; cbn [fst snd]; now rewrite Eo).
        assert (Ht : map (fun kv => (fst kv, upd prev rem1 kv)) r = map (fun kv => (fst kv, upd prev rem kv)) r).
        { apply map_ext_in. intros [k v] Hkv. cbn [fst]. f_equal. unfold upd. cbn [fst snd].
          destruct (row_get k prev); [|reflexivity].
          rewrite X; [reflexivity|]. apply in_map_iff. exists (k, v). auto. }
        rewrite Hh, Ht. reflexivity.
      * intros k v [Hkv|Hkv].
        -- inversion Hkv; subst. rewrite Eo.
           rewrite (offs_from_same rem1 rem' k (length v)) by (intros j; now apply U2). exact O1.
        -- rewrite (O2 k v Hkv). assert (In k (map fst r)) as Hk by (apply in_map_iff; exists (k, v); auto).
           now rewrite !X.
      * intros k j Hk. rewrite U2 by (intros H; apply Hk; now right).
        apply U1. left. intros ->. apply Hk. now left.
    + destruct (IH rem Hnd' Hw') as [rem' [E2 [O2 U2]]].
      exists rem'. split; [|split].
      * rewrite E2. cbn [obind fst snd map].
        assert (Hh : upd prev rem (key, t) = t) by (unfold upd; cbn [fst snd]; now rewrite Eo).
        rewrite Hh. reflexivity.
      * intros k v [Hkv|Hkv].
        -- inversion Hkv; subst. rewrite Eo. apply offs_from_same. intros j. now apply U2.
        -- exact (O2 k v Hkv).
      * intros k j Hk. apply U2. intros H. apply Hk. now right.
Qed.

(* _remove_dead_reminders, pointwise *)
Lemma rem_get_filter (q : text -> bool) rem k j :
  rem_get (k, j) (filter (fun e => q (fst (fst e))) rem) = if q k then rem_get (k, j) rem else 0.
Proof.
  induction rem as [|[[k' j'] v] rem IH]; [now destruct (q k)|].
  cbn [filter fst]. destruct (remkey_eqb (k, j) (k', j')) eqn:E.
  - apply remkey_eqb_eq in E. inversion E; subst k' j'.
    destruct (q k) eqn:Q.
    + cbn [rem_get]. now rewrite remkey_eqb_refl.
    + exact IH.
  - destruct (q k') eqn:Q'.
    + cbn [rem_get]. rewrite E. exact IH.
    + rewrite IH. destruct (q k); [|reflexivity]. cbn [rem_get]. now rewrite E.
Qed.

Lemma row_get_in k d v : row_get k d = Some v -> In (k, v) d.
Proof.
  induction d as [|[k' v'] d IH]; [discriminate|]. cbn [row_get].
  destruct (beqb k k') eqn:E.
  - intros H. inversion H; subst. apply beqb_eq in E. subst. now left.
  - intros H. right. now apply IH.
Qed.
Lemma row_get_has k d : has_key k d = match row_get k d with Some _ => true | None => false end.
Proof. unfold has_key. now rewrite dget_row_get. Qed.

Lemma row_get_nodup k v d : NoDup (map fst d) -> In (k, v) d -> row_get k d = Some v.
Proof.
  induction d as [|[k' v'] d IH]; intros Hnd Hin; [destruct Hin|].
  cbn [map fst] in Hnd. inversion Hnd as [|x xs Hnin Hnd']; subst. cbn [row_get].
  destruct Hin as [Hin|Hin].
  - inversion Hin; subst. now rewrite beqb_refl.
  - destruct (beqb k k') eqn:E.
    + apply beqb_eq in E. subst. exfalso. apply Hnin. apply in_map_iff. exists (k', v). auto.
    + now apply IH.
Qed.

Lemma row_get_map (g : text -> list Z -> list Z) k d :
  row_get k (map (fun kv => (fst kv, g (fst kv) (snd kv))) d) = option_map (g k) (row_get k d).
Proof.
  induction d as [|[k' v'] d IH]; [reflexivity|]. cbn [map row_get fst snd].
  destruct (beqb k k') eqn:E; [|exact IH]. apply beqb_eq in E. now subst.
Qed.

Lemma vadd_zeros v : vadd v (map (fun _ => 0) v) = v.
Proof. induction v as [|x v IH]; [reflexivity|]. cbn [map vadd hd tl]. now rewrite IH, Z.add_0_r. Qed.
Lemma vadd_length v o : length (vadd v o) = length v.
Proof. revert o. induction v as [|x v IH]; intros o; [reflexivity|]. cbn [vadd length]. now rewrite IH. Qed.

Lemma offs_zero rem k : (forall j, rem_get (k, j) rem = 0) -> forall n i, offs_from rem k i n = repeat 0 n.
Proof. intros H. induction n as [|n IH]; intros i; [reflexivity|]. cbn [offs_from repeat]. now rewrite H, IH. Qed.
Lemma map_zero_repeat (v : list Z) : map (fun _ => 0) v = repeat 0 (length v).
Proof. induction v as [|x v IH]; [reflexivity|]. cbn [map length repeat]. now rewrite IH. Qed.

Definition uniform (w : nat) (rs : rows) : Prop := forall k v, In (k, v) rs -> length v = w.

(* the cache after some polls, against the ghost state *)
Definition Rel (w : nat) (st : wcache) (prev off : rows) : Prop :=
  wc_prev st = Some prev /\ rem_keys_in (wc_rem st) prev /\
  (forall k p, row_get k prev = Some p -> offs_from (wc_rem st) k 0 w = off_of k off).
Definition Inv (w : nat) (st : wcache) (prev off : rows) : Prop :=
  (wc_prev st = None /\ wc_rem st = [] /\ prev = [] /\ off = []) \/ Rel w st prev off.

Lemma next_off_of prev off cur k v :
  NoDup (map fst cur) -> In (k, v) cur ->
  off_of k (next_offsets prev off cur)
  = match row_get k prev with
    | None => map (fun _ => 0) v
    | Some p => restart (off_of k off) p v
    end.
Proof.
  intros Hnd Hin. unfold off_of at 1, next_offsets.
  rewrite (row_get_map (fun k v => match row_get k prev with
                                   | None => map (fun _ => 0) v
                                   | Some p => restart (off_of k off) p v end) k cur).
  now rewrite (row_get_nodup k v cur Hnd Hin).
Qed.

Theorem wrap_run_refines w st prev off cur :
  Inv w st prev off -> uniform w prev -> uniform w cur -> NoDup (map fst cur) ->
  exists st',
    wrap_run st cur = Val (reported cur (next_offsets prev off cur), st')
    /\ Rel w st' cur (next_offsets prev off cur).
Proof.
  intros HI Up Uc Hnd. set (off' := next_offsets prev off cur).
  destruct HI as [(Hp & Hr & -> & ->)|(Hp & Hk & Ho)].
  - (* first call after cache_clear *)
    exists {| wc_prev := Some cur; wc_rem := [] |}. unfold wrap_run. rewrite Hp. split.
    + do 2 f_equal. unfold reported. rewrite <- (map_id cur) at 1. apply map_ext_in. intros [k v] Hkv.
      cbn [fst snd]. unfold off'. rewrite (next_off_of [] [] cur k v Hnd Hkv). cbn [row_get].
      now rewrite vadd_zeros.
    + split; [reflexivity|split; [intros e []|]]. cbn [wc_rem]. intros k p Hkp.
      apply row_get_in in Hkp. unfold off'. rewrite (next_off_of [] [] cur k p Hnd Hkp). cbn [row_get].
      rewrite (offs_zero [] k (fun _ => eq_refl)), map_zero_repeat. now rewrite (Uc k p Hkp).
  - unfold wrap_run. rewrite Hp.
    set (rem := wc_rem st) in *. set (rem1 := remove_dead prev cur rem).
    assert (R2 : forall k j, has_key k cur = true -> rem_get (k, j) rem1 = rem_get (k, j) rem).
    { intros k j Hc. unfold rem1, remove_dead.
      rewrite (rem_get_filter (fun k => negb (has_key k prev && negb (has_key k cur))) rem k j).
      rewrite Hc. cbn [negb]. now rewrite andb_false_r. }
    assert (R3 : forall k j, has_key k prev = false -> rem_get (k, j) rem1 = 0).
    { intros k j Hn. unfold rem1, remove_dead.
      rewrite (rem_get_filter (fun k => negb (has_key k prev && negb (has_key k cur))) rem k j).
      rewrite Hn. cbn [andb negb]. exact (rem_get_absent rem prev k j Hk Hn). }
    destruct (wrap_loop_spec prev cur rem1 Hnd) as [rem' [E [O U]]].
    { intros k v p Hin Hg. rewrite (Uc k v Hin). apply row_get_in in Hg. rewrite (Up k p Hg). apply le_n. }
    exists {| wc_prev := Some cur; wc_rem := rem' |}. split.
    + rewrite E. cbn [obind fst snd]. do 2 f_equal. unfold reported. apply map_ext_in. intros [k v] Hkv.
      cbn [fst snd]. f_equal. unfold upd. cbn [fst snd]. unfold off'. rewrite (next_off_of prev off cur k v Hnd Hkv).
      destruct (row_get k prev) as [p|] eqn:Eg; [|now rewrite vadd_zeros].
      rewrite (Uc k v Hkv). rewrite <- (Ho k p Eg).
      rewrite (offs_from_same rem rem1 k w); [reflexivity|]. intros j. apply R2. exact (has_key_in k v cur Hkv).
    + split; [reflexivity|split].
      * cbn [wc_rem]. refine (wrap_loop_keys prev cur cur rem1 _ rem' (remove_dead_keys prev cur rem Hk) _ E).
        intros [k v] Hkv. exact (has_key_in k v cur Hkv).
      * cbn [wc_rem]. intros k v Hg. apply row_get_in in Hg. pose proof (O k v Hg) as Ok.
        rewrite (Uc k v Hg) in Ok. rewrite Ok. unfold off'. rewrite (next_off_of prev off cur k v Hnd Hg).
        destruct (row_get k prev) as [p|] eqn:Eg.
        -- rewrite <- (Ho k p Eg). rewrite (offs_from_same rem rem1 k w); [reflexivity|].
           intros j. apply R2. exact (has_key_in k v cur Hg).
        -- rewrite (offs_zero rem1 k), map_zero_repeat; [now rewrite (Uc k v Hg)|].
           intros j. apply R3. rewrite row_get_has. now rewrite Eg.
Qed.

(* ------------------------------------------------ the front end over reported rows *)
Lemma zip_add_vadd a : forall b, length a = length b -> zip_add a b = vadd a b.
Proof.
  induction a as [|x a IH]; intros b H; destruct b as [|y b]; try discriminate; [reflexivity|].
  cbn [zip_add vadd hd tl]. rewrite IH by (cbn [length] in H; lia). reflexivity.
Qed.

Lemma col_sums_vsum w rs :
  (forall r, In r rs -> length r = w) -> col_sums rs = vsum rs /\ (rs <> [] -> length (vsum rs) = w).
Proof.
  induction rs as [|r rs IH]; intros H; [split; [reflexivity|congruence]|].
  assert (Hr : length r = w) by (apply H; now left).
  destruct (IH (fun x Hx => H x (or_intror Hx))) as [E L].
  destruct rs as [|r2 rs'].
  - split; [reflexivity|intros _; exact Hr].
  - change (col_sums (r :: r2 :: rs')) with (zip_add r (col_sums (r2 :: rs'))).
    change (vsum (r :: r2 :: rs')) with (vadd r (vsum (r2 :: rs'))).
    rewrite E. rewrite zip_add_vadd by (rewrite L by discriminate; exact Hr).
    split; [reflexivity|intros _; now rewrite vadd_length].
Qed.

Lemma front_rows fields per rs :
  uniform (length fields) rs -> front fields per rs = Val (answer_of_rows fields per rs).
Proof.
  intros U. destruct rs as [|r0 rs']; [reflexivity|]. remember (r0 :: rs') as rs eqn:Hrs.
  assert (Hne : rs <> []) by (subst; discriminate).
  unfold front, answer_of_rows. destruct rs as [|r1 rs'']; [congruence|]. clear Hrs. destruct per.
  - assert (G : forall l, (forall k v, In (k, v) l -> length v = length fields) ->
                mapM (fun kv : text * list Z => do t <- mk_nt fields (snd kv); Val (fst kv, t)) l
                = Val (map (fun kv => (fst kv, combine fields (snd kv))) l)).
    { induction l as [|[k v] l IH]; intros Hl; [reflexivity|]. cbn [mapM map fst snd]. unfold mk_nt at 1.
      rewrite (Hl k v (or_introl eq_refl)), Nat.eqb_refl. cbn [obind].
      rewrite IH by (intros k' v' H'; apply (Hl k' v'); now right). reflexivity. }
    rewrite (G _ U). reflexivity.
  - destruct (col_sums_vsum (length fields) (map snd (r1 :: rs''))) as [E L].
    { intros r Hr. apply in_map_iff in Hr as [[k v] [<- Hin]]. exact (U k v Hin). }
    rewrite E. unfold mk_nt. rewrite L by discriminate. now rewrite Nat.eqb_refl.
Qed.

Lemma reported_uniform w cur off : uniform w cur -> uniform w (reported cur off).
Proof.
  intros U k v Hin. unfold reported in Hin. apply in_map_iff in Hin as [[k' v'] [E Hin]].
  inversion E; subst. rewrite vadd_length. eapply U; eassumption.
Qed.

Lemma front_wrap_refines fields per st prev off cur :
  Inv (length fields) st prev off -> uniform (length fields) prev -> uniform (length fields) cur ->
  NoDup (map fst cur) ->
  exists st',
    front_wrap fields per st cur
    = Val (answer_of_rows fields per (reported cur (next_offsets prev off cur)), st')
    /\ Inv (length fields) st' cur (next_offsets prev off cur).
Proof.
  intros HI Up Uc Hnd. destruct (wrap_run_refines _ st prev off cur HI Up Uc Hnd) as [st' [E R]].
  exists st'. split; [|now right]. unfold front_wrap. rewrite E. cbn [obind fst snd].
  rewrite front_rows by (now apply reported_uniform). reflexivity.
Qed.

(* ------------------------------------------------ every history, restarts included *)
Lemma nic_rows_ok l :
  wf_nics l = true -> uniform 8 (map nic_row l) /\ NoDup (map fst (map nic_row l)).
Proof.
  unfold wf_nics. intros H. apply andb_true_iff in H as [_ Hnd]. split.
  - intros k v Hin. apply in_map_iff in Hin as [i [E _]]. inversion E; subst. reflexivity.
  - rewrite map_map. cbn [nic_row fst]. now apply nodupb_NoDup.
Qed.

Lemma net_polls_refine sp hist : forall st prev off,
  Inv 8 st prev off -> uniform 8 prev ->
  forallb (fun pl => wf_nics (snd pl)) hist = true ->
  net_polls false st (map (fun pl => (fst pl, k_netdev sp (snd pl))) hist)
  = map (fun pr => XV (Val (answer_of_rows nic_names (fst (fst pr)) (snd pr))))
        (combine hist (spec_wrap_hist prev off (net_hist_rows hist))).
Proof.
  induction hist as [|[per l] hist IH]; intros st prev off HI Up Hwf; [reflexivity|].
  cbn [forallb snd] in Hwf. apply andb_true_iff in Hwf as [Hl Hwf].
  destruct (nic_rows_ok l Hl) as [Uc Hnd].
  cbn [map fst snd net_polls net_hist_rows spec_wrap_hist combine]. rewrite (net_raw_printed sp l Hl).
  assert (E : map nic_kv l = map nic_row l) by (apply map_ext; exact nic_kv_row). rewrite E.
  destruct (front_wrap_refines snetio_fields per st prev off (map nic_row l) HI Up Uc Hnd) as [st' [F I']].
  rewrite F. f_equal. exact (IH st' _ _ I' Uc Hwf).
Qed.

Theorem net_polls_wrap_exact sp hist :
  forallb (fun pl => wf_nics (snd pl)) hist = true ->
  net_polls false wc_init (map (fun pl => (fst pl, k_netdev sp (snd pl))) hist)
  = map (fun pr => XV (Val (answer_of_rows nic_names (fst (fst pr)) (snd pr))))
        (combine hist (spec_wrap_hist [] [] (net_hist_rows hist))).
Proof.
  intros H. apply net_polls_refine; [left; auto|intros k v []|exact H].
Qed.

Lemma disk_rows_ok per sb l :
  wf_disks l = true ->
  uniform 9 (map disk_row (disk_poll_devs per sb l)) /\ NoDup (map fst (map disk_row (disk_poll_devs per sb l))).
Proof.
  unfold wf_disks. intros H. apply andb_true_iff in H as [_ Hnd]. split.
  - intros k v Hin. apply in_map_iff in Hin as [i [E _]]. inversion E; subst. reflexivity.
  - rewrite map_map. cbn [disk_row fst]. unfold disk_poll_devs. destruct per; [now apply nodupb_NoDup|].
    apply NoDup_map_filter. now apply nodupb_NoDup.
Qed.

Lemma disk_polls_refine hist : forall st prev off,
  Inv 9 st prev off -> uniform 9 prev ->
  forallb (fun p => wf_disks (snd p) && no_l24 (snd p)) hist = true ->
  disk_polls st (map (fun p => (fst (fst p), snd (fst p), ProcDiskstats (k_diskstats (snd p)))) hist)
  = map (fun pr => Val (answer_of_rows disk_names (fst (fst (fst pr))) (snd pr)))
        (combine hist (spec_wrap_hist prev off (disk_hist_rows hist))).
Proof.
  induction hist as [|[[per sb] l] hist IH]; intros st prev off HI Up Hwf; [reflexivity|].
  cbn [forallb snd] in Hwf. apply andb_true_iff in Hwf as [Hl Hwf]. apply andb_true_iff in Hl as [Hl H24].
  destruct (disk_rows_ok per sb l Hl) as [Uc Hnd].
  cbn [map fst snd disk_polls disk_hist_rows spec_wrap_hist combine]. rewrite (disk_raw_printed per sb l Hl H24).
  destruct (front_wrap_refines sdiskio_fields per st prev off _ HI Up Uc Hnd) as [st' [F I']].
  rewrite F. f_equal. exact (IH st' _ _ I' Uc Hwf).
Qed.

Theorem disk_polls_wrap_exact hist :
  forallb (fun p => wf_disks (snd p) && no_l24 (snd p)) hist = true ->
  disk_polls wc_init (map (fun p => (fst (fst p), snd (fst p), ProcDiskstats (k_diskstats (snd p)))) hist)
  = map (fun pr => Val (answer_of_rows disk_names (fst (fst (fst pr))) (snd pr)))
        (combine hist (spec_wrap_hist [] [] (disk_hist_rows hist))).
Proof.
  intros H. apply disk_polls_refine; [left; auto|intros k v []|exact H].
Qed.

(* the churn scenario: X at 1000.., restarts at 100.. (offset 1000.. recorded), is replaced by Z in a
   poll that lists as many names as before, returns at 7.. and grows to 8..: raw on both later polls *)
Example churn_example :
  let nic (n : string) (v : Z) := mk_nic (bs n) (map (fun j => v + j) idx16) in
  let hist := [(true, [nic "eth0"%string 1000; nic "lo"%string 10]);
               (true, [nic "eth0"%string 100; nic "lo"%string 20]);
               (true, [nic "wan0"%string 5000; nic "lo"%string 30]);
               (true, [nic "eth0"%string 7; nic "lo"%string 40]);
               (true, [nic "eth0"%string 8; nic "lo"%string 50])] in
  forallb (fun pl => wf_nics (snd pl)) hist = true /\
  map (fun rs => row_get (bs "eth0") rs) (spec_wrap_hist [] [] (net_hist_rows hist))
  = [Some (map snd (nt_nic (Build_nicstat 1008 1000 1009 1001 1002 1010 1003 1011)));
     Some (map snd (nt_nic (Build_nicstat (108 + 1008) (100 + 1000) (109 + 1009) (101 + 1001) (102 + 1002) (110 + 1010) (103 + 1003) (111 + 1011))));
     None;
     Some (map snd (nt_nic (Build_nicstat 15 7 16 8 9 17 10 18)));
     Some (map snd (nt_nic (Build_nicstat 16 8 17 9 10 18 11 19)))].
Proof. vm_compute. auto. Qed.
