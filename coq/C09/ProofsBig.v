(* C09 -- tables of any size: one entry per line, whatever the number of lines *)
From PV Require Import C09.Spec C09.TextLemmas C09.Lib C09.ProofsNet C09.ProofsDisk C09.Run.

(* the file has exactly one line per device, and the per-disk answer exactly one entry per line,
   in file order, keyed by that line's device -- for every number of lines *)
Theorem disk_one_entry_per_line sb l :
  wf_disks l = true ->
  length (lines_keep (text_of (k_diskstats l))) = length l /\
  exists d, disk_io_counters true sb (ProcDiskstats (k_diskstats l)) = Val (RDict d)
            /\ map fst d = map (fun x => dec (d_name x)) l /\ length d = length l.
Proof.
  intros H. split.
  - unfold wf_disks in H. apply andb_true_iff in H as [Hwf _].
    rewrite (lines_diskstats l Hwf). apply map_length.
  - rewrite (disk_model_exact sb l true H). unfold disks_answer. eexists. split; [reflexivity|].
    rewrite map_map, map_length. split; reflexivity.
Qed.

Theorem net_one_entry_per_line sp l :
  wf_nics l = true ->
  length (lines_keep (text_of (k_netdev sp l))) = (2 + length l)%nat /\
  exists d, net_io_counters false true (k_netdev sp l) = XV (Val (RDict d))
            /\ map fst d = map (fun i => dec (n_name i)) l /\ length d = length l.
Proof.
  intros H. split.
  - unfold wf_nics in H. apply andb_true_iff in H as [Hwf _].
    rewrite (lines_netdev sp l Hwf). cbn [length]. now rewrite map_length.
  - rewrite (net_exact sp l true H). unfold spec_net. eexists. split; [reflexivity|].
    rewrite map_map, map_length. split; reflexivity.
Qed.

(* the generated large tables of the harness are inside the theorems' domain: 700 devices, a
   /proc/diskstats of more than 64 KiB (the length is counted with a tail-recursive fold) *)
Example big_table_example :
  let l := big_disks 700 false [] in
  wf_disks l = true /\ no_l24 l = true /\ length l = 700%nat /\
  65536 < fold_left (fun a _ => a + 1) (k_diskstats l) 0.
Proof. vm_compute. auto. Qed.

Example big_table_answer :
  let l := big_disks 700 false [] in
  forall sb, exists d, disk_io_counters true sb (ProcDiskstats (k_diskstats l)) = Val (RDict d)
                       /\ length d = 700%nat.
Proof.
  cbv zeta. intros sb. destruct big_table_example as (Hwf & _ & Hlen & _).
  destruct (disk_one_entry_per_line sb _ Hwf) as [_ [d [E [_ L]]]]. exists d. split; [exact E|].
  now rewrite L.
Qed.
