(* C09 -- disk_usage arithmetic *)
From PV Require Import C09.Spec.

Theorem disk_usage_spec st : disk_usage st = spec_usage st.
Proof. reflexivity. Qed.

(* written out: the unit is f_frsize, whatever f_bsize is *)
Theorem disk_usage_unit bsize frsize blocks bfree bavail :
  disk_usage {| f_bsize := bsize; f_frsize := frsize; f_blocks := blocks; f_bfree := bfree; f_bavail := bavail |}
  = {| u_total := blocks * frsize;
       u_used := blocks * frsize - bfree * frsize;
       u_free := bavail * frsize;
       u_percent := if (blocks * frsize - bfree * frsize) + bavail * frsize =? 0 then None
                    else Some ((blocks * frsize - bfree * frsize) * 100,
                               (blocks * frsize - bfree * frsize) + bavail * frsize) |}.
Proof. reflexivity. Qed.

Theorem disk_usage_bsize_irrelevant st bsize :
  disk_usage {| f_bsize := bsize; f_frsize := f_frsize st; f_blocks := f_blocks st;
                f_bfree := f_bfree st; f_bavail := f_bavail st |} = disk_usage st.
Proof. reflexivity. Qed.

(* kernel-shaped statvfs: nothing is negative, used + free never exceeds total,
   and the percentage lies in 0..100 *)
Theorem disk_usage_bounds st :
  wf_statvfs st ->
  let u := disk_usage st in
  0 <= u_used u /\ 0 <= u_free u /\ u_used u + u_free u <= u_total u /\
  match u_percent u with
  | None => u_used u = 0 /\ u_free u = 0
  | Some (n, d) => 0 < d /\ 0 <= n <= 100 * d
  end.
Proof.
  unfold wf_statvfs. intros (Hf & (Ha0 & Hab) & Hbb). cbn zeta.
  unfold disk_usage, usage_percent. cbn [u_used u_free u_total u_percent].
  set (fr := f_frsize st) in *. set (bl := f_blocks st) in *.
  set (bf := f_bfree st) in *. set (ba := f_bavail st) in *.
  assert (H1 : 0 <= ba * fr) by nia.
  assert (H2 : ba * fr <= bf * fr) by nia.
  assert (H3 : bf * fr <= bl * fr) by nia.
  repeat split; try lia.
  destruct (Z.eqb_spec (bl * fr - bf * fr + ba * fr) 0) as [E|E]; lia.
Qed.

Example disk_usage_example :
  let st := {| f_bsize := 1048576; f_frsize := 4096; f_blocks := 1000; f_bfree := 200; f_bavail := 100 |} in
  wf_statvfs st /\
  disk_usage st = {| u_total := 4096000; u_used := 3276800; u_free := 409600;
                     u_percent := Some (327680000, 3686400) |}.
Proof. cbv zeta. split; [unfold wf_statvfs; cbn; lia | reflexivity]. Qed.
