(* C09 -- what the kernel holds and prints (/proc/net/dev, /proc/diskstats, /sys/block,
   statvfs) and what the property says the psutil calls must answer.  Written from the
   kernel sources / Documentation/admin-guide/iostats.rst and the psutil documentation,
   not from psutil's code.  Numbers are kept as the digit strings the kernel printed. *)
From PV Require Export C09.Model.

(* ------------------------------------------------ printf helpers *)
(* "%<w>s" / "%<w>u": right-justified, never truncated *)
Definition pad (w : nat) (s : bytes) : bytes := repeat 32 (w - length s)%nat ++ s.
(* one or more blanks before every further column *)
Definition sp_item (p : nat * bytes) : bytes := repeat 32 (S (fst p)) ++ snd p.
Definition sp_items (items : list (nat * bytes)) : bytes := concat (map sp_item items).
(* " %<w>u" for each column *)
Definition cols (l : list (nat * bytes)) : list (nat * bytes) :=
  map (fun p => ((fst p - length (snd p))%nat, snd p)) l.

(* Names are the bytes the kernel holds; what a Python caller sees is their str (Text.dec).
   An interface name is any bytes (':' '/' '!' digits, non-ASCII, control characters ...) that can be
   told from the "%6s:" padding -- it does not begin or end with a space -- and holds no line break.
   Every name dev_valid_name() accepts is of this kind (lemma dev_valid_net_ok).
   A block-device name is one whitespace-separated token: no str blank anywhere. *)
Definition net_name_ok (n : bytes) : bool :=
  sends_ok (dec n) && negb (contains 10 (dec n)) && negb (contains 13 (dec n)).
Definition disk_name_ok (n : bytes) : bool := utok_ok (dec n).
(* dev_valid_name() of net/core/dev.c: 1..15 bytes, not "." / "..", no '/', ':' or kernel isspace()
   (\t \n \v \f \r ' ' and 0xA0) *)
Definition kernel_isspace (b : Z) : bool := ((9 <=? b) && (b <=? 13)) || (b =? 32) || (b =? 160).
Definition dev_valid_name (n : bytes) : bool :=
  match n with [] => false | _ => true end && (Nat.ltb (length n) 16)
  && negb (beqb n [46]) && negb (beqb n [46; 46])
  && forallb (fun b => (1 <=? b) && (b <=? 255) && negb (b =? 47) && negb (b =? 58) && negb (kernel_isspace b)) n.

Fixpoint nodupb (l : list (list Z)) : bool :=
  match l with
  | [] => true
  | x :: r => negb (existsb (beqb x) r) && nodupb r
  end.

(* ------------------------------------------------ /proc/net/dev *)
Record knic := {
  n_name : bytes;
  rx_bytes : bytes; rx_packets : bytes; rx_errs : bytes; rx_drop : bytes; rx_fifo : bytes; rx_frame : bytes;
  rx_compressed : bytes; rx_multicast : bytes;
  tx_bytes : bytes; tx_packets : bytes; tx_errs : bytes; tx_drop : bytes; tx_fifo : bytes; tx_colls : bytes;
  tx_carrier : bytes; tx_compressed : bytes }.

Definition nic_counters (i : knic) : list bytes :=
  [rx_bytes i; rx_packets i; rx_errs i; rx_drop i; rx_fifo i; rx_frame i; rx_compressed i; rx_multicast i;
   tx_bytes i; tx_packets i; tx_errs i; tx_drop i; tx_fifo i; tx_colls i; tx_carrier i; tx_compressed i].

Definition wf_nic (i : knic) : bool := net_name_ok (n_name i) && forallb is_dec (nic_counters i).
Definition wf_nics (l : list knic) : bool := forallb wf_nic l && nodupb (map (fun i => dec (n_name i)) l).

Definition netdev_hdr1 : bytes :=
  bs "Inter-|   Receive                                                |  Transmit".
Definition netdev_hdr2 : bytes :=
  bs " face |bytes    packets errs drop fifo frame compressed multicast|bytes    packets errs drop fifo colls carrier compressed".

(* net/core/net-procfs.c:
   "%6s: %7llu %7llu %4llu %4llu %4llu %5llu %10llu %9llu %8llu %7llu %4llu %4llu %4llu %5llu %7llu %10llu\n"
   [sp] = false gives the format of old kernels, "%6s:%8lu %7lu ...", where a long first counter
   touches the colon ("eth0:12345678"). *)
Definition k_netdev_line (sp : bool) (i : knic) : bytes :=
  pad 6 (n_name i) ++ 58 ::
  (if sp then 32 :: pad 7 (rx_bytes i) else pad 8 (rx_bytes i)) ++
  sp_items (cols [(7, rx_packets i); (4, rx_errs i); (4, rx_drop i); (4, rx_fifo i); (5, rx_frame i);
                  (10, rx_compressed i); (9, rx_multicast i);
                  (8, tx_bytes i); (7, tx_packets i); (4, tx_errs i); (4, tx_drop i); (4, tx_fifo i);
                  (5, tx_colls i); (7, tx_carrier i); (10, tx_compressed i)])%nat ++ [10].

Definition k_netdev (sp : bool) (l : list knic) : bytes :=
  (netdev_hdr1 ++ [10]) ++ (netdev_hdr2 ++ [10]) ++ concat (map (k_netdev_line sp) l).

(* documented result (psutil docs, net_io_counters) *)
Record nicstat := {
  bytes_sent : Z; bytes_recv : Z; packets_sent : Z; packets_recv : Z;
  errin : Z; errout : Z; dropin : Z; dropout : Z }.

Definition spec_nic (i : knic) : nicstat :=
  {| bytes_sent := dec_val (tx_bytes i); bytes_recv := dec_val (rx_bytes i);
     packets_sent := dec_val (tx_packets i); packets_recv := dec_val (rx_packets i);
     errin := dec_val (rx_errs i); errout := dec_val (tx_errs i);
     dropin := dec_val (rx_drop i); dropout := dec_val (tx_drop i) |}.

Definition nic_zero : nicstat := Build_nicstat 0 0 0 0 0 0 0 0.
Definition nic_add (a b : nicstat) : nicstat :=
  {| bytes_sent := bytes_sent a + bytes_sent b; bytes_recv := bytes_recv a + bytes_recv b;
     packets_sent := packets_sent a + packets_sent b; packets_recv := packets_recv a + packets_recv b;
     errin := errin a + errin b; errout := errout a + errout b;
     dropin := dropin a + dropin b; dropout := dropout a + dropout b |}.
Definition nic_sum (l : list nicstat) : nicstat := fold_right nic_add nic_zero l.

Definition nt_nic (s : nicstat) : ntuple :=
  [(bs "bytes_sent", bytes_sent s); (bs "bytes_recv", bytes_recv s);
   (bs "packets_sent", packets_sent s); (bs "packets_recv", packets_recv s);
   (bs "errin", errin s); (bs "errout", errout s); (bs "dropin", dropin s); (bs "dropout", dropout s)].

Definition spec_net (pernic : bool) (l : list knic) : front_res :=
  if pernic then RDict (map (fun i => (dec (n_name i), nt_nic (spec_nic i))) l)
  else match l with
       | [] => RNone
       | _ => RTuple (nt_nic (nic_sum (map spec_nic l)))
       end.

(* ------------------------------------------------ /proc/diskstats *)
(* iostats.rst, fields 1..11 *)
Record iostat := {
  rd_ios : bytes; rd_merges : bytes; rd_sectors : bytes; rd_ticks : bytes;
  wr_ios : bytes; wr_merges : bytes; wr_sectors : bytes; wr_ticks : bytes;
  in_flight : bytes; io_ticks : bytes; time_in_queue : bytes }.
Definition iostat_list (s : iostat) : list bytes :=
  [rd_ios s; rd_merges s; rd_sectors s; rd_ticks s; wr_ios s; wr_merges s; wr_sectors s; wr_ticks s;
   in_flight s; io_ticks s; time_in_queue s].

Inductive dlayout :=
| LFull (s : iostat) (extra : list bytes)
    (* 2.6+ "major minor name" + 11 fields (14), + 4 discard fields (18, Linux 4.18),
       + 2 flush fields (20, Linux 5.5) *)
| L24 (blocks : bytes) (s : iostat)
    (* 2.4 /proc/partitions: "major minor #blocks name" + 11 fields (15) *)
| LPart (rio rsect wio wsect : bytes).
    (* 2.6.0-2.6.24 partition: "major minor name" + 4 fields (7) *)

Record kdisk := {
  d_major : bytes; d_minor : bytes; d_name : bytes;
  d_whole : bool;                 (* a whole disk (has /sys/block/<name>), not a partition *)
  d_lay : dlayout }.

Definition zero_w (l : list bytes) : list (nat * bytes) := map (fun f => (O, f)) l.

(* 2.6+: "%4d %7d %s %lu %lu ...\n" ; 2.4: "%4d  %4d %10d %s %u ...\n" *)
Definition k_disk_line (d : kdisk) : bytes :=
  pad 4 (d_major d) ++
  match d_lay d with
  | LFull s extra =>
    sp_items (cols [(7, d_minor d)]%nat ++ zero_w (d_name d :: iostat_list s ++ extra))
  | L24 blocks s =>
    32 :: sp_items (cols [(4, d_minor d); (10, blocks)]%nat ++ zero_w (d_name d :: iostat_list s))
  | LPart rio rsect wio wsect =>
    sp_items (cols [(7, d_minor d)]%nat ++ zero_w [d_name d; rio; rsect; wio; wsect])
  end ++ [10].
Definition k_diskstats (l : list kdisk) : bytes := concat (map k_disk_line l).

Definition lay_fields (y : dlayout) : list bytes :=
  match y with
  | LFull s extra => iostat_list s ++ extra
  | L24 blocks s => blocks :: iostat_list s
  | LPart a b c d => [a; b; c; d]
  end.
(* the line layouts of the property: 14, 18, 20 (any later kernel appends at the end: >= 18), 15, 7 *)
Definition lay_ok (y : dlayout) : bool :=
  match y with
  | LFull _ extra => Nat.eqb (length extra) 0 || Nat.leb 4 (length extra)
  | _ => true
  end.
Definition wf_disk (d : kdisk) : bool :=
  is_dec (d_major d) && is_dec (d_minor d) && disk_name_ok (d_name d)
  && forallb is_dec (lay_fields (d_lay d)) && lay_ok (d_lay d).
Definition wf_disks (l : list kdisk) : bool := forallb wf_disk l && nodupb (map (fun d => dec (d_name d)) l).

Definition is_l24 (d : kdisk) : bool := match d_lay d with L24 _ _ => true | _ => false end.
Definition no_l24 (l : list kdisk) : bool := forallb (fun d => negb (is_l24 d)) l.

(* documented result (psutil docs, disk_io_counters on Linux); sectors are 512 bytes *)
Record diskstat := {
  read_count : Z; write_count : Z; read_bytes : Z; write_bytes : Z; read_time : Z; write_time : Z;
  read_merged_count : Z; write_merged_count : Z; busy_time : Z }.

Definition of_iostat (s : iostat) : diskstat :=
  {| read_count := dec_val (rd_ios s); write_count := dec_val (wr_ios s);
     read_bytes := dec_val (rd_sectors s) * 512; write_bytes := dec_val (wr_sectors s) * 512;
     read_time := dec_val (rd_ticks s); write_time := dec_val (wr_ticks s);
     read_merged_count := dec_val (rd_merges s); write_merged_count := dec_val (wr_merges s);
     busy_time := dec_val (io_ticks s) |}.

Definition spec_disk (d : kdisk) : diskstat :=
  match d_lay d with
  | LFull s _ => of_iostat s
  | L24 _ s => of_iostat s
  | LPart rio rsect wio wsect =>
    (* the layout carries only these four counters; the others read 0 *)
    {| read_count := dec_val rio; write_count := dec_val wio;
       read_bytes := dec_val rsect * 512; write_bytes := dec_val wsect * 512;
       read_time := 0; write_time := 0; read_merged_count := 0; write_merged_count := 0; busy_time := 0 |}
  end.

Definition disk_zero : diskstat := Build_diskstat 0 0 0 0 0 0 0 0 0.
Definition disk_add (a b : diskstat) : diskstat :=
  {| read_count := read_count a + read_count b; write_count := write_count a + write_count b;
     read_bytes := read_bytes a + read_bytes b; write_bytes := write_bytes a + write_bytes b;
     read_time := read_time a + read_time b; write_time := write_time a + write_time b;
     read_merged_count := read_merged_count a + read_merged_count b;
     write_merged_count := write_merged_count a + write_merged_count b;
     busy_time := busy_time a + busy_time b |}.
Definition disk_sum (l : list diskstat) : diskstat := fold_right disk_add disk_zero l.

Definition nt_disk (s : diskstat) : ntuple :=
  [(bs "read_count", read_count s); (bs "write_count", write_count s);
   (bs "read_bytes", read_bytes s); (bs "write_bytes", write_bytes s);
   (bs "read_time", read_time s); (bs "write_time", write_time s);
   (bs "read_merged_count", read_merged_count s); (bs "write_merged_count", write_merged_count s);
   (bs "busy_time", busy_time s)].

(* /sys/block has one entry per whole disk -- physical or virtual (loopN, ramN, dm-N, mdN, zramN) --
   named like the disk with every '/' written '!'.  A device counts as a whole disk exactly when
   that entry is present: *)
Definition sysfs_name (n : text) : text := map (fun c => if c =? 47 then 33 else c) n.
Definition listed (sysblock : text -> bool) (d : kdisk) : bool := sysblock (sysfs_name (dec (d_name d))).

(* answer demanded for a device list, given the per-device reading [view] and which devices are
   whole disks *)
Definition disks_answer (view : kdisk -> diskstat) (whole : kdisk -> bool) (perdisk : bool) (l : list kdisk)
  : front_res :=
  if perdisk then RDict (map (fun d => (dec (d_name d), nt_disk (view d))) l)
  else match filter whole l with
       | [] => RNone
       | ws => RTuple (nt_disk (disk_sum (map view ws)))
       end.
Definition spec_disks (sysblock : text -> bool) := disks_answer spec_disk (listed sysblock).

(* the kernel's own flag agrees with the listing *)
Definition sysblock_agrees (sysblock : text -> bool) (l : list kdisk) : bool :=
  forallb (fun d => Bool.eqb (listed sysblock d) (d_whole d)) l.
(* the /sys/block listing of a device list *)
Definition sysblock_of (l : list kdisk) (entry : text) : bool :=
  existsb (fun d => d_whole d && beqb entry (sysfs_name (dec (d_name d)))) l.

(* ---- no double counting.  Ghost accounting of the block layer: [own d] is what was submitted to
   the device node d itself; a partition's counter is its own I/O, a whole disk's counter is its own
   I/O plus that of all its partitions (part_stat_add accounts to the partition and to part0). *)
Definition zsum (l : list Z) : Z := fold_right Z.add 0 l.
Definition part_share (sysblock : text -> bool) (own : kdisk -> Z) (parent : kdisk -> bytes) (w p : kdisk) : Z :=
  if negb (listed sysblock p) && beqb (parent p) (d_name w) then own p else 0.
Definition kernel_shaped (sysblock : text -> bool) (own : kdisk -> Z) (parent : kdisk -> bytes)
           (fld : kdisk -> Z) (l : list kdisk) : Prop :=
  NoDup (map d_name l) /\
  (* every partition's parent is a listed whole disk of the table *)
  (forall p, In p l -> listed sysblock p = false ->
     fld p = own p /\ exists w, In w l /\ listed sysblock w = true /\ d_name w = parent p) /\
  (forall w, In w l -> listed sysblock w = true ->
     fld w = own w + zsum (map (part_share sysblock own parent w) l)).
(* a projection of the result that sums field-wise *)
Definition linear (f : diskstat -> Z) : Prop :=
  f disk_zero = 0 /\ forall a b, f (disk_add a b) = f a + f b.

(* what the code as written reads from a 2.4 line: #blocks as the read count, everything
   else one column to the left (this is the known finding; [model_view] = [spec_disk]
   on every other layout) *)
Definition shifted_24 (blocks : bytes) (s : iostat) : diskstat :=
  {| read_count := dec_val blocks; write_count := dec_val (rd_ticks s);
     read_bytes := dec_val (rd_merges s) * 512; write_bytes := dec_val (wr_merges s) * 512;
     read_time := dec_val (rd_sectors s); write_time := dec_val (wr_sectors s);
     read_merged_count := dec_val (rd_ios s); write_merged_count := dec_val (wr_ios s);
     busy_time := dec_val (in_flight s) |}.
Definition model_view (d : kdisk) : diskstat :=
  match d_lay d with L24 blocks s => shifted_24 blocks s | _ => spec_disk d end.

(* ------------------------------------------------ /sys/block/<disk>[/<part>]/stat *)
(* "%8lu %8lu ... \n": the 11 fields (+ discard / flush fields on newer kernels) *)
Record ksys := { y_name : bytes; y_stat : iostat; y_extra : list bytes; y_whole : bool }.
Definition k_sys_stat (e : ksys) : bytes :=
  match cols (map (fun f => (8%nat, f)) (iostat_list (y_stat e) ++ y_extra e)) with
  | [] => [10]
  | (n, f) :: r => repeat 32 n ++ f ++ sp_items r ++ [10]
  end.
(* a directory entry name: any bytes without '/' *)
Definition wf_sys (e : ksys) : bool :=
  negb (contains 47 (dec (y_name e)))
  && forallb is_dec (iostat_list (y_stat e) ++ y_extra e).
Definition wf_syss (l : list ksys) : bool := forallb wf_sys l && nodupb (map (fun e => dec (y_name e)) l).
Definition spec_sys (perdisk : bool) (l : list ksys) : front_res :=
  if perdisk then RDict (map (fun e => (dec (y_name e), nt_disk (of_iostat (y_stat e)))) l)
  else match filter y_whole l with
       | [] => RNone
       | ws => RTuple (nt_disk (disk_sum (map (fun e => of_iostat (y_stat e)) ws)))
       end.
Definition sys_agrees (sysblock : text -> bool) (l : list ksys) : bool :=
  forallb (fun e => Bool.eqb (sysblock (dec (y_name e))) (y_whole e)) l.

(* ------------------------------------------------ successive polls with the default nowrap=True *)
(* what a poll reports per device: name and the documented fields as numbers *)
Definition nic_row (i : knic) : text * list Z := (dec (n_name i), map snd (nt_nic (spec_nic i))).
Definition disk_row (d : kdisk) : text * list Z := (dec (d_name d), map snd (nt_disk (spec_disk d))).
Fixpoint all2 {A} (p : A -> A -> bool) (a b : list A) : bool :=
  match a, b with
  | [], [] => true
  | x :: a', y :: b' => p x y && all2 p a' b'
  | _, _ => false
  end.
Fixpoint row_get (k : text) (rows : list (text * list Z)) : option (list Z) :=
  match rows with
  | [] => None
  | (k', v) :: r => if beqb k k' then Some v else row_get k r
  end.
(* no reported counter of a device listed in both [prev] and [cur] is lower in [cur] *)
Definition no_decrease (prev cur : list (text * list Z)) : bool :=
  forallb (fun kv => match row_get (fst kv) prev with
                     | None => true
                     | Some o => all2 Z.leb o (snd kv)
                     end) cur.
(* the hypothesis of the property for a history of polls: between two CONSECUTIVE polls no counter
   decreases while its device is listed in both (a device may vanish and come back with any
   value; a genuine wrap while listed is property C10's business) *)
Fixpoint steady_consec (prev : list (text * list Z)) (polls : list (list (text * list Z))) : bool :=
  match polls with
  | [] => true
  | p :: r => no_decrease prev p && steady_consec p r
  end.
(* ---- histories in which counters do restart: what the default nowrap=True must report.
   Ghost state: for every device of the previous poll's raw dict, per field, the offset = the sum of the
   values from which that counter restarted WHILE THE DEVICE STAYED LISTED.  A device that is not in
   the current raw dict loses its offsets (whatever else happens in that poll); when it is listed
   again it starts raw. *)
Definition rows := list (text * list Z).
Fixpoint restart (o p v : list Z) {struct v} : list Z :=
  match v with
  | [] => []
  | x :: v' =>
    match p with
    | [] => []                                       (* tuples of one table have one width *)
    | pj :: p' => (hd 0 o + (if x <? pj then pj else 0)) :: restart (tl o) p' v'
    end
  end.
Fixpoint vadd (v o : list Z) : list Z :=
  match v with
  | [] => []
  | x :: v' => (x + hd 0 o) :: vadd v' (tl o)
  end.
Definition off_of (k : text) (off : rows) : list Z := match row_get k off with Some o => o | None => [] end.
Definition next_offsets (prev off cur : rows) : rows :=
  map (fun kv => (fst kv, match row_get (fst kv) prev with
                          | None => map (fun _ => 0) (snd kv)           (* new or returning device: raw *)
                          | Some p => restart (off_of (fst kv) off) p (snd kv)
                          end)) cur.
Definition reported (cur off : rows) : rows := map (fun kv => (fst kv, vadd (snd kv) (off_of (fst kv) off))) cur.
(* the raw dicts the successive calls must see reported, from a cleared cache *)
Fixpoint spec_wrap_hist (prev off : rows) (polls : list rows) : list rows :=
  match polls with
  | [] => []
  | cur :: r => let off' := next_offsets prev off cur in reported cur off' :: spec_wrap_hist cur off' r
  end.
(* the documented answer built from reported rows *)
Fixpoint vsum (rs : list (list Z)) : list Z :=
  match rs with
  | [] => []
  | [r] => r
  | r :: rest => vadd r (vsum rest)
  end.
Definition answer_of_rows (names : list bytes) (per : bool) (rs : rows) : front_res :=
  match rs with
  | [] => if per then RDict [] else RNone
  | _ => if per then RDict (map (fun kv => (fst kv, combine names (snd kv))) rs)
         else RTuple (combine names (vsum (map snd rs)))
  end.
Definition nic_names : list bytes := map fst (nt_nic nic_zero).
Definition disk_names : list bytes := map fst (nt_disk disk_zero).

(* ------------------------------------------------ disk_usage *)
(* property text: used = total - free-for-root, free = space available to unprivileged users,
   percent = used / (used + free) * 100  (0 when used + free = 0).
   statvfs(3): f_blocks, f_bfree, f_bavail are counted in units of f_frsize; f_bsize is only the
   preferred I/O size and must not enter the result *)
Definition spec_usage (st : statvfs) : usage :=
  let total := f_blocks st * f_frsize st in
  let used := total - f_bfree st * f_frsize st in
  let free := f_bavail st * f_frsize st in
  {| u_total := total; u_used := used; u_free := free;
     u_percent := if used + free =? 0 then None else Some (used * 100, used + free) |}.
(* a statvfs result as the kernel fills it *)
Definition wf_statvfs (st : statvfs) : Prop :=
  0 <= f_frsize st /\ 0 <= f_bavail st <= f_bfree st /\ f_bfree st <= f_blocks st.
