(* C09 -- text-mode vocabulary (definitions only; lemmas are in TextLemmas.v).
   psutil reads /proc/net/dev, /proc/diskstats and /sys/block/*/stat with open_text():
   bytes -> str through the file-system encoding (UTF-8) with errors="surrogateescape",
   universal newlines, and then uses str.split()/str.strip()/str.rfind()/int(str).
   A str is modelled as the list of its code points. *)
From PV Require Export Base.Dec.

Definition text := list Z.

(* ------------------------------------------------ bytes.decode("utf-8", "surrogateescape") *)
Definition cont (b : Z) : bool := (128 <=? b) && (b <=? 191).
Definition ok2 (b0 b1 : Z) : bool := (194 <=? b0) && (b0 <=? 223) && cont b1.
Definition ok3 (b0 b1 b2 : Z) : bool :=
  (((b0 =? 224) && (160 <=? b1) && (b1 <=? 191))
   || ((225 <=? b0) && (b0 <=? 236) && cont b1)
   || ((b0 =? 237) && (128 <=? b1) && (b1 <=? 159))
   || ((238 <=? b0) && (b0 <=? 239) && cont b1)) && cont b2.
Definition ok4 (b0 b1 b2 b3 : Z) : bool :=
  (((b0 =? 240) && (144 <=? b1) && (b1 <=? 191))
   || ((241 <=? b0) && (b0 <=? 243) && cont b1)
   || ((b0 =? 244) && (128 <=? b1) && (b1 <=? 143))) && cont b2 && cont b3.
Definition cp2 (b0 b1 : Z) : Z := (b0 - 192) * 64 + (b1 - 128).
Definition cp3 (b0 b1 b2 : Z) : Z := (b0 - 224) * 4096 + (b1 - 128) * 64 + (b2 - 128).
Definition cp4 (b0 b1 b2 b3 : Z) : Z := (b0 - 240) * 262144 + (b1 - 128) * 4096 + (b2 - 128) * 64 + (b3 - 128).
(* an undecodable byte b becomes the lone surrogate U+DC00 + b *)
Definition esc (b : Z) : Z := 56320 + b.

(* strict UTF-8 (no overlong forms, no surrogates, <= U+10FFFF); every byte that does not start a
   valid sequence is escaped on its own and decoding resumes at the next byte *)
Fixpoint dec (l : bytes) : text :=
  match l with
  | [] => []
  | b0 :: r0 =>
    if b0 <? 128 then b0 :: dec r0
    else
      match r0 with
      | [] => esc b0 :: dec r0
      | b1 :: r1 =>
        if ok2 b0 b1 then cp2 b0 b1 :: dec r1
        else
          match r1 with
          | [] => esc b0 :: dec r0
          | b2 :: r2 =>
            if ok3 b0 b1 b2 then cp3 b0 b1 b2 :: dec r2
            else
              match r2 with
              | [] => esc b0 :: dec r0
              | b3 :: r3 =>
                if ok4 b0 b1 b2 b3 then cp4 b0 b1 b2 b3 :: dec r3
                else esc b0 :: dec r0
              end
          end
      end
  end.

(* universal newlines (newline=None): "\r\n" and "\r" are read as "\n" *)
Fixpoint univ_nl (l : text) : text :=
  match l with
  | [] => []
  | c :: r =>
    if c =? 13 then
      10 :: match r with
            | d :: r' => if d =? 10 then univ_nl r' else univ_nl r
            | [] => []
            end
    else c :: univ_nl r
  end.

(* what f.read() / iteration over an open_text() file sees *)
Definition text_of (content : bytes) : text := univ_nl (dec content).

(* ------------------------------------------------ str.isspace() *)
Definition is_uws (c : Z) : bool :=
  ((9 <=? c) && (c <=? 13)) || ((28 <=? c) && (c <=? 32)) || (c =? 133) || (c =? 160) || (c =? 5760)
  || ((8192 <=? c) && (c <=? 8202)) || (c =? 8232) || (c =? 8233) || (c =? 8239) || (c =? 8287)
  || (c =? 12288).

(* ------------------------------------------------ split() / strip() for a whitespace class *)
Section WS.
  Variable ws : Z -> bool.

  Fixpoint gsplit (l : text) : list text :=
    match l with
    | [] => []
    | c :: r =>
      if ws c then gsplit r
      else match r with
           | [] => [[c]]
           | d :: _ =>
             if ws d then [c] :: gsplit r
             else match gsplit r with
                  | t :: ts => (c :: t) :: ts
                  | [] => [[c]]
                  end
           end
    end.

  Fixpoint glstrip (l : text) : text :=
    match l with
    | c :: r => if ws c then glstrip r else l
    | [] => []
    end.
  Definition grstrip (l : text) : text := rev (glstrip (rev l)).
  Definition gstrip (l : text) : text := grstrip (glstrip l).

  Definition gno_ws (l : text) : bool := forallb (fun c => negb (ws c)) l.
  (* a token: non-empty, no blank anywhere *)
  Definition gtok_ok (t : text) : bool := match t with [] => false | _ => gno_ws t end.
  (* survives strip(): non-empty, first and last character not blank *)
  Definition gends_ok (t : text) : bool :=
    match t with [] => false | c :: _ => negb (ws c) && negb (ws (last t 0)) end.
End WS.

(* str.strip(" ") *)
Definition is_sp (c : Z) : bool := c =? 32.
Definition sstrip := gstrip is_sp.
Definition sends_ok := gends_ok is_sp.
Definition usplit := gsplit is_uws.     (* str.split() *)
Definition ustrip := gstrip is_uws.     (* str.strip() *)
Definition utok_ok := gtok_ok is_uws.
Definition uends_ok := gends_ok is_uws.

(* int(str): ASCII digits, sign, underscores, surrounding blanks as in Base.Dec.parse_int;
   a token with a non-ASCII character (Unicode decimal digits are accepted by CPython) is
   outside the model *)
Definition is_ascii (c : Z) : bool := (0 <=? c) && (c <? 128).
Definition py_int_str (t : text) : outcome Z :=
  if forallb is_ascii t then py_int t else OutOfModel.
