(* C09 -- the statements of Properties/C09.v, written out, from the lemmas of
   ProofsNet / ProofsDisk / ProofsSys / ProofsUsage *)
From PV Require Import C09.Spec C09.Lib.
From PV Require Export C09.ProofsNet C09.ProofsDisk C09.ProofsSys C09.ProofsUsage C09.ProofsHist C09.ProofsBig C09.ProofsWrap C09.ProofsUnit.

(* the named-tuple definitions found in the code (coq/Gen/C09_Tables.v, regenerated on every run)
   are the documented ones, in the documented order *)
Lemma fields_documented :
  gen_snetio_fields = map fst (nt_nic nic_zero) /\
  gen_snetio_fields = [bs "bytes_sent"; bs "bytes_recv"; bs "packets_sent"; bs "packets_recv";
                       bs "errin"; bs "errout"; bs "dropin"; bs "dropout"] /\
  gen_sdiskio_fields = map fst (nt_disk disk_zero) /\
  gen_sdiskio_fields = [bs "read_count"; bs "write_count"; bs "read_bytes"; bs "write_bytes";
                        bs "read_time"; bs "write_time";
                        bs "read_merged_count"; bs "write_merged_count"; bs "busy_time"] /\
  gen_sdiskusage_fields = [bs "total"; bs "used"; bs "free"; bs "percent"] /\
  gen_disk_sector_size = 512.
Proof. repeat split; reflexivity. Qed.

Lemma net_pernic sp l :
  wf_nics l = true ->
  net_io_counters false true (k_netdev sp l)
  = XV (Val (RDict (map (fun i => (dec (n_name i), nt_nic (spec_nic i))) l))).
Proof. exact (net_exact sp l true). Qed.

Lemma net_total sp l :
  wf_nics l = true ->
  net_io_counters false false (k_netdev sp l)
  = XV (Val (match l with [] => RNone | _ => RTuple (nt_nic (nic_sum (map spec_nic l))) end)).
Proof. exact (net_exact sp l false). Qed.

Lemma disk_perdisk sb l :
  wf_disks l = true -> no_l24 l = true ->
  disk_io_counters true sb (ProcDiskstats (k_diskstats l))
  = Val (RDict (map (fun d => (dec (d_name d), nt_disk (spec_disk d))) l)).
Proof. intros H1 H2. exact (disk_exact sb l true H1 H2). Qed.

Lemma disk_total sb l :
  wf_disks l = true -> no_l24 l = true ->
  disk_io_counters false sb (ProcDiskstats (k_diskstats l))
  = Val (match filter (listed sb) l with
         | [] => RNone
         | ws => RTuple (nt_disk (disk_sum (map spec_disk ws)))
         end).
Proof. intros H1 H2. exact (disk_exact sb l false H1 H2). Qed.

Lemma disk_total_whole sb l :
  wf_disks l = true -> no_l24 l = true -> sysblock_agrees sb l = true ->
  disk_io_counters false sb (ProcDiskstats (k_diskstats l))
  = Val (match filter d_whole l with
         | [] => RNone
         | ws => RTuple (nt_disk (disk_sum (map spec_disk ws)))
         end).
Proof. intros H1 H2 H3. rewrite (disk_total sb l H1 H2), (listed_whole sb l H3). reflexivity. Qed.

Lemma disk_all_layouts sb l perdisk :
  wf_disks l = true ->
  disk_io_counters perdisk sb (ProcDiskstats (k_diskstats l))
  = Val (if perdisk then RDict (map (fun d => (dec (d_name d), nt_disk (model_view d))) l)
         else match filter (listed sb) l with
              | [] => RNone
              | ws => RTuple (nt_disk (disk_sum (map model_view ws)))
              end).
Proof. exact (disk_model_exact sb l perdisk). Qed.

Lemma disk_total_no_double_count sb own parent f l :
  wf_disks l = true -> no_l24 l = true -> filter (listed sb) l <> [] ->
  linear f -> kernel_shaped sb own parent (fun d => f (spec_disk d)) l ->
  exists total,
    disk_io_counters false sb (ProcDiskstats (k_diskstats l)) = Val (RTuple (nt_disk total))
    /\ f total = zsum (map own l).
Proof.
  intros H1 H2 Hne Hlin Hk. exists (disk_sum (map spec_disk (filter (listed sb) l))). split.
  - rewrite (disk_total sb l H1 H2). destruct (filter (listed sb) l); [congruence|reflexivity].
  - exact (no_double_count sb own parent f l Hlin Hk).
Qed.

(* the /sys/block listing that belongs to a device list agrees with it when no two names
   collide after the '/' -> '!' rewriting *)
Lemma sysblock_of_agrees l :
  NoDup (map (fun d => sysfs_name (dec (d_name d))) l) -> sysblock_agrees (sysblock_of l) l = true.
Proof.
  intros Hnd. unfold sysblock_agrees. rewrite forallb_forall. intros d Hd.
  apply Bool.eqb_true_iff. unfold listed, sysblock_of.
  destruct (d_whole d) eqn:Hw.
  - apply existsb_exists. exists d. split; [exact Hd|]. now rewrite Hw, beqb_refl.
  - destruct (existsb _ l) eqn:E; [|reflexivity]. exfalso.
    apply existsb_exists in E as [d' [Hd' E]]. apply andb_true_iff in E as [Hw' E].
    apply beqb_eq in E.
    assert (d = d'); [|subst; congruence].
    clear Hw Hw'. induction l as [|a l IH]; [destruct Hd|].
    cbn [map] in Hnd. inversion Hnd as [|x xs Hnin Hnd']; subst.
    destruct Hd as [->|Hd], Hd' as [->|Hd']; auto.
    + exfalso. apply Hnin. rewrite E. apply in_map_iff. eauto.
    + exfalso. apply Hnin. rewrite <- E. apply in_map_iff. eauto.
Qed.
