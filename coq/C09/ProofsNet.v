(* C09 -- /proc/net/dev: per-interface exactness and totals, names being arbitrary bytes *)
From PV Require Import C09.Spec C09.TextLemmas C09.Lib.

Definition tup_nic (s : nicstat) : list Z :=
  [bytes_sent s; bytes_recv s; packets_sent s; packets_recv s; errin s; errout s; dropin s; dropout s].

Definition cols15 (i : knic) : list (nat * bytes) :=
  cols [(7, rx_packets i); (4, rx_errs i); (4, rx_drop i); (4, rx_fifo i); (5, rx_frame i);
        (10, rx_compressed i); (9, rx_multicast i);
        (8, tx_bytes i); (7, tx_packets i); (4, tx_errs i); (4, tx_drop i); (4, tx_fifo i);
        (5, tx_colls i); (7, tx_carrier i); (10, tx_compressed i)]%nat.

(* blanks before the first counter *)
Definition n0_of (sp : bool) (i : knic) : nat :=
  if sp then S (7 - length (rx_bytes i)) else (8 - length (rx_bytes i))%nat.
(* the counters part of a line, without the final newline (ASCII) *)
Definition rest' (sp : bool) (i : knic) : bytes := repeat 32 (n0_of sp i) ++ rx_bytes i ++ sp_items (cols15 i).
(* the decoded line without its newline *)
Definition tbody (sp : bool) (i : knic) : text :=
  (repeat 32 (6 - length (n_name i)) ++ dec (n_name i)) ++ 58 :: rest' sp i.

Lemma line_shape sp i :
  k_netdev_line sp i = (pad 6 (n_name i) ++ 58 :: rest' sp i) ++ [10].
Proof.
  unfold k_netdev_line, rest', n0_of. fold (cols15 i). destruct sp.
  - unfold pad. cbn [repeat]. rewrite <- !app_assoc. cbn [app]. rewrite <- !app_assoc. reflexivity.
  - unfold pad. rewrite <- !app_assoc. cbn [app]. rewrite <- !app_assoc. reflexivity.
Qed.

Lemma counters_cols15 i : rx_bytes i :: map snd (cols15 i) = nic_counters i.
Proof. unfold cols15. rewrite map_snd_cols. reflexivity. Qed.

Lemma wf_nic_inv i :
  wf_nic i = true ->
  sends_ok (dec (n_name i)) = true /\ contains 10 (dec (n_name i)) = false
  /\ contains 13 (dec (n_name i)) = false
  /\ is_dec (rx_bytes i) = true /\ forallb is_dec (map snd (cols15 i)) = true
  /\ forallb is_dec (nic_counters i) = true.
Proof.
  unfold wf_nic, net_name_ok. intros H. apply andb_true_iff in H as [Hn Hc].
  apply andb_true_iff in Hn as [Hn H13]. apply andb_true_iff in Hn as [Hn H10].
  apply negb_true_iff in H10. apply negb_true_iff in H13.
  repeat split; try assumption.
  - rewrite <- counters_cols15 in Hc. cbn [forallb] in Hc. now apply andb_true_iff in Hc as [H1 _].
  - rewrite <- counters_cols15 in Hc. cbn [forallb] in Hc. now apply andb_true_iff in Hc as [_ H2].
Qed.

Lemma rest'_all P sp i :
  P 32 = true -> (forall c, is_digit c = true -> P c = true) -> wf_nic i = true ->
  forallb P (rest' sp i) = true.
Proof.
  intros H32 Hd Hwf. destruct (wf_nic_inv i Hwf) as (_ & _ & _ & Hrx & Hcols & _).
  unfold rest'. rewrite !forallb_app. rewrite forallb_repeat by exact H32.
  rewrite (dec_all P _ Hd Hrx). rewrite forallb_sp_items; [reflexivity|exact H32|].
  now apply decs_all.
Qed.

Lemma rest'_ascii sp i : wf_nic i = true -> forallb is_ascii (rest' sp i ++ [10]) = true.
Proof.
  intros H. rewrite forallb_app, rest'_all; [reflexivity|reflexivity|exact digit_ascii|exact H].
Qed.

Lemma dec_line sp i : wf_nic i = true -> dec (k_netdev_line sp i) = tbody sp i ++ [10].
Proof.
  intros H. rewrite line_shape. unfold pad, tbody. rewrite <- !app_assoc. cbn [app].
  rewrite dec_ascii_app by (apply forallb_repeat; reflexivity).
  rewrite dec_app_ascii by lia.
  change (rest' sp i ++ [10]) with (rest' sp i ++ [10]).
  now rewrite (dec_ascii _ (rest'_ascii sp i H)).
Qed.

Lemma tbody_no_break b sp i :
  b = 10 \/ b = 13 -> wf_nic i = true -> contains b (tbody sp i) = false.
Proof.
  intros Hb Hwf. destruct (wf_nic_inv i Hwf) as (_ & H10 & H13 & _).
  unfold tbody. rewrite !contains_app, contains_cons.
  rewrite contains_repeat by (destruct Hb; subst; reflexivity).
  assert (contains b (dec (n_name i)) = false) as -> by (destruct Hb; subst; assumption).
  assert (b =? 58 = false) as -> by (destruct Hb; subst; reflexivity).
  cbn [orb]. apply contains_false_forallb. apply rest'_all; [destruct Hb; subst; reflexivity| |exact Hwf].
  intros c Hc. unfold is_digit in Hc. destruct Hb; subst; lia.
Qed.

Lemma split_rest sp i : wf_nic i = true -> usplit (rest' sp i ++ [10]) = nic_counters i.
Proof.
  intros Hwf. destruct (wf_nic_inv i Hwf) as (_ & _ & _ & Hrx & Hcols & _).
  unfold rest'. rewrite <- !app_assoc. rewrite usplit_repeat.
  rewrite usplit_tok_app; [|now apply is_dec_utok|now apply ustarts_sp_items].
  rewrite usplit_sp_items; [|now apply decs_utok|reflexivity].
  change (usplit [10]) with (@nil text). rewrite app_nil_r. apply counters_cols15.
Qed.

Lemma net_line_printed sp i :
  wf_nic i = true -> net_line false (tbody sp i ++ [10]) = XV (Val (dec (n_name i), tup_nic (spec_nic i))).
Proof.
  intros Hwf. destruct (wf_nic_inv i Hwf) as (Hn & _ & _ & _ & _ & Hall).
  unfold tbody. rewrite <- app_assoc. cbn [app].
  set (pre := repeat 32 (6 - length (n_name i)) ++ dec (n_name i)).
  unfold net_line.
  rewrite (rfind_byte_app 58 pre (rest' sp i ++ [10])).
  2:{ apply contains_false_forallb. rewrite forallb_app. rewrite rest'_all; auto.
      intros c Hc. unfold is_digit in Hc. lia. }
  assert (L : Nat.eqb (length pre) 0 = false).
  { unfold pre. rewrite app_length. destruct (dec (n_name i)) as [|c n]; [discriminate|].
    cbn [length]. rewrite Nat.add_succ_r. reflexivity. }
  rewrite L. cbv zeta.
  rewrite firstn_app_len, skipn_app_len.
  unfold pre. unfold sstrip. rewrite (gstrip_pad is_sp 32 _ _ eq_refl Hn).
  rewrite usplit_strip, (split_rest sp i Hwf).
  rewrite (mapM_py_int_str_dec _ Hall). cbn [obind]. reflexivity.
Qed.

Lemma hdr_facts :
  forallb is_ascii (netdev_hdr1 ++ [10]) = true /\ forallb is_ascii (netdev_hdr2 ++ [10]) = true
  /\ contains 10 netdev_hdr1 = false /\ contains 13 netdev_hdr1 = false
  /\ contains 10 netdev_hdr2 = false /\ contains 13 netdev_hdr2 = false.
Proof. vm_compute. auto 10. Qed.

Lemma k_netdev_concat sp l :
  k_netdev sp l = concat ((netdev_hdr1 ++ [10]) :: (netdev_hdr2 ++ [10]) :: map (k_netdev_line sp) l).
Proof. reflexivity. Qed.

Lemma lines_netdev sp l :
  forallb wf_nic l = true ->
  lines_keep (text_of (k_netdev sp l))
  = (netdev_hdr1 ++ [10]) :: (netdev_hdr2 ++ [10]) :: map (fun i => tbody sp i ++ [10]) l.
Proof.
  intros Hwf. rewrite k_netdev_concat. rewrite forallb_forall in Hwf.
  destruct hdr_facts as (A1 & A2 & C1 & C2 & C3 & C4).
  apply text_lines.
  - intros x [<-|[<-|Hin]]; [eauto|eauto|].
    apply in_map_iff in Hin as [i [<- Hi]]. rewrite line_shape. eauto.
  - cbn [map]. rewrite (dec_ascii _ A1), (dec_ascii _ A2). do 2 f_equal.
    rewrite map_map. apply map_ext_in. intros i Hi. apply dec_line. now apply Hwf.
  - intros t [<-|[<-|Hin]]; [eauto|eauto|].
    apply in_map_iff in Hin as [i [<- Hi]]. eexists. split; [reflexivity|].
    split; apply tbody_no_break; auto.
Qed.

Definition nic_kv (i : knic) : text * list Z := (dec (n_name i), tup_nic (spec_nic i)).

Lemma net_fold_lines sp l : forall acc,
  forallb wf_nic l = true ->
  net_fold false acc (map (fun i => tbody sp i ++ [10]) l)
  = XV (Val (fold_left (fun d kv => dset (fst kv) (snd kv) d) (map nic_kv l) acc)).
Proof.
  induction l as [|i l IH]; intros acc H; [reflexivity|].
  cbn [forallb] in H. apply andb_true_iff in H as [Hi Hl].
  cbn [map net_fold fold_left]. rewrite (net_line_printed sp i Hi). cbn [xbind]. now apply IH.
Qed.

Lemma net_raw_printed sp l :
  wf_nics l = true -> net_raw false (k_netdev sp l) = XV (Val (map nic_kv l)).
Proof.
  unfold wf_nics. intros H. apply andb_true_iff in H as [Hwf Hnd].
  unfold net_raw. rewrite (lines_netdev sp l Hwf). cbn [skipn].
  rewrite (net_fold_lines sp l [] Hwf). do 2 f_equal.
  rewrite fold_dset_nodup; [reflexivity| |intros k _ []].
  rewrite map_map. cbn [nic_kv fst]. now apply nodupb_NoDup.
Qed.

Lemma col_sums_nic l : l <> [] -> col_sums (map tup_nic l) = tup_nic (nic_sum l).
Proof.
  induction l as [|x l IH]; intros H; [congruence|].
  destruct l as [|y l'].
  - cbn [map col_sums nic_sum fold_right]. unfold tup_nic, nic_add, nic_zero.
    cbn [bytes_sent bytes_recv packets_sent packets_recv errin errout dropin dropout].
    now rewrite !Z.add_0_r.
  - change (col_sums (map tup_nic (x :: y :: l')))
      with (zip_add (tup_nic x) (col_sums (map tup_nic (y :: l')))).
    rewrite IH by discriminate. reflexivity.
Qed.

Theorem net_exact sp l pernic :
  wf_nics l = true -> net_io_counters false pernic (k_netdev sp l) = XV (Val (spec_net pernic l)).
Proof.
  intros H. unfold net_io_counters. rewrite (net_raw_printed sp l H). cbn [xbind]. f_equal.
  unfold nic_kv, spec_net. destruct pernic.
  - apply (front_per snetio_fields (fun i => dec (n_name i)) (fun i => tup_nic (spec_nic i))
                     (fun i => nt_nic (spec_nic i))).
    reflexivity.
  - destruct l as [|i l]; [reflexivity|].
    apply (front_total snetio_fields (fun i => dec (n_name i)) (fun i => tup_nic (spec_nic i))); [discriminate|].
    rewrite <- (map_map spec_nic tup_nic). rewrite col_sums_nic by discriminate. reflexivity.
Qed.

(* names with ':' and digits, a 2^64-1 counter *)
Example net_example :
  let i1 := Build_knic (bs "eth0:1") (bs "1") (bs "2") (bs "3") (bs "4") (bs "5") (bs "6") (bs "7") (bs "8")
                       (bs "18446744073709551615") (bs "10") (bs "11") (bs "12") (bs "13") (bs "14") (bs "15") (bs "16") in
  let i2 := Build_knic (bs "lo") (bs "100") (bs "200") (bs "0") (bs "0") (bs "0") (bs "0") (bs "0") (bs "0")
                       (bs "1") (bs "2") (bs "0") (bs "7") (bs "0") (bs "0") (bs "0") (bs "0") in
  wf_nics [i1; i2] = true /\
  net_io_counters false false (k_netdev true [i1; i2])
  = XV (Val (RTuple (nt_nic (Build_nicstat 18446744073709551616 101 12 202 3 11 4 19)))).
Proof. vm_compute. auto. Qed.

(* a non-ASCII name ("wl\xc3\xa9\xe2\x82\xac0" = wle'EUR0), an undecodable byte (0xff), a blank inside,
   names beginning / ending with a str blank the kernel accepts (0x1f, U+0085, U+2003) *)
Example net_example_bytes :
  let mk n := Build_knic n (bs "1") (bs "2") (bs "3") (bs "4") (bs "5") (bs "6") (bs "7") (bs "8")
                         (bs "9") (bs "10") (bs "11") (bs "12") (bs "13") (bs "14") (bs "15") (bs "16") in
  let l := [mk [119; 108; 195; 169; 226; 130; 172; 48]; mk [101; 255; 49]; mk [97; 31; 98];
            mk (bs "eth0" ++ [31]); mk (bs "eth0"); mk [194; 133; 101]; mk [119; 226; 128; 131]] in
  wf_nics l = true /\ forallb (fun i => dev_valid_name (n_name i)) l = true /\
  map n_name l <> map (fun i => dec (n_name i)) l /\
  net_io_counters false true (k_netdev true l) = XV (Val (spec_net true l)).
Proof. vm_compute. repeat split; congruence. Qed.

(* every name the kernel accepts is covered *)
Lemma dev_valid_net_ok n : dev_valid_name n = true -> net_name_ok n = true.
Proof.
  unfold dev_valid_name. intros H.
  apply andb_true_iff in H as [H Hall]. apply andb_true_iff in H as [H _].
  apply andb_true_iff in H as [H _]. apply andb_true_iff in H as [Hne _].
  assert (Hn : n <> []) by (destruct n; [discriminate|discriminate]).
  assert (C : forall c, c = 10 \/ c = 13 \/ c = 32 -> contains c n = false).
  { intros c Hc. apply contains_false_forallb. refine (forallb_imp _ _ _ _ Hall).
    intros b Hb. unfold kernel_isspace in Hb. destruct Hc as [Hc|[Hc|Hc]]; subst c; lia. }
  unfold net_name_ok. rewrite !dec_contains by lia. rewrite !C by auto. cbn [negb andb].
  rewrite !andb_true_r. unfold sends_ok. apply gtok_ends. apply gtok_ok_spec. split.
  - now apply dec_nonempty.
  - apply gno_ws_sp. rewrite dec_contains by lia. apply C. auto.
Qed.

(* the code before fix e02f4b0 (name = line[:colon].strip()): the kernel accepts the interface name
   "eth0\x1f" (dev_valid_name: 0x1f is no kernel blank), str.strip() removed the trailing U+001F and
   the interface was reported as "eth0" *)
Definition nic_us : knic :=
  Build_knic (bs "eth0" ++ [31]) (bs "1") (bs "2") (bs "3") (bs "4") (bs "5") (bs "6") (bs "7") (bs "8")
             (bs "9") (bs "10") (bs "11") (bs "12") (bs "13") (bs "14") (bs "15") (bs "16").
Theorem net_legacy_strip_refuted :
  exists i,
    dev_valid_name (n_name i) = true /\ wf_nics [i] = true /\
    spec_net true [i] = RDict [(bs "eth0" ++ [31], nt_nic (spec_nic i))] /\
    net_io_counters true true (k_netdev true [i]) = XV (Val (RDict [(bs "eth0", nt_nic (spec_nic i))])).
Proof. exists nic_us. repeat split; vm_compute; reflexivity. Qed.
