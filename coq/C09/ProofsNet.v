(* C09 -- /proc/net/dev: per-interface exactness and totals *)
From PV Require Import C09.Spec C09.Lib.

Definition tup_nic (s : nicstat) : list Z :=
  [bytes_sent s; bytes_recv s; packets_sent s; packets_recv s; errin s; errout s; dropin s; dropout s].

Definition cols15 (i : knic) : list (nat * bytes) :=
  cols [(7, rx_packets i); (4, rx_errs i); (4, rx_drop i); (4, rx_fifo i); (5, rx_frame i);
        (10, rx_compressed i); (9, rx_multicast i);
        (8, tx_bytes i); (7, tx_packets i); (4, tx_errs i); (4, tx_drop i); (4, tx_fifo i);
        (5, tx_colls i); (7, tx_carrier i); (10, tx_compressed i)]%nat.

(* the counters part of a line, without the final newline *)
Definition rest' (n0 : nat) (i : knic) : bytes := repeat 32 n0 ++ rx_bytes i ++ sp_items (cols15 i).

Lemma line_shape sp i :
  exists n0, k_netdev_line sp i = (pad 6 (n_name i) ++ 58 :: rest' n0 i) ++ [10].
Proof.
  unfold k_netdev_line, rest'. fold (cols15 i). destruct sp.
  - exists (S (7 - length (rx_bytes i))). unfold pad. cbn [repeat].
    rewrite <- !app_assoc. cbn [app]. rewrite <- !app_assoc. reflexivity.
  - exists (8 - length (rx_bytes i))%nat. unfold pad.
    rewrite <- !app_assoc. cbn [app]. rewrite <- !app_assoc. reflexivity.
Qed.

Lemma counters_cols15 i : rx_bytes i :: map snd (cols15 i) = nic_counters i.
Proof. unfold cols15. rewrite map_snd_cols. reflexivity. Qed.

Lemma wf_nic_inv i :
  wf_nic i = true ->
  name_ok (n_name i) = true /\ is_dec (rx_bytes i) = true /\ forallb is_dec (map snd (cols15 i)) = true
  /\ forallb is_dec (nic_counters i) = true.
Proof.
  unfold wf_nic. intros H. apply andb_true_iff in H as [Hn Hc]. repeat split; try assumption.
  - rewrite <- counters_cols15 in Hc. cbn [forallb] in Hc. now apply andb_true_iff in Hc as [H1 _].
  - rewrite <- counters_cols15 in Hc. cbn [forallb] in Hc. now apply andb_true_iff in Hc as [_ H2].
Qed.

Lemma rest'_all P n0 i :
  P 32 = true -> (forall c, is_digit c = true -> P c = true) -> wf_nic i = true ->
  forallb P (rest' n0 i) = true.
Proof.
  intros H32 Hd Hwf. destruct (wf_nic_inv i Hwf) as (_ & Hrx & Hcols & _).
  unfold rest'. rewrite !forallb_app. rewrite forallb_repeat by exact H32.
  rewrite (dec_all P _ Hd Hrx). rewrite forallb_sp_items; [reflexivity|exact H32|].
  now apply decs_all.
Qed.

Lemma body_all P n0 i :
  P 32 = true -> P 58 = true -> (forall c, is_graph c = true -> P c = true) -> wf_nic i = true ->
  forallb P (pad 6 (n_name i) ++ 58 :: rest' n0 i) = true.
Proof.
  intros H32 H58 Hg Hwf. destruct (wf_nic_inv i Hwf) as (Hn & _).
  apply name_ok_inv in Hn as [_ Hn].
  rewrite forallb_app. rewrite forallb_pad; [|exact H32|exact (forallb_imp _ _ _ Hg Hn)].
  cbn [forallb andb]. rewrite H58. cbn [andb].
  apply rest'_all; auto. intros c Hc. apply Hg. now apply digit_graph.
Qed.

Lemma split_rest n0 i : wf_nic i = true -> split_ws (rest' n0 i ++ [10]) = nic_counters i.
Proof.
  intros Hwf. destruct (wf_nic_inv i Hwf) as (_ & Hrx & Hcols & _).
  unfold rest'. rewrite <- !app_assoc. rewrite split_ws_repeat.
  rewrite split_ws_tok_app; [|now apply is_dec_tok_ok|now apply starts_ws_sp_items].
  rewrite split_ws_sp_items; [|now apply decs_tok_ok|reflexivity].
  change (split_ws [10]) with (@nil bytes). rewrite app_nil_r. apply counters_cols15.
Qed.

Lemma net_line_printed sp i :
  wf_nic i = true -> net_line (k_netdev_line sp i) = Val (n_name i, tup_nic (spec_nic i)).
Proof.
  intros Hwf. destruct (line_shape sp i) as [n0 E]. rewrite E. clear E.
  destruct (wf_nic_inv i Hwf) as (Hn & _ & _ & Hall).
  rewrite <- app_assoc. cbn [app].
  unfold net_line.
  rewrite (rfind_byte_app 58 (pad 6 (n_name i)) (rest' n0 i ++ [10])).
  2:{ apply contains_false_forallb. rewrite forallb_app. rewrite rest'_all; auto.
      intros c Hc. unfold is_digit in Hc. lia. }
  assert (L : Nat.eqb (length (pad 6 (n_name i))) 0 = false).
  { unfold pad. rewrite app_length. destruct (n_name i) as [|c n]; [discriminate|].
    cbn [length]. rewrite Nat.add_succ_r. reflexivity. }
  rewrite L. cbv zeta.
  rewrite firstn_app_len, skipn_app_len.
  unfold pad. rewrite strip_pad by (now apply name_tok_ok).
  rewrite split_ws_strip, (split_rest n0 i Hwf).
  rewrite (mapM_py_int_dec _ Hall). cbn [obind]. reflexivity.
Qed.

Lemma hdr_lines : contains 10 netdev_hdr1 = false /\ contains 10 netdev_hdr2 = false
                  /\ ascii_ok (netdev_hdr1 ++ [10]) = true /\ ascii_ok (netdev_hdr2 ++ [10]) = true.
Proof. vm_compute. auto. Qed.

Lemma k_netdev_concat sp l :
  k_netdev sp l = concat ((netdev_hdr1 ++ [10]) :: (netdev_hdr2 ++ [10]) :: map (k_netdev_line sp) l).
Proof. reflexivity. Qed.

Lemma lines_netdev sp l :
  forallb wf_nic l = true ->
  lines_keep (k_netdev sp l) = (netdev_hdr1 ++ [10]) :: (netdev_hdr2 ++ [10]) :: map (k_netdev_line sp) l.
Proof.
  intros Hwf. rewrite k_netdev_concat. apply lines_keep_concat.
  intros x [<-|[<-|Hin]].
  - exists netdev_hdr1. split; [reflexivity|apply hdr_lines].
  - exists netdev_hdr2. split; [reflexivity|apply hdr_lines].
  - apply in_map_iff in Hin as [i [<- Hi]].
    assert (Hw : wf_nic i = true) by (rewrite forallb_forall in Hwf; now apply Hwf).
    destruct (line_shape sp i) as [n0 E]. rewrite E. eexists. split; [reflexivity|].
    apply contains_false_forallb. apply body_all; auto.
    intros c Hc. unfold is_graph in Hc. lia.
Qed.

Lemma forallb_concat {A} (P : A -> bool) ls :
  (forall l, In l ls -> forallb P l = true) -> forallb P (concat ls) = true.
Proof.
  induction ls as [|l ls IH]; intros H; [reflexivity|]. cbn [concat]. rewrite forallb_app.
  rewrite (H l (or_introl eq_refl)). apply IH. intros x Hx. apply H. now right.
Qed.

Lemma ascii_netdev sp l : forallb wf_nic l = true -> ascii_ok (k_netdev sp l) = true.
Proof.
  intros Hwf. rewrite k_netdev_concat. unfold ascii_ok. apply forallb_concat.
  intros x [<-|[<-|Hin]]; [apply hdr_lines|apply hdr_lines|].
  apply in_map_iff in Hin as [i [<- Hi]].
  assert (Hw : wf_nic i = true) by (rewrite forallb_forall in Hwf; now apply Hwf).
  destruct (line_shape sp i) as [n0 E]. rewrite E. rewrite forallb_app.
  rewrite body_all; auto. intros c Hc. unfold is_graph in Hc. unfold ascii_ok_byte. lia.
Qed.

Definition nic_kv (i : knic) : bytes * list Z := (n_name i, tup_nic (spec_nic i)).

Lemma net_fold_lines sp l : forall acc,
  forallb wf_nic l = true ->
  net_fold acc (map (k_netdev_line sp) l)
  = Val (fold_left (fun d kv => dset (fst kv) (snd kv) d) (map nic_kv l) acc).
Proof.
  induction l as [|i l IH]; intros acc H; [reflexivity|].
  cbn [forallb] in H. apply andb_true_iff in H as [Hi Hl].
  cbn [map net_fold fold_left]. rewrite (net_line_printed sp i Hi). cbn [obind]. now apply IH.
Qed.

Lemma net_raw_printed sp l :
  wf_nics l = true -> net_raw (k_netdev sp l) = Val (map nic_kv l).
Proof.
  unfold wf_nics. intros H. apply andb_true_iff in H as [Hwf Hnd].
  unfold net_raw. rewrite (ascii_netdev sp l Hwf), (lines_netdev sp l Hwf). cbn [skipn].
  rewrite (net_fold_lines sp l [] Hwf). f_equal.
  rewrite fold_dset_nodup; [reflexivity| |intros k _ []].
  rewrite map_map. cbn [nic_kv fst]. now apply nodupb_NoDup.
Qed.

Lemma col_sums_nic l : l <> [] -> col_sums (map tup_nic l) = tup_nic (nic_sum l).
Proof.
  induction l as [|x l IH]; intros H; [congruence|].
  destruct l as [|y l'].
  - cbn [map col_sums nic_sum fold_right]. unfold tup_nic, nic_add, nic_zero.
    cbn [bytes_sent bytes_recv packets_sent packets_recv errin errout dropin dropout].
    now rewrite !Z.add_0_r.
  - change (col_sums (map tup_nic (x :: y :: l')))
      with (zip_add (tup_nic x) (col_sums (map tup_nic (y :: l')))).
    rewrite IH by discriminate. reflexivity.
Qed.

Theorem net_exact sp l pernic :
  wf_nics l = true -> net_io_counters pernic (k_netdev sp l) = Val (spec_net pernic l).
Proof.
  intros H. unfold net_io_counters. rewrite (net_raw_printed sp l H). cbn [obind].
  unfold nic_kv, spec_net. destruct pernic.
  - apply (front_per snetio_fields n_name (fun i => tup_nic (spec_nic i)) (fun i => nt_nic (spec_nic i))).
    reflexivity.
  - destruct l as [|i l]; [reflexivity|].
    apply (front_total snetio_fields n_name (fun i => tup_nic (spec_nic i))); [discriminate|].
    rewrite <- (map_map spec_nic tup_nic). rewrite col_sums_nic by discriminate. reflexivity.
Qed.

(* the per-interface answer names every listed interface, in kernel order, with the
   eight documented fields taken from kernel columns 9,1,10,2,3,11,4,12 *)
Example net_example :
  let i1 := Build_knic (bs "eth0:1") (bs "1") (bs "2") (bs "3") (bs "4") (bs "5") (bs "6") (bs "7") (bs "8")
                       (bs "18446744073709551615") (bs "10") (bs "11") (bs "12") (bs "13") (bs "14") (bs "15") (bs "16") in
  let i2 := Build_knic (bs "lo") (bs "100") (bs "200") (bs "0") (bs "0") (bs "0") (bs "0") (bs "0") (bs "0")
                       (bs "1") (bs "2") (bs "0") (bs "7") (bs "0") (bs "0") (bs "0") (bs "0") in
  wf_nics [i1; i2] = true /\
  net_io_counters false (k_netdev true [i1; i2])
  = Val (RTuple (nt_nic (Build_nicstat 18446744073709551616 101 12 202 3 11 4 19))).
Proof. vm_compute. auto. Qed.
