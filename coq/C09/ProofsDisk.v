(* C09 -- /proc/diskstats: per-device exactness for every layout, totals over the /sys/block
   entries only, no double counting *)
From PV Require Import C09.Spec C09.TextLemmas C09.Lib.

(* rewrite [mapM py_int_str l] whatever the (convertible) type annotations on l are *)
Ltac rw_ints H := match goal with |- context [mapM py_int_str ?l] => rewrite (mapM_py_int_str_dec l H) end.

Definition tup_disk (s : diskstat) : list Z :=
  [read_count s; write_count s; read_bytes s; write_bytes s; read_time s; write_time s;
   read_merged_count s; write_merged_count s; busy_time s].

(* ------------------------------------------------ shape of a printed line *)
Definition pre_items (d : kdisk) : list (nat * bytes) :=
  match d_lay d with
  | L24 blocks _ => cols [(4, d_minor d); (10, blocks)]%nat
  | _ => cols [(7, d_minor d)]%nat
  end.
Definition post_toks (d : kdisk) : list bytes :=
  match d_lay d with
  | LFull s extra => iostat_list s ++ extra
  | L24 _ s => iostat_list s
  | LPart a b c e => [a; b; c; e]
  end.
Definition lead (d : kdisk) : bytes := match d_lay d with L24 _ _ => [32] | _ => [] end.
(* the line, with the name as [nm] *)
Definition line_with (d : kdisk) (nm : list Z) : list Z :=
  (pad 4 (d_major d) ++ lead d ++ sp_items (pre_items d ++ (O, nm) :: zero_w (post_toks d))) ++ [10].
(* its tokens *)
Definition toks (d : kdisk) : list text :=
  map snd (pre_items d) ++ dec (d_name d) :: post_toks d.

Lemma disk_line_shape d : k_disk_line d = line_with d (d_name d).
Proof.
  unfold k_disk_line, line_with, pre_items, post_toks, lead.
  destruct (d_lay d); rewrite <- !app_assoc; reflexivity.
Qed.

Lemma wf_disk_inv d :
  wf_disk d = true ->
  is_dec (d_major d) = true /\ is_dec (d_minor d) = true /\ utok_ok (dec (d_name d)) = true
  /\ forallb is_dec (lay_fields (d_lay d)) = true /\ lay_ok (d_lay d) = true.
Proof.
  unfold wf_disk, disk_name_ok. intros H.
  apply andb_true_iff in H as [H H5]. apply andb_true_iff in H as [H H4].
  apply andb_true_iff in H as [H H3]. apply andb_true_iff in H as [H1 H2]. auto.
Qed.

Lemma pre_post_dec d :
  wf_disk d = true ->
  forallb is_dec (map snd (pre_items d)) = true /\ forallb is_dec (post_toks d) = true.
Proof.
  intros H. destruct (wf_disk_inv d H) as (_ & Hmi & _ & Hf & _).
  unfold pre_items, post_toks.
  destruct (d_lay d) as [s extra|blocks s|a b c e]; cbn [lay_fields] in Hf;
    rewrite map_snd_cols; cbn [map snd forallb]; rewrite Hmi; cbn [andb].
  - auto.
  - cbn [forallb] in Hf. apply andb_true_iff in Hf as [Hb Hs]. now rewrite Hb.
  - auto.
Qed.

Lemma toks_ok d : wf_disk d = true -> forallb utok_ok (toks d) = true.
Proof.
  intros H. destruct (wf_disk_inv d H) as (_ & _ & Hn & _). destruct (pre_post_dec d H) as [H1 H2].
  unfold toks. rewrite forallb_app. apply andb_true_iff. split; [exact (decs_utok _ H1)|].
  cbn [forallb]. apply andb_true_iff. split; [exact Hn|exact (decs_utok _ H2)].
Qed.

Lemma toks_items d nm :
  map snd (pre_items d ++ (O, nm) :: zero_w (post_toks d)) = map snd (pre_items d) ++ nm :: post_toks d.
Proof. rewrite map_app. cbn [map snd]. now rewrite map_snd_zero_w. Qed.

Lemma lead_ascii d : forallb is_ascii (lead d) = true.
Proof. unfold lead. destruct (d_lay d); reflexivity. Qed.

(* the decoded line: same shape, name decoded *)
Lemma dec_disk_line d : wf_disk d = true -> dec (k_disk_line d) = line_with d (dec (d_name d)).
Proof.
  intros H. destruct (wf_disk_inv d H) as (Hma & _). destruct (pre_post_dec d H) as [H1 H2].
  rewrite disk_line_shape. unfold line_with.
  rewrite !sp_items_app, !sp_items_cons. cbn [fst snd repeat]. rewrite <- !app_assoc. cbn [app].
  set (tail := sp_items (zero_w (post_toks d)) ++ [10]).
  assert (Ta : forallb is_ascii tail = true).
  { unfold tail. rewrite forallb_app. rewrite forallb_sp_items; [reflexivity|reflexivity|].
    rewrite map_snd_zero_w. exact (decs_all _ _ digit_ascii H2). }
  assert (Tn : tail <> []) by (unfold tail; destruct (sp_items (zero_w (post_toks d))); discriminate).
  rewrite dec_ascii_app by (apply forallb_pad; [reflexivity|exact (dec_all _ _ digit_ascii Hma)]).
  rewrite dec_ascii_app by (apply lead_ascii).
  rewrite dec_ascii_app by (apply forallb_sp_items; [reflexivity|exact (decs_all _ _ digit_ascii H1)]).
  rewrite dec_ascii_cons by lia.
  now rewrite (dec_app_ascii_tail _ tail Tn Ta).
Qed.

Lemma lead_ws d X :
  ustarts X = true -> ustarts (lead d ++ X) = true /\ usplit (lead d ++ X) = usplit X.
Proof. intros H. unfold lead. destruct (d_lay d); cbn [app]; auto. Qed.

Lemma split_disk_line d :
  wf_disk d = true -> usplit (line_with d (dec (d_name d))) = d_major d :: toks d.
Proof.
  intros H. destruct (wf_disk_inv d H) as (Hma & _).
  pose proof (toks_ok d H) as Ht.
  unfold line_with, pad. rewrite <- !app_assoc. rewrite usplit_repeat.
  set (items := pre_items d ++ (O, dec (d_name d)) :: zero_w (post_toks d)).
  assert (S1 : ustarts (sp_items items ++ [10]) = true) by (now apply ustarts_sp_items).
  destruct (lead_ws d _ S1) as [S2 E2].
  rewrite usplit_tok_app; [|now apply is_dec_utok|exact S2].
  f_equal. etransitivity; [exact E2|].
  unfold items. etransitivity; [apply usplit_sp_items; [rewrite toks_items; exact Ht|reflexivity]|].
  rewrite toks_items. change (usplit [10]) with (@nil text). now rewrite app_nil_r.
Qed.

Lemma line_no_break b d :
  b = 10 \/ b = 13 -> wf_disk d = true ->
  contains b (pad 4 (d_major d) ++ lead d
              ++ sp_items (pre_items d ++ (O, dec (d_name d)) :: zero_w (post_toks d))) = false.
Proof.
  intros Hb H. destruct (wf_disk_inv d H) as (Hma & _).
  pose proof (toks_ok d H) as Ht.
  assert (Hu : is_uws b = true) by (destruct Hb; subst; reflexivity).
  assert (H32 : (b =? 32) = false) by (destruct Hb; subst; reflexivity).
  rewrite !contains_app. unfold pad. rewrite contains_app, contains_repeat by exact H32.
  rewrite (utok_contains b _ Hu (is_dec_utok _ Hma)).
  assert (contains b (lead d) = false) as ->.
  { unfold lead. destruct (d_lay d); try reflexivity. cbn [contains existsb]. now rewrite H32. }
  cbn [orb]. apply contains_sp_items; [exact H32|].
  rewrite toks_items. intros t Hin. apply (utok_contains b t Hu).
  rewrite forallb_forall in Ht. now apply Ht.
Qed.

Lemma lines_diskstats l :
  forallb wf_disk l = true ->
  lines_keep (text_of (k_diskstats l)) = map (fun d => line_with d (dec (d_name d))) l.
Proof.
  intros Hwf. unfold k_diskstats. rewrite forallb_forall in Hwf. apply text_lines.
  - intros x Hin. apply in_map_iff in Hin as [d [<- Hd]]. rewrite disk_line_shape. unfold line_with. eauto.
  - rewrite map_map. apply map_ext_in. intros d Hd. apply dec_disk_line. now apply Hwf.
  - intros t Hin. apply in_map_iff in Hin as [d [<- Hd]]. unfold line_with. eexists. split; [reflexivity|].
    split; apply line_no_break; auto.
Qed.

(* ------------------------------------------------ what the code reads from one line *)
Definition raw_entry (d : kdisk) : dentry :=
  match d_lay d with
  | LFull s _ =>
    {| e_name := dec (d_name d); e_reads := dec_val (rd_ios s); e_writes := dec_val (wr_ios s);
       e_rbytes := dec_val (rd_sectors s); e_wbytes := dec_val (wr_sectors s);
       e_rtime := dec_val (rd_ticks s); e_wtime := dec_val (wr_ticks s);
       e_rmerged := dec_val (rd_merges s); e_wmerged := dec_val (wr_merges s);
       e_busy := dec_val (io_ticks s) |}
  | L24 blocks s =>
    {| e_name := dec (d_name d); e_reads := dec_val blocks; e_writes := dec_val (rd_ticks s);
       e_rbytes := dec_val (rd_merges s); e_wbytes := dec_val (wr_merges s);
       e_rtime := dec_val (rd_sectors s); e_wtime := dec_val (wr_sectors s);
       e_rmerged := dec_val (rd_ios s); e_wmerged := dec_val (wr_ios s);
       e_busy := dec_val (in_flight s) |}
  | LPart a b c e =>
    {| e_name := dec (d_name d); e_reads := dec_val a; e_writes := dec_val c;
       e_rbytes := dec_val b; e_wbytes := dec_val e;
       e_rtime := 0; e_wtime := 0; e_rmerged := 0; e_wmerged := 0; e_busy := 0 |}
  end.

Lemma disk_line_printed d :
  wf_disk d = true -> disk_line (line_with d (dec (d_name d))) = Val (raw_entry d).
Proof.
  intros H. unfold disk_line. rewrite (split_disk_line d H). cbv zeta.
  destruct (wf_disk_inv d H) as (_ & _ & _ & Hf & Hlay).
  unfold toks, pre_items, post_toks, raw_entry.
  destruct (d_lay d) as [s extra|blocks s|a b c e]; cbn [lay_fields] in Hf; rewrite map_snd_cols; cbn [map snd].
  - (* 14 fields, or 18 and more *)
    rewrite forallb_app in Hf. apply andb_true_iff in Hf as [Hs _]. unfold iostat_list in Hs.
    cbn [lay_ok] in Hlay.
    destruct extra as [|e1 [|e2 [|e3 [|e4 er]]]]; try discriminate Hlay;
      unfold iostat_list;
      cbn [app length Nat.eqb Nat.leb orb idx nth_error of_option obind slice Nat.sub skipn firstn];
      rw_ints Hs; reflexivity.
  - (* 15 fields: Linux 2.4 *)
    cbn [forallb] in Hf. apply andb_true_iff in Hf as [Hb Hs].
    pose proof (forallb_firstn _ 10 _ Hs) as H10. unfold iostat_list in H10. cbn [firstn] in H10.
    unfold iostat_list.
    cbn [app length Nat.eqb Nat.leb orb idx nth_error of_option obind slice Nat.sub skipn firstn].
    rewrite (py_int_str_dec _ Hb). cbn [obind].
    rw_ints H10. reflexivity.
  - (* 7 fields: 2.6 partition *)
    cbn [app length Nat.eqb Nat.leb orb idx nth_error of_option obind slice Nat.sub skipn firstn].
    rw_ints Hf. reflexivity.
Qed.

Lemma mapM_disk_lines l :
  forallb wf_disk l = true ->
  mapM disk_line (map (fun d => line_with d (dec (d_name d))) l) = Val (map raw_entry l).
Proof.
  induction l as [|d l IH]; intros H; [reflexivity|].
  cbn [forallb] in H. apply andb_true_iff in H as [Hd Hl].
  cbn [map mapM]. rewrite (disk_line_printed d Hd). cbn [obind]. now rewrite (IH Hl).
Qed.

(* ------------------------------------------------ the loop over entries *)
Definition keep (perdisk : bool) (sb : text -> bool) (d : kdisk) : bool := perdisk || listed sb d.
Definition disk_kv (d : kdisk) : text * list Z := (dec (d_name d), tup_disk (model_view d)).

Lemma e_name_raw d : e_name (raw_entry d) = dec (d_name d).
Proof. unfold raw_entry. destruct (d_lay d); reflexivity. Qed.

Lemma stored_raw d :
  [e_reads (raw_entry d); e_writes (raw_entry d); e_rbytes (raw_entry d) * DISK_SECTOR_SIZE;
   e_wbytes (raw_entry d) * DISK_SECTOR_SIZE; e_rtime (raw_entry d); e_wtime (raw_entry d);
   e_rmerged (raw_entry d); e_wmerged (raw_entry d); e_busy (raw_entry d)]
  = tup_disk (model_view d).
Proof. unfold raw_entry, model_view, spec_disk. destruct (d_lay d); reflexivity. Qed.

Lemma disk_fold perdisk sb l : forall acc,
  fold_left (disk_store perdisk sb) (map raw_entry l) acc
  = fold_left (fun d kv => dset (fst kv) (snd kv) d) (map disk_kv (filter (keep perdisk sb) l)) acc.
Proof.
  induction l as [|d l IH]; intros acc; [reflexivity|].
  cbn [map fold_left filter]. unfold disk_store at 2. rewrite e_name_raw, stored_raw. unfold keep at 1.
  change (is_storage_device sb (dec (d_name d))) with (listed sb d).
  destruct perdisk; cbn [negb andb orb].
  - cbn [map fold_left disk_kv fst snd]. apply IH.
  - destruct (listed sb d); cbn [negb].
    + cbn [map fold_left disk_kv fst snd]. apply IH.
    + apply IH.
Qed.

Lemma col_sums_disk l : l <> [] -> col_sums (map tup_disk l) = tup_disk (disk_sum l).
Proof.
  induction l as [|x l IH]; intros H; [congruence|].
  destruct l as [|y l'].
  - cbn [map col_sums disk_sum fold_right]. unfold tup_disk, disk_add, disk_zero.
    cbn [read_count write_count read_bytes write_bytes read_time write_time
         read_merged_count write_merged_count busy_time].
    now rewrite !Z.add_0_r.
  - change (col_sums (map tup_disk (x :: y :: l')))
      with (zip_add (tup_disk x) (col_sums (map tup_disk (y :: l')))).
    rewrite IH by discriminate. reflexivity.
Qed.

Lemma front_disk_answer (view : kdisk -> diskstat) (whole : kdisk -> bool) (perdisk : bool) (l ws : list kdisk) :
  ws = (if perdisk then l else filter whole l) ->
  front sdiskio_fields perdisk (map (fun d => (dec (d_name d), tup_disk (view d))) ws)
  = Val (disks_answer view whole perdisk l).
Proof.
  intros ->. unfold disks_answer. destruct perdisk.
  - apply (front_per sdiskio_fields (fun d => dec (d_name d)) (fun d => tup_disk (view d))
                     (fun d => nt_disk (view d))).
    reflexivity.
  - destruct (filter whole l) as [|w ws]; [reflexivity|].
    apply (front_total sdiskio_fields (fun d => dec (d_name d)) (fun d => tup_disk (view d))); [discriminate|].
    rewrite <- (map_map view tup_disk). rewrite col_sums_disk by discriminate. reflexivity.
Qed.

(* the loop and the front end, for any list of kernel devices whose entries were read *)
Lemma loop_answer perdisk sb l :
  NoDup (map (fun d => dec (d_name d)) l) ->
  front sdiskio_fields perdisk (fold_left (disk_store perdisk sb) (map raw_entry l) [])
  = Val (disks_answer model_view (listed sb) perdisk l).
Proof.
  intros Hnd. rewrite disk_fold.
  rewrite fold_dset_nodup; [|rewrite map_map; cbn [disk_kv fst]; now apply NoDup_map_filter|intros k _ []].
  cbn [app]. unfold disk_kv. apply front_disk_answer.
  destruct perdisk.
  - apply filter_true. reflexivity.
  - apply filter_ext_in'. reflexivity.
Qed.

(* the model, exactly, on every layout (the 2.4 layout through its shifted reading), for every
   /sys/block content *)
Theorem disk_model_exact sb l perdisk :
  wf_disks l = true ->
  disk_io_counters perdisk sb (ProcDiskstats (k_diskstats l))
  = Val (disks_answer model_view (listed sb) perdisk l).
Proof.
  unfold wf_disks. intros H. apply andb_true_iff in H as [Hwf Hnd].
  unfold disk_io_counters, disk_raw.
  rewrite (lines_diskstats l Hwf), (mapM_disk_lines l Hwf). cbn [obind].
  apply loop_answer. now apply nodupb_NoDup.
Qed.

Lemma answer_ext v1 v2 whole perdisk l :
  (forall d, In d l -> v1 d = v2 d) -> disks_answer v1 whole perdisk l = disks_answer v2 whole perdisk l.
Proof.
  intros H. unfold disks_answer. destruct perdisk.
  - f_equal. apply map_ext_in. intros d Hd. now rewrite (H d Hd).
  - assert (E : map v1 (filter whole l) = map v2 (filter whole l)).
    { apply map_ext_in. intros d Hd. apply filter_In in Hd as [Hd _]. now apply H. }
    destruct (filter whole l) as [|w ws]; [reflexivity|]. now rewrite E.
Qed.

Theorem disk_exact sb l perdisk :
  wf_disks l = true -> no_l24 l = true ->
  disk_io_counters perdisk sb (ProcDiskstats (k_diskstats l)) = Val (spec_disks sb perdisk l).
Proof.
  intros Hwf H24. rewrite (disk_model_exact sb l perdisk Hwf). f_equal.
  unfold spec_disks. apply answer_ext. intros d Hd.
  unfold no_l24 in H24. rewrite forallb_forall in H24. specialize (H24 d Hd).
  unfold model_view, is_l24 in *. destruct (d_lay d); [reflexivity|discriminate|reflexivity].
Qed.

(* when the kernel's whole-disk flag and the /sys/block listing agree, "listed" is "whole disk" *)
Lemma listed_whole sb l : sysblock_agrees sb l = true -> filter (listed sb) l = filter d_whole l.
Proof.
  intros H. apply filter_ext_in'. intros d Hd. unfold sysblock_agrees in H.
  rewrite forallb_forall in H. apply Bool.eqb_prop. exact (H d Hd).
Qed.

(* ------------------------------------------------ no double counting *)
Lemma linear_sum f l : linear f -> f (disk_sum l) = zsum (map f l).
Proof.
  intros [H0 Hadd]. induction l as [|x l IH]; [exact H0|].
  cbn [disk_sum fold_right map zsum]. fold (disk_sum l). fold (zsum (map f l)). now rewrite Hadd, IH.
Qed.

Lemma zsum_map_add {A} (f g : A -> Z) l : zsum (map (fun x => f x + g x) l) = zsum (map f l) + zsum (map g l).
Proof.
  induction l as [|x l IH]; [reflexivity|]. cbn [map zsum fold_right] in *.
  fold (zsum (map (fun x => f x + g x) l)). fold (zsum (map f l)). fold (zsum (map g l)). lia.
Qed.

Lemma zsum_map_ext {A} (f g : A -> Z) l : (forall x, In x l -> f x = g x) -> zsum (map f l) = zsum (map g l).
Proof. intros H. f_equal. now apply map_ext_in. Qed.

Lemma zsum_swap {A B} (h : A -> B -> Z) (ws : list A) (ps : list B) :
  zsum (map (fun w => zsum (map (h w) ps)) ws) = zsum (map (fun p => zsum (map (fun w => h w p) ws)) ps).
Proof.
  induction ws as [|w ws IH].
  - cbn [map zsum fold_right]. induction ps as [|p ps IHp]; [reflexivity|].
    cbn [map zsum fold_right]. fold (zsum (map (fun _ : B => 0) ps)) in *.
    change (zsum (map (fun p0 : B => zsum (map (fun w : A => h w p0) [])) ps)) with (zsum (map (fun _ : B => 0) ps)).
    lia.
  - cbn [map zsum fold_right]. fold (zsum (map (fun w0 => zsum (map (h w0) ps)) ws)). rewrite IH.
    rewrite <- zsum_map_add. apply zsum_map_ext. intros p _. reflexivity.
Qed.

Lemma zsum_filter {A} (q : A -> bool) (f : A -> Z) l :
  zsum (map f (filter q l)) = zsum (map (fun x => if q x then f x else 0) l).
Proof.
  induction l as [|x l IH]; [reflexivity|]. cbn [filter map zsum fold_right].
  destruct (q x); cbn [map zsum fold_right]; fold (zsum (map f (filter q l))) in *;
    fold (zsum (map (fun x0 => if q x0 then f x0 else 0) l)); lia.
Qed.

(* exactly one whole disk of the table carries a given name *)
Lemma zsum_pick (ws : list kdisk) (key : bytes) (v : Z) (w0 : kdisk) :
  NoDup (map d_name ws) -> In w0 ws -> d_name w0 = key ->
  zsum (map (fun w => if beqb key (d_name w) then v else 0) ws) = v.
Proof.
  induction ws as [|w ws IH]; intros Hnd Hin Hk; [destruct Hin|].
  cbn [map] in Hnd. inversion Hnd as [|x xs Hnin Hnd']; subst.
  cbn [map zsum fold_right]. fold (zsum (map (fun w1 => if beqb (d_name w0) (d_name w1) then v else 0) ws)).
  destruct Hin as [->|Hin].
  - rewrite beqb_refl.
    assert (zsum (map (fun w1 => if beqb (d_name w0) (d_name w1) then v else 0) ws) = 0) as ->; [|lia].
    clear IH Hnd Hnd'. induction ws as [|w1 ws IHw]; [reflexivity|].
    cbn [map zsum fold_right].
    fold (zsum (map (fun w2 => if beqb (d_name w0) (d_name w2) then v else 0) ws)).
    destruct (beqb (d_name w0) (d_name w1)) eqn:E.
    + apply beqb_eq in E. exfalso. apply Hnin. rewrite E. now left.
    + rewrite IHw; [reflexivity|]. intros Hn. apply Hnin. now right.
  - destruct (beqb (d_name w0) (d_name w)) eqn:E.
    + apply beqb_eq in E. exfalso. apply Hnin. rewrite <- E. apply in_map_iff. eauto.
    + rewrite (IH Hnd' Hin eq_refl). lia.
Qed.

(* Σ over the /sys/block entries of the table = Σ of what was submitted to every device node:
   nothing is counted twice, nothing is left out *)
Theorem no_double_count_sum sb own parent fld l :
  kernel_shaped sb own parent fld l ->
  zsum (map fld (filter (listed sb) l)) = zsum (map own l).
Proof.
  intros (Hnd & Hpart & Hwhole).
  set (W := filter (listed sb) l).
  assert (HndW : NoDup (map d_name W)) by (unfold W; now apply NoDup_map_filter).
  (* whole disks: own + shares of the partitions *)
  rewrite (zsum_map_ext fld (fun w => own w + zsum (map (part_share sb own parent w) l)) W).
  2:{ intros w Hw. unfold W in Hw. apply filter_In in Hw as [Hin Hl]. now apply Hwhole. }
  rewrite zsum_map_add, zsum_swap.
  (* each partition's share is taken by exactly one whole disk *)
  rewrite (zsum_map_ext (fun p => zsum (map (fun w => part_share sb own parent w p) W))
                        (fun p => if listed sb p then 0 else own p) l).
  2:{ intros p Hp. unfold part_share. destruct (listed sb p) eqn:Lp; cbn [negb andb].
      - clear. induction W as [|w W IH]; [reflexivity|]. cbn [map zsum fold_right].
        fold (zsum (map (fun _ : kdisk => 0) W)). rewrite IH. reflexivity.
      - destruct (Hpart p Hp Lp) as [_ [w0 [Hin0 [Hl0 Hn0]]]].
        apply (zsum_pick W (parent p) (own p) w0 HndW); [|exact Hn0].
        unfold W. apply filter_In. auto. }
  unfold W. rewrite zsum_filter, <- zsum_map_add. apply zsum_map_ext.
  intros d _. destruct (listed sb d); lia.
Qed.

Theorem no_double_count sb own parent f l :
  linear f -> kernel_shaped sb own parent (fun d => f (spec_disk d)) l ->
  f (disk_sum (map spec_disk (filter (listed sb) l))) = zsum (map own l).
Proof.
  intros Hlin Hk. rewrite (linear_sum f _ Hlin), map_map.
  exact (no_double_count_sum sb own parent (fun d => f (spec_disk d)) l Hk).
Qed.

Lemma linear_read_bytes : linear read_bytes.
Proof. split; reflexivity. Qed.
Lemma linear_write_bytes : linear write_bytes.
Proof. split; reflexivity. Qed.
Lemma linear_read_count : linear read_count.
Proof. split; reflexivity. Qed.

(* ------------------------------------------------ the 2.4 layout: kernel documentation example *)
Definition hda_24 : kdisk :=
  {| d_major := bs "3"; d_minor := bs "0"; d_name := bs "hda"; d_whole := true;
     d_lay := L24 (bs "39082680")
                  (Build_iostat (bs "446216") (bs "784926") (bs "9550688") (bs "4382310") (bs "424847")
                                (bs "312726") (bs "5922052") (bs "19310380") (bs "0") (bs "3376340")
                                (bs "23705160")) |}.

Theorem disk_l24_refuted :
  exists sb l,
    wf_disks l = true /\ sysblock_agrees sb l = true /\
    k_diskstats l =
      bs "   3     0   39082680 hda 446216 784926 9550688 4382310 424847 312726 5922052 19310380 0 3376340 23705160"
      ++ [10] /\
    spec_disks sb true l
    = RDict [(bs "hda", nt_disk (Build_diskstat 446216 424847 (9550688 * 512) (5922052 * 512)
                                                4382310 19310380 784926 312726 3376340))] /\
    disk_io_counters true sb (ProcDiskstats (k_diskstats l))
    = Val (RDict [(bs "hda", nt_disk (Build_diskstat 39082680 4382310 (784926 * 512) (312726 * 512)
                                                     9550688 5922052 446216 424847 0))]).
Proof.
  exists (sysblock_of [hda_24]), [hda_24]. repeat split; vm_compute; reflexivity.
Qed.

(* the hypotheses of [disk_exact] are satisfiable: a disk with two partitions, a 7-field line,
   a name with several '/', a virtual device, 18- and 20-field lines; partitions are not counted twice *)
Example disk_example :
  let io (a : string) := Build_iostat (bs a) (bs "2") (bs "3") (bs "4") (bs "5") (bs "6") (bs "7") (bs "8") (bs "9") (bs "10") (bs "11") in
  let l := [ Build_kdisk (bs "8") (bs "0") (bs "sda") true (LFull (io "100"%string) []);
             Build_kdisk (bs "8") (bs "1") (bs "sda1") false (LFull (io "60"%string) []);
             Build_kdisk (bs "8") (bs "2") (bs "sda2") false (LPart (bs "40") (bs "1") (bs "1") (bs "1"));
             Build_kdisk (bs "104") (bs "0") (bs "rd/c0/d0") true
                         (LFull (io "18446744073709551615"%string) [bs "1"; bs "2"; bs "3"; bs "4"]);
             Build_kdisk (bs "7") (bs "0") (bs "loop0") true
                         (LFull (io "1"%string) [bs "1"; bs "2"; bs "3"; bs "4"; bs "5"; bs "6"]) ] in
  wf_disks l = true /\ no_l24 l = true /\ sysblock_agrees (sysblock_of l) l = true /\
  sysblock_of l (bs "rd!c0!d0") = true /\
  disk_io_counters false (sysblock_of l) (ProcDiskstats (k_diskstats l))
  = Val (RTuple (nt_disk (Build_diskstat 18446744073709551716 15 (9 * 512) (21 * 512) 12 24 6 18 30))).
Proof. vm_compute. auto 10. Qed.

(* kernel_shaped is satisfiable: sda (own 7) with partitions sda1 (own 60) and sda2 (own 40) *)
Example kernel_shaped_example :
  let io (a : string) := Build_iostat (bs "0") (bs "0") (bs a) (bs "0") (bs "0") (bs "0") (bs "0") (bs "0") (bs "0") (bs "0") (bs "0") in
  let sda := Build_kdisk (bs "8") (bs "0") (bs "sda") true (LFull (io "107"%string) []) in
  let sda1 := Build_kdisk (bs "8") (bs "1") (bs "sda1") false (LFull (io "60"%string) []) in
  let sda2 := Build_kdisk (bs "8") (bs "2") (bs "sda2") false (LFull (io "40"%string) []) in
  let l := [sda; sda1; sda2] in
  let own d := (if beqb (d_name d) (bs "sda") then 7 else if beqb (d_name d) (bs "sda1") then 60 else 40) * 512 in
  kernel_shaped (sysblock_of l) own (fun _ => bs "sda") (fun d => read_bytes (spec_disk d)) l.
Proof.
  cbv zeta. split; [|split].
  - cbn [map d_name]. repeat constructor; cbn [In]; intros H; repeat destruct H as [H|H]; try discriminate; auto.
  - intros p [<-|[<-|[<-|[]]]]; vm_compute; intros H; try discriminate; split; try reflexivity;
      eexists; (split; [left; reflexivity|split; reflexivity]).
  - intros w [<-|[<-|[<-|[]]]]; vm_compute; intros H; try discriminate; reflexivity.
Qed.
