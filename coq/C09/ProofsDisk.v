(* C09 -- /proc/diskstats: per-device exactness for every layout, totals over whole disks only *)
From PV Require Import C09.Spec C09.Lib.

Definition tup_disk (s : diskstat) : list Z :=
  [read_count s; write_count s; read_bytes s; write_bytes s; read_time s; write_time s;
   read_merged_count s; write_merged_count s; busy_time s].

(* ------------------------------------------------ shape of a printed line *)
Definition items_of (d : kdisk) : list (nat * bytes) :=
  match d_lay d with
  | LFull s extra => cols [(7, d_minor d)]%nat ++ zero_w (d_name d :: iostat_list s ++ extra)
  | L24 blocks s => cols [(4, d_minor d); (10, blocks)]%nat ++ zero_w (d_name d :: iostat_list s)
  | LPart a b c e => cols [(7, d_minor d)]%nat ++ zero_w [d_name d; a; b; c; e]
  end.
Definition lead (d : kdisk) : bytes := match d_lay d with L24 _ _ => [32] | _ => [] end.
Definition toks (d : kdisk) : list bytes :=
  d_minor d ::
  match d_lay d with
  | LFull s extra => d_name d :: iostat_list s ++ extra
  | L24 blocks s => blocks :: d_name d :: iostat_list s
  | LPart a b c e => [d_name d; a; b; c; e]
  end.

Lemma disk_line_shape d :
  k_disk_line d = (pad 4 (d_major d) ++ lead d ++ sp_items (items_of d)) ++ [10].
Proof.
  unfold k_disk_line, items_of, lead. destruct (d_lay d); rewrite <- !app_assoc; reflexivity.
Qed.

Lemma toks_items d : map snd (items_of d) = toks d.
Proof.
  unfold items_of, toks. destruct (d_lay d); rewrite map_app, map_snd_cols, map_snd_zero_w; reflexivity.
Qed.

Lemma dec_name_ok t : is_dec t = true -> name_ok t = true.
Proof.
  intros H. destruct t as [|c t]; [discriminate|]. unfold name_ok.
  exact (forallb_imp _ _ _ digit_graph H).
Qed.

Lemma wf_disk_inv d :
  wf_disk d = true ->
  is_dec (d_major d) = true /\ is_dec (d_minor d) = true /\ name_ok (d_name d) = true
  /\ forallb is_dec (lay_fields (d_lay d)) = true /\ lay_ok (d_lay d) = true.
Proof.
  unfold wf_disk. intros H.
  apply andb_true_iff in H as [H H5]. apply andb_true_iff in H as [H H4].
  apply andb_true_iff in H as [H H3]. apply andb_true_iff in H as [H1 H2]. auto.
Qed.

Lemma toks_ok d : wf_disk d = true -> forallb name_ok (toks d) = true.
Proof.
  intros H. destruct (wf_disk_inv d H) as (_ & Hmi & Hn & Hf & _).
  pose proof (forallb_imp _ _ _ dec_name_ok Hf) as Hf'.
  unfold toks. cbn [forallb]. rewrite (dec_name_ok _ Hmi). cbn [andb].
  destruct (d_lay d) as [s extra|blocks s|a b c e]; cbn [lay_fields forallb] in Hf' |- *.
  - now rewrite Hn.
  - apply andb_true_iff in Hf' as [Hb Hs]. now rewrite Hb, Hn.
  - now rewrite Hn.
Qed.

Lemma lead_ws d X :
  starts_ws X = true -> starts_ws (lead d ++ X) = true /\ split_ws (lead d ++ X) = split_ws X.
Proof. intros H. unfold lead. destruct (d_lay d); cbn [app]; auto. Qed.

Lemma split_disk_line d : wf_disk d = true -> split_ws (k_disk_line d) = d_major d :: toks d.
Proof.
  intros H. destruct (wf_disk_inv d H) as (Hma & _).
  pose proof (toks_ok d H) as Ht.
  rewrite disk_line_shape. unfold pad. rewrite <- !app_assoc. rewrite split_ws_repeat.
  assert (S1 : starts_ws (sp_items (items_of d) ++ [10]) = true) by (now apply starts_ws_sp_items).
  destruct (lead_ws d _ S1) as [S2 E2].
  rewrite split_ws_tok_app; [|now apply is_dec_tok_ok|exact S2].
  rewrite E2. rewrite split_ws_sp_items; [|rewrite toks_items|reflexivity].
  - rewrite toks_items. change (split_ws [10]) with (@nil bytes). now rewrite app_nil_r.
  - exact (forallb_imp _ _ _ name_tok_ok Ht).
Qed.

Lemma disk_body_all P d :
  P 32 = true -> (forall c, is_graph c = true -> P c = true) -> wf_disk d = true ->
  forallb P (pad 4 (d_major d) ++ lead d ++ sp_items (items_of d)) = true.
Proof.
  intros H32 Hg H. destruct (wf_disk_inv d H) as (Hma & _).
  pose proof (toks_ok d H) as Ht.
  assert (G : forall t, name_ok t = true -> forallb P t = true).
  { intros t Hn. apply name_ok_inv in Hn as [_ Hn]. exact (forallb_imp _ _ _ Hg Hn). }
  rewrite !forallb_app. rewrite forallb_pad; [|exact H32|apply G; now apply dec_name_ok].
  assert (forallb P (lead d) = true) as -> by (unfold lead; destruct (d_lay d); cbn [forallb]; now rewrite ?H32).
  rewrite forallb_sp_items; [reflexivity|exact H32|]. rewrite toks_items.
  exact (forallb_imp _ _ _ G Ht).
Qed.

Lemma lines_diskstats l :
  forallb wf_disk l = true -> lines_keep (k_diskstats l) = map k_disk_line l.
Proof.
  intros Hwf. unfold k_diskstats. apply lines_keep_concat.
  intros x Hin. apply in_map_iff in Hin as [d [<- Hd]].
  assert (Hw : wf_disk d = true) by (rewrite forallb_forall in Hwf; now apply Hwf).
  rewrite disk_line_shape. eexists. split; [reflexivity|].
  apply contains_false_forallb. apply disk_body_all; auto.
  intros c Hc. unfold is_graph in Hc. lia.
Qed.

Lemma forallb_concat {A} (P : A -> bool) ls :
  (forall l, In l ls -> forallb P l = true) -> forallb P (concat ls) = true.
Proof.
  induction ls as [|l ls IH]; intros H; [reflexivity|]. cbn [concat]. rewrite forallb_app.
  rewrite (H l (or_introl eq_refl)). apply IH. intros x Hx. apply H. now right.
Qed.

Lemma ascii_diskstats l : forallb wf_disk l = true -> ascii_ok (k_diskstats l) = true.
Proof.
  intros Hwf. unfold k_diskstats, ascii_ok. apply forallb_concat.
  intros x Hin. apply in_map_iff in Hin as [d [<- Hd]].
  assert (Hw : wf_disk d = true) by (rewrite forallb_forall in Hwf; now apply Hwf).
  rewrite disk_line_shape, forallb_app. rewrite disk_body_all; auto.
  intros c Hc. unfold is_graph in Hc. unfold ascii_ok_byte. lia.
Qed.

(* ------------------------------------------------ what the code reads from one line *)
Definition raw_entry (d : kdisk) : dentry :=
  match d_lay d with
  | LFull s _ =>
    {| e_name := d_name d; e_reads := dec_val (rd_ios s); e_writes := dec_val (wr_ios s);
       e_rbytes := dec_val (rd_sectors s); e_wbytes := dec_val (wr_sectors s);
       e_rtime := dec_val (rd_ticks s); e_wtime := dec_val (wr_ticks s);
       e_rmerged := dec_val (rd_merges s); e_wmerged := dec_val (wr_merges s);
       e_busy := dec_val (io_ticks s) |}
  | L24 blocks s =>
    {| e_name := d_name d; e_reads := dec_val blocks; e_writes := dec_val (rd_ticks s);
       e_rbytes := dec_val (rd_merges s); e_wbytes := dec_val (wr_merges s);
       e_rtime := dec_val (rd_sectors s); e_wtime := dec_val (wr_sectors s);
       e_rmerged := dec_val (rd_ios s); e_wmerged := dec_val (wr_ios s);
       e_busy := dec_val (in_flight s) |}
  | LPart a b c e =>
    {| e_name := d_name d; e_reads := dec_val a; e_writes := dec_val c;
       e_rbytes := dec_val b; e_wbytes := dec_val e;
       e_rtime := 0; e_wtime := 0; e_rmerged := 0; e_wmerged := 0; e_busy := 0 |}
  end.

Lemma py_int_dec t : is_dec t = true -> py_int t = Val (dec_val t).
Proof. intros H. unfold py_int. now rewrite (parse_int_dec _ H). Qed.

Lemma forallb_firstn {A} (P : A -> bool) n l : forallb P l = true -> forallb P (firstn n l) = true.
Proof.
  revert l. induction n as [|n IH]; intros l H; [reflexivity|]. destruct l as [|x l]; [reflexivity|].
  cbn [forallb] in H. apply andb_true_iff in H as [H1 H2]. cbn [firstn forallb]. now rewrite H1, IH.
Qed.

Lemma disk_line_printed d : wf_disk d = true -> disk_line (k_disk_line d) = Val (raw_entry d).
Proof.
  intros H. unfold disk_line. rewrite (split_disk_line d H). cbv zeta.
  destruct (wf_disk_inv d H) as (_ & _ & _ & Hf & Hlay).
  unfold toks, raw_entry. destruct (d_lay d) as [s extra|blocks s|a b c e]; cbn [lay_fields] in Hf.
  - (* 14 fields, or 18 and more *)
    rewrite forallb_app in Hf. apply andb_true_iff in Hf as [Hs _]. unfold iostat_list in Hs.
    cbn [lay_ok] in Hlay.
    destruct extra as [|e1 [|e2 [|e3 [|e4 er]]]]; try discriminate Hlay;
      unfold iostat_list;
      cbn [app length Nat.eqb Nat.leb orb idx nth_error of_option obind slice Nat.sub skipn firstn];
      rewrite (mapM_py_int_dec _ Hs); reflexivity.
  - (* 15 fields: Linux 2.4 *)
    cbn [forallb] in Hf. apply andb_true_iff in Hf as [Hb Hs].
    pose proof (forallb_firstn _ 10 _ Hs) as H10. unfold iostat_list in H10. cbn [firstn] in H10.
    unfold iostat_list.
    cbn [app length Nat.eqb Nat.leb orb idx nth_error of_option obind slice Nat.sub skipn firstn].
    rewrite (py_int_dec _ Hb). cbn [obind].
    rewrite (mapM_py_int_dec _ H10). reflexivity.
  - (* 7 fields: 2.6 partition *)
    cbn [app length Nat.eqb Nat.leb orb idx nth_error of_option obind slice Nat.sub skipn firstn].
    rewrite (mapM_py_int_dec _ Hf). reflexivity.
Qed.

Lemma mapM_disk_lines l :
  forallb wf_disk l = true -> mapM disk_line (map k_disk_line l) = Val (map raw_entry l).
Proof.
  induction l as [|d l IH]; intros H; [reflexivity|].
  cbn [forallb] in H. apply andb_true_iff in H as [Hd Hl].
  cbn [map mapM]. rewrite (disk_line_printed d Hd). cbn [obind]. now rewrite (IH Hl).
Qed.

(* ------------------------------------------------ the loop over entries *)
Definition keep (perdisk : bool) (sb : bytes -> bool) (d : kdisk) : bool :=
  perdisk || is_storage_device sb (d_name d).
Definition disk_kv (d : kdisk) : bytes * list Z := (d_name d, tup_disk (model_view d)).

Lemma e_name_raw d : e_name (raw_entry d) = d_name d.
Proof. unfold raw_entry. destruct (d_lay d); reflexivity. Qed.

Lemma stored_raw d :
  [e_reads (raw_entry d); e_writes (raw_entry d); e_rbytes (raw_entry d) * DISK_SECTOR_SIZE;
   e_wbytes (raw_entry d) * DISK_SECTOR_SIZE; e_rtime (raw_entry d); e_wtime (raw_entry d);
   e_rmerged (raw_entry d); e_wmerged (raw_entry d); e_busy (raw_entry d)]
  = tup_disk (model_view d).
Proof. unfold raw_entry, model_view, spec_disk. destruct (d_lay d); reflexivity. Qed.

Lemma disk_fold perdisk sb l : forall acc,
  fold_left (disk_store perdisk sb) (map raw_entry l) acc
  = fold_left (fun d kv => dset (fst kv) (snd kv) d) (map disk_kv (filter (keep perdisk sb) l)) acc.
Proof.
  induction l as [|d l IH]; intros acc; [reflexivity|].
  cbn [map fold_left filter]. unfold disk_store at 2. rewrite e_name_raw, stored_raw. unfold keep at 1.
  destruct perdisk; cbn [negb andb orb].
  - cbn [map fold_left disk_kv fst snd]. apply IH.
  - destruct (is_storage_device sb (d_name d)); cbn [negb].
    + cbn [map fold_left disk_kv fst snd]. apply IH.
    + apply IH.
Qed.

Lemma disk_raw_printed perdisk sb l :
  wf_disks l = true ->
  disk_raw perdisk sb (ProcDiskstats (k_diskstats l)) = Val (map disk_kv (filter (keep perdisk sb) l)).
Proof.
  unfold wf_disks. intros H. apply andb_true_iff in H as [Hwf Hnd].
  unfold disk_raw. rewrite (ascii_diskstats l Hwf), (lines_diskstats l Hwf), (mapM_disk_lines l Hwf).
  cbn [obind]. f_equal. rewrite disk_fold.
  rewrite fold_dset_nodup; [reflexivity| |intros k _ []].
  rewrite map_map. cbn [disk_kv fst]. apply NoDup_map_filter. now apply nodupb_NoDup.
Qed.

Lemma col_sums_disk l : l <> [] -> col_sums (map tup_disk l) = tup_disk (disk_sum l).
Proof.
  induction l as [|x l IH]; intros H; [congruence|].
  destruct l as [|y l'].
  - cbn [map col_sums disk_sum fold_right]. unfold tup_disk, disk_add, disk_zero.
    cbn [read_count write_count read_bytes write_bytes read_time write_time
         read_merged_count write_merged_count busy_time].
    now rewrite !Z.add_0_r.
  - change (col_sums (map tup_disk (x :: y :: l')))
      with (zip_add (tup_disk x) (col_sums (map tup_disk (y :: l')))).
    rewrite IH by discriminate. reflexivity.
Qed.

Lemma filter_ext_in' {A} (f g : A -> bool) l : (forall a, In a l -> f a = g a) -> filter f l = filter g l.
Proof.
  induction l as [|a l IH]; intros H; [reflexivity|]. cbn [filter].
  rewrite (H a (or_introl eq_refl)), IH; [reflexivity|]. intros x Hx. apply H. now right.
Qed.

Lemma front_disk_answer (view : kdisk -> diskstat) (perdisk : bool) (l ws : list kdisk) :
  ws = (if perdisk then l else filter d_whole l) ->
  front sdiskio_fields perdisk (map (fun d => (d_name d, tup_disk (view d))) ws)
  = Val (disks_answer view perdisk l).
Proof.
  intros ->. unfold disks_answer. destruct perdisk.
  - apply (front_per sdiskio_fields d_name (fun d => tup_disk (view d)) (fun d => nt_disk (view d))).
    reflexivity.
  - destruct (filter d_whole l) as [|w ws]; [reflexivity|].
    apply (front_total sdiskio_fields d_name (fun d => tup_disk (view d))); [discriminate|].
    rewrite <- (map_map view tup_disk). rewrite col_sums_disk by discriminate. reflexivity.
Qed.

(* the model, exactly, on every layout (the 2.4 layout through its shifted reading) *)
Theorem disk_model_exact sb l perdisk :
  wf_disks l = true -> perdisk = true \/ sysblock_agrees sb l = true ->
  disk_io_counters perdisk sb (ProcDiskstats (k_diskstats l)) = Val (disks_answer model_view perdisk l).
Proof.
  intros Hwf Hsb. unfold disk_io_counters. rewrite (disk_raw_printed perdisk sb l Hwf). cbn [obind].
  unfold disk_kv. apply front_disk_answer.
  destruct perdisk.
  - apply filter_true. reflexivity.
  - destruct Hsb as [Hsb|Hsb]; [discriminate|].
    apply filter_ext_in'. intros d Hd. unfold keep, is_storage_device. cbn [orb].
    unfold sysblock_agrees in Hsb. rewrite forallb_forall in Hsb.
    apply Bool.eqb_prop. exact (Hsb d Hd).
Qed.

Lemma answer_ext v1 v2 perdisk l :
  (forall d, In d l -> v1 d = v2 d) -> disks_answer v1 perdisk l = disks_answer v2 perdisk l.
Proof.
  intros H. unfold disks_answer. destruct perdisk.
  - f_equal. apply map_ext_in. intros d Hd. now rewrite (H d Hd).
  - assert (E : map v1 (filter d_whole l) = map v2 (filter d_whole l)).
    { apply map_ext_in. intros d Hd. apply filter_In in Hd as [Hd _]. now apply H. }
    destruct (filter d_whole l) as [|w ws]; [reflexivity|]. now rewrite E.
Qed.

Theorem disk_exact sb l perdisk :
  wf_disks l = true -> no_l24 l = true -> perdisk = true \/ sysblock_agrees sb l = true ->
  disk_io_counters perdisk sb (ProcDiskstats (k_diskstats l)) = Val (spec_disks perdisk l).
Proof.
  intros Hwf H24 Hsb. rewrite (disk_model_exact sb l perdisk Hwf Hsb). f_equal.
  unfold spec_disks. apply answer_ext. intros d Hd.
  unfold no_l24 in H24. rewrite forallb_forall in H24. specialize (H24 d Hd).
  unfold model_view, is_l24 in *. destruct (d_lay d); [reflexivity|discriminate|reflexivity].
Qed.

(* ------------------------------------------------ the 2.4 layout: kernel documentation example *)
Definition hda_24 : kdisk :=
  {| d_major := bs "3"; d_minor := bs "0"; d_name := bs "hda"; d_whole := true;
     d_lay := L24 (bs "39082680")
                  (Build_iostat (bs "446216") (bs "784926") (bs "9550688") (bs "4382310") (bs "424847")
                                (bs "312726") (bs "5922052") (bs "19310380") (bs "0") (bs "3376340")
                                (bs "23705160")) |}.

Theorem disk_l24_refuted :
  exists sb l,
    wf_disks l = true /\ sysblock_agrees sb l = true /\
    k_diskstats l =
      bs "   3     0   39082680 hda 446216 784926 9550688 4382310 424847 312726 5922052 19310380 0 3376340 23705160"
      ++ [10] /\
    spec_disks true l
    = RDict [(bs "hda", nt_disk (Build_diskstat 446216 424847 (9550688 * 512) (5922052 * 512)
                                                4382310 19310380 784926 312726 3376340))] /\
    disk_io_counters true sb (ProcDiskstats (k_diskstats l))
    = Val (RDict [(bs "hda", nt_disk (Build_diskstat 39082680 4382310 (784926 * 512) (312726 * 512)
                                                     9550688 5922052 446216 424847 0))]).
Proof.
  exists (sysblock_of [hda_24]), [hda_24]. repeat split; vm_compute; reflexivity.
Qed.

(* the hypotheses of [disk_exact] are satisfiable: a disk with two partitions, a 7-field line,
   a name with '/', an 18- and a 20-field line; the partitions are not counted twice *)
Example disk_example :
  let io (a : string) := Build_iostat (bs a) (bs "2") (bs "3") (bs "4") (bs "5") (bs "6") (bs "7") (bs "8") (bs "9") (bs "10") (bs "11") in
  let l := [ Build_kdisk (bs "8") (bs "0") (bs "sda") true (LFull (io "100"%string) []);
             Build_kdisk (bs "8") (bs "1") (bs "sda1") false (LFull (io "60"%string) []);
             Build_kdisk (bs "8") (bs "2") (bs "sda2") false (LPart (bs "40") (bs "1") (bs "1") (bs "1"));
             Build_kdisk (bs "104") (bs "0") (bs "cciss/c0d0") true
                         (LFull (io "18446744073709551615"%string) [bs "1"; bs "2"; bs "3"; bs "4"]);
             Build_kdisk (bs "259") (bs "0") (bs "nvme0n1") true
                         (LFull (io "1"%string) [bs "1"; bs "2"; bs "3"; bs "4"; bs "5"; bs "6"]) ] in
  wf_disks l = true /\ no_l24 l = true /\ sysblock_agrees (sysblock_of l) l = true /\
  disk_io_counters false (sysblock_of l) (ProcDiskstats (k_diskstats l))
  = Val (RTuple (nt_disk (Build_diskstat 18446744073709551716 15 (9 * 512) (21 * 512) 12 24 6 18 30))).
Proof. vm_compute. auto. Qed.
