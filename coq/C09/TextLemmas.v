(* C09 -- lemmas about the text-mode vocabulary of Text.v *)
From PV Require Import C09.Text.

(* ------------------------------------------------ split / strip, any whitespace class *)
Section WS.
  Variable ws : Z -> bool.
  Notation gsplit := (gsplit ws).
  Notation glstrip := (glstrip ws).
  Notation grstrip := (grstrip ws).
  Notation gstrip := (gstrip ws).
  Notation gno_ws := (gno_ws ws).
  Notation gtok_ok := (gtok_ok ws).

  Lemma gsplit_leading s rest : ws s = true -> gsplit (s :: rest) = gsplit rest.
  Proof. intros H. cbn [Text.gsplit]. now rewrite H. Qed.

  Lemma gsplit_cons2 a d r :
    ws a = false ->
    gsplit (a :: d :: r) =
    if ws d then [a] :: gsplit (d :: r)
    else match gsplit (d :: r) with t :: ts => (a :: t) :: ts | [] => [[a]] end.
  Proof. intros H. remember (d :: r) as w eqn:Hw. cbn [Text.gsplit]. rewrite H. subst w. reflexivity. Qed.

  Lemma gtok_ok_spec t : gtok_ok t = true <-> t <> [] /\ gno_ws t = true.
  Proof. destruct t; cbn [Text.gtok_ok]; split; intros; try tauto; try congruence; split; auto; congruence. Qed.

  Lemma gno_ws_app a b : gno_ws (a ++ b) = gno_ws a && gno_ws b.
  Proof. unfold Text.gno_ws. apply forallb_app. Qed.

  Lemma gsplit_token_sep t s rest :
    t <> [] -> gno_ws t = true -> ws s = true ->
    gsplit (t ++ s :: rest) = t :: gsplit rest.
  Proof.
    induction t as [|c t IH]; intros Hne Hnw Hs; [congruence|].
    cbn [Text.gno_ws forallb] in Hnw. apply andb_true_iff in Hnw as [Hc Ht].
    apply negb_true_iff in Hc.
    destruct t as [|d t'].
    - cbn [app]. rewrite gsplit_cons2 by exact Hc. rewrite Hs. now rewrite gsplit_leading.
    - assert (Hd : ws d = false).
      { cbn [forallb] in Ht. apply andb_true_iff in Ht as [Hd _]. now apply negb_true_iff in Hd. }
      change ((c :: d :: t') ++ s :: rest) with (c :: d :: (t' ++ s :: rest)).
      rewrite gsplit_cons2 by exact Hc. rewrite Hd.
      change (d :: t' ++ s :: rest) with ((d :: t') ++ s :: rest).
      rewrite IH; [reflexivity|congruence|exact Ht|exact Hs].
  Qed.

  Lemma gsplit_snoc_ws x c : ws c = true -> gsplit (x ++ [c]) = gsplit x.
  Proof.
    intros Hc. induction x as [|a x IH].
    - cbn [app Text.gsplit]. now rewrite Hc.
    - change ((a :: x) ++ [c]) with (a :: (x ++ [c])).
      destruct (ws a) eqn:Ha.
      + rewrite !gsplit_leading by exact Ha. exact IH.
      + destruct x as [|d x'].
        * cbn [app]. rewrite gsplit_cons2 by exact Ha. rewrite Hc.
          rewrite gsplit_leading by exact Hc. cbn [Text.gsplit]. now rewrite Ha.
        * change ((d :: x') ++ [c]) with (d :: (x' ++ [c])).
          rewrite !gsplit_cons2 by exact Ha.
          change (d :: (x' ++ [c])) with ((d :: x') ++ [c]). now rewrite IH.
  Qed.

  Lemma gsplit_lstrip l : gsplit (glstrip l) = gsplit l.
  Proof.
    induction l as [|a l IH]; [reflexivity|]. cbn [Text.glstrip].
    destruct (ws a) eqn:Ha; [|reflexivity]. now rewrite gsplit_leading.
  Qed.

  Lemma grstrip_snoc x c : grstrip (x ++ [c]) = if ws c then grstrip x else x ++ [c].
  Proof.
    unfold Text.grstrip. rewrite rev_app_distr. cbn [rev app Text.glstrip].
    destruct (ws c); [reflexivity|].
    change (c :: rev x) with ([c] ++ rev x). rewrite rev_app_distr, rev_involutive. reflexivity.
  Qed.

  Lemma gsplit_rstrip l : gsplit (grstrip l) = gsplit l.
  Proof.
    induction l as [|c x IH] using rev_ind; [reflexivity|].
    rewrite grstrip_snoc. destruct (ws c) eqn:Hc; [|reflexivity].
    now rewrite IH, gsplit_snoc_ws.
  Qed.

  Lemma gsplit_strip l : gsplit (gstrip l) = gsplit l.
  Proof. unfold Text.gstrip. now rewrite gsplit_rstrip, gsplit_lstrip. Qed.

  Definition gstarts (l : text) : bool := match l with s :: _ => ws s | [] => false end.

  Lemma gsplit_tok_app t l :
    gtok_ok t = true -> gstarts l = true -> gsplit (t ++ l) = t :: gsplit l.
  Proof.
    intros Ht Hl. destruct l as [|s rest]; [discriminate|]. cbn [gstarts] in Hl.
    apply gtok_ok_spec in Ht as [Hne Hnw].
    rewrite gsplit_token_sep by assumption. now rewrite gsplit_leading.
  Qed.

  Lemma gsplit_repeat s n l : ws s = true -> gsplit (repeat s n ++ l) = gsplit l.
  Proof. intros H. induction n as [|n IH]; [reflexivity|]. cbn [repeat app]. now rewrite gsplit_leading. Qed.

  Lemma glstrip_repeat s n t : ws s = true -> glstrip (repeat s n ++ t) = glstrip t.
  Proof. intros H. induction n as [|n IH]; [reflexivity|]. cbn [repeat app Text.glstrip]. now rewrite H. Qed.

  (* strip() of blanks followed by something whose first and last characters are not blank *)
  Lemma gstrip_pad s n t : ws s = true -> gends_ok ws t = true -> gstrip (repeat s n ++ t) = t.
  Proof.
    intros Hs H. unfold Text.gstrip. rewrite glstrip_repeat by exact Hs.
    destruct t as [|c t']; [discriminate|]. cbn [Text.gends_ok] in H.
    apply andb_true_iff in H as [Hc Hl]. apply negb_true_iff in Hc. apply negb_true_iff in Hl.
    cbn [Text.glstrip]. rewrite Hc.
    assert (Hne : c :: t' <> []) by discriminate.
    destruct (exists_last Hne) as [x [z E]]. rewrite E in *. rewrite last_last in Hl.
    rewrite grstrip_snoc, Hl. reflexivity.
  Qed.

  Lemma gtok_ends t : gtok_ok t = true -> gends_ok ws t = true.
  Proof.
    intros H. apply gtok_ok_spec in H as [Hne Hnw]. destruct t as [|c t']; [congruence|].
    cbn [Text.gends_ok].
    destruct (exists_last Hne) as [x [z E]]. rewrite E in *. rewrite last_last.
    rewrite gno_ws_app in Hnw. apply andb_true_iff in Hnw as [Hx Hz].
    cbn [Text.gno_ws forallb] in Hz. rewrite andb_true_r in Hz. rewrite Hz.
    destruct x as [|x0 x']; cbn [app] in E; inversion E; subst.
    - now rewrite Hz.
    - cbn [Text.gno_ws forallb] in Hx. apply andb_true_iff in Hx as [Hx0 _]. now rewrite Hx0.
  Qed.
End WS.

(* ------------------------------------------------ the decoder *)
Lemma dec_eq b0 r0 :
  dec (b0 :: r0) =
  if b0 <? 128 then b0 :: dec r0
  else match r0 with
       | [] => esc b0 :: dec r0
       | b1 :: r1 =>
         if ok2 b0 b1 then cp2 b0 b1 :: dec r1
         else match r1 with
              | [] => esc b0 :: dec r0
              | b2 :: r2 =>
                if ok3 b0 b1 b2 then cp3 b0 b1 b2 :: dec r2
                else match r2 with
                     | [] => esc b0 :: dec r0
                     | b3 :: r3 =>
                       if ok4 b0 b1 b2 b3 then cp4 b0 b1 b2 b3 :: dec r3 else esc b0 :: dec r0
                     end
              end
       end.
Proof. reflexivity. Qed.

Lemma dec_ascii_cons c y : c < 128 -> dec (c :: y) = c :: dec y.
Proof. intros H. rewrite dec_eq. assert (c <? 128 = true) as -> by lia. reflexivity. Qed.

Lemma dec_ascii_app a y : forallb is_ascii a = true -> dec (a ++ y) = a ++ dec y.
Proof.
  induction a as [|c a IH]; intros H; [reflexivity|]. cbn [forallb] in H.
  apply andb_true_iff in H as [Hc Ha]. cbn [app]. rewrite dec_ascii_cons by (unfold is_ascii in Hc; lia).
  now rewrite IH.
Qed.

Lemma dec_ascii a : forallb is_ascii a = true -> dec a = a.
Proof. intros H. rewrite <- (app_nil_r a) at 1. rewrite dec_ascii_app by exact H. apply app_nil_r. Qed.

Lemma ok2_a b0 c : c < 128 -> ok2 b0 c = false.
Proof. unfold ok2, cont. lia. Qed.
Lemma ok3_a1 b0 c b2 : c < 128 -> ok3 b0 c b2 = false.
Proof. unfold ok3, cont. lia. Qed.
Lemma ok3_a2 b0 b1 c : c < 128 -> ok3 b0 b1 c = false.
Proof. unfold ok3, cont. lia. Qed.
Lemma ok4_a1 b0 c b2 b3 : c < 128 -> ok4 b0 c b2 b3 = false.
Proof. unfold ok4, cont. lia. Qed.
Lemma ok4_a2 b0 b1 c b3 : c < 128 -> ok4 b0 b1 c b3 = false.
Proof. unfold ok4, cont. lia. Qed.
Lemma ok4_a3 b0 b1 b2 c : c < 128 -> ok4 b0 b1 b2 c = false.
Proof. unfold ok4, cont. lia. Qed.

(* an ASCII byte is a synchronisation point: what precedes it is decoded on its own *)
Lemma dec_app_ascii_n c y : c < 128 ->
  forall n x, (length x <= n)%nat -> dec (x ++ c :: y) = dec x ++ c :: dec y.
Proof.
  intros Hc. induction n as [|n IH]; intros x Hx.
  - destruct x; [|cbn [length] in Hx; lia]. cbn [app]. now rewrite dec_ascii_cons.
  - destruct x as [|b0 r0]; [cbn [app]; now rewrite dec_ascii_cons|].
    cbn [length] in Hx.
    assert (IH' : forall t, (length t <= length r0)%nat -> dec (t ++ c :: y) = dec t ++ c :: dec y)
      by (intros t Ht; apply IH; lia).
    change ((b0 :: r0) ++ c :: y) with (b0 :: (r0 ++ c :: y)).
    rewrite (dec_eq b0 (r0 ++ c :: y)), (dec_eq b0 r0).
    destruct (b0 <? 128); [rewrite IH' by lia; reflexivity|].
    destruct r0 as [|b1 r1].
    + (* x = [b0] *)
      cbn [app]. rewrite (ok2_a b0 c Hc).
      assert (E : dec (c :: y) = c :: dec y) by (now apply dec_ascii_cons).
      destruct y as [|b2 [|b3 r3]]; rewrite ?ok3_a1, ?ok4_a1 by exact Hc; rewrite E; reflexivity.
    + cbn [app]. destruct (ok2 b0 b1).
      { rewrite IH' by (cbn [length]; lia). reflexivity. }
      assert (E0 : dec (b1 :: r1 ++ c :: y) = dec (b1 :: r1) ++ c :: dec y)
        by (exact (IH' (b1 :: r1) (le_n _))).
      destruct r1 as [|b2 r2].
      * (* x = [b0; b1] *)
        cbn [app] in *. rewrite (ok3_a2 b0 b1 c Hc).
        destruct y as [|b3 r3]; rewrite ?ok4_a2 by exact Hc; rewrite E0; reflexivity.
      * cbn [app] in *. destruct (ok3 b0 b1 b2).
        { rewrite IH' by (cbn [length]; lia). reflexivity. }
        destruct r2 as [|b3 r3].
        -- (* x = [b0; b1; b2] *)
           cbn [app] in *. rewrite (ok4_a3 b0 b1 b2 c Hc). rewrite E0. reflexivity.
        -- cbn [app] in *. destruct (ok4 b0 b1 b2 b3).
           { rewrite IH' by (cbn [length]; lia). reflexivity. }
           rewrite E0. reflexivity.
Qed.

Lemma dec_app_ascii x c y : c < 128 -> dec (x ++ c :: y) = dec x ++ c :: dec y.
Proof. intros Hc. exact (dec_app_ascii_n c y Hc (length x) x (le_n _)). Qed.

(* ------------------------------------------------ universal newlines *)
Lemma univ_nl_id l : contains 13 l = false -> univ_nl l = l.
Proof.
  induction l as [|c l IH]; intros H; [reflexivity|].
  rewrite contains_cons in H. apply orb_false_iff in H as [Hc Hl].
  cbn [univ_nl]. rewrite Z.eqb_sym, Hc. now rewrite IH.
Qed.

(* ------------------------------------------------ int() on digit tokens *)
Lemma digit_ascii c : is_digit c = true -> is_ascii c = true.
Proof. unfold is_digit, is_ascii. lia. Qed.

Lemma py_int_str_dec t : is_dec t = true -> py_int_str t = Val (dec_val t).
Proof.
  intros H. unfold py_int_str.
  assert (forallb is_ascii t = true) as ->.
  { destruct t as [|c t]; [discriminate|]. cbn [is_dec] in H. unfold all_digits in H.
    revert H. generalize (c :: t). intros l. induction l as [|x l IH]; [reflexivity|].
    cbn [forallb]. intros H. apply andb_true_iff in H as [H1 H2]. now rewrite (digit_ascii _ H1), IH. }
  unfold py_int. now rewrite (parse_int_dec _ H).
Qed.

Lemma mapM_py_int_str_dec l : forallb is_dec l = true -> mapM py_int_str l = Val (map dec_val l).
Proof.
  induction l as [|t l IH]; [reflexivity|]. cbn [forallb]. intros H.
  apply andb_true_iff in H as [Ht Hl]. cbn [mapM map]. rewrite (py_int_str_dec _ Ht). cbn [obind].
  now rewrite (IH Hl).
Qed.

(* ------------------------------------------------ ASCII characters of a decoded name *)
(* a code point below 128 in the decoded text is that very byte of the input: multi-byte sequences
   and escaped bytes only yield code points >= 128 *)
Lemma dec_contains_n c : 0 <= c < 128 ->
  forall k n, (length n <= k)%nat -> contains c (dec n) = contains c n.
Proof.
  intros Hc. induction k as [|k IH]; intros n Hn.
  - destruct n; [reflexivity|cbn [length] in Hn; lia].
  - destruct n as [|b0 r0]; [reflexivity|]. cbn [length] in Hn.
    assert (IH' : forall t, (length t <= length r0)%nat -> contains c (dec t) = contains c t)
      by (intros t Ht; apply IH; lia).
    rewrite dec_eq. destruct (b0 <? 128) eqn:E0.
    { rewrite !contains_cons, IH' by lia. reflexivity. }
    assert (Hb0 : (c =? b0) = false) by lia.
    assert (Esc : contains c (esc b0 :: dec r0) = contains c (b0 :: r0)).
    { rewrite !contains_cons, IH' by lia. rewrite Hb0. unfold esc. assert (c =? 56320 + b0 = false) as -> by lia.
      reflexivity. }
    destruct r0 as [|b1 r1]; [exact Esc|].
    destruct (ok2 b0 b1) eqn:E2.
    { rewrite !contains_cons, IH' by (cbn [length]; lia). rewrite Hb0.
      unfold ok2, cont, cp2 in *.
      assert (c =? (b0 - 192) * 64 + (b1 - 128) = false) as -> by lia.
      assert (c =? b1 = false) as -> by lia. reflexivity. }
    destruct r1 as [|b2 r2]; [exact Esc|].
    destruct (ok3 b0 b1 b2) eqn:E3.
    { rewrite !contains_cons, IH' by (cbn [length]; lia). rewrite Hb0.
      unfold ok3, cont, cp3 in *.
      assert (c =? (b0 - 224) * 4096 + (b1 - 128) * 64 + (b2 - 128) = false) as -> by lia.
      assert (c =? b1 = false) as -> by lia. assert (c =? b2 = false) as -> by lia. reflexivity. }
    destruct r2 as [|b3 r3]; [exact Esc|].
    destruct (ok4 b0 b1 b2 b3) eqn:E4; [|exact Esc].
    rewrite !contains_cons, IH' by (cbn [length]; lia). rewrite Hb0.
    unfold ok4, cont, cp4 in *.
    assert (c =? (b0 - 240) * 262144 + (b1 - 128) * 4096 + (b2 - 128) * 64 + (b3 - 128) = false) as -> by lia.
    assert (c =? b1 = false) as -> by lia. assert (c =? b2 = false) as -> by lia.
    assert (c =? b3 = false) as -> by lia. reflexivity.
Qed.

Lemma dec_contains c n : 0 <= c < 128 -> contains c (dec n) = contains c n.
Proof. intros Hc. exact (dec_contains_n c Hc (length n) n (le_n _)). Qed.

Lemma dec_nonempty n : n <> [] -> dec n <> [].
Proof.
  destruct n as [|b0 r0]; [congruence|]. intros _. rewrite dec_eq.
  destruct (b0 <? 128); [discriminate|].
  destruct r0 as [|b1 r1]; [discriminate|]. destruct (ok2 b0 b1); [discriminate|].
  destruct r1 as [|b2 r2]; [discriminate|]. destruct (ok3 b0 b1 b2); [discriminate|].
  destruct r2 as [|b3 r3]; [discriminate|]. destruct (ok4 b0 b1 b2 b3); discriminate.
Qed.

Lemma gno_ws_sp t : contains 32 t = false -> gno_ws is_sp t = true.
Proof.
  induction t as [|c t IH]; [reflexivity|]. rewrite contains_cons. intros H.
  apply orb_false_iff in H as [Hc Ht]. cbn [gno_ws forallb]. unfold is_sp at 1.
  rewrite Z.eqb_sym, Hc. cbn [negb andb]. now apply IH.
Qed.
