(* C09 -- the /sys/block fallback of disk_io_counters (no /proc/diskstats) *)
From PV Require Import C09.Spec C09.Lib C09.ProofsDisk.

(* the loop and the front end, for any list of kernel devices whose entries were read *)
Lemma loop_answer perdisk sb l :
  NoDup (map d_name l) -> perdisk = true \/ sysblock_agrees sb l = true ->
  front sdiskio_fields perdisk (fold_left (disk_store perdisk sb) (map raw_entry l) [])
  = Val (disks_answer model_view perdisk l).
Proof.
  intros Hnd Hsb. rewrite disk_fold.
  rewrite fold_dset_nodup; [|rewrite map_map; cbn [disk_kv fst]; now apply NoDup_map_filter|intros k _ []].
  cbn [app]. unfold disk_kv. apply front_disk_answer.
  destruct perdisk.
  - apply filter_true. reflexivity.
  - destruct Hsb as [Hsb|Hsb]; [discriminate|].
    apply filter_ext_in'. intros d Hd. unfold keep, is_storage_device. cbn [orb].
    unfold sysblock_agrees in Hsb. rewrite forallb_forall in Hsb.
    apply Bool.eqb_prop. exact (Hsb d Hd).
Qed.

Definition to_kdisk (e : ksys) : kdisk :=
  {| d_major := [48]; d_minor := [48]; d_name := y_name e; d_whole := y_whole e;
     d_lay := LFull (y_stat e) (y_extra e) |}.

Definition sys_rest (e : ksys) : list (nat * bytes) :=
  cols (map (fun f => (8%nat, f)) (tl (iostat_list (y_stat e)) ++ y_extra e)).

Lemma sys_stat_shape e :
  k_sys_stat e = repeat 32 (8 - length (rd_ios (y_stat e))) ++ rd_ios (y_stat e) ++ sp_items (sys_rest e) ++ [10].
Proof. reflexivity. Qed.

Lemma sys_rest_toks e : map snd (sys_rest e) = tl (iostat_list (y_stat e)) ++ y_extra e.
Proof. unfold sys_rest. rewrite map_snd_cols, map_map. cbn [snd]. apply map_id. Qed.

Lemma wf_sys_inv e :
  wf_sys e = true ->
  name_ok (y_name e) = true /\ contains 47 (y_name e) = false /\ is_dec (rd_ios (y_stat e)) = true
  /\ forallb is_dec (tl (iostat_list (y_stat e)) ++ y_extra e) = true
  /\ forallb is_dec (iostat_list (y_stat e)) = true.
Proof.
  unfold wf_sys. intros H. apply andb_true_iff in H as [H H3]. apply andb_true_iff in H as [H1 H2].
  apply negb_true_iff in H2. repeat split; try assumption.
  - unfold iostat_list in H3. cbn [app forallb] in H3. now apply andb_true_iff in H3 as [H3 _].
  - unfold iostat_list in H3. cbn [app forallb] in H3. apply andb_true_iff in H3 as [_ H3]. exact H3.
  - rewrite forallb_app in H3. now apply andb_true_iff in H3 as [H3 _].
Qed.

Lemma split_sys_stat e :
  wf_sys e = true -> split_ws (k_sys_stat e) = iostat_list (y_stat e) ++ y_extra e.
Proof.
  intros H. destruct (wf_sys_inv e H) as (_ & _ & H1 & Hr & _).
  rewrite sys_stat_shape, split_ws_repeat.
  rewrite split_ws_tok_app; [|now apply is_dec_tok_ok|now apply starts_ws_sp_items].
  rewrite split_ws_sp_items; [|rewrite sys_rest_toks; now apply decs_tok_ok|reflexivity].
  rewrite sys_rest_toks. change (split_ws [10]) with (@nil bytes). rewrite app_nil_r. reflexivity.
Qed.

Lemma ascii_sys_stat e : wf_sys e = true -> ascii_ok (k_sys_stat e) = true.
Proof.
  intros H. destruct (wf_sys_inv e H) as (_ & _ & H1 & Hr & _).
  assert (D : forall c, is_digit c = true -> ascii_ok_byte c = true)
    by (intros c Hc; unfold is_digit in Hc; unfold ascii_ok_byte; lia).
  rewrite sys_stat_shape. unfold ascii_ok. rewrite !forallb_app.
  rewrite forallb_repeat by reflexivity. rewrite (dec_all _ _ D H1).
  rewrite forallb_sp_items; [reflexivity|reflexivity|]. rewrite sys_rest_toks. now apply decs_all.
Qed.

Lemma sysfs_entry_printed e :
  wf_sys e = true -> sysfs_entry (y_name e, k_sys_stat e) = Val (raw_entry (to_kdisk e)).
Proof.
  intros H. destruct (wf_sys_inv e H) as (_ & _ & _ & _ & Hs).
  unfold sysfs_entry. rewrite (ascii_sys_stat e H). cbv zeta.
  rewrite split_ws_strip, (split_sys_stat e H).
  pose proof (forallb_firstn _ 10 _ Hs) as H10. unfold iostat_list in H10. cbn [firstn] in H10.
  unfold iostat_list. cbn [app firstn]. rewrite (mapM_py_int_dec _ H10). reflexivity.
Qed.

Lemma mapM_sysfs l :
  forallb wf_sys l = true ->
  mapM sysfs_entry (map (fun e => (y_name e, k_sys_stat e)) l) = Val (map raw_entry (map to_kdisk l)).
Proof.
  induction l as [|e l IH]; intros H; [reflexivity|].
  cbn [forallb] in H. apply andb_true_iff in H as [He Hl].
  cbn [map mapM]. rewrite (sysfs_entry_printed e He). cbn [obind]. now rewrite (IH Hl).
Qed.

Lemma sysfs_name_noslash n : contains 47 n = false -> sysfs_name n = n.
Proof.
  induction n as [|c n IH]; intros H; [reflexivity|].
  rewrite contains_cons in H. apply orb_false_iff in H as [Hc Hn].
  cbn [sysfs_name map]. rewrite Z.eqb_sym, Hc. f_equal. now apply IH.
Qed.

Lemma filter_map_comm {A B} (f : A -> B) (p : B -> bool) l :
  filter p (map f l) = map f (filter (fun a => p (f a)) l).
Proof.
  induction l as [|a l IH]; [reflexivity|]. cbn [map filter]. destruct (p (f a)); cbn [map]; now rewrite IH.
Qed.

Lemma spec_sys_answer perdisk l : disks_answer model_view perdisk (map to_kdisk l) = spec_sys perdisk l.
Proof.
  unfold disks_answer, spec_sys. destruct perdisk.
  - rewrite map_map. reflexivity.
  - rewrite filter_map_comm. cbn [to_kdisk d_whole].
    change (fun a : ksys => y_whole a) with y_whole.
    destruct (filter y_whole l) as [|w ws]; [reflexivity|].
    cbn [map]. rewrite map_map. reflexivity.
Qed.

Theorem sys_exact sb l perdisk :
  wf_syss l = true -> perdisk = true \/ sys_agrees sb l = true ->
  disk_io_counters perdisk sb (SysBlock (map (fun e => (y_name e, k_sys_stat e)) l))
  = Val (spec_sys perdisk l).
Proof.
  unfold wf_syss. intros H Hsb. apply andb_true_iff in H as [Hwf Hnd].
  unfold disk_io_counters, disk_raw. rewrite (mapM_sysfs l Hwf). cbn [obind].
  rewrite loop_answer.
  - now rewrite spec_sys_answer.
  - rewrite map_map. cbn [to_kdisk d_name]. now apply nodupb_NoDup.
  - destruct Hsb as [Hsb|Hsb]; [now left|right].
    unfold sysblock_agrees. rewrite forallb_forall. intros d Hd.
    apply in_map_iff in Hd as [e [<- He]]. cbn [to_kdisk d_name d_whole].
    assert (Hw : wf_sys e = true) by (rewrite forallb_forall in Hwf; now apply Hwf).
    destruct (wf_sys_inv e Hw) as (_ & Hns & _).
    rewrite (sysfs_name_noslash _ Hns).
    unfold sys_agrees in Hsb. rewrite forallb_forall in Hsb. exact (Hsb e He).
Qed.

Theorem no_source sb perdisk : disk_io_counters perdisk sb NoSource = Exc NotImplementedError.
Proof. reflexivity. Qed.

Example sys_example :
  let io (a : string) := Build_iostat (bs a) (bs "2") (bs "3") (bs "4") (bs "5") (bs "6") (bs "7") (bs "8") (bs "9") (bs "10") (bs "11") in
  let l := [ Build_ksys (bs "sda") (io "100"%string) [] true;
             Build_ksys (bs "sda1") (io "60"%string) [] false;
             Build_ksys (bs "cciss!c0d0") (io "1"%string) [bs "1"; bs "2"; bs "3"; bs "4"] true ] in
  let sb := fun n => existsb (beqb n) [bs "sda"; bs "cciss!c0d0"] in
  wf_syss l = true /\ sys_agrees sb l = true /\
  disk_io_counters false sb (SysBlock (map (fun e => (y_name e, k_sys_stat e)) l))
  = Val (RTuple (nt_disk (Build_diskstat 101 10 (6 * 512) (14 * 512) 8 16 4 12 20))).
Proof. vm_compute. auto. Qed.
