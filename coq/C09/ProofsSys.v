(* C09 -- the /sys/block fallback of disk_io_counters (no /proc/diskstats) *)
From PV Require Import C09.Spec C09.TextLemmas C09.Lib C09.ProofsDisk.

Definition to_kdisk (e : ksys) : kdisk :=
  {| d_major := [48]; d_minor := [48]; d_name := y_name e; d_whole := y_whole e;
     d_lay := LFull (y_stat e) (y_extra e) |}.

Definition sys_rest (e : ksys) : list (nat * bytes) :=
  cols (map (fun f => (8%nat, f)) (tl (iostat_list (y_stat e)) ++ y_extra e)).

Lemma sys_stat_shape e :
  k_sys_stat e = repeat 32 (8 - length (rd_ios (y_stat e))) ++ rd_ios (y_stat e) ++ sp_items (sys_rest e) ++ [10].
Proof. reflexivity. Qed.

Lemma sys_rest_toks e : map snd (sys_rest e) = tl (iostat_list (y_stat e)) ++ y_extra e.
Proof. unfold sys_rest. rewrite map_snd_cols, map_map. cbn [snd]. apply map_id. Qed.

Lemma wf_sys_inv e :
  wf_sys e = true ->
  contains 47 (dec (y_name e)) = false /\ is_dec (rd_ios (y_stat e)) = true
  /\ forallb is_dec (tl (iostat_list (y_stat e)) ++ y_extra e) = true
  /\ forallb is_dec (iostat_list (y_stat e)) = true.
Proof.
  unfold wf_sys. intros H. apply andb_true_iff in H as [H2 H3].
  apply negb_true_iff in H2. repeat split; try assumption.
  - unfold iostat_list in H3. cbn [app forallb] in H3. now apply andb_true_iff in H3 as [H3 _].
  - unfold iostat_list in H3. cbn [app forallb] in H3. apply andb_true_iff in H3 as [_ H3]. exact H3.
  - rewrite forallb_app in H3. now apply andb_true_iff in H3 as [H3 _].
Qed.

Lemma sys_stat_all P e :
  P 32 = true -> P 10 = true -> (forall c, is_digit c = true -> P c = true) -> wf_sys e = true ->
  forallb P (k_sys_stat e) = true.
Proof.
  intros H32 H10 D H. destruct (wf_sys_inv e H) as (_ & H1 & Hr & _).
  rewrite sys_stat_shape. rewrite !forallb_app.
  rewrite forallb_repeat by exact H32. rewrite (dec_all _ _ D H1).
  rewrite forallb_sp_items; [cbn [forallb]; now rewrite H10|exact H32|].
  rewrite sys_rest_toks. now apply decs_all.
Qed.

Lemma text_sys_stat e : wf_sys e = true -> text_of (k_sys_stat e) = k_sys_stat e.
Proof.
  intros H. unfold text_of.
  rewrite dec_ascii by (apply sys_stat_all; [reflexivity|reflexivity|exact digit_ascii|exact H]).
  apply univ_nl_id. apply contains_false_forallb.
  apply sys_stat_all; [reflexivity|reflexivity| |exact H].
  intros c Hc. unfold is_digit in Hc. lia.
Qed.

Lemma split_sys_stat e :
  wf_sys e = true -> usplit (k_sys_stat e) = iostat_list (y_stat e) ++ y_extra e.
Proof.
  intros H. destruct (wf_sys_inv e H) as (_ & H1 & Hr & _).
  rewrite sys_stat_shape, usplit_repeat.
  rewrite usplit_tok_app; [|now apply is_dec_utok|now apply ustarts_sp_items].
  etransitivity; [apply f_equal; apply usplit_sp_items;
                  [rewrite sys_rest_toks; now apply decs_utok|reflexivity]|].
  rewrite sys_rest_toks. change (usplit [10]) with (@nil text). rewrite app_nil_r. reflexivity.
Qed.

Lemma sysfs_entry_printed e :
  wf_sys e = true -> sysfs_entry (y_name e, k_sys_stat e) = Val (raw_entry (to_kdisk e)).
Proof.
  intros H. destruct (wf_sys_inv e H) as (_ & _ & _ & Hs).
  unfold sysfs_entry. cbv zeta. rewrite (text_sys_stat e H).
  rewrite usplit_strip, (split_sys_stat e H).
  pose proof (forallb_firstn _ 10 _ Hs) as H10. unfold iostat_list in H10. cbn [firstn] in H10.
  unfold iostat_list. cbn [app firstn]. rw_ints H10. reflexivity.
Qed.

Lemma mapM_sysfs l :
  forallb wf_sys l = true ->
  mapM sysfs_entry (map (fun e => (y_name e, k_sys_stat e)) l) = Val (map raw_entry (map to_kdisk l)).
Proof.
  induction l as [|e l IH]; intros H; [reflexivity|].
  cbn [forallb] in H. apply andb_true_iff in H as [He Hl].
  cbn [map mapM]. rewrite (sysfs_entry_printed e He). cbn [obind]. now rewrite (IH Hl).
Qed.

Lemma sysfs_name_noslash n : contains 47 n = false -> sysfs_name n = n.
Proof.
  induction n as [|c n IH]; intros H; [reflexivity|].
  rewrite contains_cons in H. apply orb_false_iff in H as [Hc Hn].
  cbn [sysfs_name map]. rewrite Z.eqb_sym, Hc. f_equal. now apply IH.
Qed.

Lemma filter_map_comm {A B} (f : A -> B) (p : B -> bool) l :
  filter p (map f l) = map f (filter (fun a => p (f a)) l).
Proof.
  induction l as [|a l IH]; [reflexivity|]. cbn [map filter]. destruct (p (f a)); cbn [map]; now rewrite IH.
Qed.

Lemma spec_sys_answer sb perdisk l :
  forallb wf_sys l = true -> perdisk = true \/ sys_agrees sb l = true ->
  disks_answer model_view (listed sb) perdisk (map to_kdisk l) = spec_sys perdisk l.
Proof.
  intros Hwf Hsb. unfold disks_answer, spec_sys. destruct perdisk.
  - rewrite map_map. reflexivity.
  - destruct Hsb as [Hsb|Hsb]; [discriminate|].
    rewrite filter_map_comm.
    assert (E : filter (fun a => listed sb (to_kdisk a)) l = filter y_whole l).
    { apply filter_ext_in'. intros e He. unfold listed. cbn [to_kdisk d_name].
      rewrite forallb_forall in Hwf. destruct (wf_sys_inv e (Hwf e He)) as (Hns & _).
      rewrite (sysfs_name_noslash _ Hns).
      unfold sys_agrees in Hsb. rewrite forallb_forall in Hsb.
      apply Bool.eqb_prop. exact (Hsb e He). }
    rewrite E. destruct (filter y_whole l) as [|w ws]; [reflexivity|].
    cbn [map]. rewrite map_map. reflexivity.
Qed.

Theorem sys_exact sb l perdisk :
  wf_syss l = true -> perdisk = true \/ sys_agrees sb l = true ->
  disk_io_counters perdisk sb (SysBlock (map (fun e => (y_name e, k_sys_stat e)) l))
  = Val (spec_sys perdisk l).
Proof.
  unfold wf_syss. intros H Hsb. apply andb_true_iff in H as [Hwf Hnd].
  unfold disk_io_counters, disk_raw. rewrite (mapM_sysfs l Hwf). cbn [obind].
  rewrite loop_answer.
  - now rewrite spec_sys_answer.
  - rewrite map_map. cbn [to_kdisk d_name]. now apply nodupb_NoDup.
Qed.

Theorem no_source sb perdisk : disk_io_counters perdisk sb NoSource = Exc NotImplementedError.
Proof. reflexivity. Qed.

Example sys_example :
  let io (a : string) := Build_iostat (bs a) (bs "2") (bs "3") (bs "4") (bs "5") (bs "6") (bs "7") (bs "8") (bs "9") (bs "10") (bs "11") in
  let l := [ Build_ksys (bs "sda") (io "100"%string) [] true;
             Build_ksys (bs "sda1") (io "60"%string) [] false;
             Build_ksys (bs "cciss!c0d0") (io "1"%string) [bs "1"; bs "2"; bs "3"; bs "4"] true ] in
  let sb := fun n => existsb (beqb n) [bs "sda"; bs "cciss!c0d0"] in
  wf_syss l = true /\ sys_agrees sb l = true /\
  disk_io_counters false sb (SysBlock (map (fun e => (y_name e, k_sys_stat e)) l))
  = Val (RTuple (nt_disk (Build_diskstat 101 10 (6 * 512) (14 * 512) 8 16 4 12 20))).
Proof. vm_compute. auto. Qed.
