(* C13 -- several Process handles of one pid over time: oneshot() blocks, copy.copy(),
   copy.deepcopy(), fresh Process(pid) objects, kernel-state changes, memory accessors.

   Transcribes (psutil/__init__.py, psutil/_common.py, psutil/_pslinux.py):
   * Process.oneshot(): "if hasattr(self, '_cache'): yield" (nested entry = no-op) else
     memory_info.cache_activate(self) (front-level dict self._cache = {}) and
     self._proc.oneshot_enter() (_read_smaps_file.cache_activate: platform-level dict);
     the finally clause of the OUTERMOST block deletes both dicts;
   * memoize_when_activated: no dict -> call through; dict without the entry -> call and store;
     dict with the entry -> the stored value;
   * Process.__copy__: a new front object with the same attributes minus "_cache"; the platform
     object self._proc is SHARED with the original;
   * copy.deepcopy(Process): TypeError (the object holds a threading.RLock), nothing is created;
   * memory_info() is memoized at the front level; memory_full_info() / memory_maps() go to the
     platform object, which memoizes the CONTENT of /proc/<pid>/smaps (_read_smaps_file) and
     reads statm / smaps_rollup anew on every call.
   No proofs here. *)
From PV Require Export C13.Spec.

Inductive hquery := QInfo | QAcc (a : nat).

Section Handles.
  Variables (K F V : Type).
  Variable read_file : K -> F.            (* the content _read_smaps_file reads now *)
  Variable info : K -> V.                 (* memory_info() computed now *)
  Variable ans : nat -> K -> F -> V.      (* accessor a from the kernel state now and the smaps content used *)
  Variable uses : nat -> K -> bool.       (* does accessor a consult _read_smaps_file in this state *)

  Inductive cop :=
  | OEnter (h : nat)       (* with handle h .oneshot(): *)
  | OExit (h : nat)        (* ... the block of handle h ends *)
  | OCopy (h : nat)        (* copy.copy(handle h): next free handle number *)
  | ODeep (h : nat)        (* copy.deepcopy(handle h): TypeError, no handle *)
  | ONew                   (* psutil.Process(pid): next free handle number, own platform object *)
  | OSetK (k : K)          (* the kernel's records change *)
  | OCall (h : nat) (q : hquery).

  (* front object: _cache (None = no attribute; Some None = dict without the memory_info entry),
     depth of open oneshot() blocks, number of the platform object it refers to *)
  Record handle := { fc : option (option V); dp : nat; pr : nat }.
  Record hstate := { nh : nat; hdl : nat -> handle; pc : nat -> option (option F); ker : K }.

  Definition hupd {A} (f : nat -> A) (i : nat) (v : A) : nat -> A := fun j => if Nat.eqb j i then v else f j.

  Definition hinit (k : K) : hstate :=
    {| nh := 1; hdl := fun _ => {| fc := None; dp := 0; pr := 0 |}; pc := fun _ => None; ker := k |}.

  (* the value returned and the state afterwards *)
  Definition hcall (s : hstate) (h : nat) (q : hquery) : V * hstate :=
    let x := hdl s h in
    match q with
    | QInfo =>
      match fc x with
      | Some (Some v) => (v, s)
      | Some None =>
        let v := info (ker s) in
        (v, {| nh := nh s; hdl := hupd (hdl s) h {| fc := Some (Some v); dp := dp x; pr := pr x |}; pc := pc s; ker := ker s |})
      | None => (info (ker s), s)
      end
    | QAcc a =>
      if uses a (ker s) then
        match pc s (pr x) with
        | Some (Some f) => (ans a (ker s) f, s)
        | Some None =>
          let f := read_file (ker s) in
          (ans a (ker s) f, {| nh := nh s; hdl := hdl s; pc := hupd (pc s) (pr x) (Some (Some f)); ker := ker s |})
        | None => (ans a (ker s) (read_file (ker s)), s)
        end
      else (ans a (ker s) (read_file (ker s)), s)
    end.

  Definition hstep (s : hstate) (o : cop) : hstate :=
    match o with
    | OEnter h =>
      if Nat.ltb h (nh s) then
        let x := hdl s h in
        match fc x with
        | None => {| nh := nh s; hdl := hupd (hdl s) h {| fc := Some None; dp := 1; pr := pr x |};
                     pc := hupd (pc s) (pr x) (Some None); ker := ker s |}
        | Some c => {| nh := nh s; hdl := hupd (hdl s) h {| fc := Some c; dp := S (dp x); pr := pr x |};
                       pc := pc s; ker := ker s |}
        end
      else s
    | OExit h =>
      if Nat.ltb h (nh s) then
        let x := hdl s h in
        match dp x with
        | O => s
        | S O => {| nh := nh s; hdl := hupd (hdl s) h {| fc := None; dp := 0; pr := pr x |};
                    pc := hupd (pc s) (pr x) None; ker := ker s |}
        | S d => {| nh := nh s; hdl := hupd (hdl s) h {| fc := fc x; dp := d; pr := pr x |}; pc := pc s; ker := ker s |}
        end
      else s
    | OCopy h =>
      if Nat.ltb h (nh s) then
        {| nh := S (nh s); hdl := hupd (hdl s) (nh s) {| fc := None; dp := 0; pr := pr (hdl s h) |}; pc := pc s; ker := ker s |}
      else s
    | ODeep _ => s
    | ONew => {| nh := S (nh s); hdl := hupd (hdl s) (nh s) {| fc := None; dp := 0; pr := S (nh s) |};
                 pc := hupd (pc s) (S (nh s)) None; ker := ker s |}
    | OSetK k => {| nh := nh s; hdl := hdl s; pc := pc s; ker := k |}
    | OCall h q => snd (hcall s h q)
    end.

  Definition hexec (s : hstate) (ops : list cop) : hstate := fold_left hstep ops s.

  (* the answers of the calls of a history, in order *)
  Fixpoint hrun (s : hstate) (ops : list cop) : list V :=
    match ops with
    | [] => []
    | OCall h q :: r => fst (hcall s h q) :: hrun (snd (hcall s h q)) r
    | o :: r => hrun (hstep s o) r
    end.

  (* ---- demanded: the accessor computed from what the kernel holds at call time *)
  Definition fresh (q : hquery) (k : K) : V :=
    match q with QInfo => info k | QAcc a => ans a k (read_file k) end.

  (* no oneshot() block is open on any handle *)
  Definition quiet (s : hstate) : Prop := forall h, dp (hdl s h) = 0%nat.
  Definition quietb (s : hstate) : bool := forallb (fun h => Nat.eqb (dp (hdl s h)) 0) (seq 0 (nh s)).

  (* what the property demands of a history: every call made while no block is open anywhere
     answers from the kernel state of that moment; calls inside blocks are not constrained here *)
  Fixpoint hspec (s : hstate) (ops : list cop) : list (option V) :=
    match ops with
    | [] => []
    | OCall h q :: r => (if quietb s then Some (fresh q (ker s)) else None) :: hspec (snd (hcall s h q)) r
    | o :: r => hspec (hstep s o) r
    end.
End Handles.

(* ------------------------------------------------ the instance: Linux memory accessors *)
Record kmem := { km_ms : list mapping; km_statm : statm; km_has_rollup : bool; km_rollup : file_res;
                 km_probe : bytes -> probe_res }.
Inductive mans :=
| AInfo (o : outcome (list Z))                    (* memory_info / memory_full_info *)
| ARows (o : outcome (list maprow))               (* memory_maps(grouped=False) *)
| AGrouped (o : outcome (list (bytes * list Z))). (* memory_maps(grouped=True) *)

(* accessor numbers: 0 = memory_full_info, 1 = memory_maps(grouped=False), other = memory_maps(grouped=True) *)
Definition m_read (k : kmem) : bytes := k_smaps (km_ms k).
Definition m_info (pagesize : Z) (k : kmem) : mans := AInfo (memory_info pagesize (k_statm (km_statm k))).
Definition m_ans (pagesize : Z) (a : nat) (k : kmem) (f : bytes) : mans :=
  match a with
  | O => AInfo (memory_full_info Alive pagesize (km_has_rollup k) (km_rollup k) (FContent f) (FContent (k_statm (km_statm k))))
  | S O => ARows (memory_maps Alive (km_probe k) (FContent f))
  | _ => AGrouped (omap group_rows (memory_maps Alive (km_probe k) (FContent f)))
  end.
Definition m_uses (a : nat) (k : kmem) : bool :=
  match a with
  | O => negb (km_has_rollup k) || match km_rollup k with FContent _ | FEACCES => false | _ => true end
  | _ => true
  end.

Definition m_spec (pagesize : Z) (q : hquery) (k : kmem) : mans :=
  match q with
  | QInfo => AInfo (Val (spec_meminfo pagesize (km_statm k)))
  | QAcc O => AInfo (Val (spec_full pagesize (km_statm k) (km_ms k)))
  | QAcc (S O) => ARows (Val (map spec_row (km_ms k)))
  | QAcc _ => AGrouped (Val (spec_grouped (map spec_row (km_ms k))))
  end.
(* the kernel states the theorems about single calls cover; the roll-up, when it is the source, is
   outside this instance's specification (C13_full_info_rollup covers it per call) *)
Definition m_wf (k : kmem) : bool :=
  wf_statm (km_statm k) && forallb (wf_kernel (km_probe k)) (km_ms k) && uniform_figs (km_ms k)
  && (negb (km_has_rollup k) || match km_rollup k with FENOENT | FESRCH => true | _ => false end).
