(* C13 -- Process.memory_maps(grouped=True) and Process.memory_percent against
   their specifications (Spec.v: spec_group / spec_grouped / spec_percent). *)
From PV Require Import C13.Spec.
Require Import Lia.

Definition nums_ok (rows : list maprow) : Prop :=
  Forall (fun r => length (w_nums r) = 10%nat) rows.

(* ------------------------------------------------ zip_add *)
Lemma zip_add_comm : forall a b, zip_add a b = zip_add b a.
Proof.
  induction a as [|x a IH]; intros [|y b]; cbn [zip_add]; try reflexivity.
  f_equal; [lia | apply IH].
Qed.

Lemma zip_add_assoc : forall a b c, zip_add (zip_add a b) c = zip_add a (zip_add b c).
Proof.
  induction a as [|x a IH]; intros [|y b] [|z c]; cbn [zip_add]; try reflexivity.
  f_equal; [lia | apply IH].
Qed.

Lemma zip_add_zero : forall n x, length x = n -> zip_add (repeat 0 n) x = x.
Proof.
  induction n as [|n IH]; intros [|y x] H; cbn [repeat zip_add length] in *;
    try reflexivity; try discriminate.
  f_equal. apply IH. lia.
Qed.

Lemma fold_zip_add_acc : forall l a n,
  fold_left zip_add l (zip_add a n) = zip_add (fold_left zip_add l a) n.
Proof.
  induction l as [|x l IH]; intros a n; cbn [fold_left]; [reflexivity|].
  rewrite <- IH. f_equal. rewrite !zip_add_assoc. f_equal. apply zip_add_comm.
Qed.

(* ------------------------------------------------ membership through beqb *)
Lemma existsb_beqb_in : forall p l, existsb (beqb p) l = true <-> In p l.
Proof.
  intros p l. rewrite existsb_exists. split.
  - intros [y [Hy B]]. apply beqb_eq in B. subst. exact Hy.
  - intros H. exists p. split; [exact H | apply beqb_refl].
Qed.

Lemma existsb_beqb_notin : forall p l, existsb (beqb p) l = false <-> ~ In p l.
Proof.
  intros p l. rewrite <- existsb_beqb_in. destruct (existsb (beqb p) l); split; intros H;
    try reflexivity; try discriminate; congruence.
Qed.

(* ------------------------------------------------ distinct *)
Lemma distinct_in : forall l seen x,
  In x (distinct seen l) <-> In x (map w_path l) /\ ~ In x seen.
Proof.
  induction l as [|a l IH]; intros seen x; cbn [distinct map In]; [tauto|].
  destruct (existsb (beqb (w_path a)) seen) eqn:E.
  - apply existsb_beqb_in in E. rewrite IH. split; [tauto|].
    intros [[H|H] N]; [subst; contradiction | tauto].
  - apply existsb_beqb_notin in E. cbn [In]. rewrite IH. cbn [In]. split.
    + intros [H | [H N]]; [subst; split; [left; reflexivity | exact E] | tauto].
    + intros [[H|H] N]; [left; exact H|].
      destruct (beqb (w_path a) x) eqn:B.
      * apply beqb_eq in B. left; exact B.
      * right. split; [exact H|]. intros [H'|H']; [|contradiction].
        subst. rewrite beqb_refl in B. discriminate.
Qed.

Lemma distinct_nodup : forall l seen, NoDup (distinct seen l).
Proof.
  induction l as [|a l IH]; intros seen; cbn [distinct]; [constructor|].
  destruct (existsb (beqb (w_path a)) seen); [apply IH|].
  constructor; [|apply IH]. rewrite distinct_in. intros [_ N]. apply N. left; reflexivity.
Qed.

Lemma distinct_snoc : forall l seen r,
  distinct seen (l ++ [r]) =
  distinct seen l ++
  (if existsb (beqb (w_path r)) seen || existsb (beqb (w_path r)) (map w_path l)
   then [] else [w_path r]).
Proof.
  induction l as [|a l IH]; intros seen r; cbn [app distinct map existsb].
  - rewrite orb_false_r. destruct (existsb (beqb (w_path r)) seen); reflexivity.
  - destruct (existsb (beqb (w_path a)) seen) eqn:E.
    + rewrite IH. f_equal.
      destruct (beqb (w_path r) (w_path a)) eqn:B; [|reflexivity].
      apply beqb_eq in B. rewrite B, E. reflexivity.
    + rewrite IH. cbn [app existsb]. f_equal. f_equal.
      destruct (beqb (w_path r) (w_path a)), (existsb (beqb (w_path r)) seen),
               (existsb (beqb (w_path r)) (map w_path l)); reflexivity.
Qed.

Lemma existsb_distinct_nil : forall p rows,
  existsb (beqb p) (distinct [] rows) = existsb (beqb p) (map w_path rows).
Proof.
  intros p rows. apply Bool.eq_iff_eq_true.
  rewrite !existsb_beqb_in, distinct_in. cbn [In]. tauto.
Qed.

(* ------------------------------------------------ group_add / group_rows *)
Lemma group_rows_snoc : forall rows r,
  group_rows (rows ++ [r]) = group_add (w_path r) (w_nums r) (group_rows rows).
Proof. intros rows r. unfold group_rows. rewrite fold_left_app. reflexivity. Qed.

Lemma map_fst_group_add : forall p n d,
  map fst (group_add p n d) =
  map fst d ++ (if existsb (beqb p) (map fst d) then [] else [p]).
Proof.
  intros p n d. induction d as [|[q ns] d IH]; cbn [group_add map fst existsb app];
    [reflexivity|].
  destruct (beqb p q) eqn:B; cbn [map fst orb].
  - rewrite app_nil_r. reflexivity.
  - rewrite IH. reflexivity.
Qed.

Lemma map_fst_group_rows : forall rows, map fst (group_rows rows) = distinct [] rows.
Proof.
  induction rows as [|r rows IH] using rev_ind; [reflexivity|].
  rewrite group_rows_snoc, map_fst_group_add, IH, distinct_snoc.
  cbn [existsb orb]. rewrite existsb_distinct_nil. reflexivity.
Qed.

Lemma group_add_map : forall p n (f : bytes -> list Z) ps, NoDup ps ->
  group_add p n (map (fun q => (q, f q)) ps) =
  map (fun q => (q, if beqb p q then zip_add (f q) n else f q)) ps ++
  (if existsb (beqb p) ps then [] else [(p, n)]).
Proof.
  intros p n f ps. induction ps as [|a ps IH]; intros ND; [reflexivity|].
  inversion ND as [|a' ps' Hnotin ND']; subst.
  cbn [map group_add existsb]. destruct (beqb p a) eqn:B; cbn [orb app].
  - rewrite app_nil_r. f_equal. apply map_ext_in. intros q Hq.
    destruct (beqb p q) eqn:B2; [|reflexivity].
    apply beqb_eq in B, B2. subst. contradiction.
  - rewrite IH by assumption. reflexivity.
Qed.

Lemma fold_group_add : forall p n d a,
  fold_left zip_add (map snd (group_add p n d)) a =
  zip_add (fold_left zip_add (map snd d) a) n.
Proof.
  intros p n d. induction d as [|[q ns] d IH]; intros a;
    cbn [group_add map snd fold_left]; [reflexivity|].
  destruct (beqb p q); cbn [map snd fold_left].
  - rewrite <- zip_add_assoc. apply fold_zip_add_acc.
  - apply IH.
Qed.

(* ------------------------------------------------ spec_group *)
Lemma spec_group_snoc : forall q rows r,
  spec_group q (rows ++ [r]) =
  if beqb (w_path r) q then zip_add (spec_group q rows) (w_nums r) else spec_group q rows.
Proof.
  intros q rows r. unfold spec_group, rows_of_path, col_sum.
  rewrite filter_app. cbn [filter]. destruct (beqb (w_path r) q).
  - rewrite map_app, fold_left_app. reflexivity.
  - rewrite app_nil_r. reflexivity.
Qed.

Lemma spec_group_absent : forall p rows,
  ~ In p (map w_path rows) -> spec_group p rows = repeat 0 10.
Proof.
  intros p rows H. unfold spec_group, col_sum.
  replace (rows_of_path p rows) with (@nil maprow); [reflexivity|].
  induction rows as [|a rows IH]; [reflexivity|].
  cbn [rows_of_path filter map In] in *. destruct (beqb (w_path a) p) eqn:B.
  - apply beqb_eq in B. tauto.
  - apply IH. tauto.
Qed.

(* ------------------------------------------------ the grouping theorems *)
(* one row per distinct path *)
Theorem group_paths_nodup : forall rows, NoDup (map fst (group_rows rows)).
Proof. intros rows. rewrite map_fst_group_rows. apply distinct_nodup. Qed.

Theorem group_paths_complete : forall rows p,
  In p (map fst (group_rows rows)) <-> exists r, In r rows /\ w_path r = p.
Proof.
  intros rows p. rewrite map_fst_group_rows, distinct_in, in_map_iff. cbn [In]. split.
  - intros [[r [E H]] _]. exists r. tauto.
  - intros [r [H E]]. split; [exists r; tauto | tauto].
Qed.

(* the grouped list is exactly: distinct paths in order of first occurrence, each with its sums *)
Theorem group_rows_spec : forall rows, nums_ok rows -> group_rows rows = spec_grouped rows.
Proof.
  induction rows as [|r rows IH] using rev_ind; intros OK; [reflexivity|].
  apply Forall_app in OK. destruct OK as [OK Hr].
  inversion Hr as [|r' l' Hlen _]; subst.
  rewrite group_rows_snoc, (IH OK). unfold spec_grouped.
  rewrite group_add_map by apply distinct_nodup.
  rewrite distinct_snoc, map_app. cbn [existsb orb].
  rewrite existsb_distinct_nil. f_equal.
  - apply map_ext. intros q. rewrite spec_group_snoc. reflexivity.
  - destruct (existsb (beqb (w_path r)) (map w_path rows)) eqn:E; [reflexivity|].
    apply existsb_beqb_notin in E. cbn [map]. f_equal. f_equal.
    rewrite spec_group_snoc, beqb_refl, (spec_group_absent _ _ E).
    symmetry. apply zip_add_zero. exact Hlen.
Qed.

(* every field of a grouped row is the sum over that path's mappings *)
Theorem group_sums : forall rows p ns, nums_ok rows ->
  In (p, ns) (group_rows rows) -> ns = spec_group p rows.
Proof.
  intros rows p ns OK H. rewrite (group_rows_spec rows OK) in H.
  unfold spec_grouped in H. apply in_map_iff in H. destruct H as [q [E _]].
  inversion E; subst. reflexivity.
Qed.

(* nothing is lost or counted twice: the grouped rows add up to the ungrouped rows *)
Theorem group_conservation : forall rows, nums_ok rows ->
  col_sum 10 (map snd (group_rows rows)) = col_sum 10 (map w_nums rows).
Proof.
  intros rows _. induction rows as [|r rows IH] using rev_ind; [reflexivity|].
  rewrite group_rows_snoc. unfold col_sum in *.
  rewrite fold_group_add, IH, map_app, fold_left_app. reflexivity.
Qed.

(* ------------------------------------------------ memory_percent *)
Lemma index_of_none : forall k l, index_of k l = None <-> ~ In k l.
Proof.
  intros k l. induction l as [|x l IH]; cbn [index_of In]; [tauto|].
  destruct (beqb k x) eqn:B.
  - apply beqb_eq in B. split; [discriminate | intros H; exfalso; apply H; left; congruence].
  - destruct (index_of k l) as [j|]; cbn [option_map].
    + split; [discriminate|]. intros H. exfalso. apply H. right.
      destruct (in_dec (list_eq_dec Z.eq_dec) k l) as [I|N]; [exact I|].
      apply IH in N. discriminate.
    + split; [|reflexivity]. intros _ [H|H].
      * subst. rewrite beqb_refl in B. discriminate.
      * apply IH in H; [exact H | reflexivity].
Qed.

Lemma index_of_some : forall k l i, index_of k l = Some i -> nth_error l i = Some k.
Proof.
  intros k l. induction l as [|x l IH]; intros i H; cbn [index_of] in H; [discriminate|].
  destruct (beqb k x) eqn:B.
  - apply beqb_eq in B. inversion H; subst. reflexivity.
  - destruct (index_of k l) as [j|]; cbn [option_map] in H; [|discriminate].
    inversion H; subst. cbn [nth_error]. apply IH. reflexivity.
Qed.

Lemma nth_error_firstn_lt : forall (n : nat) (l : list Z) (i : nat),
  (i < n)%nat -> nth_error (firstn n l) i = nth_error l i.
Proof.
  induction n as [|n IH]; intros l i H; [lia|].
  destruct l as [|x l]; [reflexivity|]. destruct i as [|i]; [reflexivity|].
  cbn [firstn nth_error]. apply IH. lia.
Qed.

Lemma full_names_index : forall (i : nat) name,
  nth_error full_names i = Some name ->
  index_of name pfullmem_fields = Some i /\
  index_of name pmem_fields = (if (i <? 7)%nat then Some i else None).
Proof.
  intros i name H.
  do 10 (destruct i as [|i];
         [inversion H; subst; vm_compute; split; reflexivity|]).
  cbn in H. destruct i; discriminate.
Qed.

Theorem percent_valid : forall (i : nat) name vals total,
  nth_error full_names i = Some name -> length vals = 10%nat -> 0 < total ->
  memory_percent name (Val (firstn 7 vals)) (Val vals) total = Val (nth i vals 0 * 100, total).
Proof.
  intros i name vals total Hn Hlen Htot.
  assert (Hi : (i < 10)%nat).
  { change 10%nat with (length full_names). apply nth_error_Some. congruence. }
  destruct (full_names_index i name Hn) as [F P].
  assert (Hv : nth_error vals i = Some (nth i vals 0)).
  { apply nth_error_nth'. lia. }
  apply Z.ltb_lt in Htot.
  unfold memory_percent. rewrite F, P.
  destruct (i <? 7)%nat eqn:L; cbn [obind].
  - apply Nat.ltb_lt in L. rewrite nth_error_firstn_lt by exact L.
    rewrite Hv. cbn [of_option obind]. rewrite Htot. reflexivity.
  - rewrite Hv. cbn [of_option obind]. rewrite Htot. reflexivity.
Qed.

Theorem percent_invalid : forall name mi mfi total,
  ~ In name full_names -> memory_percent name mi mfi total = Exc ValueError.
Proof.
  intros name mi mfi total H. unfold memory_percent.
  change full_names with pfullmem_fields in H.
  apply index_of_none in H. rewrite H. reflexivity.
Qed.

Theorem percent_spec : forall name vals total,
  length vals = 10%nat -> 0 < total ->
  memory_percent name (Val (firstn 7 vals)) (Val vals) total = spec_percent name vals total.
Proof.
  intros name vals total Hlen Htot. unfold spec_percent.
  destruct (index_of name full_names) as [i|] eqn:E.
  - apply index_of_some in E. apply percent_valid; assumption.
  - apply index_of_none in E. apply percent_invalid. exact E.
Qed.

Print Assumptions group_paths_nodup.
Print Assumptions group_paths_complete.
Print Assumptions group_sums.
Print Assumptions group_conservation.
Print Assumptions group_rows_spec.
Print Assumptions percent_valid.
Print Assumptions percent_invalid.
Print Assumptions percent_spec.
