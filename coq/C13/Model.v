(* C13 -- model of psutil/_pslinux.py: Process.memory_info, _parse_smaps_rollup,
   _parse_smaps, memory_full_info, memory_maps (get_blocks), and of
   psutil/__init__.py: Process.memory_maps(grouped), Process.memory_percent.
   Transcribed from the code; the wrap_exceptions decorator is folded in
   (PermissionError -> AccessDenied, ProcessLookupError -> NoSuchProcess,
   FileNotFoundError -> NoSuchProcess when /proc/<pid>/stat is gone, else re-raised;
   ZombieProcess first when the stat record says Z).  No proofs here. *)
From PV Require Export Base.Dec.

(* ------------------------------------------------ Python primitives used here *)
Fixpoint takewhile (p : Z -> bool) (l : bytes) : bytes :=
  match l with c :: r => if p c then c :: takewhile p r else [] | [] => [] end.
Fixpoint dropwhile (p : Z -> bool) (l : bytes) : bytes :=
  match l with c :: r => if p c then dropwhile p r else l | [] => [] end.
Definition not_ws (c : Z) : bool := negb (is_ws c).

(* bytes.split(None, n): at most n splits; the remainder keeps its trailing whitespace *)
Fixpoint split_max (n : nat) (l : bytes) : list bytes :=
  match lstrip l with
  | [] => []
  | r => match n with
         | O => [r]
         | S k => takewhile not_ws r :: split_max k (dropwhile not_ws r)
         end
  end.

Definition nth_tok (n : nat) (l : bytes) : outcome bytes :=
  of_option IndexError (nth_error (split_ws l) n).

(* (used by clean_path_legacy only)
   str.strip() of a path decoded from UTF-8 with surrogateescape, seen on the bytes:
   str whitespace = ASCII 9-13, 28-31, 32 and the code points U+0085 U+00A0 U+1680
   U+2000-200A U+2028 U+2029 U+202F U+205F U+3000.  A complete well-formed sequence
   always decodes to its code point whatever precedes it (lead bytes are not
   continuation bytes), so both ends can be examined on the bytes. *)
Definition is_sws (c : Z) : bool := is_ws c || ((28 <=? c) && (c <=? 31)).
Definition e280_ws (c : Z) : bool :=
  ((128 <=? c) && (c <=? 138)) || (c =? 168) || (c =? 169) || (c =? 175).
(* number of bytes of the whitespace character at the head of l (0 = none) *)
Definition uws_head (l : bytes) : nat :=
  match l with
  | a :: r =>
    if is_sws a then 1%nat
    else match r with
         | b :: r' =>
           if (a =? 194) && ((b =? 133) || (b =? 160)) then 2%nat
           else match r' with
                | c :: _ =>
                  if (a =? 225) && (b =? 154) && (c =? 128) then 3%nat
                  else if (a =? 226) && (b =? 128) && e280_ws c then 3%nat
                  else if (a =? 226) && (b =? 129) && (c =? 159) then 3%nat
                  else if (a =? 227) && (b =? 128) && (c =? 128) then 3%nat
                  else O
                | [] => O
                end
         | [] => O
         end
  | [] => O
  end.
(* the same at the tail, on the reversed list: rl = last byte :: the one before :: ... *)
Definition uws_tail (rl : bytes) : nat :=
  match rl with
  | c :: r =>
    if is_sws c then 1%nat
    else match r with
         | b :: r' =>
           if (b =? 194) && ((c =? 133) || (c =? 160)) then 2%nat
           else match r' with
                | a :: _ =>
                  if (a =? 225) && (b =? 154) && (c =? 128) then 3%nat
                  else if (a =? 226) && (b =? 128) && e280_ws c then 3%nat
                  else if (a =? 226) && (b =? 129) && (c =? 159) then 3%nat
                  else if (a =? 227) && (b =? 128) && (c =? 128) then 3%nat
                  else O
                | [] => O
                end
         | [] => O
         end
  | [] => O
  end.
Fixpoint strip_by (f : bytes -> nat) (fuel : nat) (l : bytes) : bytes :=
  match fuel with
  | O => l
  | S k => match f l with O => l | n => strip_by f k (skipn n l) end
  end.
(* bytes.strip() computed with linear-time reversals (List.rev is quadratic); equal to
   Base.Bytes.strip, see Lib.fstrip_strip *)
Definition fstrip (l : bytes) : bytes := rev_append (lstrip (rev_append (lstrip l) [])) [].

Definition str_strip (l : bytes) : bytes :=
  let a := strip_by uws_head (length l) l in
  rev (strip_by uws_tail (length a) (rev a)).

(* ------------------------------------------------ kernel file access *)
Inductive file_res := FContent (b : bytes) | FENOENT | FESRCH | FEACCES.
Inductive pstate := Alive | Zombie | Gone.   (* what /proc/<pid>/stat says when an error is classified *)

(* wrap_exceptions around a read of one /proc/<pid>/ file *)
Definition with_file {A} (ps : pstate) (r : file_res) (k : bytes -> outcome A) : outcome A :=
  match r with
  | FContent b => k b
  | FEACCES => Exc AccessDenied
  | FESRCH => match ps with Zombie => Exc ZombieProcess | _ => Exc NoSuchProcess end
  | FENOENT => match ps with Zombie => Exc ZombieProcess | Gone => Exc NoSuchProcess | Alive => Exc OSError end
  end.

(* ------------------------------------------------ memory_info *)
(* vms, rss, shared, text, lib, data, dirty = (int(x) * PAGESIZE for x in f.readline().split()[:7])
   return pmem(rss, vms, shared, text, lib, data, dirty) *)
Definition memory_info (pagesize : Z) (statm : bytes) : outcome (list Z) :=
  let line := hd [] (lines_keep statm) in
  do vals <- mapM py_int (firstn 7 (split_ws line));
  match vals with
  | [vms; rss; shared; text; lib; data; dirty] =>
    Val (map (fun x => x * pagesize) [rss; vms; shared; text; lib; data; dirty])
  | _ => Exc ValueError
  end.

(* ------------------------------------------------ _parse_smaps_rollup *)
Definition sums := (Z * Z * Z)%type.   (* uss, pss, swap *)

Definition rollup_line (st : sums) (line : bytes) : outcome sums :=
  let '(uss, pss, swap) := st in
  if prefixb (bs "Private_") line then
    do t <- nth_tok 1 line; do v <- py_int t; Val (uss + v * 1024, pss, swap)
  else if prefixb (bs "Pss:") line then
    do t <- nth_tok 1 line; do v <- py_int t; Val (uss, v * 1024, swap)
  else if prefixb (bs "Swap:") line then
    do t <- nth_tok 1 line; do v <- py_int t; Val (uss, pss, v * 1024)
  else Val st.

Fixpoint rollup_fold (st : sums) (ls : list bytes) : outcome sums :=
  match ls with
  | [] => Val st
  | l :: r => do st' <- rollup_line st l; rollup_fold st' r
  end.

Definition parse_rollup (content : bytes) : outcome sums :=
  rollup_fold (0, 0, 0) (lines_keep content).

(* ------------------------------------------------ _parse_smaps: three regexes *)
(* after the ':' of the pattern:  \s+(\d+)  -> (digits, bytes consumed) *)
Definition after_colon (l : bytes) : option (bytes * nat) :=
  let ws := takewhile is_ws l in
  let ds := takewhile is_digit (dropwhile is_ws l) in
  match ws, ds with
  | _ :: _, _ :: _ => Some (ds, (length ws + length ds)%nat)
  | _, _ => None
  end.

(* .*:\s+(\d+)  from inside a line: greedy .* = the rightmost ':' before the next
   newline after which \s+\d+ matches *)
Fixpoint dotstar_colon (l : bytes) : option (bytes * nat) :=
  match l with
  | [] => None
  | c :: r =>
    if c =? 10 then None
    else match dotstar_colon r with
         | Some (d, n) => Some (d, S n)
         | None =>
           if c =? 58 then
             match after_colon r with Some (d, n) => Some (d, S n) | None => None end
           else None
         end
  end.

Definition shift (k : nat) (o : option (bytes * nat)) : option (bytes * nat) :=
  match o with Some (d, n) => Some (d, (k + n)%nat) | None => None end.

(* one attempt at a position: Some (captured digits, length of the whole match) *)
Definition try_private (l : bytes) : option (bytes * nat) :=
  if prefixb (10 :: bs "Private") l then shift 8 (dotstar_colon (skipn 8 l)) else None.
Definition try_pss (l : bytes) : option (bytes * nat) :=
  if prefixb (10 :: bs "Pss:") l then shift 5 (after_colon (skipn 5 l)) else None.
Definition try_swap (l : bytes) : option (bytes * nat) :=
  if prefixb (10 :: bs "Swap:") l then shift 6 (after_colon (skipn 6 l)) else None.

(* re.findall: leftmost matches, scanning resumes at the end of each match *)
Fixpoint findall (try : bytes -> option (bytes * nat)) (skip : nat) (l : bytes) : list bytes :=
  match l with
  | [] => []
  | _ :: r =>
    match skip with
    | S k => findall try k r
    | O => match try l with
           | Some (d, n) => d :: findall try (n - 1) r
           | None => findall try 0 r
           end
    end
  end.

Definition sum_ints (ds : list bytes) : Z := fold_left (fun a d => a + dec_val d) ds 0.

(* data = the content of /proc/<pid>/smaps, already .strip()ped *)
Definition smaps_sums (data : bytes) : sums :=
  (sum_ints (findall try_private 0 data) * 1024,
   sum_ints (findall try_pss 0 data) * 1024,
   sum_ints (findall try_swap 0 data) * 1024).

Definition parse_smaps (ps : pstate) (smaps : file_res) : outcome sums :=
  with_file ps smaps (fun content => Val (smaps_sums (fstrip content))).

(* ------------------------------------------------ memory_full_info *)
Definition memory_full_info (ps : pstate) (pagesize : Z) (has_rollup : bool)
           (rollup smaps statm : file_res) : outcome (list Z) :=
  do s <- (if has_rollup then
             match rollup with
             | FENOENT | FESRCH => parse_smaps ps smaps
             | _ => with_file ps rollup parse_rollup
             end
           else parse_smaps ps smaps);
  let '(uss, pss, swap) := s in
  do basic <- with_file ps statm (memory_info pagesize);
  Val (basic ++ [uss; pss; swap]).

(* ------------------------------------------------ memory_maps (platform layer) *)
Definition dict := list (bytes * Z).
Fixpoint dict_set (k : bytes) (v : Z) (d : dict) : dict :=
  match d with
  | [] => [(k, v)]
  | (k', v') :: r => if beqb k k' then (k, v) :: r else (k', v') :: dict_set k v r
  end.
Fixpoint dict_get (k : bytes) (d : dict) : Z :=     (* data.get(k, 0) *)
  match d with
  | [] => 0
  | (k', v') :: r => if beqb k k' then v' else dict_get k r
  end.

Record maprow := { w_addr : bytes; w_perms : bytes; w_path : bytes; w_nums : list Z }.

Definition map_keys : list bytes :=
  [bs "Rss:"; bs "Size:"; bs "Pss:"; bs "Shared_Clean:"; bs "Shared_Dirty:";
   bs "Private_Clean:"; bs "Private_Dirty:"; bs "Referenced:"; bs "Anonymous:"; bs "Swap:"].
Definition deleted_sfx : bytes := bs " (deleted)".
Definition anon_path : bytes := bs "[anon]".

(* path_exists_strict(path): os.stat(path); PermissionError is re-raised, every other
   OSError (ENOENT, ENOTDIR, ENAMETOOLONG, ELOOP, EIO, EOVERFLOW, ...) means "no" *)
Inductive probe_res :=
| PExists              (* os.stat succeeded *)
| PAbsent              (* os.stat raised an OSError other than EACCES / EPERM, whatever its errno *)
| PDenied.             (* os.stat raised PermissionError (EACCES / EPERM) *)

(* path = decode(hfields[5]); the " (deleted)" marker is cut when the marked path cannot be
   shown to exist -- a PermissionError of the probe counts as that too (since /repo commit
   b718f0c); the probe is consulted only for names that end in the marker.
   (Since /repo commit c15178c the name is no longer .strip()ped.) *)
Definition clean_path (probe : bytes -> probe_res) (path : bytes) : outcome bytes :=
  match path with
  | [] => Val anon_path
  | _ =>
    if suffixb deleted_sfx path then
      match probe path with
      | PExists => Val path
      | PAbsent | PDenied => Val (firstn (length path - 10) path)
      end
    else Val path
  end.
(* the code before commit b718f0c: the probe's PermissionError left memory_maps
   (wrap_exceptions: AccessDenied) *)
Definition clean_path_strict (probe : bytes -> probe_res) (path : bytes) : outcome bytes :=
  match path with
  | [] => Val anon_path
  | _ =>
    if suffixb deleted_sfx path then
      match probe path with
      | PExists => Val path
      | PAbsent => Val (firstn (length path - 10) path)
      | PDenied => Exc AccessDenied
      end
    else Val path
  end.
(* the code before commit c15178c: path = path.strip() on the decoded str first *)
Definition clean_path_legacy (probe : bytes -> probe_res) (path : bytes) : outcome bytes :=
  match path with
  | [] => Val anon_path
  | _ => match str_strip path with [] => Val [] | p => clean_path probe p end
  end.

(* the consumer's part of the loop, for one (header, data) pair *)
Definition mk_row (exists_ : bytes -> probe_res) (header : bytes) (d : dict) : outcome maprow :=
  match split_max 5 header with
  | [addr; perms; _; _; _; path] =>
    do p <- clean_path exists_ path;
    Val {| w_addr := addr; w_perms := perms; w_path := p;
           w_nums := map (fun k => dict_get k d) map_keys |}
  | [addr; perms; _; _; _] =>
    Val {| w_addr := addr; w_perms := perms; w_path := anon_path;
           w_nums := map (fun k => dict_get k d) map_keys |}
  | _ => Exc ValueError
  end.

(* get_blocks: state = (current header, data dict, rows so far reversed).
   The dict is created once and never cleared between blocks (as in the code). *)
Definition bstate := (bytes * dict * list maprow)%type.
Definition block_line (exists_ : bytes -> probe_res) (st : bstate) (line : bytes) : outcome bstate :=
  let '(cur, d, rows) := st in
  match split_max 5 line with
  | [] => Exc IndexError                      (* fields[0] *)
  | f0 :: rest =>
    if negb (suffixb [58] f0) then
      do row <- mk_row exists_ cur d; Val (line, d, row :: rows)
    else
      match rest with
      | [] => Exc IndexError                  (* fields[1] *)
      | f1 :: _ =>
        match parse_int f1 with
        | Some v => Val (cur, dict_set f0 (v * 1024) d, rows)
        | None => if prefixb (bs "VmFlags:") f0 then Val st else Exc ValueError
        end
      end
  end.

Fixpoint block_fold (exists_ : bytes -> probe_res) (st : bstate) (ls : list bytes) : outcome bstate :=
  match ls with
  | [] => Val st
  | l :: r => do st' <- block_line exists_ st l; block_fold exists_ st' r
  end.

Definition maps_of_data (exists_ : bytes -> probe_res) (data : bytes) : outcome (list maprow) :=
  match split_on 10 data with
  | [] => Val []
  | first :: rest =>
    do st <- block_fold exists_ (first, [], []) rest;
    let '(cur, d, rows) := st in
    do row <- mk_row exists_ cur d;
    Val (rev (row :: rows))
  end.

Definition memory_maps (ps : pstate) (exists_ : bytes -> probe_res) (smaps : file_res) : outcome (list maprow) :=
  with_file ps smaps (fun content =>
    match fstrip content with
    | [] => match ps with Zombie => Exc ZombieProcess | _ => Val [] end
    | data => maps_of_data exists_ data
    end).

(* ------------------------------------------------ Process.memory_maps(grouped) *)
Fixpoint zip_add (a b : list Z) : list Z :=
  match a, b with
  | x :: a', y :: b' => (x + y) :: zip_add a' b'
  | _, _ => []
  end.
(* d[path] = map(+, d[path], nums)  /  d[path] = nums ; dict keeps insertion order *)
Fixpoint group_add (path : bytes) (nums : list Z) (d : list (bytes * list Z)) : list (bytes * list Z) :=
  match d with
  | [] => [(path, nums)]
  | (p, ns) :: r => if beqb path p then (p, zip_add ns nums) :: r else (p, ns) :: group_add path nums r
  end.
Definition group_rows (rows : list maprow) : list (bytes * list Z) :=
  fold_left (fun d r => group_add (w_path r) (w_nums r) d) rows [].

(* ------------------------------------------------ Process.memory_percent *)
Definition pmem_fields : list bytes :=
  [bs "rss"; bs "vms"; bs "shared"; bs "text"; bs "lib"; bs "data"; bs "dirty"].
Definition pfullmem_fields : list bytes := pmem_fields ++ [bs "uss"; bs "pss"; bs "swap"].

Fixpoint index_of (k : bytes) (l : list bytes) : option nat :=
  match l with
  | [] => None
  | x :: r => if beqb k x then Some O else option_map S (index_of k r)
  end.

(* returns the exact ratio as (numerator, denominator): value * 100 / total *)
Definition memory_percent (memtype : bytes) (mi mfi : outcome (list Z)) (total : Z) : outcome (Z * Z) :=
  match index_of memtype pfullmem_fields with
  | None => Exc ValueError
  | Some i =>
    do metrics <- (match index_of memtype pmem_fields with Some _ => mi | None => mfi end);
    do value <- of_option AttributeError (nth_error metrics i);
    if 0 <? total then Val (value * 100, total) else Exc ValueError
  end.

(* ------------------------------------------------ psutil/__init__.py: the cached total memory *)
(* memory_percent up to the lookup of the denominator: name check, read, getattr *)
Definition percent_value (memtype : bytes) (mi mfi : outcome (list Z)) : outcome Z :=
  match index_of memtype pfullmem_fields with
  | None => Exc ValueError
  | Some i =>
    do metrics <- (match index_of memtype pmem_fields with Some _ => mi | None => mfi end);
    of_option AttributeError (nth_error metrics i)
  end.

(* virtual_memory(): ret = _psplatform.virtual_memory(); _TOTAL_PHYMEM = ret.total   (every call)
   memory_percent: total_phymem = _TOTAL_PHYMEM or virtual_memory().total *)
Inductive hop :=
| HVM                      (* the caller runs psutil.virtual_memory() *)
| HSet (total : Z)         (* the kernel's MemTotal changes (hotplug, balloon, cgroup view) *)
| HPct (memtype : bytes).  (* the caller runs Process.memory_percent(memtype) *)

Definition total_for_percent (cache : option Z) (kernel : Z) : Z * option Z :=
  match cache with
  | Some c => if c =? 0 then (kernel, Some kernel) else (c, cache)
  | None => (kernel, Some kernel)
  end.

(* results of the memory_percent calls of a history; [cache] = _TOTAL_PHYMEM, [kernel] = MemTotal *)
Fixpoint run_hist (mi mfi : outcome (list Z)) (cache : option Z) (kernel : Z) (ops : list hop)
  : list (outcome (Z * Z)) :=
  match ops with
  | [] => []
  | HVM :: r => run_hist mi mfi (Some kernel) kernel r
  | HSet t :: r => run_hist mi mfi cache t r
  | HPct n :: r =>
    match percent_value n mi mfi with
    | Val v =>
      let '(t, cache') := total_for_percent cache kernel in
      (if 0 <? t then Val (v * 100, t) else Exc ValueError) :: run_hist mi mfi cache' kernel r
    | Exc e => Exc e :: run_hist mi mfi cache kernel r
    | OutOfModel => OutOfModel :: run_hist mi mfi cache kernel r
    end
  end.
