(* C13 -- memory_info() on /proc/<pid>/statm and _parse_smaps_rollup on
   /proc/<pid>/smaps_rollup, for every kernel-formatted file. *)
From PV Require Import C13.Spec.
Require Import Lia.

(* ------------------------------------------------ tokens and numbers *)
Lemma is_dec_tok_ok t : is_dec t = true -> tok_ok t = true.
Proof. intros H. apply tok_ok_spec. now apply is_dec_tok. Qed.

Lemma py_int_dec v : is_dec v = true -> py_int v = Val (dec_val v).
Proof. intros H. unfold py_int. now rewrite (parse_int_dec _ H). Qed.

Lemma join_no_nl ts : forallb tok_ok ts = true -> contains 10 (join [32] ts) = false.
Proof.
  induction ts as [|t ts IH]; intros H; [reflexivity|].
  cbn [forallb] in H. apply andb_true_iff in H as [Ht Hts].
  apply tok_ok_spec in Ht as [_ Ht].
  destruct ts as [|u us].
  - cbn [join]. now apply no_ws_contains.
  - change (join [32] (t :: u :: us)) with (t ++ [32] ++ join [32] (u :: us)).
    rewrite !contains_app, (IH Hts), (no_ws_contains 10 t eq_refl Ht). reflexivity.
Qed.

(* ------------------------------------------------ /proc/<pid>/statm *)
(* memory_info(): the kernel's page counts times the page size, in the documented order *)
Theorem statm_roundtrip : forall pagesize r,
  wf_statm r = true -> memory_info pagesize (k_statm r) = Val (spec_meminfo pagesize r).
Proof.
  intros pagesize r H. unfold wf_statm in H.
  assert (Htok : forallb tok_ok (statm_fields r) = true).
  { apply forallb_forall. intros x Hx. apply is_dec_tok_ok.
    exact (proj1 (forallb_forall _ _) H x Hx). }
  unfold memory_info, k_statm.
  rewrite lines_keep_line by (now apply join_no_nl).
  cbn [lines_keep hd]. rewrite split_ws_app_nl by exact Htok.
  destruct r as [a b c d e f g].
  cbn [statm_fields s_size s_resident s_shared s_text s_lib s_data s_dt forallb] in H.
  apply andb_true_iff in H as [Ha H]. apply andb_true_iff in H as [Hb H].
  apply andb_true_iff in H as [Hc H]. apply andb_true_iff in H as [Hd H].
  apply andb_true_iff in H as [He H]. apply andb_true_iff in H as [Hf H].
  apply andb_true_iff in H as [Hg _].
  unfold spec_meminfo.
  cbn [statm_fields s_size s_resident s_shared s_text s_lib s_data s_dt firstn mapM].
  rewrite (py_int_dec _ Ha), (py_int_dec _ Hb), (py_int_dec _ Hc), (py_int_dec _ Hd),
    (py_int_dec _ He), (py_int_dec _ Hf), (py_int_dec _ Hg).
  cbn [obind map]. reflexivity.
Qed.

(* ------------------------------------------------ the text of one line *)
Lemma spaces_no_nl n : contains 10 (spaces n) = false.
Proof.
  induction n as [|n IH]; [reflexivity|]. unfold spaces in *. cbn [repeat].
  rewrite contains_cons, IH. reflexivity.
Qed.

Lemma split_ws_spaces n x : split_ws (spaces n ++ x) = split_ws x.
Proof.
  induction n as [|n IH]; [reflexivity|]. unfold spaces in *. cbn [repeat app].
  rewrite split_ws_leading by reflexivity. exact IH.
Qed.

Lemma fig_name_no_ws f : no_ws (fig_name f) = true.
Proof. destruct f; reflexivity. Qed.

Lemma flag_no_ws f : flag_ok f = true -> no_ws f = true.
Proof.
  destruct f as [|c f]; [discriminate|]. unfold flag_ok. intros H.
  apply andb_true_iff in H as [_ H]. exact H.
Qed.

Lemma flags_no_nl fl :
  forallb flag_ok fl = true -> contains 10 (concat (map (fun f => 32 :: f) fl)) = false.
Proof.
  induction fl as [|f fl IH]; intros H; [reflexivity|].
  cbn [forallb] in H. apply andb_true_iff in H as [Hf Hfl].
  cbn [map concat]. rewrite contains_app, contains_cons, (IH Hfl).
  rewrite (no_ws_contains 10 f eq_refl (flag_no_ws _ Hf)). reflexivity.
Qed.

Lemma other_name_inv n : other_name_ok n = true ->
  no_ws n = true /\ contains 58 n = false /\ prefixb (bs "Private") n = false
  /\ forall f, n <> fig_name f.
Proof.
  unfold other_name_ok. intros H.
  apply andb_true_iff in H as [H H4]. apply andb_true_iff in H as [H H3].
  apply andb_true_iff in H as [H1 H2].
  apply tok_ok_spec in H1 as [_ H1].
  apply negb_true_iff in H2. apply negb_true_iff in H3. apply negb_true_iff in H4.
  repeat split; auto.
  intros f E.
  assert (X : existsb (fun g => beqb n (fig_name g)) all_figs = true).
  { apply existsb_exists. exists f. split.
    - unfold all_figs, row_figs. cbn [app In]. destruct f; tauto.
    - apply beqb_eq. exact E. }
  congruence.
Qed.

Lemma k_line_no_nl l : wf_line l = true -> contains 10 (k_line l) = false.
Proof.
  destruct l as [f pad v|n pad v kb|fl]; cbn [wf_line]; intros H;
    unfold k_line; cbn [line_core line_trail].
  - destruct (is_dec_tok _ H) as [_ Hv].
    rewrite app_nil_r, contains_app, contains_cons, !contains_app, spaces_no_nl.
    rewrite (no_ws_contains 10 v eq_refl Hv).
    rewrite (no_ws_contains 10 _ eq_refl (fig_name_no_ws f)). reflexivity.
  - apply andb_true_iff in H as [Hn H]. destruct (is_dec_tok _ H) as [_ Hv].
    apply other_name_inv in Hn as (Hn & _).
    rewrite app_nil_r, contains_app, contains_cons, !contains_app, spaces_no_nl.
    rewrite (no_ws_contains 10 v eq_refl Hv), (no_ws_contains 10 n eq_refl Hn).
    destruct kb; reflexivity.
  - destruct fl as [|f0 fl]; [discriminate|].
    rewrite !contains_app, (flags_no_nl _ H). reflexivity.
Qed.

Lemma lines_keep_k_lines ls : forallb wf_line ls = true ->
  lines_keep (k_lines ls) = map (fun l => k_line l ++ [10]) ls.
Proof.
  induction ls as [|l ls IH]; intros H; [reflexivity|].
  cbn [forallb] in H. apply andb_true_iff in H as [Hl Hr].
  unfold k_lines. cbn [map concat]. fold (k_lines ls).
  rewrite <- app_assoc. cbn [app].
  rewrite lines_keep_line by (now apply k_line_no_nl). now rewrite IH.
Qed.

Lemma k_line_fig f pad v :
  k_line (LFig f pad v) ++ [10] =
  fig_name f ++ 58 :: spaces (S pad) ++ v ++ 32 :: [107; 66; 10].
Proof.
  unfold k_line. cbn [line_core line_trail]. rewrite app_nil_r, <- app_assoc. f_equal.
  rewrite <- app_comm_cons. f_equal. rewrite <- !app_assoc. reflexivity.
Qed.

Lemma k_line_other n pad v kb :
  exists rest, k_line (LOther n pad v kb) ++ [10] = n ++ 58 :: rest.
Proof.
  unfold k_line. cbn [line_core line_trail]. rewrite app_nil_r, <- app_assoc.
  rewrite <- app_comm_cons. eauto.
Qed.

Lemma k_line_flags fl :
  exists rest, k_line (LFlags fl) ++ [10] = bs "VmFlags:" ++ rest.
Proof.
  unfold k_line. cbn [line_core line_trail]. rewrite <- !app_assoc. eauto.
Qed.

(* ------------------------------------------------ the second token *)
Lemma nth_tok_value n pad v rest :
  no_ws n = true -> v <> [] -> no_ws v = true ->
  nth_tok 1 (n ++ 58 :: spaces (S pad) ++ v ++ 32 :: rest) = Val v.
Proof.
  intros Hn Hv1 Hv2. unfold nth_tok.
  replace (n ++ 58 :: spaces (S pad) ++ v ++ 32 :: rest)
    with ((n ++ [58]) ++ 32 :: (spaces pad ++ v ++ 32 :: rest))
    by (rewrite <- app_assoc; reflexivity).
  rewrite split_ws_token_sep.
  - rewrite split_ws_spaces, split_ws_token_sep by auto. reflexivity.
  - intros E. apply app_eq_nil in E as [_ E]. discriminate.
  - rewrite no_ws_app, Hn. reflexivity.
  - reflexivity.
Qed.

(* ------------------------------------------------ the prefix tests *)
Lemma pfx_no_sep p : forall n s r,
  contains s p = false -> prefixb p (n ++ s :: r) = true -> prefixb p n = true.
Proof.
  induction p as [|x p IH]; intros n s r Hc H; [reflexivity|].
  rewrite contains_cons in Hc. apply orb_false_iff in Hc as [Hx Hp].
  destruct n as [|c n]; cbn [app prefixb] in H |- *.
  - apply andb_true_iff in H as [H1 _]. apply Z.eqb_eq in H1. subst x.
    rewrite Z.eqb_refl in Hx. discriminate.
  - apply andb_true_iff in H as [H1 H2]. rewrite H1. cbn [andb].
    exact (IH n s r Hp H2).
Qed.

Lemma pfx_app_l p q : forall l, prefixb (p ++ q) l = true -> prefixb p l = true.
Proof.
  induction p as [|x p IH]; intros l H; [reflexivity|].
  destruct l as [|c l]; cbn [app prefixb] in H |- *; [discriminate|].
  apply andb_true_iff in H as [H1 H2]. rewrite H1. cbn [andb]. exact (IH l H2).
Qed.

Lemma pfx_exact p : forall n r,
  contains 58 n = false -> contains 58 p = false ->
  prefixb (p ++ [58]) (n ++ 58 :: r) = true -> n = p.
Proof.
  induction p as [|x p IH]; intros n r Hn Hp H.
  - destruct n as [|c n]; [reflexivity|]. cbn [app prefixb] in H.
    apply andb_true_iff in H as [H1 _].
    rewrite contains_cons in Hn. apply orb_false_iff in Hn as [Hc _]. congruence.
  - rewrite contains_cons in Hp. apply orb_false_iff in Hp as [Hx Hp].
    destruct n as [|c n]; cbn [app prefixb] in H.
    + apply andb_true_iff in H as [H1 _]. rewrite Z.eqb_sym in H1. congruence.
    + apply andb_true_iff in H as [H1 H2]. apply Z.eqb_eq in H1. subst c.
      rewrite contains_cons in Hn. apply orb_false_iff in Hn as [_ Hn].
      f_equal. exact (IH n r Hn Hp H2).
Qed.

Lemma other_pfx n rest : other_name_ok n = true ->
  prefixb (bs "Private_") (n ++ 58 :: rest) = false
  /\ prefixb (bs "Pss:") (n ++ 58 :: rest) = false
  /\ prefixb (bs "Swap:") (n ++ 58 :: rest) = false.
Proof.
  intros H. apply other_name_inv in H as (_ & Hc & Hp & Hf).
  split; [|split].
  - destruct (prefixb (bs "Private_") (n ++ 58 :: rest)) eqn:E; [|reflexivity].
    apply pfx_no_sep in E; [|reflexivity].
    change (bs "Private_") with (bs "Private" ++ [95]) in E.
    apply pfx_app_l in E. congruence.
  - destruct (prefixb (bs "Pss:") (n ++ 58 :: rest)) eqn:E; [|reflexivity].
    change (bs "Pss:") with (bs "Pss" ++ [58]) in E.
    apply pfx_exact in E; [|exact Hc|reflexivity].
    exfalso. exact (Hf FPss E).
  - destruct (prefixb (bs "Swap:") (n ++ 58 :: rest)) eqn:E; [|reflexivity].
    change (bs "Swap:") with (bs "Swap" ++ [58]) in E.
    apply pfx_exact in E; [|exact Hc|reflexivity].
    exfalso. exact (Hf FSwap E).
Qed.

Lemma flags_pfx rest :
  prefixb (bs "Private_") (bs "VmFlags:" ++ rest) = false
  /\ prefixb (bs "Pss:") (bs "VmFlags:" ++ rest) = false
  /\ prefixb (bs "Swap:") (bs "VmFlags:" ++ rest) = false.
Proof. repeat split; reflexivity. Qed.

(* ------------------------------------------------ one line of the roll-up *)
Definition line_step (st : sums) (l : kline) : sums :=
  let '(uss, pss, swap) := st in
  match l with
  | LFig FPrivateClean _ v | LFig FPrivateDirty _ v | LFig FPrivateHugetlb _ v =>
    (uss + dec_val v * 1024, pss, swap)
  | LFig FPss _ v => (uss, dec_val v * 1024, swap)
  | LFig FSwap _ v => (uss, pss, dec_val v * 1024)
  | _ => st
  end.

Lemma rollup_line_hdr st c h :
  is_hex c = true -> rollup_line st ((c :: h) ++ [10]) = Val st.
Proof.
  intros H. destruct st as [[u p] s]. cbv beta iota delta [rollup_line].
  change (bs "Private_") with (80 :: bs "rivate_").
  change (bs "Pss:") with (80 :: bs "ss:").
  change (bs "Swap:") with (83 :: bs "wap:").
  cbn [app prefixb].
  assert (80 =? c = false) as -> by (unfold is_hex, is_digit in H; lia).
  assert (83 =? c = false) as -> by (unfold is_hex, is_digit in H; lia).
  reflexivity.
Qed.

Lemma rollup_line_k st l :
  wf_line l = true -> rollup_line st (k_line l ++ [10]) = Val (line_step st l).
Proof.
  destruct st as [[u p] s].
  destruct l as [f pad v|n pad v kb|fl]; cbn [wf_line]; intros H.
  - rewrite k_line_fig. destruct (is_dec_tok _ H) as [Hv1 Hv2].
    pose proof (nth_tok_value (fig_name f) pad v [107; 66; 10]
                  (fig_name_no_ws f) Hv1 Hv2) as T.
    cbv beta iota delta [rollup_line]. rewrite T. cbn [obind].
    rewrite (py_int_dec _ H). cbn [obind].
    generalize (spaces (S pad) ++ v ++ [32; 107; 66; 10]). intros rest.
    destruct f; reflexivity.
  - apply andb_true_iff in H as [Hn _].
    destruct (k_line_other n pad v kb) as [rest ->].
    destruct (other_pfx n rest Hn) as (A & B & C).
    cbv beta iota delta [rollup_line]. rewrite A, B, C. reflexivity.
  - destruct (k_line_flags fl) as [rest ->].
    destruct (flags_pfx rest) as (A & B & C).
    cbv beta iota delta [rollup_line]. rewrite A, B, C. reflexivity.
Qed.

Lemma rollup_fold_k ls : forall st,
  forallb wf_line ls = true ->
  rollup_fold st (map (fun l => k_line l ++ [10]) ls) = Val (fold_left line_step ls st).
Proof.
  induction ls as [|l ls IH]; intros st H; [reflexivity|].
  cbn [forallb] in H. apply andb_true_iff in H as [Hl Hr].
  cbn [map rollup_fold fold_left]. rewrite (rollup_line_k st l Hl). cbn [obind].
  now apply IH.
Qed.

(* ------------------------------------------------ the fold, on the kernel's side *)
Lemma count0_find f ls : count_fig f ls = O -> find_fig f ls = None.
Proof.
  induction ls as [|l r IH]; cbn [count_fig find_fig]; auto.
  destruct (line_fig f l); [discriminate|auto].
Qed.

Lemma count_tail f l r : (count_fig f (l :: r) <= 1)%nat -> (count_fig f r <= 1)%nat.
Proof. cbn [count_fig]. destruct (line_fig f l); lia. Qed.

Lemma count_hit f l r v :
  line_fig f l = Some v -> (count_fig f (l :: r) <= 1)%nat -> find_fig f r = None.
Proof. intros E. cbn [count_fig]. rewrite E. intros H. apply count0_find. lia. Qed.

Lemma sums_eq (a b c a' b' c' : Z) : a = a' -> b = b' -> c = c' -> (a, b, c) = (a', b', c').
Proof. intros -> -> ->. reflexivity. Qed.

Lemma fold_line_step ls : forall u p s,
  (count_fig FPrivateClean ls <= 1)%nat -> (count_fig FPrivateDirty ls <= 1)%nat ->
  (count_fig FPrivateHugetlb ls <= 1)%nat ->
  (count_fig FPss ls <= 1)%nat -> (count_fig FSwap ls <= 1)%nat ->
  fold_left line_step ls (u, p, s) =
  (u + (fig_kb FPrivateClean ls + fig_kb FPrivateDirty ls + fig_kb FPrivateHugetlb ls) * 1024,
   match find_fig FPss ls with Some v => dec_val v * 1024 | None => p end,
   match find_fig FSwap ls with Some v => dec_val v * 1024 | None => s end).
Proof.
  induction ls as [|l r IH]; intros u p s H1 H2 H3 H4 H5.
  - unfold fig_kb. cbn [fold_left find_fig]. apply sums_eq; lia.
  - pose proof (count_tail _ _ _ H1) as T1. pose proof (count_tail _ _ _ H2) as T2.
    pose proof (count_tail _ _ _ H3) as T3. pose proof (count_tail _ _ _ H4) as T4.
    pose proof (count_tail _ _ _ H5) as T5.
    cbn [fold_left].
    destruct l as [f pad v|n pad v kb|fl].
    + destruct f; cbn [line_step]; rewrite (IH _ _ _ T1 T2 T3 T4 T5);
        unfold fig_kb; cbn [find_fig line_fig fig_eqb]; try (apply sums_eq; lia).
      * rewrite (count_hit FPss (LFig FPss pad v) r v eq_refl H4). apply sums_eq; lia.
      * rewrite (count_hit FPrivateClean (LFig FPrivateClean pad v) r v eq_refl H1).
        apply sums_eq; lia.
      * rewrite (count_hit FPrivateDirty (LFig FPrivateDirty pad v) r v eq_refl H2).
        apply sums_eq; lia.
      * rewrite (count_hit FSwap (LFig FSwap pad v) r v eq_refl H5). apply sums_eq; lia.
      * rewrite (count_hit FPrivateHugetlb (LFig FPrivateHugetlb pad v) r v eq_refl H3).
        apply sums_eq; lia.
    + cbn [line_step]. rewrite (IH _ _ _ T1 T2 T3 T4 T5).
      unfold fig_kb. cbn [find_fig line_fig]. reflexivity.
    + cbn [line_step]. rewrite (IH _ _ _ T1 T2 T3 T4 T5).
      unfold fig_kb. cbn [find_fig line_fig]. reflexivity.
Qed.

(* ------------------------------------------------ /proc/<pid>/smaps_rollup *)
(* _parse_smaps_rollup on every kernel-formatted roll-up file *)
Theorem rollup_parse : forall rl, wf_rollup rl = true ->
  parse_rollup (k_rollup rl) =
  Val ((ru_kb rl FPrivateClean + ru_kb rl FPrivateDirty + ru_kb rl FPrivateHugetlb) * 1024,
       ru_kb rl FPss * 1024, ru_kb rl FSwap * 1024).
Proof.
  intros [hdr ls] H. unfold wf_rollup in H. cbn [ru_hdr ru_lines] in H.
  apply andb_true_iff in H as [H Hc]. apply andb_true_iff in H as [H Hl].
  apply andb_true_iff in H as [Hh Hn]. apply negb_true_iff in Hn.
  destruct hdr as [|c h]; [discriminate|].
  unfold all_figs, row_figs in Hc. cbn [app forallb] in Hc.
  apply andb_true_iff in Hc as [_ Hc]. apply andb_true_iff in Hc as [_ Hc].
  apply andb_true_iff in Hc as [C4 Hc]. apply andb_true_iff in Hc as [_ Hc].
  apply andb_true_iff in Hc as [_ Hc]. apply andb_true_iff in Hc as [C1 Hc].
  apply andb_true_iff in Hc as [C2 Hc]. apply andb_true_iff in Hc as [_ Hc].
  apply andb_true_iff in Hc as [_ Hc]. apply andb_true_iff in Hc as [C5 Hc].
  apply andb_true_iff in Hc as [C3 _].
  apply Nat.leb_le in C1, C2, C3, C4, C5.
  unfold parse_rollup, k_rollup, ru_kb. cbn [ru_hdr ru_lines].
  rewrite lines_keep_line by exact Hn. rewrite (lines_keep_k_lines _ Hl).
  cbn [rollup_fold]. rewrite (rollup_line_hdr _ c h Hh). cbn [obind].
  rewrite (rollup_fold_k _ _ Hl), (fold_line_step _ _ _ _ C1 C2 C3 C4 C5).
  f_equal. unfold fig_kb.
  apply sums_eq; [lia| |].
  - destruct (find_fig FPss ls); reflexivity.
  - destruct (find_fig FSwap ls); reflexivity.
Qed.

Print Assumptions statm_roundtrip.
Print Assumptions rollup_parse.
