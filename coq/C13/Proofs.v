(* C13 -- proofs. *)
From PV Require Import C13.Spec.

Lemma percent_total_nonpositive memtype mi mfi total :
  total <= 0 -> forall q, memory_percent memtype mi mfi total <> Val q.
Proof.
  intros Ht q. unfold memory_percent.
  destruct (index_of memtype pfullmem_fields); [|discriminate].
  destruct (match index_of memtype pmem_fields with Some _ => mi | None => mfi end); cbn [obind]; try discriminate.
  destruct (of_option AttributeError (nth_error a n)); cbn [obind]; try discriminate.
  assert (0 <? total = false) as -> by lia. discriminate.
Qed.
