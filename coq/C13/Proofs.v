(* C13 -- the end-to-end statements, assembled from ProofsRollup (statm, roll-up),
   ProofsSums (the three regex scans), ProofsMaps (block splitter), ProofsGroup
   (grouping, memory_percent). *)
From PV Require Import C13.Spec C13.Lib C13.ProofsMaps C13.ProofsSums C13.ProofsRollup C13.ProofsGroup C13.ProofsHist Gen.C13_Tables.

(* _parse_smaps on every kernel-formatted listing *)
Theorem parse_smaps_spec ms : forallb wf_kernel0 ms = true ->
  parse_smaps Alive (FContent (k_smaps ms)) = Val (spec_sums ms).
Proof. intros Hms. unfold parse_smaps, with_file. now rewrite fstrip_strip, (smaps_sums_spec ms Hms). Qed.

(* memory_full_info() when /proc/<pid>/smaps is the source: no roll-up support, or the
   roll-up file answers ENOENT / ESRCH *)
Theorem full_info_smaps pagesize r ms has_rollup rollup :
  wf_statm r = true -> forallb wf_kernel0 ms = true ->
  has_rollup = false \/ rollup = FENOENT \/ rollup = FESRCH ->
  memory_full_info Alive pagesize has_rollup rollup (FContent (k_smaps ms)) (FContent (k_statm r))
  = Val (spec_full pagesize r ms).
Proof.
  intros Hr Hms Hsrc. unfold memory_full_info, spec_full.
  pose proof (parse_smaps_spec ms Hms) as E.
  assert (S : (if has_rollup then match rollup with
                                  | FENOENT | FESRCH => parse_smaps Alive (FContent (k_smaps ms))
                                  | _ => with_file Alive rollup parse_rollup end
               else parse_smaps Alive (FContent (k_smaps ms))) = Val (spec_sums ms)).
  { destruct Hsrc as [->|[->| ->]]; [exact E|destruct has_rollup; exact E|destruct has_rollup; exact E]. }
  rewrite S. cbn [obind]. destruct (spec_sums ms) as [[uss pss] swap].
  cbn [with_file]. rewrite (statm_roundtrip pagesize r Hr). reflexivity.
Qed.

(* ... and when the roll-up file is the source, for every roll-up that describes the
   same process as the listing *)
Theorem full_info_rollup pagesize r ms rl smaps :
  wf_statm r = true -> wf_rollup rl = true -> consistent rl ms = true ->
  memory_full_info Alive pagesize true (FContent (k_rollup rl)) smaps (FContent (k_statm r))
  = Val (spec_full pagesize r ms).
Proof.
  intros Hr Hrl Hc. unfold memory_full_info, spec_full, spec_sums. cbn [with_file].
  rewrite (rollup_parse rl Hrl). cbn [obind]. rewrite (statm_roundtrip pagesize r Hr).
  unfold consistent in Hc. apply andb_true_iff in Hc as [Hc H3]. apply andb_true_iff in Hc as [H1 H2].
  apply Z.eqb_eq in H1, H2, H3. rewrite H1, H2, H3. reflexivity.
Qed.

(* the same record whichever file is the source *)
Theorem rollup_agrees pagesize r ms rl :
  wf_statm r = true -> forallb wf_kernel0 ms = true -> wf_rollup rl = true -> consistent rl ms = true ->
  memory_full_info Alive pagesize true (FContent (k_rollup rl)) (FContent (k_smaps ms)) (FContent (k_statm r))
  = memory_full_info Alive pagesize false (FContent (k_rollup rl)) (FContent (k_smaps ms)) (FContent (k_statm r)).
Proof.
  intros Hr Hms Hrl Hc. rewrite (full_info_rollup pagesize r ms rl _ Hr Hrl Hc).
  symmetry. apply full_info_smaps; auto.
Qed.

(* a real kernel's roll-up (Pss kept in sub-kB precision): the record carries the roll-up's
   Pss, which exceeds the listing's sum by less than one kB per mapping; uss and swap agree *)
Theorem full_info_rollup_rounded pagesize r ms rl smaps :
  wf_statm r = true -> wf_rollup rl = true -> rounded rl ms = true ->
  memory_full_info Alive pagesize true (FContent (k_rollup rl)) smaps (FContent (k_statm r))
  = Val (spec_full_ru pagesize r ms rl)
  /\ (let '(_, pss, _) := spec_sums ms in
      pss <= ru_kb rl FPss * 1024 <= pss + 1024 * Z.of_nat (pred (length ms))).
Proof.
  intros Hr Hrl Hc. unfold rounded in Hc.
  apply andb_true_iff in Hc as [Hc H4]. apply andb_true_iff in Hc as [Hc H3]. apply andb_true_iff in Hc as [H1 H2].
  apply Z.eqb_eq in H1, H4. apply Z.leb_le in H2, H3. split.
  - unfold memory_full_info, spec_full_ru, spec_sums. cbn [with_file].
    rewrite (rollup_parse rl Hrl). cbn [obind]. rewrite (statm_roundtrip pagesize r Hr).
    rewrite H1, H4. reflexivity.
  - unfold spec_sums. lia.
Qed.

Lemma spec_rows_nums ms : nums_ok (map spec_row ms).
Proof. unfold nums_ok. apply Forall_forall. intros r Hr. apply in_map_iff in Hr as (m & <- & _). reflexivity. Qed.

(* memory_maps(grouped=True) over the kernel's listing *)
Theorem maps_grouped ex ms : forallb (wf_kernel ex) ms = true -> uniform_figs ms = true ->
  omap group_rows (memory_maps Alive ex (FContent (k_smaps ms))) = Val (spec_grouped (map spec_row ms)).
Proof.
  intros H Hu. rewrite (maps_ungrouped ex ms H Hu). unfold omap. cbn [obind].
  now rewrite (group_rows_spec _ (spec_rows_nums ms)).
Qed.

(* memory_percent over the kernel's files *)
Theorem percent_kernel pagesize r ms name total :
  wf_statm r = true -> forallb wf_kernel0 ms = true -> 0 < total ->
  memory_percent name (with_file Alive (FContent (k_statm r)) (memory_info pagesize))
                 (memory_full_info Alive pagesize false FENOENT (FContent (k_smaps ms)) (FContent (k_statm r))) total
  = spec_percent name (spec_full pagesize r ms) total.
Proof.
  intros Hr Hms Ht. rewrite (full_info_smaps pagesize r ms false FENOENT Hr Hms (or_introl eq_refl)).
  cbn [with_file]. rewrite (statm_roundtrip pagesize r Hr).
  assert (E : spec_meminfo pagesize r = firstn 7 (spec_full pagesize r ms)).
  { unfold spec_full. destruct (spec_sums ms) as [[a b] c]. reflexivity. }
  rewrite E. apply percent_spec; [|exact Ht].
  unfold spec_full. destruct (spec_sums ms) as [[a b] c]. reflexivity.
Qed.

(* names that are attributes or methods of the record but not fields are rejected like any
   other unknown name -- before anything is read, so whatever state the process is in *)
Definition attr_like_names : list bytes :=
  [bs "count"; bs "index"; bs "_fields"; bs "_asdict"; bs "_make"; bs "_replace"; bs "_field_defaults";
   bs "__class__"; bs "__len__"; bs "__doc__"; bs "__getitem__"; bs "__dict__"; bs "__slots__"; bs "__add__"; bs ""].
Theorem percent_attr_names_rejected name mi mfi total :
  In name attr_like_names -> memory_percent name mi mfi total = Exc ValueError.
Proof.
  intros H. apply percent_invalid. apply index_of_none.
  unfold attr_like_names in H.
  repeat (destruct H as [<-|H]; [vm_compute; reflexivity|]). destruct H.
Qed.

(* ------------------------------------------------ lines psutil must ignore *)
(* the full line set of a current kernel is inside the grammar, whatever the values of the
   lines that are not figures (SwapPss, Pss_Anon/File/Shmem, Pss_Dirty, *Hugetlb, Locked,
   LazyFree, AnonHugePages, *PmdMapped, KernelPageSize, MMUPageSize, ...) *)
Theorem k6_body_wf fv d fl :
  (forall f, is_dec (fv f) = true) -> (forall i, is_dec (d i) = true) ->
  fl <> [] -> forallb flag_ok fl = true -> wf_body (k6_lines fv d fl) = true.
Proof.
  intros Hf Hd Hne Hfl. unfold wf_body, k6_lines. cbn [forallb wf_line].
  rewrite !Hf, !Hd. destruct fl as [|f0 fr]; [congruence|]. rewrite Hfl. reflexivity.
Qed.

Lemma k6_has_fig fv d fl f : In f row_figs -> count_fig f (k6_lines fv d fl) = 1%nat.
Proof. intros H. cbn in H. repeat (destruct H as [<-|H]; [reflexivity|]). destruct H.
Qed.

(* ... so they cannot change uss / pss / swap: the roll-up of a current kernel *)
Theorem k6_rollup_ignores_decoys hdr fv d :
  (forall f, is_dec (fv f) = true) -> (forall i, is_dec (d i) = true) ->
  (match hdr with c :: _ => is_hex c | [] => false end) = true -> contains 10 hdr = false ->
  parse_rollup (k_rollup {| ru_hdr := hdr; ru_lines := k6_rollup_lines fv d |}) =
  Val ((dec_val (fv FPrivateClean) + dec_val (fv FPrivateDirty) + dec_val (fv FPrivateHugetlb)) * 1024,
       dec_val (fv FPss) * 1024, dec_val (fv FSwap) * 1024).
Proof.
  intros Hf Hd Hh Hn. rewrite rollup_parse; [reflexivity|].
  unfold wf_rollup, k6_rollup_lines. cbn [ru_hdr ru_lines forallb wf_line].
  rewrite Hh, Hn, !Hf, !Hd. reflexivity.
Qed.

(* ... and the listing: whatever the other lines say, the sums are those of the figures *)
Theorem k6_smaps_ignores_decoys ex ms :
  (forall m, In m ms -> wf_header m = true /\ marker_ok ex m = true /\
     exists fv d fl, m_lines m = k6_lines fv d fl /\ (forall f, is_dec (fv f) = true) /\
                     (forall i, is_dec (d i) = true) /\ fl <> [] /\ forallb flag_ok fl = true) ->
  parse_smaps Alive (FContent (k_smaps ms)) = Val (spec_sums ms)
  /\ memory_maps Alive ex (FContent (k_smaps ms)) = Val (map spec_row ms).
Proof.
  intros H. assert (W : forallb (wf_kernel ex) ms = true).
  { apply forallb_forall. intros m Hm. destruct (H m Hm) as (Hh & Hmk & fv & d & fl & El & Hf & Hd & Hne & Hfl).
    unfold wf_kernel, wf_kernel0. rewrite Hh, Hmk, El. now rewrite k6_body_wf. }
  assert (U : uniform_figs ms = true).
  { unfold uniform_figs. apply forallb_forall. intros f Hf. apply orb_true_iff. left.
    apply forallb_forall. intros m Hm. destruct (H m Hm) as (_ & _ & fv & d & fl & El & _).
    unfold has_fig. rewrite El, (k6_has_fig fv d fl f Hf). reflexivity. }
  split; [apply parse_smaps_spec; now apply (forallb_kernel0 ex)|now apply maps_ungrouped].
Qed.

(* ------------------------------------------------ the defect repaired by /repo commit c15178c *)
Definition wit_lines : list kline :=
  [LFig FSize 0 (bs "4"); LFig FRss 0 (bs "4"); LFig FPss 0 (bs "4"); LFig FSharedClean 0 (bs "0");
   LFig FSharedDirty 0 (bs "0"); LFig FPrivateClean 0 (bs "4"); LFig FPrivateDirty 0 (bs "0");
   LFig FReferenced 0 (bs "4"); LFig FAnonymous 0 (bs "0"); LFig FSwap 0 (bs "0");
   LOther (bs "THPeligible") 3 (bs "0") false; LFlags [bs "rd"; bs "mr"]].
Definition wit_blank : mapping :=
  {| m_addr := bs "00400000-00401000"; m_perms := bs "r-xp"; m_offset := bs "00000000"; m_dev := bs "fe:00";
     m_inode := bs "320173"; m_pad := 3; m_path := bs "/tmp/a "; m_deleted := false; m_lines := wit_lines |}.
Definition no_files : bytes -> probe_res := fun _ => PAbsent.

(* the path decoding as it was before the repair (path.strip()) lost the blank at the end of
   a mapped file's name; the present decoding returns the name the kernel shows *)
Theorem legacy_strip_refuted :
  wf_kernel no_files wit_blank = true
  /\ clean_path_legacy no_files (shown_path wit_blank) = Val (bs "/tmp/a")
  /\ clean_path no_files (shown_path wit_blank) = Val (m_path wit_blank)
  /\ m_path wit_blank = bs "/tmp/a ".
Proof. vm_compute. repeat split. Qed.

(* ------------------------------------------------ the hypotheses are satisfiable *)
Definition ex_m1 : mapping :=
  {| m_addr := bs "00400000-00401000"; m_perms := bs "r-xp"; m_offset := bs "00000000"; m_dev := bs "fe:00";
     m_inode := bs "320173"; m_pad := 3; m_path := bs "/tmp/a b:c"; m_deleted := true; m_lines := wit_lines |}.
Definition ex_m2 : mapping :=
  {| m_addr := bs "7f0000000000-7f0000002000"; m_perms := bs "rw-p"; m_offset := bs "00000000"; m_dev := bs "00:00";
     m_inode := bs "0"; m_pad := 0; m_path := []; m_deleted := false;
     m_lines := LFig FPrivateHugetlb 2 (bs "2048") :: wit_lines |}.
Definition ex_m3 : mapping :=   (* name with a blank at the end and a no-break space in front of it *)
  {| m_addr := bs "7f0000002000-7f0000003000"; m_perms := bs "r--s"; m_offset := bs "00001000"; m_dev := bs "08:01";
     m_inode := bs "77"; m_pad := 1; m_path := bs "/tmp/x" ++ [194; 160; 32; 9]; m_deleted := false;
     m_lines := [LFig FSize 0 (bs "0"); LFig FRss 0 (bs "0"); LFig FPss 0 (bs "0"); LFig FSharedClean 0 (bs "0");
                 LFig FSharedDirty 0 (bs "0"); LFig FPrivateClean 0 (bs "0"); LFig FPrivateDirty 0 (bs "0");
                 LFig FReferenced 0 (bs "0"); LFig FAnonymous 0 (bs "0"); LFig FSwap 0 (bs "0")] |}.
Definition ex_m4 : mapping :=   (* a newline in the name: the kernel shows \012 *)
  {| m_addr := bs "7f0000003000-7f0000004000"; m_perms := bs "r--s"; m_offset := bs "00000000"; m_dev := bs "08:01";
     m_inode := bs "78"; m_pad := 0; m_path := bs "/tmp/n" ++ [10] ++ bs "l"; m_deleted := true; m_lines := m_lines ex_m3 |}.
Definition ex_rollup : rollup :=
  {| ru_hdr := bs "00400000-7f0000002000 ---p 00000000 00:00 0    [rollup]";
     ru_lines := [LFig FRss 0 (bs "8"); LFig FPss 1 (bs "8"); LOther (bs "Pss_Anon") 0 (bs "8") true;
                  LFig FPrivateClean 0 (bs "8"); LFig FPrivateDirty 0 (bs "0");
                  LFig FPrivateHugetlb 0 (bs "2048"); LFig FSwap 0 (bs "0")] |}.
Definition ex_statm : statm :=
  {| s_size := bs "660"; s_resident := bs "312"; s_shared := bs "287"; s_text := bs "5"; s_lib := bs "0";
     s_data := bs "123"; s_dt := bs "0" |}.

Example hypotheses_satisfiable :
  forallb (wf_kernel no_files) [ex_m1; ex_m2; ex_m3; ex_m4] = true /\ wf_rollup ex_rollup = true
  /\ consistent ex_rollup [ex_m1; ex_m2; ex_m3; ex_m4] = true /\ wf_statm ex_statm = true
  /\ spec_full 4096 ex_statm [ex_m1; ex_m2; ex_m3; ex_m4] = [1277952; 2703360; 1175552; 20480; 0; 503808; 0; 2105344; 8192; 0]
  /\ map w_path (map spec_row [ex_m1; ex_m2; ex_m3; ex_m4]) = [bs "/tmp/a b:c"; bs "[anon]"; bs "/tmp/x" ++ [194; 160; 32; 9]; bs "/tmp/n\012l"]
  /\ uniform_figs [ex_m1; ex_m2; ex_m3; ex_m4] = true
  /\ rounded {| ru_hdr := ru_hdr ex_rollup; ru_lines := LFig FPss 0 (bs "11") :: tl (tl (ru_lines ex_rollup)) ++ [LFig FRss 0 (bs "8")] |}
             [ex_m1; ex_m2; ex_m3; ex_m4] = true.
Proof. vm_compute. repeat split. Qed.

(* ------------------------------------------------ hypotheses that cannot be dropped *)
(* get_blocks creates its dict once per file: a mapping that lacks a line an earlier mapping
   printed inherits the earlier value -- here Swap of the second mapping (0 in the kernel's
   accounting, no Swap line) is reported as the first mapping's 8 kB.  No kernel prints such
   a listing (uniform_figs); C13_maps_ungrouped shows it cannot matter otherwise. *)
Definition stale_m1 : mapping :=
  {| m_addr := bs "00400000-00401000"; m_perms := bs "r-xp"; m_offset := bs "00000000"; m_dev := bs "fe:00";
     m_inode := bs "320173"; m_pad := 3; m_path := bs "/tmp/a"; m_deleted := false;
     m_lines := [LFig FSize 0 (bs "4"); LFig FRss 0 (bs "4"); LFig FSwap 0 (bs "8")] |}.
Definition stale_m2 : mapping :=
  {| m_addr := bs "00401000-00402000"; m_perms := bs "rw-p"; m_offset := bs "00001000"; m_dev := bs "fe:00";
     m_inode := bs "320173"; m_pad := 3; m_path := bs "/tmp/a"; m_deleted := false;
     m_lines := [LFig FSize 0 (bs "4"); LFig FRss 0 (bs "4")] |}.
Theorem maps_stale_dict_refuted :
  forallb (wf_kernel no_files) [stale_m1; stale_m2] = true /\ uniform_figs [stale_m1; stale_m2] = false
  /\ exists rows, memory_maps Alive no_files (FContent (k_smaps [stale_m1; stale_m2])) = Val rows
                 /\ map (fun r => nth 9 (w_nums r) 0) rows = [8192; 8192]
                 /\ map (fun r => nth 9 (w_nums r) 0) (map spec_row [stale_m1; stale_m2]) = [8192; 0].
Proof. split; [vm_compute; reflexivity|]. split; [vm_compute; reflexivity|]. eexists. split; [vm_compute; reflexivity|]. split; reflexivity. Qed.

(* a name beginning with an ASCII blank cannot be told from the kernel's column padding
   (split(None, 5) drops it); no kernel name begins so *)
Definition blank_m : mapping :=
  {| m_addr := bs "00400000-00401000"; m_perms := bs "r-xp"; m_offset := bs "00000000"; m_dev := bs "fe:00";
     m_inode := bs "320173"; m_pad := 3; m_path := 32 :: bs "/tmp/a"; m_deleted := false; m_lines := wit_lines |}.
Theorem maps_leading_blank_observation :
  wf_body (m_lines blank_m) = true /\ path_head_ok blank_m = false
  /\ exists rows, memory_maps Alive no_files (FContent (k_smaps [blank_m])) = Val rows
                 /\ map w_path rows = [bs "/tmp/a"] /\ m_path blank_m = 32 :: bs "/tmp/a".
Proof. split; [vm_compute; reflexivity|]. split; [vm_compute; reflexivity|]. eexists. split; [vm_compute; reflexivity|]. split; reflexivity. Qed.

(* a newline in a name: the kernel writes \012 and psutil returns the name as shown; the kernel's
   escaping is not injective (a file literally called "n\012l" is shown the same way), so
   no decoder can return the own path in both cases *)
Theorem maps_newline_name_observation :
  wf_kernel no_files ex_m4 = true
  /\ exists rows, memory_maps Alive no_files (FContent (k_smaps [ex_m4])) = Val rows
                 /\ map w_path rows = [bs "/tmp/n\012l"]
                 /\ kname ex_m4 = bs "/tmp/n\012l" /\ m_path ex_m4 = bs "/tmp/n" ++ [10] ++ bs "l"
                 /\ kname {| m_addr := []; m_perms := []; m_offset := []; m_dev := []; m_inode := []; m_pad := 0;
                             m_path := bs "/tmp/n\012l"; m_deleted := false; m_lines := [] |} = kname ex_m4.
Proof. split; [vm_compute; reflexivity|]. eexists. split; [vm_compute; reflexivity|]. repeat split. Qed.

(* for names without a newline the shown name is the name *)
Theorem kname_own m : contains 10 (m_path m) = false -> kname m = m_path m.
Proof. apply esc_nl_id. Qed.

(* ------------------------------------------------ record layouts of the code (coq/Gen/C13_Tables.v) *)
Theorem layouts_agree :
  gen_pmem_fields = doc_pmem /\ gen_pfullmem_fields = doc_pfullmem
  /\ gen_pmmap_grouped_fields = doc_grouped /\ gen_pmmap_ext_fields = doc_ext
  /\ pmem_fields = doc_pmem /\ pfullmem_fields = doc_pfullmem /\ full_names = doc_pfullmem
  /\ map_keys = map (fun f => fig_name f ++ [58]) row_figs.
Proof. repeat split. Qed.


(* ------------------------------------------------ memory_percent over histories *)
(* over the kernel's files: every memory_percent of every history of virtual_memory() calls and
   MemTotal changes divides by the total the last virtual_memory() call reported *)
Theorem percent_history pagesize r ms kernel0 ops :
  wf_statm r = true -> forallb wf_kernel0 ms = true -> hist_ok ops = true -> 0 < kernel0 ->
  run_hist (with_file Alive (FContent (k_statm r)) (memory_info pagesize))
           (memory_full_info Alive pagesize false FENOENT (FContent (k_smaps ms)) (FContent (k_statm r)))
           None kernel0 ops
  = spec_hist (spec_full pagesize r ms) None kernel0 ops.
Proof.
  intros Hr Hms Hok Hk. rewrite (full_info_smaps pagesize r ms false FENOENT Hr Hms (or_introl eq_refl)).
  cbn [with_file]. rewrite (statm_roundtrip pagesize r Hr).
  assert (E : spec_meminfo pagesize r = firstn 7 (spec_full pagesize r ms)).
  { unfold spec_full. destruct (spec_sums ms) as [[a b] c]. reflexivity. }
  rewrite E. apply hist_spec; [|exact Hok|exact Hk|discriminate].
  unfold spec_full. destruct (spec_sums ms) as [[a b] c]. reflexivity.
Qed.

(* a stale cache is wrong: [virtual_memory(); MemTotal 8 -> 4 GiB; virtual_memory(); percent]
   must divide by 4 GiB *)
Example history_example :
  spec_hist [4096; 0; 0; 0; 0; 0; 0; 0; 0; 0] None 8589934592 [HVM; HSet 4294967296; HVM; HPct (bs "rss")]
  = [Val (409600, 4294967296)]
  /\ spec_hist [4096; 0; 0; 0; 0; 0; 0; 0; 0; 0] None 8589934592 [HVM; HSet 4294967296; HPct (bs "rss")]
  = [Val (409600, 8589934592)].
Proof. split; reflexivity. Qed.


(* ------------------------------------------------ the existence probe of a marked name *)
(* number and order of the listed mappings are those of the smaps records, and every column
   but the path is the record's, whatever the probe answers: "there", "not there" for
   whatever errno (ENOENT, ENOTDIR, ENAMETOOLONG, ELOOP, EIO, EOVERFLOW ...) or "permission
   denied" -- also for names whose marker is ambiguous; the call never fails *)
Theorem maps_rows_any_probe ex ms :
  forallb wf_kernel0 ms = true -> uniform_figs ms = true ->
  exists rows, memory_maps Alive ex (FContent (k_smaps ms)) = Val rows
    /\ length rows = length ms
    /\ map w_addr rows = map m_addr ms /\ map w_perms rows = map m_perms ms
    /\ map w_nums rows = map (fun m => map (fun f => kb m f * 1024) row_figs) ms
    /\ map w_path rows = map (row_path ex) ms.
Proof.
  intros Hwf Hu. exists (map (probed_row ex) ms). split; [now apply maps_rows|].
  rewrite map_length, !map_map. repeat split.
Qed.

(* why the probe says "not there" (which errno, or a permission error) never changes the path
   a readable marker yields: an unlinked file whose marked name is too long / loops / sits on
   unreadable media / may not be looked up is listed under its own name *)
Theorem absent_errno_irrelevant ex ex' m :
  path_head_ok m = true -> m_deleted m = true ->
  is_exists (ex (shown_path m)) = false -> is_exists (ex' (shown_path m)) = false ->
  row_path ex m = row_path ex' m.
Proof. intros _ _ H H'. unfold row_path. now rewrite H, H'. Qed.

(* the defect repaired by /repo commit b718f0c: the decoding as it was before
   (clean_path_strict) let the probe's PermissionError fail the whole call with AccessDenied;
   the present one lists the unlinked file under its own name *)
Definition deny_all : bytes -> probe_res := fun _ => PDenied.
Theorem maps_probe_denied_refuted :
  wf_kernel deny_all ex_m1 = true /\ m_deleted ex_m1 = true
  /\ clean_path_strict deny_all (shown_path ex_m1) = Exc AccessDenied
  /\ clean_path deny_all (shown_path ex_m1) = Val (m_path ex_m1)
  /\ memory_maps Alive deny_all (FContent (k_smaps [ex_m1; ex_m2])) = Val (map spec_row [ex_m1; ex_m2])
  /\ map w_path (map spec_row [ex_m1; ex_m2]) = [bs "/tmp/a b:c"; bs "[anon]"].
Proof. vm_compute. repeat split. Qed.


(* ------------------------------------------------ the three views add up, for every number of mappings *)
Definition rows_col (i : nat) (rows : list maprow) : Z := fold_right (fun r a => nth i (w_nums r) 0 + a) 0 rows.

(* uss / pss / swap of memory_full_info are the column sums of the rows of memory_maps(grouped=False)
   (private_clean + private_dirty [+ Private_Hugetlb, which the rows do not carry], pss, swap) *)
Theorem full_info_vs_rows ms :
  spec_sums ms =
  (rows_col 5 (map spec_row ms) + rows_col 6 (map spec_row ms) + sum_over (fun m => kb m FPrivateHugetlb) ms * 1024,
   rows_col 2 (map spec_row ms), rows_col 9 (map spec_row ms)).
Proof.
  unfold spec_sums. f_equal; [f_equal|].
  - induction ms as [|m ms IH]; [reflexivity|]. cbn [map rows_col fold_right sum_over] in *.
    change (nth 5 (w_nums (spec_row m)) 0) with (kb m FPrivateClean * 1024).
    change (nth 6 (w_nums (spec_row m)) 0) with (kb m FPrivateDirty * 1024).
    unfold private_kb in *. unfold sum_over, rows_col in IH. lia.
  - induction ms as [|m ms IH]; [reflexivity|]. cbn [map rows_col fold_right sum_over] in *.
    change (nth 2 (w_nums (spec_row m)) 0) with (kb m FPss * 1024). unfold sum_over, rows_col in IH. lia.
  - induction ms as [|m ms IH]; [reflexivity|]. cbn [map rows_col fold_right sum_over] in *.
    change (nth 9 (w_nums (spec_row m)) 0) with (kb m FSwap * 1024). unfold sum_over, rows_col in IH. lia.
Qed.
