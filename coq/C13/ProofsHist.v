(* C13 -- memory_percent and the cached total physical memory, over histories of
   virtual_memory() calls, MemTotal changes and memory_percent() calls. *)
From PV Require Import C13.Spec C13.ProofsGroup.

Lemma memory_percent_split n mi mfi total :
  memory_percent n mi mfi total =
  (do v <- percent_value n mi mfi; if 0 <? total then Val (v * 100, total) else Exc ValueError).
Proof.
  unfold memory_percent, percent_value. destruct (index_of n pfullmem_fields) as [i|]; [|reflexivity].
  destruct (match index_of n pmem_fields with Some _ => mi | None => mfi end) as [a| |]; cbn [obind]; try reflexivity.
Qed.

Lemma percent_value_spec n full : length full = 10%nat ->
  percent_value n (Val (firstn 7 full)) (Val full) =
  match index_of n full_names with Some i => Val (nth i full 0) | None => Exc ValueError end.
Proof.
  intros Hl. pose proof (percent_spec n full 1 Hl ltac:(lia)) as P.
  rewrite memory_percent_split in P. unfold spec_percent in P.
  destruct (percent_value n (Val (firstn 7 full)) (Val full)) as [v|e|] eqn:E; cbn [obind] in P.
  - change (0 <? 1) with true in P. cbv iota in P.
    destruct (index_of n full_names) as [i|]; [|discriminate P]. injection P as P. f_equal. lia.
  - destruct (index_of n full_names) as [i|]; [discriminate P|]. injection P as ->. reflexivity.
  - destruct (index_of n full_names); discriminate P.
Qed.

(* the cache always holds what the last virtual_memory() call reported *)
Theorem hist_spec full : length full = 10%nat ->
  forall ops cache kernel, hist_ok ops = true -> 0 < kernel ->
  (forall c, cache = Some c -> 0 < c) ->
  run_hist (Val (firstn 7 full)) (Val full) cache kernel ops = spec_hist full cache kernel ops.
Proof.
  intros Hl. induction ops as [|o ops IH]; intros cache kernel Hok Hk Hc; [reflexivity|].
  cbn [hist_ok forallb] in Hok. apply andb_true_iff in Hok as [Ho Hok].
  destruct o as [|t|n]; cbn [run_hist spec_hist].
  - apply IH; auto. intros c E. injection E as <-. exact Hk.
  - apply IH; auto. now apply Z.ltb_lt.
  - rewrite (percent_value_spec n full Hl). destruct (index_of n full_names) as [i|].
    + unfold total_for_percent. destruct cache as [c|].
      * pose proof (Hc c eq_refl) as Hcp. assert (c =? 0 = false) as -> by lia.
        assert (0 <? c = true) as -> by lia. f_equal. apply IH; auto.
      * assert (0 <? kernel = true) as -> by lia. f_equal. apply IH; auto.
        intros c E. injection E as <-. exact Hk.
    + f_equal. apply IH; auto.
Qed.
