(* C13 -- lemmas about the Python primitives of the model (split(None, n), strip,
   dict get/set, re.findall scanning) shared by the proof files. *)
From PV Require Import C13.Spec.

(* ------------------------------------------------ small facts *)
Definition ws_head (l : bytes) : bool := match l with [] => true | c :: _ => is_ws c end.
Definition ws_only (l : bytes) : bool := forallb (fun c => is_ws c && negb (c =? 10)) l.

Lemma spaces_S n : spaces (S n) = 32 :: spaces n.
Proof. reflexivity. Qed.

Lemma lstrip_spaces n x : lstrip (spaces n ++ x) = lstrip x.
Proof. induction n as [|n IH]; [reflexivity|]. rewrite spaces_S. cbn [app lstrip]. exact IH. Qed.

Lemma contains_spaces b n : b <> 32 -> contains b (spaces n) = false.
Proof.
  intros Hb. induction n as [|n IH]; [reflexivity|]. rewrite spaces_S, contains_cons, IH.
  destruct (Z.eqb_spec b 32); [congruence|reflexivity].
Qed.

Lemma tok_first t : tok_ok t = true -> exists c r, t = c :: r /\ is_ws c = false.
Proof.
  destruct t as [|c r]; [discriminate|]. cbn [tok_ok no_ws forallb]. intros H.
  apply andb_true_iff in H as [Hc _]. apply negb_true_iff in Hc. eauto.
Qed.

Lemma lstrip_tok t rest : tok_ok t = true -> lstrip (t ++ rest) = t ++ rest.
Proof. intros H. destruct (tok_first t H) as (c & r & -> & Hc). cbn [app lstrip]. now rewrite Hc. Qed.

Lemma takewhile_tok t rest :
  no_ws t = true -> ws_head rest = true -> takewhile not_ws (t ++ rest) = t.
Proof.
  intros Ht Hr. induction t as [|c t IH].
  - destruct rest as [|d r]; [reflexivity|]. cbn [app takewhile]. unfold not_ws. cbn [ws_head] in Hr. now rewrite Hr.
  - cbn [no_ws forallb] in Ht. apply andb_true_iff in Ht as [Hc Ht].
    cbn [app takewhile]. unfold not_ws at 1. rewrite Hc. f_equal. now apply IH.
Qed.

Lemma dropwhile_tok t rest :
  no_ws t = true -> ws_head rest = true -> dropwhile not_ws (t ++ rest) = rest.
Proof.
  intros Ht Hr. induction t as [|c t IH].
  - destruct rest as [|d r]; [reflexivity|]. cbn [app dropwhile]. unfold not_ws. cbn [ws_head] in Hr. now rewrite Hr.
  - cbn [no_ws forallb] in Ht. apply andb_true_iff in Ht as [Hc Ht].
    cbn [app dropwhile]. unfold not_ws at 1. rewrite Hc. now apply IH.
Qed.

(* ------------------------------------------------ bytes.split(None, n) *)
Lemma split_max_S n l :
  split_max (S n) l =
  match lstrip l with
  | [] => []
  | c :: r => takewhile not_ws (c :: r) :: split_max n (dropwhile not_ws (c :: r))
  end.
Proof. cbn [split_max]. destruct (lstrip l); reflexivity. Qed.

Lemma split_max_0 l : split_max 0 l = match lstrip l with [] => [] | c :: r => [c :: r] end.
Proof. cbn [split_max]. destruct (lstrip l); reflexivity. Qed.

Lemma split_max_tok n t rest :
  tok_ok t = true -> ws_head rest = true -> split_max (S n) (t ++ rest) = t :: split_max n rest.
Proof.
  intros Ht Hr. rewrite split_max_S, (lstrip_tok t rest Ht).
  apply tok_ok_spec in Ht as [Hne Hnw].
  destruct (t ++ rest) as [|c r] eqn:E.
  - destruct t; [congruence|discriminate].
  - rewrite <- E. now rewrite takewhile_tok, dropwhile_tok.
Qed.

Lemma lstrip_idem l : lstrip (lstrip l) = lstrip l.
Proof.
  induction l as [|c l IH]; [reflexivity|]. cbn [lstrip]. destruct (is_ws c) eqn:E; [exact IH|].
  cbn [lstrip]. now rewrite E.
Qed.

Lemma split_max_lstrip n l : split_max n (lstrip l) = split_max n l.
Proof. destruct n; [rewrite !split_max_0|rewrite !split_max_S]; now rewrite lstrip_idem. Qed.

Lemma split_max_spaces n k x : split_max n (spaces k ++ x) = split_max n x.
Proof. rewrite <- split_max_lstrip, lstrip_spaces, split_max_lstrip. reflexivity. Qed.

Lemma split_max_cons_ws n c x : is_ws c = true -> split_max n (c :: x) = split_max n x.
Proof. intros H. rewrite <- split_max_lstrip. cbn [lstrip]. rewrite H. apply split_max_lstrip. Qed.

Lemma split_max_ws_only n w : forallb is_ws w = true -> split_max n w = [].
Proof.
  intros H. assert (L : lstrip w = []).
  { induction w as [|c w IH]; [reflexivity|]. cbn [forallb] in H. apply andb_true_iff in H as [Hc Hw].
    cbn [lstrip]. rewrite Hc. now apply IH. }
  destruct n; [rewrite split_max_0|rewrite split_max_S]; now rewrite L.
Qed.

Lemma suffixb_snoc c x : suffixb [c] (x ++ [c]) = true.
Proof. unfold suffixb. rewrite rev_app_distr. cbn [rev app prefixb]. now rewrite Z.eqb_refl. Qed.

Lemma suffixb_app s x : suffixb s (x ++ s) = true.
Proof. unfold suffixb. rewrite rev_app_distr. apply prefixb_app. Qed.

(* ------------------------------------------------ strip *)
Lemma rstrip_ws_tail x w : forallb is_ws w = true -> rstrip (x ++ w) = rstrip x.
Proof.
  revert x. induction w as [|c w IH] using rev_ind; intros x H.
  - now rewrite app_nil_r.
  - rewrite forallb_app in H. apply andb_true_iff in H as [Hw Hc]. cbn [forallb] in Hc.
    rewrite andb_true_r in Hc. rewrite app_assoc, rstrip_snoc, Hc. now apply IH.
Qed.

Lemma strip_core x z w :
  ws_head (x ++ [z]) = false -> is_ws z = false -> forallb is_ws w = true ->
  strip ((x ++ [z]) ++ w) = x ++ [z].
Proof.
  intros Hh Hz Hw. unfold strip.
  assert (L : lstrip ((x ++ [z]) ++ w) = (x ++ [z]) ++ w).
  { destruct (x ++ [z]) as [|c r] eqn:E; [destruct x; discriminate|].
    cbn [ws_head] in Hh. cbn [app lstrip]. now rewrite Hh. }
  rewrite L, rstrip_ws_tail by exact Hw. rewrite rstrip_snoc, Hz. reflexivity.
Qed.

Lemma fstrip_strip l : fstrip l = strip l.
Proof. unfold fstrip, strip, rstrip. now rewrite !rev_append_rev, !app_nil_r. Qed.

(* ------------------------------------------------ join / newline-separated texts *)
Definition nl_concat (xs : list bytes) : bytes := concat (map (cons 10) xs).

Lemma join_nl x xs : join [10] (x :: xs) = x ++ nl_concat xs.
Proof.
  revert x. induction xs as [|y ys IH]; intros x.
  - cbn. now rewrite app_nil_r.
  - change (join [10] (x :: y :: ys)) with (x ++ [10] ++ join [10] (y :: ys)).
    rewrite IH. reflexivity.
Qed.

Lemma nl_concat_app a b : nl_concat (a ++ b) = nl_concat a ++ nl_concat b.
Proof. unfold nl_concat. now rewrite map_app, concat_app. Qed.

(* the printed file and its stripped form, on (core, trail) pairs *)
Definition pr_line (p : bytes * bytes) : bytes := fst p ++ snd p ++ [10].
Fixpoint trim_last (pl : list (bytes * bytes)) : list bytes :=
  match pl with
  | [] => []
  | [p] => [fst p]
  | p :: r => (fst p ++ snd p) :: trim_last r
  end.

Lemma trim_last_cons p q r : trim_last (p :: q :: r) = (fst p ++ snd p) :: trim_last (q :: r).
Proof. reflexivity. Qed.

Lemma trim_last_app a b :
  b <> [] -> trim_last (a ++ b) = map (fun p => fst p ++ snd p) a ++ trim_last b.
Proof.
  intros Hb. induction a as [|p a IH]; [reflexivity|].
  cbn [app map]. destruct (a ++ b) as [|q r] eqn:E.
  - destruct a; cbn in E; [congruence|discriminate].
  - rewrite trim_last_cons, IH. reflexivity.
Qed.

Lemma join_cons2 x y ys : join [10] (x :: y :: ys) = x ++ 10 :: join [10] (y :: ys).
Proof. reflexivity. Qed.

Lemma trim_last_nonnil (p : bytes * bytes) r : trim_last (p :: r) <> [].
Proof. destruct r; discriminate. Qed.

Lemma concat_pr (pl : list (bytes * bytes)) : pl <> [] ->
  concat (map pr_line pl) = join [10] (trim_last pl) ++ snd (last pl ([], [])) ++ [10].
Proof.
  induction pl as [|p pl IH]; [congruence|]. intros _. destruct pl as [|q r].
  - cbn [map concat trim_last join last]. unfold pr_line. now rewrite app_nil_r.
  - change (concat (map pr_line (p :: q :: r))) with (pr_line p ++ concat (map pr_line (q :: r))).
    rewrite IH by discriminate. rewrite trim_last_cons.
    destruct (trim_last (q :: r)) as [|y ys] eqn:E; [now apply trim_last_nonnil in E|].
    try rewrite E. rewrite join_cons2. unfold pr_line at 1.
    change (last (p :: q :: r) ([], [])) with (last (q :: r) ([], [])).
    rewrite <- !app_assoc. reflexivity.
Qed.

Definition last_nonws (l : bytes) : bool :=
  match rev l with c :: _ => negb (is_ws c) | [] => false end.
Definition good_core (c : bytes) : bool := negb (ws_head c) && last_nonws c.

Lemma last_nonws_app a b : b <> [] -> last_nonws (a ++ b) = last_nonws b.
Proof.
  intros Hb. unfold last_nonws. rewrite rev_app_distr. destruct (rev b) eqn:E; [|reflexivity].
  apply (f_equal (@rev Z)) in E. rewrite rev_involutive in E. cbn in E. congruence.
Qed.
Lemma ws_head_app a b : a <> [] -> ws_head (a ++ b) = ws_head a.
Proof. destruct a; [congruence|reflexivity]. Qed.

Lemma strip_core' y w :
  ws_head y = false -> last_nonws y = true -> forallb is_ws w = true -> strip (y ++ w) = y.
Proof.
  intros Hh Hl Hw. unfold last_nonws in Hl. destruct (rev y) as [|z x'] eqn:E; [discriminate|].
  assert (Hy : y = rev x' ++ [z]) by (rewrite <- (rev_involutive y), E; reflexivity).
  subst y. apply strip_core; auto. now apply negb_true_iff in Hl.
Qed.

Lemma good_core_nonnil c : good_core c = true -> c <> [].
Proof. destruct c; [discriminate|congruence]. Qed.

Lemma join_trim_head (p : bytes * bytes) (r : list (bytes * bytes)) :
  fst p <> [] -> ws_head (join [10] (trim_last (p :: r))) = ws_head (fst p).
Proof.
  intros Hp. destruct r as [|q r].
  - reflexivity.
  - rewrite trim_last_cons.
    destruct (trim_last (q :: r)) as [|y ys] eqn:E; [now apply trim_last_nonnil in E|].
    try rewrite E. rewrite join_cons2, <- app_assoc. now apply ws_head_app.
Qed.

Lemma last_nonws_nonnil l : last_nonws l = true -> l <> [].
Proof. intros H Hn. subst l. discriminate. Qed.

Lemma join_trim_last (pl : list (bytes * bytes)) d :
  pl <> [] -> last_nonws (fst (last pl d)) = true -> last_nonws (join [10] (trim_last pl)) = true.
Proof.
  induction pl as [|p pl IH]; [congruence|]. intros _ H. destruct pl as [|q r].
  - exact H.
  - rewrite trim_last_cons.
    destruct (trim_last (q :: r)) as [|y ys] eqn:E; [now apply trim_last_nonnil in E|].
    try rewrite E. rewrite join_cons2.
    assert (IH' : last_nonws (join [10] (y :: ys)) = true) by (apply IH; [discriminate|exact H]).
    change (10 :: join [10] (y :: ys)) with ([10] ++ join [10] (y :: ys)). rewrite app_assoc.
    rewrite last_nonws_app; [exact IH'|]. now apply last_nonws_nonnil.
Qed.

Lemma ws_only_is_ws w : ws_only w = true -> forallb is_ws w = true.
Proof.
  induction w as [|c w IH]; [reflexivity|]. unfold ws_only. cbn [forallb]. intros H.
  apply andb_true_iff in H as [Hc Hw]. apply andb_true_iff in Hc as [Hc _]. rewrite Hc. now apply IH.
Qed.
Lemma ws_only_head w : ws_only w = true -> ws_head w = true.
Proof. destruct w as [|c w]; [reflexivity|]. unfold ws_only. cbn [forallb ws_head]. intros H.
  apply andb_true_iff in H as [Hc _]. now apply andb_true_iff in Hc as [Hc _]. Qed.
Lemma ws_only_no_nl w : ws_only w = true -> contains 10 w = false.
Proof.
  induction w as [|c w IH]; [reflexivity|]. unfold ws_only. cbn [forallb]. intros H.
  apply andb_true_iff in H as [Hc Hw]. apply andb_true_iff in Hc as [_ Hc]. apply negb_true_iff in Hc.
  rewrite contains_cons, IH by exact Hw. rewrite Z.eqb_sym, Hc. reflexivity.
Qed.

Lemma nth_indep_last {A} (l : list A) d d' : l <> [] -> last l d = last l d'.
Proof.
  induction l as [|x l IH]; [congruence|]. intros _. destruct l as [|y l]; [reflexivity|].
  change (last (x :: y :: l) d) with (last (y :: l) d). change (last (x :: y :: l) d') with (last (y :: l) d').
  apply IH. discriminate.
Qed.

Lemma last_app_nonnil {A} (a b : list A) d : b <> [] -> last (a ++ b) d = last b d.
Proof.
  intros Hb. induction a as [|x a IH]; [reflexivity|].
  cbn [app]. destruct (a ++ b) as [|y l] eqn:E.
  - destruct a; cbn in E; [congruence|discriminate].
  - change (last (x :: y :: l) d) with (last (y :: l) d). exact IH.
Qed.

(* the stripped content of a printed file whose lines are (core, trail) pairs *)
Theorem strip_printed (p : bytes * bytes) (r : list (bytes * bytes)) d :
  ws_head (fst p) = false ->
  last_nonws (fst (last (p :: r) d)) = true -> ws_only (snd (last (p :: r) d)) = true ->
  strip (concat (map pr_line (p :: r))) = join [10] (trim_last (p :: r)).
Proof.
  intros Hh Hl Hw. rewrite concat_pr by discriminate.
  apply strip_core'.
  - rewrite join_trim_head; [exact Hh|]. intros Hn. rewrite Hn in Hh. discriminate.
  - apply (join_trim_last (p :: r) d); [discriminate|exact Hl].
  - rewrite forallb_app. apply andb_true_iff. split; [|reflexivity].
    apply ws_only_is_ws. rewrite (nth_indep_last _ ([], []) d) by discriminate. exact Hw.
Qed.

(* ------------------------------------------------ dict *)
Lemma dict_get_set k k' v d :
  dict_get k (dict_set k' v d) = if beqb k k' then v else dict_get k d.
Proof.
  induction d as [|[k0 v0] r IH]; [reflexivity|].
  cbn [dict_set]. destruct (beqb k' k0) eqn:E0.
  - apply beqb_eq in E0. subst k0. cbn [dict_get]. destruct (beqb k k'); reflexivity.
  - cbn [dict_get]. rewrite IH. destruct (beqb k k0) eqn:E1; [|reflexivity].
    destruct (beqb k k') eqn:E2; [|reflexivity].
    apply beqb_eq in E1, E2. subst. rewrite beqb_refl in E0. discriminate.
Qed.

Lemma parse_int_lower c r : is_lower c = true -> no_ws (c :: r) = true -> parse_int (c :: r) = None.
Proof.
  intros Hc Hnw. unfold parse_int, parse_signed. rewrite strip_no_ws by exact Hnw.
  unfold is_lower in Hc.
  assert (c =? 45 = false) as -> by lia. assert (c =? 43 = false) as -> by lia.
  cbn [digits_us]. unfold digit_val.
  assert ((48 <=? c) && (c <=? 57) = false) as -> by lia.
  assert ((97 <=? c) && (c <=? 122) = true) as -> by lia.
  assert (c - 87 <? 10 = false) as -> by lia.
  assert ((c =? 95) && false = false) as -> by apply andb_false_r. reflexivity.
Qed.
