(* C13 -- _parse_smaps: the three regular-expression scans over every
   kernel-formatted smaps listing give the per-mapping sums. *)
From PV Require Import C13.Spec C13.Lib C13.ProofsMaps.

Definition nl_or_end (b : bytes) : Prop := b = [] \/ exists b', b = 10 :: b'.
Definition stop (p : Z -> bool) (b : bytes) : bool := match b with [] => true | c :: _ => negb (p c) end.

Lemma takewhile_app p a b : forallb p a = true -> stop p b = true -> takewhile p (a ++ b) = a.
Proof.
  intros Ha Hb. induction a as [|c a IH].
  - destruct b as [|d b]; [reflexivity|]. cbn [app takewhile]. cbn [stop] in Hb. apply negb_true_iff in Hb. now rewrite Hb.
  - cbn [forallb] in Ha. apply andb_true_iff in Ha as [Hc Ha]. cbn [app takewhile]. rewrite Hc. f_equal. now apply IH.
Qed.
Lemma dropwhile_app p a b : forallb p a = true -> stop p b = true -> dropwhile p (a ++ b) = b.
Proof.
  intros Ha Hb. induction a as [|c a IH].
  - destruct b as [|d b]; [reflexivity|]. cbn [app dropwhile]. cbn [stop] in Hb. apply negb_true_iff in Hb. now rewrite Hb.
  - cbn [forallb] in Ha. apply andb_true_iff in Ha as [Hc Ha]. cbn [app dropwhile]. rewrite Hc. now apply IH.
Qed.

Lemma spaces_ws n : forallb is_ws (spaces n) = true.
Proof. induction n as [|n IH]; [reflexivity|]. rewrite spaces_S. cbn [forallb]. now rewrite IH. Qed.
Lemma spaces_length n : length (spaces n) = n.
Proof. apply repeat_length. Qed.

(* \s+(\d+) right after the colon of a "Name:   value kB" line *)
Lemma after_colon_fig pad v rest : is_dec v = true ->
  after_colon (spaces (S pad) ++ v ++ kb_sfx ++ rest) = Some (v, (S pad + length v)%nat).
Proof.
  intros Hv. unfold after_colon.
  destruct v as [|c r] eqn:Ev; [discriminate|]. rewrite <- Ev in *.
  assert (Hd : all_digits v = true) by (rewrite Ev in *; exact Hv).
  assert (Hs : stop is_ws (v ++ kb_sfx ++ rest) = true).
  { rewrite Ev. cbn [app stop]. rewrite Ev in Hd. cbn [all_digits forallb] in Hd.
    apply andb_true_iff in Hd as [Hc _]. now rewrite (digit_not_ws c Hc). }
  rewrite takewhile_app, dropwhile_app by (auto using spaces_ws).
  rewrite takewhile_app; [|exact Hd|reflexivity].
  rewrite spaces_S at 1. rewrite Ev at 1. now rewrite spaces_length.
Qed.

(* ------------------------------------------------ re.findall over lines *)
Section Scan.
Variable try : bytes -> option (bytes * nat).
Variable sel : fig -> bool.
Hypothesis try_nl : forall l, try l <> None -> exists r, l = 10 :: r.

Lemma try_non_nl c r : c <> 10 -> try (c :: r) = None.
Proof.
  intros Hc. destruct (try (c :: r)) eqn:E; [|reflexivity].
  destruct (try_nl (c :: r)) as (r' & Er); [congruence|]. congruence.
Qed.

Lemma findall_within x : forall k b, (k <= length x)%nat -> contains 10 x = false ->
  findall try k (x ++ b) = findall try 0 b.
Proof.
  induction x as [|c x IH]; intros k b Hk Hx.
  - destruct k; [reflexivity|cbn in Hk; lia].
  - rewrite contains_cons in Hx. apply orb_false_iff in Hx as [Hc Hx].
    cbn [app findall]. destruct k as [|k].
    + rewrite try_non_nl by (intros ->; discriminate). apply (IH O); [lia|exact Hx].
    + apply IH; [cbn [length] in Hk; lia|exact Hx].
Qed.

Lemma findall_miss x b : try (10 :: x ++ b) = None -> contains 10 x = false ->
  findall try 0 (10 :: x ++ b) = findall try 0 b.
Proof. intros Ht Hx. cbn [findall]. rewrite Ht. apply (findall_within x O); [lia|exact Hx]. Qed.

Lemma findall_hit x b d n : try (10 :: x ++ b) = Some (d, n) -> (1 <= n <= S (length x))%nat ->
  contains 10 x = false -> findall try 0 (10 :: x ++ b) = d :: findall try 0 b.
Proof. intros Ht Hn Hx. cbn [findall]. rewrite Ht. f_equal. apply findall_within; [lia|exact Hx]. Qed.

(* what the pattern does on each kind of line *)
Hypothesis try_fig : forall f pad v t b, is_dec v = true -> ws_only t = true -> nl_or_end b ->
  if sel f
  then exists n, try (10 :: fig_name f ++ 58 :: spaces (S pad) ++ v ++ kb_sfx ++ t ++ b) = Some (v, n)
                 /\ (1 <= n <= S (length (fig_name f) + 1 + S pad + length v))%nat
  else try (10 :: fig_name f ++ 58 :: spaces (S pad) ++ v ++ kb_sfx ++ t ++ b) = None.
Hypothesis try_other : forall n rest, other_name_ok n = true -> try (10 :: n ++ 58 :: rest) = None.
Hypothesis try_first : forall c rest, c <> 80 -> c <> 83 -> try (10 :: c :: rest) = None.

Definition hit (l : kline) : list bytes :=
  match l with LFig f _ v => if sel f then [v] else [] | _ => [] end.

Lemma line_scan l x b : wf_line l = true -> is_text l x -> nl_or_end b ->
  findall try 0 (10 :: x ++ b) = hit l ++ findall try 0 b.
Proof.
  intros Hwf Hx Hb. pose proof (is_text_no_nl l x Hwf Hx) as Hnl.
  apply is_text_form in Hx as (t & Ht & ->).
  destruct l as [f pad v|n pad v kb|fl]; cbn [line_core wf_line hit] in *.
  - pose proof (try_fig f pad v t b Hwf Ht Hb) as T.
    assert (E : ((fig_name f ++ 58 :: spaces (S pad) ++ v ++ kb_sfx) ++ t) ++ b
                = fig_name f ++ 58 :: spaces (S pad) ++ v ++ kb_sfx ++ t ++ b).
    { rewrite fig_text_assoc. rewrite <- app_assoc. cbn [app]. rewrite <- !app_assoc. reflexivity. }
    rewrite <- E in T. destruct (sel f).
    + destruct T as (n & T & Hn). apply (findall_hit _ b v n T); [|exact Hnl].
      rewrite !app_length. cbn [length]. rewrite !app_length, spaces_length. lia.
    + now apply findall_miss.
  - apply andb_true_iff in Hwf as [Hn Hv]. cbn [app]. apply findall_miss; [|exact Hnl].
    rewrite <- !app_assoc. cbn [app]. now apply try_other.
  - cbn [app]. apply findall_miss; [|exact Hnl]. apply try_first; discriminate.
Qed.

Lemma nl_concat_end ys b : nl_or_end b -> nl_or_end (nl_concat ys ++ b).
Proof. intros Hb. destruct ys as [|y ys]; [exact Hb|]. right. unfold nl_concat. cbn [map concat app]. eauto. Qed.

Lemma lines_scan ls xs b : forallb wf_line ls = true -> Forall2 is_text ls xs -> nl_or_end b ->
  findall try 0 (nl_concat xs ++ b) = concat (map hit ls) ++ findall try 0 b.
Proof.
  intros Hwf H Hb. induction H as [|l x ls xs Hx _ IH]; [reflexivity|].
  cbn [forallb] in Hwf. apply andb_true_iff in Hwf as [Hl Hls].
  unfold nl_concat. cbn [map concat]. fold (nl_concat xs). rewrite <- !app_assoc. cbn [app].
  rewrite (line_scan l x (nl_concat xs ++ b) Hl Hx (nl_concat_end xs b Hb)).
  rewrite IH by exact Hls. cbn [map concat]. now rewrite app_assoc.
Qed.

Lemma hdr_scan m b : wf_kernel0 m = true ->
  findall try 0 (10 :: hdr_text m ++ b) = findall try 0 b.
Proof.
  intros Hk. apply findall_miss; [|now apply (hdr_text_no_nl)].
  pose proof Hk as Hk2. apply wf_kernel_parts in Hk as (_ & _ & Hh & _).
  unfold hdr_text, hdr_core, hdr_tokens. cbn [join]. destruct (m_addr m) as [|c r]; [discriminate|].
  rewrite <- !app_assoc. cbn [app]. unfold is_hex, is_digit in Hh. apply try_first; lia.
Qed.

Definition mhits (m : mapping) : list bytes := concat (map hit (m_lines m)).

Lemma texts_scan ms ys : texts_of ms ys -> forallb wf_kernel0 ms = true ->
  forall b, nl_or_end b ->
  findall try 0 (nl_concat ys ++ b) = concat (map mhits ms) ++ findall try 0 b.
Proof.
  induction 1 as [|m ms xs ys Hx _ IH]; intros Hwf b Hb; [reflexivity|].
  cbn [forallb] in Hwf. apply andb_true_iff in Hwf as [Hm Hms].
  unfold nl_concat. cbn [map concat]. fold (nl_concat (xs ++ ys)). rewrite nl_concat_app.
  rewrite <- !app_assoc. cbn [app]. rewrite (hdr_scan m _ Hm).
  rewrite (lines_scan (m_lines m) xs); [| |exact Hx|now apply nl_concat_end].
  2:{ now apply wf_kernel_parts in Hm as (_ & _ & _ & _ & Hl & _). }
  rewrite IH by assumption. cbn [map concat]. unfold mhits at 2. now rewrite app_assoc.
Qed.

(* the scan of the stripped listing *)
Lemma smaps_scan ms : forallb wf_kernel0 ms = true ->
  findall try 0 (strip (k_smaps ms)) = concat (map mhits ms).
Proof.
  intros Hk. destruct ms as [|m0 ms]; [reflexivity|].
  rewrite (strip_smaps m0 ms Hk).
  pose proof (texts_of_plines (m0 :: ms) (wf_has_lines _ Hk)) as Ht.
  remember (trim_last (plines (m0 :: ms))) as T eqn:ET. clear ET.
  inversion Ht as [|? ? xs ys Hx Hy E1 E2]; subst.
  cbn [forallb] in Hk. apply andb_true_iff in Hk as [Hk0 Hks].
  rewrite join_nl, nl_concat_app.
  rewrite <- (app_nil_r (nl_concat ys)).
  rewrite (findall_within (hdr_text m0) O); [|lia|now apply (hdr_text_no_nl)].
  rewrite (lines_scan (m_lines m0) xs); [| |exact Hx|apply nl_concat_end; now left].
  2:{ now apply wf_kernel_parts in Hk0 as (_ & _ & _ & _ & Hl & _). }
  rewrite (texts_scan ms ys Hy Hks [] (or_introl eq_refl)).
  cbn [map concat findall]. unfold mhits at 2. now rewrite app_nil_r.
Qed.
End Scan.

(* ------------------------------------------------ the three patterns *)
Lemma prefixb_nl_head p l : prefixb (10 :: p) l = true -> exists r, l = 10 :: r.
Proof.
  destruct l as [|c r]; [discriminate|]. cbn [prefixb]. intros H. apply andb_true_iff in H as [H _].
  apply Z.eqb_eq in H. subst c. eauto.
Qed.

Lemma try_private_nl l : try_private l <> None -> exists r, l = 10 :: r.
Proof. unfold try_private. destruct (prefixb (10 :: bs "Private") l) eqn:E; [intros _; now apply prefixb_nl_head in E|congruence]. Qed.
Lemma try_pss_nl l : try_pss l <> None -> exists r, l = 10 :: r.
Proof. unfold try_pss. destruct (prefixb (10 :: bs "Pss:") l) eqn:E; [intros _; now apply prefixb_nl_head in E|congruence]. Qed.
Lemma try_swap_nl l : try_swap l <> None -> exists r, l = 10 :: r.
Proof. unfold try_swap. destruct (prefixb (10 :: bs "Swap:") l) eqn:E; [intros _; now apply prefixb_nl_head in E|congruence]. Qed.

Lemma prefixb_app_sep s p : contains s p = false -> forall n r, prefixb p (n ++ s :: r) = prefixb p n.
Proof.
  induction p as [|a p IH]; intros Hp n r; [destruct n; reflexivity|].
  rewrite contains_cons in Hp. apply orb_false_iff in Hp as [Ha Hp].
  destruct n as [|c n]; cbn [app prefixb].
  - rewrite Z.eqb_sym, Ha. reflexivity.
  - now rewrite IH.
Qed.

Lemma prefixb_name_colon p : contains 58 p = false -> forall n r, contains 58 n = false ->
  prefixb (p ++ [58]) (n ++ 58 :: r) = true -> n = p.
Proof.
  induction p as [|a p IH]; intros Hp n r Hn H.
  - destruct n as [|c n]; [reflexivity|]. cbn [app prefixb] in H. apply andb_true_iff in H as [H _].
    rewrite contains_cons in Hn. apply orb_false_iff in Hn as [Hc _]. congruence.
  - rewrite contains_cons in Hp. apply orb_false_iff in Hp as [Ha Hp].
    destruct n as [|c n]; cbn [app prefixb] in H; apply andb_true_iff in H as [H1 H2].
    + rewrite Z.eqb_sym in Ha. congruence.
    + rewrite contains_cons in Hn. apply orb_false_iff in Hn as [_ Hn].
      apply Z.eqb_eq in H1. subst c. f_equal. now apply (IH Hp n r).
Qed.

Lemma other_ne n f : other_name_ok n = true -> n <> fig_name f.
Proof.
  intros H E. pose proof (other_key_ne n f H) as K. subst n. unfold fkey in K. rewrite beqb_refl in K. discriminate.
Qed.
Lemma other_no_colon n : other_name_ok n = true -> contains 58 n = false.
Proof.
  unfold other_name_ok. intros H. apply andb_true_iff in H as [H _]. apply andb_true_iff in H as [H _].
  apply andb_true_iff in H as [_ H]. now apply negb_true_iff in H.
Qed.
Lemma other_not_private n : other_name_ok n = true -> prefixb (bs "Private") n = false.
Proof.
  unfold other_name_ok. intros H. apply andb_true_iff in H as [H _]. apply andb_true_iff in H as [_ H].
  now apply negb_true_iff in H.
Qed.

Lemma try_private_other n rest : other_name_ok n = true -> try_private (10 :: n ++ 58 :: rest) = None.
Proof.
  intros H. unfold try_private. cbn [prefixb]. rewrite Z.eqb_refl. cbn [andb].
  rewrite prefixb_app_sep by reflexivity. now rewrite (other_not_private n H).
Qed.
Lemma try_pss_other n rest : other_name_ok n = true -> try_pss (10 :: n ++ 58 :: rest) = None.
Proof.
  intros H. unfold try_pss. cbn [prefixb]. rewrite Z.eqb_refl. cbn [andb].
  destruct (prefixb (bs "Pss:") (n ++ 58 :: rest)) eqn:E; [|reflexivity].
  apply (prefixb_name_colon (bs "Pss")) in E; [|reflexivity|now apply other_no_colon].
  now apply (other_ne n FPss H) in E.
Qed.
Lemma try_swap_other n rest : other_name_ok n = true -> try_swap (10 :: n ++ 58 :: rest) = None.
Proof.
  intros H. unfold try_swap. cbn [prefixb]. rewrite Z.eqb_refl. cbn [andb].
  destruct (prefixb (bs "Swap:") (n ++ 58 :: rest)) eqn:E; [|reflexivity].
  apply (prefixb_name_colon (bs "Swap")) in E; [|reflexivity|now apply other_no_colon].
  now apply (other_ne n FSwap H) in E.
Qed.

Lemma try_private_first c rest : c <> 80 -> c <> 83 -> try_private (10 :: c :: rest) = None.
Proof.
  intros H _. unfold try_private. change (bs "Private") with (80 :: bs "rivate"). cbn [prefixb].
  assert (80 =? c = false) as -> by lia. now rewrite andb_false_r.
Qed.
Lemma try_pss_first c rest : c <> 80 -> c <> 83 -> try_pss (10 :: c :: rest) = None.
Proof.
  intros H _. unfold try_pss. change (bs "Pss:") with (80 :: bs "ss:"). cbn [prefixb].
  assert (80 =? c = false) as -> by lia. now rewrite andb_false_r.
Qed.
Lemma try_swap_first c rest : c <> 80 -> c <> 83 -> try_swap (10 :: c :: rest) = None.
Proof.
  intros _ H. unfold try_swap. change (bs "Swap:") with (83 :: bs "wap:"). cbn [prefixb].
  assert (83 =? c = false) as -> by lia. now rewrite andb_false_r.
Qed.

(* "Pss:" / "Swap:" are anchored: only the line of that name matches *)
Lemma try_pss_fig f pad v t b : is_dec v = true -> ws_only t = true -> nl_or_end b ->
  if fig_eqb FPss f
  then exists n, try_pss (10 :: fig_name f ++ 58 :: spaces (S pad) ++ v ++ kb_sfx ++ t ++ b) = Some (v, n)
                 /\ (1 <= n <= S (length (fig_name f) + 1 + S pad + length v))%nat
  else try_pss (10 :: fig_name f ++ 58 :: spaces (S pad) ++ v ++ kb_sfx ++ t ++ b) = None.
Proof.
  intros Hv _ _. destruct f; try reflexivity.
  cbn [fig_eqb]. exists (5 + (S pad + length v))%nat. split; [|cbn [fig_name length bs]; cbn; lia].
  unfold try_pss.
  change (prefixb (10 :: bs "Pss:") (10 :: fig_name FPss ++ 58 :: spaces (S pad) ++ v ++ kb_sfx ++ t ++ b)) with true.
  change (skipn 5 (10 :: fig_name FPss ++ 58 :: spaces (S pad) ++ v ++ kb_sfx ++ t ++ b))
    with (spaces (S pad) ++ v ++ kb_sfx ++ t ++ b).
  now rewrite after_colon_fig.
Qed.
Lemma try_swap_fig f pad v t b : is_dec v = true -> ws_only t = true -> nl_or_end b ->
  if fig_eqb FSwap f
  then exists n, try_swap (10 :: fig_name f ++ 58 :: spaces (S pad) ++ v ++ kb_sfx ++ t ++ b) = Some (v, n)
                 /\ (1 <= n <= S (length (fig_name f) + 1 + S pad + length v))%nat
  else try_swap (10 :: fig_name f ++ 58 :: spaces (S pad) ++ v ++ kb_sfx ++ t ++ b) = None.
Proof.
  intros Hv _ _. destruct f; try reflexivity.
  cbn [fig_eqb]. exists (6 + (S pad + length v))%nat. split; [|cbn [fig_name length bs]; cbn; lia].
  unfold try_swap.
  change (prefixb (10 :: bs "Swap:") (10 :: fig_name FSwap ++ 58 :: spaces (S pad) ++ v ++ kb_sfx ++ t ++ b)) with true.
  change (skipn 6 (10 :: fig_name FSwap ++ 58 :: spaces (S pad) ++ v ++ kb_sfx ++ t ++ b))
    with (spaces (S pad) ++ v ++ kb_sfx ++ t ++ b).
  now rewrite after_colon_fig.
Qed.

(* "Private.*:" : greedy .* ends at the rightmost admissible ':' of the line *)
Lemma dotstar_none body rest : contains 58 body = false -> contains 10 body = false -> nl_or_end rest ->
  dotstar_colon (body ++ rest) = None.
Proof.
  intros H58 H10 Hr. induction body as [|c body IH].
  - destruct Hr as [->|(b' & ->)]; reflexivity.
  - rewrite contains_cons in H58, H10. apply orb_false_iff in H58 as [Hc58 H58]. apply orb_false_iff in H10 as [Hc10 H10].
    cbn [app dotstar_colon]. rewrite Z.eqb_sym in Hc10, Hc58. rewrite Hc10, IH by assumption. now rewrite Hc58.
Qed.

Lemma dotstar_one a body rest d n :
  contains 10 a = false -> contains 58 body = false -> contains 10 body = false -> nl_or_end rest ->
  after_colon (body ++ rest) = Some (d, n) ->
  dotstar_colon (a ++ 58 :: body ++ rest) = Some (d, (length a + S n)%nat).
Proof.
  intros Ha Hb58 Hb10 Hr Hac. induction a as [|c a IH].
  - cbn [app dotstar_colon length]. change (58 =? 10) with false. cbv iota.
    rewrite dotstar_none by assumption. rewrite Z.eqb_refl, Hac. reflexivity.
  - rewrite contains_cons in Ha. apply orb_false_iff in Ha as [Hc Ha]. rewrite Z.eqb_sym in Hc.
    cbn [app dotstar_colon length]. rewrite Hc, IH by exact Ha. reflexivity.
Qed.

Lemma ws_only_no58 t : ws_only t = true -> contains 58 t = false.
Proof.
  induction t as [|c t IH]; [reflexivity|]. unfold ws_only. cbn [forallb]. intros H.
  apply andb_true_iff in H as [Hc Ht]. apply andb_true_iff in Hc as [Hc _].
  rewrite contains_cons, IH by exact Ht. unfold is_ws in Hc.
  assert (58 =? c = false) as -> by lia. reflexivity.
Qed.

Lemma digits_no58 v : all_digits v = true -> contains 58 v = false.
Proof.
  induction v as [|c v IH]; [reflexivity|]. cbn [all_digits forallb]. intros H.
  apply andb_true_iff in H as [Hc Hv]. rewrite contains_cons, IH by exact Hv. unfold is_digit in Hc.
  assert (58 =? c = false) as -> by lia. reflexivity.
Qed.

Definition is_private (f : fig) : bool :=
  match f with FPrivateClean | FPrivateDirty | FPrivateHugetlb => true | _ => false end.

Lemma private_tail a pad v t b :
  contains 10 a = false -> is_dec v = true -> ws_only t = true -> nl_or_end b ->
  dotstar_colon (a ++ 58 :: spaces (S pad) ++ v ++ kb_sfx ++ t ++ b)
  = Some (v, (length a + S (S pad + length v))%nat).
Proof.
  intros Ha Hv Ht Hb.
  replace (spaces (S pad) ++ v ++ kb_sfx ++ t ++ b) with ((spaces (S pad) ++ v ++ kb_sfx ++ t) ++ b)
    by (now rewrite <- !app_assoc).
  assert (Hd : all_digits v = true) by (destruct v; [discriminate|exact Hv]).
  apply dotstar_one; auto.
  - rewrite !contains_app, contains_spaces by discriminate. rewrite (digits_no58 v Hd), (ws_only_no58 t Ht). reflexivity.
  - rewrite !contains_app, contains_spaces by discriminate.
    rewrite (tok_no_nl v (is_dec_tok_ok v Hv)), (ws_only_no_nl t Ht). reflexivity.
  - rewrite <- !app_assoc. now apply after_colon_fig.
Qed.

Lemma try_private_fig f pad v t b : is_dec v = true -> ws_only t = true -> nl_or_end b ->
  if is_private f
  then exists n, try_private (10 :: fig_name f ++ 58 :: spaces (S pad) ++ v ++ kb_sfx ++ t ++ b) = Some (v, n)
                 /\ (1 <= n <= S (length (fig_name f) + 1 + S pad + length v))%nat
  else try_private (10 :: fig_name f ++ 58 :: spaces (S pad) ++ v ++ kb_sfx ++ t ++ b) = None.
Proof.
  intros Hv Ht Hb. destruct f; try reflexivity; cbn [is_private]; unfold try_private.
  - change (prefixb (10 :: bs "Private") (10 :: fig_name FPrivateClean ++ 58 :: spaces (S pad) ++ v ++ kb_sfx ++ t ++ b)) with true.
    change (skipn 8 (10 :: fig_name FPrivateClean ++ 58 :: spaces (S pad) ++ v ++ kb_sfx ++ t ++ b))
      with (bs "_Clean" ++ 58 :: spaces (S pad) ++ v ++ kb_sfx ++ t ++ b).
    rewrite private_tail by (auto; reflexivity). cbn [shift]. eexists. split; [reflexivity|]. cbn; lia.
  - change (prefixb (10 :: bs "Private") (10 :: fig_name FPrivateDirty ++ 58 :: spaces (S pad) ++ v ++ kb_sfx ++ t ++ b)) with true.
    change (skipn 8 (10 :: fig_name FPrivateDirty ++ 58 :: spaces (S pad) ++ v ++ kb_sfx ++ t ++ b))
      with (bs "_Dirty" ++ 58 :: spaces (S pad) ++ v ++ kb_sfx ++ t ++ b).
    rewrite private_tail by (auto; reflexivity). cbn [shift]. eexists. split; [reflexivity|]. cbn; lia.
  - change (prefixb (10 :: bs "Private") (10 :: fig_name FPrivateHugetlb ++ 58 :: spaces (S pad) ++ v ++ kb_sfx ++ t ++ b)) with true.
    change (skipn 8 (10 :: fig_name FPrivateHugetlb ++ 58 :: spaces (S pad) ++ v ++ kb_sfx ++ t ++ b))
      with (bs "_Hugetlb" ++ 58 :: spaces (S pad) ++ v ++ kb_sfx ++ t ++ b).
    rewrite private_tail by (auto; reflexivity). cbn [shift]. eexists. split; [reflexivity|]. cbn; lia.
Qed.

(* ------------------------------------------------ sums *)
Lemma sum_ints_acc ds : forall a, fold_left (fun a d => a + dec_val d) ds a = a + sum_ints ds.
Proof.
  unfold sum_ints. induction ds as [|d ds IH]; intros a; cbn [fold_left]; [lia|].
  rewrite IH, (IH (0 + dec_val d)). lia.
Qed.
Lemma sum_ints_app x y : sum_ints (x ++ y) = sum_ints x + sum_ints y.
Proof. unfold sum_ints at 1. rewrite fold_left_app. fold (sum_ints x). apply sum_ints_acc. Qed.
Lemma sum_ints_one v : sum_ints [v] = dec_val v.
Proof. reflexivity. Qed.

Lemma hit_single f ls : (count_fig f ls <= 1)%nat ->
  sum_ints (concat (map (hit (fig_eqb f)) ls)) = fig_kb f ls.
Proof.
  unfold fig_kb. induction ls as [|l ls IH]; intros Hc; [reflexivity|].
  cbn [map concat count_fig find_fig] in *. rewrite sum_ints_app.
  destruct l as [g pad v|n pad v kb|fl]; cbn [hit line_fig] in *.
  - destruct (fig_eqb f g).
    + rewrite sum_ints_one. assert (H0 : count_fig f ls = O) by lia.
      rewrite IH by lia. now rewrite (find_fig_count0 f ls H0), Z.add_0_r.
    + now rewrite IH.
  - now rewrite IH.
  - now rewrite IH.
Qed.

Lemma hit_private_split ls :
  sum_ints (concat (map (hit is_private) ls)) =
  sum_ints (concat (map (hit (fig_eqb FPrivateClean)) ls))
  + sum_ints (concat (map (hit (fig_eqb FPrivateDirty)) ls))
  + sum_ints (concat (map (hit (fig_eqb FPrivateHugetlb)) ls)).
Proof.
  induction ls as [|l ls IH]; [reflexivity|]. cbn [map concat]. rewrite !sum_ints_app, IH.
  destruct l as [g pad v|n pad v kb|fl]; cbn [hit]; [|cbn; lia|cbn; lia].
  destruct g; cbn [is_private fig_eqb]; rewrite ?sum_ints_one; change (sum_ints []) with 0; lia.
Qed.

Lemma sum_mhits sel (f : mapping -> Z) ms :
  (forall m, In m ms -> sum_ints (mhits sel m) = f m) ->
  sum_ints (concat (map (mhits sel) ms)) = sum_over f ms.
Proof.
  induction ms as [|m ms IH]; intros H; [reflexivity|].
  cbn [map concat sum_over fold_right]. rewrite sum_ints_app, H by (now left).
  unfold sum_over in IH. rewrite IH; [reflexivity|]. intros m' Hm'. apply H. now right.
Qed.

Lemma counts_of m : wf_kernel0 m = true ->
  (count_fig FPrivateClean (m_lines m) <= 1)%nat /\ (count_fig FPrivateDirty (m_lines m) <= 1)%nat
  /\ (count_fig FPrivateHugetlb (m_lines m) <= 1)%nat /\ (count_fig FPss (m_lines m) <= 1)%nat
  /\ (count_fig FSwap (m_lines m) <= 1)%nat.
Proof.
  intros H. repeat split; now apply (count_le1).
Qed.

(* _parse_smaps on every kernel-formatted listing *)
Theorem smaps_sums_spec ms : forallb wf_kernel0 ms = true ->
  smaps_sums (strip (k_smaps ms)) = spec_sums ms.
Proof.
  intros Hk. unfold smaps_sums, spec_sums.
  rewrite (smaps_scan try_private is_private try_private_nl try_private_fig try_private_other try_private_first ms Hk).
  rewrite (smaps_scan try_pss (fig_eqb FPss) try_pss_nl try_pss_fig try_pss_other try_pss_first ms Hk).
  rewrite (smaps_scan try_swap (fig_eqb FSwap) try_swap_nl try_swap_fig try_swap_other try_swap_first ms Hk).
  rewrite forallb_forall in Hk.
  rewrite (sum_mhits is_private private_kb), (sum_mhits (fig_eqb FPss) (fun m => kb m FPss)),
          (sum_mhits (fig_eqb FSwap) (fun m => kb m FSwap)); [reflexivity| | |].
  - intros m Hm. destruct (counts_of m (Hk m Hm)) as (_ & _ & _ & _ & H). unfold mhits, kb. now apply hit_single.
  - intros m Hm. destruct (counts_of m (Hk m Hm)) as (_ & _ & _ & H & _). unfold mhits, kb. now apply hit_single.
  - intros m Hm. destruct (counts_of m (Hk m Hm)) as (H1 & H2 & H3 & _). unfold mhits, private_kb, kb.
    rewrite hit_private_split, !hit_single by assumption. reflexivity.
Qed.
