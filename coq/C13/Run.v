(* Entry points evaluated by the correspondence harness (props/C13.py). *)
From PV Require Export C13.Spec.

Require Import Coq.Strings.HexString.
(* Coq prints numerals slowly (milliseconds per 60-bit number, and per list element), so
   results travel as strings: integers as "0x.." / "-0x..", large files as "x<hex bytes>";
   props/C13.py (_decode) turns them back into the canonical int / bytes forms. *)
Definition jz (z : Z) : jv := JC (HexString.of_Z z) [].
Definition jv_zs (l : list Z) : jv := JL (map jz l).
Definition hexd (n : Z) : ascii := ascii_of_N (Z.to_N (if n <? 10 then 48 + n else 87 + n)).
Fixpoint hexs (l : bytes) : string :=
  match l with
  | [] => EmptyString
  | c :: r => String (hexd (Z.shiftr c 4)) (String (hexd (Z.land c 15)) (hexs r))
  end.
(* in chunks of 256 bytes: Coq's printer overflows its stack on very long strings *)
Fixpoint hexc (l : bytes) (k : nat) : string * list string :=
  match l with
  | [] => (EmptyString, [])
  | c :: r =>
    let h := hexd (Z.shiftr c 4) in
    let o := hexd (Z.land c 15) in
    match k with
    | O => let '(s, cs) := hexc r 255 in (String h (String o EmptyString), s :: cs)
    | S k' => let '(s, cs) := hexc r k' in (String h (String o s), cs)
    end
  end.
Definition jpack (l : bytes) : jv :=
  let '(s, cs) := hexc l 255 in JC "X" (map (fun s => JC (String "x" s) []) (s :: cs)).
Definition jv_sums (s : sums) : jv := let '(a, b, c) := s in JL [jz a; jz b; jz c].
Definition jv_row (r : maprow) : jv := JL [JB (w_addr r); JB (w_perms r); JB (w_path r); jv_zs (w_nums r)].
Definition jv_rows (rs : list maprow) : jv := JL (map jv_row rs).
Definition jv_grow (g : bytes * list Z) : jv := JL [JB (fst g); jv_zs (snd g)].
Definition jv_grouped (gs : list (bytes * list Z)) : jv := JL (map jv_grow gs).
(* the caller's os.stat on marked names: [ex] = names that exist, [den] = names answered with
   EACCES / EPERM, every other name = absent (ENOENT or any other errno) *)
Definition probe_of (ex den : list bytes) : bytes -> probe_res :=
  fun p => if existsb (beqb p) ex then PExists else if existsb (beqb p) den then PDenied else PAbsent.
Definition ex_of (l : list bytes) : bytes -> probe_res := probe_of l [].

Definition ps_of (n : Z) : pstate := if n =? 0 then Alive else if n =? 1 then Zombie else Gone.
(* file selector: 0 = present with this content, 1 = ENOENT, 2 = ESRCH, 3 = EACCES *)
Definition fr (mode : Z) (b : bytes) : file_res :=
  if mode =? 0 then FContent b else if mode =? 1 then FENOENT else if mode =? 2 then FESRCH else FEACCES.

(* ---- statm *)
Definition run_statm (pagesize : Z) (r : statm) : jv :=
  JL [ JB (k_statm r); jv_outcome jv_zs (memory_info pagesize (k_statm r));
       (if wf_statm r then JC "Val" [jv_zs (spec_meminfo pagesize r)] else jnone) ].
Definition run_statm_raw (psn pagesize mode : Z) (content : bytes) : jv :=
  JL [ jv_outcome jv_zs (with_file (ps_of psn) (fr mode content) (memory_info pagesize)) ].

(* ---- memory_full_info over kernel-shaped files *)
Definition run_full (pagesize : Z) (has_rollup : bool) (rmode : Z) (ex : list bytes)
           (rl : rollup) (ms : list mapping) (r : statm) : jv :=
  let smaps := k_smaps ms in
  JL [ jpack smaps; jpack (k_rollup rl); JB (k_statm r);
       jv_outcome jv_zs (memory_full_info Alive pagesize has_rollup (fr rmode (k_rollup rl))
                                          (FContent smaps) (FContent (k_statm r)));
       (if forallb wf_kernel0 ms && wf_statm r && negb (rmode =? 3)
        then if negb has_rollup || negb (rmode =? 0) || (wf_rollup rl && consistent rl ms)
             then JC "Val" [jv_zs (spec_full pagesize r ms)]
             else if wf_rollup rl && rounded rl ms
                  then JC "Val" [jv_zs (spec_full_ru pagesize r ms rl)] else jnone
        else jnone) ].
(* arbitrary contents / errors *)
Definition run_full_raw (psn pagesize : Z) (has_rollup : bool) (rmode : Z) (rollup : bytes)
           (smode : Z) (smaps : bytes) (tmode : Z) (statm : bytes) : jv :=
  JL [ jv_outcome jv_zs (memory_full_info (ps_of psn) pagesize has_rollup (fr rmode rollup)
                                          (fr smode smaps) (fr tmode statm)) ].

(* ---- memory_maps *)
Definition run_maps (ex den : list bytes) (ms : list mapping) : jv :=
  let smaps := k_smaps ms in
  let res := memory_maps Alive (probe_of ex den) (FContent smaps) in
  (* the demanded rows do not depend on WHY the probe of a readable marker fails *)
  let ok := forallb (fun m => wf_kernel0 m && marker_ok (probe_of ex den) m) ms && uniform_figs ms in
  JL [ jpack smaps;
       jv_outcome jv_rows res;
       jv_outcome jv_grouped (omap group_rows res);
       (if ok then JC "Val" [jv_rows (map spec_row ms)] else jnone);
       (if ok then JC "Val" [jv_grouped (spec_grouped (map spec_row ms))] else jnone) ].
Definition run_maps_raw (psn : Z) (ex den : list bytes) (smode : Z) (smaps : bytes) : jv :=
  let res := memory_maps (ps_of psn) (probe_of ex den) (fr smode smaps) in
  JL [ jv_outcome jv_rows res; jv_outcome jv_grouped (omap group_rows res) ].

(* ---- memory_percent over the same kernel-shaped files *)
Definition jv_ratio (q : Z * Z) : jv := JL [jz (fst q); jz (snd q)].
Definition run_percent (pagesize : Z) (has_rollup : bool) (rmode : Z) (ex : list bytes)
           (rl : rollup) (ms : list mapping) (r : statm) (memtype : bytes) (total : Z) : jv :=
  let smaps := k_smaps ms in
  let mi := with_file Alive (FContent (k_statm r)) (memory_info pagesize) in
  let mfi := memory_full_info Alive pagesize has_rollup (fr rmode (k_rollup rl))
                              (FContent smaps) (FContent (k_statm r)) in
  JL [ jpack smaps; jpack (k_rollup rl); JB (k_statm r);
       jv_outcome jv_ratio (memory_percent memtype mi mfi total);
       (if forallb wf_kernel0 ms && wf_statm r
           && (negb has_rollup || negb (rmode =? 0) || (wf_rollup rl && consistent rl ms))
           && negb (rmode =? 3) && (0 <? total)
        then jv_outcome jv_ratio (spec_percent memtype (spec_full pagesize r ms) total) else jnone) ].

(* memory_percent with arbitrary process state / file errors: the name is validated before
   anything is read, so an unknown name demands ValueError whatever the files answer *)
Definition run_percent_raw (psn pagesize : Z) (has_rollup : bool) (rmode : Z) (rollup : bytes)
           (smode : Z) (smaps : bytes) (tmode : Z) (statm : bytes) (memtype : bytes) (total : Z) : jv :=
  let ps := ps_of psn in
  let mi := with_file ps (fr tmode statm) (memory_info pagesize) in
  let mfi := memory_full_info ps pagesize has_rollup (fr rmode rollup) (fr smode smaps) (fr tmode statm) in
  JL [ jv_outcome jv_ratio (memory_percent memtype mi mfi total);
       (match index_of memtype full_names with
        | None => jv_outcome jv_ratio (@Exc (Z * Z) ValueError)
        | Some _ => jnone
        end) ].

(* memory_percent over a history of virtual_memory() calls and MemTotal changes; totals in
   bytes; _TOTAL_PHYMEM starts as None (fresh interpreter) *)
Definition run_percent_hist (pagesize : Z) (ex : list bytes) (ms : list mapping) (r : statm)
           (kernel0 : Z) (ops : list hop) : jv :=
  let smaps := k_smaps ms in
  let mi := with_file Alive (FContent (k_statm r)) (memory_info pagesize) in
  let mfi := memory_full_info Alive pagesize false FENOENT (FContent smaps) (FContent (k_statm r)) in
  JL [ jpack smaps; JB (k_statm r);
       JL (map (jv_outcome jv_ratio) (run_hist mi mfi None kernel0 ops));
       (if forallb wf_kernel0 ms && wf_statm r && hist_ok ops && (0 <? kernel0)
        then JL (map (jv_outcome jv_ratio) (spec_hist (spec_full pagesize r ms) None kernel0 ops)) else jnone) ].

(* ---- live kernel: a snapshot of a real process, parsed by the harness into records; the
   printed files must be the real bytes (checked by the harness), then model and psutil run
   on them with both sources of memory_full_info and both views of memory_maps *)
Definition run_live (pagesize : Z) (ex : list bytes) (rl : rollup) (ms : list mapping) (r : statm) : jv :=
  let smaps := k_smaps ms in
  let probe := probe_of ex [] in
  let res := memory_maps Alive probe (FContent smaps) in
  let wf := forallb (wf_kernel probe) ms && wf_statm r in
  JL [ jpack smaps; jpack (k_rollup rl); JB (k_statm r);
       (* model *)
       JL [ jv_outcome jv_zs (memory_full_info Alive pagesize true (FContent (k_rollup rl)) (FContent smaps) (FContent (k_statm r)));
            jv_outcome jv_zs (memory_full_info Alive pagesize false FENOENT (FContent smaps) (FContent (k_statm r)));
            jv_outcome jv_rows res; jv_outcome jv_grouped (omap group_rows res) ];
       (* spec: None unless the snapshot is inside the domain of the theorems *)
       (if wf && wf_rollup rl && (consistent rl ms || rounded rl ms) && uniform_figs ms
        then JL [ JC "Val" [jv_zs (if consistent rl ms then spec_full pagesize r ms else spec_full_ru pagesize r ms rl)];
                  JC "Val" [jv_zs (spec_full pagesize r ms)];
                  JC "Val" [jv_rows (map spec_row ms)];
                  JC "Val" [jv_grouped (spec_grouped (map spec_row ms))] ]
        else jnone);
       (* which hypotheses hold, for the harness's diagnosis *)
       JL [ jbool wf; jbool (wf_rollup rl); jbool (consistent rl ms); jbool (rounded rl ms); jbool (uniform_figs ms) ] ].

(* ---- big listings (1-4 MiB), generated here from (n, seed, shift) so that case terms stay small;
   props/C13.py writes the same bytes (checked through length and a checksum) *)
Fixpoint dec_digits (fuel : nat) (n : Z) (acc : bytes) : bytes :=
  match fuel with
  | O => acc
  | S k => let acc' := (48 + n mod 10) :: acc in if n <? 10 then acc' else dec_digits k (n / 10) acc'
  end.
Definition dec_of (n : Z) : bytes := dec_digits 40 n [].
Definition hexdz (d : Z) : Z := if d <? 10 then 48 + d else 87 + d.
Fixpoint hex_digits (w : nat) (n : Z) (acc : bytes) : bytes :=
  match w with O => acc | S k => hex_digits k (n / 16) (hexdz (n mod 16) :: acc) end.
(* "%-16s%8lu kB": the name padded to 16 columns, the value right-aligned in 8 *)
Definition kpad (name v : bytes) : nat := (16 - (length name + 1) + (8 - length v) - 1)%nat.
Definition bfig (f : fig) (n : Z) : kline := let v := dec_of n in LFig f (kpad (fig_name f) v) v.
Definition bother (name : bytes) (n : Z) (kb : bool) : kline := let v := dec_of n in LOther name (kpad name v) v kb.
Definition big_lines (i seed : Z) : list kline :=
  let g (a m : Z) := ((i * a + seed) mod m) * 4 in
  [bfig FSize (g 7 2000 + 4); bother (bs "KernelPageSize") 4 true; bother (bs "MMUPageSize") 4 true;
   bfig FRss (g 5 1000); bfig FPss (g 3 977); bother (bs "Pss_Dirty") (g 11 50) true;
   bfig FSharedClean (g 13 300); bfig FSharedDirty (g 17 10);
   bfig FPrivateClean (g 19 400); bfig FPrivateDirty (g 23 333);
   bfig FReferenced (g 5 1000); bfig FAnonymous (g 23 333);
   bother (bs "KSM") 0 true; bother (bs "LazyFree") (g 29 7) true; bother (bs "AnonHugePages") 0 true;
   bother (bs "ShmemPmdMapped") 0 true; bother (bs "FilePmdMapped") 0 true; bother (bs "Shared_Hugetlb") 0 true;
   bfig FPrivateHugetlb (if i mod 97 =? 0 then 2048 else 0); bfig FSwap (g 31 41);
   bother (bs "SwapPss") (g 37 13) true; bother (bs "Locked") 0 true; bother (bs "THPeligible") (i mod 2) false;
   LFlags [bs "rd"; bs "mr"; bs "mw"; bs "me"]].
Definition big_mapping (seed : Z) (shift : nat) (i : Z) : mapping :=
  let start := 139637976727552 + i * 1048576 in
  let k := i mod 3 in
  {| m_addr := hex_digits 12 start [] ++ 45 :: hex_digits 12 (start + 4096) [];
     m_perms := if k =? 0 then bs "r-xp" else if k =? 1 then bs "rw-p" else bs "r--s";
     m_offset := hex_digits 8 (i mod 16 * 4096) [];
     m_dev := if k =? 1 then bs "00:00" else bs "fe:00";
     m_inode := if k =? 1 then bs "0" else dec_of (1000 + i);
     m_pad := if i =? 0 then shift else 2%nat;
     m_path := if k =? 0 then bs "/usr/lib/libbig.so." ++ dec_of (i mod 7)
               else if k =? 1 then [] else bs "/srv/data file:" ++ dec_of (i mod 5);
     m_deleted := false;
     m_lines := big_lines i seed |}.
Fixpoint zseq (n : nat) (i : Z) : list Z := match n with O => [] | S k => i :: zseq k (i + 1) end.
Definition big_ms (n : nat) (seed : Z) (shift : nat) : list mapping := map (big_mapping seed shift) (zseq n 0).
(* order-sensitive checksum of a byte string (Adler-style, no modulus: cheap under vm_compute) *)
Definition cksum (l : bytes) : Z * Z := fold_left (fun '(a, b) c => let a' := a + c in (a', b + a')) l (1, 0).
Definition sum_nums (f : mapping -> Z) (ms : list mapping) : Z := fold_left (fun a m => a + f m) ms 0.

(* with_model = also run the model on the printed bytes (costly for the largest files; the
   theorems C13_smaps_sums / C13_full_info_smaps say it equals the spec for every length) *)
Definition run_big (pagesize : Z) (n : nat) (seed : Z) (shift : nat) (r : statm) (with_model : bool) : jv :=
  let ms := big_ms n seed shift in
  let smaps := k_smaps ms in
  let '(uss, pss, swap) := spec_sums ms in
  let ck := cksum smaps in
  JL [ jz (Z.of_nat (length smaps)); jz (fst ck); jz (snd ck);
       (if with_model
        then jv_outcome jv_zs (memory_full_info Alive pagesize false FENOENT (FContent smaps) (FContent (k_statm r)))
        else jnone);
       (if forallb wf_kernel0 ms && wf_statm r && uniform_figs ms
        then JL [ JC "Val" [jv_zs (spec_full pagesize r ms)];
                  (* what the rows of memory_maps(grouped=False) must add up to: private clean + dirty, pss, swap, count *)
                  jv_zs [sum_nums (fun m => kb m FPrivateClean + kb m FPrivateDirty) ms * 1024; pss; swap; Z.of_nat (length ms)];
                  jv_zs [sum_nums (fun m => kb m FPrivateHugetlb) ms] ]
        else jnone);
       JB (k_statm r) ].

(* ---- handles / copies / oneshot() blocks over a sequence of kernel states (C13.Handles).
   states: (has_rollup, rollup mode, roll-up, names that exist, mappings, statm); ops refer to states by index *)
From PV Require Export C13.Handles.
Definition mk_kmem (st : bool * Z * rollup * list bytes * list mapping * statm) : kmem :=
  let '(hr, rmode, rl, ex, ms, r) := st in
  {| km_ms := ms; km_statm := r; km_has_rollup := hr; km_rollup := fr rmode (k_rollup rl); km_probe := ex_of ex |}.
Definition jv_mans (a : mans) : jv :=
  match a with
  | AInfo o => jv_outcome jv_zs o
  | ARows o => jv_outcome jv_rows o
  | AGrouped o => jv_outcome jv_grouped o
  end.
Inductive rop := ROp (o : cop nat) | RSet (i : nat).
Definition run_handles (pagesize : Z) (sts : list (bool * Z * rollup * list bytes * list mapping * statm))
           (ops : list (cop nat)) : jv :=
  let ks := map mk_kmem sts in
  let dflt := mk_kmem (false, 0, Build_rollup [] [], [], [], Build_statm [] [] [] [] [] [] []) in
  let getk i := nth i ks dflt in
  let ops' := map (fun o => match o with
                            | OSetK _ i => OSetK kmem (getk i)
                            | OEnter _ h => OEnter kmem h | OExit _ h => OExit kmem h | OCopy _ h => OCopy kmem h
                            | ODeep _ h => ODeep kmem h | ONew _ => ONew kmem | OCall _ h q => OCall kmem h q
                            end) ops in
  let s0 := hinit kmem bytes mans (getk 0%nat) in
  JL [ JL (map (fun k => JL [jpack (k_smaps (km_ms k)); JB (k_statm (km_statm k));
                             match km_rollup k with FContent b => jpack b | _ => jpack [] end]) ks);
       JL (map jv_mans (hrun kmem bytes mans m_read (m_info pagesize) (m_ans pagesize) m_uses s0 ops'));
       JL (map (fun st =>
                  let '(hr, rmode, rl, ex, ms, r) := st in
                  let k := mk_kmem st in
                  let base := wf_statm r && forallb (wf_kernel (ex_of ex)) ms && uniform_figs ms in
                  let fullok := negb hr || (rmode =? 1) || (rmode =? 2) || ((rmode =? 0) && wf_rollup rl && consistent rl ms) in
                  JL [ (if wf_statm r then jv_mans (m_spec pagesize QInfo k) else jnone);
                       (if base && fullok then jv_mans (m_spec pagesize (QAcc 0%nat) k) else jnone);
                       (if base then jv_mans (m_spec pagesize (QAcc 1%nat) k) else jnone);
                       (if base then jv_mans (m_spec pagesize (QAcc 2%nat) k) else jnone) ]) sts) ].
