(* C13 -- handles, copies and oneshot() blocks: whatever happened before, a memory accessor
   called on any handle while no block is open answers from the kernel state of that moment. *)
From PV Require Import C13.Handles C13.Lib C13.ProofsMaps C13.ProofsSums C13.ProofsRollup C13.ProofsGroup C13.Proofs.
Require Import Lia.

Section HandlesProofs.
  Variables (K F V : Type).
  Variable read_file : K -> F.
  Variable info : K -> V.
  Variable ans : nat -> K -> F -> V.
  Variable uses : nat -> K -> bool.

  Notation hstate := (hstate K F V).
  Notation hstep := (hstep K F V read_file info ans uses).
  Notation hcall := (hcall K F V read_file info ans uses).
  Notation hexec := (hexec K F V read_file info ans uses).
  Notation hrun := (hrun K F V read_file info ans uses).
  Notation hspec := (hspec K F V read_file info ans uses).
  Notation fresh := (fresh K F V read_file info ans).

  (* a cache dict exists only while a block is open on a handle that owns it *)
  Definition hinv (s : hstate) : Prop :=
    (forall h, dp _ (hdl _ _ _ s h) = 0%nat -> fc _ (hdl _ _ _ s h) = None)
    /\ (forall j c, pc _ _ _ s j = Some c -> exists h, pr _ (hdl _ _ _ s h) = j /\ dp _ (hdl _ _ _ s h) <> 0%nat)
    /\ (forall h, (nh _ _ _ s <= h)%nat -> dp _ (hdl _ _ _ s h) = 0%nat).

  Lemma hinv_init k : hinv (hinit K F V k).
  Proof. repeat split; cbn; intros; try reflexivity. discriminate. Qed.

  Lemma upd_same {A} (f : nat -> A) i v : hupd f i v i = v.
  Proof. unfold hupd. now rewrite Nat.eqb_refl. Qed.
  Lemma upd_other {A} (f : nat -> A) i v j : j <> i -> hupd f i v j = f j.
  Proof. unfold hupd. intros H. destruct (Nat.eqb_spec j i); [contradiction|reflexivity]. Qed.

  Lemma hinv_call s h q : hinv s -> hinv (snd (hcall s h q)).
  Proof.
    intros (A & B & C). unfold Handles.hcall. destruct q as [|a].
    - destruct (fc _ (hdl _ _ _ s h)) as [[v|]|] eqn:E; cbn [snd]; try (repeat split; assumption).
      repeat split; cbn [hdl pc nh].
      + intros g Hg. destruct (Nat.eq_dec g h) as [->|N].
        * rewrite upd_same in *. cbn in Hg. apply A in Hg. congruence.
        * rewrite upd_other in * by exact N. now apply A.
      + intros j c Hj. destruct (B j c Hj) as (g & P & D). exists g.
        destruct (Nat.eq_dec g h) as [->|N].
        * rewrite upd_same. cbn. now split.
        * rewrite upd_other by exact N. now split.
      + intros g Hg. destruct (Nat.eq_dec g h) as [->|N].
        * rewrite upd_same. cbn. now apply C.
        * rewrite upd_other by exact N. now apply C.
    - destruct (uses a (ker _ _ _ s)); cbn [snd]; [|repeat split; assumption].
      destruct (pc _ _ _ s (pr _ (hdl _ _ _ s h))) as [[f|]|] eqn:E; cbn [snd]; try (repeat split; assumption).
      repeat split; cbn [hdl pc nh]; try assumption.
      intros j c Hj. destruct (Nat.eq_dec j (pr _ (hdl _ _ _ s h))) as [->|N].
      + exact (B _ _ E).
      + rewrite upd_other in Hj by exact N. exact (B _ _ Hj).
  Qed.

  Lemma hinv_step s o : hinv s -> hinv (hstep s o).
  Proof.
    intros I. destruct o as [h|h|h|h| |k|h q]; cbn [Handles.hstep]; try exact I.
    - (* enter *)
      destruct (Nat.ltb_spec h (nh _ _ _ s)) as [L|L]; [|exact I]. destruct I as (A & B & C).
      destruct (fc _ (hdl _ _ _ s h)) as [c|] eqn:E; repeat split; cbn [hdl pc nh].
      + intros g Hg. destruct (Nat.eq_dec g h) as [->|N].
        * rewrite upd_same in Hg. cbn in Hg. discriminate.
        * rewrite upd_other in * by exact N. now apply A.
      + intros j c' Hj. destruct (B j c' Hj) as (g & P & D). exists g.
        destruct (Nat.eq_dec g h) as [->|N].
        * rewrite upd_same. cbn. split; [exact P|discriminate].
        * rewrite upd_other by exact N. now split.
      + intros g Hg. rewrite upd_other by lia. now apply C.
      + intros g Hg. destruct (Nat.eq_dec g h) as [->|N].
        * rewrite upd_same in Hg. cbn in Hg. discriminate.
        * rewrite upd_other in * by exact N. now apply A.
      + intros j c' Hj. destruct (Nat.eq_dec j (pr _ (hdl _ _ _ s h))) as [->|N].
        * exists h. rewrite upd_same. cbn. split; [reflexivity|discriminate].
        * rewrite upd_other in Hj by exact N. destruct (B j c' Hj) as (g & P & D). exists g.
          destruct (Nat.eq_dec g h) as [->|N2].
          -- rewrite upd_same. cbn. split; [exact P|discriminate].
          -- rewrite upd_other by exact N2. now split.
      + intros g Hg. rewrite upd_other by lia. now apply C.
    - (* exit *)
      destruct (Nat.ltb_spec h (nh _ _ _ s)) as [L|L]; [|exact I].
      destruct (dp _ (hdl _ _ _ s h)) as [|[|d]] eqn:E; [exact I| |]; destruct I as (A & B & C); repeat split; cbn [hdl pc nh].
      + intros g Hg. destruct (Nat.eq_dec g h) as [->|N].
        * rewrite upd_same. reflexivity.
        * rewrite upd_other in * by exact N. now apply A.
      + intros j c' Hj. destruct (Nat.eq_dec j (pr _ (hdl _ _ _ s h))) as [->|N].
        * rewrite upd_same in Hj. discriminate.
        * rewrite upd_other in Hj by exact N. destruct (B j c' Hj) as (g & P & D). exists g.
          destruct (Nat.eq_dec g h) as [->|N2].
          -- congruence.
          -- rewrite upd_other by exact N2. now split.
      + intros g Hg. rewrite upd_other by lia. now apply C.
      + intros g Hg. destruct (Nat.eq_dec g h) as [->|N].
        * rewrite upd_same in Hg. cbn in Hg. discriminate.
        * rewrite upd_other in * by exact N. now apply A.
      + intros j c' Hj. destruct (B j c' Hj) as (g & P & D). exists g.
        destruct (Nat.eq_dec g h) as [->|N].
        * rewrite upd_same. cbn. split; [exact P|discriminate].
        * rewrite upd_other by exact N. now split.
      + intros g Hg. rewrite upd_other by lia. now apply C.
    - (* copy *)
      destruct (Nat.ltb_spec h (nh _ _ _ s)) as [L|L]; [|exact I]. destruct I as (A & B & C).
      repeat split; cbn [hdl pc nh].
      + intros g Hg. destruct (Nat.eq_dec g (nh _ _ _ s)) as [->|N].
        * rewrite upd_same. reflexivity.
        * rewrite upd_other in * by exact N. now apply A.
      + intros j c' Hj. destruct (B j c' Hj) as (g & P & D). exists g.
        destruct (Nat.eq_dec g (nh _ _ _ s)) as [->|N].
        * exfalso. apply D. apply C. lia.
        * rewrite upd_other by exact N. now split.
      + intros g Hg. rewrite upd_other by lia. apply C. lia.
    - (* new *)
      destruct I as (A & B & C). repeat split; cbn [hdl pc nh].
      + intros g Hg. destruct (Nat.eq_dec g (nh _ _ _ s)) as [->|N].
        * rewrite upd_same. reflexivity.
        * rewrite upd_other in * by exact N. now apply A.
      + intros j c' Hj. destruct (Nat.eq_dec j (S (nh _ _ _ s))) as [->|N0].
        * rewrite upd_same in Hj. discriminate.
        * rewrite upd_other in Hj by exact N0. destruct (B j c' Hj) as (g & P & D). exists g.
          destruct (Nat.eq_dec g (nh _ _ _ s)) as [->|N].
          -- exfalso. apply D. apply C. lia.
          -- rewrite upd_other by exact N. now split.
      + intros g Hg. rewrite upd_other by lia. apply C. lia.
    - now apply hinv_call.
  Qed.

  Lemma hinv_exec ops : forall s, hinv s -> hinv (hexec s ops).
  Proof.
    induction ops as [|o ops IH]; intros s I; [exact I|]. cbn [Handles.hexec fold_left].
    apply IH. now apply hinv_step.
  Qed.

  Lemma hcall_quiet s h q : hinv s -> quiet K F V s -> fst (hcall s h q) = fresh q (ker _ _ _ s).
  Proof.
    intros (A & B & C) Q. unfold Handles.hcall, Handles.fresh. destruct q as [|a].
    - rewrite (A h (Q h)). reflexivity.
    - destruct (uses a (ker _ _ _ s)); [|reflexivity].
      destruct (pc _ _ _ s (pr _ (hdl _ _ _ s h))) as [c|] eqn:E; [|reflexivity].
      destruct (B _ _ E) as (g & _ & D). exfalso. apply D. apply Q.
  Qed.

  Theorem handles_outside_blocks : forall ops k0 h q,
    let s := hexec (hinit K F V k0) ops in
    quiet K F V s -> fst (hcall s h q) = fresh q (ker _ _ _ s).
  Proof.
    intros ops k0 h q s Q. apply hcall_quiet; [|exact Q]. apply hinv_exec. apply hinv_init.
  Qed.

  Lemma quietb_quiet s : hinv s -> quietb K F V s = true -> quiet K F V s.
  Proof.
    intros (A & B & C) Hq h. unfold quietb in Hq. rewrite forallb_forall in Hq.
    destruct (Nat.lt_ge_cases h (nh _ _ _ s)) as [L|L]; [|now apply C].
    apply Nat.eqb_eq. apply Hq. apply in_seq. lia.
  Qed.

  (* every answer of a whole history that is given while no block is open anywhere *)
  Theorem handles_history : forall ops s, hinv s ->
    Forall2 (fun v o => match o with Some w => v = w | None => True end) (hrun s ops) (hspec s ops).
  Proof.
    induction ops as [|o ops IH]; intros s I; [constructor|].
    destruct o as [h|h|h|h| |k|h q]; cbn [Handles.hrun Handles.hspec];
      try (apply IH; now apply (hinv_step s _ I)).
    constructor.
    - destruct (quietb K F V s) eqn:E; [|exact Logic.I].
      apply hcall_quiet; [exact I|]. now apply quietb_quiet.
    - apply IH. now apply hinv_call.
  Qed.
End HandlesProofs.

(* the instance: over kernel-formatted files the answer computed from the current files is the
   demanded one (single-call theorems of the other Proofs files) *)
Lemma m_fresh_spec pagesize q k : m_wf k = true ->
  fresh kmem bytes mans m_read (m_info pagesize) (m_ans pagesize) q k = m_spec pagesize q k.
Proof.
  unfold m_wf. intros H. apply andb_true_iff in H as [H Hr]. apply andb_true_iff in H as [H Hu].
  apply andb_true_iff in H as [Hs Hm].
  assert (forallb wf_kernel0 (km_ms k) = true) as Hm0.
  { apply forallb_forall. intros m Hin. rewrite forallb_forall in Hm. specialize (Hm m Hin).
    unfold wf_kernel in Hm. now apply andb_true_iff in Hm as [Hm _]. }
  destruct q as [|[|[|a]]]; unfold Handles.fresh, m_info, m_ans, m_spec, m_read.
  - now rewrite statm_roundtrip.
  - rewrite full_info_smaps; [reflexivity|exact Hs|exact Hm0|].
    destruct (km_has_rollup k); [|now left]. right. cbn in Hr.
    destruct (km_rollup k); try discriminate; [now left|now right].
  - now rewrite maps_ungrouped.
  - now rewrite maps_grouped.
Qed.

Theorem handles_memory : forall pagesize ops k0 h q,
  let s := hexec kmem bytes mans m_read (m_info pagesize) (m_ans pagesize) m_uses (hinit kmem bytes mans k0) ops in
  quiet kmem bytes mans s -> m_wf (ker _ _ _ s) = true ->
  fst (hcall kmem bytes mans m_read (m_info pagesize) (m_ans pagesize) m_uses s h q) = m_spec pagesize q (ker _ _ _ s).
Proof.
  intros pagesize ops k0 h q s Q W. unfold s in *. rewrite handles_outside_blocks by exact Q. now apply m_fresh_spec.
Qed.
