(* C13 -- what the kernel holds about a process's memory (statm page counts, the
   list of mappings with their per-mapping accounting), the bytes it prints in
   /proc/<pid>/statm, smaps and smaps_rollup (proc(5), fs/proc/task_mmu.c), and the
   answers the property demands.  Written from the property text and the kernel
   format, not from psutil's code. *)
From PV Require Export C13.Model.

(* ------------------------------------------------ /proc/<pid>/statm *)
(* "%lu %lu %lu %lu 0 %lu 0\n": size resident shared text lib data dt, in pages *)
Record statm := { s_size : bytes; s_resident : bytes; s_shared : bytes; s_text : bytes;
                  s_lib : bytes; s_data : bytes; s_dt : bytes }.
Definition statm_fields (r : statm) : list bytes :=
  [s_size r; s_resident r; s_shared r; s_text r; s_lib r; s_data r; s_dt r].
Definition k_statm (r : statm) : bytes := join [32] (statm_fields r) ++ [10].
Definition wf_statm (r : statm) : bool := forallb is_dec (statm_fields r).
(* pmem(rss, vms, shared, text, lib, data, dirty) in bytes *)
Definition spec_meminfo (pagesize : Z) (r : statm) : list Z :=
  map (fun d => dec_val d * pagesize)
      [s_resident r; s_size r; s_shared r; s_text r; s_lib r; s_data r; s_dt r].

(* ------------------------------------------------ one mapping of /proc/<pid>/smaps *)
Inductive fig :=
| FRss | FSize | FPss | FSharedClean | FSharedDirty | FPrivateClean | FPrivateDirty
| FReferenced | FAnonymous | FSwap | FPrivateHugetlb.
Definition fig_name (f : fig) : bytes :=
  match f with
  | FRss => bs "Rss" | FSize => bs "Size" | FPss => bs "Pss"
  | FSharedClean => bs "Shared_Clean" | FSharedDirty => bs "Shared_Dirty"
  | FPrivateClean => bs "Private_Clean" | FPrivateDirty => bs "Private_Dirty"
  | FReferenced => bs "Referenced" | FAnonymous => bs "Anonymous" | FSwap => bs "Swap"
  | FPrivateHugetlb => bs "Private_Hugetlb"
  end.
Definition fig_eqb (a b : fig) : bool :=
  match a, b with
  | FRss, FRss | FSize, FSize | FPss, FPss | FSharedClean, FSharedClean
  | FSharedDirty, FSharedDirty | FPrivateClean, FPrivateClean | FPrivateDirty, FPrivateDirty
  | FReferenced, FReferenced | FAnonymous, FAnonymous | FSwap, FSwap
  | FPrivateHugetlb, FPrivateHugetlb => true
  | _, _ => false
  end.
(* the ten figures of a memory_maps row, in the order of pmmap_ext / pmmap_grouped *)
Definition row_figs : list fig :=
  [FRss; FSize; FPss; FSharedClean; FSharedDirty; FPrivateClean; FPrivateDirty;
   FReferenced; FAnonymous; FSwap].
Definition all_figs : list fig := row_figs ++ [FPrivateHugetlb].

(* a line below the header:  "Name:  <spaces> value kB" (one of the eleven figures, or
   any other line the kernel version prints: KernelPageSize, MMUPageSize, Pss_Dirty,
   LazyFree, ..., Locked in kB; THPeligible, ProtectionKey without unit), or
   "VmFlags: rd wr mr " *)
Inductive kline :=
| LFig (f : fig) (pad : nat) (v : bytes)
| LOther (name : bytes) (pad : nat) (v : bytes) (kb : bool)
| LFlags (fl : list bytes).

Definition spaces (n : nat) : bytes := repeat 32 n.
Definition kb_sfx : bytes := bs " kB".
Definition line_core (l : kline) : bytes :=
  match l with
  | LFig f pad v => fig_name f ++ 58 :: spaces (S pad) ++ v ++ kb_sfx
  | LOther n pad v kb => n ++ 58 :: spaces (S pad) ++ v ++ (if kb then kb_sfx else [])
  | LFlags fl => bs "VmFlags:" ++ concat (map (fun f => 32 :: f) fl)
  end.
(* the kernel ends the flag list with a blank *)
Definition line_trail (l : kline) : bytes := match l with LFlags _ => [32] | _ => [] end.
Definition k_line (l : kline) : bytes := line_core l ++ line_trail l.
Definition k_lines (ls : list kline) : bytes := concat (map (fun l => k_line l ++ [10]) ls).

Definition is_lower (c : Z) : bool := (97 <=? c) && (c <=? 122).
Definition flag_ok (f : bytes) : bool :=
  match f with c :: _ => is_lower c && no_ws f | [] => false end.
Definition other_name_ok (n : bytes) : bool :=
  tok_ok n && negb (contains 58 n) && negb (prefixb (bs "Private") n)
  && negb (existsb (fun f => beqb n (fig_name f)) all_figs).
Definition wf_line (l : kline) : bool :=
  match l with
  | LFig _ _ v => is_dec v
  | LOther n _ v _ => other_name_ok n && is_dec v
  | LFlags fl => match fl with [] => false | _ => forallb flag_ok fl end
  end.

Definition line_fig (f : fig) (l : kline) : option bytes :=
  match l with LFig g _ v => if fig_eqb f g then Some v else None | _ => None end.
Fixpoint count_fig (f : fig) (ls : list kline) : nat :=
  match ls with
  | [] => O
  | l :: r => match line_fig f l with Some _ => S (count_fig f r) | None => count_fig f r end
  end.
(* the value on THE line named f (wf: at most one), 0 when the kernel prints none *)
Fixpoint find_fig (f : fig) (ls : list kline) : option bytes :=
  match ls with
  | [] => None
  | l :: r => match line_fig f l with Some v => Some v | None => find_fig f r end
  end.
Definition fig_kb (f : fig) (ls : list kline) : Z :=
  match find_fig f ls with Some v => dec_val v | None => 0 end.

Record mapping := {
  m_addr : bytes;      (* "55faa4233000-55faa4235000" *)
  m_perms : bytes;     (* "r-xp" *)
  m_offset : bytes; m_dev : bytes; m_inode : bytes;
  m_pad : nat;         (* blanks padding the path column *)
  m_path : bytes;      (* the mapping's own path / name; [] = none *)
  m_deleted : bool;    (* the file was unlinked: the kernel appends " (deleted)" *)
  m_lines : list kline }.

(* seq_file_path(m, file, "\n"): every newline of a name is written as the four bytes \012
   (mangle_path); nothing else is escaped -- not even the backslash, so the kernel's
   representation of names is not injective *)
Fixpoint esc_nl (p : bytes) : bytes :=
  match p with
  | [] => []
  | c :: r => if c =? 10 then 92 :: 48 :: 49 :: 50 :: esc_nl r else c :: esc_nl r
  end.
(* the name as the kernel shows it *)
Definition kname (m : mapping) : bytes := esc_nl (m_path m).
Definition shown_path (m : mapping) : bytes :=
  if m_deleted m then kname m ++ deleted_sfx else kname m.
Definition hdr_tokens (m : mapping) : list bytes :=
  [m_addr m; m_perms m; m_offset m; m_dev m; m_inode m].
Definition hdr_core (m : mapping) : bytes :=
  join [32] (hdr_tokens m) ++
  match m_path m with [] => [] | _ => 32 :: spaces (m_pad m) ++ shown_path m end.
Definition hdr_trail (m : mapping) : bytes := match m_path m with [] => [32] | _ => [] end.
Definition k_block (m : mapping) : bytes :=
  hdr_core m ++ hdr_trail m ++ 10 :: k_lines (m_lines m).
Definition k_smaps (ms : list mapping) : bytes := concat (map k_block ms).

Definition is_hex (c : Z) : bool := is_digit c || ((97 <=? c) && (c <=? 102)).

(* the first byte of a name: names are d_path output ('/...', '(unreachable)/...'), bracketed
   pseudo-names or 'anon_inode:'-like names, never an ASCII blank (blanks in front of the name
   are the kernel's column padding; see C13_maps_leading_blank_observation).  Every byte is
   allowed after it, newlines included (shown escaped). *)
Definition path_head_ok (m : mapping) : bool :=
  match m_path m with
  | [] => negb (m_deleted m)
  | c :: _ => negb (is_ws c)
  end.
(* everything the kernel guarantees about a mapping: its header line ... *)
Definition wf_header (m : mapping) : bool :=
  forallb tok_ok (hdr_tokens m) && negb (suffixb [58] (m_addr m))
  && match m_addr m with c :: _ => is_hex c | [] => false end      (* "%08lx-%08lx" *)
  && path_head_ok m.
(* ... and the lines below it: at least one, each of the eleven figures at most once, any
   number of other lines (any names that are not figure names and do not start with
   "Private", ANY values) *)
Definition wf_body (ls : list kline) : bool :=
  forallb wf_line ls
  && forallb (fun f => Nat.leb (count_fig f ls) 1) all_figs
  && match ls with [] => false | _ => true end.
Definition wf_kernel0 (m : mapping) : bool := wf_header m && wf_body (m_lines m).

(* [probe p]: what the caller's os.stat(p) answers -- the only outside fact consulted, and only
   for names that end in " (deleted)" *)
Definition is_exists (r : probe_res) : bool := match r with PExists => true | _ => false end.
Definition marked (m : mapping) : bool :=
  match m_path m with [] => false | _ => suffixb deleted_sfx (shown_path m) end.
(* the kernel's " (deleted)" marker is readable as such: an unlinked file's marked name is
   not the name of an existing file, and a live file whose shown name ends so exists *)
Definition marker_ok (probe : bytes -> probe_res) (m : mapping) : bool :=
  negb (marked m)
  || (if m_deleted m then negb (is_exists (probe (shown_path m))) else is_exists (probe (shown_path m))).
Definition wf_kernel (probe : bytes -> probe_res) (m : mapping) : bool :=
  wf_kernel0 m && marker_ok probe m.


(* a kernel prints the same set of lines for every mapping (which lines depends on its
   version and configuration, not on the mapping): each row figure is on every mapping or
   on none.  Needed by memory_maps only (its per-file dict is never cleared, see
   C13_maps_stale_dict_refuted). *)
Definition has_fig (f : fig) (m : mapping) : bool := Nat.eqb (count_fig f (m_lines m)) 1.
Definition uniform_figs (ms : list mapping) : bool :=
  forallb (fun f => forallb (has_fig f) ms || forallb (fun m => negb (has_fig f m)) ms) row_figs.

(* the complete set of lines a current (6.x) kernel prints below a header, in its order;
   [fv] = the eleven figures, [d 0..12] = the values of the other lines *)
Definition k6_lines (fv : fig -> bytes) (d : nat -> bytes) (fl : list bytes) : list kline :=
  [LFig FSize 0 (fv FSize); LOther (bs "KernelPageSize") 0 (d 0%nat) true; LOther (bs "MMUPageSize") 0 (d 1%nat) true;
   LFig FRss 0 (fv FRss); LFig FPss 0 (fv FPss); LOther (bs "Pss_Dirty") 0 (d 2%nat) true;
   LFig FSharedClean 0 (fv FSharedClean); LFig FSharedDirty 0 (fv FSharedDirty);
   LFig FPrivateClean 0 (fv FPrivateClean); LFig FPrivateDirty 0 (fv FPrivateDirty);
   LFig FReferenced 0 (fv FReferenced); LFig FAnonymous 0 (fv FAnonymous);
   LOther (bs "KSM") 0 (d 3%nat) true; LOther (bs "LazyFree") 0 (d 4%nat) true;
   LOther (bs "AnonHugePages") 0 (d 5%nat) true; LOther (bs "ShmemPmdMapped") 0 (d 6%nat) true;
   LOther (bs "FilePmdMapped") 0 (d 7%nat) true; LOther (bs "Shared_Hugetlb") 0 (d 8%nat) true;
   LFig FPrivateHugetlb 0 (fv FPrivateHugetlb); LFig FSwap 0 (fv FSwap);
   LOther (bs "SwapPss") 0 (d 9%nat) true; LOther (bs "Locked") 0 (d 10%nat) true;
   LOther (bs "THPeligible") 0 (d 11%nat) false; LOther (bs "ProtectionKey") 0 (d 12%nat) false;
   LFlags fl].
(* ... and in the roll-up file (no Size / page sizes / THPeligible / VmFlags; Pss split up) *)
Definition k6_rollup_lines (fv : fig -> bytes) (d : nat -> bytes) : list kline :=
  [LFig FRss 0 (fv FRss); LFig FPss 0 (fv FPss); LOther (bs "Pss_Dirty") 0 (d 0%nat) true;
   LOther (bs "Pss_Anon") 0 (d 1%nat) true; LOther (bs "Pss_File") 0 (d 2%nat) true;
   LOther (bs "Pss_Shmem") 0 (d 3%nat) true;
   LFig FSharedClean 0 (fv FSharedClean); LFig FSharedDirty 0 (fv FSharedDirty);
   LFig FPrivateClean 0 (fv FPrivateClean); LFig FPrivateDirty 0 (fv FPrivateDirty);
   LFig FReferenced 0 (fv FReferenced); LFig FAnonymous 0 (fv FAnonymous);
   LOther (bs "KSM") 0 (d 4%nat) true; LOther (bs "LazyFree") 0 (d 5%nat) true;
   LOther (bs "AnonHugePages") 0 (d 6%nat) true; LOther (bs "ShmemPmdMapped") 0 (d 7%nat) true;
   LOther (bs "FilePmdMapped") 0 (d 8%nat) true; LOther (bs "Shared_Hugetlb") 0 (d 9%nat) true;
   LFig FPrivateHugetlb 0 (fv FPrivateHugetlb); LFig FSwap 0 (fv FSwap);
   LOther (bs "SwapPss") 0 (d 10%nat) true; LOther (bs "Locked") 0 (d 11%nat) true].

(* ---- demanded answers *)
Definition kb (m : mapping) (f : fig) : Z := fig_kb f (m_lines m).
Definition spec_row (m : mapping) : maprow :=
  {| w_addr := m_addr m; w_perms := m_perms m;
     (* the mapping's own path as the kernel shows it: newlines as \012 (= the path itself
        when it contains none, esc_nl_id) *)
     w_path := match m_path m with [] => anon_path | _ => kname m end;
     w_nums := map (fun f => kb m f * 1024) row_figs |}.
(* the path column for ANY answer of the probe: the shown name, without the marker unless a
   file of the marked name exists *)
Definition row_path (probe : bytes -> probe_res) (m : mapping) : bytes :=
  match m_path m with
  | [] => anon_path
  | _ => if marked m && negb (is_exists (probe (shown_path m)))
         then firstn (length (shown_path m) - 10) (shown_path m) else shown_path m
  end.
Definition probed_row (probe : bytes -> probe_res) (m : mapping) : maprow :=
  {| w_addr := m_addr m; w_perms := m_perms m; w_path := row_path probe m;
     w_nums := map (fun f => kb m f * 1024) row_figs |}.
Definition private_kb (m : mapping) : Z :=
  kb m FPrivateClean + kb m FPrivateDirty + kb m FPrivateHugetlb.
Definition sum_over (f : mapping -> Z) (ms : list mapping) : Z :=
  fold_right (fun m a => f m + a) 0 ms.
Definition spec_sums (ms : list mapping) : sums :=
  (sum_over private_kb ms * 1024, sum_over (fun m => kb m FPss) ms * 1024,
   sum_over (fun m => kb m FSwap) ms * 1024).
Definition spec_full (pagesize : Z) (r : statm) (ms : list mapping) : list Z :=
  let '(uss, pss, swap) := spec_sums ms in spec_meminfo pagesize r ++ [uss; pss; swap].

(* ------------------------------------------------ /proc/<pid>/smaps_rollup *)
(* one header line ("<start>-<end> ---p 00000000 00:00 0  [rollup]") and the same kind
   of lines, holding the totals over all mappings *)
Record rollup := { ru_hdr : bytes; ru_lines : list kline }.
Definition k_rollup (rl : rollup) : bytes := ru_hdr rl ++ 10 :: k_lines (ru_lines rl).
Definition wf_rollup (rl : rollup) : bool :=
  match ru_hdr rl with c :: _ => is_hex c | [] => false end
  && negb (contains 10 (ru_hdr rl))
  && forallb wf_line (ru_lines rl)
  && forallb (fun f => Nat.leb (count_fig f (ru_lines rl)) 1) all_figs.
(* the roll-up and the listing describe the same process *)
Definition ru_kb (rl : rollup) (f : fig) : Z := fig_kb f (ru_lines rl).
Definition consistent (rl : rollup) (ms : list mapping) : bool :=
  (ru_kb rl FPrivateClean + ru_kb rl FPrivateDirty + ru_kb rl FPrivateHugetlb =? sum_over private_kb ms)
  && (ru_kb rl FPss =? sum_over (fun m => kb m FPss) ms)
  && (ru_kb rl FSwap =? sum_over (fun m => kb m FSwap) ms).

(* a real kernel keeps Pss in sub-kB precision: each mapping shows floor(pss_i), the roll-up
   shows floor(sum pss_i), hence  sum floor <= roll-up <= sum floor + (n - 1)  for n mappings
   (n = 0: equal).  Private_* and Swap are whole pages and add up exactly. *)
Definition rounded (rl : rollup) (ms : list mapping) : bool :=
  (ru_kb rl FPrivateClean + ru_kb rl FPrivateDirty + ru_kb rl FPrivateHugetlb =? sum_over private_kb ms)
  && (sum_over (fun m => kb m FPss) ms <=? ru_kb rl FPss)
  && (ru_kb rl FPss <=? sum_over (fun m => kb m FPss) ms + Z.of_nat (pred (length ms)))
  && (ru_kb rl FSwap =? sum_over (fun m => kb m FSwap) ms).
(* the record when such a roll-up is the source: its own (more precise) Pss *)
Definition spec_full_ru (pagesize : Z) (r : statm) (ms : list mapping) (rl : rollup) : list Z :=
  let '(uss, _, swap) := spec_sums ms in spec_meminfo pagesize r ++ [uss; ru_kb rl FPss * 1024; swap].

(* ------------------------------------------------ record layouts *)
(* documented field names: statm's size/resident/shared/text(trs)/lib(lrs)/data(drs)/dt are
   reported as vms/rss/shared/text/lib/data/dirty, in the order rss, vms, ...; compared with
   the namedtuples of the code through coq/Gen/C13_Tables.v *)
Definition fig_field (f : fig) : bytes :=
  match f with
  | FRss => bs "rss" | FSize => bs "size" | FPss => bs "pss"
  | FSharedClean => bs "shared_clean" | FSharedDirty => bs "shared_dirty"
  | FPrivateClean => bs "private_clean" | FPrivateDirty => bs "private_dirty"
  | FReferenced => bs "referenced" | FAnonymous => bs "anonymous" | FSwap => bs "swap"
  | FPrivateHugetlb => bs "private_hugetlb"
  end.
Definition doc_pmem : list bytes :=
  [bs "rss"; bs "vms"; bs "shared"; bs "text"; bs "lib"; bs "data"; bs "dirty"].
Definition doc_pfullmem : list bytes := doc_pmem ++ [bs "uss"; bs "pss"; bs "swap"].
Definition doc_grouped : list bytes := bs "path" :: map fig_field row_figs.
Definition doc_ext : list bytes := bs "addr" :: bs "perms" :: doc_grouped.

(* ------------------------------------------------ grouping *)
(* field-wise sum of n-column rows *)
Definition col_sum (n : nat) (l : list (list Z)) : list Z := fold_left zip_add l (repeat 0 n).
Definition rows_of_path (p : bytes) (rows : list maprow) : list maprow :=
  filter (fun r => beqb (w_path r) p) rows.
Definition spec_group (p : bytes) (rows : list maprow) : list Z :=
  col_sum 10 (map w_nums (rows_of_path p rows)).
(* distinct paths (first occurrences) -- used by the run entry point only; the theorems
   characterise the grouped list without fixing an order *)
Fixpoint distinct (seen : list bytes) (rows : list maprow) : list bytes :=
  match rows with
  | [] => []
  | r :: t => if existsb (beqb (w_path r)) seen then distinct seen t
              else w_path r :: distinct (w_path r :: seen) t
  end.
Definition spec_grouped (rows : list maprow) : list (bytes * list Z) :=
  map (fun p => (p, spec_group p rows)) (distinct [] rows).

(* ------------------------------------------------ memory_percent *)
(* 100 * field / total physical memory as an exact ratio; ValueError for a name that is
   not a field of the full record *)
Definition full_names : list bytes :=   (* documented fields of the full record, in order *)
  [bs "rss"; bs "vms"; bs "shared"; bs "text"; bs "lib"; bs "data"; bs "dirty";
   bs "uss"; bs "pss"; bs "swap"].
Definition spec_percent (memtype : bytes) (full : list Z) (total : Z) : outcome (Z * Z) :=
  match index_of memtype full_names with
  | Some i => Val (nth i full 0 * 100, total)
  | None => Exc ValueError
  end.

(* ------------------------------------------------ memory_percent over a history *)
(* the denominator is the total physical memory reported by the LAST virtual_memory() call
   ([last]); when there was none, memory_percent asks for it itself (and that is a call) *)
Fixpoint spec_hist (full : list Z) (last : option Z) (kernel : Z) (ops : list hop) : list (outcome (Z * Z)) :=
  match ops with
  | [] => []
  | HVM :: r => spec_hist full (Some kernel) kernel r
  | HSet t :: r => spec_hist full last t r
  | HPct n :: r =>
    match index_of n full_names with
    | None => Exc ValueError :: spec_hist full last kernel r
    | Some i =>
      let t := match last with Some l => l | None => kernel end in
      Val (nth i full 0 * 100, t) :: spec_hist full (Some t) kernel r
    end
  end.
Definition hist_ok (ops : list hop) : bool :=
  forallb (fun o => match o with HSet t => 0 <? t | _ => true end) ops.
