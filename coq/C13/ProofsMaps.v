(* C13 -- memory_maps: the block splitter, the per-mapping dict and the header
   decoding, on every kernel-formatted smaps listing. *)
From PV Require Import C13.Spec C13.Lib.

(* ------------------------------------------------ the printed file as (core, trail) lines *)
Definition lp (l : kline) : bytes * bytes := (line_core l, line_trail l).
Definition hp (m : mapping) : bytes * bytes := (hdr_core m, hdr_trail m).
Definition mlines (m : mapping) : list (bytes * bytes) := hp m :: map lp (m_lines m).
Definition plines (ms : list mapping) : list (bytes * bytes) := flat_map mlines ms.

Lemma k_lines_pr ls : k_lines ls = concat (map pr_line (map lp ls)).
Proof.
  unfold k_lines. induction ls as [|l ls IH]; [reflexivity|].
  cbn [map concat]. rewrite IH. change (pr_line (lp l)) with (line_core l ++ line_trail l ++ [10]).
  unfold k_line. now rewrite <- !app_assoc.
Qed.

Lemma k_block_pr m : k_block m = concat (map pr_line (mlines m)).
Proof.
  unfold k_block, mlines. cbn [map concat]. rewrite k_lines_pr.
  change (pr_line (hp m)) with (hdr_core m ++ hdr_trail m ++ [10]).
  rewrite <- !app_assoc. reflexivity.
Qed.

Lemma k_smaps_pr ms : k_smaps ms = concat (map pr_line (plines ms)).
Proof.
  unfold k_smaps, plines. induction ms as [|m ms IH]; [reflexivity|].
  cbn [map concat flat_map]. rewrite map_app, concat_app, IH, k_block_pr. reflexivity.
Qed.

(* ------------------------------------------------ shape of the lines *)
Lemma last_nonws_no_ws v : v <> [] -> no_ws v = true -> last_nonws v = true.
Proof.
  intros Hne Hnw. unfold last_nonws. destruct (rev v) as [|c r] eqn:E.
  - apply (f_equal (@rev Z)) in E. rewrite rev_involutive in E. cbn in E. congruence.
  - rewrite <- no_ws_rev, E in Hnw. cbn [no_ws forallb] in Hnw. now apply andb_true_iff in Hnw as [Hc _].
Qed.

Lemma flag_ok_tok f : flag_ok f = true -> tok_ok f = true.
Proof. destruct f as [|c r]; [discriminate|]. unfold flag_ok. intros H. apply andb_true_iff in H as [_ H]. exact H. Qed.

Lemma flags_last fl : fl <> [] -> forallb flag_ok fl = true ->
  last_nonws (concat (map (cons 32) fl)) = true.
Proof.
  induction fl as [|f fr IH]; [congruence|]. intros _ H. cbn [forallb] in H.
  apply andb_true_iff in H as [Hf Hr]. apply flag_ok_tok, tok_ok_spec in Hf as [Hne Hnw].
  cbn [map concat]. destruct fr as [|g fr'].
  - cbn [map concat]. rewrite app_nil_r. change (32 :: f) with ([32] ++ f).
    rewrite last_nonws_app by exact Hne. now apply last_nonws_no_ws.
  - rewrite last_nonws_app; [apply IH; [discriminate|exact Hr]|]. discriminate.
Qed.

Lemma fig_name_head f : ws_head (fig_name f ++ [58]) = false.
Proof. destruct f; reflexivity. Qed.
Lemma fig_name_tok f : tok_ok (fig_name f ++ [58]) = true.
Proof. destruct f; reflexivity. Qed.

Lemma is_dec_tok_ok v : is_dec v = true -> tok_ok v = true.
Proof. intros H. apply tok_ok_spec. now apply is_dec_tok. Qed.

Lemma tok_head t rest : tok_ok t = true -> ws_head (t ++ rest) = false.
Proof. intros H. destruct (tok_first t H) as (c & r & -> & Hc). exact Hc. Qed.

Lemma other_name_tok n : other_name_ok n = true -> tok_ok n = true.
Proof. unfold other_name_ok. intros H. now repeat (apply andb_true_iff in H as [H _]). Qed.

Lemma line_core_good l : wf_line l = true -> good_core (line_core l) = true.
Proof.
  intros H. unfold good_core. apply andb_true_iff. split.
  - apply negb_true_iff. destruct l as [f pad v|n pad v kb|fl]; cbn [line_core].
    + destruct f; reflexivity.
    + cbn [wf_line] in H. apply andb_true_iff in H as [Hn _]. now apply tok_head, other_name_tok.
    + reflexivity.
  - destruct l as [f pad v|n pad v kb|fl]; cbn [line_core wf_line] in *.
    + rewrite app_comm_cons, !app_assoc. now rewrite last_nonws_app by discriminate.
    + apply andb_true_iff in H as [_ Hv]. apply is_dec_tok in Hv as [Hne Hnw]. destruct kb.
      * rewrite app_comm_cons, !app_assoc. now rewrite last_nonws_app by discriminate.
      * rewrite app_nil_r, app_comm_cons, app_assoc. rewrite last_nonws_app by exact Hne.
        now apply last_nonws_no_ws.
    + destruct fl as [|f fr]; [discriminate|]. rewrite last_nonws_app.
      * apply flags_last; [discriminate|exact H].
      * discriminate.
Qed.

Lemma line_trail_ws l : ws_only (line_trail l) = true.
Proof. destruct l; reflexivity. Qed.
Lemma hdr_trail_ws m : ws_only (hdr_trail m) = true.
Proof. unfold hdr_trail. destruct (m_path m); reflexivity. Qed.

(* ------------------------------------------------ one data line in get_blocks *)
Definition line_key (l : kline) : option (bytes * Z) :=
  match l with
  | LFig f _ v => Some (fig_name f ++ [58], dec_val v * 1024)
  | LOther n _ v _ => Some (n ++ [58], dec_val v * 1024)
  | LFlags _ => None
  end.
Definition upd (d : dict) (l : kline) : dict :=
  match line_key l with Some (k, v) => dict_set k v d | None => d end.

(* a line as it reaches the splitter: with its trailing blank, or (last line of the
   file) without *)
Definition is_text (l : kline) (x : bytes) : Prop := x = line_core l \/ x = k_line l.

Lemma is_text_form l x : is_text l x -> exists t, ws_only t = true /\ x = line_core l ++ t.
Proof.
  intros [->| ->].
  - exists []. now rewrite app_nil_r.
  - exists (line_trail l). split; [apply line_trail_ws|reflexivity].
Qed.

Lemma name_val_fields name pad v tail :
  tok_ok (name ++ [58]) = true -> is_dec v = true -> ws_head tail = true ->
  exists rest, split_max 5 (name ++ 58 :: spaces (S pad) ++ v ++ tail) = (name ++ [58]) :: v :: rest.
Proof.
  intros Hn Hv Ht.
  replace (name ++ 58 :: spaces (S pad) ++ v ++ tail) with ((name ++ [58]) ++ spaces (S pad) ++ v ++ tail)
    by (now rewrite <- app_assoc).
  rewrite split_max_tok; [|exact Hn|reflexivity].
  rewrite split_max_spaces. rewrite split_max_tok; [|now apply is_dec_tok_ok|exact Ht].
  eauto.
Qed.

Lemma fig_text_assoc name pad v sfx t :
  (name ++ 58 :: spaces (S pad) ++ v ++ sfx) ++ t = name ++ 58 :: spaces (S pad) ++ v ++ sfx ++ t.
Proof. rewrite <- app_assoc. cbn [app]. rewrite <- !app_assoc. reflexivity. Qed.

Lemma block_line_data ex l x cur d rows :
  wf_line l = true -> is_text l x ->
  block_line ex (cur, d, rows) x = Val (cur, upd d l, rows).
Proof.
  intros Hwf Hx. apply is_text_form in Hx as (t & Ht & ->).
  destruct l as [f pad v|n pad v kb|fl]; cbn [line_core wf_line] in *.
  - destruct (name_val_fields (fig_name f) pad v (kb_sfx ++ t)) as (rest & E);
      [apply fig_name_tok|exact Hwf|reflexivity|].
    unfold block_line. rewrite fig_text_assoc, E. rewrite suffixb_snoc. cbn [negb]. rewrite (parse_int_dec v Hwf). reflexivity.
  - apply andb_true_iff in Hwf as [Hn Hv].
    assert (Hn' : tok_ok (n ++ [58]) = true).
    { apply other_name_tok, tok_ok_spec in Hn as [Hne Hnw]. apply tok_ok_spec. split.
      - destruct n; discriminate.
      - rewrite no_ws_app, Hnw. reflexivity. }
    destruct (name_val_fields n pad v ((if kb then kb_sfx else []) ++ t)) as (rest & E);
      [exact Hn'|exact Hv| |].
    { destruct kb; [reflexivity|]. cbn [app]. now apply ws_only_head. }
    unfold block_line. rewrite fig_text_assoc, E. rewrite suffixb_snoc. cbn [negb]. rewrite (parse_int_dec v Hv). reflexivity.
  - destruct fl as [|f fr]; [discriminate|]. cbn [forallb] in Hwf. apply andb_true_iff in Hwf as [Hf Hfr].
    cbn [map concat]. unfold block_line.
    rewrite <- !app_assoc. cbn [app].
    rewrite split_max_tok; [|reflexivity|reflexivity].
    rewrite split_max_cons_ws by reflexivity.
    rewrite split_max_tok; [|now apply flag_ok_tok|].
    2:{ destruct fr as [|g fr']; [cbn [map concat app]; now apply ws_only_head|reflexivity]. }
    change (suffixb [58] (bs "VmFlags:")) with true. cbn [negb].
    destruct f as [|c r]; [discriminate|]. unfold flag_ok in Hf. apply andb_true_iff in Hf as [Hc Hnw].
    rewrite (parse_int_lower c r Hc Hnw). reflexivity.
Qed.

Lemma block_fold_app ex st xs ys :
  block_fold ex st (xs ++ ys) = (do st' <- block_fold ex st xs; block_fold ex st' ys).
Proof.
  revert st. induction xs as [|x xs IH]; intros st; [reflexivity|].
  cbn [app block_fold]. destruct (block_line ex st x); cbn [obind]; auto.
Qed.

Lemma block_fold_lines ex ls xs cur d rows :
  forallb wf_line ls = true -> Forall2 is_text ls xs ->
  block_fold ex (cur, d, rows) xs = Val (cur, fold_left upd ls d, rows).
Proof.
  intros Hwf H. revert d Hwf. induction H as [|l x ls xs Hx _ IH]; intros d Hwf; [reflexivity|].
  cbn [forallb] in Hwf. apply andb_true_iff in Hwf as [Hl Hls].
  cbn [block_fold fold_left]. rewrite (block_line_data ex l x cur d rows Hl Hx). cbn [obind].
  now apply IH.
Qed.

(* ------------------------------------------------ the header line *)
Definition hdr_text (m : mapping) : bytes := hdr_core m ++ hdr_trail m.

Lemma split5 a p o d i tail :
  tok_ok a = true -> tok_ok p = true -> tok_ok o = true -> tok_ok d = true -> tok_ok i = true ->
  ws_head tail = true ->
  split_max 5 (a ++ 32 :: p ++ 32 :: o ++ 32 :: d ++ 32 :: i ++ tail) = a :: p :: o :: d :: i :: split_max 0 tail.
Proof.
  intros Ha Hp Ho Hd Hi Ht.
  rewrite split_max_tok by (auto; reflexivity). rewrite split_max_cons_ws by reflexivity.
  rewrite split_max_tok by (auto; reflexivity). rewrite split_max_cons_ws by reflexivity.
  rewrite split_max_tok by (auto; reflexivity). rewrite split_max_cons_ws by reflexivity.
  rewrite split_max_tok by (auto; reflexivity). rewrite split_max_cons_ws by reflexivity.
  rewrite split_max_tok by auto. reflexivity.
Qed.

Lemma wf_kernel_parts m : wf_kernel0 m = true ->
  forallb tok_ok (hdr_tokens m) = true /\ suffixb [58] (m_addr m) = false /\
  (match m_addr m with c :: _ => is_hex c | [] => false end) = true /\
  path_head_ok m = true /\ forallb wf_line (m_lines m) = true /\
  forallb (fun f => Nat.leb (count_fig f (m_lines m)) 1) all_figs = true /\
  m_lines m <> [].
Proof.
  unfold wf_kernel0, wf_header, wf_body. intros H.
  apply andb_true_iff in H as [Hh Hb].
  apply andb_true_iff in Hb as [Hb H7]. apply andb_true_iff in Hb as [H5 H6].
  apply andb_true_iff in Hh as [H H4].
  apply andb_true_iff in H as [H H3]. apply andb_true_iff in H as [H1 H2].
  apply negb_true_iff in H2.
  assert (m_lines m <> []) by (destruct (m_lines m); [discriminate|discriminate]). auto 10.
Qed.

Lemma esc_nl_no_nl p : contains 10 (esc_nl p) = false.
Proof.
  induction p as [|c p IH]; [reflexivity|]. cbn [esc_nl]. destruct (Z.eqb_spec c 10) as [->|Hc].
  - rewrite !contains_cons, IH. reflexivity.
  - rewrite contains_cons, IH. destruct (Z.eqb_spec 10 c); [congruence|reflexivity].
Qed.
Lemma esc_nl_id p : contains 10 p = false -> esc_nl p = p.
Proof.
  induction p as [|c p IH]; [reflexivity|]. rewrite contains_cons. intros H. apply orb_false_iff in H as [Hc Hp].
  cbn [esc_nl]. rewrite Z.eqb_sym, Hc. now rewrite IH.
Qed.
Lemma esc_nl_head c pr : is_ws c = false -> esc_nl (c :: pr) = c :: esc_nl pr.
Proof. intros H. cbn [esc_nl]. destruct (Z.eqb_spec c 10) as [->|]; [discriminate H|reflexivity]. Qed.

Lemma hdr_fields m : wf_kernel0 m = true ->
  split_max 5 (hdr_text m) =
  hdr_tokens m ++ match m_path m with [] => [] | _ => [shown_path m] end.
Proof.
  intros H. apply wf_kernel_parts in H as (Ht & _ & _ & Hp & _).
  unfold hdr_tokens in *. cbn [forallb] in Ht.
  apply andb_true_iff in Ht as [Ha Ht]. apply andb_true_iff in Ht as [Hpm Ht].
  apply andb_true_iff in Ht as [Ho Ht]. apply andb_true_iff in Ht as [Hd Ht].
  apply andb_true_iff in Ht as [Hi _].
  unfold hdr_text, hdr_core, hdr_trail, hdr_tokens. cbn [join]. rewrite <- !app_assoc. cbn [app].
  unfold path_head_ok in Hp. unfold shown_path in *. destruct (m_path m) as [|c pr] eqn:Ep.
  - rewrite split5 by auto. reflexivity.
  - pose proof Hp as Hc. apply negb_true_iff in Hc.
    rewrite split5 by auto. cbn [app]. f_equal. f_equal. f_equal. f_equal. f_equal.
    rewrite split_max_cons_ws by reflexivity. rewrite app_nil_r, split_max_spaces, split_max_0.
    unfold kname. rewrite Ep, (esc_nl_head c pr Hc).
    destruct (m_deleted m); cbn [app lstrip]; rewrite Hc; reflexivity.
Qed.

Lemma firstn_app_len {A} (a b : list A) : firstn (length (a ++ b) - length b) (a ++ b) = a.
Proof.
  rewrite app_length. replace (length a + length b - length b)%nat with (length a) by lia.
  rewrite firstn_app, Nat.sub_diag, firstn_all. cbn [firstn]. apply app_nil_r.
Qed.

Lemma shown_nonnil m c pr : m_path m = c :: pr -> path_head_ok m = true -> shown_path m <> [].
Proof.
  intros Ep Hp. unfold path_head_ok in Hp. rewrite Ep in Hp. apply negb_true_iff in Hp.
  unfold shown_path, kname. rewrite Ep, (esc_nl_head c pr Hp). destruct (m_deleted m); discriminate.
Qed.

(* decoding of the path column, for every answer of the probe *)
Lemma clean_path_row ex m c pr : m_path m = c :: pr -> path_head_ok m = true ->
  clean_path ex (shown_path m) = Val (row_path ex m).
Proof.
  intros Ep Hp. pose proof (shown_nonnil m c pr Ep Hp) as Hne.
  unfold row_path, marked in *. rewrite Ep in *.
  unfold clean_path. destruct (shown_path m) as [|c0 r0] eqn:Es; [congruence|]. rewrite <- Es in *.
  destruct (suffixb deleted_sfx (shown_path m)); cbn [negb orb andb] in *; [|reflexivity].
  destruct (ex (shown_path m)); reflexivity.
Qed.

Lemma mk_row_hdr ex m d : wf_kernel0 m = true ->
  mk_row ex (hdr_text m) d =
  Val {| w_addr := m_addr m; w_perms := m_perms m; w_path := row_path ex m;
         w_nums := map (fun k => dict_get k d) map_keys |}.
Proof.
  intros Hk. unfold mk_row. rewrite (hdr_fields m Hk). unfold hdr_tokens.
  apply wf_kernel_parts in Hk as (_ & _ & _ & Hp & _).
  destruct (m_path m) as [|c pr] eqn:Ep; cbn [app].
  - unfold row_path. now rewrite Ep.
  - rewrite (clean_path_row ex m c pr Ep Hp). reflexivity.
Qed.

Lemma block_line_hdr ex m cur d rows : wf_kernel0 m = true ->
  block_line ex (cur, d, rows) (hdr_text m) =
  (do row <- mk_row ex cur d; Val (hdr_text m, d, row :: rows)).
Proof.
  intros Hk. unfold block_line. rewrite (hdr_fields m Hk). unfold hdr_tokens. cbn [app].
  apply wf_kernel_parts in Hk as (_ & Hs & _). rewrite Hs. reflexivity.
Qed.

(* ------------------------------------------------ the dict after one mapping's lines *)
Definition fkey (f : fig) : bytes := fig_name f ++ [58].

Lemma map_keys_eq : map_keys = map fkey row_figs.
Proof. reflexivity. Qed.

Lemma fkey_eqb f g : beqb (fkey f) (fkey g) = fig_eqb f g.
Proof. destruct f, g; reflexivity. Qed.

Lemma in_all_figs f : In f all_figs.
Proof. destruct f; cbn; tauto. Qed.

Lemma other_key_ne n f : other_name_ok n = true -> beqb (fkey f) (n ++ [58]) = false.
Proof.
  intros H. destruct (beqb (fkey f) (n ++ [58])) eqn:E; [|reflexivity].
  apply beqb_eq in E. unfold fkey in E. apply app_inj_tail in E as [E _].
  unfold other_name_ok in H. apply andb_true_iff in H as [_ H]. apply negb_true_iff in H.
  assert (X : existsb (fun f0 => beqb n (fig_name f0)) all_figs = true).
  { apply existsb_exists. exists f. split; [apply in_all_figs|]. subst n. apply beqb_refl. }
  congruence.
Qed.

Lemma get_upd f l d : wf_line l = true ->
  dict_get (fkey f) (upd d l) =
  match line_fig f l with Some v => dec_val v * 1024 | None => dict_get (fkey f) d end.
Proof.
  intros Hwf. destruct l as [g pad v|n pad v kb|fl]; unfold upd; cbn [line_key line_fig].
  - change (fig_name g ++ [58]) with (fkey g). rewrite dict_get_set, fkey_eqb.
    destruct (fig_eqb f g); reflexivity.
  - cbn [wf_line] in Hwf. apply andb_true_iff in Hwf as [Hn _].
    rewrite dict_get_set, (other_key_ne n f Hn). reflexivity.
  - reflexivity.
Qed.

Lemma get_fold_none f ls : forall d, count_fig f ls = O -> forallb wf_line ls = true ->
  dict_get (fkey f) (fold_left upd ls d) = dict_get (fkey f) d.
Proof.
  induction ls as [|l ls IH]; intros d Hc Hwf; [reflexivity|].
  cbn [forallb] in Hwf. apply andb_true_iff in Hwf as [Hl Hls].
  cbn [count_fig] in Hc. cbn [fold_left]. destruct (line_fig f l) eqn:E; [discriminate|].
  rewrite IH by assumption. rewrite get_upd by exact Hl. now rewrite E.
Qed.

Lemma find_fig_count0 f ls : count_fig f ls = O -> find_fig f ls = None.
Proof.
  induction ls as [|l ls IH]; [reflexivity|]. cbn [count_fig find_fig].
  destruct (line_fig f l); [discriminate|exact IH].
Qed.

Lemma get_fold_one f ls : forall d, count_fig f ls = 1%nat -> forallb wf_line ls = true ->
  dict_get (fkey f) (fold_left upd ls d) = fig_kb f ls * 1024.
Proof.
  induction ls as [|l ls IH]; intros d Hc Hwf; [discriminate|].
  cbn [forallb] in Hwf. apply andb_true_iff in Hwf as [Hl Hls].
  cbn [count_fig] in Hc. cbn [fold_left]. unfold fig_kb. cbn [find_fig].
  destruct (line_fig f l) as [v|] eqn:E.
  - injection Hc as Hc. rewrite get_fold_none by assumption. rewrite get_upd by exact Hl. now rewrite E.
  - rewrite IH by assumption. reflexivity.
Qed.

(* ------------------------------------------------ the sequence of lines the splitter sees *)
Inductive texts_of : list mapping -> list bytes -> Prop :=
| T_nil : texts_of [] []
| T_cons m ms xs ys :
    Forall2 is_text (m_lines m) xs -> texts_of ms ys -> texts_of (m :: ms) (hdr_text m :: xs ++ ys).

Definition full (p : bytes * bytes) : bytes := fst p ++ snd p.

Lemma texts_full ls : Forall2 is_text ls (map full (map lp ls)).
Proof. induction ls as [|l ls IH]; constructor; [now right|exact IH]. Qed.

Lemma texts_trim ls : Forall2 is_text ls (trim_last (map lp ls)).
Proof.
  induction ls as [|l ls IH]; [constructor|]. destruct ls as [|l2 ls].
  - constructor; [now left|constructor].
  - cbn [map]. rewrite trim_last_cons. constructor; [now right|exact IH].
Qed.

Definition has_lines (m : mapping) : Prop := m_lines m <> [].

Lemma plines_nonnil m ms : plines (m :: ms) <> [].
Proof. discriminate. Qed.

Lemma texts_of_plines ms : Forall has_lines ms -> texts_of ms (trim_last (plines ms)).
Proof.
  induction ms as [|m ms IH]; intros H; [constructor|].
  inversion H as [|? ? Hm Hms]; subst.
  change (plines (m :: ms)) with (hp m :: (map lp (m_lines m) ++ plines ms)).
  destruct (map lp (m_lines m) ++ plines ms) as [|q r] eqn:E.
  - unfold has_lines in Hm. destruct (m_lines m) as [|l0 ls0]; [congruence|discriminate E].
  - rewrite trim_last_cons, <- E. change (fst (hp m) ++ snd (hp m)) with (hdr_text m).
    destruct ms as [|m2 ms'].
    + change (plines []) with (@nil (bytes * bytes)). rewrite app_nil_r.
      rewrite <- (app_nil_r (trim_last _)). constructor; [apply texts_trim|constructor].
    + rewrite trim_last_app by apply plines_nonnil.
      constructor; [apply texts_full|now apply IH].
Qed.

(* ------------------------------------------------ no line contains a newline *)
Lemma tok_no_nl t : tok_ok t = true -> contains 10 t = false.
Proof. intros H. apply tok_ok_spec in H as [_ H]. now apply no_ws_contains. Qed.

Lemma fig_name_no_nl f : contains 10 (fig_name f) = false.
Proof. destruct f; reflexivity. Qed.

Lemma flags_no_nl fl : forallb flag_ok fl = true -> contains 10 (concat (map (cons 32) fl)) = false.
Proof.
  induction fl as [|f fr IH]; [reflexivity|]. cbn [forallb map concat]. intros H.
  apply andb_true_iff in H as [Hf Hr]. rewrite contains_app, IH by exact Hr.
  rewrite contains_cons, (tok_no_nl f (flag_ok_tok f Hf)). reflexivity.
Qed.

Lemma line_core_no_nl l : wf_line l = true -> contains 10 (line_core l) = false.
Proof.
  intros H. destruct l as [f pad v|n pad v kb|fl]; cbn [line_core wf_line] in *.
  - rewrite contains_app, contains_cons, !contains_app, fig_name_no_nl, contains_spaces by discriminate.
    now rewrite (tok_no_nl v (is_dec_tok_ok v H)).
  - apply andb_true_iff in H as [Hn Hv].
    rewrite contains_app, contains_cons, !contains_app, contains_spaces by discriminate.
    rewrite (tok_no_nl n (other_name_tok n Hn)), (tok_no_nl v (is_dec_tok_ok v Hv)). now destruct kb.
  - destruct fl as [|f fr]; [discriminate|]. rewrite contains_app, flags_no_nl by exact H. reflexivity.
Qed.

Lemma is_text_no_nl l x : wf_line l = true -> is_text l x -> contains 10 x = false.
Proof.
  intros Hwf [->| ->]; [now apply line_core_no_nl|].
  unfold k_line. rewrite contains_app, line_core_no_nl by exact Hwf. now destruct l.
Qed.

Lemma hdr_text_no_nl m : wf_kernel0 m = true -> contains 10 (hdr_text m) = false.
Proof.
  intros H. apply wf_kernel_parts in H as (Ht & _ & _ & Hp & _).
  unfold hdr_tokens in *. cbn [forallb] in Ht.
  apply andb_true_iff in Ht as [Ha Ht]. apply andb_true_iff in Ht as [Hpm Ht].
  apply andb_true_iff in Ht as [Ho Ht]. apply andb_true_iff in Ht as [Hd Ht].
  apply andb_true_iff in Ht as [Hi _].
  unfold hdr_text, hdr_core, hdr_trail, hdr_tokens. cbn [join].
  rewrite !contains_app.
  rewrite (tok_no_nl _ Ha), (tok_no_nl _ Hpm), (tok_no_nl _ Ho), (tok_no_nl _ Hd), (tok_no_nl _ Hi).
  change (contains 10 [32]) with false. cbn [orb].
  unfold shown_path. destruct (m_path m) as [|c pr] eqn:Ep; [reflexivity|].
  rewrite contains_cons, contains_app, contains_spaces by discriminate. unfold kname.
  destruct (m_deleted m); [rewrite contains_app|]; rewrite esc_nl_no_nl; reflexivity.
Qed.

Lemma texts_no_nl ms ys : texts_of ms ys -> forallb wf_kernel0 ms = true ->
  forallb (fun t => negb (contains 10 t)) ys = true.
Proof.
  induction 1 as [|m ms xs ys Hx _ IH]; intros Hwf; [reflexivity|].
  cbn [forallb] in Hwf. apply andb_true_iff in Hwf as [Hm Hms].
  cbn [forallb]. rewrite (hdr_text_no_nl m Hm). cbn [negb andb].
  rewrite forallb_app, IH by exact Hms. rewrite andb_true_r.
  apply wf_kernel_parts in Hm as (_ & _ & _ & _ & Hl & _).
  clear -Hx Hl. induction Hx as [|l x ls xs Hlx _ IH]; [reflexivity|].
  cbn [forallb] in *. apply andb_true_iff in Hl as [Hl Hls].
  rewrite (is_text_no_nl l x Hl Hlx), IH by exact Hls. reflexivity.
Qed.

(* ------------------------------------------------ the whole loop *)
Definition finish (ex : bytes -> probe_res) (st : bstate) : outcome (list maprow) :=
  let '(cur, d, rows) := st in do row <- mk_row ex cur d; Val (rev (row :: rows)).

Definition has_figs (m : mapping) (d : dict) : Prop :=
  forall f, In f row_figs -> dict_get (fkey f) d = kb m f * 1024.

Lemma row_of ex m d : wf_kernel0 m = true -> has_figs m d ->
  mk_row ex (hdr_text m) d = Val (probed_row ex m).
Proof.
  intros Hwf Hd. rewrite mk_row_hdr by assumption. unfold probed_row. f_equal. f_equal.
  rewrite map_keys_eq, map_map. apply map_ext_in. exact Hd.
Qed.

Lemma count_le1 m f : wf_kernel0 m = true -> (count_fig f (m_lines m) <= 1)%nat.
Proof.
  intros H. apply wf_kernel_parts in H as (_ & _ & _ & _ & _ & Hc & _).
  rewrite forallb_forall in Hc. apply Nat.leb_le. apply Hc. apply in_all_figs.
Qed.

Lemma kb_absent m f : count_fig f (m_lines m) = O -> kb m f = 0.
Proof. intros H. unfold kb, fig_kb. now rewrite (find_fig_count0 f _ H). Qed.

(* the dict after a mapping's lines holds that mapping's figures, provided a figure the
   mapping does not print was not printed by the previous one either *)
Lemma has_figs_step m m' dm : wf_kernel0 m' = true -> has_figs m dm ->
  (forall f, In f row_figs -> count_fig f (m_lines m') = O -> count_fig f (m_lines m) = O) ->
  has_figs m' (fold_left upd (m_lines m') dm).
Proof.
  intros Hk Hd Hu f Hf. pose proof (count_le1 m' f Hk) as Hle.
  pose proof Hk as Hk2. apply wf_kernel_parts in Hk2 as (_ & _ & _ & _ & Hl & _).
  destruct (count_fig f (m_lines m')) as [|[|n]] eqn:Ec; [| |lia].
  - rewrite get_fold_none by assumption. rewrite (Hd f Hf), (kb_absent m' f Ec), (kb_absent m f (Hu f Hf Ec)). reflexivity.
  - unfold kb. now apply get_fold_one.
Qed.

Lemma has_figs_init m : wf_kernel0 m = true -> has_figs m (fold_left upd (m_lines m) []).
Proof.
  intros Hk f Hf. pose proof (count_le1 m f Hk) as Hle.
  pose proof Hk as Hk2. apply wf_kernel_parts in Hk2 as (_ & _ & _ & _ & Hl & _).
  destruct (count_fig f (m_lines m)) as [|[|n]] eqn:Ec; [| |lia].
  - rewrite get_fold_none by assumption. now rewrite (kb_absent m f Ec).
  - unfold kb. now apply get_fold_one.
Qed.

(* every row figure is on every mapping or on none *)
Definition unif (ms : list mapping) : Prop :=
  forall f, In f row_figs ->
    (forall m, In m ms -> count_fig f (m_lines m) = 1%nat) \/ (forall m, In m ms -> count_fig f (m_lines m) <> 1%nat).

Lemma uniform_figs_unif ms : uniform_figs ms = true -> unif ms.
Proof.
  unfold uniform_figs, unif. intros H f Hf. rewrite forallb_forall in H. specialize (H f Hf).
  apply orb_true_iff in H as [H|H]; rewrite forallb_forall in H.
  - left. intros m Hm. apply Nat.eqb_eq. exact (H m Hm).
  - right. intros m Hm E. specialize (H m Hm). unfold has_fig in H. apply Nat.eqb_eq in E. rewrite E in H. discriminate.
Qed.

Lemma unif_tail m ms : unif (m :: ms) -> unif ms.
Proof. intros H f Hf. destruct (H f Hf) as [A|A]; [left|right]; intros m' Hm'; apply A; now right. Qed.

Lemma unif_step m m' ms : unif (m :: m' :: ms) -> wf_kernel0 m = true ->
  forall f, In f row_figs -> count_fig f (m_lines m') = O -> count_fig f (m_lines m) = O.
Proof.
  intros H Hk f Hf E. pose proof (count_le1 m f Hk) as Hle. destruct (H f Hf) as [A|A].
  - specialize (A m' (or_intror (or_introl eq_refl))). congruence.
  - specialize (A m (or_introl eq_refl)). lia.
Qed.

Lemma blocks_run ex rest ys : texts_of rest ys -> forallb wf_kernel0 rest = true ->
  forall m dm rows, wf_kernel0 m = true -> has_figs m dm -> unif (m :: rest) ->
  (do st <- block_fold ex (hdr_text m, dm, rows) ys; finish ex st)
  = Val (rev rows ++ probed_row ex m :: map (probed_row ex) rest).
Proof.
  induction 1 as [|m' ms xs ys Hx _ IH]; intros Hwf m dm rows Hm Hd Hu.
  - cbn [block_fold obind finish]. rewrite (row_of ex m dm Hm Hd). reflexivity.
  - cbn [forallb] in Hwf. apply andb_true_iff in Hwf as [Hm' Hms].
    pose proof Hm' as Hk'.
    cbn [block_fold]. rewrite (block_line_hdr ex m' _ dm rows Hk'), (row_of ex m dm Hm Hd). cbn [obind].
    rewrite block_fold_app.
    rewrite (block_fold_lines ex (m_lines m') xs); [|now apply wf_kernel_parts in Hk' as (_ & _ & _ & _ & Hl & _)|exact Hx].
    cbn [obind].
    rewrite (IH Hms m' _ (probed_row ex m :: rows) Hm' (has_figs_step m m' dm Hk' Hd (unif_step m m' ms Hu Hm)) (unif_tail m _ Hu)).
    cbn [rev map]. now rewrite <- app_assoc.
Qed.

Lemma memory_maps_data ex content D : strip content = D -> D <> [] ->
  memory_maps Alive ex (FContent content) = maps_of_data ex D.
Proof. intros E Hne. unfold memory_maps, with_file. rewrite fstrip_strip, E. destruct D; [congruence|reflexivity]. Qed.

Lemma wf_has_lines ms : forallb wf_kernel0 ms = true -> Forall has_lines ms.
Proof.
  induction ms as [|m ms IH]; [constructor|]. cbn [forallb]. intros H. apply andb_true_iff in H as [Hm Hms].
  constructor; [|now apply IH].
  now apply wf_kernel_parts in Hm as (_ & _ & _ & _ & _ & _ & Hne).
Qed.

(* last physical line of a listing: a well-formed data line *)
Lemma plines_last ms m0 : forallb wf_kernel0 (m0 :: ms) = true ->
  exists l, wf_line l = true /\ last (plines (m0 :: ms)) ([], []) = lp l.
Proof.
  revert m0. induction ms as [|m1 ms IH]; intros m0 H.
  - cbn [forallb] in H. apply andb_true_iff in H as [Hm _].
    pose proof (wf_has_lines [m0]) as Hl. cbn [forallb] in Hl. rewrite Hm in Hl. specialize (Hl eq_refl).
    inversion Hl as [|? ? Hne _]; subst. unfold has_lines in Hne.
    apply wf_kernel_parts in Hm as (_ & _ & _ & _ & Hwl & _).
    destruct (exists_last Hne) as (ls' & l & El). exists l. split.
    + rewrite El, forallb_app in Hwl. apply andb_true_iff in Hwl as [_ Hwl]. cbn [forallb] in Hwl.
      now apply andb_true_iff in Hwl as [Hwl _].
    + unfold plines. cbn [flat_map]. rewrite app_nil_r. unfold mlines. rewrite El, map_app. cbn [map].
      rewrite app_comm_cons. apply last_last.
  - cbn [forallb] in H. apply andb_true_iff in H as [_ H]. destruct (IH m1 H) as (l & Hl & El).
    exists l. split; [exact Hl|].
    change (plines (m0 :: m1 :: ms)) with (mlines m0 ++ plines (m1 :: ms)).
    rewrite last_app_nonnil by apply plines_nonnil. exact El.
Qed.

Lemma hdr_core_head m : wf_kernel0 m = true -> ws_head (hdr_core m) = false.
Proof.
  intros Hm. apply wf_kernel_parts in Hm as (Ht & _). unfold hdr_tokens in Ht. cbn [forallb] in Ht.
  apply andb_true_iff in Ht as [Ha _]. unfold hdr_core, hdr_tokens. cbn [join].
  rewrite <- app_assoc. now apply tok_head.
Qed.

Lemma data_nonnil m0 ms : forallb wf_kernel0 (m0 :: ms) = true ->
  join [10] (trim_last (plines (m0 :: ms))) <> [].
Proof.
  intros H E. cbn [forallb] in H. apply andb_true_iff in H as [Hm _].
  pose proof (hdr_core_head m0 Hm) as Hh.
  change (plines (m0 :: ms)) with (hp m0 :: (map lp (m_lines m0) ++ plines ms)) in E.
  assert (Hne : fst (hp m0) <> []) by (cbn [hp fst]; intros Z; rewrite Z in Hh; discriminate).
  pose proof (join_trim_head (hp m0) (map lp (m_lines m0) ++ plines ms) Hne) as J.
  rewrite E in J. cbn [hp fst] in J. rewrite Hh in J. discriminate.
Qed.

(* .strip() of the whole listing *)
Lemma strip_smaps m0 ms : forallb wf_kernel0 (m0 :: ms) = true ->
  strip (k_smaps (m0 :: ms)) = join [10] (trim_last (plines (m0 :: ms))).
Proof.
  intros H. rewrite k_smaps_pr.
  change (plines (m0 :: ms)) with (hp m0 :: (map lp (m_lines m0) ++ plines ms)).
  destruct (plines_last ms m0 H) as (l & Hl & El).
  change (plines (m0 :: ms)) with (hp m0 :: (map lp (m_lines m0) ++ plines ms)) in El.
  apply (strip_printed _ _ ([], [])).
  - cbn [forallb] in H. apply andb_true_iff in H as [Hm _]. cbn [hp fst]. now apply (hdr_core_head).
  - rewrite El. cbn [lp fst]. pose proof (line_core_good l Hl) as G. unfold good_core in G.
    now apply andb_true_iff in G as [_ G].
  - rewrite El. cbn [lp snd]. apply line_trail_ws.
Qed.

(* the rows for every listing and every answer of the probe (there / not there for whatever
   errno / permission denied): one row per record, in order *)
Theorem maps_rows ex ms : forallb wf_kernel0 ms = true -> uniform_figs ms = true ->
  memory_maps Alive ex (FContent (k_smaps ms)) = Val (map (probed_row ex) ms).
Proof.
  intros Hwf Hunif. apply uniform_figs_unif in Hunif. destruct ms as [|m0 ms]; [reflexivity|].
  pose proof Hwf as Hk.
  pose proof (texts_of_plines (m0 :: ms) (wf_has_lines _ Hk)) as Ht.
  pose proof (texts_no_nl _ _ Ht Hk) as Hn.
  rewrite (memory_maps_data ex _ _ (strip_smaps m0 ms Hk)).
  2:{ apply (data_nonnil m0 ms Hk). }
  unfold maps_of_data. remember (trim_last (plines (m0 :: ms))) as T eqn:ET. clear ET.
  rewrite split_on_join; [|intros Z; rewrite Z in Ht; inversion Ht|exact Hn].
  inversion Ht as [|? ? xs ys Hx Hy E1 E2]; subst.
  cbn [forallb] in Hwf. apply andb_true_iff in Hwf as [Hm0 Hms].
  cbn [forallb] in Hk. apply andb_true_iff in Hk as [Hk0 _].
  rewrite block_fold_app.
  rewrite (block_fold_lines ex (m_lines m0) xs); [|now apply wf_kernel_parts in Hk0 as (_ & _ & _ & _ & Hl & _)|exact Hx].
  cbn [obind].
  pose proof (blocks_run ex ms ys Hy Hms m0 _ [] Hm0 (has_figs_init m0 Hk0) Hunif) as R.
  unfold finish in R. cbn [rev app map] in R |- *.
  destruct (block_fold ex (hdr_text m0, fold_left upd (m_lines m0) [], []) ys) as [[[cur d] rows]| |];
    cbn [obind] in R |- *; try discriminate R. exact R.
Qed.

(* with a readable marker the decoded path is the mapping's own name *)
Lemma row_path_own ex m : path_head_ok m = true -> marker_ok ex m = true ->
  row_path ex m = match m_path m with [] => anon_path | _ => kname m end.
Proof.
  intros Hp Hm. unfold row_path, marker_ok, marked, path_head_ok in *.
  destruct (m_path m) as [|c pr] eqn:Ep; [reflexivity|].
  unfold shown_path in *. destruct (m_deleted m).
  - rewrite suffixb_app in *. cbn [negb orb andb] in *. rewrite Hm.
    change 10%nat with (length deleted_sfx). apply firstn_app_len.
  - destruct (suffixb deleted_sfx (kname m)); cbn [negb orb andb] in *; [|reflexivity]. now rewrite Hm.
Qed.

Lemma wf_kernel_split ex m : wf_kernel ex m = true -> wf_kernel0 m = true /\ marker_ok ex m = true.
Proof. unfold wf_kernel. intros H. now apply andb_true_iff in H. Qed.

Lemma forallb_kernel0 ex ms : forallb (wf_kernel ex) ms = true -> forallb wf_kernel0 ms = true.
Proof.
  induction ms as [|m ms IH]; [reflexivity|]. cbn [forallb]. intros H. apply andb_true_iff in H as [Hm Hms].
  destruct (wf_kernel_split ex m Hm) as (H0 & _). now rewrite H0, IH.
Qed.

Theorem maps_ungrouped ex ms : forallb (wf_kernel ex) ms = true -> uniform_figs ms = true ->
  memory_maps Alive ex (FContent (k_smaps ms)) = Val (map spec_row ms).
Proof.
  intros Hwf Hunif. pose proof (forallb_kernel0 ex ms Hwf) as H0.
  rewrite (maps_rows ex ms H0 Hunif). f_equal. apply map_ext_in. intros m Hm.
  rewrite forallb_forall in Hwf. destruct (wf_kernel_split ex m (Hwf m Hm)) as (Hk & Hmk).
  unfold probed_row, spec_row. f_equal. apply row_path_own; auto.
  now apply wf_kernel_parts in Hk as (_ & _ & _ & Hp & _).
Qed.
