(* C20 -- proofs about the list-then-read loops (C20/Loop.v): for EVERY per-item outcome list. *)
From PV Require Import C20.Loop.
Import ListNotations.

Lemma tol_enoent : forall m e, loop_tolerates m e = is_enoent e.
Proof. intros m e; destruct m, e; reflexivity. Qed.

Lemma item_gone_fail : forall e, item_gone (IFail e) = is_enoent e.
Proof. intros e; destruct e; reflexivity. Qed.

(* the loop, for every list (induction), any accumulator, any flag, any start index *)
Lemma loop_body_spec : forall m outs i acc hit,
  loop_body m i outs acc hit =
  match first_hard outs with
  | Some e => inr e
  | None => inl (rev acc ++ kept m i outs, hit || existsb item_gone outs)
  end.
Proof.
  intros m outs; induction outs as [|o t IH]; intros i acc hit.
  - cbn [loop_body first_hard kept existsb]. rewrite app_nil_r, Bool.orb_false_r. reflexivity.
  - destruct o as [|e].
    + cbn [loop_body first_hard kept existsb item_gone]. rewrite IH.
      destruct (first_hard t); [reflexivity|].
      cbn [rev]. rewrite <- app_assoc. cbn [app orb]. reflexivity.
    + cbn [loop_body first_hard kept existsb]. rewrite tol_enoent, item_gone_fail.
      destruct (is_enoent e) eqn:E; [|reflexivity].
      destruct m; rewrite IH; destruct (first_hard t); try reflexivity;
        cbn [rev orb]; rewrite ?Bool.orb_true_r, <- ?app_assoc; reflexivity.
Qed.

Lemma first_hard_ok : forall outs e, outs_ok outs = true -> first_hard outs = Some e -> err_ok SunOS e = true.
Proof.
  induction outs as [|o t IH]; intros e H F; [discriminate|].
  unfold outs_ok in H; cbn [forallb] in H. apply Bool.andb_true_iff in H; destruct H as [H1 H2].
  destruct o as [|e']; cbn [first_hard] in F; [exact (IH e H2 F)|].
  destruct (is_enoent e'); [exact (IH e H2 F)|]. injection F as <-. exact H1.
Qed.

(* the decorator's answer to an OSError is what the property text demands (or, where it demands nothing, one of the
   two no-such-process classes) *)
Lemma wrap_in_translations : forall m site e s z,
  err_ok SunOS e = true -> z && negb (listed s) = false ->
  In (LExc (wrap SunOS (Build_cond e s z))) (loop_translations m site e s z).
Proof.
  intros m site e s z He Hz. unfold loop_translations.
  destruct e, s, z; try discriminate; vm_compute; auto.
Qed.

Theorem loop_model : forall m outs stat s z,
  outs_ok outs = true -> stat_ok stat = true -> z && negb (listed s) = false ->
  In (loop_outcome m outs stat s z) (loop_allowed m outs stat s z).
Proof.
  intros m outs stat s z Ho Hs Hz. unfold loop_outcome, loop_allowed. rewrite loop_body_spec.
  destruct (first_hard outs) as [e|] eqn:F.
  - apply wrap_in_translations; [exact (first_hard_ok outs e Ho F)|exact Hz].
  - cbn [rev app orb].
    destruct (existsb item_gone outs); [|left; reflexivity].
    destruct stat as [e|]; [|left; reflexivity].
    apply wrap_in_translations; [exact Hs|exact Hz].
Qed.

Example loop_model_nontrivial :
  outs_ok [IOk; IFail ENOENT; IOk] = true /\ stat_ok (Some ENOENT) = true /\ false && negb (listed Gone) = false
  /\ loop_outcome LThreads [IOk; IFail ENOENT; IOk] (Some ENOENT) Gone false = LExc RNoSuch
  /\ loop_allowed LThreads [IOk; IFail ENOENT; IOk] (Some ENOENT) Gone false = [LExc RNoSuch]
  /\ loop_outcome LThreads [IOk; IFail ENOENT; IOk] None Alive false = LList [Read 0%nat; Read 2%nat].
Proof. vm_compute. repeat split. Qed.

(* the process died in mid-loop: items read, then one vanished, and the process is not there any more *)
Theorem loop_dies_midloop : forall m outs e s,
  first_hard outs = None -> existsb item_gone outs = true -> (e = ENOENT \/ e = ESRCH) ->
  loop_outcome m outs (Some e) s false = LExc (if listed s then RZombie else RNoSuch).
Proof.
  intros m outs e s F G E. unfold loop_outcome. rewrite loop_body_spec, F, G. cbn [orb].
  destruct E as [-> | ->]; destruct s; reflexivity.
Qed.

(* never the half-read list, whatever the liveness probe fails with *)
Theorem loop_no_partial_list : forall m outs e s z l,
  first_hard outs = None -> existsb item_gone outs = true -> loop_outcome m outs (Some e) s z <> LList l.
Proof.
  intros m outs e s z l F G. unfold loop_outcome. rewrite loop_body_spec, F, G. cbn [orb]. discriminate.
Qed.

(* process alive: the items that were read, in listing order (memory_maps: with the unresolved rows) *)
Theorem loop_alive_partial : forall m outs s z,
  first_hard outs = None -> loop_outcome m outs None s z = LList (kept m 0 outs).
Proof.
  intros m outs s z F. unfold loop_outcome. rewrite loop_body_spec, F. cbn [rev app orb].
  destruct (existsb item_gone outs); reflexivity.
Qed.

Lemma kept_all_ok : forall m n i, kept m i (repeat IOk n) = map Read (List.seq i n).
Proof. intros m n; induction n as [|n IH]; intros i; [reflexivity|]. cbn [repeat kept List.seq map]. rewrite IH. reflexivity. Qed.

(* a per-item failure that is not a vanished item ends the method with its translation, whatever follows *)
Theorem loop_hard_failure : forall m outs stat s z e,
  first_hard outs = Some e -> loop_outcome m outs stat s z = LExc (wrap SunOS (Build_cond e s z)).
Proof. intros m outs stat s z e F. unfold loop_outcome. rewrite loop_body_spec, F. reflexivity. Qed.
