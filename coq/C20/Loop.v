(* C20 -- list-then-read loops of _pssunos.Process (wave 8): threads() (_pssunos.py:564-595),
   open_files() (598-616), memory_maps() (676-720).  The method first obtains a LIST (os.listdir of
   <procfs>/<pid>/lwp or /fd, the rows of cext.proc_memory_maps), then makes ONE read per item
   (cext.query_process_thread / os.readlink), tolerating ENOENT of a single item ("thread gone in
   meantime", "link does not resolve"), and -- when at least one ENOENT was tolerated -- ends with the
   liveness probe _assert_alive() = os.stat(<procfs>/<pid>), whose OSError reaches wrap_exceptions.
   The world of one call: the per-item outcome LIST (any length), the answer of the liveness probe,
   what the process listing says (pid_exists of the ladder), pid 0 or not.

   Part 1 (model) transcribes the code; part 2 (contract) is written from the property text. *)
From PV Require Export C20.Spec.

Inductive lmeth := LThreads | LOpenFiles | LMemoryMaps.
Definition lname (m : lmeth) : string :=
  match m with LThreads => "threads" | LOpenFiles => "open_files" | LMemoryMaps => "memory_maps" end.
(* the per-item access point *)
Definition lsite (m : lmeth) : string :=
  match m with LThreads => "query_process_thread" | _ => "os.readlink" end.

(* outcome of the read of one item *)
Inductive iout := IOk | IFail (e : err).
(* an element of the answer: item number i of the listing, read -- or (memory_maps) kept with its unresolved link path *)
Inductive ritem := Read (i : nat) | Unres (i : nat).
Inductive lres := LList (l : list ritem) | LExc (r : res).

(* ------------------------------------------------------------------ part 1: the code *)
(* "except FileNotFoundError" (open_files) / "err.errno == errno.ENOENT" (threads, memory_maps) *)
Definition loop_tolerates (m : lmeth) (e : err) : bool :=
  match m with
  | LOpenFiles => match pycls_of e with CNotFound => true | _ => false end
  | _ => is_enoent e
  end.

(* the for loop: acc = ret / retlist (newest first), hit = hit_enoent; inr e = the OSError leaves the loop *)
Fixpoint loop_body (m : lmeth) (i : nat) (outs : list iout) (acc : list ritem) (hit : bool) : (list ritem * bool) + err :=
  match outs with
  | [] => inl (rev acc, hit)
  | IOk :: t => loop_body m (S i) t (Read i :: acc) hit                       (* ret.append(...) *)
  | IFail e :: t =>
      if loop_tolerates m e then
        match m with
        | LMemoryMaps => loop_body m (S i) t (Unres i :: acc) true           (* name = unresolved path; hit_enoent = True; append *)
        | _ => loop_body m (S i) t acc true                                   (* hit_enoent = True; continue *)
        end
      else inr e                                                              (* raise *)
  end.

(* the whole decorated method: stat = None: os.stat(<procfs>/<pid>) succeeds; Some e: it raises OSError e *)
Definition loop_outcome (m : lmeth) (outs : list iout) (stat : option err) (s : pstate) (z : bool) : lres :=
  match loop_body m 0 outs [] false with
  | inr e => LExc (wrap SunOS (Build_cond e s z))
  | inl (l, hit) =>
      if hit then match stat with
                  | Some e => LExc (wrap SunOS (Build_cond e s z))            (* _assert_alive() raises *)
                  | None => LList l
                  end
      else LList l
  end.

(* ------------------------------------------------------------------ part 2: what the property demands *)
(* a vanished item (ENOENT of the per-item read) is not a failure of the process *)
Definition item_gone (o : iout) : bool := match o with IFail ENOENT => true | _ => false end.
(* the first per-item failure that is NOT a vanished item ends the method *)
Fixpoint first_hard (outs : list iout) : option err :=
  match outs with
  | [] => None
  | IOk :: t => first_hard t
  | IFail e :: t => if is_enoent e then first_hard t else Some e
  end.
(* the items that are part of the answer, in listing order, numbered from i *)
Fixpoint kept (m : lmeth) (i : nat) (outs : list iout) : list ritem :=
  match outs with
  | [] => []
  | IOk :: t => Read i :: kept m (S i) t
  | IFail _ :: t => match m with LMemoryMaps => Unres i :: kept m (S i) t | _ => kept m (S i) t end
  end.
(* an OS failure that ends the method is translated by the ladder of the property text; where the text demands
   nothing (Solaris: "no such file" about a PID that is listed alive) the call must still END with one of the
   two no-such-process classes -- never with a value *)
Definition loop_translations (m : lmeth) (site : string) (e : err) (s : pstate) (z : bool) : list lres :=
  match contract SunOS (lname m) site (Build_cond e s z) with
  | Some r => [LExc r]
  | None => [LExc RNoSuch; LExc RZombie]
  end.
Definition loop_allowed (m : lmeth) (outs : list iout) (stat : option err) (s : pstate) (z : bool) : list lres :=
  match first_hard outs with
  | Some e => loop_translations m (lsite m) e s z
  | None =>
      match existsb item_gone outs, stat with
      | true, Some e => loop_translations m "os.stat" e s z     (* an item vanished AND the process is not there any more *)
      | _, _ => [LList (kept m 0 outs)]                         (* process alive (or nothing vanished): the partial list *)
      end
  end.

(* the errnos of this platform only *)
Definition outs_ok (outs : list iout) : bool :=
  forallb (fun o => match o with IFail e => err_ok SunOS e | IOk => true end) outs.
Definition stat_ok (stat : option err) : bool := match stat with Some e => err_ok SunOS e | None => true end.
