(* C20 -- model of the non-Linux platform layers of psutil:
   * the wrap_exceptions ladders of _psbsd.py (586-625), _psosx.py (338-355),
     _pssunos.py (346-372), _psaix.py (313-333), _pswindows.py (648-705), transcribed
     branch by branch, together with the handlers that individual Process methods put
     between the native call and the decorator;
   * the interpretation of a probed "slot usage" row on an arbitrary native record
     (the rows themselves are generated: Gen/C20_Tables.v);
   * the platform-conditional post-processing of psutil/__init__.py net_if_addrs()
     (MAC padding, Windows broadcast address through _common.broadcast_addr). *)
From PV Require Export Base.Bytes.

Inductive plat := FreeBSD | OpenBSD | NetBSD | MacOS | SunOS | AIX | Windows.

(* the failure of the native call: an errno, or (Windows) a winerror code *)
Inductive err := ESRCH | ENOENT | EPERM | EACCES | EIO | EINVAL
               | WACCESS | WPRIV | WPARTIAL | WINVAL.

(* what the OS's process listing says about the PID while the error is handled *)
Inductive pstate := Alive | Zombie | Gone.

Record cond := { c_err : err; c_state : pstate; c_pid0 : bool }.

(* outcome classes.  The three psutil exceptions are raised as Cls(pid, name) with the
   Process object's pid and cached name; RRaw = the OSError instance raised by the native
   call leaves the method unchanged; RVal = the method returns normally. *)
Inductive res := RNoSuch | RZombie | RDenied | RRaw | RVal
             | RTimeout      (* TimeoutExpired(seconds, pid, name): wait() only *)
             | RRawProbe.    (* the OSError of a follow-up probe of the error path (is_zombie / pid_exists / pids) leaves bare *)

(* CPython: OSError(errno, ...) is constructed as the subclass PEP 3151 assigns *)
Inductive pycls := CLookup | CNotFound | CPerm | COSError.
Definition pycls_of (e : err) : pycls :=
  match e with
  | ESRCH => CLookup | ENOENT => CNotFound
  | EPERM | EACCES | WACCESS => CPerm
  | EIO | EINVAL | WPRIV | WPARTIAL | WINVAL => COSError
  end.
Definition winerror (e : err) : option Z :=
  match e with WACCESS => Some 5 | WPRIV => Some 1314 | WPARTIAL => Some 299 | WINVAL => Some 87 | _ => None end.

Definition listed (s : pstate) : bool := match s with Gone => false | _ => true end.
Definition zombie (s : pstate) : bool := match s with Zombie => true | _ => false end.

(* pid_exists(pid) of the platform module.  _psposix.pid_exists answers True for PID 0 without
   asking the OS ("this UNIX platform *does* have a process with id 0"); _pssunos uses it as is,
   NetBSD adds "or pid in pids()", OpenBSD "and pid in pids()", _psaix tests /proc/<pid>/psinfo. *)
Definition pid_exists (p : plat) (c : cond) : bool :=
  match p with
  | SunOS | NetBSD | FreeBSD | MacOS => c_pid0 c || listed (c_state c)
  | OpenBSD | AIX | Windows => listed (c_state c)
  end.

(* _pswindows.is_permission_err *)
Definition is_permission_err (e : err) : bool :=
  match pycls_of e with
  | CPerm => true
  | _ => match winerror e with Some w => (w =? 5) || (w =? 1314) | None => false end
  end.

(* the decorator, given that the decorated function raised OSError e *)
Definition wrap (p : plat) (c : cond) : res :=
  let k := pycls_of (c_err c) in
  let s := c_state c in
  match p with
  | FreeBSD | OpenBSD | NetBSD =>
      match k with
      | CLookup => if zombie s then RZombie else RNoSuch        (* is_zombie(pid) *)
      | CPerm => RDenied
      | _ => if c_pid0 c && listed s then RDenied else RRaw     (* pid == 0 and 0 in pids() *)
      end
  | MacOS =>
      match k with
      | CLookup => if zombie s then RZombie else RNoSuch
      | CPerm => RDenied
      | _ => RRaw
      end
  | SunOS =>
      match k with
      | CLookup | CNotFound => if negb (pid_exists SunOS c) then RNoSuch else RZombie
      | CPerm => RDenied
      | COSError => if c_pid0 c then (if listed s then RDenied else RRaw) else RRaw   (* 0 in pids() *)
      end
  | AIX =>
      match k with
      | CLookup | CNotFound => if negb (pid_exists AIX c) then RNoSuch else RZombie
      | CPerm => RDenied
      | COSError => RRaw
      end
  | Windows =>                                                  (* convert_oserror *)
      if is_permission_err (c_err c) then RDenied
      else match k with CLookup => RNoSuch | _ => RRaw end
  end.

(* _psbsd.wrap_exceptions_procfs (NetBSD exe) : None = not handled there *)
Definition wrap_procfs (c : cond) : option res :=
  match pycls_of (c_err c) with
  | CLookup | CNotFound => Some (if zombie (c_state c) then RZombie else RNoSuch)
  | CPerm => Some RDenied
  | COSError => None
  end.

Definition seq (a b : string) : bool := String.eqb a b.
Definition is_enoent (e : err) : bool := match e with ENOENT => true | _ => false end.
Definition is_einval (e : err) : bool := match e with EINVAL => true | _ => false end.
Definition is_partial (e : err) : bool := match e with WPARTIAL => true | _ => false end.

(* which (method, native call) pairs carry a handler of their own *)
Definition g_netbsd_cmdline (meth site : string) : bool := seq meth "cmdline" && seq site "proc_cmdline".
Definition g_netbsd_exe (meth site : string) : bool := seq meth "exe" && seq site "os.readlink".
Definition g_sunos_cred (meth site : string) : bool := (seq meth "uids" || seq meth "gids") && seq site "proc_cred".
Definition g_sunos_exe (meth site : string) : bool := seq meth "exe" && seq site "os.readlink".
Definition g_sunos_path (meth site : string) : bool :=
  (seq meth "cwd" || seq meth "terminal" || seq meth "open_files" || seq meth "memory_maps") && seq site "os.readlink".
Definition g_sunos_thread (meth site : string) : bool := seq meth "threads" && seq site "query_process_thread".
Definition g_aix_cwd (meth site : string) : bool := seq meth "cwd" && seq site "os.readlink".
Definition g_aix_io (meth site : string) : bool := seq meth "io_counters" && seq site "proc_io_counters".
Definition g_win_ppid (meth : string) : bool := seq meth "ppid".
Definition g_win_mmaps_dos (meth site : string) : bool := seq meth "memory_maps" && seq site "QueryDosDevice".
Definition g_win_partial (meth : string) : bool := seq meth "cmdline" || seq meth "environ" || seq meth "cwd".
Definition g_win_fallback (meth site : string) : bool :=
  ((seq meth "memory_info" || seq meth "memory_full_info") && seq site "proc_memory_info")
  || ((seq meth "create_time" || seq meth "cpu_times") && seq site "proc_times")
  || (seq meth "io_counters" && seq site "proc_io_counters")
  || (seq meth "num_handles" && seq site "proc_num_handles").

(* Handlers inside the method bodies.  [Some r] = the body deals with the failure of
   native call [site] itself and the method ends with r; [None] = the OSError reaches
   the decorator. *)
Definition inner (p : plat) (meth site : string) (c : cond) : option res :=
  let e := c_err c in
  let s := c_state c in
  match p with
  | NetBSD =>
      if g_netbsd_cmdline meth site && is_einval e then
        (* _psbsd.py:698-712 *)
        Some (if zombie s then RZombie else if negb (pid_exists NetBSD c) then RNoSuch else RVal)
      else if g_netbsd_exe meth site then wrap_procfs c
      else None
  | SunOS =>
      if g_sunos_cred meth site then
        (* _proc_cred is itself decorated; "except AccessDenied" falls back to psinfo *)
        match wrap SunOS c with RDenied => Some RVal | r => Some r end
      else if g_sunos_exe meth site then Some RVal                            (* except OSError: pass *)
      else if g_sunos_path meth site && is_enoent e then Some RVal
      else if g_sunos_thread meth site && is_enoent e then Some RVal
      else None
  | AIX =>
      if g_aix_cwd meth site && is_enoent e then Some RVal
      else if g_aix_io meth site && negb (pid_exists AIX c) then Some RNoSuch
      else None
  | Windows =>
      if is_partial e && g_win_partial meth then Some RDenied                  (* retry_error_partial_copy *)
      else if is_permission_err e && g_win_fallback meth site then Some RVal   (* slower route through proc_info *)
      else None
  | _ => None
  end.

Definition method_outcome (p : plat) (meth site : string) (c : cond) : res :=
  match inner p meth site c with Some r => r | None => wrap p c end.

(* ------------------------------------------------------------------ every native call of the method fails *)
(* the really gone / really off-limits process: whatever the method asks the OS -- cext calls,
   os.readlink / os.listdir / os.stat / os.waitpid -- ends with the same error.  A second route
   cannot help then; only handlers that decide without another call do (site = the first call made). *)
Definition inner_nocall (p : plat) (meth site : string) (c : cond) : option res :=
  let e := c_err c in
  let s := c_state c in
  match p with
  | NetBSD =>
      if g_netbsd_cmdline meth site && is_einval e then
        Some (if zombie s then RZombie else if negb (pid_exists NetBSD c) then RNoSuch else RVal)
      else if g_netbsd_exe meth site then wrap_procfs c
      else None
  | AIX => if g_aix_io meth site && negb (pid_exists AIX c) then Some RNoSuch else None
  | Windows => if is_partial e && g_win_partial meth then Some RDenied else None
  | _ => None
  end.
Definition all_outcome (p : plat) (meth site : string) (c : cond) : res :=
  match inner_nocall p meth site c with Some r => r | None => wrap p c end.

(* ------------------------------------------------------------------ the follow-up probes of the error path fail too *)
(* Double fault: the method's native call fails with e1 AND every probe the error path then makes -- is_zombie's
   kinfo re-read (BSD, macOS; guarded by "except OSError: return False"), pid_exists (Solaris: _psposix.pid_exists ->
   os.kill(pid, 0), a system call that can only fail with ESRCH or EPERM, both absorbed; any other planned e2 is not a
   failure of that probe, which then truthfully finds the -- listed -- PID; AIX: os.path.exists, which never raises;
   PID 0: True without asking), pids() for the PID-0 rule (cext.pids / os.listdir, unguarded) -- fails with e2.
   [wrap_pf p e e2 z]: the decorator catching OSError e; RRaw = it re-raises what it caught. *)
Definition wrap_pf (p : plat) (e e2 : err) (z : bool) : res :=
  match p with
  | FreeBSD | OpenBSD | NetBSD =>
      match pycls_of e with
      | CLookup => RNoSuch                               (* is_zombie() -> False *)
      | CPerm => RDenied
      | _ => if z then RRawProbe else RRaw               (* 0 in pids(): pids() raises e2 inside the handler *)
      end
  | MacOS => match pycls_of e with CLookup => RNoSuch | CPerm => RDenied | _ => RRaw end
  | SunOS =>
      match pycls_of e with
      | CLookup | CNotFound =>
          if z then RZombie                              (* pid_exists(0) is True without a probe *)
          else match e2 with
               | ESRCH => RNoSuch                        (* os.kill -> ESRCH -> False *)
               | _ => RZombie                            (* os.kill -> EPERM -> True; no other failure exists: the PID is found *)
               end
      | CPerm => RDenied
      | COSError => if z then RRawProbe else RRaw
      end
  | AIX => match pycls_of e with CLookup | CNotFound => RNoSuch | CPerm => RDenied | COSError => RRaw end
  | Windows => wrap Windows (Build_cond e Alive z)       (* no probe in convert_oserror *)
  end.
(* an enclosing decorated method sees the probe's error e2 and translates it again *)
Definition retrans (p : plat) (e2 : err) (z : bool) : res :=
  match wrap_pf p e2 e2 z with RRaw => RRawProbe | r => r end.
Definition nested_pf (p : plat) (e1 e2 : err) (z : bool) : res :=
  match wrap_pf p e1 e2 z with RRawProbe => retrans p e2 z | r => r end.
(* native calls made through a decorated helper (oneshot(), _proc_basic_info(), _proc_name_and_args(), cmdline() ...) *)
Definition g_nested (p : plat) (meth site : string) : bool :=
  match p with
  | FreeBSD | NetBSD => seq site "proc_oneshot_info" && negb (seq meth "oneshot")
  | OpenBSD => (seq site "proc_oneshot_info" && negb (seq meth "oneshot")) || seq meth "exe" || seq meth "num_threads"
  | SunOS => seq site "proc_basic_info" || seq site "proc_name_and_args"
  | _ => false
  end.
Definition probe_outcome (p : plat) (meth site : string) (e1 e2 : err) (z : bool) : res :=
  let c1 := Build_cond e1 Alive z in
  match p with
  | Windows => method_outcome p meth site c1
  | NetBSD =>
      if g_netbsd_cmdline meth site && is_einval e1 then
        (if z then RVal else match e2 with ESRCH => retrans NetBSD e2 z | _ => RVal end)   (* kill: ESRCH / EPERM / found *)
      else if g_netbsd_exe meth site then
        match wrap_procfs c1 with Some RZombie => RNoSuch | Some r => r | None => wrap_pf p e1 e2 z end
      else if g_nested p meth site then nested_pf p e1 e2 z else wrap_pf p e1 e2 z
  | SunOS =>
      if g_sunos_cred meth site then
        match wrap_pf SunOS e1 e2 z with RDenied => RVal | RRawProbe => retrans SunOS e2 z | r => r end
      else if g_sunos_exe meth site then RVal
      else if g_sunos_path meth site && is_enoent e1 then RVal
      else if g_sunos_thread meth site && is_enoent e1 then RVal
      else if g_nested p meth site then nested_pf p e1 e2 z else wrap_pf p e1 e2 z
  | AIX =>
      if g_aix_cwd meth site && is_enoent e1 then RVal
      else if g_aix_io meth site then RNoSuch           (* pid_exists() -> False whatever the probe's error *)
      else wrap_pf p e1 e2 z
  | _ => if g_nested p meth site then nested_pf p e1 e2 z else wrap_pf p e1 e2 z
  end.

(* ------------------------------------------------------------------ two native calls in one method *)
(* (first call fails with e1, the second route's call fails with e2); the pairs the code has:
   Windows "fast call denied -> proc_info", Windows cmdline "PEB denied -> non-PEB query",
   Solaris uids/gids "cred denied -> psinfo". *)
Definition g_win_cmdline_pair (meth site1 site2 : string) : bool :=
  seq meth "cmdline" && seq site1 "proc_cmdline[peb]" && seq site2 "proc_cmdline[nopeb]".
Definition pair_outcome (p : plat) (meth site1 site2 : string) (e1 e2 : err) (s : pstate) (z : bool) : res :=
  let c1 := Build_cond e1 s z in
  let c2 := Build_cond e2 s z in
  match p with
  | Windows =>
      if g_win_cmdline_pair meth site1 site2 then
        if is_permission_err e1 then (if is_partial e2 then RDenied else wrap Windows c2)   (* second query inside the retry decorator *)
        else method_outcome p meth site1 c1
      else if g_win_fallback meth site1 && seq site2 "proc_info" then
        if is_permission_err e1 then wrap Windows c2 else method_outcome p meth site1 c1
      else method_outcome p meth site1 c1
  | SunOS =>
      if g_sunos_cred meth site1 && seq site2 "proc_basic_info" then
        match wrap SunOS c1 with RDenied => wrap SunOS c2 | r => r end
      else method_outcome p meth site1 c1
  | _ => method_outcome p meth site1 c1
  end.

(* retry_error_partial_copy: the call fails k times with ERROR_PARTIAL_COPY, then succeeds
   (then_ = None) or fails with another error; 33 attempts are made *)
Definition retry_outcome (meth site : string) (k : Z) (then_ : option err) (s : pstate) (z : bool) : res :=
  if g_win_partial meth then
    if 33 <=? k then RDenied
    else match then_ with None => RVal | Some e => method_outcome Windows meth site (Build_cond e s z) end
  else method_outcome Windows meth site (Build_cond WPARTIAL s z).

(* wait(timeout=0) with no failing call.  POSIX: _psposix.wait_pid -- waitpid(WNOHANG) says
   "still running" -> TimeoutExpired, ECHILD -> poll pid_exists.  Windows: proc_wait returned
   (or raised its own TimeoutExpired / TimeoutAbandoned), then poll pid_exists. *)
Inductive wscen := WPlain | WNativeTimeout | WAbandoned.
Definition wait_outcome (p : plat) (w : wscen) (s : pstate) : res :=
  match p, w with
  | Windows, WNativeTimeout => RTimeout
  | _, _ => if listed s then RTimeout else RVal
  end.

(* the code before fix d6fc959: Windows memory_maps() is a generator and only proc_memory_maps() sat inside
   its try/except; an error of convert_dos_path() -> QueryDosDevice() of a row left it unchanged *)
Definition method_outcome_pre_d6fc959 (p : plat) (meth site : string) (c : cond) : res :=
  match p with
  | Windows => if g_win_mmaps_dos meth site then RRaw else method_outcome p meth site c
  | _ => method_outcome p meth site c
  end.

(* the code before fix a2d103c: _pswindows.Process.ppid() carried no decorator, so whatever
   ppid_map() raised left the method unchanged (kept only to state what the fix repaired) *)
Definition method_outcome_pre_a2d103c (p : plat) (meth site : string) (c : cond) : res :=
  match p with
  | Windows => if g_win_ppid meth then RRaw else method_outcome p meth site c
  | _ => method_outcome p meth site c
  end.

(* ------------------------------------------------------------------ slot usage rows *)
(* where a returned field comes from, as decoded by the probe *)
Inductive src :=
| SSlot (fn : string) (idx : Z) (mul : Z)     (* slot idx of the record native function fn returned, times mul *)
| SConst (z : Z)
| SNone
| SFun (fn : string) (idxs : list Z)          (* a function of exactly these slots of fn's row (enum, address pair, hex ...) *)
| SUnknown.

Inductive shape := Scalar | Tuple | ListOf.

Record urow := {
  u_plat : plat; u_meth : string;
  u_variant : string;                      (* "" normal route, "fallback" = primary native call denied *)
  u_shape : shape;
  u_type : string;                         (* namedtuple type name, "" for scalars *)
  u_fields : list (string * src);          (* field name ("" for a scalar) and source *)
  u_deps : list (string * Z);              (* native slots whose value influences the result *)
  u_falsy_bad : list (string * Z) }.       (* (field, v) with v in {0, -1}: the slot holding v did NOT arrive as v in that field *)

Definition records := list (string * list Z).
Fixpoint lookup_rec (fn : string) (rs : records) : option (list Z) :=
  match rs with
  | [] => None
  | (f, v) :: r => if String.eqb f fn then Some v else lookup_rec fn r
  end.

(* list index with Python's IndexError made explicit *)
Fixpoint nth_z {A} (l : list A) (i : nat) : option A :=
  match l, i with
  | [], _ => None
  | x :: _, O => Some x
  | _ :: r, S j => nth_z r j
  end.

Inductive fval := FZ (z : Z) | FNone.

Definition eval_src (rs : records) (s : src) : outcome fval :=
  match s with
  | SSlot fn idx mul =>
      match lookup_rec fn rs with
      | None => OutOfModel
      | Some v => if idx <? 0 then Exc IndexError else
                  match nth_z v (Z.to_nat idx) with Some x => Val (FZ (x * mul)) | None => Exc IndexError end
      end
  | SConst z => Val (FZ z)
  | SNone => Val FNone
  | SFun _ _ => OutOfModel
  | SUnknown => OutOfModel
  end.

Definition eval_fields (rs : records) (fs : list (string * src)) : outcome (list (string * fval)) :=
  mapM (fun f => do v <- eval_src rs (snd f); Val (fst f, v)) fs.

(* ------------------------------------------------------------------ shapes of the generated tables *)
(* one probed outcome: class + "exception carries the pid / the cached name" *)
Inductive gout := GX (r : res) (pid_ok name_ok : bool) | GNotFired | GOther.
(* all outcomes of (platform, method, failing native call), in the order of Spec.conds *)
Record lblock := { l_plat : plat; l_meth : string; l_site : string; l_outs : list gout }.
(* PROC_STATUSES of a platform module: native status constant name -> psutil status text *)
Record srow := { s_plat : plat; s_codes : list (string * string) }.
(* outcomes of ESRCH at a native call for a PID listed with native status code sb_code, pid 7 and pid 0 *)
Record sblock := { sb_plat : plat; sb_meth : string; sb_site : string; sb_code : string; sb_outs : list gout }.
(* two-fault outcomes of (platform, method, first call, second call), in the order of Spec.pair_conds *)
Record pblock := { pb_plat : plat; pb_meth : string; pb_site1 : string; pb_site2 : string; pb_outs : list gout }.
(* retry_error_partial_copy probes (Windows, pid 7, alive) *)
Record rrow := { rr_meth : string; rr_site : string; rr_k : Z; rr_then : option err; rr_out : gout }.
(* wait(0) without a failing call *)
Record wrow := { wr_plat : plat; wr_scen : wscen; wr_state : pstate; wr_out : gout }.
(* field list of the named tuple a system-wide front-end function returns on a platform *)
Record sfrow := { sf_plat : plat; sf_fn : string; sf_type : string; sf_fields : list string }.
Record smap := { m_plat : plat; m_name : string; m_slots : list (string * Z) }.
Record names := { nm_plat : plat; nm_all : list string; nm_dir : list string; nm_methods : list string }.

(* ------------------------------------------------------------------ front end: net_if_addrs() *)
(* MAC padding (psutil/__init__.py): while addr.count(sep) < 5: addr += sep + "00" *)
Fixpoint count_byte (b : Z) (l : bytes) : nat :=
  match l with [] => O | x :: r => if x =? b then S (count_byte b r) else count_byte b r end.
Fixpoint pad_times (n : nat) (sep : Z) (a : bytes) : bytes :=
  match n with O => a | S k => pad_times k sep (a ++ [sep; 48; 48]) end.
Definition pad_mac (sep : Z) (a : bytes) : bytes := pad_times (5 - count_byte sep a) sep a.

(* _common.broadcast_addr over ipaddress.IPv{4,6}Network(f"{addr}/{mask}", strict=False):
   the mask text is a netmask (ones then zeros) or, failing that, a host mask (zeros then ones);
   anything else raises (caught in net_if_addrs -> broadcast stays None).
   Addresses are w-bit integers (w = 32 or 128). *)
Definition netmask_of (w p : Z) : Z := 2 ^ w - 2 ^ (w - p).
Fixpoint find_prefix (w m : Z) (fuel : nat) (p : Z) : option Z :=
  match fuel with
  | O => None
  | S k => if netmask_of w p =? m then Some p else find_prefix w m k (p + 1)
  end.
Definition prefix_from_mask (w m : Z) : option Z :=
  match find_prefix w m (S (Z.to_nat w)) 0 with
  | Some p => Some p
  | None => find_prefix w (2 ^ w - 1 - m) (S (Z.to_nat w)) 0      (* host mask *)
  end.
Definition bcast_prefix (w a k : Z) : Z :=
  let nm := netmask_of w k in Z.lor (Z.land a nm) (2 ^ w - 1 - nm).   (* network_address | hostmask *)
Definition broadcast (w a m : Z) : option Z :=
  match prefix_from_mask w m with
  | Some p => Some (bcast_prefix w a p)
  | None => None
  end.

(* number of one bits (bin(int(IPv6Address(mask))).count("1") in _common.broadcast_addr) *)
Fixpoint popcount_pos (p : positive) : Z :=
  match p with xH => 1 | xO q => popcount_pos q | xI q => 1 + popcount_pos q end.
Definition popcount (z : Z) : Z := match z with Zpos p => popcount_pos p | _ => 0 end.

(* net_if_addrs() row post-processing.  fam: 0 = AF_INET, 1 = AF_INET6, 2 = AF_LINK, 3 = other.
   The netmask text of the raw row: none, an address ("255.255.255.0", "ffff:ffff::"), or a prefix length ("24"). *)
Inductive maskt := MNone | MAddr (m : Z) | MPrefix (k : Z).
Record nicrow := { n_fam : Z; n_addr : bytes; n_addrz : Z; n_mask : maskt; n_bcast : option Z }.
Record nicprobe := { np_plat : plat; np_in : nicrow; np_addr_out : bytes; np_bcast_out : option Z }.
Definition post_addr (p : plat) (r : nicrow) : bytes :=
  if n_fam r =? 2 then pad_mac (match p with Windows => 45 | _ => 58 end) (n_addr r) else n_addr r.
Definition post_bcast (p : plat) (r : nicrow) : option Z :=
  match p with
  | Windows =>
      if n_fam r =? 0 then
        match n_mask r with
        | MNone => n_bcast r                                  (* not addr.netmask -> None -> kept *)
        | MAddr m => match broadcast 32 (n_addrz r) m with
                     | Some b => Some b
                     | None => n_bcast r                      (* ipaddress raised: debug(), kept *)
                     end
        | MPrefix k => if (0 <=? k) && (k <=? 32) then Some (bcast_prefix 32 (n_addrz r) k) else n_bcast r
        end
      else if n_fam r =? 1 then
        match n_mask r with
        | MPrefix k => if (0 <=? k) && (k <=? 128) then Some (bcast_prefix 128 (n_addrz r) k) else n_bcast r
        (* ipaddress.IPv6Network accepts a prefix length only: an address-form mask (it contains ':') is
           turned into the number of its one bits first (fix 0a57bb9) *)
        | MAddr m => Some (bcast_prefix 128 (n_addrz r) (popcount m))
        | MNone => n_bcast r
        end
      else n_bcast r
  | _ => n_bcast r
  end.

(* the code before fix 0a57bb9: an IPv6 netmask in address form made ipaddress raise; the row kept its broadcast *)
Definition post_bcast_pre_0a57bb9 (p : plat) (r : nicrow) : option Z :=
  match p, n_mask r with
  | Windows, MAddr _ => if n_fam r =? 1 then n_bcast r else post_bcast p r
  | _, _ => post_bcast p r
  end.

(* ------------------------------------------------------------------ the cached name, through the front end *)
(* psutil/__init__.py Process.name() on POSIX: the kernel name (at most 15 bytes where the kernel truncates) is replaced by
   basename(cmdline()[0]) when that starts with it; the result is stored in self._name AND self._proc._name -- in the
   model ONE piece of state [cache], read by every wrap_exceptions when it builds NoSuchProcess / ZombieProcess /
   AccessDenied / TimeoutExpired (pid, name). *)
Definition basename (c : bytes) : bytes := fold_left (fun acc b => if b =? 47 then [] else acc ++ [b]) c [].
Definition fe_name (kname cmd0 : bytes) (have_cmd : bool) : bytes :=
  if (15 <=? Z.of_nat (List.length kname)) && have_cmd then
    (let b := basename cmd0 in if prefixb kname b then b else kname)
  else kname.
Inductive fevent :=
| EName (kname cmd0 : bytes) (have_cmd ok : bool)     (* front-end name(); ok = false: it raised *)
| ECall (r : res).                                     (* a later method whose platform call ends with class r *)
Inductive fout :=
| OName (n : bytes) | ONameFailed
| ORes (r : res) (name : option bytes).                (* name = what the exception carries (psutil classes) *)
Definition fe_step (cache : option bytes) (ev : fevent) : option bytes * fout :=
  match ev with
  | EName k c h true => let n := fe_name k c h in (Some n, OName n)
  | EName _ _ _ false => (cache, ONameFailed)
  | ECall r => (cache, ORes r cache)
  end.
Fixpoint fe_run (cache : option bytes) (evs : list fevent) : list fout :=
  match evs with
  | [] => []
  | ev :: rest => let (c', o) := fe_step cache ev in o :: fe_run c' rest
  end.
(* ghost: the name the user last saw returned by name() (None: never) *)
Fixpoint last_returned (dflt : option bytes) (outs : list fout) : option bytes :=
  match outs with
  | [] => dflt
  | OName n :: rest => last_returned (Some n) rest
  | _ :: rest => last_returned dflt rest
  end.

(* one front-end history: name() called (mode 0) / never called (1) / called and failed (2), then platform method pm
   failing at native call site with e (pm = "wait", site = "": wait(0) without a failing call): the name the user saw
   returned, and the final outcome with the name it carries *)
Definition fe_history_model (p : plat) (kname cmd0 : bytes) (mode : Z) (pm site : string) (e : err) (s : pstate)
  : option bytes * fout :=
  let r := if seq pm "wait" && seq site "" then wait_outcome p WPlain s
           else method_outcome p pm site (Build_cond e s false) in
  let evs := (if mode =? 0 then [EName kname cmd0 true true] else if mode =? 2 then [EName kname cmd0 true false] else [])
             ++ [ECall r] in
  let outs := fe_run None evs in
  (last_returned None outs, last outs ONameFailed).
Record frow := { fr_plat : plat; fr_kname : bytes; fr_cmd0 : bytes; fr_mode : Z; fr_meth : string; fr_site : string;
                 fr_err : err; fr_state : pstate; fr_returned : option bytes; fr_cls : res; fr_pid_ok : bool;
                 fr_name : option bytes }.
