(* C20 -- the DOCUMENTED contract of the non-Linux platform layers, written from the
   property text, /repo/docs/index.rst, and (for the order of the native one-shot
   records) the Py_BuildValue calls of the C sources -- not from the Python code:
     contract        the error ladder the property demands
     recovery        the deliberate, commented fall-backs that make a method succeed (or
                     decide NoSuchProcess) although a native call failed
     native_layout   order of the slots in each native one-shot record
     doc_layout      per platform and method: tuple type, field names, and the native
                     attribute each field is to be filled from
     doc_names / doc_methods   names the documentation promises per platform
     spec_bcast / spec_mac     front-end post-processing *)
From PV Require Export C20.Model.

(* ------------------------------------------------------------------ error contract *)
Definition err_ok (p : plat) (e : err) : bool :=
  match e, p with
  | (WACCESS | WPRIV | WPARTIAL | WINVAL), Windows => true
  | (WACCESS | WPRIV | WPARTIAL | WINVAL), _ => false
  | ENOENT, Windows => false
  | _, _ => true
  end.

(* "no such process": ESRCH everywhere; ENOENT where the process is looked up through a
   /proc file (Solaris, AIX: every call takes the procfs path; NetBSD: readlink of /proc/pid/exe) *)
Definition nosuch_failure (p : plat) (meth site : string) (e : err) : bool :=
  match e with
  | ESRCH => true
  | ENOENT => match p with SunOS | AIX => true | NetBSD => g_netbsd_exe meth site | _ => false end
  | _ => false
  end.
Definition perm_failure (e : err) : bool :=
  match e with EPERM | EACCES | WACCESS | WPRIV => true | _ => false end.
Definition has_zombies (p : plat) : bool := match p with Windows => false | _ => true end.
(* "on BSD and Solaris an otherwise unexplained OS error on the existing PID 0 is AccessDenied" *)
Definition pid0_rule (p : plat) : bool :=
  match p with FreeBSD | OpenBSD | NetBSD | SunOS => true | _ => false end.

(* None = the property demands nothing (Solaris/AIX: "no such process" about a PID that is
   listed alive and not a zombie) *)
Definition contract (p : plat) (meth site : string) (c : cond) : option res :=
  if nosuch_failure p meth site (c_err c) then
    match c_state c with
    | Gone => Some RNoSuch
    | Zombie => Some (if has_zombies p then RZombie else RNoSuch)
    | Alive => match p with
               | SunOS | AIX => None          (* procfs platforms cannot tell: a PID still there after ENOENT is taken for a zombie *)
               | _ => Some RNoSuch            (* listed, but not as a zombie *)
               end
    end
  else if perm_failure (c_err c) then Some RDenied
  else if pid0_rule p && c_pid0 c && listed (c_state c) then Some RDenied
  else Some RRaw.

(* Deliberate fall-backs (each one is a commented workaround in the platform module). A
   method that succeeds through another route has not failed, so there is nothing to
   translate; the remaining entries decide the class from the process listing. *)
Definition recovery (p : plat) (meth site : string) (c : cond) : option res :=
  let e := c_err c in
  match p with
  | NetBSD =>
      (* cmdline: sysctl(KERN_PROC_ARGS) gives EINVAL for undecodable arguments and for dead PIDs *)
      if g_netbsd_cmdline meth site && is_einval e then
        Some (match c_state c with Zombie => RZombie | Gone => RNoSuch | Alive => RVal end)
      else None
  | SunOS =>
      (* uids/gids: /proc/pid/cred unreadable -> real/effective ids from psinfo, saved = None *)
      if g_sunos_cred meth site then
        (if perm_failure e || (c_pid0 c && listed (c_state c) && negb (nosuch_failure p meth site e)) then Some RVal else None)
      (* exe: path/a.out unreadable -> '' (after cmdline() had its chance to raise) *)
      else if g_sunos_exe meth site then Some RVal
      (* cwd/terminal/open_files/memory_maps: /proc/pid/path/X links that do not resolve although the process is there *)
      else if g_sunos_path meth site && is_enoent e then Some RVal
      (* threads: a thread that went away during the scan *)
      else if g_sunos_thread meth site && is_enoent e then Some RVal
      else None
  | AIX =>
      if g_aix_cwd meth site && is_enoent e then Some RVal
      (* io_counters: perfstat gives a bare OSError for a terminated process *)
      else if g_aix_io meth site && negb (listed (c_state c)) then Some RNoSuch
      else None
  | Windows =>
      (* cmdline/environ/cwd: ERROR_PARTIAL_COPY is retried, then AccessDenied *)
      if is_partial e && g_win_partial meth then Some RDenied
      (* permission failure of the fast call -> slower route through the system-wide process table *)
      else if perm_failure e && g_win_fallback meth site then Some RVal
      else None
  | _ => None
  end.

Definition demanded (p : plat) (meth site : string) (c : cond) : option res :=
  match recovery p meth site c with
  | Some r => Some r
  | None => contract p meth site c
  end.

Definition pair_conds (p : plat) : list (err * err * pstate * bool) :=
  let es := filter (err_ok p) [ESRCH; ENOENT; EPERM; EACCES; EIO; EINVAL; WACCESS; WPRIV; WPARTIAL; WINVAL] in
  flat_map (fun e1 => flat_map (fun e2 => flat_map (fun s => map (fun z => (e1, e2, s, z)) [false; true])
                                                   [Alive; Zombie; Gone]) es) es.

(* finding: PID 0 NOT listed by the OS is still taken to exist (_psposix.pid_exists(0) is True
   unconditionally): Solaris turns a no-such-process failure on it into ZombieProcess, NetBSD
   cmdline() swallows EINVAL for it *)
Definition known_pid0_unlisted (p : plat) (meth site : string) (c : cond) : bool :=
  c_pid0 c && negb (listed (c_state c)) &&
  match p with
  | SunOS => nosuch_failure p meth site (c_err c)
  | NetBSD => g_netbsd_cmdline meth site && is_einval (c_err c)
  | _ => false
  end.

(* the one open class of deviations (kept as the hypothesis of the ladder theorems) *)
Definition known_class (p : plat) (meth site : string) (c : cond) : bool := known_pid0_unlisted p meth site c.

(* native status codes that mean "zombie" (sys/proc.h of each system; OpenBSD reports dead
   processes as SDEAD, SZOMB is unused there but kept) *)
Definition doc_zombie_codes (p : plat) : list string :=
  match p with
  | OpenBSD => ["SDEAD"; "SZOMB"]
  | Windows => []
  | _ => ["SZOMB"]
  end%string.
Definition state_of_code (p : plat) (code : string) : pstate :=
  if existsb (String.eqb code) (doc_zombie_codes p) then Zombie else Alive.

Definition all_err : list err := [ESRCH; ENOENT; EPERM; EACCES; EIO; EINVAL; WACCESS; WPRIV; WPARTIAL; WINVAL].
Definition all_state : list pstate := [Alive; Zombie; Gone].
Definition conds (p : plat) : list cond :=
  flat_map (fun e => flat_map (fun s => map (fun z => Build_cond e s z) [false; true]) all_state)
           (filter (err_ok p) all_err).

(* ------------------------------------------------------------------ two native calls, retries, wait() *)
(* the documented second routes: which (method, first call, second call) and for which first failure *)
Definition pair_sites (p : plat) : list (string * string * string) :=
  match p with
  | Windows => [("memory_info", "proc_memory_info", "proc_info"); ("memory_full_info", "proc_memory_info", "proc_info");
                ("create_time", "proc_times", "proc_info"); ("cpu_times", "proc_times", "proc_info");
                ("io_counters", "proc_io_counters", "proc_info"); ("num_handles", "proc_num_handles", "proc_info");
                ("cmdline", "proc_cmdline[peb]", "proc_cmdline[nopeb]")]
  | SunOS => [("uids", "proc_cred", "proc_basic_info"); ("gids", "proc_cred", "proc_basic_info")]
  | _ => []
  end%string.
Definition second_route (p : plat) (meth site1 site2 : string) (e1 : err) (s : pstate) (z : bool) : bool :=
  match p with
  | Windows => perm_failure e1 &&
               (g_win_cmdline_pair meth site1 site2 || (g_win_fallback meth site1 && seq site2 "proc_info"))
  | SunOS => g_sunos_cred meth site1 && seq site2 "proc_basic_info" &&
             (perm_failure e1 || (z && listed s && negb (nosuch_failure p meth site1 e1)))
  | _ => false
  end.
(* the second route failed too: its failure is what the ladder translates (a PARTIAL_COPY of the
   second cmdline query is retried like the first) *)
Definition pair_demanded (p : plat) (meth site1 site2 : string) (e1 e2 : err) (s : pstate) (z : bool) : option res :=
  if second_route p meth site1 site2 e1 s z then
    if (match p with Windows => true | _ => false end) && g_win_cmdline_pair meth site1 site2 && is_partial e2 then Some RDenied
    else contract p meth site2 (Build_cond e2 s z)
  else demanded p meth site1 (Build_cond e1 s z).
Definition pair_known (p : plat) (meth site1 site2 : string) (e1 e2 : err) (s : pstate) (z : bool) : bool :=
  known_class p meth site1 (Build_cond e1 s z) || known_class p meth site2 (Build_cond e2 s z).

(* every native call of the method fails with the same error: no second route can succeed; what remains
   of the fall-backs are those that decide from the process listing alone *)
Definition recovery_nocall (p : plat) (meth site : string) (c : cond) : option res :=
  let e := c_err c in
  match p with
  | NetBSD => if g_netbsd_cmdline meth site && is_einval e then
                Some (match c_state c with Zombie => RZombie | Gone => RNoSuch | Alive => RVal end)
              else None
  | AIX => if g_aix_io meth site && negb (listed (c_state c)) then Some RNoSuch else None
  | Windows => if is_partial e && g_win_partial meth then Some RDenied else None
  | _ => None
  end.
Definition all_demanded (p : plat) (meth site : string) (c : cond) : option res :=
  match recovery_nocall p meth site c with
  | Some r => Some r
  | None => contract p meth site c
  end.

(* double fault: the method's call fails with e1 and the error path's follow-up probes fail with e2.  The listing
   cannot be read then, so the property fixes a SET of acceptable outcomes:
     - a no-such-process or permission failure (e1) must still end as a psutil exception, never as a bare OSError;
       either failure may be the one that is translated;
     - another e1 may pass through (as e1, or as the probe's error), or become AccessDenied under the PID-0 rule;
     - the documented fall-backs of the method (for some state of the process) remain acceptable. *)
Definition translations (p : plat) (meth site : string) (e : err) : list res :=
  if nosuch_failure p meth site e then (if has_zombies p then [RNoSuch; RZombie] else [RNoSuch])
  else if perm_failure e then [RDenied] else [].
Definition probe_allowed (p : plat) (meth site : string) (e1 e2 : err) (z : bool) : list res :=
  translations p meth site e1 ++ translations p meth site e2
  ++ (if nosuch_failure p meth site e1 || perm_failure e1 then []
      else [RRaw; RRawProbe] ++ (if pid0_rule p && z then [RDenied] else []))
  ++ flat_map (fun s => match recovery p meth site (Build_cond e1 s z) with Some r => [r] | None => [] end) [Alive; Zombie; Gone].
Definition probe_conds (p : plat) : list (err * err * bool) :=
  let es := filter (err_ok p) [ESRCH; ENOENT; EPERM; EACCES; EIO; EINVAL; WACCESS; WPRIV; WPARTIAL; WINVAL] in
  flat_map (fun e1 => flat_map (fun e2 => map (fun z => (e1, e2, z)) [false; true]) es) es.

(* ERROR_PARTIAL_COPY k times, then success or another error: 33 attempts, then AccessDenied *)
Definition retry_demanded (meth site : string) (k : Z) (then_ : option err) (s : pstate) (z : bool) : option res :=
  if g_win_partial meth then
    if 33 <=? k then Some RDenied
    else match then_ with None => Some RVal | Some e => demanded Windows meth site (Build_cond e s z) end
  else demanded Windows meth site (Build_cond WPARTIAL s z).

(* wait(timeout=0): TimeoutExpired(pid, name) while the PID is there, a value once it is gone *)
Definition wait_demanded (p : plat) (w : wscen) (s : pstate) : res :=
  match w with
  | WNativeTimeout => RTimeout
  | _ => if listed s then RTimeout else RVal
  end.

(* ------------------------------------------------------------------ native record layouts (C sources) *)
Definition bsd_kinfo : list string :=
  ["ppid"; "status"; "real_uid"; "effective_uid"; "saved_uid"; "real_gid"; "effective_gid"; "saved_gid";
   "ttynr"; "create_time"; "ctx_switches_vol"; "ctx_switches_unvol"; "read_io_count"; "write_io_count";
   "user_time"; "sys_time"; "ch_user_time"; "ch_sys_time"; "rss"; "vms"; "memtext"; "memdata"; "memstack";
   "cpunum"; "name"]%string.                                   (* arch/bsd/proc.c psutil_proc_oneshot_info *)
Definition osx_kinfo : list string :=
  ["ppid"; "ruid"; "euid"; "suid"; "rgid"; "egid"; "sgid"; "ttynr"; "ctime"; "status"; "name"]%string.
Definition osx_taskinfo : list string :=
  ["cpuutime"; "cpustime"; "rss"; "vms"; "pfaults"; "pageins"; "numthreads"; "volctxsw"]%string.
Definition sunos_info : list string :=
  ["ppid"; "rss"; "vms"; "create_time"; "nice"; "num_threads"; "status"; "ttynr"; "uid"; "euid"; "gid"; "egid"]%string.
Definition aix_info : list string :=
  ["ppid"; "rss"; "vms"; "create_time"; "nice"; "num_threads"; "status"; "ttynr"]%string.
Definition win_info : list string :=
  ["num_handles"; "ctx_switches"; "user_time"; "kernel_time"; "create_time"; "num_threads";
   "io_rcount"; "io_wcount"; "io_rbytes"; "io_wbytes"; "io_count_others"; "io_bytes_others";
   "num_page_faults"; "peak_wset"; "wset"; "peak_paged_pool"; "paged_pool"; "peak_non_paged_pool";
   "non_paged_pool"; "pagefile"; "peak_pagefile"; "mem_private"]%string.

Definition native_layout (p : plat) (map : string) : option (list string) :=
  match p with
  | FreeBSD | OpenBSD | NetBSD => if seq map "kinfo_proc_map" then Some bsd_kinfo else None
  | MacOS => if seq map "kinfo_proc_map" then Some osx_kinfo
             else if seq map "pidtaskinfo_map" then Some osx_taskinfo else None
  | SunOS => if seq map "proc_info_map" then Some sunos_info else None
  | AIX => if seq map "proc_info_map" then Some aix_info else None
  | Windows => if seq map "pinfo_map" then Some win_info else None
  end.
(* the native function that returns the record a map describes *)
Definition map_native (p : plat) (map : string) : string :=
  match p with
  | FreeBSD | OpenBSD | NetBSD => "proc_oneshot_info"
  | MacOS => if seq map "pidtaskinfo_map" then "proc_pidtaskinfo_oneshot" else "proc_kinfo_oneshot"
  | SunOS | AIX => "proc_basic_info"
  | Windows => "proc_info"
  end%string.
Definition maps_of (p : plat) : list string :=
  match p with
  | MacOS => ["kinfo_proc_map"; "pidtaskinfo_map"]
  | SunOS | AIX => ["proc_info_map"]
  | Windows => ["pinfo_map"]
  | _ => ["kinfo_proc_map"]
  end%string.

(* ------------------------------------------------------------------ documented tuples *)
Inductive dsrc :=
| DMap (map attr : string) (mul : Z)        (* attribute attr of the one-shot record *)
| DCall (fn : string) (idx : Z) (mul : Z)   (* element idx of what native fn returns *)
| DConst (z : Z)
| DNone
| DFun (fn : string) (idxs : list Z).         (* derived from exactly these elements of what fn returns *)

Record dlayout := { d_shape : shape; d_type : string; d_fields : list (string * dsrc) }.

Definition M (map attr : string) := DMap map attr 1.
Definition C (fn : string) (i : Z) := DCall fn i 1.
Definition scalar (d : dsrc) := {| d_shape := Scalar; d_type := ""; d_fields := [(""%string, d)] |}.
Definition tuple (t : string) (fs : list (string * dsrc)) := {| d_shape := Tuple; d_type := t; d_fields := fs |}.
Definition listof (t : string) (fs : list (string * dsrc)) := {| d_shape := ListOf; d_type := t; d_fields := fs |}.
Definition pthread_l : dlayout :=
  listof "pthread" [("id", C "proc_threads" 0); ("user_time", C "proc_threads" 1); ("system_time", C "proc_threads" 2)]%string.

Local Open Scope string_scope.
(* answers that are lists / dicts of strings or rows: the native answer, element by element *)
Definition cmdline_l (fn : string) : dlayout := tuple "list" [("0", C fn 0); ("1", C fn 1)].
Definition environ_l : dlayout := tuple "dict" [("key", C "proc_environ" 0); ("value", C "proc_environ" 1)].
(* pconn(fd, family, type, laddr, raddr, status) from the native row (fd, family, type, laddr, raddr, status[, pid]);
   status is CONN_NONE unless the type is SOCK_STREAM, hence its dependence on the type slot too *)
Definition pconn_l (fn : string) (status_from : list Z) : dlayout :=
  listof "pconn" [("fd", C fn 0); ("family", DFun fn [1]); ("type", DFun fn [2]); ("laddr", DFun fn [3]);
                  ("raddr", DFun fn [4]); ("status", DFun fn status_from)].
(* system-wide net_connections(): sconn = the pconn fields + pid, the 7th slot of the native row *)
Definition sconn_l (fn : string) (status_from : list Z) : dlayout :=
  listof "sconn" [("fd", C fn 0); ("family", DFun fn [1]); ("type", DFun fn [2]); ("laddr", DFun fn [3]);
                  ("raddr", DFun fn [4]); ("status", DFun fn status_from); ("pid", C fn 6)].
Definition K := "kinfo_proc_map".
Definition T := "pidtaskinfo_map".
Definition I := "proc_info_map".
Definition W := "pinfo_map".

(* variant "" = the normal route, "fallback" = the documented slower route *)
Definition doc_layout_bsd (p : plat) (meth : string) : option dlayout :=
  if seq meth "ppid" then Some (scalar (M K "ppid"))
  else if seq meth "create_time" then Some (scalar (M K "create_time"))
  else if seq meth "name" then Some (scalar (M K "name"))
  else if seq meth "terminal" then Some (scalar (M K "ttynr"))
  else if seq meth "uids" then
    Some (tuple "puids" [("real", M K "real_uid"); ("effective", M K "effective_uid"); ("saved", M K "saved_uid")])
  else if seq meth "gids" then
    Some (tuple "pgids" [("real", M K "real_gid"); ("effective", M K "effective_gid"); ("saved", M K "saved_gid")])
  else if seq meth "cpu_times" then
    Some (tuple "pcputimes" [("user", M K "user_time"); ("system", M K "sys_time");
                             ("children_user", M K "ch_user_time"); ("children_system", M K "ch_sys_time")])
  else if seq meth "memory_info" || seq meth "memory_full_info" then
    Some (tuple "pmem" [("rss", M K "rss"); ("vms", M K "vms"); ("text", M K "memtext");
                        ("data", M K "memdata"); ("stack", M K "memstack")])
  else if seq meth "num_ctx_switches" then
    Some (tuple "pctxsw" [("voluntary", M K "ctx_switches_vol"); ("involuntary", M K "ctx_switches_unvol")])
  else if seq meth "io_counters" then
    Some (tuple "pio" [("read_count", M K "read_io_count"); ("write_count", M K "write_io_count");
                       ("read_bytes", DConst (-1)); ("write_bytes", DConst (-1))])
  else if seq meth "threads" then Some pthread_l
  else if seq meth "open_files" then
    Some (listof "popenfile" [("path", C "proc_open_files" 0); ("fd", C "proc_open_files" 1)])
  else if seq meth "num_fds" then Some (scalar (C "proc_num_fds" 0))
  else if seq meth "nice_get" then Some (scalar (C "getpriority" 0))
  else if seq meth "cmdline" then Some (cmdline_l "proc_cmdline")
  else if seq meth "environ" then Some environ_l
  else if seq meth "net_connections" then
    Some (pconn_l (match p with FreeBSD => "proc_net_connections" | _ => "net_connections" end) [2; 5])
  else if seq meth "memory_maps" then
    match p with
    | FreeBSD => Some (listof "tuple" [("0", C "proc_memory_maps" 0); ("1", C "proc_memory_maps" 1); ("2", C "proc_memory_maps" 2);
                                       ("3", C "proc_memory_maps" 3); ("4", C "proc_memory_maps" 4); ("5", C "proc_memory_maps" 5);
                                       ("6", C "proc_memory_maps" 6)])
    | _ => None
    end
  else if seq meth "cpu_num" then match p with FreeBSD => Some (scalar (M K "cpunum")) | _ => None end
  else if seq meth "num_threads" then
    match p with OpenBSD => None | _ => Some (scalar (C "proc_num_threads" 0)) end
  else None.

Definition doc_layout_osx (meth : string) : option dlayout :=
  if seq meth "ppid" then Some (scalar (M K "ppid"))
  else if seq meth "create_time" then Some (scalar (M K "ctime"))
  else if seq meth "name" then Some (scalar (M K "name"))
  else if seq meth "terminal" then Some (scalar (M K "ttynr"))
  else if seq meth "uids" then
    Some (tuple "puids" [("real", M K "ruid"); ("effective", M K "euid"); ("saved", M K "suid")])
  else if seq meth "gids" then
    Some (tuple "pgids" [("real", M K "rgid"); ("effective", M K "egid"); ("saved", M K "sgid")])
  else if seq meth "cpu_times" then
    Some (tuple "pcputimes" [("user", M T "cpuutime"); ("system", M T "cpustime");
                             ("children_user", DConst 0); ("children_system", DConst 0)])
  else if seq meth "memory_info" then
    Some (tuple "pmem" [("rss", M T "rss"); ("vms", M T "vms"); ("pfaults", M T "pfaults"); ("pageins", M T "pageins")])
  else if seq meth "memory_full_info" then
    Some (tuple "pfullmem" [("rss", M T "rss"); ("vms", M T "vms"); ("pfaults", M T "pfaults");
                            ("pageins", M T "pageins"); ("uss", C "proc_memory_uss" 0)])
  else if seq meth "num_ctx_switches" then
    Some (tuple "pctxsw" [("voluntary", M T "volctxsw"); ("involuntary", DConst 0)])
  else if seq meth "num_threads" then Some (scalar (M T "numthreads"))
  else if seq meth "threads" then Some pthread_l
  else if seq meth "open_files" then
    Some (listof "popenfile" [("path", C "proc_open_files" 0); ("fd", C "proc_open_files" 1)])
  else if seq meth "num_fds" then Some (scalar (C "proc_num_fds" 0))
  else if seq meth "nice_get" then Some (scalar (C "getpriority" 0))
  else if seq meth "cmdline" then Some (cmdline_l "proc_cmdline")
  else if seq meth "environ" then Some environ_l
  else if seq meth "net_connections" then Some (pconn_l "proc_net_connections" [2; 5])
  else None.

(* Solaris and AIX share the psinfo-based layout; rss/vms arrive in KiB *)
Definition doc_layout_procfs (p : plat) (meth variant : string) : option dlayout :=
  if seq variant "fallback" then
    match p with
    | SunOS =>
        if seq meth "uids" then Some (tuple "puids" [("real", M I "uid"); ("effective", M I "euid"); ("saved", DNone)])
        else if seq meth "gids" then Some (tuple "pgids" [("real", M I "gid"); ("effective", M I "egid"); ("saved", DNone)])
        else None
    | _ => None
    end
  else if seq meth "ppid" then Some (scalar (M I "ppid"))
  else if seq meth "create_time" then Some (scalar (M I "create_time"))
  else if seq meth "num_threads" then Some (scalar (M I "num_threads"))
  else if seq meth "uids" then
    Some (tuple "puids" [("real", C "proc_cred" 0); ("effective", C "proc_cred" 1); ("saved", C "proc_cred" 2)])
  else if seq meth "gids" then
    Some (tuple "pgids" [("real", C "proc_cred" 3); ("effective", C "proc_cred" 4); ("saved", C "proc_cred" 5)])
  else if seq meth "cpu_times" then
    Some (tuple "pcputimes" [("user", C "proc_cpu_times" 0); ("system", C "proc_cpu_times" 1);
                             ("children_user", C "proc_cpu_times" 2); ("children_system", C "proc_cpu_times" 3)])
  else if seq meth "memory_info" || seq meth "memory_full_info" then
    Some (tuple "pmem" [("rss", DMap I "rss" 1024); ("vms", DMap I "vms" 1024)])
  else if seq meth "num_ctx_switches" then
    Some (tuple "pctxsw" [("voluntary", C "proc_num_ctx_switches" 0); ("involuntary", C "proc_num_ctx_switches" 1)])
  else if seq meth "nice_get" then
    Some (scalar (match p with SunOS => M I "nice" | _ => C "getpriority" 0 end))
  else if seq meth "cpu_num" then match p with SunOS => Some (scalar (C "proc_cpu_num" 0)) | _ => None end
  else if seq meth "io_counters" then
    match p with
    | AIX => Some (tuple "pio" [("read_count", C "proc_io_counters" 0); ("write_count", C "proc_io_counters" 1);
                                ("read_bytes", C "proc_io_counters" 2); ("write_bytes", C "proc_io_counters" 3)])
    | _ => None
    end
  else if seq meth "threads" then
    match p with
    | AIX => Some pthread_l
    | _ => Some (listof "pthread" [("id", C "os.listdir" 0); ("user_time", C "query_process_thread" 0);
                                   ("system_time", C "query_process_thread" 1)])      (* /proc/pid/lwp/<tid> *)
    end
  else if seq meth "cmdline" then
    Some (match p with
          | AIX => cmdline_l "proc_args"
          | _ => tuple "list" [("0", C "proc_name_and_args" 1); ("1", C "proc_name_and_args" 1)]   (* psinfo args, split at blanks *)
          end)
  else if seq meth "name" then match p with SunOS => Some (scalar (C "proc_name_and_args" 0)) | _ => None end
  else if seq meth "environ" then Some environ_l
  else if seq meth "net_connections" then
    Some (pconn_l "net_connections" (match p with SunOS => [5] | _ => [2; 5] end))
  else if seq meth "open_files" then
    match p with
    | SunOS => Some (listof "popenfile" [("path", C "os.readlink" 0); ("fd", C "os.listdir" 0)])   (* /proc/pid/path/<fd> *)
    | _ => None
    end
  else if seq meth "memory_maps" then
    match p with
    | SunOS => Some (listof "tuple" [("0", DFun "proc_memory_maps" [0; 1]); ("1", C "proc_memory_maps" 2); ("2", C "os.readlink" 0);
                                     ("3", C "proc_memory_maps" 4); ("4", C "proc_memory_maps" 5); ("5", C "proc_memory_maps" 6)])
    | _ => None
    end
  else None.

Definition win_pmem (f : string -> Z -> dsrc) : list (string * dsrc) :=
  [("rss", f "wset" 2); ("vms", f "pagefile" 7); ("num_page_faults", f "num_page_faults" 0);
   ("peak_wset", f "peak_wset" 1); ("wset", f "wset" 2); ("peak_paged_pool", f "peak_paged_pool" 3);
   ("paged_pool", f "paged_pool" 4); ("peak_nonpaged_pool", f "peak_non_paged_pool" 5);
   ("nonpaged_pool", f "non_paged_pool" 6); ("pagefile", f "pagefile" 7);
   ("peak_pagefile", f "peak_pagefile" 8); ("private", f "mem_private" 9)].
Definition win_pio (f : string -> Z -> dsrc) : list (string * dsrc) :=
  [("read_count", f "io_rcount" 0); ("write_count", f "io_wcount" 1); ("read_bytes", f "io_rbytes" 2);
   ("write_bytes", f "io_wbytes" 3); ("other_count", f "io_count_others" 4); ("other_bytes", f "io_bytes_others" 5)].

Definition doc_layout_win (meth variant : string) : option dlayout :=
  if seq variant "fallback" then
    if seq meth "cpu_times" then
      Some (tuple "pcputimes" [("user", M W "user_time"); ("system", M W "kernel_time");
                               ("children_user", DConst 0); ("children_system", DConst 0)])
    else if seq meth "create_time" then Some (scalar (M W "create_time"))
    else if seq meth "memory_info" then Some (tuple "pmem" (win_pmem (fun a _ => M W a)))
    else if seq meth "io_counters" then Some (tuple "pio" (win_pio (fun a _ => M W a)))
    else if seq meth "num_handles" then Some (scalar (M W "num_handles"))
    else None
  else if seq meth "cpu_times" then
    Some (tuple "pcputimes" [("user", C "proc_times" 0); ("system", C "proc_times" 1);
                             ("children_user", DConst 0); ("children_system", DConst 0)])
  else if seq meth "create_time" then Some (scalar (C "proc_times" 2))
  else if seq meth "memory_info" then Some (tuple "pmem" (win_pmem (fun _ i => C "proc_memory_info" i)))
  else if seq meth "memory_full_info" then
    Some (tuple "pfullmem" (win_pmem (fun _ i => C "proc_memory_info" i) ++ [("uss", DCall "proc_memory_uss" 0 4096)]))
  else if seq meth "io_counters" then Some (tuple "pio" (win_pio (fun _ i => C "proc_io_counters" i)))
  else if seq meth "num_ctx_switches" then
    Some (tuple "pctxsw" [("voluntary", M W "ctx_switches"); ("involuntary", DConst 0)])
  else if seq meth "num_threads" then Some (scalar (M W "num_threads"))
  else if seq meth "num_handles" then Some (scalar (C "proc_num_handles" 0))
  else if seq meth "ppid" then Some (scalar (C "ppid_map" 0))
  else if seq meth "threads" then Some pthread_l
  else if seq meth "cmdline" then Some (cmdline_l "proc_cmdline")
  else if seq meth "environ" then Some environ_l
  else if seq meth "net_connections" then Some (pconn_l "net_connections" [2; 5])
  else if seq meth "open_files" then Some (listof "popenfile" [("path", C "proc_open_files" 0); ("fd", DConst (-1))])
  else if seq meth "memory_maps" then
    Some (listof "tuple" [("0", DFun "proc_memory_maps" [0]); ("1", C "proc_memory_maps" 1); ("2", C "proc_memory_maps" 2);
                          ("3", C "proc_memory_maps" 3)])
  else None.

Definition doc_layout (p : plat) (meth variant : string) : option dlayout :=
  if seq meth "sys:net_connections" then
    (if seq variant "" then
       match p with
       | MacOS => None                                   (* assembled per PID from Process.net_connections() *)
       | SunOS => Some (sconn_l "net_connections" [5])
       | _ => Some (sconn_l "net_connections" [2; 5])
       end
     else None) else
  match p with
  | FreeBSD | OpenBSD | NetBSD => if seq variant "" then doc_layout_bsd p meth else None
  | MacOS => if seq variant "" then doc_layout_osx meth else None
  | SunOS | AIX => doc_layout_procfs p meth variant
  | Windows => doc_layout_win meth variant
  end.

(* methods whose answer is a function of one attribute of the one-shot record *)
Definition doc_deps (p : plat) (meth : string) : option (list (string * string)) :=
  if seq meth "status" then
    match p with
    | FreeBSD | OpenBSD | NetBSD | MacOS => Some [(K, "status")]
    | SunOS | AIX => Some [(I, "status")]
    | Windows => None
    end
  else if seq meth "terminal" then
    match p with
    | FreeBSD | OpenBSD | NetBSD | MacOS => Some [(K, "ttynr")]
    | SunOS | AIX => Some [(I, "ttynr")]
    | Windows => None
    end
  else None.

(* the (platform, method, variant) triples the documentation gives a layout for *)
Definition layout_methods : list string :=
  ["ppid"; "create_time"; "name"; "terminal"; "uids"; "gids"; "cpu_times"; "memory_info"; "memory_full_info";
   "num_ctx_switches"; "io_counters"; "threads"; "open_files"; "num_fds"; "nice_get"; "cpu_num"; "num_threads";
   "num_handles"; "cmdline"; "environ"; "net_connections"; "memory_maps"; "sys:net_connections"].
Definition all_plats : list plat := [FreeBSD; OpenBSD; NetBSD; MacOS; SunOS; AIX; Windows].
Definition doc_keys : list (plat * string * string) :=
  flat_map (fun p => flat_map (fun m => flat_map (fun v =>
     match doc_layout p m v with Some _ => [(p, m, v)] | None => [] end) [""; "fallback"]) layout_methods) all_plats.

(* ------------------------------------------------------------------ documented names *)
Definition doc_common : list string :=
  ["Error"; "NoSuchProcess"; "ZombieProcess"; "AccessDenied"; "TimeoutExpired"; "version_info";
   "STATUS_RUNNING"; "STATUS_SLEEPING"; "STATUS_DISK_SLEEP"; "STATUS_STOPPED"; "STATUS_TRACING_STOP";
   "STATUS_ZOMBIE"; "STATUS_DEAD"; "STATUS_WAKING"; "STATUS_IDLE"; "STATUS_LOCKED"; "STATUS_WAITING"; "STATUS_PARKED";
   "CONN_ESTABLISHED"; "CONN_SYN_SENT"; "CONN_SYN_RECV"; "CONN_FIN_WAIT1"; "CONN_FIN_WAIT2"; "CONN_TIME_WAIT";
   "CONN_CLOSE"; "CONN_CLOSE_WAIT"; "CONN_LAST_ACK"; "CONN_LISTEN"; "CONN_CLOSING"; "CONN_NONE";
   "AF_LINK"; "NIC_DUPLEX_FULL"; "NIC_DUPLEX_HALF"; "NIC_DUPLEX_UNKNOWN"; "POWER_TIME_UNKNOWN"; "POWER_TIME_UNLIMITED";
   "POSIX"; "WINDOWS"; "LINUX"; "MACOS"; "FREEBSD"; "NETBSD"; "OPENBSD"; "BSD"; "SUNOS"; "AIX"; "OSX";
   "Process"; "Popen"; "pid_exists"; "pids"; "process_iter"; "wait_procs";
   "virtual_memory"; "swap_memory"; "cpu_times"; "cpu_percent"; "cpu_times_percent"; "cpu_count"; "cpu_stats";
   "net_io_counters"; "net_connections"; "net_if_addrs"; "net_if_stats";
   "disk_io_counters"; "disk_partitions"; "disk_usage"; "users"; "boot_time"].
Definition doc_names (p : plat) : list string :=
  doc_common ++
  match p with
  | FreeBSD => ["cpu_freq"; "sensors_temperatures"; "sensors_battery"; "getloadavg";
                "RLIM_INFINITY"; "RLIMIT_AS"; "RLIMIT_CORE"; "RLIMIT_CPU"; "RLIMIT_DATA"; "RLIMIT_FSIZE";
                "RLIMIT_MEMLOCK"; "RLIMIT_NOFILE"; "RLIMIT_NPROC"; "RLIMIT_RSS"; "RLIMIT_STACK"]
  | OpenBSD => ["cpu_freq"; "getloadavg"]
  | NetBSD => ["getloadavg"]
  | MacOS => ["cpu_freq"; "getloadavg"]
  | SunOS => ["CONN_IDLE"; "CONN_BOUND"; "PROCFS_PATH"; "getloadavg"]
  | AIX => ["PROCFS_PATH"; "getloadavg"]
  | Windows => ["win_service_iter"; "win_service_get"; "cpu_freq"; "sensors_battery"; "getloadavg";
                "ABOVE_NORMAL_PRIORITY_CLASS"; "BELOW_NORMAL_PRIORITY_CLASS"; "HIGH_PRIORITY_CLASS";
                "IDLE_PRIORITY_CLASS"; "NORMAL_PRIORITY_CLASS"; "REALTIME_PRIORITY_CLASS";
                "IOPRIO_VERYLOW"; "IOPRIO_LOW"; "IOPRIO_NORMAL"; "IOPRIO_HIGH"; "CONN_DELETE_TCB"]
  end.

(* fields of the named tuples of the system-wide functions, per platform.  Beyond the property text (which promises
   function and constant NAMES): a regression table.  Read from docs/index.rst with its qualifiers taken per platform
   section: "BSD" = FreeBSD/OpenBSD/NetBSD; "UNIX" for nice / active / inactive means Linux, macOS and the BSDs -- Solaris
   and AIX are recorded as they are (cpu_times: user, system, idle, iowait; virtual_memory: the five portable fields). *)
Definition is_bsd (p : plat) : bool := match p with FreeBSD | OpenBSD | NetBSD => true | _ => false end.
Definition is_bsd_or_macos (p : plat) : bool := is_bsd p || match p with MacOS => true | _ => false end.
Definition is_procfs_unix (p : plat) : bool := match p with SunOS | AIX => true | _ => false end.
Definition opt_fields (b : bool) (l : list string) : list string := if b then l else [].
Definition sys_functions : list string := ["cpu_times"; "virtual_memory"; "swap_memory"; "disk_io_counters"; "net_io_counters"].
Definition doc_sys_fields (p : plat) (fn : string) : list string :=
  if seq fn "cpu_times" then
    ["user"; "system"; "idle"] ++ opt_fields (is_bsd_or_macos p) ["nice"] ++ opt_fields (is_bsd p) ["irq"]
    ++ opt_fields (is_procfs_unix p) ["iowait"]
    ++ opt_fields (match p with Windows => true | _ => false end) ["interrupt"; "dpc"]
  else if seq fn "virtual_memory" then
    ["total"; "available"; "percent"; "used"; "free"] ++ opt_fields (is_bsd_or_macos p) ["active"; "inactive"]
    ++ opt_fields (is_bsd p) ["buffers"; "cached"; "shared"] ++ opt_fields (is_bsd_or_macos p) ["wired"]
  else if seq fn "swap_memory" then ["total"; "used"; "free"; "percent"; "sin"; "sout"]
  else if seq fn "disk_io_counters" then
    ["read_count"; "write_count"; "read_bytes"; "write_bytes"]
    ++ opt_fields (negb match p with OpenBSD | NetBSD => true | _ => false end) ["read_time"; "write_time"]
    ++ opt_fields match p with FreeBSD => true | _ => false end ["busy_time"]
  else if seq fn "net_io_counters" then
    ["bytes_sent"; "bytes_recv"; "packets_sent"; "packets_recv"; "errin"; "errout"; "dropin"; "dropout"]
  else [].

(* public Process methods the documentation gives for the platform ("Availability:") *)
Definition doc_methods_common : list string :=
  ["pid"; "ppid"; "name"; "exe"; "cmdline"; "create_time"; "as_dict"; "parent"; "parents"; "status"; "cwd";
   "username"; "nice"; "num_ctx_switches"; "num_threads"; "threads"; "cpu_times"; "cpu_percent";
   "memory_info"; "memory_full_info"; "memory_percent"; "children"; "open_files"; "net_connections";
   "is_running"; "send_signal"; "suspend"; "resume"; "terminate"; "kill"; "wait"; "oneshot"].
Definition unix_methods : list string := ["uids"; "gids"; "terminal"; "num_fds"].
Definition doc_methods (p : plat) : list string :=
  doc_methods_common ++
  match p with
  | FreeBSD => unix_methods ++ ["environ"; "io_counters"; "rlimit"; "cpu_affinity"; "cpu_num"; "memory_maps"]
  | OpenBSD | NetBSD => unix_methods ++ ["environ"; "io_counters"]
  | MacOS => unix_methods ++ ["environ"]
  | SunOS => unix_methods ++ ["environ"; "cpu_num"; "memory_maps"]
  | AIX => unix_methods ++ ["environ"; "io_counters"]
  | Windows => ["environ"; "io_counters"; "ionice"; "cpu_affinity"; "memory_maps"; "num_handles"]
  end.
Local Close Scope string_scope.

(* ------------------------------------------------------------------ front end *)
(* broadcast address of a w-bit address under a p-bit prefix: all host bits set *)
Definition spec_bcast (w a p : Z) : Z := Z.lor a (2 ^ (w - p) - 1).

(* a MAC given as 1..6 octets: padded with 00 octets to six *)
Fixpoint join_octets (sep : Z) (os : list bytes) : bytes :=
  match os with
  | [] => []
  | [o] => o
  | o :: r => o ++ sep :: join_octets sep r
  end.
Definition spec_mac (sep : Z) (os : list bytes) : bytes :=
  join_octets sep (os ++ repeat [48; 48] (6 - List.length os)).
