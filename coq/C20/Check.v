(* C20 -- decidable checks of generated tables (coq/Gen/C20_Tables.v) against the documented
   contract (Spec.v) and against the hand-written model (Model.v).  The tables are arguments
   here; Proofs.v instantiates them with what the translator produced from the current code. *)
From PV Require Export C20.Spec.

Definition res_eqb (a b : res) : bool :=
  match a, b with
  | RNoSuch, RNoSuch | RZombie, RZombie | RDenied, RDenied | RRaw, RRaw | RVal, RVal | RTimeout, RTimeout | RRawProbe, RRawProbe => true
  | _, _ => false
  end.
Lemma res_eqb_eq a b : res_eqb a b = true <-> a = b.
Proof. destruct a, b; cbn; split; intro H; try reflexivity; try discriminate. Qed.

Definition plat_eqb (a b : plat) : bool :=
  match a, b with
  | FreeBSD, FreeBSD | OpenBSD, OpenBSD | NetBSD, NetBSD | MacOS, MacOS | SunOS, SunOS | AIX, AIX | Windows, Windows => true
  | _, _ => false
  end.
Lemma plat_eqb_eq a b : plat_eqb a b = true <-> a = b.
Proof. destruct a, b; cbn; split; intro H; try reflexivity; try discriminate. Qed.

Definition shape_eqb (a b : shape) : bool :=
  match a, b with Scalar, Scalar | Tuple, Tuple | ListOf, ListOf => true | _, _ => false end.

Fixpoint forallb2 {A B} (f : A -> B -> bool) (l1 : list A) (l2 : list B) : bool :=
  match l1, l2 with
  | [], [] => true
  | a :: r1, b :: r2 => f a b && forallb2 f r1 r2
  | _, _ => false
  end.
Lemma forallb2_Forall2 {A B} (f : A -> B -> bool) l1 l2 :
  forallb2 f l1 l2 = true -> Forall2 (fun a b => f a b = true) l1 l2.
Proof.
  revert l2; induction l1 as [|a r IH]; intros [|b r2] H; cbn in H; try discriminate.
  - constructor.
  - apply andb_true_iff in H as [H1 H2]. constructor; auto.
Qed.

Definition src_eqb (a b : src) : bool :=
  match a, b with
  | SSlot f i m, SSlot g j n => String.eqb f g && (i =? j) && (m =? n)
  | SConst x, SConst y => x =? y
  | SNone, SNone => true
  | SFun f l, SFun g m => String.eqb f g && forallb2 Z.eqb l m
  | _, _ => false            (* SUnknown matches nothing *)
  end.

Definition mem (s : string) (l : list string) : bool := existsb (String.eqb s) l.
Lemma mem_In s l : mem s l = true -> In s l.
Proof.
  unfold mem. intro H. apply existsb_exists in H as [x [Hin Hx]].
  apply String.eqb_eq in Hx. subst. exact Hin.
Qed.

(* ------------------------------------------------------------------ ladders *)
(* a probed outcome meets a demand: right class, and a psutil exception carries pid and name *)
Definition gout_ok (want : option res) (g : gout) : bool :=
  match want with
  | None => true
  | Some w =>
      match g with
      | GNotFired => true                  (* the method never made that call for this PID *)
      | GX r pid_ok name_ok => res_eqb r w && pid_ok && name_ok
      | GOther => false
      end
  end.

Definition block_spec_ok (b : lblock) : bool :=
  forallb2 (fun c g => known_class (l_plat b) (l_meth b) (l_site b) c
                       || gout_ok (demanded (l_plat b) (l_meth b) (l_site b) c) g) (conds (l_plat b)) (l_outs b).

(* --- two native calls / retries / wait *)
Definition pblock_ok (b : pblock) : bool :=
  forallb2 (fun q g => match q with (e1, e2, s, z) =>
              (pair_known (pb_plat b) (pb_meth b) (pb_site1 b) (pb_site2 b) e1 e2 s z
               || gout_ok (pair_demanded (pb_plat b) (pb_meth b) (pb_site1 b) (pb_site2 b) e1 e2 s z) g)
              && gout_ok (Some (pair_outcome (pb_plat b) (pb_meth b) (pb_site1 b) (pb_site2 b) e1 e2 s z)) g end)
           (pair_conds (pb_plat b)) (pb_outs b).
Definition pblocks_complete (bs : list pblock) : bool :=
  forallb (fun p => forallb (fun t => match t with (m, s1, s2) =>
             existsb (fun b => plat_eqb (pb_plat b) p && String.eqb (pb_meth b) m && String.eqb (pb_site1 b) s1
                               && String.eqb (pb_site2 b) s2) bs end) (pair_sites p)) all_plats.
Definition rrow_ok (r : rrow) : bool :=
  gout_ok (retry_demanded (rr_meth r) (rr_site r) (rr_k r) (rr_then r) Alive false) (rr_out r)
  && gout_ok (Some (retry_outcome (rr_meth r) (rr_site r) (rr_k r) (rr_then r) Alive false)) (rr_out r).
Definition wrow_ok (r : wrow) : bool :=
  gout_ok (Some (wait_demanded (wr_plat r) (wr_scen r) (wr_state r))) (wr_out r)
  && gout_ok (Some (wait_outcome (wr_plat r) (wr_scen r) (wr_state r))) (wr_out r).
Definition wrows_complete (rs : list wrow) : bool :=
  forallb (fun p => forallb (fun s => existsb (fun r => plat_eqb (wr_plat r) p
                      && match wr_scen r with WPlain => true | _ => false end
                      && match wr_state r, s with Alive, Alive | Zombie, Zombie | Gone, Gone => true | _, _ => false end) rs)
                    [Alive; Zombie; Gone]) all_plats.

(* --- every native status code: ZombieProcess iff the code means zombie *)
Definition scond (p : plat) (code : string) (pid0 : bool) : cond := Build_cond ESRCH (state_of_code p code) pid0.
Definition sblock_spec_ok (b : sblock) : bool :=
  forallb2 (fun z g => gout_ok (demanded (sb_plat b) (sb_meth b) (sb_site b) (scond (sb_plat b) (sb_code b) z)) g)
           [false; true] (sb_outs b).
Definition sblock_model_ok (b : sblock) : bool :=
  forallb2 (fun z g => gout_ok (Some (method_outcome (sb_plat b) (sb_meth b) (sb_site b) (scond (sb_plat b) (sb_code b) z))) g)
           [false; true] (sb_outs b).
(* PROC_STATUSES maps a code to "zombie" exactly when the system's headers say so, and has every such code *)
Definition srow_ok (r : srow) : bool :=
  forallb (fun ct => Bool.eqb (String.eqb (snd ct) "zombie") (mem (fst ct) (doc_zombie_codes (s_plat r)))) (s_codes r)
  && forallb (fun z => existsb (fun ct => String.eqb (fst ct) z) (s_codes r)) (doc_zombie_codes (s_plat r)).
(* the status sweep covers every code of every ladder block *)
Definition sblocks_complete (rows : list srow) (bs : list lblock) (sbs : list sblock) : bool :=
  forallb (fun b => match find (fun r => plat_eqb (s_plat r) (l_plat b)) rows with
                    | None => match l_plat b with Windows => true | _ => false end
                    | Some r => forallb (fun ct => existsb (fun sb => plat_eqb (sb_plat sb) (l_plat b) && String.eqb (sb_meth sb) (l_meth b)
                                                                   && String.eqb (sb_site sb) (l_site b) && String.eqb (sb_code sb) (fst ct)) sbs)
                                        (s_codes r)
                    end) bs.

(* every native call of the method fails: blocks keyed by the first call the method makes *)
Definition ablock_ok (b : lblock) : bool :=
  forallb2 (fun c g => (known_class (l_plat b) (l_meth b) (l_site b) c
                        || gout_ok (all_demanded (l_plat b) (l_meth b) (l_site b) c) g)
                       && gout_ok (Some (all_outcome (l_plat b) (l_meth b) (l_site b) c)) g) (conds (l_plat b)) (l_outs b).
Definition ablocks_complete (bs abs : list lblock) : bool :=
  forallb (fun b => existsb (fun a => plat_eqb (l_plat a) (l_plat b) && String.eqb (l_meth a) (l_meth b)) abs) bs.

(* double fault (call fails with e1, the error path's probes with e2): blocks in the order of probe_conds *)
Definition gout_in (allowed : list res) (g : gout) : bool :=
  match g with
  | GNotFired => true
  | GX r pid_ok name_ok => existsb (res_eqb r) allowed && pid_ok && name_ok
  | GOther => false
  end.
Definition prblock_ok (b : lblock) : bool :=
  forallb2 (fun q g => match q with (e1, e2, z) =>
              gout_in (probe_allowed (l_plat b) (l_meth b) (l_site b) e1 e2 z) g
              && gout_ok (Some (probe_outcome (l_plat b) (l_meth b) (l_site b) e1 e2 z)) g end)
           (probe_conds (l_plat b)) (l_outs b).
Definition prblocks_complete (bs prs : list lblock) : bool :=
  forallb (fun b => match l_plat b with Windows => true | _ =>
                      existsb (fun a => plat_eqb (l_plat a) (l_plat b) && String.eqb (l_meth a) (l_meth b)
                                        && String.eqb (l_site a) (l_site b)) prs end) bs.

Definition block_model_ok (b : lblock) : bool :=
  forallb2 (fun c g => gout_ok (Some (method_outcome (l_plat b) (l_meth b) (l_site b) c)) g) (conds (l_plat b)) (l_outs b).

(* ------------------------------------------------------------------ slot maps *)
Fixpoint assoc (k : string) (l : list (string * Z)) : option Z :=
  match l with [] => None | (a, v) :: r => if String.eqb a k then Some v else assoc k r end.
Fixpoint attr_at (i : Z) (l : list (string * Z)) : option string :=
  match l with [] => None | (a, v) :: r => if v =? i then Some a else attr_at i r end.
Fixpoint zseq (start : Z) (n : nat) : list Z :=
  match n with O => [] | S k => start :: zseq (start + 1) k end.
Fixpoint count_z (i : Z) (l : list Z) : nat :=
  match l with [] => O | x :: r => if x =? i then S (count_z i r) else count_z i r end.

(* every index 0..n-1 is used exactly once (n = number of attributes) *)
Definition smap_bijective (m : smap) : bool :=
  let idx := map snd (m_slots m) in
  forallb (fun i => Nat.eqb (count_z i idx) 1) (zseq 0 (List.length idx)).

(* attribute names in index order = order of the values in the native record *)
Definition smap_native_ok (m : smap) : bool :=
  match native_layout (m_plat m) (m_name m) with
  | None => false
  | Some attrs =>
      Nat.eqb (List.length attrs) (List.length (m_slots m)) &&
      forallb2 (fun i a => match attr_at i (m_slots m) with Some b => String.eqb a b | None => false end)
               (zseq 0 (List.length attrs)) attrs
  end.

Fixpoint find_smap (p : plat) (name : string) (l : list smap) : option smap :=
  match l with
  | [] => None
  | m :: r => if plat_eqb (m_plat m) p && String.eqb (m_name m) name then Some m else find_smap p name r
  end.
Definition smaps_complete (l : list smap) : bool :=
  forallb (fun p => forallb (fun n => match find_smap p n l with Some _ => true | None => false end) (maps_of p)) all_plats.

(* ------------------------------------------------------------------ slot usage *)
(* the native slot a documented source denotes: an attribute sits where the C layer puts it *)
Fixpoint index_of (a : string) (l : list string) (i : Z) : option Z :=
  match l with [] => None | x :: r => if String.eqb x a then Some i else index_of a r (i + 1) end.
Definition resolve (p : plat) (d : dsrc) : option src :=
  match d with
  | DMap map attr mul =>
      match native_layout p map with
      | Some attrs => match index_of attr attrs 0 with
                      | Some i => Some (SSlot (map_native p map) i mul)
                      | None => None
                      end
      | None => None
      end
  | DCall fn i mul => Some (SSlot fn i mul)
  | DConst z => Some (SConst z)
  | DNone => Some SNone
  | DFun fn idxs => Some (SFun fn idxs)
  end.

Definition field_ok (p : plat) (f : string * src) (d : string * dsrc) : bool :=
  String.eqb (fst f) (fst d) &&
  match resolve p (snd d) with Some s => src_eqb (snd f) s | None => false end.

Definition fields_ok (u : urow) (d : dlayout) : bool :=
  shape_eqb (u_shape u) (d_shape d) && forallb2 (field_ok (u_plat u)) (u_fields u) (d_fields d).
Definition type_ok (u : urow) (d : dlayout) : bool := String.eqb (u_type u) (d_type d).

Definition deps_ok (u : urow) : bool :=
  match doc_deps (u_plat u) (u_meth u) with
  | None => true
  | Some ds =>
      if negb (seq (u_variant u) "") then true else
      forallb (fun ma => match resolve (u_plat u) (DMap (fst ma) (snd ma) 1) with
                         | Some (SSlot fn i _) => existsb (fun d => String.eqb (fst d) fn && (snd d =? i)) (u_deps u)
                         | _ => false
                         end) ds
  end.

(* a probed row meets the documentation (rows of methods without a documented layout: nothing to meet) *)
Definition row_ok (u : urow) : bool :=
  match doc_layout (u_plat u) (u_meth u) (u_variant u) with
  | None => true
  | Some d => fields_ok u d && type_ok u d
  end
  && deps_ok u
  && match u_falsy_bad u with [] => true | _ => false end.     (* 0 and -1 in a copied slot arrive as 0 and -1 *)

Fixpoint find_urow (p : plat) (meth variant : string) (l : list urow) : option urow :=
  match l with
  | [] => None
  | u :: r => if plat_eqb (u_plat u) p && String.eqb (u_meth u) meth && String.eqb (u_variant u) variant
              then Some u else find_urow p meth variant r
  end.
(* every documented (platform, method, route) was actually probed *)
Definition usage_complete (rows : list urow) : bool :=
  forallb (fun k => match k with (p, m, v) => match find_urow p m v rows with Some _ => true | None => false end end) doc_keys.

(* ------------------------------------------------------------------ names *)
Definition names_ok (n : names) : bool :=
  forallb (fun d => mem d (nm_all n)) (doc_names (nm_plat n))
  && forallb (fun d => mem d (nm_methods n)) (doc_methods (nm_plat n))
  && forallb (fun a => mem a (nm_dir n)) (nm_all n).           (* everything in __all__ resolves *)
Definition names_complete (l : list names) : bool :=
  forallb (fun p => existsb (fun n => plat_eqb (nm_plat n) p) l) all_plats.

(* ------------------------------------------------------------------ system named tuples *)
Definition same_set (a b : list string) : bool :=
  forallb (fun x => mem x b) a && forallb (fun x => mem x a) b && Nat.eqb (List.length a) (List.length b).
Definition sfrow_doc_ok (r : sfrow) : bool := same_set (sf_fields r) (doc_sys_fields (sf_plat r) (sf_fn r)).
Definition sfrow_ok (r : sfrow) : bool := sfrow_doc_ok r.
Definition sfrows_complete (rs : list sfrow) : bool :=
  forallb (fun p => forallb (fun f => existsb (fun r => plat_eqb (sf_plat r) p && String.eqb (sf_fn r) f) rs) sys_functions) all_plats.

(* ------------------------------------------------------------------ front end rows *)
Fixpoint bytes_eqb (a b : bytes) : bool :=
  match a, b with [], [] => true | x :: r, y :: s => (x =? y) && bytes_eqb r s | _, _ => false end.
Definition optz_eqb (a b : option Z) : bool :=
  match a, b with None, None => true | Some x, Some y => x =? y | _, _ => false end.
Definition nic_ok (r : nicprobe) : bool :=
  bytes_eqb (np_addr_out r) (post_addr (np_plat r) (np_in r))
  && optz_eqb (np_bcast_out r) (post_bcast (np_plat r) (np_in r)).

(* ------------------------------------------------------------------ the cached name through the front end *)
Definition optb_eqb (a b : option bytes) : bool :=
  match a, b with None, None => true | Some x, Some y => bytes_eqb x y | _, _ => false end.
Definition carries_name (r : res) : bool :=
  match r with RNoSuch | RZombie | RDenied | RTimeout => true | _ => false end.
(* probed history: a psutil exception carries the pid and exactly the name name() returned; all equal to the model *)
Definition frow_ok (r : frow) : bool :=
  (negb (carries_name (fr_cls r)) || (fr_pid_ok r && optb_eqb (fr_name r) (fr_returned r)))
  && match fe_history_model (fr_plat r) (fr_kname r) (fr_cmd0 r) (fr_mode r) (fr_meth r) (fr_site r) (fr_err r) (fr_state r) with
     | (ret, ORes cls nm) => optb_eqb ret (fr_returned r) && res_eqb cls (fr_cls r)
                             && (negb (carries_name cls) || optb_eqb nm (fr_name r))
     | _ => false
     end.
Definition frows_complete (rs : list frow) : bool :=
  forallb (fun p => match p with Windows => true | _ =>
             forallb (fun m => existsb (fun r => plat_eqb (fr_plat r) p && (fr_mode r =? m) && carries_name (fr_cls r)
                                                 && (15 <=? Z.of_nat (List.length (fr_kname r)))) rs) [0; 1; 2] end) all_plats.
