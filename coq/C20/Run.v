(* Entry points evaluated by the correspondence harness (props/C20.py). *)
From PV Require Export C20.Check C20.Loop.
From PV Require Import Gen.C20_Tables.

Definition jstr (s : string) : jv := JB (bs s).
Definition jv_res (pid : Z) (r : res) : jv :=
  match r with
  | RNoSuch => JC "NoSuchProcess" [JZ pid; JB (bs "nm")]
  | RZombie => JC "ZombieProcess" [JZ pid; JB (bs "nm")]
  | RDenied => JC "AccessDenied" [JZ pid; JB (bs "nm")]
  | RRaw => JC "Raw" []
  | RVal => JC "Val" []
  | RTimeout => JC "TimeoutExpired" [JZ pid; JB (bs "nm")]
  | RRawProbe => JC "RawProbe" []
  end.

(* one fault: hand-written model, and what the contract demands (None = nothing) *)
Definition run_ladder (p : plat) (meth site : string) (e : err) (s : pstate) (pid : Z) : jv :=
  let c := Build_cond e s (pid =? 0) in
  JL [ jv_res pid (method_outcome p meth site c);
       (if err_ok p e then jopt (jv_res pid) (demanded p meth site c) else jnone);
       jopt (jv_res pid) (contract p meth site c) ].

(* every native call of the method fails with e (site = the first call the method makes) *)
Definition run_allfail (p : plat) (meth site : string) (e : err) (s : pstate) (pid : Z) : jv :=
  let c := Build_cond e s (pid =? 0) in
  JL [ jv_res pid (all_outcome p meth site c);
       (if err_ok p e then jopt (jv_res pid) (all_demanded p meth site c) else jnone) ].
(* front-end history [name() (mode 0) | name() never called (1) | name() failed (2)], then method pm failing at site:
   the name returned and the outcome with the name it carries *)
Definition jv_res_named (pid : Z) (r : res) (name : option bytes) : jv :=
  let args := [JZ pid; jopt JB name] in
  match r with
  | RNoSuch => JC "NoSuchProcess" args | RZombie => JC "ZombieProcess" args | RDenied => JC "AccessDenied" args
  | RTimeout => JC "TimeoutExpired" args
  | RRaw => JC "Raw" [] | RVal => JC "Val" [] | RRawProbe => JC "RawProbe" []
  end.
Definition run_fename (p : plat) (kname cmd0 : bytes) (mode : Z) (pm site : string) (e : err) (s : pstate) : jv :=
  let (ret, o) := fe_history_model p kname cmd0 mode pm site e s in
  JL [ jopt JB ret; match o with ORes r' nm => jv_res_named 7 r' nm | _ => JC "NoOutcome" [] end ].

(* double fault: model outcome and acceptable set *)
Definition run_probe (p : plat) (meth site : string) (e1 e2 : err) (pid : Z) : jv :=
  let z := pid =? 0 in
  JL [ jv_res pid (probe_outcome p meth site e1 e2 z);
       (if err_ok p e1 && err_ok p e2 then JL (map (jv_res pid) (probe_allowed p meth site e1 e2 z)) else jnone) ].
Definition run_pair (p : plat) (meth site1 site2 : string) (e1 e2 : err) (s : pstate) (pid : Z) : jv :=
  let z := pid =? 0 in
  JL [ jv_res pid (pair_outcome p meth site1 site2 e1 e2 s z);
       (if err_ok p e1 && err_ok p e2 then jopt (jv_res pid) (pair_demanded p meth site1 site2 e1 e2 s z) else jnone) ].
Definition run_retry (meth site : string) (k : Z) (then_ : option err) (s : pstate) (pid : Z) : jv :=
  JL [ jv_res pid (retry_outcome meth site k then_ s (pid =? 0));
       jopt (jv_res pid) (retry_demanded meth site k then_ s (pid =? 0)) ].
Definition run_wait (p : plat) (w : wscen) (s : pstate) (pid : Z) : jv :=
  JL [ jv_res pid (wait_outcome p w s); jv_res pid (wait_demanded p w s) ].

Definition jv_fval (v : fval) : jv := match v with FZ z => JZ z | FNone => jnone end.
Definition jv_fields (fs : list (string * fval)) : jv := JL (map (fun f => JL [jstr (fst f); jv_fval (snd f)]) fs).
Definition jv_shape (s : shape) : jv := jstr (match s with Scalar => "Scalar" | Tuple => "Tuple" | ListOf => "ListOf" end).

Definition resolve_fields (p : plat) (fs : list (string * dsrc)) : option (list (string * src)) :=
  fold_right (fun f acc => match acc, resolve p (snd f) with
                           | Some l, Some s => Some ((fst f, s) :: l) | _, _ => None end) (Some []) fs.

(* slot usage on an arbitrary native record: the probed row (translator) and the documented layout *)
Definition run_layout (p : plat) (meth variant : string) (rs : records) : jv :=
  JL [ match find_urow p meth variant usage_rows with
       | Some u => JL [jv_shape (u_shape u); jstr (u_type u); jv_outcome jv_fields (eval_fields rs (u_fields u))]
       | None => JC "NoRow" []
       end;
       match doc_layout p meth variant with
       | Some d => match resolve_fields p (d_fields d) with
                   | Some fs => JL [jv_shape (d_shape d); jstr (d_type d); jv_outcome jv_fields (eval_fields rs fs)]
                   | None => JC "Unresolved" []
                   end
       | None => jnone
       end ].

(* the decoded slot usage itself (also for answers that cannot be evaluated on int records) *)
Definition jv_src (s : src) : jv :=
  match s with
  | SSlot fn i m => JC "Slot" [jstr fn; JZ i; JZ m]
  | SConst z => JC "Const" [JZ z]
  | SNone => JC "SNone" []
  | SFun fn l => JC "Fun" [jstr fn; JL (map JZ l)]
  | SUnknown => JC "Unknown" []
  end.
Definition jv_srcs (fs : list (string * src)) : jv := JL (map (fun f => JL [jstr (fst f); jv_src (snd f)]) fs).
Definition run_olayout (p : plat) (meth variant : string) : jv :=
  JL [ match find_urow p meth variant usage_rows with
       | Some u => JL [jv_shape (u_shape u); jstr (u_type u); jv_srcs (u_fields u);
                       JL (map (fun b => JL [jstr (fst b); JZ (snd b)]) (u_falsy_bad u))]
       | None => JC "NoRow" []
       end;
       match doc_layout p meth variant with
       | Some d => match resolve_fields p (d_fields d) with
                   | Some fs => JL [jv_shape (d_shape d); jstr (d_type d); jv_srcs fs; JL []]
                   | None => JC "Unresolved" []
                   end
       | None => jnone
       end ].

(* does the answer of status()/terminal() depend on its documented slot?  probed row vs documentation *)
Definition run_dep (p : plat) (meth : string) : jv :=
  match doc_deps p meth with
  | Some ((map, attr) :: _) =>
      match resolve p (DMap map attr 1), find_urow p meth "" usage_rows with
      | Some (SSlot fn i _), Some u =>
          JL [jbool (existsb (fun d => String.eqb (fst d) fn && (snd d =? i)) (u_deps u)); jbool true]
      | _, _ => JL [JC "NoRow" []; jbool true]
      end
  | _ => JL [jnone; jnone]
  end.

(* front end: one raw NIC row.  prefix = Some k when the mask text denotes the k-bit prefix (either form);
   octets = the MAC split at the separator *)
Definition run_nic (p : plat) (r : nicrow) (prefix : option Z) (octets : list bytes) : jv :=
  JL [ JL [JB (post_addr p r); jopt JZ (post_bcast p r)];
       JL [ (if n_fam r =? 2 then JB (spec_mac (match p with Windows => 45 | _ => 58 end) octets) else JB (n_addr r));
            match p, prefix with
            | Windows, Some k => if n_fam r =? 0 then JZ (spec_bcast 32 (n_addrz r) k)
                                 else if n_fam r =? 1 then JZ (spec_bcast 128 (n_addrz r) k) else jopt JZ (n_bcast r)
            | Windows, None => if (n_fam r =? 0) || (n_fam r =? 1) then JC "Any" [] else jopt JZ (n_bcast r)
            | _, _ => jopt JZ (n_bcast r)
            end ] ].

Definition run_names (p : plat) : jv :=
  match find (fun n => plat_eqb (nm_plat n) p) names_rows with
  | Some n => JL [ JL (map jstr (nm_dir n)); JL (map jstr (nm_methods n)); JL (map jstr (nm_all n));
                   JL (map jstr (filter (fun d => negb (mem d (nm_all n))) (doc_names p)));
                   JL (map jstr (filter (fun d => negb (mem d (nm_methods n))) (doc_methods p))) ]
  | None => JC "NoRow" []
  end.

(* whole-table verdicts (also proved in Proofs.v; evaluated here so that a broken table still runs) *)
Definition run_tables : jv :=
  JL [ JL (map (fun b => JL [jstr (l_meth b); jstr (l_site b)]) (filter (fun b => negb (block_spec_ok b)) ladder_blocks));
       JL (map (fun b => JL [jstr (l_meth b); jstr (l_site b)]) (filter (fun b => negb (block_model_ok b)) ladder_blocks));
       JL (map (fun u => JL [jstr (u_meth u); jstr (u_variant u)]) (filter (fun u => negb (row_ok u)) usage_rows));
       jbool (forallb smap_bijective slot_maps && forallb smap_native_ok slot_maps && smaps_complete slot_maps);
       jbool (usage_complete usage_rows);
       jbool (forallb names_ok names_rows && names_complete names_rows);
       jbool (forallb nic_ok nic_rows);
       JL (map (fun b => JL [jstr (sb_meth b); jstr (sb_site b); jstr (sb_code b)])
               (filter (fun b => negb (sblock_spec_ok b && sblock_model_ok b)) status_blocks));
       jbool (forallb srow_ok status_rows && sblocks_complete status_rows ladder_blocks status_blocks);
       JL (map (fun b => JL [jstr (pb_meth b); jstr (pb_site1 b)]) (filter (fun b => negb (pblock_ok b)) pair_blocks));
       JL (map (fun r => JL [jstr (rr_meth r); JZ (rr_k r)]) (filter (fun r => negb (rrow_ok r)) retry_rows));
       jbool (forallb wrow_ok wait_rows && wrows_complete wait_rows && pblocks_complete pair_blocks);
       JL (map (fun r => JL [jstr (sf_fn r); JL (map jstr (sf_fields r))]) (filter (fun r => negb (sfrow_ok r)) sysfield_rows));
       jbool (sfrows_complete sysfield_rows);
       JL (map (fun b => JL [jstr (l_meth b); jstr (l_site b)]) (filter (fun b => negb (ablock_ok b)) all_blocks));
       jbool (ablocks_complete ladder_blocks all_blocks);
       JL (map (fun b => JL [jstr (l_meth b); jstr (l_site b)]) (filter (fun b => negb (prblock_ok b)) probe_blocks));
       jbool (prblocks_complete ladder_blocks probe_blocks);
       jbool (forallb frow_ok fename_rows && frows_complete fename_rows) ].

(* named tuple of a system-wide function on a platform: probed field list, documented field list *)
Definition run_sysfields (p : plat) (fn : string) : jv :=
  JL [ match find (fun r => plat_eqb (sf_plat r) p && String.eqb (sf_fn r) fn) sysfield_rows with
       | Some r => JL (map jstr (sf_fields r)) | None => JC "NoRow" [] end;
       JL (map jstr (doc_sys_fields p fn)) ].

(* list-then-read loop of _pssunos.Process (C20/Loop.v): per-item outcome list, answer of the liveness probe *)
Definition jv_ritem (r : ritem) : jv :=
  match r with Read i => JC "Read" [JZ (Z.of_nat i)] | Unres i => JC "Unres" [JZ (Z.of_nat i)] end.
Definition jv_lres (pid : Z) (r : lres) : jv :=
  match r with LList l => JC "List" [JL (map jv_ritem l)] | LExc r' => jv_res pid r' end.
Definition run_loop (m : lmeth) (outs : list iout) (stat : option err) (s : pstate) (pid : Z) : jv :=
  let z := pid =? 0 in
  JL [ jv_lres pid (loop_outcome m outs stat s z); JL (map (jv_lres pid) (loop_allowed m outs stat s z)) ].
