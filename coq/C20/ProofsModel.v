(* C20 -- proofs about the hand-written model (no generated table involved).  Part 1: the hand-written model of the ladders meets the documented
   contract for every platform, method name, native call, error, state and pid.
   Part 2: the tables generated from the current code meet the contract and the model
   (finite facts about the program text, checked by computation and lifted). *)
From PV Require Import C20.Check.

(* ------------------------------------------------------------------ part 1 *)
Ltac case_cond c := destruct c as [e s z]; destruct e, s, z; cbn in *; try discriminate; try congruence.

Lemma ladder_plain : forall p meth site c r,
  match p with FreeBSD | OpenBSD | MacOS => True | _ => False end ->
  err_ok p (c_err c) = true -> demanded p meth site c = Some r -> method_outcome p meth site c = r.
Proof.
  intros p meth site c r Hp He Hd.
  unfold demanded, recovery, contract, nosuch_failure, method_outcome, inner in *.
  destruct p; try contradiction; case_cond c.
Qed.

Lemma ladder_netbsd : forall meth site c r,
  err_ok NetBSD (c_err c) = true -> known_pid0_unlisted NetBSD meth site c = false ->
  demanded NetBSD meth site c = Some r -> method_outcome NetBSD meth site c = r.
Proof.
  intros meth site c r He Hk Hd.
  unfold demanded, recovery, contract, nosuch_failure, method_outcome, inner, wrap_procfs, known_pid0_unlisted in *.
  destruct (g_netbsd_cmdline meth site), (g_netbsd_exe meth site); case_cond c.
Qed.

Lemma ladder_sunos : forall meth site c r,
  err_ok SunOS (c_err c) = true -> known_pid0_unlisted SunOS meth site c = false ->
  demanded SunOS meth site c = Some r -> method_outcome SunOS meth site c = r.
Proof.
  intros meth site c r He Hk Hd.
  unfold demanded, recovery, contract, nosuch_failure, method_outcome, inner, known_pid0_unlisted in *.
  destruct (g_sunos_cred meth site), (g_sunos_exe meth site), (g_sunos_path meth site), (g_sunos_thread meth site);
    case_cond c.
Qed.

Lemma ladder_aix : forall meth site c r,
  err_ok AIX (c_err c) = true -> demanded AIX meth site c = Some r -> method_outcome AIX meth site c = r.
Proof.
  intros meth site c r He Hd.
  unfold demanded, recovery, contract, nosuch_failure, method_outcome, inner in *.
  destruct (g_aix_cwd meth site), (g_aix_io meth site); case_cond c.
Qed.

Lemma ladder_windows : forall meth site c r,
  err_ok Windows (c_err c) = true ->
  demanded Windows meth site c = Some r -> method_outcome Windows meth site c = r.
Proof.
  intros meth site c r He Hd.
  unfold demanded, recovery, contract, nosuch_failure, method_outcome, inner in *.
  destruct (g_win_partial meth), (g_win_fallback meth site); case_cond c.
Qed.

Theorem ladder_model : forall p meth site c r,
  err_ok p (c_err c) = true -> known_class p meth site c = false ->
  demanded p meth site c = Some r -> method_outcome p meth site c = r.
Proof.
  intros p meth site c r He Hk Hd. unfold known_class in Hk. destruct p.
  - apply ladder_plain; auto.
  - apply ladder_plain; auto.
  - apply ladder_netbsd; auto.
  - apply ladder_plain; auto.
  - apply ladder_sunos; auto.
  - apply ladder_aix; auto.
  - apply ladder_windows; auto.
Qed.

(* the code before fix a2d103c (undecorated Windows ppid()): a permission failure of ppid_map()
   left as the bare error; the present model gives AccessDenied there *)
Theorem ppid_unwrapped_legacy_refuted :
  exists c, err_ok Windows (c_err c) = true /\ demanded Windows "ppid" "ppid_map" c = Some RDenied
            /\ method_outcome_pre_a2d103c Windows "ppid" "ppid_map" c = RRaw
            /\ method_outcome Windows "ppid" "ppid_map" c = RDenied.
Proof. exists (Build_cond WACCESS Alive false). vm_compute. auto. Qed.

(* finding: a PID 0 the OS does not list is still taken to exist *)
Theorem pid0_unlisted_refuted :
  (exists c, err_ok SunOS (c_err c) = true /\ c_pid0 c = true /\ c_state c = Gone
             /\ demanded SunOS "ppid" "proc_basic_info" c = Some RNoSuch
             /\ method_outcome SunOS "ppid" "proc_basic_info" c = RZombie)
  /\ (exists c, err_ok NetBSD (c_err c) = true /\ c_pid0 c = true /\ c_state c = Gone
               /\ demanded NetBSD "cmdline" "proc_cmdline" c = Some RNoSuch
               /\ method_outcome NetBSD "cmdline" "proc_cmdline" c = RVal).
Proof.
  split; [exists (Build_cond ESRCH Gone true) | exists (Build_cond EINVAL Gone true)]; vm_compute; auto 10.
Qed.

(* the code before fix d6fc959 let a failure of QueryDosDevice() out of Windows memory_maps() unconverted *)
Theorem win_mmaps_legacy_refuted :
  exists c, err_ok Windows (c_err c) = true /\ demanded Windows "memory_maps" "QueryDosDevice" c = Some RDenied
            /\ method_outcome_pre_d6fc959 Windows "memory_maps" "QueryDosDevice" c = RRaw
            /\ method_outcome Windows "memory_maps" "QueryDosDevice" c = RDenied.
Proof. exists (Build_cond WACCESS Alive false). vm_compute. auto. Qed.

(* the PID-0 rule needs PID 0 to be listed: otherwise the error passes through *)
Example pid0_not_listed_passes_through :
  demanded SunOS "nice_get" "proc_basic_info" (Build_cond EIO Gone true) = Some RRaw
  /\ demanded FreeBSD "ppid" "proc_oneshot_info" (Build_cond EINVAL Gone true) = Some RRaw
  /\ known_class SunOS "nice_get" "proc_basic_info" (Build_cond EIO Gone true) = false.
Proof. vm_compute. auto. Qed.

Example ladder_model_nontrivial :
  err_ok SunOS EIO = true /\ known_class SunOS "nice_get" "proc_basic_info" (Build_cond EIO Alive true) = false /\
  demanded SunOS "nice_get" "proc_basic_info" (Build_cond EIO Alive true) = Some RDenied.
Proof. vm_compute. auto. Qed.


(* ------------------------------------------------------------------ two native calls, retries, wait() *)
Ltac case_pair := match goal with e1 : err, e2 : err, s : pstate, z : bool |- _ => destruct e1, e2, s, z end;
                  cbn in *; try discriminate; try congruence.

Lemma all_err_complete e : In e all_err.
Proof. destruct e; cbn; tauto. Qed.
Lemma all_state_complete s : In s all_state.
Proof. destruct s; cbn; tauto. Qed.
Lemma forall_enum (F : err -> err -> pstate -> bool -> bool) :
  forallb (fun e1 => forallb (fun e2 => forallb (fun s => forallb (F e1 e2 s) [false; true]) all_state) all_err) all_err = true ->
  forall e1 e2 s z, F e1 e2 s z = true.
Proof.
  intros H e1 e2 s z.
  pose proof (proj1 (forallb_forall _ _) H e1 (all_err_complete e1)) as H1. cbv beta in H1.
  pose proof (proj1 (forallb_forall _ _) H1 e2 (all_err_complete e2)) as H2. cbv beta in H2.
  pose proof (proj1 (forallb_forall _ _) H2 s (all_state_complete s)) as H3. cbv beta in H3.
  apply (proj1 (forallb_forall _ _) H3 z). destruct z; cbn; tauto.
Qed.

Lemma pair_windows_b : forall meth site1 site2 e1 e2 s z,
  implb (err_ok Windows e1 && err_ok Windows e2 && negb (pair_known Windows meth site1 site2 e1 e2 s z))
        (match pair_demanded Windows meth site1 site2 e1 e2 s z with
         | Some r => res_eqb (pair_outcome Windows meth site1 site2 e1 e2 s z) r
         | None => true
         end) = true.
Proof.
  intros meth site1 site2.
  unfold pair_demanded, second_route, pair_outcome, pair_known, known_class, known_pid0_unlisted,
    demanded, recovery, contract, nosuch_failure, method_outcome, inner.
  destruct (g_win_cmdline_pair meth site1 site2), (g_win_fallback meth site1), (seq site2 "proc_info"), (g_win_partial meth);
    apply forall_enum; vm_compute; reflexivity.
Qed.

Lemma pair_windows : forall meth site1 site2 e1 e2 s z r,
  err_ok Windows e1 = true -> err_ok Windows e2 = true -> pair_known Windows meth site1 site2 e1 e2 s z = false ->
  pair_demanded Windows meth site1 site2 e1 e2 s z = Some r -> pair_outcome Windows meth site1 site2 e1 e2 s z = r.
Proof.
  intros meth site1 site2 e1 e2 s z r H1 H2 Hk Hd.
  pose proof (pair_windows_b meth site1 site2 e1 e2 s z) as H. rewrite H1, H2, Hk, Hd in H.
  apply res_eqb_eq. exact H.
Qed.

Lemma pair_sunos_b : forall meth site1 site2 e1 e2 s z,
  implb (err_ok SunOS e1 && err_ok SunOS e2 && negb (pair_known SunOS meth site1 site2 e1 e2 s z))
        (match pair_demanded SunOS meth site1 site2 e1 e2 s z with
         | Some r => res_eqb (pair_outcome SunOS meth site1 site2 e1 e2 s z) r
         | None => true
         end) = true.
Proof.
  intros meth site1 site2.
  unfold pair_demanded, second_route, pair_outcome, pair_known, known_class, known_pid0_unlisted,
    demanded, recovery, contract, nosuch_failure, method_outcome, inner.
  destruct (g_sunos_cred meth site1), (seq site2 "proc_basic_info"), (g_sunos_exe meth site1), (g_sunos_path meth site1),
    (g_sunos_thread meth site1); apply forall_enum; vm_compute; reflexivity.
Qed.

Lemma pair_sunos : forall meth site1 site2 e1 e2 s z r,
  err_ok SunOS e1 = true -> err_ok SunOS e2 = true -> pair_known SunOS meth site1 site2 e1 e2 s z = false ->
  pair_demanded SunOS meth site1 site2 e1 e2 s z = Some r -> pair_outcome SunOS meth site1 site2 e1 e2 s z = r.
Proof.
  intros meth site1 site2 e1 e2 s z r H1 H2 Hk Hd.
  pose proof (pair_sunos_b meth site1 site2 e1 e2 s z) as H. rewrite H1, H2, Hk, Hd in H.
  apply res_eqb_eq. exact H.
Qed.

Theorem pair_model : forall p meth site1 site2 e1 e2 s z r,
  err_ok p e1 = true -> err_ok p e2 = true -> pair_known p meth site1 site2 e1 e2 s z = false ->
  pair_demanded p meth site1 site2 e1 e2 s z = Some r -> pair_outcome p meth site1 site2 e1 e2 s z = r.
Proof.
  intros p meth site1 site2 e1 e2 s z r H1 H2 Hk Hd.
  destruct p; try (apply pair_windows; assumption); try (apply pair_sunos; assumption);
    (unfold pair_known in Hk; apply orb_false_iff in Hk as [Hk1 _];
     unfold pair_demanded, second_route in Hd; unfold pair_outcome;
     apply ladder_model; assumption).
Qed.

Lemma known_pid0_windows meth site c : known_pid0_unlisted Windows meth site c = false.
Proof. unfold known_pid0_unlisted. apply andb_false_r. Qed.
Lemma known_class_windows meth site c : known_class Windows meth site c = false.
Proof. unfold known_class. apply known_pid0_windows. Qed.

Theorem retry_model : forall meth site k then_ s z r,
  (forall e, then_ = Some e -> err_ok Windows e = true) ->
  retry_demanded meth site k then_ s z = Some r -> retry_outcome meth site k then_ s z = r.
Proof.
  intros meth site k then_ s z r He Hd. unfold retry_demanded, retry_outcome in *.
  destruct (g_win_partial meth).
  - destruct (33 <=? k); [congruence|]. destruct then_ as [e|]; [|congruence].
    apply ladder_model; [apply (He e eq_refl) | apply known_class_windows | exact Hd].
  - apply ladder_model; [reflexivity | apply known_class_windows | exact Hd].
Qed.

Theorem wait_model : forall p w s,
  (w = WNativeTimeout -> p = Windows) -> wait_outcome p w s = wait_demanded p w s.
Proof.
  intros p w s H. destruct w; destruct p; try reflexivity; specialize (H eq_refl); discriminate.
Qed.

Example pair_nontrivial :
  pair_demanded Windows "cpu_times" "proc_times" "proc_info" WACCESS ESRCH Gone false = Some RNoSuch
  /\ pair_demanded Windows "cmdline" "proc_cmdline[peb]" "proc_cmdline[nopeb]" EACCES WPARTIAL Alive false = Some RDenied
  /\ pair_demanded SunOS "uids" "proc_cred" "proc_basic_info" EPERM EIO Alive false = Some RRaw
  /\ retry_demanded "cwd" "proc_cwd" 32 None Alive false = Some RVal
  /\ retry_demanded "cwd" "proc_cwd" 33 None Alive false = Some RDenied.
Proof. vm_compute. auto 10. Qed.


(* ------------------------------------------------------------------ every native call of the method fails *)
Theorem all_model : forall p meth site c r,
  err_ok p (c_err c) = true -> known_class p meth site c = false ->
  all_demanded p meth site c = Some r -> all_outcome p meth site c = r.
Proof.
  intros p meth site c r He Hk Hd.
  unfold all_demanded, recovery_nocall, all_outcome, inner_nocall, contract, nosuch_failure, wrap_procfs,
    known_class, known_pid0_unlisted in *.
  destruct p.
  - case_cond c.
  - case_cond c.
  - destruct (g_netbsd_cmdline meth site), (g_netbsd_exe meth site); case_cond c.
  - case_cond c.
  - case_cond c.
  - destruct (g_aix_io meth site); case_cond c.
  - destruct (g_win_partial meth); case_cond c.
Qed.

Example all_nontrivial :
  all_demanded SunOS "exe" "os.readlink" (Build_cond ENOENT Gone false) = Some RNoSuch
  /\ all_demanded SunOS "exe" "os.readlink" (Build_cond EACCES Alive false) = Some RDenied
  /\ demanded SunOS "exe" "os.readlink" (Build_cond EACCES Alive false) = Some RVal.   (* one read failing: '' is fine *)
Proof. vm_compute. auto. Qed.

(* ------------------------------------------------------------------ double fault: call fails with e1, probes with e2 *)
Lemma forall_enum3 (F : err -> err -> bool -> bool) :
  forallb (fun e1 => forallb (fun e2 => forallb (F e1 e2) [false; true]) all_err) all_err = true ->
  forall e1 e2 z, F e1 e2 z = true.
Proof.
  intros H e1 e2 z.
  pose proof (proj1 (forallb_forall _ _) H e1 (all_err_complete e1)) as H1. cbv beta in H1.
  pose proof (proj1 (forallb_forall _ _) H1 e2 (all_err_complete e2)) as H2. cbv beta in H2.
  apply (proj1 (forallb_forall _ _) H2 z). destruct z; cbn; tauto.
Qed.

Definition probe_ok_b (p : plat) (meth site : string) (e1 e2 : err) (z : bool) : bool :=
  implb (err_ok p e1 && err_ok p e2)
        (existsb (res_eqb (probe_outcome p meth site e1 e2 z)) (probe_allowed p meth site e1 e2 z)).

Ltac probe_unfold :=
  unfold probe_ok_b, probe_outcome, probe_allowed, translations, nosuch_failure, recovery,
    method_outcome, inner, wrap_procfs.

Lemma probe_b_all : forall p meth site e1 e2 z, probe_ok_b p meth site e1 e2 z = true.
Proof.
  intros p meth site. destruct p.
  - probe_unfold. destruct (g_nested FreeBSD meth site); apply forall_enum3; vm_compute; reflexivity.
  - probe_unfold. destruct (g_nested OpenBSD meth site); apply forall_enum3; vm_compute; reflexivity.
  - probe_unfold. destruct (g_netbsd_cmdline meth site), (g_netbsd_exe meth site), (g_nested NetBSD meth site);
      apply forall_enum3; vm_compute; reflexivity.
  - probe_unfold. destruct (g_nested MacOS meth site); apply forall_enum3; vm_compute; reflexivity.
  - probe_unfold. destruct (g_sunos_cred meth site), (g_sunos_exe meth site), (g_sunos_path meth site), (g_sunos_thread meth site),
      (g_nested SunOS meth site); apply forall_enum3; vm_compute; reflexivity.
  - probe_unfold. destruct (g_aix_cwd meth site), (g_aix_io meth site); apply forall_enum3; vm_compute; reflexivity.
  - probe_unfold. destruct (g_win_partial meth), (g_win_fallback meth site); apply forall_enum3; vm_compute; reflexivity.
Qed.

(* for EVERY method / call names, e1, e2 and pid: the model's outcome lies in the acceptable set *)
Theorem probe_model : forall p meth site e1 e2 z,
  err_ok p e1 = true -> err_ok p e2 = true ->
  In (probe_outcome p meth site e1 e2 z) (probe_allowed p meth site e1 e2 z).
Proof.
  intros p meth site e1 e2 z H1 H2.
  pose proof (probe_b_all p meth site e1 e2 z) as H. unfold probe_ok_b in H. rewrite H1, H2 in H. cbn in H.
  apply existsb_exists in H as [r [Hin Hr]]. apply res_eqb_eq in Hr. subst. exact Hin.
Qed.

(* ... and a "no such process" / permission failure of the method's own call never ends as a bare OSError *)
Theorem probe_no_raw : forall p meth site e1 e2 z,
  err_ok p e1 = true -> err_ok p e2 = true ->
  nosuch_failure p meth site e1 || perm_failure e1 = true ->
  (forall s, recovery p meth site (Build_cond e1 s z) = None) ->
  probe_outcome p meth site e1 e2 z <> RRaw /\ probe_outcome p meth site e1 e2 z <> RRawProbe
  /\ probe_outcome p meth site e1 e2 z <> RVal.
Proof.
  intros p meth site e1 e2 z H1 H2 Hc Hr.
  pose proof (probe_model p meth site e1 e2 z H1 H2) as Hin.
  unfold probe_allowed in Hin. rewrite Hc in Hin. cbn [flat_map app] in Hin.
  rewrite !Hr in Hin. cbn [app] in Hin. rewrite !app_nil_r in Hin.
  assert (Ht : forall e r, In r (translations p meth site e) -> r = RNoSuch \/ r = RZombie \/ r = RDenied).
  { intros e r Hi. unfold translations in Hi.
    destruct (nosuch_failure p meth site e); [destruct (has_zombies p); cbn in Hi; intuition|].
    destruct (perm_failure e); cbn in Hi; intuition. }
  apply in_app_or in Hin as [Hi|Hi]; apply Ht in Hi; destruct Hi as [->|[->| ->]]; repeat split; discriminate.
Qed.

Example probe_nontrivial :
  probe_allowed MacOS "cmdline" "proc_cmdline" ESRCH EPERM false = [RNoSuch; RZombie; RDenied]
  /\ probe_outcome MacOS "cmdline" "proc_cmdline" ESRCH EPERM false = RNoSuch
  /\ probe_outcome FreeBSD "ppid" "proc_oneshot_info" EIO EPERM true = RDenied
  /\ probe_outcome SunOS "cmdline" "proc_name_and_args" ESRCH EIO false = RZombie.   (* kill(2) cannot fail with EIO: the PID is found *)
Proof. vm_compute. auto. Qed.

(* ------------------------------------------------------------------ the cached name, through the front end *)
(* after any history, a failing call carries exactly the name that name() last returned (None if it never returned) *)
Theorem fe_name_carried : forall pre cache r post,
  nth_error (fe_run cache (pre ++ ECall r :: post)) (List.length pre)
  = Some (ORes r (last_returned cache (fe_run cache pre))).
Proof.
  induction pre as [|ev pre IH]; intros cache r post.
  - reflexivity.
  - cbn [app fe_run List.length nth_error]. destruct ev as [k c h [|]|r0]; cbn [fe_step].
    + cbn [last_returned]. apply IH.
    + cbn [last_returned]. apply IH.
    + cbn [last_returned]. apply IH.
Qed.

(* in particular: right after a successful name() the carried name is the returned one, whatever came before *)
Corollary fe_name_after_name : forall pre cache k c h r,
  nth_error (fe_run cache (pre ++ [EName k c h true; ECall r])) (S (List.length pre))
  = Some (ORes r (Some (fe_name k c h))).
Proof.
  intros pre cache k c h r.
  replace (pre ++ [EName k c h true; ECall r]) with ((pre ++ [EName k c h true]) ++ ECall r :: []) by (rewrite <- app_assoc; reflexivity).
  replace (S (List.length pre)) with (List.length (pre ++ [EName k c h true])) by (rewrite app_length; cbn; lia).
  rewrite fe_name_carried. f_equal. f_equal.
  revert cache. induction pre as [|ev pre IH]; intro cache.
  - reflexivity.
  - cbn [app fe_run]. destruct ev as [k0 c0 h0 [|]|r0]; cbn [fe_step last_returned]; apply IH.
Qed.

(* the returned name: the kernel name itself when it is shorter than 15 bytes; otherwise it still starts with it *)
Lemma fe_name_short k c h : (Z.of_nat (List.length k) < 15) -> fe_name k c h = k.
Proof. intro H. unfold fe_name. replace (15 <=? Z.of_nat (List.length k)) with false by (symmetry; apply Z.leb_gt; lia). reflexivity. Qed.
Lemma prefixb_refl k : prefixb k k = true.
Proof. induction k as [|b r IH]; cbn; [reflexivity|]. rewrite Z.eqb_refl. exact IH. Qed.
Lemma fe_name_extends k c h : prefixb k (fe_name k c h) = true.
Proof.
  unfold fe_name. destruct ((15 <=? Z.of_nat (List.length k)) && h); [|apply prefixb_refl].
  destruct (prefixb k (basename c)) eqn:E; [exact E | apply prefixb_refl].
Qed.
Example fe_name_example :
  fe_name (bs "gnome-keyring-d") (bs "/usr/bin/gnome-keyring-daemon") true = bs "gnome-keyring-daemon"
  /\ fe_name (bs "gnome-keyring-d") (bs "/usr/bin/python3") true = bs "gnome-keyring-d"
  /\ fe_name (bs "bash") (bs "/bin/bash-extended") true = bs "bash".
Proof. vm_compute. auto. Qed.
