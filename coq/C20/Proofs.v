(* C20 -- proofs, part 2: the tables generated from the current code meet the contract and the
   model (finite facts about the program text, checked by computation and lifted). *)
From PV Require Import C20.Check C20.ProofsModel.
From PV Require Import Gen.C20_Tables.

(* ------------------------------------------------------------------ part 2: generated tables *)
Lemma Forall2_conj {A B} (P Q : A -> B -> Prop) l1 l2 :
  Forall2 P l1 l2 -> Forall2 Q l1 l2 -> Forall2 (fun a b => P a b /\ Q a b) l1 l2.
Proof.
  intros H. induction H; intros HQ; inversion HQ; subst; constructor; auto.
Qed.
Lemma Forall2_imp {A B} (P Q : A -> B -> Prop) l1 l2 :
  (forall a b, P a b -> Q a b) -> Forall2 P l1 l2 -> Forall2 Q l1 l2.
Proof. intros HPQ H. induction H; constructor; auto. Qed.

Lemma ladder_tables_spec : forallb block_spec_ok ladder_blocks = true.
Proof. vm_compute. reflexivity. Qed.
Lemma ladder_tables_model : forallb block_model_ok ladder_blocks = true.
Proof. vm_compute. reflexivity. Qed.

Theorem ladder_contract : forall b, In b ladder_blocks ->
  Forall2 (fun c g => known_class (l_plat b) (l_meth b) (l_site b) c = false ->
                      gout_ok (demanded (l_plat b) (l_meth b) (l_site b) c) g = true) (conds (l_plat b)) (l_outs b).
Proof.
  intros b Hin. pose proof (proj1 (forallb_forall _ _) ladder_tables_spec b Hin) as H.
  unfold block_spec_ok in H. apply forallb2_Forall2 in H.
  eapply Forall2_imp; [|exact H]. cbv beta. intros c g Hor Hk. rewrite Hk in Hor. exact Hor.
Qed.

Theorem ladder_tables_equal_model : forall b, In b ladder_blocks ->
  Forall2 (fun c g => gout_ok (Some (method_outcome (l_plat b) (l_meth b) (l_site b) c)) g = true) (conds (l_plat b)) (l_outs b).
Proof.
  intros b Hin. pose proof (proj1 (forallb_forall _ _) ladder_tables_model b Hin) as H.
  apply forallb2_Forall2 in H. exact H.
Qed.

(* the probe reaches the ladders: number of blocks and of fired outcomes is not trivial *)
Definition fired (g : gout) : bool := match g with GX _ _ _ => true | _ => false end.
Example ladder_tables_nontrivial :
  (150 <=? Z.of_nat (List.length ladder_blocks)) = true /\
  (5000 <=? Z.of_nat (List.length (filter fired (flat_map l_outs ladder_blocks)))) = true /\
  forallb (fun p => existsb (fun b => plat_eqb (l_plat b) p) ladder_blocks) all_plats = true.
Proof. vm_compute. auto. Qed.

(* the formerly excluded block is there (the theorem above is not vacuous about it) *)
Example ppid_block_present :
  existsb (fun b => plat_eqb (l_plat b) Windows && String.eqb (l_meth b) "ppid" && String.eqb (l_site b) "ppid_map"
                    && existsb fired (l_outs b)) ladder_blocks = true.
Proof. vm_compute. reflexivity. Qed.

(* the excluded class really occurs in the probed code *)
Theorem pid0_unlisted_in_tables :
  exists b, In b ladder_blocks /\ l_plat b = SunOS /\
    forallb2 (fun c g => gout_ok (demanded (l_plat b) (l_meth b) (l_site b) c) g) (conds (l_plat b)) (l_outs b) = false.
Proof.
  destruct (find (fun b => plat_eqb (l_plat b) SunOS && negb (forallb2 (fun c g => gout_ok (demanded (l_plat b) (l_meth b) (l_site b) c) g)
                                                                  (conds (l_plat b)) (l_outs b))) ladder_blocks) as [b|] eqn:E;
    [| vm_compute in E; discriminate].
  apply find_some in E as [Hin Hb]. apply andb_true_iff in Hb as [Hp Hf].
  exists b. repeat split; auto. apply plat_eqb_eq; exact Hp. apply negb_true_iff in Hf; exact Hf.
Qed.

Example mmaps_block_present :
  existsb (fun b => plat_eqb (l_plat b) Windows && String.eqb (l_meth b) "memory_maps" && String.eqb (l_site b) "QueryDosDevice"
                    && existsb fired (l_outs b)) ladder_blocks = true.
Proof. vm_compute. reflexivity. Qed.

(* --- every native status code of every PROC_STATUSES *)
Lemma status_tables_ok :
  forallb sblock_spec_ok status_blocks && forallb sblock_model_ok status_blocks
  && forallb srow_ok status_rows && sblocks_complete status_rows ladder_blocks status_blocks = true.
Proof. vm_compute. reflexivity. Qed.

Theorem zombie_by_status_code : forall b, In b status_blocks ->
  Forall2 (fun z g => gout_ok (demanded (sb_plat b) (sb_meth b) (sb_site b) (scond (sb_plat b) (sb_code b) z)) g = true
                      /\ gout_ok (Some (method_outcome (sb_plat b) (sb_meth b) (sb_site b) (scond (sb_plat b) (sb_code b) z))) g = true)
          [false; true] (sb_outs b).
Proof.
  intros b Hin. pose proof status_tables_ok as H.
  apply andb_true_iff in H as [H _]. apply andb_true_iff in H as [H _]. apply andb_true_iff in H as [H1 H2].
  pose proof (proj1 (forallb_forall _ _) H1 b Hin) as Hs. pose proof (proj1 (forallb_forall _ _) H2 b Hin) as Hm.
  apply forallb2_Forall2 in Hs. apply forallb2_Forall2 in Hm.
  exact (Forall2_conj _ _ _ _ Hs Hm).
Qed.

Theorem status_codes_documented : forall r, In r status_rows -> srow_ok r = true.
Proof.
  intros r Hin. pose proof status_tables_ok as H.
  apply andb_true_iff in H as [H _]. apply andb_true_iff in H as [_ H]. exact (proj1 (forallb_forall _ _) H r Hin).
Qed.

Theorem status_sweep_complete : sblocks_complete status_rows ladder_blocks status_blocks = true.
Proof. pose proof status_tables_ok as H. apply andb_true_iff in H as [_ H]. exact H. Qed.

Example status_sweep_nontrivial :
  (900 <=? Z.of_nat (List.length status_blocks)) = true
  /\ existsb (fun b => plat_eqb (sb_plat b) OpenBSD && String.eqb (sb_code b) "SDEAD"
                      && existsb (fun g => match g with GX RZombie _ _ => true | _ => false end) (sb_outs b)) status_blocks = true.
Proof. vm_compute. auto. Qed.

(* --- slot maps *)
Lemma smaps_ok : forallb smap_bijective slot_maps && forallb smap_native_ok slot_maps && smaps_complete slot_maps = true.
Proof. vm_compute. reflexivity. Qed.

Theorem slot_maps_bijective : forall m, In m slot_maps ->
  forall i, In i (zseq 0 (List.length (m_slots m))) -> count_z i (map snd (m_slots m)) = 1%nat.
Proof.
  intros m Hin i Hi. pose proof smaps_ok as H. apply andb_true_iff in H as [H _]. apply andb_true_iff in H as [H _].
  pose proof (proj1 (forallb_forall _ _) H m Hin) as Hm. unfold smap_bijective in Hm.
  cbv beta zeta in Hm. rewrite map_length in Hm.
  pose proof (proj1 (forallb_forall _ _) Hm i Hi) as Hc. apply Nat.eqb_eq in Hc. exact Hc.
Qed.

Theorem slot_maps_match_native : forall m, In m slot_maps -> smap_native_ok m = true.
Proof.
  intros m Hin. pose proof smaps_ok as H. apply andb_true_iff in H as [H _]. apply andb_true_iff in H as [_ H].
  exact (proj1 (forallb_forall _ _) H m Hin).
Qed.

Theorem slot_maps_complete : forall p n, In p all_plats -> In n (maps_of p) -> exists m, find_smap p n slot_maps = Some m.
Proof.
  intros p n Hp Hn. pose proof smaps_ok as H. apply andb_true_iff in H as [_ H]. unfold smaps_complete in H.
  pose proof (proj1 (forallb_forall _ _) H p Hp) as H1. pose proof (proj1 (forallb_forall _ _) H1 n Hn) as H2.
  cbv beta in H2. revert H2. destruct (find_smap p n slot_maps) as [m|]; intro H2; [eauto | cbn in H2; discriminate].
Qed.

(* --- slot usage *)
Lemma usage_ok : forallb (row_ok) usage_rows && usage_complete usage_rows = true.
Proof. vm_compute. reflexivity. Qed.

Theorem methods_use_documented_slots : forall u d, In u usage_rows ->
  doc_layout (u_plat u) (u_meth u) (u_variant u) = Some d ->
  fields_ok u d = true /\ type_ok u d = true.
Proof.
  intros u d Hin Hd. pose proof usage_ok as H. apply andb_true_iff in H as [H _].
  pose proof (proj1 (forallb_forall _ _) H u Hin) as Hu. unfold row_ok in Hu. rewrite Hd in Hu.
  apply andb_true_iff in Hu as [Hu _]. apply andb_true_iff in Hu as [Hu _]. apply andb_true_iff in Hu as [Hf Ht]. split; assumption.
Qed.

Theorem methods_depend_on_documented_slot : forall u, In u usage_rows -> deps_ok u = true.
Proof.
  intros u Hin. pose proof usage_ok as H. apply andb_true_iff in H as [H _].
  pose proof (proj1 (forallb_forall _ _) H u Hin) as Hu. unfold row_ok in Hu.
  apply andb_true_iff in Hu as [Hu _]. apply andb_true_iff in Hu as [_ Hd]. exact Hd.
Qed.

Theorem usage_rows_complete : forall p m v, In (p, m, v) doc_keys -> exists u, find_urow p m v usage_rows = Some u.
Proof.
  intros p m v Hin. pose proof usage_ok as H. apply andb_true_iff in H as [_ H]. unfold usage_complete in H.
  pose proof (proj1 (forallb_forall _ _) H (p, m, v) Hin) as Hk.
  cbv beta iota in Hk. revert Hk. destruct (find_urow p m v usage_rows) as [u|]; intro Hk; [eauto | discriminate].
Qed.

Example doc_keys_nontrivial : (100 <=? Z.of_nat (List.length doc_keys)) = true.
Proof. vm_compute. reflexivity. Qed.

(* the formerly excluded rows are there: gids() on the three platforms, terminal() on Solaris *)
Example gids_rows_present :
  forallb (fun p => match find_urow p "gids" "" usage_rows with Some u => String.eqb (u_type u) "pgids" | None => false end)
          [MacOS; SunOS; AIX] = true
  /\ (match find_urow SunOS "terminal" "" usage_rows with Some u => deps_ok u | None => false end) = true.
Proof. vm_compute. auto. Qed.

(* --- names *)
Lemma names_tables_ok : forallb names_ok names_rows && names_complete names_rows = true.
Proof. vm_compute. reflexivity. Qed.

Theorem names_exposed : forall n, In n names_rows ->
  (forall d, In d (doc_names (nm_plat n)) -> In d (nm_all n)) /\
  (forall d, In d (doc_methods (nm_plat n)) -> In d (nm_methods n)) /\
  (forall a, In a (nm_all n) -> In a (nm_dir n)).
Proof.
  intros n Hin. pose proof names_tables_ok as H. apply andb_true_iff in H as [H _].
  pose proof (proj1 (forallb_forall _ _) H n Hin) as Hn. unfold names_ok in Hn.
  apply andb_true_iff in Hn as [Hn H3]. apply andb_true_iff in Hn as [H1 H2].
  repeat split; intros x Hx; apply mem_In.
  - exact (proj1 (forallb_forall _ _) H1 x Hx).
  - exact (proj1 (forallb_forall _ _) H2 x Hx).
  - exact (proj1 (forallb_forall _ _) H3 x Hx).
Qed.

Theorem names_all_platforms : forall p, In p all_plats -> exists n, In n names_rows /\ nm_plat n = p.
Proof.
  intros p Hp. pose proof names_tables_ok as H. apply andb_true_iff in H as [_ H]. unfold names_complete in H.
  pose proof (proj1 (forallb_forall _ _) H p Hp) as H1. apply existsb_exists in H1 as [n [Hin Hn]].
  exists n. split; [exact Hin | apply plat_eqb_eq; exact Hn].
Qed.

(* --- front end rows equal the model *)
Lemma nic_tables_ok : forallb nic_ok nic_rows = true.
Proof. vm_compute. reflexivity. Qed.
Theorem frontend_rows_equal_model : forall r, In r nic_rows -> nic_ok r = true.
Proof. intros r Hin. exact (proj1 (forallb_forall _ _) nic_tables_ok r Hin). Qed.

Lemma pair_tables_ok :
  forallb pblock_ok pair_blocks && pblocks_complete pair_blocks && forallb rrow_ok retry_rows
  && forallb wrow_ok wait_rows && wrows_complete wait_rows = true.
Proof. vm_compute. reflexivity. Qed.

Theorem pair_contract : forall b, In b pair_blocks ->
  Forall2 (fun q g => match q with (e1, e2, s, z) =>
             (pair_known (pb_plat b) (pb_meth b) (pb_site1 b) (pb_site2 b) e1 e2 s z = false ->
              gout_ok (pair_demanded (pb_plat b) (pb_meth b) (pb_site1 b) (pb_site2 b) e1 e2 s z) g = true)
             /\ gout_ok (Some (pair_outcome (pb_plat b) (pb_meth b) (pb_site1 b) (pb_site2 b) e1 e2 s z)) g = true end)
          (pair_conds (pb_plat b)) (pb_outs b).
Proof.
  intros b Hin. pose proof pair_tables_ok as H.
  apply andb_true_iff in H as [H _]. apply andb_true_iff in H as [H _]. apply andb_true_iff in H as [H _]. apply andb_true_iff in H as [H _].
  pose proof (proj1 (forallb_forall _ _) H b Hin) as Hb. unfold pblock_ok in Hb. apply forallb2_Forall2 in Hb.
  eapply Forall2_imp; [|exact Hb]. cbv beta. intros [[[e1 e2] s] z] g Hq.
  apply andb_true_iff in Hq as [Ha Hm]. split; [|exact Hm]. intro Hk. rewrite Hk in Ha. exact Ha.
Qed.

Theorem pair_blocks_complete : pblocks_complete pair_blocks = true.
Proof.
  pose proof pair_tables_ok as H.
  apply andb_true_iff in H as [H _]. apply andb_true_iff in H as [H _]. apply andb_true_iff in H as [H _]. apply andb_true_iff in H as [_ H].
  exact H.
Qed.

Theorem retry_rows_ok : forall r, In r retry_rows -> rrow_ok r = true.
Proof.
  intros r Hin. pose proof pair_tables_ok as H. apply andb_true_iff in H as [H _]. apply andb_true_iff in H as [H _].
  apply andb_true_iff in H as [_ H]. exact (proj1 (forallb_forall _ _) H r Hin).
Qed.

Theorem wait_rows_ok : (forall r, In r wait_rows -> wrow_ok r = true) /\ wrows_complete wait_rows = true.
Proof.
  pose proof pair_tables_ok as H. apply andb_true_iff in H as [H Hc]. apply andb_true_iff in H as [_ H].
  split; [|exact Hc]. intros r Hin. exact (proj1 (forallb_forall _ _) H r Hin).
Qed.

(* ------------------------------------------------------------------ named tuples of the system-wide functions *)
Lemma sysfields_ok : forallb sfrow_ok sysfield_rows && sfrows_complete sysfield_rows = true.
Proof. vm_compute. reflexivity. Qed.

Theorem names_fields_documented : forall r, In r sysfield_rows ->
  same_set (sf_fields r) (doc_sys_fields (sf_plat r) (sf_fn r)) = true.
Proof.
  intros r Hin. pose proof sysfields_ok as H. apply andb_true_iff in H as [H _].
  exact (proj1 (forallb_forall _ _) H r Hin).
Qed.

Theorem names_fields_complete : sfrows_complete sysfield_rows = true.
Proof. pose proof sysfields_ok as H. apply andb_true_iff in H as [_ H]. exact H. Qed.


(* ------------------------------------------------------------------ every native call of the method fails *)
Lemma all_tables_ok : forallb ablock_ok all_blocks && ablocks_complete ladder_blocks all_blocks = true.
Proof. vm_compute. reflexivity. Qed.

Theorem allfail_contract : forall b, In b all_blocks ->
  Forall2 (fun c g => (known_class (l_plat b) (l_meth b) (l_site b) c = false ->
                       gout_ok (all_demanded (l_plat b) (l_meth b) (l_site b) c) g = true)
                      /\ gout_ok (Some (all_outcome (l_plat b) (l_meth b) (l_site b) c)) g = true) (conds (l_plat b)) (l_outs b).
Proof.
  intros b Hin. pose proof all_tables_ok as H. apply andb_true_iff in H as [H _].
  pose proof (proj1 (forallb_forall _ _) H b Hin) as Hb. unfold ablock_ok in Hb. apply forallb2_Forall2 in Hb.
  eapply Forall2_imp; [|exact Hb]. cbv beta. intros c g Hq.
  apply andb_true_iff in Hq as [Ha Hm]. split; [|exact Hm]. intro Hk. rewrite Hk in Ha. exact Ha.
Qed.

Theorem allfail_complete : ablocks_complete ladder_blocks all_blocks = true.
Proof. pose proof all_tables_ok as H. apply andb_true_iff in H as [_ H]. exact H. Qed.

(* 0 and -1 in a native slot that a field copies arrive in that field, for every probed row *)
Theorem falsy_slots_carried : forall u, In u usage_rows -> u_falsy_bad u = [].
Proof.
  intros u Hin. pose proof usage_ok as H. apply andb_true_iff in H as [H _].
  pose proof (proj1 (forallb_forall _ _) H u Hin) as Hu. unfold row_ok in Hu.
  apply andb_true_iff in Hu as [_ Hf]. destruct (u_falsy_bad u); [reflexivity | discriminate].
Qed.

(* ------------------------------------------------------------------ double fault: call fails with e1, probes with e2 *)
Lemma probe_tables_ok : forallb prblock_ok probe_blocks && prblocks_complete ladder_blocks probe_blocks = true.
Proof. vm_compute. reflexivity. Qed.

Theorem probe_contract : forall b, In b probe_blocks ->
  Forall2 (fun q g => match q with (e1, e2, z) =>
             gout_in (probe_allowed (l_plat b) (l_meth b) (l_site b) e1 e2 z) g = true
             /\ gout_ok (Some (probe_outcome (l_plat b) (l_meth b) (l_site b) e1 e2 z)) g = true end)
          (probe_conds (l_plat b)) (l_outs b).
Proof.
  intros b Hin. pose proof probe_tables_ok as H. apply andb_true_iff in H as [H _].
  pose proof (proj1 (forallb_forall _ _) H b Hin) as Hb. unfold prblock_ok in Hb. apply forallb2_Forall2 in Hb.
  eapply Forall2_imp; [|exact Hb]. cbv beta. intros [[e1 e2] z] g Hq.
  apply andb_true_iff in Hq as [Ha Hm]. split; assumption.
Qed.

Theorem probe_blocks_complete : prblocks_complete ladder_blocks probe_blocks = true.
Proof. pose proof probe_tables_ok as H. apply andb_true_iff in H as [_ H]. exact H. Qed.

Example probe_tables_nontrivial :
  (10000 <=? Z.of_nat (List.length (filter fired (flat_map l_outs probe_blocks)))) = true.
Proof. vm_compute. reflexivity. Qed.

(* ------------------------------------------------------------------ the cached name through the front end *)
Lemma fename_tables_ok : forallb frow_ok fename_rows && frows_complete fename_rows = true.
Proof. vm_compute. reflexivity. Qed.
Theorem frontend_cached_name_rows : (forall r, In r fename_rows -> frow_ok r = true) /\ frows_complete fename_rows = true.
Proof.
  pose proof fename_tables_ok as H. apply andb_true_iff in H as [H Hc]. split; [|exact Hc].
  intros r Hin. exact (proj1 (forallb_forall _ _) H r Hin).
Qed.
