(* C20 -- the front-end post-processing of net_if_addrs(): for every address and prefix the
   model's Windows IPv4 broadcast address has all host bits set; for every MAC of 1..6 octets
   the padding yields six octets. *)
From PV Require Import C20.Check.
From Coq Require Import Lia.

(* ------------------------------------------------------------------ broadcast *)
Lemma In_zseq : forall n s x, s <= x < s + Z.of_nat n -> In x (zseq s n).
Proof.
  induction n as [|n IH]; intros s x H.
  - cbn in H. lia.
  - cbn [zseq]. destruct (Z.eq_dec x s) as [->|Hne]; [left; reflexivity|].
    right. apply IH. lia.
Qed.

Lemma prefix_roundtrip_all :
  forallb (fun k => match prefix_from_mask 32 (netmask_of 32 k) with Some k' => k' =? k | None => false end) (zseq 0 33) = true.
Proof. vm_compute. reflexivity. Qed.

Lemma prefix_roundtrip k : 0 <= k <= 32 -> prefix_from_mask 32 (netmask_of 32 k) = Some k.
Proof.
  intro Hk. pose proof (proj1 (forallb_forall _ _) prefix_roundtrip_all k) as H.
  assert (Hin : In k (zseq 0 33)) by (apply In_zseq; cbn; lia).
  specialize (H Hin). cbv beta in H.
  destruct (prefix_from_mask 32 (netmask_of 32 k)) as [k'|]; [|discriminate].
  apply Z.eqb_eq in H. subst. reflexivity.
Qed.

Lemma netmask_shiftl w j : 0 <= j <= w -> 2 ^ w - 2 ^ j = Z.shiftl (Z.ones (w - j)) j.
Proof.
  intro Hj. rewrite Z.shiftl_mul_pow2 by lia. rewrite Z.ones_equiv.
  replace (Z.pred (2 ^ (w - j)) * 2 ^ j) with (2 ^ (w - j) * 2 ^ j - 2 ^ j) by lia.
  rewrite <- Z.pow_add_r by lia. replace (w - j + j) with w by lia. reflexivity.
Qed.

(* (a & netmask) | hostmask = a | hostbits, for every width, address and host-part length *)
Lemma bcast_bits w a j : 0 <= a < 2 ^ w -> 0 <= j <= w ->
  Z.lor (Z.land a (2 ^ w - 2 ^ j)) (2 ^ w - 1 - (2 ^ w - 2 ^ j)) = Z.lor a (2 ^ j - 1).
Proof.
  intros Ha Hj.
  replace (2 ^ w - 1 - (2 ^ w - 2 ^ j)) with (2 ^ j - 1) by lia.
  replace (2 ^ j - 1) with (Z.ones j) by (rewrite Z.ones_equiv; lia).
  rewrite netmask_shiftl by lia.
  apply Z.bits_inj'. intros n Hn.
  rewrite !Z.lor_spec, Z.land_spec, Z.shiftl_spec by lia.
  destruct (Z.ltb_spec n j) as [Hlt|Hge].
  - rewrite (Z.ones_spec_low j n) by lia. rewrite !orb_true_r. reflexivity.
  - rewrite (Z.ones_spec_high j n) by lia. rewrite !orb_false_r.
    destruct (Z.ltb_spec n w) as [Hltw|Hgew].
    + rewrite (Z.ones_spec_low (w - j) (n - j)) by lia. apply andb_true_r.
    + assert (Z.testbit a n = false) as ->.
      { destruct (Z.eq_dec a 0) as [->|Hnz]; [apply Z.bits_0|].
        apply Z.bits_above_log2; [lia|].
        assert (Z.log2 a < w) by (apply Z.log2_lt_pow2; lia). lia. }
      reflexivity.
Qed.

Lemma bcast_prefix_spec w a k : 0 <= a < 2 ^ w -> 0 <= k <= w -> bcast_prefix w a k = spec_bcast w a k.
Proof. intros Ha Hk. unfold bcast_prefix, spec_bcast, netmask_of. apply bcast_bits; lia. Qed.

(* IPv4, netmask in address form (what the Windows native layer hands over) *)
Theorem frontend_broadcast : forall a k, 0 <= a < 2 ^ 32 -> 0 <= k <= 32 ->
  post_bcast Windows {| n_fam := 0; n_addr := []; n_addrz := a; n_mask := MAddr (netmask_of 32 k); n_bcast := None |}
  = Some (spec_bcast 32 a k).
Proof.
  intros a k Ha Hk. unfold post_bcast. cbn [n_fam n_mask n_addrz n_bcast].
  change (0 =? 0) with true. cbv iota.
  unfold broadcast. rewrite prefix_roundtrip by assumption.
  rewrite bcast_prefix_spec by assumption. reflexivity.
Qed.

(* IPv4 and IPv6, netmask given as a prefix length *)
Theorem frontend_broadcast_prefix : forall fam w a k, (fam = 0 /\ w = 32) \/ (fam = 1 /\ w = 128) ->
  0 <= a < 2 ^ w -> 0 <= k <= w ->
  post_bcast Windows {| n_fam := fam; n_addr := []; n_addrz := a; n_mask := MPrefix k; n_bcast := None |}
  = Some (spec_bcast w a k).
Proof.
  intros fam w a k [[-> ->]|[-> ->]] Ha Hk; unfold post_bcast; cbn [n_fam n_mask n_addrz n_bcast].
  - change (0 =? 0) with true. cbv iota.
    replace ((0 <=? k) && (k <=? 32)) with true by (symmetry; apply andb_true_iff; split; apply Z.leb_le; lia).
    rewrite bcast_prefix_spec by assumption. reflexivity.
  - change (1 =? 0) with false. change (1 =? 1) with true. cbv iota.
    replace ((0 <=? k) && (k <=? 128)) with true by (symmetry; apply andb_true_iff; split; apply Z.leb_le; lia).
    rewrite bcast_prefix_spec by assumption. reflexivity.
Qed.

(* IPv6, netmask in address form (the form psutil's native layers use): converted through its number of one bits *)
Lemma popcount_roundtrip_all :
  forallb (fun k => popcount (netmask_of 128 k) =? k) (zseq 0 129) = true.
Proof. vm_compute. reflexivity. Qed.
Lemma popcount_netmask k : 0 <= k <= 128 -> popcount (netmask_of 128 k) = k.
Proof.
  intro Hk. pose proof (proj1 (forallb_forall _ _) popcount_roundtrip_all k) as H.
  assert (Hin : In k (zseq 0 129)) by (apply In_zseq; cbn; lia).
  specialize (H Hin). cbv beta in H. apply Z.eqb_eq in H. exact H.
Qed.

Theorem frontend_broadcast_v6_addr : forall a k, 0 <= a < 2 ^ 128 -> 0 <= k <= 128 ->
  post_bcast Windows {| n_fam := 1; n_addr := []; n_addrz := a; n_mask := MAddr (netmask_of 128 k); n_bcast := None |}
  = Some (spec_bcast 128 a k).
Proof.
  intros a k Ha Hk. unfold post_bcast. cbn [n_fam n_mask n_addrz n_bcast].
  change (1 =? 0) with false. change (1 =? 1) with true. cbv iota.
  rewrite popcount_netmask by assumption. rewrite bcast_prefix_spec by assumption. reflexivity.
Qed.

(* the code before fix 0a57bb9 never turned an address-form IPv6 netmask into a broadcast address *)
Theorem ipv6_addrform_legacy_refuted : forall a k b,
  post_bcast_pre_0a57bb9 Windows {| n_fam := 1; n_addr := []; n_addrz := a; n_mask := MAddr (netmask_of 128 k); n_bcast := b |} = b.
Proof. intros. reflexivity. Qed.

(* broadcast is None-preserving for a mask that is neither a netmask nor a host mask (ipaddress raises) *)
Example broadcast_noncontiguous : broadcast 32 3232235783 4278255360 = None.
Proof. vm_compute. reflexivity. Qed.
Example broadcast_example : broadcast 32 3232235783 4294967040 = Some 3232236031.   (* 192.168.1.7/24 -> 192.168.1.255 *)
Proof. vm_compute. reflexivity. Qed.

(* ------------------------------------------------------------------ MAC padding *)
Lemma count_byte_app b x y : count_byte b (x ++ y) = (count_byte b x + count_byte b y)%nat.
Proof.
  induction x as [|c r IH]; cbn [count_byte app]; [reflexivity|].
  destruct (c =? b); rewrite IH; reflexivity.
Qed.

Lemma join_cons2 sep o o' r : join_octets sep (o :: o' :: r) = o ++ sep :: join_octets sep (o' :: r).
Proof. reflexivity. Qed.

Lemma count_join sep os : os <> [] -> Forall (fun o => count_byte sep o = 0%nat) os ->
  count_byte sep (join_octets sep os) = (List.length os - 1)%nat.
Proof.
  induction os as [|o r IH]; intros Hne Hf; [contradiction|].
  inversion Hf as [|? ? Ho Hr]; subst.
  destruct r as [|o' r'].
  - cbn [join_octets List.length]. rewrite Ho. reflexivity.
  - rewrite join_cons2, count_byte_app. cbn [count_byte]. rewrite Z.eqb_refl, Ho.
    rewrite IH by (auto; discriminate). cbn [List.length]. lia.
Qed.

Lemma join_snoc sep os o : os <> [] -> join_octets sep (os ++ [o]) = join_octets sep os ++ sep :: o.
Proof.
  induction os as [|x r IH]; intro Hne; [contradiction|].
  destruct r as [|y r'].
  - reflexivity.
  - change ((x :: y :: r') ++ [o]) with (x :: (y :: r') ++ [o]).
    change ((y :: r') ++ [o]) with (y :: (r' ++ [o])) at 1.
    rewrite join_cons2. change (y :: r' ++ [o]) with ((y :: r') ++ [o]).
    rewrite IH by discriminate. rewrite join_cons2. rewrite <- app_assoc. reflexivity.
Qed.

Lemma pad_times_join n : forall sep os, os <> [] ->
  pad_times n sep (join_octets sep os) = join_octets sep (os ++ repeat [48; 48] n).
Proof.
  induction n as [|n IH]; intros sep os Hne.
  - cbn [pad_times repeat]. rewrite app_nil_r. reflexivity.
  - cbn [pad_times repeat].
    replace (join_octets sep os ++ [sep; 48; 48]) with (join_octets sep (os ++ [[48; 48]])) by (apply join_snoc; exact Hne).
    rewrite IH by (destruct os; discriminate).
    rewrite <- app_assoc. reflexivity.
Qed.

Theorem frontend_mac : forall p os, let sep := match p with Windows => 45 | _ => 58 end in
  (1 <= List.length os <= 6)%nat -> Forall (fun o => count_byte sep o = 0%nat) os ->
  post_addr p {| n_fam := 2; n_addr := join_octets sep os; n_addrz := 0; n_mask := MNone; n_bcast := None |}
  = spec_mac sep os.
Proof.
  intros p os sep Hlen Hf. unfold post_addr. cbn [n_fam n_addr]. change (2 =? 2) with true. cbv iota.
  fold sep. unfold pad_mac, spec_mac.
  assert (Hne : os <> []) by (destruct os; [cbn in Hlen; lia | discriminate]).
  rewrite count_join by assumption. rewrite pad_times_join by assumption.
  replace (5 - (List.length os - 1))%nat with (6 - List.length os)%nat by lia. reflexivity.
Qed.

Example mac_example : pad_mac 58 (bs "aa:bb") = bs "aa:bb:00:00:00:00".
Proof. vm_compute. reflexivity. Qed.
