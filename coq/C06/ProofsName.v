(* C06 -- proofs, part 8: the public name() over histories on one Process object. *)
From PV Require Import C06.Spec C06.Lib C06.ProofsStat.

(* the answer never depends on what the object remembers (POSIX: windows = false) ... *)
Theorem name_step_memoryless mem mem' k :
  fst (name_step false mem k) = fst (name_step false mem' k).
Proof.
  unfold name_step. cbv iota.
  destruct (wrapped name (ns_stat k) (ns_stat k) (ns_stat k) (stat_exists k) (stat_exists k)); reflexivity.
Qed.

(* ... so every answer of a history is a function of the kernel state at that moment only *)
Theorem name_hist_independent mem ks :
  name_hist false mem ks = map (fun k => fst (name_step false None k)) ks.
Proof.
  revert mem. induction ks as [|k ks IH]; intros mem; [reflexivity|].
  cbn [name_hist map]. rewrite IH. f_equal. apply name_step_memoryless.
Qed.

(* the same histories seen through two objects with different pasts agree from then on *)
Corollary name_hist_any_past mem mem' ks : name_hist false mem ks = name_hist false mem' ks.
Proof. now rewrite !name_hist_independent. Qed.

(* whereas a front end that answers from its memory (the Windows branch) is history dependent *)
Theorem name_cached_refuted :
  exists mem k, fst (name_step true mem k) <> fst (name_step true None k).
Proof.
  exists (Some (bs "old")), {| ns_stat := SData (k_stat (ex_short 52)); ns_cmd := CEACCES |}.
  vm_compute. discriminate.
Qed.

Lemma state_z_zombie r : wf_kstat r = true -> is_zombie (k_stat r) = state_z r.
Proof.
  intros H. unfold state_z.
  destruct (fld 3 r) as [t|] eqn:F.
  - rewrite (is_zombie_stat r t H F). destruct t as [|c [|d t]]; reflexivity.
  - destruct (stat_roundtrip r H) as (x & Hx & _).
    pose proof (spec_pstat_fields r x Hx) as (_ & F3 & _). congruence.
Qed.

(* and that function is the documented one *)
Theorem name_now_exact mem k x :
  wf_kstat (n_stat k) = true -> spec_name_now k = Some x ->
  fst (name_step false mem (now_state k)) = Val x.
Proof.
  intros H Hs. unfold name_step. cbv iota. unfold now_state. cbn [ns_stat ns_cmd stat_exists wrapped].
  rewrite (name_exact _ H). unfold spec_name_now in Hs.
  destruct (Nat.ltb_spec (length (k_comm (n_stat k))) 15) as [L|L].
  - injection Hs as <-. assert ((15 <=? length (k_comm (n_stat k)))%nat = false) as -> by (apply Nat.leb_gt; lia).
    reflexivity.
  - assert ((15 <=? length (k_comm (n_stat k)))%nat = true) as -> by (apply Nat.leb_le; lia).
    unfold cmdline_pub. cbn [ns_stat ns_cmd zombie_read stat_exists]. rewrite (state_z_zombie _ H).
    destruct (n_cmd k) as [d| | |].
    + destruct d as [|c d].
      * injection Hs as <-. destruct (state_z (n_stat k)); reflexivity.
      * destruct (cmdline_args (c :: d)) as [|a0 rest]; [injection Hs as <-; reflexivity|].
        cbn [fst]. destruct (prefixb (k_comm (n_stat k)) (basename a0)); injection Hs as <-; reflexivity.
    + destruct (state_z (n_stat k)); [injection Hs as <-; reflexivity|discriminate].
    + destruct (state_z (n_stat k)); [injection Hs as <-; reflexivity|discriminate].
    + injection Hs as <-. reflexivity.
Qed.

(* a whole history of kernel-formatted states: the list of documented answers, whatever came before *)
Theorem name_hist_exact mem ks xs :
  forallb (fun k => wf_kstat (n_stat k)) ks = true ->
  map spec_name_now ks = map Some xs ->
  name_hist false mem (map now_state ks) = map Val xs.
Proof.
  intros Hwf Hs. rewrite name_hist_independent. revert xs Hs.
  induction ks as [|k ks IH]; intros xs Hs.
  - destruct xs; [reflexivity|discriminate].
  - destruct xs as [|x xs]; [discriminate|]. cbn [map] in *. injection Hs as H1 H2.
    cbn [forallb] in Hwf. apply andb_true_iff in Hwf as [Hk Hks].
    rewrite (name_now_exact None k x Hk H1). f_equal. now apply IH.
Qed.

(* gnome-keyring-d: extended, exec to a sibling program, argv[0] no longer matching, zombie *)
Definition ex_rec (state : string) : kstat :=
  {| k_pid := bs "4242"; k_comm := bs "gnome-keyring-d";
     k_after := bs state :: map (fun i => bs "7") (seq 0 49) |}.
Definition ex_history : list know :=
  [ {| n_stat := ex_rec "S"; n_cmd := CData (bs "/usr/bin/gnome-keyring-daemon" ++ [0] ++ bs "--start" ++ [0]) |};
    {| n_stat := ex_rec "S"; n_cmd := CData (bs "/opt/gnome-keyring-dump" ++ [0]) |};
    {| n_stat := ex_rec "S"; n_cmd := CData (bs "python3 gnome-keyring-daemon") |};
    {| n_stat := ex_rec "S"; n_cmd := CEACCES |};
    {| n_stat := ex_rec "Z"; n_cmd := CData [] |} ].
Example ex_history_spec :
  forallb (fun k => wf_kstat (n_stat k)) ex_history = true /\
  map spec_name_now ex_history
  = map Some [bs "gnome-keyring-daemon"; bs "gnome-keyring-dump"; bs "gnome-keyring-d"; bs "gnome-keyring-d"; bs "gnome-keyring-d"].
Proof. vm_compute. split; reflexivity. Qed.
